import WcModel.Proofs.PathlibViewsWalk
/-
  C16, `match` ⇔ `rglob` for literal patterns with SEVERAL segments `s₁/…/sₖ`: the regex side
  (`fsMatch_emLits`), the walker side (`denotes_emLits`) and the two joined
  (`matchReal_emLits_iff_denotes`).  Generalises `PathlibViewsMatch` / `PathlibViewsWalk`
  (`k = 1`), whose lemmas about the prefix globstar, the capture span and the walk are reused.
-/
namespace WcModel.PathlibViews
open WcModel

/-! ### strings -/

theorem joinSl_append (a b : List Name) (ha : a ≠ []) (hb : b ≠ []) :
    joinSl (a ++ b) = joinSl a ++ '/' :: joinSl b := by
  induction a with
  | nil => exact absurd rfl ha
  | cons x r ih =>
    by_cases hr : r = []
    · subst hr
      rw [List.singleton_append, joinSl_cons _ _ hb]; rfl
    · rw [List.cons_append, joinSl_cons _ _ (by simp [hr]), joinSl_cons _ _ hr, ih hr]
      simp

theorem joinSl_append_dir (ds b : List Name) (hb : b ≠ []) : joinSl (ds ++ b) = dirStr ds ++ joinSl b := by
  by_cases hd : ds = []
  · subst hd; simp [dirStr]
  · rw [joinSl_append ds b hd hb, dirStr_eq ds hd]; simp

theorem pieces_joinSl (cs : List Name) (hc : ∀ c ∈ cs, CompOK c) (tl : List Char) (htl : allSl tl = true) :
    pieces (joinSl cs ++ tl) = cs := by
  induction cs with
  | nil => simpa [joinSl] using pieces_allSl tl htl
  | cons a r ih =>
    obtain ⟨ha1, ha2⟩ := hc a List.mem_cons_self
    have hns : '/' ∉ a := fun h => ha2 '/' h rfl
    have hr := ih (fun c h => hc c (List.mem_cons_of_mem _ h))
    by_cases hre : r = []
    · subst hre
      simp only [joinSl]
      rw [pieces_append a tl hns ha1 (by
        cases tl with
        | nil => exact Or.inl rfl
        | cons x t =>
          simp only [allSl, List.all_cons, Bool.and_eq_true, beq_iff_eq] at htl
          rw [htl.1]; exact Or.inr ⟨t, rfl⟩), pieces_allSl tl htl]
    · rw [joinSl_cons _ _ hre, List.append_assoc, List.cons_append, pieces_piece a _ hns ha1, hr]

/-- **where a clean path can be cut in front of a text that starts a component**: only at a
    component boundary -/
theorem decomp_boundary : ∀ (comps : List Name), comps ≠ [] → (∀ c ∈ comps, CompOK c) →
    ∀ (P t tl : List Char), joinSl comps ++ tl = P ++ t → (P = [] ∨ P.getLast? = some '/') →
      t.head? ≠ some '/' → t ≠ [] → allSl tl = true →
      ∃ ds cs, comps = ds ++ cs ∧ cs ≠ [] ∧ P = dirStr ds ∧ t = joinSl cs ++ tl := by
  intro comps
  induction comps with
  | nil => intro h; exact absurd rfl h
  | cons c rest ih =>
    intro _ hc P t tl h hP hth htne htl
    by_cases hPe : P = []
    · subst hPe
      exact ⟨[], c :: rest, rfl, by simp, rfl, by simpa using h.symm⟩
    · have hPl : P.getLast? = some '/' := hP.resolve_left hPe
      obtain ⟨hc1, hc2⟩ := hc c List.mem_cons_self
      have hname : joinSl (c :: rest) ++ tl =
          c ++ (if rest = [] then tl else '/' :: (joinSl rest ++ tl)) := by
        by_cases hre : rest = []
        · subst hre; simp [joinSl]
        · rw [joinSl_cons _ _ hre]; simp [hre]
      rw [hname] at h
      rcases List.append_eq_append_iff.mp h with ⟨a, e1, e2⟩ | ⟨a, e1, e2⟩
      · -- P = c ++ a
        have hane : a ≠ [] := by
          rintro rfl
          rw [List.append_nil] at e1
          rw [e1] at hPl
          exact comp_getLast ⟨hc1, hc2⟩ hPl
        have hal : a.getLast? = some '/' := by rw [e1, getLast_append_ne _ _ hane] at hPl; exact hPl
        by_cases hre : rest = []
        · exfalso
          subst hre
          simp only [if_true] at e2
          have : allSl t = true := (allSl_append.mp (e2 ▸ htl)).2
          cases t with
          | nil => exact htne rfl
          | cons x t' =>
            simp only [allSl, List.all_cons, Bool.and_eq_true, beq_iff_eq] at this
            exact hth (by rw [this.1]; rfl)
        · simp only [hre, if_false] at e2
          cases a with
          | nil => exact absurd rfl hane
          | cons x a' =>
            simp only [List.cons_append, List.cons.injEq] at e2
            obtain ⟨hx, e3⟩ := e2
            subst hx
            have ha' : a' = [] ∨ a'.getLast? = some '/' := by
              by_cases h0 : a' = []
              · exact Or.inl h0
              · right; rw [getLast_cons_ne _ _ h0] at hal; exact hal
            obtain ⟨ds, cs, h1, h2, h3, h4⟩ := ih hre (fun x hx => hc x (List.mem_cons_of_mem _ hx)) a' t tl e3 ha' hth htne htl
            refine ⟨c :: ds, cs, by rw [h1]; rfl, h2, ?_, h4⟩
            rw [e1, h3]; simp [dirStr]
      · -- c = P ++ a : impossible, `P` ends in a separator
        exfalso
        have : '/' ∈ c := by rw [e1]; exact List.mem_append_left _ (List.mem_of_getLast? hPl)
        exact hc2 '/' this rfl

/-! ### the language of a literal pattern `s₁/…/sₖ` -/

/-- on texts that do not end in a newline (case-sensitive): the non-empty pieces are the
    segments, and the text does not begin with a separator -/
theorem PM_segs (cfg : Cfg) (hcs : cfg.caseSensitive = true) (segs : List Name) (hne : segs ≠ [])
    (hs : ∀ s ∈ segs, CompOK s) (t : List Char) (hnl : t.getLast? ≠ some '\n') :
    PM cfg (!cfg.caseSensitive) .start (joinSl segs) t ↔ (pieces t = segs ∧ t.head? ≠ some '/') := by
  rw [PM_split, hcs]
  simp only [Bool.not_true]
  have hd : dotNlTail LPos.start.after t = false := by
    cases h : dotNlTail LPos.start.after t with
    | false => rfl
    | true =>
      exfalso
      obtain ⟨pre, _, e | e⟩ := (C09path.dotNlTail_iff _ _).mp h
      · apply hnl; rw [e]; simp
      · apply hnl; rw [e]; simp
  have hpne := joinSl_ne_nil segs hne hs
  have hph := joinSl_head segs hs
  have hpl := joinSl_getLast segs hne hs
  have hpp : pieces (joinSl segs) = segs := by
    have := pieces_joinSl segs hs [] rfl
    simpa using this
  rw [PM0_start_spec false _ t hpne, hpp]
  constructor
  · rintro ⟨⟨h1, _, h3⟩, _⟩
    exact ⟨C09path.piecesEq_cs h3, fun h => hph (h1.mp h)⟩
  · rintro ⟨h1, h2⟩
    refine ⟨⟨⟨fun h => absurd h h2, fun h => absurd h hph⟩, fun h => absurd h hpl, ?_⟩, fun _ => hd⟩
    rw [h1]; exact C09path.piecesEq_refl _ _

/-! ### the regex on a path given by its components -/

theorem emLits_split (cfg : Cfg) (hcs : cfg.caseSensitive = true) (hrp : cfg.realpath = true)
    (segs : List Name) (hsne : segs ≠ []) (hs : ∀ s ∈ segs, CompOK s)
    (comps : List Name) (hne : comps ≠ []) (hc : ∀ c ∈ comps, CompOK c)
    (tl : List Char) (htl : allSl tl = true) (hnl : (joinSl comps ++ tl).getLast? ≠ some '\n') (a1 : St) (b : Bool)
    (hG : Re.M ⟨true, !cfg.caseSensitive⟩ emG ⟨true, joinSl comps ++ tl⟩ a1)
    (hR : Re.M ⟨true, !cfg.caseSensitive⟩ (seqRe (emRestList cfg (joinSl segs))) a1 ⟨b, []⟩) :
    ∃ ds, comps = ds ++ segs ∧ (∀ d ∈ ds, d.head? ≠ some '.') ∧
      (joinSl comps ++ tl).length - a1.rest.length = (joinSl ds).length := by
  have hpne := joinSl_ne_nil segs hsne hs
  have hph := joinSl_head segs hs
  obtain ⟨g, e, hf, hg⟩ := (emG_iff _ _ _).mp hG
  simp only at e hf hg
  have hnl1 : a1.rest.getLast? ≠ some '\n' := suffix_getLast_ne (e ▸ hnl)
  obtain ⟨sl, t, e2, hsl, hst, hpm⟩ := (emRest_iff cfg _ hpne hph hrp a1 hnl1).mp ⟨b, hR⟩
  have hnl2 : t.getLast? ≠ some '\n' := suffix_getLast_ne (e2 ▸ hnl1)
  obtain ⟨hpieces, hth⟩ := (PM_segs cfg hcs segs hsne hs t hnl2).mp hpm
  have htne : t ≠ [] := by
    rintro rfl
    rw [pieces_nil] at hpieces
    exact hsne hpieces.symm
  have hgs : sl = [] → g = [] := by
    intro h
    have := hst h
    rw [hf] at this
    simpa using this
  have hP : g ++ sl = [] ∨ (g ++ sl).getLast? = some '/' := by
    by_cases hsle : sl = []
    · left; rw [hgs hsle, hsle]; rfl
    · right; rw [getLast_append_ne _ _ hsle]; exact allSl_getLast' sl hsl hsle
  obtain ⟨ds, cs, hcomps, hcsne, hPd, htd⟩ := decomp_boundary comps hne hc (g ++ sl) t tl
    (by rw [e, e2, List.append_assoc]) hP hth htne htl
  have hds : ∀ d ∈ ds, CompOK d := fun d hd => hc d (by rw [hcomps]; exact List.mem_append_left _ hd)
  have hcsok : ∀ d ∈ cs, CompOK d := fun d hd => hc d (by rw [hcomps]; exact List.mem_append_right _ hd)
  have hcseq : cs = segs := by
    rw [htd, pieces_joinSl cs hcsok tl htl] at hpieces
    exact hpieces
  subst hcseq
  have hgd : g = joinSl ds := by
    by_cases hdse : ds = []
    · subst hdse
      simp only [dirStr, List.flatMap_nil] at hPd
      rw [(List.append_eq_nil_iff.mp hPd).1]; rfl
    · exact (decomp_tail ds hdse hds g sl hsl hgs (by rw [← dirStr_eq ds hdse]; exact hPd.symm)).1
  refine ⟨ds, hcomps, ?_, ?_⟩
  · rw [hgd] at hg
    exact (NoHid_dirs ds hds _).mp hg
  · rw [e, ← hgd]; simp

/-- **the language of `emLitRe (s₁/…/sₖ)` on clean paths**: the last `k` components are the
    segments, the ones before them are visible -/
theorem emLits_fullMatch_comps (cfg : Cfg) (hcs : cfg.caseSensitive = true) (hrp : cfg.realpath = true)
    (segs : List Name) (hsne : segs ≠ []) (hs : ∀ s ∈ segs, CompOK s)
    (comps : List Name) (hne : comps ≠ []) (hc : ∀ c ∈ comps, CompOK c)
    (tl : List Char) (htl : allSl tl = true) (hnl : (joinSl comps ++ tl).getLast? ≠ some '\n') :
    (emLitRe cfg (joinSl segs)).FullMatch (joinSl comps ++ tl) ↔
      ∃ ds, comps = ds ++ segs ∧ ∀ d ∈ ds, d.head? ≠ some '.' := by
  rw [emLit_fullMatch]
  constructor
  · rintro ⟨a1, b, hG, _, hR⟩
    obtain ⟨ds, h1, h2, _⟩ := emLits_split cfg hcs hrp segs hsne hs comps hne hc tl htl hnl a1 b hG hR
    exact ⟨ds, h1, h2⟩
  · rintro ⟨ds, rfl, hvis⟩
    have hds : ∀ d ∈ ds, CompOK d := fun d hd => hc d (List.mem_append_left _ hd)
    have hpne := joinSl_ne_nil segs hsne hs
    have hph := joinSl_head segs hs
    have hhead : (joinSl (ds ++ segs) ++ tl).head? ≠ some '/' := by
      have h1 := joinSl_head (ds ++ segs) hc
      have h2 := joinSl_ne_nil (ds ++ segs) hne hc
      cases hj : joinSl (ds ++ segs) with
      | nil => exact absurd hj h2
      | cons x r => rw [hj] at h1; simpa using h1
    have hpm : ∀ t, t = joinSl segs ++ tl → t.getLast? ≠ some '\n' →
        PM cfg (!cfg.caseSensitive) .start (joinSl segs) t := by
      intro t ht hn
      refine (PM_segs cfg hcs segs hsne hs t hn).mpr ⟨by rw [ht]; exact pieces_joinSl segs hs tl htl, ?_⟩
      rw [ht]
      cases hj : joinSl segs with
      | nil => exact absurd hj hpne
      | cons x r => rw [hj] at hph; simpa using hph
    by_cases hdse : ds = []
    · subst hdse
      simp only [List.nil_append] at hnl hhead ⊢
      obtain ⟨b, hR⟩ := (emRest_iff cfg _ hpne hph hrp ⟨true, joinSl segs ++ tl⟩ hnl).mpr
        ⟨[], joinSl segs ++ tl, rfl, rfl, fun _ => rfl, hpm _ rfl hnl⟩
      exact ⟨⟨true, joinSl segs ++ tl⟩, b, (emG_iff _ _ _).mpr ⟨[], rfl, rfl, trivial⟩, hhead, hR⟩
    · have hname : joinSl (ds ++ segs) ++ tl = joinSl ds ++ (['/'] ++ (joinSl segs ++ tl)) := by
        rw [joinSl_append ds segs hdse hsne]; simp
      rw [hname] at hnl hhead ⊢
      have hnl1 : (['/'] ++ (joinSl segs ++ tl)).getLast? ≠ some '\n' := suffix_getLast_ne hnl
      have hnl2 : (joinSl segs ++ tl).getLast? ≠ some '\n' := suffix_getLast_ne hnl1
      obtain ⟨b, hR⟩ := (emRest_iff cfg _ hpne hph hrp ⟨false, ['/'] ++ (joinSl segs ++ tl)⟩ hnl1).mpr
        ⟨['/'], joinSl segs ++ tl, rfl, rfl, (fun h => by cases h), hpm _ rfl hnl2⟩
      refine ⟨⟨false, ['/'] ++ (joinSl segs ++ tl)⟩, b, (emG_iff _ _ _).mpr ⟨joinSl ds, rfl, ?_, ?_⟩, hhead, hR⟩
      · have := joinSl_ne_nil ds hdse hds
        cases hj : joinSl ds with
        | nil => exact absurd hj this
        | cons _ _ => rfl
      · exact (NoHid_dirs ds hds _).mpr hvis

theorem emLits_spans (cfg : Cfg) (hcs : cfg.caseSensitive = true) (hrp : cfg.realpath = true)
    (segs : List Name) (hsne : segs ≠ []) (hs : ∀ s ∈ segs, CompOK s) (hok : (emLitRe cfg (joinSl segs)).repOK = true)
    (comps : List Name) (hne : comps ≠ []) (hc : ∀ c ∈ comps, CompOK c)
    (tl : List Char) (htl : allSl tl = true) (hnl : (joinSl comps ++ tl).getLast? ≠ some '\n')
    (spans : List (Option (Nat × Nat)))
    (h : (emLitRe cfg (joinSl segs)).fullmatchCap (joinSl comps ++ tl) = some spans) :
    ∃ ds, comps = ds ++ segs ∧ (∀ d ∈ ds, d.head? ≠ some '.') ∧ spans = [some (0, (joinSl ds).length)] := by
  obtain ⟨a1, b, rfl, hG, _, hR⟩ := emLit_run cfg _ _ hok spans h
  obtain ⟨ds, h1, h2, h3⟩ := emLits_split cfg hcs hrp segs hsne hs comps hne hc tl htl hnl a1 b hG hR
  exact ⟨ds, h1, h2, by rw [h3]⟩

theorem fsGroups_dirs_segs (fs : FS) (ds : List Name) (hds : ∀ d ∈ ds, CompOK d) (segs : List Name)
    (hsne : segs ≠ []) (hs : ∀ s ∈ segs, CompOK s) (tl : List Char) :
    fsGroups fs (joinSl (ds ++ segs) ++ tl) [some (0, (joinSl ds).length)] = true ↔
      ∀ i, i < ds.length → fs.islink (joinSl (ds.take (i + 1))) = false := by
  by_cases hdse : ds = []
  · subst hdse
    simp [fsGroups, joinSl]
  · have hname : joinSl (ds ++ segs) ++ tl = joinSl ds ++ (['/'] ++ (joinSl segs ++ tl)) := by
      rw [joinSl_append ds segs hdse hsne]; simp
    have hJne := joinSl_ne_nil ds hdse hds
    have hstar : ((joinSl (ds ++ segs) ++ tl).take (joinSl ds).length).drop 0 = joinSl ds := by
      rw [hname, List.drop_zero, List.take_left']
      rfl
    have hsne' : (joinSl segs).length ≥ 1 := by
      have := joinSl_ne_nil segs hsne hs
      cases hj : joinSl segs with
      | nil => exact absurd hj this
      | cons _ _ => simp
    have hatEnd : decide (((joinSl ds).length : Int) ≥ ((joinSl (ds ++ segs) ++ tl).length : Int) - 1) = false := by
      rw [hname]
      simp only [List.length_append, List.length_cons, List.length_nil]
      simp only [decide_eq_false_iff_not]
      omega
    have hstrip : stripSlash (joinSl ds) = joinSl ds :=
      stripSlash_id _ (joinSl_head ds hds) (joinSl_getLast ds hdse hds)
    have hempty : (joinSl ds).isEmpty = false := by
      cases hj : joinSl ds with
      | nil => exact absurd hj hJne
      | cons _ _ => rfl
    have hp := fsPieces_comps fs ds.length ds [] 1 hds (fun _ h => by cases h)
    simp only [joinSl, List.nil_append] at hp
    rw [← hp]
    unfold fsGroups
    simp only [hstar, hempty, Bool.false_eq_true, if_false, hatEnd, hstrip,
      splitSlash_joinSl ds hdse hds, List.take_zero]
    cases (fsPieces fs false ds 1 ds.length []).2 <;> simp [fsGroups]

/-- **`_fs_match` with the regex of the literal pattern `s₁/…/sₖ` under `_EXTMATCHBASE`**, on a
    clean path: accepted exactly when its last `k` components are the segments, the components
    before them are visible, and none of THEIR prefixes is a symbolic link (the literal tail is
    not link-tested: it is followed as written) -/
theorem fsMatch_emLits (fs : FS) (cfg : Cfg) (hcs : cfg.caseSensitive = true) (hrp : cfg.realpath = true)
    (segs : List Name) (hsne : segs ≠ []) (hs : ∀ s ∈ segs, CompOK s) (hok : (emLitRe cfg (joinSl segs)).repOK = true)
    (comps : List Name) (hne : comps ≠ []) (hc : ∀ c ∈ comps, CompOK c)
    (tl : List Char) (htl : allSl tl = true) (hnl : (joinSl comps ++ tl).getLast? ≠ some '\n') :
    fsMatch fs (emLitRe cfg (joinSl segs)) (joinSl comps ++ tl) false = true ↔
      ∃ ds, comps = ds ++ segs ∧ (∀ d ∈ ds, d.head? ≠ some '.') ∧
        ∀ i, i < ds.length → fs.islink (joinSl (ds.take (i + 1))) = false := by
  rw [C04cap.fsMatch_iff]
  constructor
  · rintro ⟨spans, hsp, hg⟩
    obtain ⟨ds, h1, h2, rfl⟩ := emLits_spans cfg hcs hrp segs hsne hs hok comps hne hc tl htl hnl spans hsp
    have hg' : fsGroups fs (joinSl comps ++ tl) [some (0, (joinSl ds).length)] = true := by
      rcases hg with hg | hg
      · cases hg
      · exact hg
    subst h1
    have hds : ∀ d ∈ ds, CompOK d := fun d hd => hc d (List.mem_append_left _ hd)
    exact ⟨ds, rfl, h2, (fsGroups_dirs_segs fs ds hds segs hsne hs tl).mp hg'⟩
  · rintro ⟨ds, rfl, hvis, hlinks⟩
    have hds : ∀ d ∈ ds, CompOK d := fun d hd => hc d (List.mem_append_left _ hd)
    have hfm := (emLits_fullMatch_comps cfg hcs hrp segs hsne hs _ hne hc tl htl hnl).mpr ⟨ds, rfl, hvis⟩
    have hsome := (Re.fullmatchCap_isSome_iff _ _ hok).mpr hfm
    cases hsp : (emLitRe cfg (joinSl segs)).fullmatchCap (joinSl (ds ++ segs) ++ tl) with
    | none => rw [hsp] at hsome; cases hsome
    | some spans =>
      obtain ⟨ds', h1, _, rfl⟩ := emLits_spans cfg hcs hrp segs hsne hs hok _ hne hc tl htl hnl spans hsp
      have : ds' = ds := (List.append_inj' h1 rfl).1.symm
      subst this
      exact ⟨_, rfl, Or.inr ((fsGroups_dirs_segs fs ds' hds segs hsne hs tl).mpr hlinks)⟩

/-! ### the walker side -/

/-- the literal parts of the split pattern `s₁/…/sₖ`: `dir_only` on all but the last -/
def litParts : List Name → List GPart
  | [] => []
  | s :: r => ⟨.lit s, false, false, false, !r.isEmpty, false⟩ :: litParts r

theorem litParts_single (s : Name) : litParts [s] = [litPart s] := rfl

/-- a segment name that is a proper entry name -/
def SegOK (s : Name) : Prop := CompOK s ∧ s ≠ dot ∧ s ≠ dotdot

/-- **`**` in front of a name segment**: any directory below, then the rest there -/
theorem denotes_star_cons (fs : FS) (c : WalkCfg) (bp q : GPart) (rest : List GPart) (hb : bp.isStar = true)
    (hq : q.isStar = false) (d : Dir) (v : Y) :
    Denotes fs c (bp :: q :: rest) d v ↔
      ∃ d', Below fs c bp.isGlobstarLong d d' ∧ Denotes fs c (q :: rest) d' v := by
  constructor
  · intro h
    cases h with
    | inner hns _ _ _ _ => rw [hb] at hns; cases hns
    | starLast _ hbel ho hseg hdir => exact ⟨_, hbel, Denotes.last hq ho hseg hdir⟩
    | starInner _ hbel ho hseg hd hrest => exact ⟨_, hbel, Denotes.inner hq ho hseg hd hrest⟩
  · rintro ⟨d', hbel, h⟩
    cases h with
    | last _ ho hseg hdir => exact Denotes.starLast hb hbel ho hseg hdir
    | inner _ ho hseg hd hrest => exact Denotes.starInner hb hbel ho hseg hd hrest
    | starSelf hs _ => rw [hq] at hs; cases hs
    | starAny hs _ _ _ _ => rw [hq] at hs; cases hs
    | starLast hs _ _ _ _ => rw [hq] at hs; cases hs
    | starInner hs _ _ _ _ _ => rw [hq] at hs; cases hs

/-- from `l`, the names `segs` are entries one below the other, all but the last directories
    (followed as written: links to directories count) -/
def LitOK (fs : FS) : Loc → List Name → Prop
  | _, [] => False
  | l, [s] => ∃ o, o ∈ entriesOf fs ⟨[], l⟩ ∧ o.name = s
  | l, s :: s2 :: r => ∃ o, o ∈ entriesOf fs ⟨[], l⟩ ∧ o.name = s ∧ o.isDir = true ∧ LitOK fs o.loc (s2 :: r)

theorem offered_entry {fs : FS} {d : Dir} {o : Offer} (ho : o ∈ offered fs d) (h1 : o.name ≠ dot)
    (h2 : o.name ≠ dotdot) : o ∈ entriesOf fs ⟨[], d.loc⟩ := by
  unfold offered at ho
  split at ho
  · simp only [List.cons_append, List.nil_append, List.mem_cons] at ho
    rcases ho with rfl | rfl | ho
    · exact absurd rfl h1
    · exact absurd rfl h2
    · exact ho
  · cases ho

/-- **what the literal parts denote below a directory** (case-sensitive) -/
theorem denotes_lits (fs : FS) (c : WalkCfg) (hcs : c.caseSensitive = true) :
    ∀ (segs : List Name), segs ≠ [] → (∀ s ∈ segs, SegOK s) → ∀ (p : List Char) (l : Loc) (x : List Char),
      (∃ v, Denotes fs c (litParts segs) ⟨p, l⟩ v ∧ v.path = x) ↔ (x = segs.foldl pjoin p ∧ LitOK fs l segs) := by
  intro segs
  induction segs with
  | nil => intro h; exact absurd rfl h
  | cons s r ih =>
    intro _ hs p l x
    obtain ⟨_, hs1, hs2⟩ := hs s List.mem_cons_self
    cases r with
    | nil =>
      simp only [litParts, List.isEmpty_nil, Bool.not_true, List.foldl_cons, List.foldl_nil, LitOK]
      constructor
      · rintro ⟨v, hv, rfl⟩
        cases hv with
        | @last _ _ o _ ho hseg _ =>
          have hname : o.name = s := by simpa [segOK, hcs] using hseg
          exact ⟨by simp [Offer.toY, hname], o, offered_entry ho (hname ▸ hs1) (hname ▸ hs2), hname⟩
        | starSelf hst _ => simp [GPart.isStar] at hst
        | starAny hst _ _ _ _ => simp [GPart.isStar] at hst
      · rintro ⟨rfl, o, ho, hname⟩
        refine ⟨o.toY ⟨p, l⟩, Denotes.last (by simp [GPart.isStar]) (entriesOf_sub_offered ho) ?_ (fun h => by cases h), ?_⟩
        · simp [segOK, hcs, hname]
        · simp [Offer.toY, hname]
    | cons s2 r' =>
      have ih' := ih (by simp) (fun t ht => hs t (List.mem_cons_of_mem _ ht))
      simp only [litParts, List.isEmpty_cons, Bool.not_false, List.foldl_cons, LitOK] at ih' ⊢
      generalize litParts r' = rest at ih' ⊢
      constructor
      · rintro ⟨v, hv, rfl⟩
        cases hv with
        | @inner _ _ _ _ o _ _ ho hseg hd hrest =>
          have hname : o.name = s := by simpa [segOK, hcs] using hseg
          have := (ih' (pjoin p o.name) o.loc v.path).mp ⟨v, hrest, rfl⟩
          rw [hname] at this
          exact ⟨this.1, o, offered_entry ho (hname ▸ hs1) (hname ▸ hs2), hname, hd, this.2⟩
        | starLast hst _ _ _ _ => simp [GPart.isStar] at hst
        | starInner hst _ _ _ _ _ => simp [GPart.isStar] at hst
      · rintro ⟨rfl, o, ho, hname, hd, hok⟩
        obtain ⟨v, hv, hp⟩ := (ih' (pjoin p s) o.loc _).mpr ⟨rfl, hok⟩
        refine ⟨v, Denotes.inner (by simp [GPart.isStar]) (entriesOf_sub_offered ho) ?_ hd (by rw [hname]; exact hv), hp⟩
        simp [segOK, hcs, hname]

/-- an entry, stepped to -/
theorem entry_step {fs : FS} (hwf : fs.WFTree) {p : List Char} {l : Loc} {o : Offer} (ho : o ∈ entriesOf fs ⟨p, l⟩) :
    fs.step l o.name = o.loc ∧ o.isDir = fs.locIsDir o.loc := by
  obtain ⟨rp, es, n, nd, rfl, hg, hmem, rfl⟩ := mem_entriesOf ho
  obtain ⟨hn1, hn2, hn3, _⟩ := hwf.names rp es hg (n, nd) hmem
  have hfind := findEntry_of_nodup hmem (hwf.nodup rp es hg)
  have hent : fs.entries (some rp) = some es := by simp [FS.entries, hg]
  refine ⟨?_, rfl⟩
  simp [FS.step, hent, hn1, hn2, hn3, hfind]

/-- … and conversely: a proper name that can be stepped to is an entry -/
theorem step_entry {fs : FS} (l : Loc) (s : Name) (hs : SegOK s) (h : fs.step l s ≠ none) :
    ∃ o, o ∈ entriesOf fs ⟨[], l⟩ ∧ o.name = s ∧ o.loc = fs.step l s ∧ o.isDir = fs.locIsDir (fs.step l s) := by
  obtain ⟨⟨hs0, _⟩, hs1, hs2⟩ := hs
  cases l with
  | none => exact absurd rfl h
  | some rp =>
    cases he : fs.entries (some rp) with
    | none => exact absurd (step_of_not_dir fs rp s he) h
    | some es =>
      obtain ⟨rp', hrp, hget⟩ := FS.entries_some he
      cases hrp
      cases hf : findEntry s es with
      | none => simp [FS.step, he, hs0, hs1, hs2, hf] at h
      | some nd =>
        have hst : fs.step (some rp) s = childLoc rp s nd := by simp [FS.step, he, hs0, hs1, hs2, hf]
        exact ⟨_, of_entry hget (findEntry_mem hf) [], rfl, hst.symm, by rw [hst]; rfl⟩

/-- **`LitOK` at the string level**: the last name exists where the others lead -/
theorem litOK_iff {fs : FS} (hwf : fs.WFTree) : ∀ (segs : List Name), segs ≠ [] → (∀ s ∈ segs, SegOK s) →
    ∀ l : Loc, LitOK fs l segs ↔ fs.lstep (fs.steps l segs.dropLast) (segs.getLast?.getD []) = true := by
  intro segs
  induction segs with
  | nil => intro h; exact absurd rfl h
  | cons s r ih =>
    intro _ hs l
    have hss := hs s List.mem_cons_self
    cases r with
    | nil =>
      simp only [LitOK, List.dropLast_singleton, FS.steps, List.getLast?_singleton, Option.getD_some]
      exact (lstep_iff_entry hwf l s hss.1 hss.2).symm
    | cons s2 r' =>
      have ih' := ih (by simp) (fun t ht => hs t (List.mem_cons_of_mem _ ht))
      have hdl : (s :: s2 :: r').dropLast = s :: (s2 :: r').dropLast := by simp [List.dropLast]
      have hgl : (s :: s2 :: r').getLast? = (s2 :: r').getLast? := by simp [List.getLast?_cons_cons]
      rw [hdl, hgl]
      simp only [LitOK, FS.steps]
      constructor
      · rintro ⟨o, ho, hname, _, hok⟩
        have := (entry_step hwf ho).1
        rw [hname] at this
        rw [this]
        exact (ih' o.loc).mp hok
      · intro h
        have hne : fs.steps (fs.step l s) (s2 :: r').dropLast ≠ none := by
          intro e
          rw [e] at h
          simp [FS.lstep, FS.entries] at h
        have hstep : fs.step l s ≠ none := by
          intro e; rw [e, steps_none] at hne; exact hne rfl
        obtain ⟨o, ho, hname, hloc, hisd⟩ := step_entry l s hss hstep
        refine ⟨o, ho, hname, ?_, by rw [hloc]; exact (ih' _).mpr h⟩
        rw [hisd]
        by_cases hr : (s2 :: r').dropLast = []
        · rw [hr] at h
          simp only [FS.steps] at h
          unfold FS.lstep at h
          unfold FS.locIsDir
          cases he : fs.entries (fs.step l s) with
          | none => simp [he] at h
          | some _ => rfl
        · exact locIsDir_of_steps fs _ _ hr hne

/-- **what `[**, s₁, …, sₖ]` denotes on a well-formed tree**: the clean paths
    `d₁/…/dₙ/s₁/…/sₖ` that exist, whose `dᵢ` are visible and not symbolic links -/
theorem denotes_emLits (fs : FS) (hwf : fs.WFTree) (c : WalkCfg)
    (hdot : c.dot = false) (hcs : c.caseSensitive = true) (hfl : c.followLinks = false)
    (bp : GPart) (hbm : bp.isMagic = true) (hbg : bp.isGlobstar = true) (hbl : bp.isGlobstarLong = false)
    (segs : List Name) (hsne : segs ≠ []) (hs : ∀ s ∈ segs, SegOK s)
    (comps : List Name) (hne : comps ≠ []) (hc : ∀ x ∈ comps, CompOK x) :
    (∃ v, DenotesTop fs c (bp :: litParts segs) v ∧ v.path = joinSl comps) ↔
      ∃ ds, comps = ds ++ segs ∧ (∀ d ∈ ds, d.head? ≠ some '.') ∧ fs.lexists (joinSl comps) = true ∧
        ∀ i, i < ds.length → fs.islink (joinSl (ds.take (i + 1))) = false := by
  have hstar : bp.isStar = true := by simp [GPart.isStar, hbm, hbg]
  have hsC : ∀ s ∈ segs, CompOK s := fun s h => (hs s h).1
  obtain ⟨s1, r1, rfl⟩ : ∃ a b, segs = a :: b := by
    cases segs with
    | nil => exact absurd rfl hsne
    | cons a b => exact ⟨a, b, rfl⟩
  have hq : (⟨.lit s1, false, false, false, !r1.isEmpty, false⟩ : GPart).isStar = false := by simp [GPart.isStar]
  have hdl : ∀ ds : List Name, (ds ++ s1 :: r1).dropLast = ds ++ (s1 :: r1).dropLast := by
    intro ds; exact List.dropLast_append_of_ne_nil (by simp)
  have hgl : ∀ ds : List Name, (ds ++ s1 :: r1).getLast? = (s1 :: r1).getLast? := by
    intro ds
    rw [List.getLast?_append]
    cases h : (s1 :: r1).getLast? with
    | none => simp at h
    | some x => rfl
  have hlex : ∀ ds : List Name, (∀ d ∈ ds, CompOK d) →
      fs.lexists (joinSl (ds ++ s1 :: r1)) =
        fs.lstep (fs.steps (fs.steps (some fs.cwd) ds) (s1 :: r1).dropLast) ((s1 :: r1).getLast?.getD []) := by
    intro ds hds
    have hall : ∀ x ∈ ds ++ s1 :: r1, CompOK x := by
      intro x hx
      rcases List.mem_append.mp hx with h | h
      · exact hds x h
      · exact hsC x h
    simp only [FS.lexists, base_joinSl fs _ hall, splitSlash_joinSl _ (by simp) hall, hdl, hgl, steps_append]
  constructor
  · rintro ⟨v, hv, hp⟩
    cases hv with
    | magic _ hden =>
      simp only [litParts] at hden
      obtain ⟨d', hb, hlit⟩ := (denotes_star_cons fs c bp _ _ hstar hq _ v).mp hden
      rw [hbl] at hb
      obtain ⟨ds, hw, hpath⟩ := below_walk hb
      simp only [FS.rootDir] at hw hpath
      obtain ⟨f1, f2, f3, _⟩ := hw.facts hwf hdot hfl
      have hds : ∀ d ∈ ds, CompOK d := fun d hd => (f3 d hd).1
      rw [joinSl_foldl ds hds] at hpath
      obtain ⟨hvp, hok⟩ := (denotes_lits fs c hcs (s1 :: r1) hsne hs d'.path d'.loc v.path).mp
        ⟨v, by cases d'; simpa [litParts] using hlit, rfl⟩
      rw [hpath, joinSl_foldl_from (s1 :: r1) ds hsC hds] at hvp
      have hall : ∀ x ∈ ds ++ s1 :: r1, CompOK x := by
        intro x hx
        rcases List.mem_append.mp hx with h | h
        · exact hds x h
        · exact hsC x h
      have hcomps := joinSl_inj comps (ds ++ s1 :: r1) hc hall hne (by simp) (by rw [← hp, hvp])
      refine ⟨ds, hcomps, fun d hd => (f3 d hd).2, ?_, ?_⟩
      · rw [hcomps, hlex ds hds, f1]
        exact (litOK_iff hwf (s1 :: r1) hsne hs d'.loc).mp hok
      · have := (noLinks_iff fs ds [] hds (fun _ h => by cases h)).mpr (by simpa [FS.steps] using f2)
        simpa using this
    | writtenThen hnm _ _ => rw [hbm] at hnm; cases hnm
    | nameThen hnm _ _ _ _ _ _ => rw [hbm] at hnm; cases hnm
  · rintro ⟨ds, rfl, hvis, hex, hlinks⟩
    have hds : ∀ d ∈ ds, CompOK d := fun d hd => hc d (List.mem_append_left _ hd)
    rw [hlex ds hds] at hex
    have hok := (litOK_iff hwf (s1 :: r1) hsne hs _).mpr hex
    have hdirL : fs.locIsDir (fs.steps (some fs.cwd) ds) = true := by
      have : ∃ o, o ∈ entriesOf fs ⟨[], fs.steps (some fs.cwd) ds⟩ := by
        cases r1 with
        | nil => obtain ⟨o, ho, _⟩ := hok; exact ⟨o, ho⟩
        | cons _ _ => obtain ⟨o, ho, _⟩ := hok; exact ⟨o, ho⟩
      obtain ⟨o, hoe⟩ := this
      unfold entriesOf at hoe
      cases hsc : fs.scandir (fs.steps (some fs.cwd) ds) with
      | none => simp [hsc] at hoe
      | some dsn => exact FS.locIsDir_iff.2 ⟨dsn, hsc⟩
    have hnl : NoLinks fs (some fs.cwd) ds := by
      have := (noLinks_iff fs ds [] hds (fun _ h => by cases h)).mp (by simpa using hlinks)
      simpa [FS.steps] using this
    have hw := walk_of_facts (c := c) hdot ds (some fs.cwd) (fun d hd => ⟨hds d hd, hvis d hd⟩) hnl hdirL
    have hb : Below fs c false fs.rootDir ⟨ds.foldl pjoin [], fs.steps (some fs.cwd) ds⟩ := hw.below []
    rw [joinSl_foldl ds hds] at hb
    obtain ⟨v, hv, hvp⟩ := (denotes_lits fs c hcs (s1 :: r1) hsne hs (joinSl ds) (fs.steps (some fs.cwd) ds) _).mpr
      ⟨rfl, hok⟩
    refine ⟨v, DenotesTop.magic hbm ?_, ?_⟩
    · simp only [litParts]
      exact (denotes_star_cons fs c bp _ _ hstar hq _ v).mpr ⟨_, by rw [hbl]; exact hb, by simpa [litParts] using hv⟩
    · rw [hvp, joinSl_foldl_from (s1 :: r1) ds hsC hds]

/-- every path `[**, s₁, …, sₖ]` denotes is clean -/
theorem denotes_emLits_path (fs : FS) (hwf : fs.WFTree) (c : WalkCfg)
    (hdot : c.dot = false) (hcs : c.caseSensitive = true) (hfl : c.followLinks = false)
    (bp : GPart) (hbm : bp.isMagic = true) (hbg : bp.isGlobstar = true) (hbl : bp.isGlobstarLong = false)
    (segs : List Name) (hsne : segs ≠ []) (hs : ∀ s ∈ segs, SegOK s) (v : Y)
    (hv : DenotesTop fs c (bp :: litParts segs) v) :
    ∃ ds, v.path = joinSl (ds ++ segs) ∧ (∀ d ∈ ds, CompOK d ∧ d.head? ≠ some '.') ∧
      ∀ d ∈ ds, ∃ rp es nd, fs.top.get rp = some (.dir es) ∧ (d, nd) ∈ es := by
  have hstar : bp.isStar = true := by simp [GPart.isStar, hbm, hbg]
  have hsC : ∀ s ∈ segs, CompOK s := fun s h => (hs s h).1
  obtain ⟨s1, r1, rfl⟩ : ∃ a b, segs = a :: b := by
    cases segs with
    | nil => exact absurd rfl hsne
    | cons a b => exact ⟨a, b, rfl⟩
  have hq : (⟨.lit s1, false, false, false, !r1.isEmpty, false⟩ : GPart).isStar = false := by simp [GPart.isStar]
  cases hv with
  | magic _ hden =>
    simp only [litParts] at hden
    obtain ⟨d', hb, hlit⟩ := (denotes_star_cons fs c bp _ _ hstar hq _ v).mp hden
    rw [hbl] at hb
    obtain ⟨ds, hw, hpath⟩ := below_walk hb
    simp only [FS.rootDir] at hw hpath
    obtain ⟨_, _, f3, _⟩ := hw.facts hwf hdot hfl
    have hds : ∀ d ∈ ds, CompOK d := fun d hd => (f3 d hd).1
    rw [joinSl_foldl ds hds] at hpath
    obtain ⟨hvp, _⟩ := (denotes_lits fs c hcs (s1 :: r1) hsne hs d'.path d'.loc v.path).mp
      ⟨v, by cases d'; simpa [litParts] using hlit, rfl⟩
    rw [hpath, joinSl_foldl_from (s1 :: r1) ds hsC hds] at hvp
    exact ⟨ds, hvp, f3, hw.names_mem⟩
  | writtenThen hnm _ _ => rw [hbm] at hnm; cases hnm
  | nameThen hnm _ _ _ _ _ _ => rw [hbm] at hnm; cases hnm

/-! ### the NODIR exclusion `^(?s:.*?(?:/\.{1,2}/*|/)|\.{1,2}/*)$` -/

theorem M_lit_char (md : Mode) (x : Char) (hx : nonLetter x) (a b : St) (h : Re.M md (.lit x) a b) :
    a.rest = x :: b.rest := by
  obtain ⟨d, s, e, hd, rfl⟩ := h
  rw [charEq_nonLetter_left hx md.ci d hd] at e
  exact e

theorem nonLetter_dot : nonLetter '.' := by unfold nonLetter; decide

theorem dots_of_rep (md : Mode) (a b : St) (h : Re.M md (.rep 1 2 (.lit '.')) a b) :
    ∃ dots, (dots = dot ∨ dots = dotdot) ∧ a.rest = dots ++ b.rest := by
  obtain ⟨k, hk1, hk2, hit⟩ := h
  have hk : k = 1 ∨ k = 2 := by omega
  rcases hk with rfl | rfl
  · cases hit with
    | succ h1 h2 =>
      cases h2 with
      | zero => exact ⟨dot, Or.inl rfl, M_lit_char md '.' nonLetter_dot _ _ h1⟩
  · cases hit with
    | succ h1 h2 =>
      cases h2 with
      | succ h3 h4 =>
        cases h4 with
        | zero =>
          refine ⟨dotdot, Or.inr rfl, ?_⟩
          rw [M_lit_char md '.' nonLetter_dot _ _ h1, M_lit_char md '.' nonLetter_dot _ _ h3]
          rfl

theorem slashes_of_star (md : Mode) (a b : St) (h : Re.M md (.star false (.lit '/')) a b) :
    ∃ sl, allSl sl = true ∧ a.rest = sl ++ b.rest := by
  have h' : Iter (consume1 (charEq md.ci '/')) a b := h
  obtain ⟨pre, e, hall⟩ := iter_consume_all h'
  refine ⟨pre, ?_, e⟩
  rw [allSl, List.all_eq_true]
  intro c hc
  have := List.all_eq_true.mp hall c hc
  simp [charEq_nonLetter_left nonLetter_slash md.ci c this]

/-- what the NODIR regex accepts: a text that ends in a separator, or whose last component is
    `.` or `..` -/
theorem noNixDir_shape (t : List Char) (h : Frag.noNixDir.FullMatch t) :
    t.getLast? = some '/' ∨
      ∃ X dots, t = X ++ dots ∧ (dots = dot ∨ dots = dotdot) ∧ (X = [] ∨ X.getLast? = some '/') := by
  unfold Re.FullMatch Frag.noNixDir at h
  obtain ⟨b, c, ⟨rfl, _⟩, c', hm, rfl, _⟩ := h
  rcases hm with hA | hB
  · obtain ⟨m, hstar, hg⟩ := hA
    have hsuf : m.rest <:+ t := Iter.isSuffix (fun x y hxy => by
      obtain ⟨d, s, e, _, rfl⟩ := hxy; exact ⟨[d], by simp [e]⟩) hstar
    obtain ⟨pre, hpre⟩ := hsuf
    rcases hg with hA1 | hA2
    · obtain ⟨c2, ⟨c1, hsl, hdots⟩, htail⟩ := hA1
      have e1 := M_lit_char _ '/' nonLetter_slash _ _ hsl
      obtain ⟨dots, hd, e2⟩ := dots_of_rep _ _ _ hdots
      obtain ⟨sl, hsl2, e3⟩ := slashes_of_star _ _ _ htail
      simp only [List.append_nil] at e3
      have ht : t = (pre ++ ['/']) ++ dots ++ sl := by
        rw [← hpre, e1, e2, e3]; simp
      by_cases hsle : sl = []
      · right
        subst hsle
        exact ⟨pre ++ ['/'], dots, by simpa using ht, hd, Or.inr (by simp)⟩
      · left
        rw [ht, getLast_append_ne _ _ hsle]
        exact allSl_getLast' sl hsl2 hsle
    · left
      have e1 := M_lit_char _ '/' nonLetter_slash _ _ hA2
      rw [← hpre, e1]; simp
  · obtain ⟨c2, hdots, htail⟩ := hB
    obtain ⟨dots, hd, e2⟩ := dots_of_rep _ _ _ hdots
    obtain ⟨sl, hsl2, e3⟩ := slashes_of_star _ _ _ htail
    simp only [List.append_nil] at e3
    simp only at e2
    by_cases hsle : sl = []
    · right
      subst hsle
      exact ⟨[], dots, by rw [e2, e3]; simp, hd, Or.inl rfl⟩
    · left
      rw [e2, e3, getLast_append_ne _ _ hsle]
      exact allSl_getLast' sl hsl2 hsle

/-- **NODIR on a clean path whose last component is a proper name**: excluded exactly with the
    directory slash -/
theorem noNixDir_clean (comps : List Name) (hne : comps ≠ []) (hc : ∀ c ∈ comps, CompOK c)
    (hlast : ∀ x, comps.getLast? = some x → x ≠ dot ∧ x ≠ dotdot) :
    ¬ Frag.noNixDir.FullMatch (joinSl comps) := by
  intro h
  rcases noNixDir_shape _ h with hl | ⟨X, dots, e, hd, hX⟩
  · exact joinSl_getLast comps hne hc hl
  · obtain ⟨ds, x, rfl⟩ : ∃ r x, comps = r ++ [x] := by
      rcases List.eq_nil_or_concat comps with h0 | ⟨a, b, hab⟩
      · exact absurd h0 hne
      · exact ⟨a, b, by simpa using hab⟩
    have hx := hc x (by simp)
    rw [joinSl_snoc] at e
    have hdsl : ∀ c ∈ dots, c ≠ '/' := by
      rcases hd with rfl | rfl <;> decide
    obtain ⟨_, e2⟩ := last_piece_unique _ _ _ _ e hx.2 hdsl (dirStr_last ds) hX
    have := hlast x (by simp)
    rcases hd with rfl | rfl
    · exact this.1 e2
    · exact this.2 e2

/-! ### the two sides joined -/

theorem realName_joinSl (fs : FS) (comps : List Name) (hne : comps ≠ []) (hc : ∀ x ∈ comps, CompOK x) :
    C04cap.realName fs (joinSl comps) = if fs.isdir (joinSl comps) then joinSl comps ++ ['/'] else joinSl comps := by
  unfold C04cap.realName
  have hl := joinSl_getLast comps hne hc
  have : ((joinSl comps).getLast? == some '/') = false := by
    cases hj : (joinSl comps).getLast? with
    | none => rfl
    | some x =>
      rw [hj] at hl
      have : x ≠ '/' := fun e => hl (by rw [e])
      simp [this]
  simp [this]

/-- **`_Match.match` under REALPATH with the `_EXTMATCHBASE` regex of the literal pattern**, with or
    without the NODIR exclusion (`nd`) -/
theorem matchReal_emLits (fs : FS) (cfg : Cfg) (hcs : cfg.caseSensitive = true) (hrp : cfg.realpath = true)
    (segs : List Name) (hsne : segs ≠ []) (hs : ∀ s ∈ segs, SegOK s)
    (o : MatchObj) (hoi : o.incl = [emLitRe cfg (joinSl segs)]) (nd : Bool)
    (hoe : o.excl = if nd then [Frag.noNixDir] else [])
    (hor : o.real = true) (hof : o.follow = false) (hok : (emLitRe cfg (joinSl segs)).repOK = true)
    (comps : List Name) (hne : comps ≠ []) (hc : ∀ x ∈ comps, CompOK x)
    (hnl : (joinSl comps).getLast? ≠ some '\n') :
    matchReal fs o (joinSl comps) = true ↔
      (∃ ds, comps = ds ++ segs ∧ (∀ d ∈ ds, d.head? ≠ some '.') ∧ fs.lexists (joinSl comps) = true ∧
        ∀ i, i < ds.length → fs.islink (joinSl (ds.take (i + 1))) = false) ∧
      (nd = true → fs.isdir (joinSl comps) = false) := by
  have hsC : ∀ s ∈ segs, CompOK s := fun s h => (hs s h).1
  have hexok : ∀ r ∈ o.excl, r.repOK = true := by
    rw [hoe]; intro r hr
    cases nd
    · cases hr
    · simp only [if_true, List.mem_singleton] at hr; subst hr; decide
  rw [C04cap.matchReal_real_iff fs o _ hor hexok]
  have hjne := joinSl_ne_nil comps hne hc
  have hrn := realName_joinSl fs comps hne hc
  obtain ⟨tl, htl, hreal, hnl'⟩ : ∃ tl, allSl tl = true ∧ C04cap.realName fs (joinSl comps) = joinSl comps ++ tl ∧
      (joinSl comps ++ tl).getLast? ≠ some '\n' := by
    rw [hrn]
    split
    · exact ⟨['/'], rfl, rfl, by simp⟩
    · exact ⟨[], rfl, by simp, by simpa using hnl⟩
  constructor
  · rintro ⟨_, hex, ⟨r, hr, hf⟩, hexc⟩
    rw [hoi, List.mem_singleton] at hr
    subst hr
    rw [hof, hreal] at hf
    obtain ⟨ds, h1, h2, h3⟩ := (fsMatch_emLits fs cfg hcs hrp segs hsne hsC hok comps hne hc tl htl hnl').mp hf
    refine ⟨⟨ds, h1, h2, hex, h3⟩, ?_⟩
    intro hnd
    subst hnd
    cases hd : fs.isdir (joinSl comps) with
    | false => rfl
    | true =>
      exfalso
      have := hexc Frag.noNixDir (by rw [hoe]; simp)
      rw [hrn, hd] at this
      exact this ((Re.fullmatch_iff _ _).mp (noNixDir_matches_dir _))
  · rintro ⟨⟨ds, h1, h2, hex, h3⟩, hnd⟩
    refine ⟨hjne, hex, ⟨_, by rw [hoi]; exact List.mem_singleton.mpr rfl, ?_⟩, ?_⟩
    · rw [hof, hreal]
      exact (fsMatch_emLits fs cfg hcs hrp segs hsne hsC hok comps hne hc tl htl hnl').mpr ⟨ds, h1, h2, h3⟩
    · intro r hr
      rw [hoe] at hr
      cases nd with
      | false => cases hr
      | true =>
        simp only [if_true, List.mem_singleton] at hr
        subst hr
        rw [hrn, hnd rfl]
        simp only [Bool.false_eq_true, if_false]
        apply noNixDir_clean comps hne hc
        intro x hx
        rw [h1, List.getLast?_append] at hx
        have hx' : segs.getLast? = some x := by
          cases hsl : segs.getLast? with
          | none => simp at hsl; exact absurd hsl hsne
          | some y => rw [hsl] at hx; simpa using hx
        have := hs x (List.mem_of_getLast? hx')
        exact ⟨this.2.1, this.2.2⟩

/-- **C04 for literal patterns under `_EXTMATCHBASE`** — `globmatch(REALPATH)` and the
    specification of `glob` meet: the matcher of the literal pattern `s₁/…/sₖ` accepts the clean
    relative path `q` exactly when the split pattern `[**, s₁, …, sₖ]` denotes `q` on the tree —
    and, under NODIR (`nd`), `q` is not a directory. -/
theorem matchReal_emLits_iff_denotes (fs : FS) (hwf : fs.WFTree) (cfg : Cfg)
    (hcs : cfg.caseSensitive = true) (hrp : cfg.realpath = true)
    (segs : List Name) (hsne : segs ≠ []) (hs : ∀ s ∈ segs, SegOK s)
    (o : MatchObj) (hoi : o.incl = [emLitRe cfg (joinSl segs)]) (nd : Bool)
    (hoe : o.excl = if nd then [Frag.noNixDir] else [])
    (hor : o.real = true) (hof : o.follow = false) (hok : (emLitRe cfg (joinSl segs)).repOK = true)
    (c : WalkCfg) (hdot : c.dot = false) (hccs : c.caseSensitive = true) (hfl : c.followLinks = false)
    (bp : GPart) (hbm : bp.isMagic = true) (hbg : bp.isGlobstar = true) (hbl : bp.isGlobstarLong = false)
    (comps : List Name) (hne : comps ≠ []) (hc : ∀ x ∈ comps, CompOK x)
    (hnl : (joinSl comps).getLast? ≠ some '\n') :
    matchReal fs o (joinSl comps) = true ↔
      (∃ v, DenotesTop fs c (bp :: litParts segs) v ∧ v.path = joinSl comps) ∧
      (nd = true → fs.isdir (joinSl comps) = false) := by
  rw [matchReal_emLits fs cfg hcs hrp segs hsne hs o hoi nd hoe hor hof hok comps hne hc hnl,
    denotes_emLits fs hwf c hdot hccs hfl bp hbm hbg hbl segs hsne hs comps hne hc]

end WcModel.PathlibViews

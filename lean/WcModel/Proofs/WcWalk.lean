import WcModel.Model.WcWalk
/-
  Helper lemmas about the walk model (`Model/WcWalk.lean`) used by `Properties/C14.lean` and
  `Properties/C15.lean`.  Core Lean only.
-/
namespace WcModel.WcWalk

variable {V : Type}

/-! ### clocks -/

def Ctr.le (a b : Ctr) : Prop :=
  a.polls ≤ b.polls ∧ a.hooks ≤ b.hooks ∧ a.yields ≤ b.yields ∧ a.skipped ≤ b.skipped

theorem Ctr.le_refl (a : Ctr) : a.le a := ⟨Nat.le_refl _, Nat.le_refl _, Nat.le_refl _, Nat.le_refl _⟩

theorem Ctr.le_trans {a b c : Ctr} (h1 : a.le b) (h2 : b.le c) : a.le c :=
  ⟨Nat.le_trans h1.1 h2.1, Nat.le_trans h1.2.1 h2.2.1, Nat.le_trans h1.2.2.1 h2.2.2.1,
   Nat.le_trans h1.2.2.2 h2.2.2.2⟩

theorem Ctr.le_tick (c : Ctr) (e : Ev V) : c.le (c.tick e) := by
  cases e <;> simp [Ctr.tick, Ctr.le]

theorem advance_nil (c : Ctr) : advance c ([] : List (Ev V)) = c := rfl

theorem advance_cons (c : Ctr) (e : Ev V) (l : List (Ev V)) : advance c (e :: l) = advance (c.tick e) l := rfl

theorem advance_append (c : Ctr) (a b : List (Ev V)) : advance c (a ++ b) = advance (advance c a) b := by
  simp [advance, List.foldl_append]

theorem Ctr.le_advance (c : Ctr) (l : List (Ev V)) : c.le (advance c l) := by
  induction l generalizing c with
  | nil => exact Ctr.le_refl c
  | cons e l ih => exact Ctr.le_trans (Ctr.le_tick c e) (ih (c.tick e))

/-- an oracle under which the abort flag, once set, stays set (no `reset()` during the run) -/
def Mono (o : Oracle) : Prop := ∀ c c' : Ctr, c.le c' → o c = true → o c' = true

theorem Mono.adv {o : Oracle} (h : Mono o) {c : Ctr} (l : List (Ev V)) (hc : o c = true) :
    o (advance c l) = true := h _ _ (Ctr.le_advance c l) hc

theorem Mono.of_adv_false {o : Oracle} (h : Mono o) {c : Ctr} {l : List (Ev V)}
    (hc : o (advance c l) = false) : o c = false := by
  cases hoc : o c with
  | false => rfl
  | true => rw [h.adv l hoc] at hc; cases hc

theorem mono_const (b : Bool) : Mono (fun _ => b) := fun _ _ _ h => h

theorem mono_polls (k : Nat) : Mono (fun c => decide (k ≤ c.polls)) := by
  intro c c' h hc
  simp only [decide_eq_true_eq] at *
  exact Nat.le_trans hc h.1

theorem mono_hooks (k : Nat) : Mono (fun c => decide (k ≤ c.hooks)) := by
  intro c c' h hc
  simp only [decide_eq_true_eq] at *
  exact Nat.le_trans hc h.2.1

theorem mono_yields (k : Nat) : Mono (fun c => decide (k ≤ c.yields)) := by
  intro c c' h hc
  simp only [decide_eq_true_eq] at *
  exact Nat.le_trans hc h.2.2.1

/-- What the walk needs of the oracle: a poll that answered true is followed by a true answer when
    nothing but that poll happened in between (the flag is not cleared between two consecutive polls).
    Weaker than `Mono`; it also holds for every oracle that does not look at the poll counter
    (`PollBlind`), i.e. for every single-threaded history — `kill()` / `reset()` called from hooks or by
    the consumer between two `next()` — monotone or not. -/
def Latched (o : Oracle) : Prop := ∀ c : Ctr, o c = true → o { c with polls := c.polls + 1 } = true

theorem Latched.adv1 {o : Oracle} (h : Latched o) {c : Ctr} (s : Site) (b : Bool) (hc : o c = true) :
    o (advance c [(Ev.poll s b : Ev V)]) = true := h c hc

theorem Mono.latched {o : Oracle} (h : Mono o) : Latched o :=
  fun c hc => h c _ ⟨Nat.le_succ _, Nat.le_refl _, Nat.le_refl _, Nat.le_refl _⟩ hc

/-- the oracle does not look at the poll counter: the flag is written by hooks and by the consumer
    between two yields only (no second thread).  Need not be monotone: `reset()` is allowed. -/
def PollBlind (o : Oracle) : Prop := ∀ c : Ctr, o { c with polls := c.polls + 1 } = o c

theorem PollBlind.latched {o : Oracle} (h : PollBlind o) : Latched o :=
  fun c hc => by rw [h c]; exact hc

theorem pollBlind_const (b : Bool) : PollBlind (fun _ => b) := fun _ => rfl
theorem pollBlind_hooks (f : Nat → Bool) : PollBlind (fun c => f c.hooks) := fun _ => rfl
theorem pollBlind_yields (f : Nat → Bool) : PollBlind (fun c => f c.yields) := fun _ => rfl

/-! ### results -/

@[simp] theorem results_nil : results ([] : List (Ev V)) = [] := rfl

theorem results_append (a b : List (Ev V)) : results (a ++ b) = results a ++ results b := by
  simp [results, List.filterMap_append]

@[simp] theorem results_poll (s : Site) (b : Bool) (l : List (Ev V)) : results (.poll s b :: l) = results l := rfl
@[simp] theorem results_reset (l : List (Ev V)) : results (.reset :: l) = results l := rfl
@[simp] theorem results_vdir (p : RelPath) (l : List (Ev V)) : results (.vdir p :: l) = results l := rfl
@[simp] theorem results_vfile (p : RelPath) (l : List (Ev V)) : results (.vfile p :: l) = results l := rfl
@[simp] theorem results_hmatch (p : RelPath) (l : List (Ev V)) : results (.hmatch p :: l) = results l := rfl
@[simp] theorem results_hskip (p : RelPath) (l : List (Ev V)) : results (.hskip p :: l) = results l := rfl
@[simp] theorem results_herror (p : RelPath) (l : List (Ev V)) : results (.herror p :: l) = results l := rfl
@[simp] theorem results_yield (v : V) (l : List (Ev V)) : results (.yield v :: l) = v :: results l := rfl

theorem results_yieldOpt (x : Option V) : results (yieldOpt x) = x.toList := by
  cases x <;> rfl

/-! ### unfolding the walk -/

theorem walkSubs_nil (o : Oracle) (cfg : Cfg) (hk : Hooks V) (rel : RelPath) (kept : List Name) (c : Ctr) :
    walkSubs o cfg hk rel kept .nil c = ⟨[], false⟩ := rfl

theorem walkSubs_cons (o : Oracle) (cfg : Cfg) (hk : Hooks V) (rel : RelPath) (kept : List Name)
    (n : Name) (k : Kind) (sub rest : Tree) (c : Ctr) :
    walkSubs o cfg hk rel kept (.cons n k sub rest) c =
      if enters cfg kept n k then
        (if (walkDir o cfg hk (rel ++ [n]) sub c).stop then walkDir o cfg hk (rel ++ [n]) sub c
         else ⟨(walkDir o cfg hk (rel ++ [n]) sub c).evs ++
                (walkSubs o cfg hk rel kept rest (advance c (walkDir o cfg hk (rel ++ [n]) sub c).evs)).evs,
               (walkSubs o cfg hk rel kept rest (advance c (walkDir o cfg hk (rel ++ [n]) sub c).evs)).stop⟩)
      else walkSubs o cfg hk rel kept rest c := rfl

/-! ### the uninterrupted run, written without clocks -/

/-- events of the folder loop when no poll returns true -/
def pureDirEvs (cfg : Cfg) (hk : Hooks V) (rel : RelPath) : List Name → List (Ev V)
  | [] => []
  | n :: ns => (dirStep cfg hk rel n).1 ++ .poll .folder false :: pureDirEvs cfg hk rel ns

/-- what is left in `dirs` after the complete folder loop -/
def pureKept (cfg : Cfg) (hk : Hooks V) (rel : RelPath) : List Name → List Name
  | [] => []
  | n :: ns => (if (dirStep cfg hk rel n).2 then [n] else []) ++ pureKept cfg hk rel ns

def pureFileEvs (cfg : Cfg) (hk : Hooks V) (rel : RelPath) : List Name → List (Ev V)
  | [] => []
  | n :: ns => fileStep cfg hk rel n ++ .poll .file false :: pureFileEvs cfg hk rel ns

def pureSubs (cfg : Cfg) (hk : Hooks V) : RelPath → List Name → Tree → List (Ev V)
  | _, _, .nil => []
  | rel, kept, .cons n k sub rest =>
    (if enters cfg kept n k then
      .poll .top false :: (pureDirEvs cfg hk (rel ++ [n]) (dirNames sub) ++
        (.poll .mid false :: (pureFileEvs cfg hk (rel ++ [n]) (fileNames sub) ++
          pureSubs cfg hk (rel ++ [n]) (pureKept cfg hk (rel ++ [n]) (dirNames sub)) sub)))
     else []) ++ pureSubs cfg hk rel kept rest

def pureDir (cfg : Cfg) (hk : Hooks V) (rel : RelPath) (t : Tree) : List (Ev V) :=
  .poll .top false :: (pureDirEvs cfg hk rel (dirNames t) ++
    (.poll .mid false :: (pureFileEvs cfg hk rel (fileNames t) ++ pureSubs cfg hk rel (pureKept cfg hk rel (dirNames t)) t)))

/-- the complete event sequence of an uninterrupted run -/
def pureRun (cfg : Cfg) (hk : Hooks V) (t : Tree) : List (Ev V) := .reset :: pureDir cfg hk [] t

theorem pureSubs_cons (cfg : Cfg) (hk : Hooks V) (rel : RelPath) (kept : List Name) (n : Name) (k : Kind)
    (sub rest : Tree) :
    pureSubs cfg hk rel kept (.cons n k sub rest) =
      (if enters cfg kept n k then pureDir cfg hk (rel ++ [n]) sub else []) ++ pureSubs cfg hk rel kept rest := rfl

theorem results_validFolder (cfg : Cfg) (hk : Hooks V) (rel : RelPath) (n : Name) :
    results (validFolder cfg hk rel n).1 = [] := by
  unfold validFolder
  repeat' split
  all_goals rfl

theorem results_validFile (cfg : Cfg) (hk : Hooks V) (rel : RelPath) (n : Name) :
    results (validFile cfg hk rel n).1 = [] := by
  unfold validFile
  repeat' split
  all_goals rfl

/-! ### Lemma A: a run under a latched oracle against the uninterrupted run -/

/-- a view of the event sequence that does not see the polls (`yieldOf`: the values handed to the
    consumer; `nonPoll`: every hook invocation and every value) -/
def PollFree {W : Type} (g : Ev V → Option W) : Prop := ∀ s b, g (.poll s b) = none

theorem pollFree_yieldOf : PollFree (yieldOf : Ev V → Option V) := fun _ _ => rfl

/-- the event itself unless it is a poll -/
def nonPoll : Ev V → Option (Ev V)
  | .poll _ _ => none
  | e => some e

theorem pollFree_nonPoll : PollFree (nonPoll : Ev V → Option (Ev V)) := fun _ _ => rfl

theorem view_poll {W : Type} {g : Ev V → Option W} (hg : PollFree g) (s : Site) (b : Bool) (l : List (Ev V)) :
    (Ev.poll s b :: l).filterMap g = l.filterMap g := by
  rw [List.filterMap_cons, hg s b]

theorem dirLoop_cold {o : Oracle} (hl : Latched o) (cfg : Cfg) (hk : Hooks V) (rel : RelPath) :
    ∀ (ns : List Name) (c : Ctr), o (advance c (dirLoop o cfg hk rel ns c).1) = false →
      dirLoop o cfg hk rel ns c = (pureDirEvs cfg hk rel ns, pureKept cfg hk rel ns) := by
  intro ns
  induction ns with
  | nil => intro c _; rfl
  | cons n ns ih =>
    intro c h
    simp only [dirLoop] at h ⊢
    cases hc : o (advance c (dirStep cfg hk rel n).1) with
    | true =>
      simp only [hc, if_true] at h
      rw [advance_append] at h
      rw [hl.adv1 Site.folder true hc] at h
      cases h
    | false =>
      simp only [hc, Bool.false_eq_true, if_false] at h ⊢
      rw [advance_append, advance_cons] at h
      rw [ih _ h]
      simp [pureDirEvs, pureKept]

/-- whatever the oracle, what the folder loop shows is a prefix of what the complete loop shows -/
theorem dirLoop_prefix {W : Type} {g : Ev V → Option W} (hg : PollFree g) (o : Oracle) (cfg : Cfg) (hk : Hooks V)
    (rel : RelPath) :
    ∀ (ns : List Name) (c : Ctr),
      (dirLoop o cfg hk rel ns c).1.filterMap g <+: (pureDirEvs cfg hk rel ns).filterMap g := by
  intro ns
  induction ns with
  | nil => intro c; exact List.prefix_refl _
  | cons n ns ih =>
    intro c
    simp only [dirLoop, pureDirEvs]
    split
    · simp only [List.filterMap_append, view_poll hg, List.filterMap_nil, List.append_nil]
      exact List.prefix_append _ _
    · simp only [List.filterMap_append, view_poll hg]
      exact (List.prefix_append_right_inj _).mpr (ih _)

theorem fileLoop_cold {o : Oracle} (hl : Latched o) (cfg : Cfg) (hk : Hooks V) (rel : RelPath) :
    ∀ (ns : List Name) (c : Ctr), o (advance c (fileLoop o cfg hk rel ns c)) = false →
      fileLoop o cfg hk rel ns c = pureFileEvs cfg hk rel ns := by
  intro ns
  induction ns with
  | nil => intro c _; rfl
  | cons n ns ih =>
    intro c h
    simp only [fileLoop] at h ⊢
    cases hc : o (advance c (fileStep cfg hk rel n)) with
    | true =>
      simp only [hc, if_true] at h
      rw [advance_append] at h
      rw [hl.adv1 Site.file true hc] at h
      cases h
    | false =>
      simp only [hc, Bool.false_eq_true, if_false] at h ⊢
      rw [advance_append, advance_cons] at h
      rw [ih _ h]
      simp [pureFileEvs]

/-- whatever the oracle, what the file loop shows is a prefix of what the complete loop shows -/
theorem fileLoop_prefix {W : Type} {g : Ev V → Option W} (hg : PollFree g) (o : Oracle) (cfg : Cfg) (hk : Hooks V)
    (rel : RelPath) :
    ∀ (ns : List Name) (c : Ctr),
      (fileLoop o cfg hk rel ns c).filterMap g <+: (pureFileEvs cfg hk rel ns).filterMap g := by
  intro ns
  induction ns with
  | nil => intro c; exact List.prefix_refl _
  | cons n ns ih =>
    intro c
    simp only [fileLoop, pureFileEvs]
    split
    · simp only [List.filterMap_append, view_poll hg, List.filterMap_nil, List.append_nil]
      exact List.prefix_append _ _
    · simp only [List.filterMap_append, view_poll hg]
      exact (List.prefix_append_right_inj _).mpr (ih _)

/-- the three facts about a component of the walk that make the prefix theorem go through, for a
    poll-free view `g` of the events -/
structure Agrees {W : Type} (g : Ev V → Option W) (o : Oracle) (c : Ctr) (evs pure : List (Ev V)) (stop : Bool) :
    Prop where
  /-- the clock is not hot afterwards: the component ran exactly as in the uninterrupted run -/
  cold : o (advance c evs) = false → evs = pure ∧ stop = false
  /-- the clock was hot on entry: nothing but polls happens, and the clock is hot afterwards -/
  hot : o c = true → evs.filterMap g = [] ∧ o (advance c evs) = true
  pre : evs.filterMap g <+: pure.filterMap g

theorem Agrees.entry_cold {W : Type} {g : Ev V → Option W} {o : Oracle} {c : Ctr} {evs pure : List (Ev V)}
    {stop : Bool} (h : Agrees g o c evs pure stop) (hx : o (advance c evs) = false) : o c = false := by
  cases hc : o c with
  | false => rfl
  | true => rw [(h.hot hc).2] at hx; cases hx

theorem walkDir_agrees_of_subs {W : Type} {g : Ev V → Option W} (hg : PollFree g) {o : Oracle} (hl : Latched o)
    {cfg : Cfg} {hk : Hooks V} (t : Tree)
    (hsub : ∀ rel kept c, Agrees g o c (walkSubs o cfg hk rel kept t c).evs
              (pureSubs cfg hk rel kept t) (walkSubs o cfg hk rel kept t c).stop) :
    ∀ rel c, Agrees g o c (walkDir o cfg hk rel t c).evs (pureDir cfg hk rel t)
      (walkDir o cfg hk rel t c).stop := by
  intro rel c
  unfold walkDir dirBody
  cases hc : o c with
  | true =>
    simp only [if_true]
    have hx : o (advance c [(Ev.poll Site.top true : Ev V)]) = true := hl.adv1 _ _ hc
    refine ⟨?_, fun _ => ⟨by rw [view_poll hg]; rfl, hx⟩, ?_⟩
    · intro h
      rw [hx] at h
      cases h
    · rw [view_poll hg]
      exact List.nil_prefix
  | false =>
    simp only [Bool.false_eq_true, if_false]
    -- names for the pieces
    generalize hc1 : c.tick (Ev.poll Site.top false : Ev V) = c1
    have hDpre := dirLoop_prefix hg o cfg hk rel (dirNames t) c1
    have hDcold := dirLoop_cold hl cfg hk rel (dirNames t) c1
    generalize hd : dirLoop o cfg hk rel (dirNames t) c1 = d at hDpre hDcold
    generalize hc2 : advance c1 d.1 = c2 at hDcold
    cases h2 : o c2 with
    | true =>
      -- the flag is seen by the poll after the folder loop: the walk ends here
      simp only [if_true]
      have hadv : advance c (Ev.poll Site.top false :: (d.1 ++ [(Ev.poll Site.mid true : Ev V)]))
          = advance c2 [(Ev.poll Site.mid true : Ev V)] := by
        rw [advance_cons, hc1, advance_append, hc2]
      refine ⟨?_, fun h => (by rw [hc] at h; cases h), ?_⟩
      · intro h
        rw [hadv, hl.adv1 _ _ h2] at h
        cases h
      · unfold pureDir
        simp only [view_poll hg, List.filterMap_append, List.filterMap_nil, List.append_nil]
        exact hDpre.trans (List.prefix_append _ _)
    | false =>
      simp only [Bool.false_eq_true, if_false]
      -- the folder loop was complete
      have hdp := hDcold h2
      subst hdp
      generalize hc2' : c2.tick (Ev.poll Site.mid false : Ev V) = c2'
      have hFpre := fileLoop_prefix hg o cfg hk rel (fileNames t) c2'
      have hFcold := fileLoop_cold hl cfg hk rel (fileNames t) c2'
      generalize hf : fileLoop o cfg hk rel (fileNames t) c2' = f at hFpre hFcold
      generalize hc3 : advance c2' f = c3 at hFcold
      have hS := hsub rel (pureKept cfg hk rel (dirNames t)) c3
      generalize hsv : walkSubs o cfg hk rel (pureKept cfg hk rel (dirNames t)) t c3 = s at hS
      have hadv : advance c (Ev.poll Site.top false :: (pureDirEvs cfg hk rel (dirNames t) ++
          (Ev.poll Site.mid false :: (f ++ s.evs)))) = advance c3 s.evs := by
        rw [advance_cons, hc1, advance_append, hc2, advance_cons, hc2', advance_append, hc3]
      refine ⟨?_, fun h => (by rw [hc] at h; cases h), ?_⟩
      · intro h
        rw [hadv] at h
        have h3 : o c3 = false := hS.entry_cold h
        have hfp := hFcold h3
        subst hfp
        have hsp := hS.cold h
        unfold pureDir
        rw [hsp.1]
        exact ⟨rfl, hsp.2⟩
      · unfold pureDir
        simp only [view_poll hg, List.filterMap_append]
        apply (List.prefix_append_right_inj _).mpr
        cases h3 : o c3 with
        | true =>
          rw [(hS.hot h3).1, List.append_nil]
          exact hFpre.trans (List.prefix_append _ _)
        | false =>
          have hfp := hFcold h3
          subst hfp
          exact (List.prefix_append_right_inj _).mpr hS.pre

theorem walkSubs_agrees {W : Type} {g : Ev V → Option W} (hg : PollFree g) {o : Oracle} (hl : Latched o)
    {cfg : Cfg} {hk : Hooks V} :
    ∀ (t : Tree) (rel : RelPath) (kept : List Name) (c : Ctr),
      Agrees g o c (walkSubs o cfg hk rel kept t c).evs (pureSubs cfg hk rel kept t)
        (walkSubs o cfg hk rel kept t c).stop := by
  intro t
  induction t with
  | nil =>
    intro rel kept c
    exact ⟨fun _ => ⟨rfl, rfl⟩, fun h => ⟨rfl, h⟩, List.prefix_refl _⟩
  | cons n k sub rest ihs ihr =>
    intro rel kept c
    rw [walkSubs_cons, pureSubs_cons]
    by_cases he : enters cfg kept n k = true
    · simp only [he, if_true]
      have hD := walkDir_agrees_of_subs hg hl sub ihs (rel ++ [n]) c
      generalize walkDir o cfg hk (rel ++ [n]) sub c = r at hD
      cases hst : r.stop with
      | true =>
        simp only [if_true]
        refine ⟨?_, hD.hot, hD.pre.trans (by rw [List.filterMap_append]; exact List.prefix_append _ _)⟩
        intro h
        have := (hD.cold h).2
        rw [hst] at this
        cases this
      | false =>
        simp only [Bool.false_eq_true, if_false]
        have hR := ihr rel kept (advance c r.evs)
        generalize walkSubs o cfg hk rel kept rest (advance c r.evs) = r2 at hR
        refine ⟨?_, ?_, ?_⟩
        · intro h
          rw [advance_append] at h
          have h1 := hR.entry_cold h
          have hr := hR.cold h
          rw [(hD.cold h1).1, hr.1]
          exact ⟨rfl, hr.2⟩
        · intro h
          have h1 := hD.hot h
          have h2 := hR.hot h1.2
          rw [List.filterMap_append, h1.1, h2.1, advance_append]
          exact ⟨rfl, h2.2⟩
        · rw [List.filterMap_append, List.filterMap_append]
          cases h1 : o (advance c r.evs) with
          | true =>
            rw [(hR.hot h1).1, List.append_nil]
            exact hD.pre.trans (List.prefix_append _ _)
          | false =>
            rw [(hD.cold h1).1]
            exact (List.prefix_append_right_inj _).mpr hR.pre
    · simp only [he, Bool.false_eq_true, if_false, List.nil_append]
      exact ihr rel kept c

theorem walkDir_agrees {W : Type} {g : Ev V → Option W} (hg : PollFree g) {o : Oracle} (hl : Latched o)
    (cfg : Cfg) (hk : Hooks V) (t : Tree) (rel : RelPath) (c : Ctr) :
    Agrees g o c (walkDir o cfg hk rel t c).evs (pureDir cfg hk rel t)
      (walkDir o cfg hk rel t c).stop :=
  walkDir_agrees_of_subs hg hl t (walkSubs_agrees hg hl t) rel c

/-- the run under the oracle that never aborts is the uninterrupted run -/
theorem run_false (cfg : Cfg) (hk : Hooks V) (t : Tree) :
    run (fun _ => false) cfg hk t = pureRun cfg hk t := by
  unfold run pureRun
  rw [((walkDir_agrees pollFree_yieldOf (mono_const false).latched cfg hk t [] _).cold rfl).1]

/-- a run whose last clock is not hot is the uninterrupted run -/
theorem run_cold {o : Oracle} (hl : Latched o) (cfg : Cfg) (hk : Hooks V) (t : Tree)
    (h : o (advance {} (run o cfg hk t)) = false) : run o cfg hk t = pureRun cfg hk t := by
  unfold run pureRun at *
  have h' : o (advance (advance {} [(Ev.reset : Ev V)]) (walkDir o cfg hk [] t (advance {} [(Ev.reset : Ev V)])).evs) = false := h
  rw [((walkDir_agrees pollFree_yieldOf hl cfg hk t [] _).cold h').1]

/-- under a latched oracle every poll-free view of the run is a prefix of that view of the
    uninterrupted run -/
theorem run_view_prefix {W : Type} {g : Ev V → Option W} (hg : PollFree g) {o : Oracle} (hl : Latched o)
    (cfg : Cfg) (hk : Hooks V) (t : Tree) :
    (run o cfg hk t).filterMap g <+: (pureRun cfg hk t).filterMap g := by
  unfold run pureRun
  have h := (walkDir_agrees hg hl cfg hk t [] (advance {} [(Ev.reset : Ev V)])).pre
  rw [List.filterMap_cons, List.filterMap_cons]
  cases g Ev.reset with
  | none => exact h
  | some w => exact (List.prefix_cons_inj w).mpr h

/-- the values yielded under a latched (in particular: a monotone) oracle are a prefix of the
    uninterrupted results -/
theorem run_prefix {o : Oracle} (hl : Latched o) (cfg : Cfg) (hk : Hooks V) (t : Tree) :
    results (run o cfg hk t) <+: results (pureRun cfg hk t) :=
  run_view_prefix pollFree_yieldOf hl cfg hk t

/-- the flag is already set when the run starts: one poll, nothing else -/
theorem run_hot {o : Oracle} (cfg : Cfg) (hk : Hooks V) (t : Tree)
    (h : o (advance {} [(Ev.reset : Ev V)]) = true) :
    run o cfg hk t = [.reset, .poll .top true] := by
  unfold run walkDir dirBody
  simp [h]

/-! ### routing: which hook a visited file goes to, and where the yielded values come from -/

/-- the value a hook invocation hands to `yield` (`None` = nothing is yielded) -/
def hookValue (hk : Hooks V) : Ev V → Option V
  | .hmatch p => some (hk.onMatch p)
  | .hskip p => hk.onSkip p
  | .herror p => hk.onError p
  | _ => none

@[simp] theorem hookValue_poll (hk : Hooks V) (s : Site) (b : Bool) : hookValue hk (.poll s b) = none := rfl
@[simp] theorem hookValue_reset (hk : Hooks V) : hookValue hk .reset = none := rfl
@[simp] theorem hookValue_vdir (hk : Hooks V) (p : RelPath) : hookValue hk (.vdir p) = none := rfl
@[simp] theorem hookValue_vfile (hk : Hooks V) (p : RelPath) : hookValue hk (.vfile p) = none := rfl
@[simp] theorem hookValue_yield (hk : Hooks V) (v : V) : hookValue hk (.yield v) = none := rfl
@[simp] theorem hookValue_hmatch (hk : Hooks V) (p : RelPath) : hookValue hk (.hmatch p) = some (hk.onMatch p) := rfl
@[simp] theorem hookValue_hskip (hk : Hooks V) (p : RelPath) : hookValue hk (.hskip p) = hk.onSkip p := rfl
@[simp] theorem hookValue_herror (hk : Hooks V) (p : RelPath) : hookValue hk (.herror p) = hk.onError p := rfl

/-- the yielded values are exactly the non-`None` return values of on_match / on_skip / on_error, in
    the order of the hook invocations -/
def Routed (hk : Hooks V) (evs : List (Ev V)) : Prop := results evs = evs.filterMap (hookValue hk)

theorem Routed.nil (hk : Hooks V) : Routed hk [] := rfl

theorem Routed.append {hk : Hooks V} {a b : List (Ev V)} (ha : Routed hk a) (hb : Routed hk b) :
    Routed hk (a ++ b) := by
  unfold Routed at *
  rw [results_append, List.filterMap_append, ha, hb]

theorem Routed.poll {hk : Hooks V} (s : Site) (b : Bool) {l : List (Ev V)} (h : Routed hk l) :
    Routed hk (.poll s b :: l) := by
  unfold Routed at *
  simpa [List.filterMap_cons] using h

theorem validFolder_shape (cfg : Cfg) (hk : Hooks V) (rel : RelPath) (n : Name) :
    (validFolder cfg hk rel n).1 = [] ∨ (validFolder cfg hk rel n).1 = [.vdir (rel ++ [n])] := by
  unfold validFolder
  repeat' split
  all_goals simp

theorem validFile_shape (cfg : Cfg) (hk : Hooks V) (rel : RelPath) (n : Name) :
    (validFile cfg hk rel n).1 = [] ∨ (validFile cfg hk rel n).1 = [.vfile (rel ++ [n])] := by
  unfold validFile
  repeat' split
  all_goals simp

theorem routed_dirStep (cfg : Cfg) (hk : Hooks V) (rel : RelPath) (n : Name) :
    Routed hk (dirStep cfg hk rel n).1 := by
  have hsh := validFolder_shape cfg hk rel n
  unfold dirStep
  generalize validFolder cfg hk rel n = r at hsh
  obtain ⟨e, res⟩ := r
  simp only at hsh
  cases res <;> rcases hsh with rfl | rfl <;>
    cases h : hk.onError (rel ++ [n]) <;> simp [Routed, yieldOpt, List.filterMap_cons, h]

theorem routed_fileStep (cfg : Cfg) (hk : Hooks V) (rel : RelPath) (n : Name) :
    Routed hk (fileStep cfg hk rel n) := by
  have hsh := validFile_shape cfg hk rel n
  unfold fileStep
  generalize validFile cfg hk rel n = r at hsh
  obtain ⟨e, res⟩ := r
  simp only at hsh
  cases res with
  | ret b =>
    cases b <;> rcases hsh with rfl | rfl <;>
      cases h : hk.onSkip (rel ++ [n]) <;> simp [Routed, yieldOpt, List.filterMap_cons, h]
  | raise =>
    rcases hsh with rfl | rfl <;>
      cases h : hk.onSkip (rel ++ [n]) <;> cases h' : hk.onError (rel ++ [n]) <;>
        simp [Routed, yieldOpt, List.filterMap_cons, h, h']

theorem routed_dirLoop (o : Oracle) (cfg : Cfg) (hk : Hooks V) (rel : RelPath) :
    ∀ (ns : List Name) (c : Ctr), Routed hk (dirLoop o cfg hk rel ns c).1 := by
  intro ns
  induction ns with
  | nil => intro c; exact Routed.nil hk
  | cons n ns ih =>
    intro c
    simp only [dirLoop]
    split
    · exact (routed_dirStep cfg hk rel n).append ((Routed.nil hk).poll _ _)
    · exact (routed_dirStep cfg hk rel n).append ((ih _).poll _ _)

theorem routed_fileLoop (o : Oracle) (cfg : Cfg) (hk : Hooks V) (rel : RelPath) :
    ∀ (ns : List Name) (c : Ctr), Routed hk (fileLoop o cfg hk rel ns c) := by
  intro ns
  induction ns with
  | nil => intro c; exact Routed.nil hk
  | cons n ns ih =>
    intro c
    simp only [fileLoop]
    split
    · exact (routed_fileStep cfg hk rel n).append ((Routed.nil hk).poll _ _)
    · exact (routed_fileStep cfg hk rel n).append ((ih _).poll _ _)

theorem routed_walkDir_of_subs (o : Oracle) (cfg : Cfg) (hk : Hooks V) (t : Tree)
    (hsub : ∀ rel kept c, Routed hk (walkSubs o cfg hk rel kept t c).evs) :
    ∀ rel c, Routed hk (walkDir o cfg hk rel t c).evs := by
  intro rel c
  unfold walkDir dirBody
  split
  · exact (Routed.nil hk).poll _ _
  · dsimp only
    split
    · exact ((routed_dirLoop o cfg hk rel _ _).append ((Routed.nil hk).poll _ _)).poll _ _
    · exact ((routed_dirLoop o cfg hk rel _ _).append
        (((routed_fileLoop o cfg hk rel _ _).append (hsub _ _ _)).poll _ _)).poll _ _

theorem routed_walkSubs (o : Oracle) (cfg : Cfg) (hk : Hooks V) :
    ∀ (t : Tree) (rel : RelPath) (kept : List Name) (c : Ctr), Routed hk (walkSubs o cfg hk rel kept t c).evs := by
  intro t
  induction t with
  | nil => intro rel kept c; exact Routed.nil hk
  | cons n k sub rest ihs ihr =>
    intro rel kept c
    rw [walkSubs_cons]
    have hD := routed_walkDir_of_subs o cfg hk sub ihs (rel ++ [n]) c
    split
    · split
      · exact hD
      · exact hD.append (ihr _ _ _)
    · exact ihr _ _ _

/-- for EVERY oracle: the values of a run are the non-`None` hook return values, unchanged, in order -/
theorem routed_run (o : Oracle) (cfg : Cfg) (hk : Hooks V) (t : Tree) : Routed hk (run o cfg hk t) := by
  unfold run
  have h := routed_walkDir_of_subs o cfg hk t (routed_walkSubs o cfg hk t) [] (advance {} [(Ev.reset : Ev V)])
  unfold Routed at *
  simpa [List.filterMap_cons] using h

/-! ### the files a run visits -/

/-- a file visit: the path and whether it went to `on_match` (true) or `on_skip` (false) -/
def visitOf : Ev V → Option (RelPath × Bool)
  | .hmatch p => some (p, true)
  | .hskip p => some (p, false)
  | _ => none

@[simp] theorem visitOf_poll (s : Site) (b : Bool) : visitOf (.poll s b : Ev V) = none := rfl
@[simp] theorem visitOf_reset : visitOf (.reset : Ev V) = none := rfl
@[simp] theorem visitOf_vdir (p : RelPath) : visitOf (.vdir p : Ev V) = none := rfl
@[simp] theorem visitOf_vfile (p : RelPath) : visitOf (.vfile p : Ev V) = none := rfl
@[simp] theorem visitOf_yield (v : V) : visitOf (.yield v : Ev V) = none := rfl
@[simp] theorem visitOf_herror (p : RelPath) : visitOf (.herror p : Ev V) = none := rfl
@[simp] theorem visitOf_hmatch (p : RelPath) : visitOf (.hmatch p : Ev V) = some (p, true) := rfl
@[simp] theorem visitOf_hskip (p : RelPath) : visitOf (.hskip p : Ev V) = some (p, false) := rfl

def fileVisits (evs : List (Ev V)) : List (RelPath × Bool) := evs.filterMap visitOf

theorem fileVisits_append (a b : List (Ev V)) : fileVisits (a ++ b) = fileVisits a ++ fileVisits b := by
  simp [fileVisits, List.filterMap_append]

@[simp] theorem fileVisits_nil : fileVisits ([] : List (Ev V)) = [] := rfl

@[simp] theorem fileVisits_poll (s : Site) (b : Bool) (l : List (Ev V)) :
    fileVisits (.poll s b :: l) = fileVisits l := rfl

theorem fileVisits_yieldOpt (x : Option V) : fileVisits (yieldOpt x) = [] := by
  cases x <;> rfl

theorem fileVisits_dirStep (cfg : Cfg) (hk : Hooks V) (rel : RelPath) (n : Name) :
    fileVisits (dirStep cfg hk rel n).1 = [] := by
  have hsh := validFolder_shape cfg hk rel n
  unfold dirStep
  generalize validFolder cfg hk rel n = r at hsh
  obtain ⟨e, res⟩ := r
  simp only at hsh
  cases res <;> rcases hsh with rfl | rfl <;>
    cases h : hk.onError (rel ++ [n]) <;> simp [fileVisits, yieldOpt, List.filterMap_cons]

/-- did `_valid_file` say yes -/
def accepted (cfg : Cfg) (hk : Hooks V) (rel : RelPath) (n : Name) : Bool :=
  (validFile cfg hk rel n).2 == .ret true

/-- every visited file goes to exactly one of on_match / on_skip -/
theorem fileVisits_fileStep (cfg : Cfg) (hk : Hooks V) (rel : RelPath) (n : Name) :
    fileVisits (fileStep cfg hk rel n) = [(rel ++ [n], accepted cfg hk rel n)] := by
  have hsh := validFile_shape cfg hk rel n
  unfold fileStep accepted
  generalize validFile cfg hk rel n = r at hsh
  obtain ⟨e, res⟩ := r
  simp only at hsh
  cases res with
  | ret b =>
    cases b <;> rcases hsh with rfl | rfl <;>
      cases h : hk.onSkip (rel ++ [n]) <;> simp [fileVisits, yieldOpt, List.filterMap_cons, h]
  | raise =>
    rcases hsh with rfl | rfl <;>
      cases h : hk.onSkip (rel ++ [n]) <;> cases h' : hk.onError (rel ++ [n]) <;>
        simp [fileVisits, yieldOpt, List.filterMap_cons, h, h']

theorem fileVisits_dirLoop (o : Oracle) (cfg : Cfg) (hk : Hooks V) (rel : RelPath) :
    ∀ (ns : List Name) (c : Ctr), fileVisits (dirLoop o cfg hk rel ns c).1 = [] := by
  intro ns
  induction ns with
  | nil => intro c; rfl
  | cons n ns ih =>
    intro c
    simp only [dirLoop]
    split
    · simp [fileVisits_append, fileVisits_dirStep]
    · simp [fileVisits_append, fileVisits_dirStep, ih]

theorem fileVisits_pureDirEvs (cfg : Cfg) (hk : Hooks V) (rel : RelPath) :
    ∀ ns : List Name, fileVisits (pureDirEvs cfg hk rel ns) = [] := by
  intro ns
  induction ns with
  | nil => rfl
  | cons n ns ih => simp [pureDirEvs, fileVisits_append, fileVisits_dirStep, ih]

theorem fileVisits_pureFileEvs (cfg : Cfg) (hk : Hooks V) (rel : RelPath) :
    ∀ ns : List Name, fileVisits (pureFileEvs cfg hk rel ns) = ns.map (fun n => (rel ++ [n], accepted cfg hk rel n)) := by
  intro ns
  induction ns with
  | nil => rfl
  | cons n ns ih => simp [pureFileEvs, fileVisits_append, fileVisits_fileStep, ih]

/-- whatever the oracle, the file loop visits a prefix of the directory's files, each once -/
theorem fileVisits_fileLoop_prefix (o : Oracle) (cfg : Cfg) (hk : Hooks V) (rel : RelPath) :
    ∀ (ns : List Name) (c : Ctr),
      fileVisits (fileLoop o cfg hk rel ns c) <+: ns.map (fun n => (rel ++ [n], accepted cfg hk rel n)) := by
  intro ns
  induction ns with
  | nil => intro c; exact List.prefix_refl _
  | cons n ns ih =>
    intro c
    simp only [fileLoop]
    split
    · simp only [fileVisits_append, fileVisits_fileStep, fileVisits_poll, fileVisits_nil, List.map_cons]
      exact List.prefix_append [_] _
    · simp only [fileVisits_append, fileVisits_fileStep, fileVisits_poll, List.map_cons]
      exact (List.prefix_append_right_inj [_]).mpr (ih _)

/-! ### base-class hooks, comparisons that do not raise: the pure run against the specification -/

def Cfg.NoRaise (cfg : Cfg) : Prop := (∀ p, cfg.fileDec p ≠ .raise) ∧ (∀ p, cfg.dirExcl p ≠ .raise)

/-- the folder loop keeps the name (base-class hooks) -/
def keepDir (cfg : Cfg) (rel : RelPath) (n : Name) : Bool :=
  cfg.recursive
  && !(cfg.hasExclude && (cfg.dirExcl (cmpArg cfg.dirPathname rel n) == .ret true))
  && (cfg.hidden || !isHidden n)

theorem enterable_eq (cfg : Cfg) (rel : RelPath) (n : Name) (k : Kind) :
    enterable cfg rel n k = (keepDir cfg rel n && k.walkable cfg.symlinks) := rfl

theorem dirStep_default_keep {cfg : Cfg} (hn : cfg.NoRaise) (rel : RelPath) (n : Name) :
    (dirStep cfg Hooks.default rel n).2 = keepDir cfg rel n := by
  have hx := hn.2 (cmpArg cfg.dirPathname rel n)
  unfold dirStep validFolder keepDir
  cases hr : cfg.recursive <;> cases hh : cfg.hasExclude <;> cases hd : cfg.hidden <;>
    cases hi : isHidden n <;> cases he : cfg.dirExcl (cmpArg cfg.dirPathname rel n) <;>
    simp_all [Hooks.default]
  all_goals (rename_i v; cases v <;> simp_all)

theorem accepted_default {cfg : Cfg} (hn : cfg.NoRaise) (rel : RelPath) (n : Name) :
    accepted cfg Hooks.default rel n = selected cfg rel n := by
  have hx := hn.1 (cmpArg cfg.filePathname rel n)
  unfold accepted validFile selected
  cases hd : cfg.hidden <;> cases hi : isHidden n <;>
    cases he : cfg.fileDec (cmpArg cfg.filePathname rel n) <;> simp_all [Hooks.default]
  all_goals (rename_i v; cases v <;> simp_all)

theorem mem_pureKept (cfg : Cfg) (hk : Hooks V) (rel : RelPath) (n : Name) :
    ∀ ns : List Name, n ∈ pureKept cfg hk rel ns ↔ n ∈ ns ∧ (dirStep cfg hk rel n).2 = true := by
  intro ns
  induction ns with
  | nil => simp [pureKept]
  | cons m ns ih =>
    simp only [pureKept, List.mem_append, ih, List.mem_cons]
    cases hm : (dirStep cfg hk rel m).2 with
    | true =>
      simp only [if_true, List.mem_singleton]
      constructor
      · rintro (rfl | h)
        · exact ⟨Or.inl rfl, hm⟩
        · exact ⟨Or.inr h.1, h.2⟩
      · rintro ⟨rfl | h, h2⟩
        · exact Or.inl rfl
        · exact Or.inr ⟨h, h2⟩
    | false =>
      simp only [Bool.false_eq_true, if_false, List.not_mem_nil, false_or]
      constructor
      · rintro ⟨h, h2⟩; exact ⟨Or.inr h, h2⟩
      · rintro ⟨rfl | h, h2⟩
        · rw [hm] at h2; cases h2
        · exact ⟨h, h2⟩

theorem enters_eq_enterable (cfg : Cfg) (rel : RelPath) (kept : List Name) (n : Name) (k : Kind)
    (h : k.dirLike = true → (n ∈ kept ↔ keepDir cfg rel n = true)) :
    enters cfg kept n k = enterable cfg rel n k := by
  rw [enterable_eq]
  unfold enters
  cases k
  case dir =>
    have := h rfl
    cases hk : keepDir cfg rel n <;> simp_all
  case linkDir =>
    have := h rfl
    cases hk : keepDir cfg rel n <;> simp_all
  all_goals simp [Kind.walkable]

theorem dirNames_cons_sub (n : Name) (k : Kind) (sub rest : Tree) (m : Name) (h : m ∈ dirNames rest) :
    m ∈ dirNames (.cons n k sub rest) := by
  unfold dirNames
  split
  · exact List.mem_cons_of_mem _ h
  · exact h

theorem mem_dirNames_head (n : Name) (k : Kind) (sub rest : Tree) (h : k.dirLike = true) :
    n ∈ dirNames (.cons n k sub rest) := by
  unfold dirNames
  simp [h]

/-- the files the uninterrupted run visits (base-class hooks) are the files of the reachable
    directories, each routed by the file decision -/
theorem fileVisits_pureSubs_default {cfg : Cfg} (hn : cfg.NoRaise) :
    ∀ (t : Tree) (rel : RelPath) (kept : List Name),
      (∀ n ∈ dirNames t, (n ∈ kept ↔ keepDir cfg rel n = true)) →
      fileVisits (pureSubs cfg Hooks.default rel kept t) =
        (reachSubs cfg rel t).map (fun x => (x.1 ++ [x.2], selected cfg x.1 x.2)) := by
  intro t
  induction t with
  | nil => intro rel kept _; rfl
  | cons n k sub rest ihs ihr =>
    intro rel kept hkept
    have hent : enters cfg kept n k = enterable cfg rel n k :=
      enters_eq_enterable cfg rel kept n k (fun hd => hkept n (mem_dirNames_head n k sub rest hd))
    have hrest := ihr rel kept (fun m hm => hkept m (dirNames_cons_sub n k sub rest m hm))
    have hsub := ihs (rel ++ [n]) (pureKept cfg Hooks.default (rel ++ [n]) (dirNames sub)) (by
      intro m hm
      rw [mem_pureKept, dirStep_default_keep hn]
      exact ⟨fun h => h.2, fun h => ⟨hm, h⟩⟩)
    simp only [pureSubs, reachSubs, hent, fileVisits_append, hrest, List.map_append]
    congr 1
    cases henb : enterable cfg rel n k with
    | false => simp
    | true =>
      simp only [if_true, fileVisits_poll, fileVisits_append, fileVisits_pureDirEvs, fileVisits_pureFileEvs,
        hsub, List.nil_append, List.map_append, List.map_map]
      congr 1
      apply List.map_congr_left
      intro f _
      simp [accepted_default hn]

theorem fileVisits_pureRun_default {cfg : Cfg} (hn : cfg.NoRaise) (t : Tree) :
    fileVisits (pureRun cfg Hooks.default t) =
      (reachable cfg t).map (fun x => (x.1 ++ [x.2], selected cfg x.1 x.2)) := by
  have hsub := fileVisits_pureSubs_default hn t [] (pureKept cfg Hooks.default [] (dirNames t)) (by
      intro m hm
      rw [mem_pureKept, dirStep_default_keep hn]
      exact ⟨fun h => h.2, fun h => ⟨hm, h⟩⟩)
  unfold pureRun pureDir reachable
  simp only [fileVisits, List.filterMap_cons, visitOf_reset, visitOf_poll]
  change fileVisits (_ ++ (Ev.poll Site.mid false :: (_ ++ _))) = _
  rw [fileVisits_append, fileVisits_poll, fileVisits_append, fileVisits_pureDirEvs, fileVisits_pureFileEvs, hsub]
  simp only [List.nil_append, List.map_append, List.map_map]
  congr 1
  apply List.map_congr_left
  intro f _
  simp [accepted_default hn]

/-! ### no file is visited twice (every oracle) -/

/-- every file below the sub-directories of `rel` that `os.walk` could ever enter, in walk order -/
def allSubs (sl : Bool) : RelPath → Tree → List RelPath
  | _, .nil => []
  | rel, .cons n k sub rest =>
    (if k.walkable sl then (fileNames sub).map (fun f => rel ++ [n] ++ [f]) ++ allSubs sl (rel ++ [n]) sub else [])
      ++ allSubs sl rel rest

def allFiles (sl : Bool) (rel : RelPath) (t : Tree) : List RelPath :=
  (fileNames t).map (fun f => rel ++ [f]) ++ allSubs sl rel t

def visitPaths (evs : List (Ev V)) : List RelPath := (fileVisits evs).map (·.1)

theorem visitPaths_append (a b : List (Ev V)) : visitPaths (a ++ b) = visitPaths a ++ visitPaths b := by
  simp [visitPaths, fileVisits_append]

theorem visitPaths_fileLoop (o : Oracle) (cfg : Cfg) (hk : Hooks V) (rel : RelPath) (ns : List Name) (c : Ctr) :
    (visitPaths (fileLoop o cfg hk rel ns c)).Sublist (ns.map (fun f => rel ++ [f])) := by
  have h := (fileVisits_fileLoop_prefix o cfg hk rel ns c).sublist.map (·.1)
  simpa [visitPaths, List.map_map, Function.comp_def] using h

theorem visitPaths_walkDir_of_subs (o : Oracle) (cfg : Cfg) (hk : Hooks V) (t : Tree)
    (hsub : ∀ rel kept c, (visitPaths (walkSubs o cfg hk rel kept t c).evs).Sublist (allSubs cfg.symlinks rel t)) :
    ∀ rel c, (visitPaths (walkDir o cfg hk rel t c).evs).Sublist (allFiles cfg.symlinks rel t) := by
  intro rel c
  unfold walkDir dirBody allFiles
  have this : ∀ (s : Site) (b : Bool) (l : List (Ev V)), visitPaths (Ev.poll s b :: l) = visitPaths l :=
    fun _ _ _ => rfl
  split
  · exact List.nil_sublist _
  · have hd : visitPaths (dirLoop o cfg hk rel (dirNames t) (c.tick (Ev.poll Site.top false : Ev V))).1 = [] := by
      simp [visitPaths, fileVisits_dirLoop]
    dsimp only
    split
    · show (visitPaths (Ev.poll Site.top false :: (_ ++ [Ev.poll Site.mid true]))).Sublist _
      rw [this, visitPaths_append, hd, this]
      exact List.nil_sublist _
    · show (visitPaths (Ev.poll Site.top false :: (_ ++ Ev.poll Site.mid false :: (_ ++ _)))).Sublist _
      rw [this, visitPaths_append, this, visitPaths_append, hd, List.nil_append]
      exact (visitPaths_fileLoop o cfg hk rel _ _).append (hsub _ _ _)

theorem enters_walkable {cfg : Cfg} {kept : List Name} {n : Name} {k : Kind} (h : enters cfg kept n k = true) :
    k.walkable cfg.symlinks = true := by
  unfold enters at h
  simp only [Bool.and_eq_true] at h
  exact h.2

theorem visitPaths_walkSubs (o : Oracle) (cfg : Cfg) (hk : Hooks V) :
    ∀ (t : Tree) (rel : RelPath) (kept : List Name) (c : Ctr),
      (visitPaths (walkSubs o cfg hk rel kept t c).evs).Sublist (allSubs cfg.symlinks rel t) := by
  intro t
  induction t with
  | nil => intro rel kept c; exact List.nil_sublist _
  | cons n k sub rest ihs ihr =>
    intro rel kept c
    rw [walkSubs_cons]
    have hD := visitPaths_walkDir_of_subs o cfg hk sub ihs (rel ++ [n]) c
    unfold allFiles at hD
    simp only [allSubs]
    by_cases he : enters cfg kept n k = true
    · simp only [he, if_true, enters_walkable he]
      have hD' : (visitPaths (walkDir o cfg hk (rel ++ [n]) sub c).evs).Sublist
          ((fileNames sub).map (fun f => rel ++ [n] ++ [f]) ++ allSubs cfg.symlinks (rel ++ [n]) sub) := hD
      split
      · exact hD'.trans (List.sublist_append_left _ _)
      · rw [visitPaths_append]
        exact hD'.append (ihr _ _ _)
    · simp only [he, Bool.false_eq_true, if_false]
      exact (ihr _ _ _).trans (List.sublist_append_right _ _)

theorem names_cons (n : Name) (k : Kind) (sub rest : Tree) : names (.cons n k sub rest) = n :: names rest := rfl

theorem nodup_names : ∀ t : Tree, t.WF → (names t).Nodup := by
  intro t
  induction t with
  | nil => intro _; exact List.nodup_nil
  | cons n k sub rest _ ihr =>
    intro h
    rw [names_cons, List.nodup_cons]
    exact ⟨h.1, ihr h.2.2⟩

theorem fileNames_sublist : ∀ t : Tree, (fileNames t).Sublist (names t) := by
  intro t
  induction t with
  | nil => exact List.Sublist.slnil
  | cons n k sub rest _ ihr =>
    unfold fileNames
    rw [names_cons]
    split
    · exact ihr.cons _
    · exact ihr.cons_cons _

theorem nodup_map_snoc (pre : RelPath) : ∀ l : List Name, l.Nodup → (l.map (fun f => pre ++ [f])).Nodup := by
  intro l
  induction l with
  | nil => intro _; exact List.nodup_nil
  | cons a l ih =>
    intro h
    rw [List.nodup_cons] at h
    rw [List.map_cons, List.nodup_cons]
    refine ⟨?_, ih h.2⟩
    intro hm
    rw [List.mem_map] at hm
    obtain ⟨b, hb, hbe⟩ := hm
    have : [b] = [a] := List.append_cancel_left hbe
    cases this
    exact h.1 hb

/-- every path of `allSubs` lies strictly below one of the entries of `t` -/
theorem allSubs_shape (sl : Bool) : ∀ (t : Tree) (rel : RelPath) (p : RelPath), p ∈ allSubs sl rel t →
    ∃ n q, n ∈ names t ∧ q ≠ [] ∧ p = rel ++ n :: q := by
  intro t
  induction t with
  | nil => intro rel p h; cases h
  | cons n k sub rest ihs ihr =>
    intro rel p h
    simp only [allSubs, List.mem_append] at h
    rcases h with h | h
    · split at h
      · rw [List.mem_append] at h
        rcases h with h | h
        · rw [List.mem_map] at h
          obtain ⟨f, _, rfl⟩ := h
          exact ⟨n, [f], List.mem_cons_self, by simp, by simp⟩
        · obtain ⟨m, q, _, _, rfl⟩ := ihs (rel ++ [n]) p h
          exact ⟨n, m :: q, List.mem_cons_self, by simp, by simp⟩
      · cases h
    · obtain ⟨m, q, hm, hq, rfl⟩ := ihr rel p h
      exact ⟨m, q, List.mem_cons_of_mem _ hm, hq, rfl⟩

theorem nodup_allSubs (sl : Bool) : ∀ (t : Tree), t.WF → ∀ rel : RelPath, (allSubs sl rel t).Nodup := by
  intro t
  induction t with
  | nil => intro _ rel; exact List.nodup_nil
  | cons n k sub rest ihs ihr =>
    intro hwf rel
    simp only [allSubs]
    rw [List.nodup_append]
    refine ⟨?_, ihr hwf.2.2 rel, ?_⟩
    · split
      · rw [List.nodup_append]
        refine ⟨?_, ihs hwf.2.1 _, ?_⟩
        · have := nodup_map_snoc (rel ++ [n]) (fileNames sub)
            ((nodup_names sub hwf.2.1).sublist (fileNames_sublist sub))
          exact this
        · intro a ha b hb hab
          rw [List.mem_map] at ha
          obtain ⟨f, _, rfl⟩ := ha
          obtain ⟨m, q, _, hq, rfl⟩ := allSubs_shape sl sub (rel ++ [n]) b hb
          have h1 : [f] = m :: q := List.append_cancel_left hab
          cases h1
          exact hq rfl
      · exact List.nodup_nil
    · intro a ha b hb hab
      obtain ⟨m, q, hm, _, rfl⟩ := allSubs_shape sl rest rel b hb
      have hn : n ∉ names rest := hwf.1
      split at ha
      · rw [List.mem_append] at ha
        rcases ha with ha | ha
        · rw [List.mem_map] at ha
          obtain ⟨f, _, rfl⟩ := ha
          have h1 : [n] ++ [f] = m :: q := by
            apply List.append_cancel_left (as := rel)
            simpa [List.append_assoc] using hab
          cases h1
          exact hn hm
        · obtain ⟨m', q', _, _, rfl⟩ := allSubs_shape sl sub (rel ++ [n]) a ha
          have h1 : n :: m' :: q' = m :: q := by
            apply List.append_cancel_left (as := rel)
            simpa [List.append_assoc] using hab
          cases h1
          exact hn hm
      · cases ha

theorem nodup_allFiles (sl : Bool) (t : Tree) (hwf : t.WF) (rel : RelPath) : (allFiles sl rel t).Nodup := by
  unfold allFiles
  rw [List.nodup_append]
  refine ⟨nodup_map_snoc rel _ ((nodup_names t hwf).sublist (fileNames_sublist t)), nodup_allSubs sl t hwf rel, ?_⟩
  intro a ha b hb hab
  rw [List.mem_map] at ha
  obtain ⟨f, _, rfl⟩ := ha
  obtain ⟨m, q, _, hq, rfl⟩ := allSubs_shape sl t rel b hb
  have h1 : [f] = m :: q := List.append_cancel_left hab
  cases h1
  exact hq rfl

/-- for EVERY oracle: the files a run visits are pairwise different (no file goes to on_match or
    on_skip twice, none to both) -/
theorem nodup_visitPaths_run (o : Oracle) (cfg : Cfg) (hk : Hooks V) (t : Tree) (hwf : t.WF) :
    (visitPaths (run o cfg hk t)).Nodup := by
  have h := visitPaths_walkDir_of_subs o cfg hk t (visitPaths_walkSubs o cfg hk t) []
    (advance {} [(Ev.reset : Ev V)])
  unfold run
  have : ∀ l : List (Ev V), visitPaths (Ev.reset :: l) = visitPaths l := fun _ => rfl
  rw [this]
  exact (nodup_allFiles cfg.symlinks t hwf []).sublist h

/-! ### Lemma C: what can still happen after the first poll that observes the flag -/

/-- site of the first poll that returned true, and the events after it -/
def afterTrue : List (Ev V) → Option (Site × List (Ev V))
  | [] => none
  | .poll s true :: l => some (s, l)
  | _ :: l => afterTrue l

def noPoll (l : List (Ev V)) : Bool := l.all (fun e => match e with | .poll _ _ => false | _ => true)

/-- no directory validation and no poll that returns false -/
def quiet (l : List (Ev V)) : Bool :=
  l.all (fun e => match e with | .vdir _ => false | .poll _ false => false | _ => true)

theorem afterTrue_noPoll : ∀ (a b : List (Ev V)), noPoll a = true → afterTrue (a ++ b) = afterTrue b := by
  intro a
  induction a with
  | nil => intro b _; rfl
  | cons e a ih =>
    intro b h
    simp only [noPoll, List.all_cons, Bool.and_eq_true] at h
    have := ih b (by simpa [noPoll] using h.2)
    cases e <;> simp_all [afterTrue]

theorem afterTrue_append : ∀ (a b : List (Ev V)),
    afterTrue (a ++ b) = match afterTrue a with
      | some (s, post) => some (s, post ++ b)
      | none => afterTrue b := by
  intro a
  induction a with
  | nil => intro b; rfl
  | cons e a ih =>
    intro b
    cases e with
    | poll s v => cases v <;> simp [afterTrue, ih]
    | _ => simp [afterTrue, ih]

theorem noPoll_yieldOpt (x : Option V) : noPoll (yieldOpt x) = true := by cases x <;> rfl

theorem noPoll_dirStep (cfg : Cfg) (hk : Hooks V) (rel : RelPath) (n : Name) :
    noPoll (dirStep cfg hk rel n).1 = true := by
  have hsh := validFolder_shape cfg hk rel n
  unfold dirStep
  generalize validFolder cfg hk rel n = r at hsh
  obtain ⟨e, res⟩ := r
  simp only at hsh
  cases res <;> rcases hsh with rfl | rfl <;>
    cases h : hk.onError (rel ++ [n]) <;> simp [noPoll, yieldOpt]

theorem noPoll_fileStep (cfg : Cfg) (hk : Hooks V) (rel : RelPath) (n : Name) :
    noPoll (fileStep cfg hk rel n) = true := by
  have hsh := validFile_shape cfg hk rel n
  unfold fileStep
  generalize validFile cfg hk rel n = r at hsh
  obtain ⟨e, res⟩ := r
  simp only at hsh
  cases res with
  | ret b =>
    cases b <;> rcases hsh with rfl | rfl <;>
      cases h : hk.onSkip (rel ++ [n]) <;> simp [noPoll, yieldOpt, h]
  | raise =>
    rcases hsh with rfl | rfl <;>
      cases h : hk.onSkip (rel ++ [n]) <;> cases h' : hk.onError (rel ++ [n]) <;>
        simp [noPoll, yieldOpt, h, h']

/-- the clock is hot on entry: `walkDir` polls once and leaves the walk -/
theorem walkDir_hot {o : Oracle} (cfg : Cfg) (hk : Hooks V) (rel : RelPath) (t : Tree) (c : Ctr)
    (h : o c = true) : walkDir o cfg hk rel t c = ⟨[.poll .top true], true⟩ := by
  unfold walkDir dirBody
  simp [h]

/-- the clock is hot on entry: `os.walk` either has no directory left to go to, or the next
    directory polls once and leaves the walk -/
theorem walkSubs_hot {o : Oracle} (cfg : Cfg) (hk : Hooks V) :
    ∀ (t : Tree) (rel : RelPath) (kept : List Name) (c : Ctr), o c = true →
      walkSubs o cfg hk rel kept t c = ⟨[], false⟩ ∨
      walkSubs o cfg hk rel kept t c = ⟨[.poll .top true], true⟩ := by
  intro t
  induction t with
  | nil => intro rel kept c _; exact Or.inl rfl
  | cons n k sub rest _ ihr =>
    intro rel kept c h
    rw [walkSubs_cons, walkDir_hot cfg hk (rel ++ [n]) sub c h]
    split
    · simp
    · exact ihr rel kept c h

theorem dirLoop_after {o : Oracle} (hl : Latched o) (cfg : Cfg) (hk : Hooks V) (rel : RelPath) :
    ∀ (ns : List Name) (c : Ctr),
      afterTrue (dirLoop o cfg hk rel ns c).1 = none ∨
      (afterTrue (dirLoop o cfg hk rel ns c).1 = some (.folder, []) ∧
        o (advance c (dirLoop o cfg hk rel ns c).1) = true) := by
  intro ns
  induction ns with
  | nil => intro c; exact Or.inl rfl
  | cons n ns ih =>
    intro c
    simp only [dirLoop]
    cases hc : o (advance c (dirStep cfg hk rel n).1) with
    | true =>
      simp only [if_true]
      right
      rw [afterTrue_noPoll _ _ (noPoll_dirStep cfg hk rel n), advance_append]
      exact ⟨rfl, hl.adv1 _ _ hc⟩
    | false =>
      simp only [Bool.false_eq_true, if_false]
      rw [afterTrue_noPoll _ _ (noPoll_dirStep cfg hk rel n), advance_append, advance_cons]
      exact ih _

theorem fileLoop_after {o : Oracle} (hl : Latched o) (cfg : Cfg) (hk : Hooks V) (rel : RelPath) :
    ∀ (ns : List Name) (c : Ctr),
      afterTrue (fileLoop o cfg hk rel ns c) = none ∨
      (afterTrue (fileLoop o cfg hk rel ns c) = some (.file, []) ∧
        o (advance c (fileLoop o cfg hk rel ns c)) = true) := by
  intro ns
  induction ns with
  | nil => intro c; exact Or.inl rfl
  | cons n ns ih =>
    intro c
    simp only [fileLoop]
    cases hc : o (advance c (fileStep cfg hk rel n)) with
    | true =>
      simp only [if_true]
      right
      rw [afterTrue_noPoll _ _ (noPoll_fileStep cfg hk rel n), advance_append]
      exact ⟨rfl, hl.adv1 _ _ hc⟩
    | false =>
      simp only [Bool.false_eq_true, if_false]
      rw [afterTrue_noPoll _ _ (noPoll_fileStep cfg hk rel n), advance_append, advance_cons]
      exact ih _

/-- What the code does after the FIRST poll that observed the flag (at site `s`): nothing at all after
    the top-of-directory poll and after the poll that follows the folder loop (both leave the walk);
    after the after-folder poll exactly the poll that follows the folder loop (it answers true and
    leaves the walk); after the after-file poll at most the top-of-directory poll of the next
    directory (it answers true and leaves the walk).  No hook is invoked, no file visited, no
    directory validated, no value yielded. -/
def After (s : Site) (post : List (Ev V)) : Prop :=
  match s with
  | .top => post = []
  | .mid => post = []
  | .folder => post = [.poll .mid true]
  | .file => post = [] ∨ post = [.poll .top true]

/-- `After`, together with whether the `os.walk` loop has been left -/
def Fin (s : Site) (post : List (Ev V)) (stop : Bool) : Prop :=
  match s with
  | .top => post = [] ∧ stop = true
  | .mid => post = [] ∧ stop = true
  | .folder => post = [.poll .mid true] ∧ stop = true
  | .file => (post = [] ∧ stop = false) ∨ (post = [.poll .top true] ∧ stop = true)

theorem Fin.after {s : Site} {post : List (Ev V)} {stop : Bool} (h : Fin s post stop) : After s post := by
  cases s <;> simp only [Fin, After] at h ⊢
  · exact h.1
  · exact h.1
  · exact h.1
  · rcases h with h | h
    · exact Or.inl h.1
    · exact Or.inr h.1

/-- a component that has not left the walk although a poll has observed the flag: that poll was the
    last event, at the file site -/
theorem Fin.running {s : Site} {post : List (Ev V)} (h : Fin s post false) : s = .file ∧ post = [] := by
  cases s <;> simp [Fin] at h
  exact ⟨rfl, h⟩

def Over (o : Oracle) (c : Ctr) (evs : List (Ev V)) (stop : Bool) : Prop :=
  match afterTrue evs with
  | none => stop = false
  | some (s, post) => o (advance c evs) = true ∧ Fin s post stop

theorem walkDir_over_of_subs {o : Oracle} (hl : Latched o) (cfg : Cfg) (hk : Hooks V) (t : Tree)
    (hsub : ∀ rel kept c, Over o c (walkSubs o cfg hk rel kept t c).evs (walkSubs o cfg hk rel kept t c).stop) :
    ∀ rel c, Over o c (walkDir o cfg hk rel t c).evs (walkDir o cfg hk rel t c).stop := by
  intro rel c
  cases hc : o c with
  | true =>
    rw [walkDir_hot cfg hk rel t c hc]
    exact ⟨hl.adv1 _ _ hc, rfl, rfl⟩
  | false =>
    unfold walkDir dirBody
    simp only [hc, Bool.false_eq_true, if_false]
    generalize hc1 : c.tick (Ev.poll Site.top false : Ev V) = c1
    have hD := dirLoop_after hl cfg hk rel (dirNames t) c1
    generalize hd : dirLoop o cfg hk rel (dirNames t) c1 = d at hD
    generalize hc2 : advance c1 d.1 = c2 at hD
    cases h2 : o c2 with
    | true =>
      simp only [if_true]
      have hadv : advance c (Ev.poll Site.top false :: (d.1 ++ [(Ev.poll Site.mid true : Ev V)]))
          = advance c2 [(Ev.poll Site.mid true : Ev V)] := by
        rw [advance_cons, hc1, advance_append, hc2]
      unfold Over
      simp only [afterTrue, hadv]
      rw [afterTrue_append]
      rcases hD with hD | ⟨hD, _⟩
      · rw [hD]
        exact ⟨hl.adv1 _ _ h2, rfl, rfl⟩
      · rw [hD]
        exact ⟨hl.adv1 _ _ h2, rfl, rfl⟩
    | false =>
      simp only [Bool.false_eq_true, if_false]
      have hDn : afterTrue d.1 = none := by
        rcases hD with hD | ⟨_, hD2⟩
        · exact hD
        · rw [h2] at hD2; cases hD2
      generalize hc2' : c2.tick (Ev.poll Site.mid false : Ev V) = c2'
      have hF := fileLoop_after hl cfg hk rel (fileNames t) c2'
      generalize hf : fileLoop o cfg hk rel (fileNames t) c2' = f at hF
      generalize hc3 : advance c2' f = c3 at hF
      have hS := hsub rel d.2 c3
      have hSh := walkSubs_hot cfg hk t rel d.2 c3 (o := o)
      generalize hsv : walkSubs o cfg hk rel d.2 t c3 = s at hS hSh
      have hadv : advance c (Ev.poll Site.top false :: (d.1 ++ (Ev.poll Site.mid false :: (f ++ s.evs))))
          = advance c3 s.evs := by
        rw [advance_cons, hc1, advance_append, hc2, advance_cons, hc2', advance_append, hc3]
      unfold Over at *
      simp only [afterTrue, hadv]
      rw [afterTrue_append, hDn]
      simp only [afterTrue]
      rw [afterTrue_append]
      rcases hF with hF | ⟨hF, hF2⟩
      · rw [hF]
        exact hS
      · rw [hF]
        simp only [List.nil_append]
        rcases hSh hF2 with h | h
        · rw [h]
          exact ⟨hF2, Or.inl ⟨rfl, rfl⟩⟩
        · rw [h]
          exact ⟨hl.adv1 _ _ hF2, Or.inr ⟨rfl, rfl⟩⟩

theorem walkSubs_over {o : Oracle} (hl : Latched o) (cfg : Cfg) (hk : Hooks V) :
    ∀ (t : Tree) (rel : RelPath) (kept : List Name) (c : Ctr),
      Over o c (walkSubs o cfg hk rel kept t c).evs (walkSubs o cfg hk rel kept t c).stop := by
  intro t
  induction t with
  | nil => intro rel kept c; rfl
  | cons n k sub rest ihs ihr =>
    intro rel kept c
    rw [walkSubs_cons]
    by_cases he : enters cfg kept n k = true
    · simp only [he, if_true]
      have hD := walkDir_over_of_subs hl cfg hk sub ihs (rel ++ [n]) c
      generalize walkDir o cfg hk (rel ++ [n]) sub c = r at hD
      cases hst : r.stop with
      | true => simpa using hD
      | false =>
        simp only [Bool.false_eq_true, if_false]
        have hR := ihr rel kept (advance c r.evs)
        have hRh := walkSubs_hot cfg hk rest rel kept (advance c r.evs) (o := o)
        generalize walkSubs o cfg hk rel kept rest (advance c r.evs) = r2 at hR hRh
        unfold Over at *
        rw [afterTrue_append, advance_append]
        cases ha : afterTrue r.evs with
        | none => simpa using hR
        | some sp =>
          obtain ⟨s, post⟩ := sp
          rw [ha] at hD
          simp only at hD ⊢
          rw [hst] at hD
          obtain ⟨rfl, rfl⟩ := hD.2.running
          rcases hRh hD.1 with h | h
          · rw [h]
            exact ⟨hD.1, Or.inl ⟨rfl, rfl⟩⟩
          · rw [h]
            exact ⟨hl.adv1 _ _ hD.1, Or.inr ⟨rfl, rfl⟩⟩
    · simp only [he, Bool.false_eq_true, if_false]
      exact ihr rel kept c

theorem run_over {o : Oracle} (hl : Latched o) (cfg : Cfg) (hk : Hooks V) (t : Tree) :
    ∀ s post, afterTrue (run o cfg hk t) = some (s, post) → After s post := by
  intro s post h
  have hO := walkDir_over_of_subs hl cfg hk t (walkSubs_over hl cfg hk t) [] (advance {} [(Ev.reset : Ev V)])
  unfold run at h
  simp only [afterTrue] at h
  unfold Over at hO
  rw [h] at hO
  exact hO.2.after

/-- `After` in the vocabulary of the property: no file is visited, no directory validated, every poll
    answers true, no value is yielded, no hook is invoked -/
theorem After.calm {s : Site} {post : List (Ev V)} (h : After s post) :
    fileVisits post = [] ∧ quiet post = true ∧ results post = [] ∧ post.filterMap nonPoll = [] ∧
      post.length ≤ 1 := by
  cases s <;> simp only [After] at h
  · subst h; exact ⟨rfl, rfl, rfl, rfl, Nat.zero_le _⟩
  · subst h; exact ⟨rfl, rfl, rfl, rfl, Nat.le_refl _⟩
  · subst h; exact ⟨rfl, rfl, rfl, rfl, Nat.zero_le _⟩
  · rcases h with h | h <;> subst h
    · exact ⟨rfl, rfl, rfl, rfl, Nat.zero_le _⟩
    · exact ⟨rfl, rfl, rfl, rfl, Nat.le_refl _⟩

/-! ### pacing: between two consecutive polls the walk works on one path only (every oracle) -/

/-- the path a hook invocation is about -/
def pathOf : Ev V → Option RelPath
  | .vdir p => some p
  | .vfile p => some p
  | .hmatch p => some p
  | .hskip p => some p
  | .herror p => some p
  | _ => none

/-- all hook invocations between two consecutive polls are about one path (`cur`: the path of the
    hook invocations seen since the last poll) -/
def paced : Option RelPath → List (Ev V) → Bool
  | _, [] => true
  | cur, e :: l =>
    match e with
    | .poll _ _ => paced none l
    | e =>
      match pathOf e with
      | none => paced cur l
      | some q => (match cur with | none => true | some p => q == p) && paced (some q) l

/-- a poll-free piece of work about the path `p` -/
def stepFor (p : RelPath) (s : List (Ev V)) : Bool :=
  s.all (fun e => match e with
    | .poll _ _ => false
    | e => match pathOf e with
      | none => true
      | some q => q == p)

theorem paced_step (p : RelPath) (site : Site) (b : Bool) (l : List (Ev V)) :
    ∀ s : List (Ev V), stepFor p s = true →
      paced (some p) (s ++ .poll site b :: l) = paced none l ∧
      paced none (s ++ .poll site b :: l) = paced none l := by
  intro s
  induction s with
  | nil => intro _; exact ⟨rfl, rfl⟩
  | cons e s ih =>
    intro h
    simp only [stepFor, List.all_cons, Bool.and_eq_true] at h
    have ih' := ih (by simpa [stepFor] using h.2)
    have h1 := h.1
    cases e with
    | poll s' b' => simp at h1
    | reset => simpa [paced, pathOf] using ih'
    | yield v => simpa [paced, pathOf] using ih'
    | vdir q =>
      have hq : q = p := by simpa [pathOf] using h1
      subst hq
      simpa [paced, pathOf] using ih'.1
    | vfile q =>
      have hq : q = p := by simpa [pathOf] using h1
      subst hq
      simpa [paced, pathOf] using ih'.1
    | hmatch q =>
      have hq : q = p := by simpa [pathOf] using h1
      subst hq
      simpa [paced, pathOf] using ih'.1
    | hskip q =>
      have hq : q = p := by simpa [pathOf] using h1
      subst hq
      simpa [paced, pathOf] using ih'.1
    | herror q =>
      have hq : q = p := by simpa [pathOf] using h1
      subst hq
      simpa [paced, pathOf] using ih'.1

theorem stepFor_dirStep (cfg : Cfg) (hk : Hooks V) (rel : RelPath) (n : Name) :
    stepFor (rel ++ [n]) (dirStep cfg hk rel n).1 = true := by
  have hsh := validFolder_shape cfg hk rel n
  unfold dirStep
  generalize validFolder cfg hk rel n = r at hsh
  obtain ⟨e, res⟩ := r
  simp only at hsh
  cases res <;> rcases hsh with rfl | rfl <;>
    cases h : hk.onError (rel ++ [n]) <;> simp [stepFor, pathOf, yieldOpt]

theorem stepFor_fileStep (cfg : Cfg) (hk : Hooks V) (rel : RelPath) (n : Name) :
    stepFor (rel ++ [n]) (fileStep cfg hk rel n) = true := by
  have hsh := validFile_shape cfg hk rel n
  unfold fileStep
  generalize validFile cfg hk rel n = r at hsh
  obtain ⟨e, res⟩ := r
  simp only at hsh
  cases res with
  | ret b =>
    cases b <;> rcases hsh with rfl | rfl <;>
      cases h : hk.onSkip (rel ++ [n]) <;> simp [stepFor, pathOf, yieldOpt, h]
  | raise =>
    rcases hsh with rfl | rfl <;>
      cases h : hk.onSkip (rel ++ [n]) <;> cases h' : hk.onError (rel ++ [n]) <;>
        simp [stepFor, pathOf, yieldOpt, h, h']

/-- a piece of the run that starts right after a poll and ends with one -/
def Blocks (evs : List (Ev V)) : Prop := ∀ l : List (Ev V), paced none (evs ++ l) = paced none l

theorem Blocks.nil : Blocks ([] : List (Ev V)) := fun _ => rfl

theorem Blocks.append {a b : List (Ev V)} (ha : Blocks a) (hb : Blocks b) : Blocks (a ++ b) := by
  intro l
  rw [List.append_assoc, ha, hb]

theorem Blocks.poll (s : Site) (b : Bool) {a : List (Ev V)} (ha : Blocks a) : Blocks (.poll s b :: a) :=
  fun l => ha l

theorem Blocks.step {p : RelPath} {s : List (Ev V)} (hs : stepFor p s = true) (site : Site) (b : Bool)
    {a : List (Ev V)} (ha : Blocks a) : Blocks (s ++ .poll site b :: a) := by
  intro l
  rw [List.append_assoc, List.cons_append, (paced_step p site b (a ++ l) s hs).2]
  exact ha l

theorem blocks_dirLoop (o : Oracle) (cfg : Cfg) (hk : Hooks V) (rel : RelPath) :
    ∀ (ns : List Name) (c : Ctr), Blocks (dirLoop o cfg hk rel ns c).1 := by
  intro ns
  induction ns with
  | nil => intro c; exact Blocks.nil
  | cons n ns ih =>
    intro c
    simp only [dirLoop]
    split
    · exact Blocks.step (stepFor_dirStep cfg hk rel n) _ _ Blocks.nil
    · exact Blocks.step (stepFor_dirStep cfg hk rel n) _ _ (ih _)

theorem blocks_fileLoop (o : Oracle) (cfg : Cfg) (hk : Hooks V) (rel : RelPath) :
    ∀ (ns : List Name) (c : Ctr), Blocks (fileLoop o cfg hk rel ns c) := by
  intro ns
  induction ns with
  | nil => intro c; exact Blocks.nil
  | cons n ns ih =>
    intro c
    simp only [fileLoop]
    split
    · exact Blocks.step (stepFor_fileStep cfg hk rel n) _ _ Blocks.nil
    · exact Blocks.step (stepFor_fileStep cfg hk rel n) _ _ (ih _)

theorem blocks_walkDir_of_subs (o : Oracle) (cfg : Cfg) (hk : Hooks V) (t : Tree)
    (hsub : ∀ rel kept c, Blocks (walkSubs o cfg hk rel kept t c).evs) :
    ∀ rel c, Blocks (walkDir o cfg hk rel t c).evs := by
  intro rel c
  unfold walkDir dirBody
  split
  · exact Blocks.nil.poll _ _
  · dsimp only
    split
    · exact ((blocks_dirLoop o cfg hk rel _ _).append (Blocks.nil.poll _ _)).poll _ _
    · exact ((blocks_dirLoop o cfg hk rel _ _).append
        (((blocks_fileLoop o cfg hk rel _ _).append (hsub _ _ _)).poll _ _)).poll _ _

theorem blocks_walkSubs (o : Oracle) (cfg : Cfg) (hk : Hooks V) :
    ∀ (t : Tree) (rel : RelPath) (kept : List Name) (c : Ctr), Blocks (walkSubs o cfg hk rel kept t c).evs := by
  intro t
  induction t with
  | nil => intro rel kept c; exact Blocks.nil
  | cons n k sub rest ihs ihr =>
    intro rel kept c
    rw [walkSubs_cons]
    have hD := blocks_walkDir_of_subs o cfg hk sub ihs (rel ++ [n]) c
    split
    · split
      · exact hD
      · exact hD.append (ihr _ _ _)
    · exact ihr _ _ _

/-- for EVERY oracle: between two consecutive polls of a run all hook invocations are about one path -/
theorem paced_run (o : Oracle) (cfg : Cfg) (hk : Hooks V) (t : Tree) : paced none (run o cfg hk t) = true := by
  unfold run
  have h := blocks_walkDir_of_subs o cfg hk t (blocks_walkSubs o cfg hk t) [] (advance {} [(Ev.reset : Ev V)]) []
  rw [List.append_nil] at h
  show paced none (walkDir o cfg hk [] t (advance {} [(Ev.reset : Ev V)])).evs = true
  rw [h]
  rfl

/-! ### without SYMLINKS the walk never looks behind a directory link -/

/-- forget what is behind every link to a directory -/
def eraseLinks : Tree → Tree
  | .nil => .nil
  | .cons n k sub rest =>
    .cons n k (match k with | .linkDir => .nil | _ => eraseLinks sub) (eraseLinks rest)

theorem dirNames_eraseLinks : ∀ t : Tree, dirNames (eraseLinks t) = dirNames t := by
  intro t
  induction t with
  | nil => rfl
  | cons n k sub rest _ ihr => simp only [eraseLinks, dirNames, ihr]

theorem fileNames_eraseLinks : ∀ t : Tree, fileNames (eraseLinks t) = fileNames t := by
  intro t
  induction t with
  | nil => rfl
  | cons n k sub rest _ ihr => simp only [eraseLinks, fileNames, ihr]

theorem walkDir_congr (o : Oracle) (cfg : Cfg) (hk : Hooks V) (t t' : Tree)
    (hd : dirNames t' = dirNames t) (hf : fileNames t' = fileNames t)
    (hs : ∀ rel kept c, walkSubs o cfg hk rel kept t' c = walkSubs o cfg hk rel kept t c) :
    ∀ rel c, walkDir o cfg hk rel t' c = walkDir o cfg hk rel t c := by
  intro rel c
  unfold walkDir dirBody
  simp only [hd, hf, hs]

/-- Termination without SYMLINKS is structural on the real tree: the walk does not depend on what a
    directory link points to (in particular a link to an ancestor — a cycle — is harmless). -/
theorem walkSubs_eraseLinks (o : Oracle) {cfg : Cfg} (hk : Hooks V) (hsl : cfg.symlinks = false) :
    ∀ (t : Tree) (rel : RelPath) (kept : List Name) (c : Ctr),
      walkSubs o cfg hk rel kept (eraseLinks t) c = walkSubs o cfg hk rel kept t c := by
  intro t
  induction t with
  | nil => intro rel kept c; rfl
  | cons n k sub rest ihs ihr =>
    intro rel kept c
    simp only [eraseLinks]
    rw [walkSubs_cons, walkSubs_cons]
    cases k with
    | dir =>
      simp only
      rw [walkDir_congr o cfg hk sub (eraseLinks sub) (dirNames_eraseLinks sub) (fileNames_eraseLinks sub) ihs]
      simp only [ihr]
    | linkDir => simp [enters, Kind.walkable, hsl, ihr]
    | file => simp [enters, Kind.walkable, ihr]
    | linkFile => simp [enters, Kind.walkable, ihr]
    | dangling => simp [enters, Kind.walkable, ihr]

theorem run_eraseLinks (o : Oracle) {cfg : Cfg} (hk : Hooks V) (hsl : cfg.symlinks = false) (t : Tree) :
    run o cfg hk (eraseLinks t) = run o cfg hk t := by
  unfold run
  rw [walkDir_congr o cfg hk t (eraseLinks t) (dirNames_eraseLinks t) (fileNames_eraseLinks t)
    (walkSubs_eraseLinks o hk hsl t)]

/-! ### `on_reset` is called once per run; the counter counts the skip events -/

def isReset : Ev V → Bool
  | .reset => true
  | _ => false

def noReset (l : List (Ev V)) : Bool := l.all (fun e => !isReset e)

theorem noReset_append (a b : List (Ev V)) : noReset (a ++ b) = (noReset a && noReset b) := by
  simp [noReset, List.all_append]

theorem noReset_dirStep (cfg : Cfg) (hk : Hooks V) (rel : RelPath) (n : Name) :
    noReset (dirStep cfg hk rel n).1 = true := by
  have hsh := validFolder_shape cfg hk rel n
  unfold dirStep
  generalize validFolder cfg hk rel n = r at hsh
  obtain ⟨e, res⟩ := r
  simp only at hsh
  cases res <;> rcases hsh with rfl | rfl <;>
    cases h : hk.onError (rel ++ [n]) <;> simp [noReset, isReset, yieldOpt]

theorem noReset_fileStep (cfg : Cfg) (hk : Hooks V) (rel : RelPath) (n : Name) :
    noReset (fileStep cfg hk rel n) = true := by
  have hsh := validFile_shape cfg hk rel n
  unfold fileStep
  generalize validFile cfg hk rel n = r at hsh
  obtain ⟨e, res⟩ := r
  simp only at hsh
  cases res with
  | ret b =>
    cases b <;> rcases hsh with rfl | rfl <;>
      cases h : hk.onSkip (rel ++ [n]) <;> simp [noReset, isReset, yieldOpt, h]
  | raise =>
    rcases hsh with rfl | rfl <;>
      cases h : hk.onSkip (rel ++ [n]) <;> cases h' : hk.onError (rel ++ [n]) <;>
        simp [noReset, isReset, yieldOpt, h, h']

theorem noReset_dirLoop (o : Oracle) (cfg : Cfg) (hk : Hooks V) (rel : RelPath) :
    ∀ (ns : List Name) (c : Ctr), noReset (dirLoop o cfg hk rel ns c).1 = true := by
  intro ns
  induction ns with
  | nil => intro c; rfl
  | cons n ns ih =>
    intro c
    simp only [dirLoop]
    split
    · rw [noReset_append, noReset_dirStep]; rfl
    · rw [noReset_append, noReset_dirStep]
      have := ih (Ctr.tick (advance c (dirStep cfg hk rel n).1) (Ev.poll Site.folder false : Ev V))
      simpa [noReset, isReset] using this

theorem noReset_fileLoop (o : Oracle) (cfg : Cfg) (hk : Hooks V) (rel : RelPath) :
    ∀ (ns : List Name) (c : Ctr), noReset (fileLoop o cfg hk rel ns c) = true := by
  intro ns
  induction ns with
  | nil => intro c; rfl
  | cons n ns ih =>
    intro c
    simp only [fileLoop]
    split
    · rw [noReset_append, noReset_fileStep]; rfl
    · rw [noReset_append, noReset_fileStep]
      have := ih (Ctr.tick (advance c (fileStep cfg hk rel n)) (Ev.poll Site.file false : Ev V))
      simpa [noReset, isReset] using this

theorem noReset_walkDir_of_subs (o : Oracle) (cfg : Cfg) (hk : Hooks V) (t : Tree)
    (hsub : ∀ rel kept c, noReset (walkSubs o cfg hk rel kept t c).evs = true) :
    ∀ rel c, noReset (walkDir o cfg hk rel t c).evs = true := by
  intro rel c
  unfold walkDir dirBody
  split
  · rfl
  · have h1 := noReset_dirLoop o cfg hk rel (dirNames t) (c.tick (Ev.poll Site.top false : Ev V))
    have hcons : ∀ (s : Site) (b : Bool) (l : List (Ev V)), noReset (Ev.poll s b :: l) = noReset l :=
      fun _ _ _ => rfl
    dsimp only
    split
    · show noReset (Ev.poll Site.top false :: (_ ++ [Ev.poll Site.mid true])) = true
      rw [hcons, noReset_append, h1]
      rfl
    · show noReset (Ev.poll Site.top false :: (_ ++ Ev.poll Site.mid false :: (_ ++ _))) = true
      rw [hcons, noReset_append, hcons, noReset_append, h1, noReset_fileLoop, hsub]
      rfl

theorem noReset_walkSubs (o : Oracle) (cfg : Cfg) (hk : Hooks V) :
    ∀ (t : Tree) (rel : RelPath) (kept : List Name) (c : Ctr), noReset (walkSubs o cfg hk rel kept t c).evs = true := by
  intro t
  induction t with
  | nil => intro rel kept c; rfl
  | cons n k sub rest ihs ihr =>
    intro rel kept c
    rw [walkSubs_cons]
    have hD := noReset_walkDir_of_subs o cfg hk sub ihs (rel ++ [n]) c
    split
    · split
      · exact hD
      · simp only []
        rw [noReset_append, hD, ihr]; rfl
    · exact ihr _ _ _

/-- `on_reset` is invoked exactly once per run, before everything else -/
theorem run_reset_once (o : Oracle) (cfg : Cfg) (hk : Hooks V) (t : Tree) :
    ∃ tl, run o cfg hk t = .reset :: tl ∧ noReset tl = true :=
  ⟨_, rfl, noReset_walkDir_of_subs o cfg hk t (noReset_walkSubs o cfg hk t) [] _⟩

/-- `get_skipped()` = number of visited files that went to `on_skip` -/
theorem advance_skipped : ∀ (evs : List (Ev V)) (c : Ctr),
    (advance c evs).skipped = c.skipped + ((fileVisits evs).filter (fun x => !x.2)).length := by
  intro evs
  induction evs with
  | nil => intro c; rfl
  | cons e evs ih =>
    intro c
    rw [advance_cons, ih]
    cases e <;> simp [Ctr.tick, fileVisits, List.filterMap_cons, Nat.add_assoc, Nat.add_comm]

theorem skippedOf_eq (evs : List (Ev V)) :
    skippedOf evs = ((fileVisits evs).filter (fun x => !x.2)).length := by
  unfold skippedOf
  rw [advance_skipped]
  simp

/-- with the base-class hooks the yielded values are the paths that went to `on_match` -/
theorem results_default_eq (evs : List (Ev RelPath)) (h : Routed Hooks.default evs) :
    results evs = ((fileVisits evs).filter (fun x => x.2)).map (·.1) := by
  rw [h]
  clear h
  induction evs with
  | nil => rfl
  | cons e evs ih =>
    cases e <;> simp [List.filterMap_cons, fileVisits, Hooks.default] at ih ⊢ <;> exact ih

theorem length_filter_not {α : Type} (p : α → Bool) : ∀ l : List α,
    (l.filter p).length + (l.filter (fun x => !p x)).length = l.length := by
  intro l
  induction l with
  | nil => rfl
  | cons a l ih =>
    cases h : p a <;> simp [h] <;> omega

end WcModel.WcWalk

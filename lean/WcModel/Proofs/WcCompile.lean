import WcModel.Model.WcCompile
import WcModel.Proofs.GlobFlags
import WcModel.Proofs.WcWalk
/-
  Lemmas about `Model/WcCompile.lean` (WcMatch's pattern compilation): the flag word of
  `_parse_flags` / `_compile_wildcard` bit by bit, `WcRegexp.match` for a non-REALPATH object, the shape of
  the configuration `Cfg.ofPatterns` builds, and a Prop-level reading of `reachable` (which directories
  the filtered walk enters) that only depends on the `enterable` decision.
-/
namespace WcModel.WcCompile
open WcModel.Compile (Pat Ext BraceOut Out matchPN)
open WcModel.WcWalk

/-! ### the flag word, bit by bit -/

theorem wcFlags_testBit (flags i : Nat) :
    (wcFlags flags).testBit i =
      (((flags.testBit i && Gen.wcmatchFlagMask.testBit i) || Gen.wcmForcedFlags.testBit i ||
        (hostIsWindows && Gen.FFORCEWIN.testBit i)) && Gen.wcmFinalParseMask.testBit i) := by
  unfold wcFlags
  cases hostIsWindows <;> simp [Nat.testBit_and, Nat.testBit_or]

theorem wcMatchbase_eq (flags : Nat) : wcMatchbase flags = flags.testBit 13 := by
  unfold wcMatchbase
  rw [show Gen.wcmMATCHBASE = 2 ^ 13 from by decide, hasBit_pow, Nat.testBit_and]
  simp +decide

theorem wcFilePathname_eq (flags : Nat) : wcFilePathname flags = flags.testBit 25 := by
  unfold wcFilePathname
  rw [show Gen.wcmFILEPATHNAME = 2 ^ 25 from by decide, hasBit_pow, Nat.testBit_and]
  simp +decide

theorem wcDirPathname_eq (flags : Nat) : wcDirPathname flags = flags.testBit 24 := by
  unfold wcDirPathname
  rw [show Gen.wcmDIRPATHNAME = 2 ^ 24 from by decide, hasBit_pow, Nat.testBit_and]
  simp +decide

/-- one bit of the word `_compile_wildcard` hands to `_wcparse.compile`, from: the user's bit `b`, the
    user's MATCHBASE bit `mb`, the path mode `pn` -/
def bitOf (b mb pn : Bool) (i : Nat) : Bool :=
  (((b && Gen.wcmatchFlagMask.testBit i) || Gen.wcmForcedFlags.testBit i ||
      (hostIsWindows && Gen.FFORCEWIN.testBit i)) && Gen.wcmFinalParseMask.testBit i) ||
    (pn && (Gen.wcmPathnameFlags.testBit i || (mb && Gen.FMATCHBASE.testBit i)))

theorem wildcardWord_testBit (flags : Nat) (pn : Bool) (i : Nat) :
    (wildcardWord flags pn).testBit i = bitOf (flags.testBit i) (flags.testBit 13) pn i := by
  unfold wildcardWord bitOf
  rw [wcMatchbase_eq]
  cases pn <;> cases flags.testBit 13 <;> simp [Nat.testBit_or, wcFlags_testBit, Bool.or_assoc]

theorem wildcardWord_hasBit (flags : Nat) (pn : Bool) (F k : Nat) (hF : F = 2 ^ k) :
    hasBit (wildcardWord flags pn) F = bitOf (flags.testBit k) (flags.testBit 13) pn k := by
  rw [hF, hasBit_pow, wildcardWord_testBit]

/-! ### `WcRegexp.match` -/

theorem allSome_eq_some {α} : ∀ (l : List (Option α)) (l' : List α), allSome l = some l' → l = l'.map some
  | [], l', h => by simp [allSome] at h; subst h; rfl
  | none :: _, _, h => by simp [allSome] at h
  | some a :: r, l', h => by
    simp only [allSome, Option.map_eq_some_iff] at h
    obtain ⟨t, ht, rfl⟩ := h
    rw [allSome_eq_some r t ht]; rfl

theorem any_map_some (l : List Re) (s : List Char) :
    (l.map some).any (fun r => mtRe r s) = l.any (fun r => r.fullmatch s) := by
  induction l with
  | nil => rfl
  | cons a l ih =>
    rw [List.map_cons, List.any_cons, List.any_cons, ih]
    rfl

theorem matchPN_map_some (pos neg : List Re) (s : List Char) :
    matchPN mtRe (pos.map some) (neg.map some) s = matchPN (fun (r : Re) (s : List Char) => r.fullmatch s) pos neg s := by
  unfold matchPN
  rw [any_map_some, any_map_some]

/-- the model's `wcRegexpMatch` IS `Model/Match.lean`'s `matchReal` (`WcRegexp.match` → `_Match.match`) for an
    object compiled without REALPATH — whatever the file system -/
theorem wcRegexpMatch_eq_matchReal (fs : FS) (o : MatchObj) (h : o.real = false) (s : List Char) :
    matchReal fs o s = wcRegexpMatch o s := by
  unfold matchReal wcRegexpMatch matchPN
  simp [h]

/-! ### the configuration -/

theorem ret_beq_true (b : Bool) : ((Res.ret b : Res Bool) == Res.ret true) = b := by cases b <;> rfl

theorem ofPatterns_ok {w : World} {flags : Nat} {L : Int} {fp xp : Pat} {cfg : WcWalk.Cfg}
    (h : Cfg.ofPatterns w flags L fp xp = .ok cfg) :
    ∃ fchk xchk, compileFile w flags L fp = .ok fchk ∧ compileExclude w flags L xp = .ok xchk ∧
      cfg = cfgOfChecks flags fchk xchk := by
  unfold Cfg.ofPatterns at h
  cases hf : compileFile w flags L fp with
  | error e => simp [hf] at h
  | ok fchk =>
    cases hx : compileExclude w flags L xp with
    | error e => simp [hf, hx] at h
    | ok xchk =>
      simp only [hf, hx, Except.ok.injEq] at h
      exact ⟨fchk, xchk, rfl, rfl, h.symm⟩

theorem fileDecOf_ne_raise (chk : Option MatchObj) (p : RelPath) : fileDecOf chk p ≠ .raise := by
  cases chk <;> simp [fileDecOf]

theorem dirExclOf_ne_raise (b : Bool) (chk : Option MatchObj) (p : RelPath) : dirExclOf b chk p ≠ .raise := by
  cases chk <;> simp [dirExclOf]

/-- the library's own matchers never raise -/
theorem cfgOfChecks_noRaise (flags : Nat) (fchk xchk : Option MatchObj) : (cfgOfChecks flags fchk xchk).NoRaise := by
  constructor
  · intro p
    show (if fchk.isNone then fun _ => Res.ret true else fileDecOf fchk) p ≠ .raise
    split
    · simp
    · exact fileDecOf_ne_raise _ _
  · intro p
    show (if (!exclTruthy xchk) then fun _ => Res.ret false else dirExclOf (wcDirPathname flags) xchk) p ≠ .raise
    split
    · simp
    · exact dirExclOf_ne_raise _ _ _

theorem cfgOfChecks_flags (flags : Nat) (fchk xchk : Option MatchObj) :
    (cfgOfChecks flags fchk xchk).filePathname = wcFilePathname flags ∧
    (cfgOfChecks flags fchk xchk).dirPathname = wcDirPathname flags ∧
    (cfgOfChecks flags fchk xchk).recursive = wcRecursive flags ∧
    (cfgOfChecks flags fchk xchk).hidden = wcHidden flags ∧
    (cfgOfChecks flags fchk xchk).symlinks = wcSymlinks flags :=
  ⟨rfl, rfl, rfl, rfl, rfl⟩

/-- the file decision of the configuration, as a Boolean -/
theorem cfgOfChecks_fileDec (flags : Nat) (fchk xchk : Option MatchObj) (p : RelPath) :
    (cfgOfChecks flags fchk xchk).fileDec p =
      .ret (match fchk with | none => true | some o => wcRegexpMatch o (fileArg p)) := by
  show (if fchk.isNone then fun _ => Res.ret true else fileDecOf fchk) p = _
  cases fchk <;> simp [fileDecOf]

/-- "the exclude check is truthy and accepts the directory", as a Boolean (an object without any compiled
    piece is falsy and accepts nothing: the two tests agree) -/
theorem cfgOfChecks_excl (flags : Nat) (fchk xchk : Option MatchObj) (p : RelPath) :
    ((cfgOfChecks flags fchk xchk).hasExclude && ((cfgOfChecks flags fchk xchk).dirExcl p == .ret true)) =
      (match xchk with | none => false | some o => wcRegexpMatch o (dirArg (wcDirPathname flags) p)) := by
  show ((!(!exclTruthy xchk)) &&
    ((if (!exclTruthy xchk) then fun _ => Res.ret false else dirExclOf (wcDirPathname flags) xchk) p == .ret true)) = _
  cases xchk with
  | none => simp [exclTruthy]
  | some o =>
    cases ht : exclTruthy (some o) with
    | true => simp [dirExclOf, ret_beq_true]
    | false =>
      simp only [exclTruthy, wcRegexpTruthy, Bool.not_eq_eq_eq_not, Bool.not_false, Bool.and_eq_true,
        List.isEmpty_iff] at ht
      simp [wcRegexpMatch, matchPN, ht.1]

/-! ### which directories the filtered walk reaches, as a relation -/

/-- `x = (directory, file name)` is a file of a directory below `rel` that is reached through entered
    sub-directories only (`ent rel n k`: the walk enters the entry `n` of kind `k` of directory `rel`) -/
def InSubs (ent : RelPath → Name → Kind → Prop) : RelPath → Tree → RelPath × Name → Prop
  | _, .nil, _ => False
  | rel, .cons n k sub rest, x =>
    (ent rel n k ∧ ((x.1 = rel ++ [n] ∧ x.2 ∈ fileNames sub) ∨ InSubs ent (rel ++ [n]) sub x)) ∨ InSubs ent rel rest x

/-- the files the filtered walk visits: the root's own files and those of every entered directory -/
def Reached (ent : RelPath → Name → Kind → Prop) (t : Tree) (x : RelPath × Name) : Prop :=
  (x.1 = [] ∧ x.2 ∈ fileNames t) ∨ InSubs ent [] t x

theorem InSubs_congr {e1 e2 : RelPath → Name → Kind → Prop} (h : ∀ r n k, e1 r n k ↔ e2 r n k) :
    ∀ (t : Tree) (rel : RelPath) (x : RelPath × Name), InSubs e1 rel t x ↔ InSubs e2 rel t x := by
  intro t
  induction t with
  | nil => intro rel x; exact Iff.rfl
  | cons n k sub rest ihs ihr =>
    intro rel x
    simp only [InSubs]
    rw [h rel n k, ihs (rel ++ [n]) x, ihr rel x]

theorem mem_reachSubs (cfg : WcWalk.Cfg) : ∀ (t : Tree) (rel : RelPath) (x : RelPath × Name),
    x ∈ reachSubs cfg rel t ↔ InSubs (fun r n k => enterable cfg r n k = true) rel t x := by
  intro t
  induction t with
  | nil => intro rel x; simp [reachSubs, InSubs]
  | cons n k sub rest ihs ihr =>
    intro rel x
    simp only [reachSubs, InSubs, List.mem_append]
    rw [← ihs (rel ++ [n]) x, ← ihr rel x]
    cases he : enterable cfg rel n k with
    | false => simp
    | true =>
      simp only [if_true, List.mem_append, List.mem_map, true_and]
      constructor
      · rintro ((⟨f, hf, rfl⟩ | h) | h)
        · exact Or.inl (Or.inl ⟨rfl, hf⟩)
        · exact Or.inl (Or.inr h)
        · exact Or.inr h
      · rintro ((⟨h1, h2⟩ | h) | h)
        · exact Or.inl (Or.inl ⟨x.2, h2, by rw [← h1]⟩)
        · exact Or.inl (Or.inr h)
        · exact Or.inr h

theorem mem_reachable (cfg : WcWalk.Cfg) (t : Tree) (x : RelPath × Name) :
    x ∈ reachable cfg t ↔ Reached (fun r n k => enterable cfg r n k = true) t x := by
  unfold reachable Reached
  rw [List.mem_append, mem_reachSubs]
  simp only [List.mem_map]
  constructor
  · rintro (⟨f, hf, rfl⟩ | h)
    · exact Or.inl ⟨rfl, hf⟩
    · exact Or.inr h
  · rintro (⟨h1, h2⟩ | h)
    · exact Or.inl ⟨x.2, h2, by rw [← h1]⟩
    · exact Or.inr h

end WcModel.WcCompile

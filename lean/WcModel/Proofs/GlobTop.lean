import WcModel.Proofs.GlobParts
/-
  C05_partial, whole pattern: `globPattern` (the body of `Glob.glob()` for one pattern, before
  exclusion / formatting / the seen set) returns exactly what `DenotesTop` says, under the
  hypotheses of `globParts_iff_denotes` plus the ones about the first part (`TopOK`).
-/
namespace WcModel

theorem locIsDir_top {fs : FS} : ∀ (rp : RPath), fs.locIsDir (some rp) = true → fs.locIsDir (some []) = true := by
  intro rp
  induction h : rp.length generalizing rp with
  | zero => intro hd; have : rp = [] := List.length_eq_zero_iff.1 h; subst this; exact hd
  | succ n ih =>
    intro hd
    have := dropLast_isDir hd
    exact ih rp.dropLast (by simp [List.length_dropLast, h]) this

theorem splitSlash_noslash : ∀ (n : List Char), (∀ c ∈ n, c ≠ '/') → splitSlash n = [n] := by
  intro n
  induction n with
  | nil => intro _; rfl
  | cons c r ih =>
    intro h
    have hc : c ≠ '/' := h c List.mem_cons_self
    have hr := ih (fun d hd => h d (List.mem_cons_of_mem _ hd))
    simp [splitSlash, hc, hr]

theorem base_rel {fs : FS} {n : List Char} (h : n.head? ≠ some '/') : fs.base n = some fs.cwd := by
  unfold FS.base
  cases n with
  | nil => rfl
  | cons c r =>
    have : c ≠ '/' := by simpa using h
    split
    · rename_i heq; cases heq; exact absurd rfl this
    · rfl

theorem lexists_name {fs : FS} {n : Name} (hs : ∀ c ∈ n, c ≠ '/') : fs.lexists n = fs.lstep (some fs.cwd) n := by
  unfold FS.lexists
  have hb : fs.base n = some fs.cwd := base_rel (by
    cases n with
    | nil => simp
    | cons c r => simpa using hs c List.mem_cons_self)
  simp [splitSlash_noslash n hs, hb, FS.steps]

theorem resolve_name {fs : FS} {n : Name} (hs : ∀ c ∈ n, c ≠ '/') : fs.resolve n = fs.step (some fs.cwd) n := by
  unfold FS.resolve
  have hb : fs.base n = some fs.cwd := base_rel (by
    cases n with
    | nil => simp
    | cons c r => simpa using hs c List.mem_cons_self)
  simp [splitSlash_noslash n hs, hb, FS.steps]

theorem step_dot {fs : FS} {rp : RPath} (h : fs.locIsDir (some rp) = true) : fs.step (some rp) dot = some rp := by
  unfold FS.step
  unfold FS.locIsDir at h
  cases he : fs.entries (some rp) with
  | none => simp [he] at h
  | some es => simp [dot, he]

theorem step_dotdot {fs : FS} {rp : RPath} (h : fs.locIsDir (some rp) = true) :
    fs.step (some rp) dotdot = some rp.dropLast := by
  unfold FS.step
  unfold FS.locIsDir at h
  cases he : fs.entries (some rp) with
  | none => simp [he] at h
  | some es => simp [dot, dotdot, he]

/-- hypotheses about the first part (all true of `_GlobSplit` output on a well-formed tree,
    except `firstDir`, which excludes D17) -/
structure TopOK (fs : FS) (w : WalkCfg) (parts : List GPart) : Prop where
  /-- the root is a directory -/
  rootDir : fs.locIsDir (some fs.cwd) = true
  /-- entry names of the root contain no separator -/
  rootNames : ∀ o ∈ entriesOf fs fs.rootDir, ∀ c ∈ o.name, c ≠ '/'
  /-- the drive part is exactly a written `/` and is a directory part -/
  drive : ∀ p rest, parts = p :: rest → (p.isDrive = (p.pat.text == ['/'])) ∧ (p.isDrive = true → p.dirOnly = true)
  /-- D17 excluded: a literal first name followed by further parts names directories only -/
  firstDir : ∀ p q rest, parts = p :: q :: rest → p.isMagic = false → asWritten p.pat.text = false →
    ∀ o ∈ entriesOf fs fs.rootDir, segOK w.caseSensitive p.pat o.name = true → o.isDir = true
  /-- a non-magic part is a literal string -/
  litText : ∀ p rest, parts = p :: rest → p.isMagic = false → p.pat = .lit p.pat.text

theorem getMatcher_lit (cs : Bool) (s : List Char) (n : Name) :
    (getMatcher cs (some (.lit s))).test n = segOK cs (.lit s) n := rfl

/-- what `_get_starting_paths` returns when it scans the root for a literal name -/
theorem results_startingPaths_scan (w : WalkCfg) (fs : FS) (curdir : List Char) (dirOnly : Bool)
    (h1 : curdir ≠ dotdot) (h2 : curdir ≠ dot) (h3 : curdir ≠ ['/']) (v : Y) :
    v ∈ results (startingPaths w fs false curdir dirOnly) ↔
      ∃ o ∈ entriesOf fs fs.rootDir, segOK w.caseSensitive (.lit curdir) o.name = true ∧
        (dirOnly = true → o.isDir = true) ∧ v = ⟨o.name, o.isDir, o.loc⟩ := by
  have hc : (!false && curdir != dotdot && curdir != dot && curdir != ['/']) = true := by simp [h1, h2, h3]
  unfold startingPaths
  simp only [hc, if_true, results_cons_scan]
  rw [mem_results]
  simp only [List.mem_map, List.mem_filter]
  constructor
  · rintro ⟨e, ⟨he, hf⟩, hv⟩
    cases hv
    simp only [Bool.and_eq_true, Bool.not_eq_true'] at hf
    obtain ⟨hs, hm⟩ := hf
    obtain ⟨ds, x, hsc, hx, hn, hdir, hlnk, hloc, _⟩ := iterDir_real he hs
    refine ⟨⟨x.name, x.isDir, x.loc, x.isLink⟩, ?_, ?_, ?_, ?_⟩
    · simp only [entriesOf, FS.rootDir, hsc, List.mem_map]; exact ⟨x, hx, rfl⟩
    · rw [← getMatcher_lit, ← hn]; exact hm
    · intro hdo
      unfold iterDir at he
      simp only [hsc, List.mem_append, List.mem_map, List.mem_filter] at he
      rcases he with he | ⟨y, ⟨_, hf⟩, hy⟩
      · simp at he; rcases he with rfl | rfl <;> simp at hs
      · subst hy; simp [hdo] at hf; simpa using hdir ▸ hf
    · simp [hn, hdir, hloc]
  · rintro ⟨o, ho, hseg, hdo, rfl⟩
    unfold entriesOf at ho
    cases hsc : fs.scandir fs.rootDir.loc with
    | none => simp [hsc] at ho
    | some ds =>
      simp only [hsc, List.mem_map] at ho
      obtain ⟨x, hx, rfl⟩ := ho
      refine ⟨⟨x.name, x.isDir, isHidden w.dot x.name, x.isLink, false, x.loc⟩, ⟨?_, ?_⟩, rfl⟩
      · unfold iterDir
        simp only [FS.rootDir] at hsc
        simp only [hsc, List.mem_append, List.mem_map, List.mem_filter]
        refine Or.inr ⟨x, ⟨hx, ?_⟩, rfl⟩
        cases hd : dirOnly with
        | false => simp
        | true => have := hdo hd; simp only at this; simp [this]
      · simp only [Bool.not_false, Bool.true_and]
        rw [getMatcher_lit]; exact hseg

theorem findEntry_isSome_of_mem {n : Name} {nd : Node} {es : List (Name × Node)} (h : (n, nd) ∈ es) :
    (findEntry n es).isSome = true := by
  induction es with
  | nil => cases h
  | cons e r ih =>
    obtain ⟨m, c⟩ := e
    unfold findEntry
    by_cases hm : m = n
    · simp [hm]
    · simp only [hm, if_false]
      rcases List.mem_cons.1 h with heq | h'
      · cases heq; exact absurd rfl hm
      · exact ih h'

/-- an entry of the root exists (`lexists`) under its own name -/
theorem lexists_root_entry {fs : FS} {o : Offer} (ho : o ∈ entriesOf fs fs.rootDir) (hs : ∀ c ∈ o.name, c ≠ '/') :
    fs.lexists o.name = true := by
  rw [lexists_name hs]
  unfold entriesOf FS.rootDir at ho
  cases hsc : fs.scandir (some fs.cwd) with
  | none => simp [hsc] at ho
  | some ds =>
    simp only [hsc, List.mem_map] at ho
    obtain ⟨x, hx, rfl⟩ := ho
    obtain ⟨rp, es, hrp, hg, hds⟩ := FS.scandir_some hsc
    cases hrp
    subst hds
    obtain ⟨⟨n, nd⟩, hmem, rfl⟩ := List.mem_map.1 hx
    simp only [FS.lstep, FS.entries, hg]
    split
    · rfl
    · exact findEntry_isSome_of_mem hmem

theorem resolve_slash {fs : FS} (h : fs.locIsDir (some []) = true) : fs.resolve ['/'] = some [] := by
  unfold FS.resolve FS.base
  have hs : splitSlash ['/'] = [[], []] := by decide
  rw [hs]
  unfold FS.locIsDir at h
  cases he : fs.entries (some []) with
  | none => simp [he] at h
  | some es => simp [FS.steps, FS.step, he]

theorem lexists_slash {fs : FS} (h : fs.locIsDir (some []) = true) : fs.lexists ['/'] = true := by
  unfold FS.lexists FS.base
  have hs : splitSlash ['/'] = [[], []] := by decide
  rw [hs]
  unfold FS.locIsDir at h
  cases he : fs.entries (some []) with
  | none => simp [he] at h
  | some es => simp [FS.steps, FS.step, FS.lstep, he]

theorem noslash_dot : ∀ c ∈ dot, c ≠ '/' := by decide
theorem noslash_dotdot : ∀ c ∈ dotdot, c ≠ '/' := by decide

theorem lexists_dot {fs : FS} (h : fs.locIsDir (some fs.cwd) = true) : fs.lexists dot = true := by
  rw [lexists_name noslash_dot]
  unfold FS.locIsDir at h
  cases he : fs.entries (some fs.cwd) with
  | none => simp [he] at h
  | some es => simp [FS.lstep, he]

theorem lexists_dotdot {fs : FS} (h : fs.locIsDir (some fs.cwd) = true) : fs.lexists dotdot = true := by
  rw [lexists_name noslash_dotdot]
  unfold FS.locIsDir at h
  cases he : fs.entries (some fs.cwd) with
  | none => simp [he] at h
  | some es => simp [FS.lstep, he]

/-- the directory a written first part (`.`, `..`, `/`) stands for is a directory -/
theorem written_isDir {fs : FS} {s : List Char} (h : fs.locIsDir (some fs.cwd) = true) (hs : asWritten s = true) :
    fs.locIsDir (fs.resolve s) = true ∧ fs.lexists s = true := by
  simp only [asWritten, Bool.or_eq_true, beq_iff_eq] at hs
  rcases hs with (rfl | rfl) | rfl
  · rw [resolve_name noslash_dot, step_dot h]; exact ⟨h, lexists_dot h⟩
  · rw [resolve_name noslash_dotdot, step_dotdot h]; exact ⟨dropLast_isDir h, lexists_dotdot h⟩
  · have ht := locIsDir_top _ h
    rw [resolve_slash ht]; exact ⟨ht, lexists_slash ht⟩

/-- what `_get_starting_paths` returns for a first part taken as written -/
theorem startingPaths_written (w : WalkCfg) (fs : FS) (absPat : Bool) (s : List Char) (dirOnly : Bool)
    (hs : asWritten s = true) : startingPaths w fs absPat s dirOnly = [.y ⟨s, true, fs.resolve s⟩] := by
  unfold startingPaths
  have : (!absPat && s != dotdot && s != dot && s != ['/']) = false := by
    simp only [asWritten, Bool.or_eq_true, beq_iff_eq] at hs
    rcases hs with (rfl | rfl) | rfl <;> simp
  simp [this]

/-- `glob()`'s loop body for a pattern whose first part is a non-empty literal that exists if
    it is a drive -/
theorem globPattern_lit (w : WalkCfg) (fs : FS) (F : Nat) (p0 : GPart) (rest0 : List GPart)
    (hm : p0.isMagic = false) (hne : p0.pat.text.isEmpty = false)
    (hle : p0.isDrive = true → fs.lexists p0.pat.text = true) :
    globPattern w fs F (p0 :: rest0) =
      if p0.dirOnly then
        bindEv (startingPaths w fs p0.isDrive p0.pat.text (dirOnlyOf (p0 :: rest0))) (fun s =>
          match rest0 with
          | this :: rest => globParts w fs p0.isDrive F (this :: rest) s.path s.loc
          | [] => [.y s])
      else
        bindEv (startingPaths w fs p0.isDrive p0.pat.text (dirOnlyOf (p0 :: rest0)))
          (fun s => if fs.lexists s.path then [.y s] else []) := by
  have hg : (p0.pat.text.isEmpty || (p0.isDrive && !fs.lexists p0.pat.text)) = false := by
    rw [hne]
    cases hd : p0.isDrive with
    | false => rfl
    | true => rw [hle hd]; rfl
  unfold globPattern
  simp only [hm, Bool.not_false, if_true, hg, Bool.false_eq_true, if_false]
  rfl

/-- **C05_partial (whole pattern)**: without FOLLOW / `***`, for any fuel above the tree height,
    the candidates the walker finds for one pattern are exactly the paths the pattern denotes. -/
theorem globPattern_iff_denotesTop (w : WalkCfg) (fs : FS) (hw : w.followLinks = false)
    (F : Nat) (hF : fs.top.height < F) (parts : List GPart) (hl : NoLong parts) (hwf : WFParts parts)
    (hag : SegAgree fs w parts) (ht : TopOK fs w parts) (v : Y) :
    v ∈ results (globPattern w fs F parts) ↔ DenotesTop fs w parts v := by
  cases parts with
  | nil =>
    constructor
    · intro h; simp [globPattern] at h
    · intro h; cases h
  | cons p0 rest0 =>
    have hroot := ht.rootDir
    obtain ⟨hdrv, _⟩ := ht.drive p0 rest0 rfl
    by_cases hm : p0.isMagic = true
    · -- magic first part: the walk starts in the root
      have : globPattern w fs F (p0 :: rest0) = globParts w fs p0.isDrive F (p0 :: rest0) [] (some fs.cwd) := by
        simp [globPattern, hm]
      rw [this, globParts_iff_denotes w fs p0.isDrive hw F hF (p0 :: rest0) [] (some fs.cwd) hl hwf hag hroot v]
      constructor
      · intro h; exact DenotesTop.magic hm h
      · intro h
        cases h with
        | magic _ h => exact h
        | writtenOnly hm' _ => rw [hm] at hm'; cases hm'
        | writtenThen hm' _ _ => rw [hm] at hm'; cases hm'
        | nameOnly hm' _ _ _ _ _ => rw [hm] at hm'; cases hm'
        | nameThen hm' _ _ _ _ _ _ => rw [hm] at hm'; cases hm'
    · have hm' : p0.isMagic = false := by simpa using hm
      have hlit := ht.litText p0 rest0 rfl hm'
      by_cases hte : p0.pat.text = []
      · -- an empty first part yields nothing and denotes nothing
        constructor
        · intro h; simp [globPattern, hm', hte] at h
        · intro h
          cases h with
          | magic hmm _ => rw [hm'] at hmm; cases hmm
          | writtenOnly _ ha => rw [hte] at ha; simp [asWritten, dot, dotdot] at ha
          | writtenThen _ ha _ => rw [hte] at ha; simp [asWritten, dot, dotdot] at ha
          | nameOnly _ _ hne _ _ _ => exact absurd hte hne
          | nameThen _ _ hne _ _ _ _ => exact absurd hte hne
      · have hte' : p0.pat.text.isEmpty = false := by
          cases h : p0.pat.text with
          | nil => exact absurd h hte
          | cons _ _ => rfl
        by_cases haw : asWritten p0.pat.text = true
        · -- `.`, `..` or `/`: taken as written
          obtain ⟨hwd, hwl⟩ := written_isDir hroot haw
          rw [globPattern_lit w fs F p0 rest0 hm' hte' (fun _ => hwl),
            startingPaths_written w fs p0.isDrive p0.pat.text _ haw]
          cases rest0 with
          | nil =>
            have hres : ∀ y, y ∈ results (if p0.dirOnly = true then
                  bindEv [Ev.y (⟨p0.pat.text, true, fs.resolve p0.pat.text⟩ : Y)] (fun s =>
                    match ([] : List GPart) with
                    | this :: rest => globParts w fs p0.isDrive F (this :: rest) s.path s.loc
                    | [] => [.y s])
                else bindEv [Ev.y (⟨p0.pat.text, true, fs.resolve p0.pat.text⟩ : Y)]
                  (fun s => if fs.lexists s.path then [.y s] else [])) ↔
                y = ⟨p0.pat.text, true, fs.resolve p0.pat.text⟩ := by
              intro y
              cases hdo : p0.dirOnly <;> simp [bindEv, hwl]
            rw [hres v]
            constructor
            · intro h; subst h; exact DenotesTop.writtenOnly hm' haw
            · intro h
              cases h with
              | magic hmm _ => rw [hm'] at hmm; cases hmm
              | writtenOnly _ _ => rfl
              | nameOnly _ ha _ _ _ _ => rw [haw] at ha; cases ha
          | cons q r =>
            have hp0d : p0.dirOnly = true := hwf.1
            simp only [hp0d, if_true, bindEv, List.flatMap_cons, List.flatMap_nil, List.append_nil]
            rw [globParts_iff_denotes w fs p0.isDrive hw F hF (q :: r) _ _ hl.tail hwf.2 hag.tail hwd v]
            constructor
            · intro h; exact DenotesTop.writtenThen hm' haw h
            · intro h
              cases h with
              | magic hmm _ => rw [hm'] at hmm; cases hmm
              | writtenThen _ _ h => exact h
              | nameThen _ ha _ _ _ _ _ => rw [haw] at ha; cases ha
        · -- a literal name: looked up by scanning the root
          have haw' : asWritten p0.pat.text = false := by simpa using haw
          have hnd : p0.pat.text ≠ dotdot ∧ p0.pat.text ≠ dot ∧ p0.pat.text ≠ ['/'] := by
            simp only [asWritten, Bool.or_eq_false_iff, beq_eq_false_iff_ne] at haw'
            exact ⟨haw'.1.2, haw'.1.1, haw'.2⟩
          have hnodrv : p0.isDrive = false := by
            rw [hdrv]; simpa using hnd.2.2
          rw [globPattern_lit w fs F p0 rest0 hm' hte' (fun h => by rw [hnodrv] at h; cases h), hnodrv]
          have hscan := results_startingPaths_scan w fs p0.pat.text (dirOnlyOf (p0 :: rest0)) hnd.1 hnd.2.1 hnd.2.2
          have hseg : ∀ n, segOK w.caseSensitive (.lit p0.pat.text) n = segOK w.caseSensitive p0.pat n := by
            intro n; rw [← hlit]
          cases rest0 with
          | nil =>
            have hdl : dirOnlyOf [p0] = p0.dirOnly := rfl
            have hres : ∀ y, y ∈ results (if p0.dirOnly = true then
                  bindEv (startingPaths w fs false p0.pat.text (dirOnlyOf [p0])) (fun s =>
                    match ([] : List GPart) with
                    | this :: rest => globParts w fs false F (this :: rest) s.path s.loc
                    | [] => [.y s])
                else bindEv (startingPaths w fs false p0.pat.text (dirOnlyOf [p0]))
                  (fun s => if fs.lexists s.path then [.y s] else [])) ↔
                y ∈ results (startingPaths w fs false p0.pat.text (dirOnlyOf [p0])) ∧
                  (p0.dirOnly = false → fs.lexists y.path = true) := by
              intro y
              cases hdo : p0.dirOnly
              · simp only [Bool.false_eq_true, if_false, results_bindEv, List.mem_flatMap]
                constructor
                · rintro ⟨s, hs, hy⟩
                  split at hy
                  · rename_i hle
                    simp at hy; subst hy; exact ⟨hs, fun _ => hle⟩
                  · cases hy
                · rintro ⟨hs, hle⟩
                  have hle' : fs.lexists y.path = true := by simpa using hle
                  exact ⟨y, hs, by simp [hle']⟩
              · simp only [if_true, results_bindEv, List.mem_flatMap]
                constructor
                · rintro ⟨s, hs, hy⟩; simp at hy; subst hy; exact ⟨hs, fun h => by cases h⟩
                · rintro ⟨hs, _⟩; exact ⟨y, hs, by simp⟩
            rw [hres v, hscan v]
            constructor
            · rintro ⟨⟨o, ho, hso, hdo, rfl⟩, _⟩
              exact DenotesTop.nameOnly hm' haw' hte ho ((hseg _) ▸ hso) (fun h => hdo (hdl ▸ h))
            · intro h
              cases h with
              | magic hmm _ => rw [hm'] at hmm; cases hmm
              | writtenOnly _ ha => rw [haw'] at ha; cases ha
              | @nameOnly _ o _ _ _ ho hso hdo =>
                refine ⟨⟨o, ho, (hseg _) ▸ hso, fun h => hdo (hdl ▸ h), rfl⟩, fun _ => ?_⟩
                exact lexists_root_entry ho (ht.rootNames o ho)
          | cons q r =>
            have hp0d : p0.dirOnly = true := hwf.1
            simp only [hp0d, if_true, results_bindEv, List.mem_flatMap]
            constructor
            · rintro ⟨s, hs, hv⟩
              obtain ⟨o, ho, hso, _, rfl⟩ := (hscan s).1 hs
              have hso' : segOK w.caseSensitive p0.pat o.name = true := (hseg _) ▸ hso
              have hod := ht.firstDir p0 q r rfl hm' haw' o ho hso'
              have := (globParts_iff_denotes w fs false hw F hF (q :: r) o.name o.loc hl.tail hwf.2 hag.tail
                (entries_dir ho hod) v).1 hv
              exact DenotesTop.nameThen hm' haw' hte ho hso' hod this
            · intro h
              cases h with
              | magic hmm _ => rw [hm'] at hmm; cases hmm
              | writtenThen _ ha _ => rw [haw'] at ha; cases ha
              | @nameThen _ _ _ o _ _ _ _ ho hso hod hrest =>
                refine ⟨⟨o.name, o.isDir, o.loc⟩, (hscan _).2 ⟨o, ho, (hseg _) ▸ hso, fun _ => hod, rfl⟩, ?_⟩
                exact (globParts_iff_denotes w fs false hw F hF (q :: r) o.name o.loc hl.tail hwf.2 hag.tail
                  (entries_dir ho hod) v).2 hrest

end WcModel

import WcModel.Proofs.GlobParts
/-
  C05_partial with FOLLOW / `***` allowed: the fuel cannot be fixed in advance (on a cyclic
  tree every fuel is exhausted somewhere), so the statement is "for some fuel".  The walker's
  results grow with the fuel (`globDir_mono`, `globParts_mono`), which lets the fuels needed by
  the nested expansions be merged.
-/
namespace WcModel

theorem globDir_mono (w : WalkCfg) (fs : FS) (absPat : Bool) (m : Matcher) (dirOnly deep gf : Bool) :
    ∀ (f f' : Nat) (curdir : List Char) (loc : Loc) (v : Y), f ≤ f' →
      v ∈ results (globDir w fs absPat m dirOnly deep gf f curdir loc) →
      v ∈ results (globDir w fs absPat m dirOnly deep gf f' curdir loc) := by
  intro f
  induction f with
  | zero => intro f' c l v _ h; simp [globDir, results, Ev.result?] at h
  | succ f ih =>
    intro f' curdir loc v hle h
    obtain ⟨g, rfl⟩ : ∃ g, f' = g + 1 := ⟨f' - 1, by omega⟩
    rw [results_globDir_succ] at h ⊢
    obtain ⟨e, he, hv⟩ := List.mem_flatMap.1 h
    refine List.mem_flatMap.2 ⟨e, he, ?_⟩
    rcases List.mem_append.1 hv with hv | hv
    · exact List.mem_append_left _ hv
    · refine List.mem_append_right _ ?_
      split at hv
      · rename_i hr
        simp only [hr, if_true]
        exact ih g _ _ v (by omega) hv
      · cases hv

theorem globParts_mono (w : WalkCfg) (fs : FS) (absPat : Bool) (f f' : Nat) (hle : f ≤ f') :
    ∀ (parts : List GPart) (curdir : List Char) (loc : Loc) (v : Y),
      v ∈ results (globParts w fs absPat f parts curdir loc) → v ∈ results (globParts w fs absPat f' parts curdir loc) := by
  intro parts curdir loc
  induction parts, curdir, loc using globParts.induct with
  | case1 => intro v h; simp [globParts] at h
  | case2 part curdir loc hgs =>
    intro v h
    simp only [globParts, hgs, if_true, results_append, List.mem_append] at h ⊢
    rcases h with h | h
    · exact Or.inl h
    · exact Or.inr (globDir_mono w fs absPat _ _ true _ f f' _ _ v hle h)
  | case3 part curdir loc hgs this =>
    intro v h
    simp only [globParts, hgs, if_true] at h ⊢
    exact globDir_mono w fs absPat _ _ true _ f f' _ _ v hle h
  | case4 part curdir loc hgs this this2 rest2 ih =>
    intro v h
    simp only [globParts, hgs, if_true, results_bindEv, List.mem_flatMap] at h ⊢
    obtain ⟨y, hy, hv⟩ := h
    exact ⟨y, globDir_mono w fs absPat _ _ true _ f f' _ _ y hle hy, ih y v hv⟩
  | case5 part rest curdir loc hgs hd =>
    intro v h
    have hgs' : (part.isMagic && part.isGlobstar) = false := by simpa using hgs
    rcases rest with _ | ⟨t, _ | ⟨t2, r⟩⟩ <;>
      simp only [globParts, hgs', hd, Bool.false_eq_true, if_false, if_true] at h ⊢ <;>
      exact globDir_mono w fs absPat _ _ false _ (f + 1) (f' + 1) _ _ v (by omega) h
  | case6 part curdir loc hgs hd =>
    intro v h
    have hgs' : (part.isMagic && part.isGlobstar) = false := by simpa using hgs
    have hd' : (!part.dirOnly) = false := by simpa using hd
    simp only [globParts, hgs', hd', Bool.false_eq_true, if_false] at h ⊢
    exact globDir_mono w fs absPat _ _ false _ (f + 1) (f' + 1) _ _ v (by omega) h
  | case7 part curdir loc hgs hd this rest1 ih =>
    intro v h
    have hgs' : (part.isMagic && part.isGlobstar) = false := by simpa using hgs
    have hd' : (!part.dirOnly) = false := by simpa using hd
    rcases rest1 with _ | ⟨t2, r⟩ <;>
    simp only [globParts, hgs', hd', Bool.false_eq_true, if_false, results_bindEv, List.mem_flatMap] at h ⊢ <;>
    (obtain ⟨y, hy, hv⟩ := h
     exact ⟨y, globDir_mono w fs absPat _ _ false _ (f + 1) (f' + 1) _ _ y (by omega) hy, ih y v hv⟩)

/-- **C05_partial, FOLLOW and `***` included** (below a directory): for some fuel -/
theorem globParts_iff_denotes_follow (w : WalkCfg) (fs : FS) (absPat : Bool) :
    ∀ (parts : List GPart) (curdir : List Char) (loc : Loc), WFParts parts → SegAgree fs w parts →
      fs.locIsDir loc = true → ∀ v,
      ((∃ fuel, v ∈ results (globParts w fs absPat fuel parts curdir loc)) ↔ Denotes fs w parts ⟨curdir, loc⟩ v) := by
  intro parts curdir loc
  induction parts, curdir, loc using globParts.induct with
  | case1 curdir loc =>
    intro _ _ _ v
    constructor
    · rintro ⟨f, h⟩; simp [globParts] at h
    · intro h; cases h
  | case2 part curdir loc hgs =>
    intro _ _ hdir v
    have hstar : part.isStar = true := hgs
    constructor
    · rintro ⟨f, h⟩
      simp only [globParts, hgs, if_true, results_append, List.mem_append] at h
      rcases h with h | h
      · split at h
        · rename_i hne
          simp at h; subst h
          exact Denotes.starSelf hstar (by simpa using hne)
        · cases h
      · obtain ⟨d', hb, hs⟩ := deep_sound w fs absPat none part.dirOnly part.isGlobstarLong f ⟨curdir, loc⟩ v h
        obtain ⟨o, ho, hh, hdo, rfl⟩ := (shallow_none_iff w fs absPat part.dirOnly _ d' v).1 hs
        exact Denotes.starAny hstar hb ho hh hdo
    · intro h
      cases h with
      | last hs _ _ _ => rw [hstar] at hs; cases hs
      | starSelf _ hne =>
        refine ⟨1, ?_⟩
        simp only [globParts, hgs, if_true, results_append, List.mem_append]
        left
        have : (!curdir.isEmpty) = true := by cases curdir <;> simp_all
        simp [this]
      | starAny _ hb ho hh hdo =>
        obtain ⟨f, hf⟩ := (deep_iff_below w fs absPat none part.dirOnly part.isGlobstarLong ⟨curdir, loc⟩ _).2
          ⟨_, hb, (shallow_none_iff w fs absPat part.dirOnly _ _ _).2 ⟨_, ho, hh, hdo, rfl⟩⟩
        refine ⟨f, ?_⟩
        simp only [globParts, hgs, if_true, results_append, List.mem_append]
        exact Or.inr hf
  | case3 part curdir loc hgs this =>
    intro _ hag hdir v
    have hstar : part.isStar = true := hgs
    have hagt := hag this (by simp)
    constructor
    · rintro ⟨f, h⟩
      simp only [globParts, hgs, if_true] at h
      obtain ⟨d', hb, hs⟩ := deep_sound w fs absPat _ this.dirOnly part.isGlobstarLong f ⟨curdir, loc⟩ v h
      have hd' := below_dir hb hdir
      obtain ⟨o, ho, hseg, hdo, rfl⟩ :=
        (shallow_seg_iff w fs absPat this.pat this.dirOnly _ d' v hd' (fun o ho => hagt d' o ho)).1 hs
      exact Denotes.starLast hstar hb ho hseg hdo
    · intro h
      cases h with
      | inner hs _ _ _ _ => rw [hstar] at hs; cases hs
      | starLast _ hb ho hseg hdo =>
        have hd' := below_dir hb hdir
        obtain ⟨f, hf⟩ := (deep_iff_below w fs absPat _ this.dirOnly part.isGlobstarLong ⟨curdir, loc⟩ _).2
          ⟨_, hb, (shallow_seg_iff w fs absPat this.pat this.dirOnly _ _ _ hd' (fun o ho => hagt _ o ho)).2
            ⟨_, ho, hseg, hdo, rfl⟩⟩
        exact ⟨f, by simpa only [globParts, hgs, if_true] using hf⟩
  | case4 part curdir loc hgs this this2 rest2 ih =>
    intro hwf hag hdir v
    have hstar : part.isStar = true := hgs
    have hagt := hag this (by simp)
    have hthis : this.dirOnly = true := hwf.2.1
    have hwf' : WFParts (this2 :: rest2) := hwf.2.2
    have hag' : SegAgree fs w (this2 :: rest2) := hag.tail.tail
    constructor
    · rintro ⟨f, h⟩
      simp only [globParts, hgs, if_true, results_bindEv, List.mem_flatMap] at h
      obtain ⟨y, hy, hv⟩ := h
      obtain ⟨d', hb, hs⟩ := deep_sound w fs absPat _ this.dirOnly part.isGlobstarLong f ⟨curdir, loc⟩ y hy
      have hd' := below_dir hb hdir
      obtain ⟨o, ho, hseg, hdo, rfl⟩ :=
        (shallow_seg_iff w fs absPat this.pat this.dirOnly _ d' y hd' (fun o ho => hagt d' o ho)).1 hs
      have hod := hdo hthis
      exact Denotes.starInner hstar hb ho hseg hod
        ((ih (o.toY d') hwf' hag' (offered_dir ho hod) v).1 ⟨f, hv⟩)
    · intro h
      cases h with
      | inner hs _ _ _ _ => rw [hstar] at hs; cases hs
      | @starInner _ _ _ _ _ d' o _ _ hb ho hseg hod hrest =>
        have hd' := below_dir hb hdir
        obtain ⟨f1, hf1⟩ := (deep_iff_below w fs absPat _ this.dirOnly part.isGlobstarLong ⟨curdir, loc⟩ (o.toY d')).2
          ⟨d', hb, (shallow_seg_iff w fs absPat this.pat this.dirOnly _ d' _ hd' (fun o ho => hagt d' o ho)).2
            ⟨o, ho, hseg, fun _ => hod, rfl⟩⟩
        obtain ⟨f2, hf2⟩ := (ih (o.toY d') hwf' hag' (offered_dir ho hod) v).2 hrest
        refine ⟨max f1 f2, ?_⟩
        simp only [globParts, hgs, if_true, results_bindEv, List.mem_flatMap]
        exact ⟨o.toY d', globDir_mono w fs absPat _ _ true _ f1 _ _ _ _ (Nat.le_max_left _ _) hf1,
          globParts_mono w fs absPat f2 _ (Nat.le_max_right _ _) _ _ _ v hf2⟩
  | case5 part rest curdir loc hgs hd =>
    intro hwf hag hdir v
    have hgs' : (part.isMagic && part.isGlobstar) = false := by simpa using hgs
    have hstar : part.isStar = false := hgs'
    have hdo : part.dirOnly = false := by simpa using hd
    have hrest : rest = [] := by
      cases rest with
      | nil => rfl
      | cons q r => have := hwf.1; rw [hdo] at this; cases this
    subst hrest
    have hagp := hag part (by simp)
    have key : ∀ f, v ∈ results (globParts w fs absPat f [part] curdir loc) ↔
        ∃ o ∈ offered fs ⟨curdir, loc⟩, segOK w.caseSensitive part.pat o.name = true ∧ (false = true → o.isDir = true) ∧
          v = o.toY ⟨curdir, loc⟩ := by
      intro f
      simp only [globParts, hgs', hd, Bool.false_eq_true, if_false, if_true]
      rw [shallow_eq, shallow_seg_iff w fs absPat part.pat false false ⟨curdir, loc⟩ v hdir (fun o ho => hagp _ o ho)]
      simp
    constructor
    · rintro ⟨f, h⟩
      obtain ⟨o, ho, hseg, _, rfl⟩ := (key f).1 h
      exact Denotes.last hstar ho hseg (fun h => by rw [hdo] at h; cases h)
    · intro h
      cases h with
      | last _ ho hseg _ => exact ⟨0, (key 0).2 ⟨_, ho, hseg, (fun h => by cases h), rfl⟩⟩
      | starSelf hs _ => rw [hstar] at hs; cases hs
      | starAny hs _ _ _ _ => rw [hstar] at hs; cases hs
  | case6 part curdir loc hgs hd =>
    intro _ hag hdir v
    have hgs' : (part.isMagic && part.isGlobstar) = false := by simpa using hgs
    have hstar : part.isStar = false := hgs'
    have hd' : (!part.dirOnly) = false := by simpa using hd
    have hdo : part.dirOnly = true := by simpa using hd'
    have hagp := hag part (by simp)
    have key : ∀ f, v ∈ results (globParts w fs absPat f [part] curdir loc) ↔
        ∃ o ∈ offered fs ⟨curdir, loc⟩, segOK w.caseSensitive part.pat o.name = true ∧ (true = true → o.isDir = true) ∧
          v = o.toY ⟨curdir, loc⟩ := by
      intro f
      simp only [globParts, hgs', hd', Bool.false_eq_true, if_false]
      rw [shallow_eq, shallow_seg_iff w fs absPat part.pat true false ⟨curdir, loc⟩ v hdir (fun o ho => hagp _ o ho)]
      simp
    constructor
    · rintro ⟨f, h⟩
      obtain ⟨o, ho, hseg, hod, rfl⟩ := (key f).1 h
      exact Denotes.last hstar ho hseg (fun _ => hod rfl)
    · intro h
      cases h with
      | last _ ho hseg hod => exact ⟨0, (key 0).2 ⟨_, ho, hseg, fun _ => hod hdo, rfl⟩⟩
      | starSelf hs _ => rw [hstar] at hs; cases hs
      | starAny hs _ _ _ _ => rw [hstar] at hs; cases hs
  | case7 part curdir loc hgs hd this rest1 ih =>
    intro hwf hag hdir v
    have hgs' : (part.isMagic && part.isGlobstar) = false := by simpa using hgs
    have hstar : part.isStar = false := hgs'
    have hd' : (!part.dirOnly) = false := by simpa using hd
    have hagp := hag part (by simp)
    have hwf' : WFParts (this :: rest1) := hwf.2
    have hag' : SegAgree fs w (this :: rest1) := hag.tail
    have key : ∀ f y, y ∈ results (globDir w fs absPat (getMatcher w.caseSensitive (some part.pat)) true false false (f + 1) curdir loc) ↔
        ∃ o ∈ offered fs ⟨curdir, loc⟩, segOK w.caseSensitive part.pat o.name = true ∧ (true = true → o.isDir = true) ∧
          y = o.toY ⟨curdir, loc⟩ := by
      intro f y
      rw [shallow_eq, shallow_seg_iff w fs absPat part.pat true false ⟨curdir, loc⟩ y hdir (fun o ho => hagp _ o ho)]
    have unfoldP : ∀ f, v ∈ results (globParts w fs absPat f (part :: this :: rest1) curdir loc) ↔
        ∃ y ∈ results (globDir w fs absPat (getMatcher w.caseSensitive (some part.pat)) true false false (f + 1) curdir loc),
          v ∈ results (globParts w fs absPat f (this :: rest1) y.path y.loc) := by
      intro f
      rcases rest1 with _ | ⟨t2, r⟩ <;>
        simp only [globParts, hgs', hd', Bool.false_eq_true, if_false, results_bindEv, List.mem_flatMap]
    constructor
    · rintro ⟨f, h⟩
      obtain ⟨y, hy, hv⟩ := (unfoldP f).1 h
      obtain ⟨o, ho, hseg, hod, rfl⟩ := (key f y).1 hy
      exact Denotes.inner hstar ho hseg (hod rfl)
        ((ih (o.toY ⟨curdir, loc⟩) hwf' hag' (offered_dir ho (hod rfl)) v).1 ⟨f, hv⟩)
    · intro h
      have bwd : ∀ (o : Offer), o ∈ offered fs ⟨curdir, loc⟩ → segOK w.caseSensitive part.pat o.name = true → o.isDir = true →
          Denotes fs w (this :: rest1) ⟨pjoin curdir o.name, o.loc⟩ v →
          ∃ fuel, v ∈ results (globParts w fs absPat fuel (part :: this :: rest1) curdir loc) := by
        intro o ho hseg hod hrest
        obtain ⟨f, hf⟩ := (ih (o.toY ⟨curdir, loc⟩) hwf' hag' (offered_dir ho hod) v).2 hrest
        exact ⟨f, (unfoldP f).2 ⟨o.toY ⟨curdir, loc⟩, (key f _).2 ⟨o, ho, hseg, fun _ => hod, rfl⟩, hf⟩⟩
      rcases rest1 with _ | ⟨t2, r⟩
      · cases h with
        | @inner _ _ _ _ o _ _ ho hseg hod hrest => exact bwd o ho hseg hod hrest
        | starLast hs _ _ _ _ => rw [hstar] at hs; cases hs
      · cases h with
        | @inner _ _ _ _ o _ _ ho hseg hod hrest => exact bwd o ho hseg hod hrest
        | starInner hs _ _ _ _ _ => rw [hstar] at hs; cases hs

end WcModel

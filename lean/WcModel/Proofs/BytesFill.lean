import WcModel.Proofs.BytesTwinSeq
/-
  C18 (all patterns), directed form — generic naturality.

  `Re.mapItems g` rewrites the member list of every class with `g`; `Item.mapItems g` lifts it to
  the parser's items.  If `g` leaves the member lists of the fixed fragments alone (`GoodG g`),
  every helper of the pass that handles already-emitted items commutes with it: the helpers copy
  regexes around, emit fixed fragments, and test an emitted item only against `_GLOBSTAR_DIV`.
  Instances: `normItems` (the normal form of `BytesTwin.lean`) and `fillItems b` (a *tagged*
  class is filled with the spelling `fullRange b`), which gives the directed statement in
  `BytesTwinDir.lean`.
-/
namespace WcModel

def Re.mapItems (g : List ClsItem → List ClsItem) : Re → Re
  | .cls neg items => .cls neg (g items)
  | .cat a b => .cat (a.mapItems g) (b.mapItems g)
  | .alt a b => .alt (a.mapItems g) (b.mapItems g)
  | .grp r => .grp (r.mapItems g)
  | .cap r => .cap (r.mapItems g)
  | .gcap r => .gcap (r.mapItems g)
  | .opt r => .opt (r.mapItems g)
  | .star l r => .star l (r.mapItems g)
  | .plus r => .plus (r.mapItems g)
  | .rep lo hi r => .rep lo hi (r.mapItems g)
  | .look n r => .look n (r.mapItems g)
  | .flags s i r => .flags s i (r.mapItems g)
  | .eps => .eps
  | .lit c => .lit c
  | .any => .any
  | .bos => .bos
  | .eos => .eos

/-- `g` does not touch the member lists that occur in the fixed fragments, and nothing else is
    mapped onto a separator class -/
structure GoodG (g : List ClsItem → List ClsItem) : Prop where
  sepU : g [.chr '/' false] = [.chr '/' false]
  sepW : g [.chr '\\' true, .chr '/' false] = [.chr '\\' true, .chr '/' false]
  sepDotU : g [.chr '/' false, .chr '.' false] = [.chr '/' false, .chr '.' false]
  sepDotW : g [.chr '\\' true, .chr '/' false, .chr '.' false] =
    [.chr '\\' true, .chr '/' false, .chr '.' false]
  dot : g [.chr '.' false] = [.chr '.' false]
  az : g [.range 'a' false 'z' false, .range 'A' false 'Z' false] =
    [.range 'a' false 'z' false, .range 'A' false 'Z' false]
  reflU : ∀ i, g i = [.chr '/' false] → i = [.chr '/' false]
  reflW : ∀ i, g i = [.chr '\\' true, .chr '/' false] → i = [.chr '\\' true, .chr '/' false]

theorem goodG_normItems : GoodG normItems := by
  refine ⟨by decide, by decide, by decide, by decide, by decide, by decide, ?_, ?_⟩
  · intro i h
    unfold normItems at h
    split at h
    · exact absurd h (by decide)
    · exact h
  · intro i h
    unfold normItems at h
    split at h
    · exact absurd h (by decide)
    · exact h

section generic
variable {g : List ClsItem → List ClsItem} (hg : GoodG g)

theorem Re.mapItems_eq_eps {r : Re} : r.mapItems g = .eps ↔ r = .eps := by
  cases r <;> simp [Re.mapItems]

/-! ### fragments -/

include hg in
theorem Frag.mapItems_fixed (win : Bool) :
    (Frag.sep win).mapItems g = Frag.sep win ∧
    (Frag.pathEop win).mapItems g = Frag.pathEop win ∧
    (Frag.noDir win).mapItems g = Frag.noDir win ∧
    (Frag.seqPath win).mapItems g = Frag.seqPath win ∧
    (Frag.seqPathDot win).mapItems g = Frag.seqPathDot win ∧
    (Frag.pathStar win).mapItems g = Frag.pathStar win ∧
    (Frag.pathStarDot1 win).mapItems g = Frag.pathStarDot1 win ∧
    (Frag.pathStarDot2 win).mapItems g = Frag.pathStarDot2 win ∧
    (Frag.pathGstarDot1 win).mapItems g = Frag.pathGstarDot1 win ∧
    (Frag.pathGstarDot2 win).mapItems g = Frag.pathGstarDot2 win ∧
    (Frag.needCharPath win).mapItems g = Frag.needCharPath win ∧
    (Frag.needSep win).mapItems g = Frag.needSep win ∧
    (Frag.globstarDiv win).mapItems g = Frag.globstarDiv win ∧
    (Frag.pathTrail win).mapItems g = Frag.pathTrail win ∧
    (Frag.sepPlus win).mapItems g = Frag.sepPlus win ∧
    (Frag.guardedDot win).mapItems g = Frag.guardedDot win := by
  cases win <;>
    simp [Frag.sep, Frag.sepItems, Frag.pathEop, Frag.noDir, Frag.seqPath, Frag.seqPathDot,
      Frag.pathStar, Frag.pathStarDot1, Frag.pathStarDot2, Frag.pathGstarDot1, Frag.pathGstarDot2,
      Frag.needCharPath, Frag.needSep, Frag.globstarDiv, Frag.pathTrail, Frag.sepPlus,
      Frag.guardedDot, Re.mapItems, hg.sepU, hg.sepW, hg.sepDotU, hg.sepDotW, hg.dot]

include hg in
theorem Frag.mapItems_fixed0 :
    Frag.noDot.mapItems g = Frag.noDot ∧ Frag.star.mapItems g = Frag.star ∧
    Frag.qmark.mapItems g = Frag.qmark ∧ Frag.needChar.mapItems g = Frag.needChar ∧
    Frag.noRoot.mapItems g = Frag.noRoot ∧ Frag.noWinRoot.mapItems g = Frag.noWinRoot := by
  simp [Frag.noDot, Frag.star, Frag.qmark, Frag.needChar, Frag.noRoot, Frag.noWinRoot, Frag.sep,
    Frag.sepItems, Re.mapItems, hg.dot, hg.az, hg.sepW]

end generic

/-- simp set: every fixed fragment is fixed -/
theorem Frag.sep_mi {g} (hg : GoodG g) (win : Bool) : (Frag.sep win).mapItems g = Frag.sep win := (Frag.mapItems_fixed hg win).1
theorem Frag.pathEop_mi {g} (hg : GoodG g) (win : Bool) : (Frag.pathEop win).mapItems g = Frag.pathEop win := (Frag.mapItems_fixed hg win).2.1
theorem Frag.noDir_mi {g} (hg : GoodG g) (win : Bool) : (Frag.noDir win).mapItems g = Frag.noDir win := (Frag.mapItems_fixed hg win).2.2.1
theorem Frag.seqPath_mi {g} (hg : GoodG g) (win : Bool) : (Frag.seqPath win).mapItems g = Frag.seqPath win := (Frag.mapItems_fixed hg win).2.2.2.1
theorem Frag.seqPathDot_mi {g} (hg : GoodG g) (win : Bool) : (Frag.seqPathDot win).mapItems g = Frag.seqPathDot win := (Frag.mapItems_fixed hg win).2.2.2.2.1
theorem Frag.pathStar_mi {g} (hg : GoodG g) (win : Bool) : (Frag.pathStar win).mapItems g = Frag.pathStar win := (Frag.mapItems_fixed hg win).2.2.2.2.2.1
theorem Frag.pathStarDot1_mi {g} (hg : GoodG g) (win : Bool) : (Frag.pathStarDot1 win).mapItems g = Frag.pathStarDot1 win := (Frag.mapItems_fixed hg win).2.2.2.2.2.2.1
theorem Frag.pathStarDot2_mi {g} (hg : GoodG g) (win : Bool) : (Frag.pathStarDot2 win).mapItems g = Frag.pathStarDot2 win := (Frag.mapItems_fixed hg win).2.2.2.2.2.2.2.1
theorem Frag.pathGstarDot1_mi {g} (hg : GoodG g) (win : Bool) : (Frag.pathGstarDot1 win).mapItems g = Frag.pathGstarDot1 win := (Frag.mapItems_fixed hg win).2.2.2.2.2.2.2.2.1
theorem Frag.pathGstarDot2_mi {g} (hg : GoodG g) (win : Bool) : (Frag.pathGstarDot2 win).mapItems g = Frag.pathGstarDot2 win := (Frag.mapItems_fixed hg win).2.2.2.2.2.2.2.2.2.1
theorem Frag.needCharPath_mi {g} (hg : GoodG g) (win : Bool) : (Frag.needCharPath win).mapItems g = Frag.needCharPath win := (Frag.mapItems_fixed hg win).2.2.2.2.2.2.2.2.2.2.1
theorem Frag.needSep_mi {g} (hg : GoodG g) (win : Bool) : (Frag.needSep win).mapItems g = Frag.needSep win := (Frag.mapItems_fixed hg win).2.2.2.2.2.2.2.2.2.2.2.1
theorem Frag.globstarDiv_mi {g} (hg : GoodG g) (win : Bool) : (Frag.globstarDiv win).mapItems g = Frag.globstarDiv win := (Frag.mapItems_fixed hg win).2.2.2.2.2.2.2.2.2.2.2.2.1
theorem Frag.pathTrail_mi {g} (hg : GoodG g) (win : Bool) : (Frag.pathTrail win).mapItems g = Frag.pathTrail win := (Frag.mapItems_fixed hg win).2.2.2.2.2.2.2.2.2.2.2.2.2.1
theorem Frag.sepPlus_mi {g} (hg : GoodG g) (win : Bool) : (Frag.sepPlus win).mapItems g = Frag.sepPlus win := (Frag.mapItems_fixed hg win).2.2.2.2.2.2.2.2.2.2.2.2.2.2.1
theorem Frag.guardedDot_mi {g} (hg : GoodG g) (win : Bool) : (Frag.guardedDot win).mapItems g = Frag.guardedDot win := (Frag.mapItems_fixed hg win).2.2.2.2.2.2.2.2.2.2.2.2.2.2.2
theorem Frag.noDot_mi {g} (hg : GoodG g) : Frag.noDot.mapItems g = Frag.noDot := (Frag.mapItems_fixed0 hg).1
theorem Frag.star_mi {g} (hg : GoodG g) : Frag.star.mapItems g = Frag.star := (Frag.mapItems_fixed0 hg).2.1
theorem Frag.qmark_mi {g} (hg : GoodG g) : Frag.qmark.mapItems g = Frag.qmark := (Frag.mapItems_fixed0 hg).2.2.1
theorem Frag.needChar_mi {g} (hg : GoodG g) : Frag.needChar.mapItems g = Frag.needChar := (Frag.mapItems_fixed0 hg).2.2.2.1
theorem Frag.noRoot_mi {g} (hg : GoodG g) : Frag.noRoot.mapItems g = Frag.noRoot := (Frag.mapItems_fixed0 hg).2.2.2.2.1
theorem Frag.noWinRoot_mi {g} (hg : GoodG g) : Frag.noWinRoot.mapItems g = Frag.noWinRoot := (Frag.mapItems_fixed0 hg).2.2.2.2.2

/-! ### items -/

mutual
def Item.mi (g : List ClsItem → List ClsItem) : Item → Item
  | .re r => .re (r.mapItems g)
  | .empty => .empty
  | .bar => .bar
  | .group k c body => .group k c (Item.miL g body)
  | .invOpen c body => .invOpen c (Item.miL g body)
  | .ph star => .ph (star.mapItems g)
  | .closed tail eop star => .closed (Item.miL g tail) (eop.map (Re.mapItems g)) (star.mapItems g)
def Item.miL (g : List ClsItem → List ClsItem) : List Item → List Item
  | [] => []
  | x :: xs => Item.mi g x :: Item.miL g xs
end

section items
variable (g : List ClsItem → List ClsItem)

@[simp] theorem Item.miL_nil : Item.miL g [] = [] := by simp [Item.miL]
@[simp] theorem Item.miL_cons (x : Item) (l : List Item) :
    Item.miL g (x :: l) = x.mi g :: Item.miL g l := by simp [Item.miL]
@[simp] theorem Item.mi_re (r : Re) : (Item.re r).mi g = .re (r.mapItems g) := by simp [Item.mi]
@[simp] theorem Item.mi_empty : Item.empty.mi g = .empty := by simp [Item.mi]
@[simp] theorem Item.mi_bar : Item.bar.mi g = .bar := by simp [Item.mi]
@[simp] theorem Item.mi_group (k c body) :
    (Item.group k c body).mi g = .group k c (Item.miL g body) := by simp [Item.mi]
@[simp] theorem Item.mi_invOpen (c body) :
    (Item.invOpen c body).mi g = .invOpen c (Item.miL g body) := by simp [Item.mi]
@[simp] theorem Item.mi_ph (s : Re) : (Item.ph s).mi g = .ph (s.mapItems g) := by simp [Item.mi]
@[simp] theorem Item.mi_closed (t e s) :
    (Item.closed t e s).mi g = .closed (Item.miL g t) (e.map (Re.mapItems g)) (s.mapItems g) := by
  simp [Item.mi]

theorem Item.miL_eq_map (l : List Item) : Item.miL g l = l.map (Item.mi g) := by
  induction l with
  | nil => simp
  | cons x l ih => simp [ih]

@[simp] theorem Item.miL_append (a b : List Item) :
    Item.miL g (a ++ b) = Item.miL g a ++ Item.miL g b := by
  simp [Item.miL_eq_map]
@[simp] theorem Item.miL_reverse (a : List Item) :
    Item.miL g a.reverse = (Item.miL g a).reverse := by
  simp [Item.miL_eq_map]

mutual
theorem Item.mi_eraseCap : ∀ x : Item, (Item.eraseCap x).mi g = Item.eraseCap (x.mi g)
  | .group k c body => by
    simp only [Item.eraseCap, Item.mi_group]; rw [Item.miL_eraseCapL body]
  | .invOpen c body => by
    simp only [Item.eraseCap, Item.mi_invOpen]; rw [Item.miL_eraseCapL body]
  | .closed tail e s => by
    simp only [Item.eraseCap, Item.mi_closed]; rw [Item.miL_eraseCapL tail]
  | .re _ => by simp [Item.eraseCap]
  | .empty => by simp [Item.eraseCap]
  | .bar => by simp [Item.eraseCap]
  | .ph _ => by simp [Item.eraseCap]
theorem Item.miL_eraseCapL : ∀ l : List Item,
    Item.miL g (Item.eraseCapL l) = Item.eraseCapL (Item.miL g l)
  | [] => by simp [Item.eraseCapL]
  | x :: xs => by
    simp only [Item.eraseCapL, Item.miL_cons]
    rw [Item.mi_eraseCap x, Item.miL_eraseCapL xs]
end

@[simp] theorem Item.isEmpty_mi (x : Item) : (x.mi g).isEmpty = x.isEmpty := by
  cases x <;> simp [Item.isEmpty]

mutual
theorem Item.size_mi : ∀ x : Item, (x.mi g).size = x.size
  | .group _ _ body => by simp only [Item.mi_group, Item.size, Item.sizeL_mi body]
  | .invOpen _ body => by simp only [Item.mi_invOpen, Item.size, Item.sizeL_mi body]
  | .closed tail _ _ => by simp only [Item.mi_closed, Item.size, Item.sizeL_mi tail]
  | .re _ => by simp [Item.size]
  | .empty => by simp [Item.size]
  | .bar => by simp [Item.size]
  | .ph _ => by simp [Item.size]
theorem Item.sizeL_mi : ∀ l : List Item, Item.sizeL (Item.miL g l) = Item.sizeL l
  | [] => by simp [Item.sizeL]
  | x :: xs => by
    simp only [Item.miL_cons, Item.sizeL, Item.size_mi x, Item.sizeL_mi xs]
end

end items

section nat
variable {g : List ClsItem → List ClsItem} (hg : GoodG g)

include hg in
theorem Cfg.needChar_mi (c : Cfg) : c.needChar.mapItems g = c.needChar := by
  unfold Cfg.needChar; split
  · exact Frag.needCharPath_mi hg _
  · exact Frag.needChar_mi hg
include hg in
theorem Cfg.eop_mi (c : Cfg) : c.eop.mapItems g = c.eop := by
  unfold Cfg.eop; split
  · exact Frag.pathEop_mi hg _
  · rfl

theorem catE_mi (a b : Re) : (catE a b).mapItems g = catE (a.mapItems g) (b.mapItems g) := by
  unfold catE
  by_cases h : a = .eps
  · subst h; simp [Re.mapItems]
  · have : a.mapItems g ≠ .eps := fun h' => h (Re.mapItems_eq_eps.mp h')
    simp [h, this, Re.mapItems]

include hg in
theorem restrictSequence_mi (c : Cfg) (ps : PS) :
    (restrictSequence c ps).1.mapItems g = (restrictSequence c ps).1 := by
  unfold restrictSequence
  simp only
  repeat' split
  all_goals simp [Re.mapItems, Frag.seqPathDot_mi hg, Frag.seqPath_mi hg, Frag.noDir_mi hg,
    Frag.noDot_mi hg]

/-! ### `clean_up_inverse` -/

include hg in
theorem cleanUpGo_mi (cfg : Cfg) (nested : Bool) : ∀ (rev done : List Item) (n : Nat),
    cleanUpGo cfg nested (Item.miL g rev) (Item.miL g done) n =
      (Item.miL g (cleanUpGo cfg nested rev done n).1, (cleanUpGo cfg nested rev done n).2) := by
  intro rev
  induction rev with
  | nil => intro done n; simp [cleanUpGo]
  | cons x rest ih =>
    intro done n
    cases x with
    | ph star =>
      simp only [Item.miL_cons, Item.mi_ph, cleanUpGo]
      rw [← ih]
      congr 1
      simp only [Item.miL_cons, Item.mi_closed]
      congr 1
      congr 1
      · split
        · rw [Item.miL_eraseCapL]
        · rfl
      · split <;> simp [Cfg.eop_mi hg]
    | re r => simp only [Item.miL_cons, Item.mi_re, cleanUpGo]; rw [← ih]; simp
    | empty => simp only [Item.miL_cons, Item.mi_empty, cleanUpGo]; rw [← ih]; simp
    | bar => simp only [Item.miL_cons, Item.mi_bar, cleanUpGo]; rw [← ih]; simp
    | group k c b => simp only [Item.miL_cons, Item.mi_group, cleanUpGo]; rw [← ih]; simp
    | invOpen c b => simp only [Item.miL_cons, Item.mi_invOpen, cleanUpGo]; rw [← ih]; simp
    | closed t e s => simp only [Item.miL_cons, Item.mi_closed, cleanUpGo]; rw [← ih]; simp

include hg in
theorem cleanUpInverse_mi (cfg : Cfg) (ps : PS) (cur : List Item) (nested : Bool) :
    cleanUpInverse cfg ps (Item.miL g cur) nested =
      (Item.miL g (cleanUpInverse cfg ps cur nested).1, (cleanUpInverse cfg ps cur nested).2) := by
  unfold cleanUpInverse
  split
  · rfl
  · have := cleanUpGo_mi hg cfg nested cur [] 0
    simp only [Item.miL_nil] at this
    simp only [this, Item.miL_reverse]

/-! ### `_handle_star` -/

include hg in
theorem mapItems_eq_globstarDiv {r : Re} {win : Bool} (h : r.mapItems g = Frag.globstarDiv win) :
    r = Frag.globstarDiv win := by
  unfold Frag.globstarDiv Frag.sep at *
  cases r <;> simp only [Re.mapItems, reduceCtorEq] at h
  rename_i r1; injection h with h
  cases r1 <;> simp only [Re.mapItems, reduceCtorEq] at h
  rename_i r2; injection h with h
  cases r2 <;> simp only [Re.mapItems, reduceCtorEq] at h
  rename_i r3 r4; injection h with h3 h4
  cases r3 <;> simp only [Re.mapItems, reduceCtorEq] at h3
  cases r4 <;> simp only [Re.mapItems, reduceCtorEq] at h4
  rename_i r5 r6; injection h4 with h5 h6
  cases r5 <;> simp only [Re.mapItems, reduceCtorEq] at h5
  cases r6 <;> simp only [Re.mapItems, reduceCtorEq] at h6
  rename_i neg items; injection h6 with h7 h8
  subst h7
  cases win
  · rw [hg.reflU items h8]; rfl
  · rw [hg.reflW items h8]; rfl

include hg in
theorem Item.isDiv_mi (x : Item) (win : Bool) : (x.mi g).isDiv win = x.isDiv win := by
  cases x <;> simp only [Item.mi_re, Item.mi_empty, Item.mi_bar, Item.mi_group,
    Item.mi_invOpen, Item.mi_ph, Item.mi_closed, Item.isDiv]
  rename_i r
  by_cases h : r = Frag.globstarDiv win
  · subst h; rw [Frag.globstarDiv_mi hg]
  · have h' : r.mapItems g ≠ Frag.globstarDiv win := fun e => h (mapItems_eq_globstarDiv hg e)
    rw [beq_false_of_ne h, beq_false_of_ne h']

include hg in
theorem hsStar_mi (cfg : Cfg) (ps : PS) :
    (hsStar cfg ps).1.mapItems g = (hsStar cfg ps).1 ∧ (hsStar cfg ps).2.mapItems g = (hsStar cfg ps).2 := by
  unfold hsStar
  simp only
  repeat' split
  all_goals simp [Re.mapItems, Frag.pathStarDot2_mi hg, Frag.pathGstarDot2_mi hg,
    Frag.pathStarDot1_mi hg, Frag.pathGstarDot1_mi hg, Frag.pathStar_mi hg, Frag.noDot_mi hg,
    Frag.star_mi hg]

include hg in
theorem hsBody_mi (cfg : Cfg) (cur : List Item) (star globstar : Re) (t : Bool × Bool × It × PS)
    (hs : star.mapItems g = star) (hgs : globstar.mapItems g = globstar) :
    hsBody cfg (Item.miL g cur) star globstar t =
      ((hsBody cfg cur star globstar t).1, (hsBody cfg cur star globstar t).2.1,
        Item.miL g (hsBody cfg cur star globstar t).2.2) := by
  obtain ⟨isGlob, capture, it, ps⟩ := t
  unfold hsBody
  simp only
  split
  · split <;> simp [Re.mapItems, hs, Cfg.needChar_mi hg]
  · cases cur with
    | nil => simp
    | cons last before =>
      simp only [Item.miL_cons, Item.isDiv_mi hg, Item.isEmpty_mi]
      split
      · simp
      · split <;> split <;> simp [Re.mapItems, hgs, Frag.globstarDiv_mi hg, Frag.needSep_mi hg]

include hg in
theorem handleStar_mi (cfg : Cfg) (ps : PS) (it : It) (cur : List Item) :
    handleStar cfg ps it (Item.miL g cur) =
      ((handleStar cfg ps it cur).1, (handleStar cfg ps it cur).2.1,
        Item.miL g (handleStar cfg ps it cur).2.2) := by
  rw [handleStar_eq, handleStar_eq]
  exact hsBody_mi hg cfg cur _ _ _ (hsStar_mi hg cfg ps).1 (hsStar_mi hg cfg ps).2

include hg in
theorem handleDot_mi (cfg : Cfg) (ps : PS) (it : It) :
    (handleDot cfg ps it).mapItems g = handleDot cfg ps it := by
  unfold handleDot
  simp only
  repeat' split
  all_goals simp [Re.mapItems, Frag.guardedDot_mi hg]

include hg in
theorem qmarkItem_mi (cfg : Cfg) (ps : PS) : (qmarkItem cfg ps).1.mi g = (qmarkItem cfg ps).1 := by
  simp only [qmarkItem, Item.mi_re, catE_mi, restrictSequence_mi hg, Frag.qmark_mi hg]

include hg in
theorem restrictExtendedSlash_mi (cfg : Cfg) (r : Re) (h : restrictExtendedSlash cfg = some r) :
    r.mapItems g = r := by
  unfold restrictExtendedSlash at h
  split at h
  · cases h; exact Frag.seqPath_mi hg _
  · cases h

include hg in
theorem references_mi (cfg : Cfg) (ps : PS) (it : It) (v : Re) (it' : It) (ps' : PS)
    (h : references cfg ps it = .val v it' ps') : v.mapItems g = v := by
  unfold references at h
  simp only [restrictExtendedSlash] at h
  repeat' (split at h)
  all_goals first | (cases h) | skip
  all_goals try (rename_i heq _; first | (split at heq <;> cases heq) | cases heq)
  all_goals simp [Re.mapItems, Frag.sepPlus_mi hg, Frag.sep_mi hg, Frag.seqPath_mi hg]

/-! ### `parse_extend` pieces -/

def fPE (g : List ClsItem → List ClsItem) (x : Bool × PS × It × List Item) : Bool × PS × It × List Item :=
  (x.1, x.2.1, x.2.2.1, Item.miL g x.2.2.2)
def fEL (g : List ClsItem → List ClsItem) :
    Except PS (PS × It × List Item) → Except PS (PS × It × List Item)
  | .ok x => .ok (x.1, x.2.1, Item.miL g x.2.2)
  | .error p => .error p
def fRL (g : List ClsItem → List ClsItem) (x : PS × List Item) : PS × List Item := (x.1, Item.miL g x.2)

theorem peFinish_mi (ps0 : PS) (s : Bool) (ps : PS) (it : It) (cur : List Item) :
    peFinish ps0 s ps it (Item.miL g cur) = fPE g (peFinish ps0 s ps it cur) := rfl

theorem peFail_mi (ps0 : PS) (it : It) (cur : List Item) (ps : PS) :
    peFail ps0 it (Item.miL g cur) ps = fPE g (peFail ps0 it cur ps) := rfl

include hg in
theorem peBuild_mi (cfg : Cfg) (ps0 : PS) (lt : Char) (cur : List Item) (ps : PS) (body : List Item) :
    peBuild cfg ps0 lt (Item.miL g cur) ps (Item.miL g body) =
      (Item.miL g (peBuild cfg ps0 lt cur ps body).1, (peBuild cfg ps0 lt cur ps body).2) := by
  unfold peBuild
  simp only
  repeat' split
  all_goals simp [Re.mapItems, Cfg.needChar_mi hg, Frag.pathStar_mi hg, Frag.pathStarDot2_mi hg,
    Frag.pathStarDot1_mi hg, Frag.star_mi hg, Frag.noDot_mi hg]

include hg in
theorem peClose_mi (cfg : Cfg) (ps0 : PS) (it : It) (r : List Item × PS) :
    peClose cfg ps0 it (Item.miL g r.1, r.2) = fPE g (peClose cfg ps0 it r) := by
  obtain ⟨cur, ps⟩ := r
  unfold peClose
  simp only
  split
  · rw [cleanUpInverse_mi hg]; rfl
  · rfl

/-! ### from items to one regex -/

theorem splitBars_mi : ∀ l : List Item,
    splitBars (Item.miL g l) = (splitBars l).map (Item.miL g) := by
  intro l
  induction l with
  | nil => simp [splitBars]
  | cons x l ih =>
    cases x <;> simp only [Item.miL_cons, Item.mi_re, Item.mi_empty, Item.mi_bar,
      Item.mi_group, Item.mi_invOpen, Item.mi_ph, Item.mi_closed, splitBars, ih,
      List.map_cons]
    all_goals cases splitBars l <;> simp

theorem altOfList_mi : ∀ l : List Re, (altOfList l).mapItems g = altOfList (l.map (Re.mapItems g))
  | [] => by simp [altOfList, Re.mapItems]
  | [r] => by simp [altOfList]
  | r :: r' :: rs => by
    have := altOfList_mi (r' :: rs)
    simp only [List.map_cons] at this
    simp only [altOfList, Re.mapItems, List.map_cons, this]

theorem quant_mi (k : GKind) (cap : Capt) (inner : Re) :
    (quant k cap inner).mapItems g = quant k cap (inner.mapItems g) := by
  cases k <;> cases cap <;> simp [quant, Re.mapItems]

theorem catE'_mi (a b : Re) : (catE' a b).mapItems g = catE' (a.mapItems g) (b.mapItems g) := by
  unfold catE'
  by_cases hb : b = .eps
  · subst hb; simp [Re.mapItems]
  · have hb' : b.mapItems g ≠ .eps := fun h' => hb (Re.mapItems_eq_eps.mp h')
    by_cases ha : a = .eps
    · subst ha; simp [hb, hb', Re.mapItems]
    · have ha' : a.mapItems g ≠ .eps := fun h' => ha (Re.mapItems_eq_eps.mp h')
      simp [ha, ha', hb, hb', Re.mapItems]

theorem mapM_mi (k : List Item → Option Re)
    (h : ∀ l, k (Item.miL g l) = (k l).map (Re.mapItems g)) : ∀ ls : List (List Item),
    (ls.map (Item.miL g)).mapM k = (ls.mapM k).map (List.map (Re.mapItems g))
  | [] => by simp
  | x :: xs => by
    have ih := mapM_mi k h xs
    simp only [List.map_cons, List.mapM_cons, h, ih]
    cases k x <;> simp
    cases xs.mapM k <;> simp

theorem toRe_mi : ∀ f : Nat,
    (∀ l, Item.seqToRe f (Item.miL g l) = (Item.seqToRe f l).map (Re.mapItems g)) ∧
    (∀ l, Item.listToRe f (Item.miL g l) = (Item.listToRe f l).map (Re.mapItems g))
  | 0 => by
    refine ⟨fun l => ?_, fun l => ?_⟩
    · simp [Item.seqToRe]
    · simp [Item.listToRe]
  | f+1 => by
    have ih := toRe_mi f
    refine ⟨fun l => ?_, fun l => ?_⟩
    · cases l with
      | nil => simp [Item.seqToRe, Re.mapItems]
      | cons x rest =>
        cases x with
        | re r =>
          simp only [Item.miL_cons, Item.mi_re, Item.seqToRe, ih.1 rest]
          cases Item.seqToRe f rest <;> simp [catE'_mi]
        | empty => simp only [Item.miL_cons, Item.mi_empty, Item.seqToRe, ih.1 rest]
        | bar => simp [Item.seqToRe]
        | ph s => simp [Item.seqToRe]
        | closed t e s => simp [Item.seqToRe]
        | group k c body =>
          simp only [Item.miL_cons, Item.mi_group, Item.seqToRe, ih.1 rest, ih.2 body]
          cases Item.listToRe f body <;> cases Item.seqToRe f rest <;> simp [catE'_mi, quant_mi]
        | invOpen c body =>
          cases rest with
          | nil => simp [Item.seqToRe]
          | cons y rest' =>
            cases y with
            | closed tail eop star =>
              have key : ∀ (w : Re) (E : List Item), Item.listToRe f
                    ((Item.re (Re.grp (w.mapItems g)) :: Item.miL g tail) ++ Item.miL g E) =
                    (Item.listToRe f ((Item.re (Re.grp w) :: tail) ++ E)).map (Re.mapItems g) := by
                intro w E
                rw [← ih.2]
                simp [Re.mapItems]
              cases eop with
              | none =>
                simp only [Item.miL_cons, Item.mi_invOpen, Item.mi_closed, Item.seqToRe,
                  ih.1 rest', ih.2 body, Option.map_none]
                cases hb : Item.listToRe f body with
                | none => simp
                | some w =>
                  have hk := key w []
                  simp only [Item.miL_nil] at hk
                  simp only [Option.map_some, Option.bind_eq_bind, Option.bind_some, hk]
                  cases Item.listToRe f ((Item.re (Re.grp w) :: tail) ++ []) <;> simp
                  cases Item.seqToRe f rest' <;> simp
                  cases c <;> simp [catE'_mi, Re.mapItems]
              | some e =>
                simp only [Item.miL_cons, Item.mi_invOpen, Item.mi_closed, Item.seqToRe,
                  ih.1 rest', ih.2 body, Option.map_some]
                cases hb : Item.listToRe f body with
                | none => simp
                | some w =>
                  have hk := key w [.re e]
                  simp only [Item.miL_cons, Item.mi_re, Item.miL_nil] at hk
                  simp only [Option.map_some, Option.bind_eq_bind, Option.bind_some, hk]
                  cases Item.listToRe f ((Item.re (Re.grp w) :: tail) ++ [Item.re e]) <;> simp
                  cases Item.seqToRe f rest' <;> simp
                  cases c <;> simp [catE'_mi, Re.mapItems]
            | re r => simp [Item.seqToRe]
            | empty => simp [Item.seqToRe]
            | bar => simp [Item.seqToRe]
            | ph s => simp [Item.seqToRe]
            | group k c' b' => simp [Item.seqToRe]
            | invOpen c' b' => simp [Item.seqToRe]
    · simp only [Item.listToRe, splitBars_mi, mapM_mi _ ih.1]
      cases (splitBars l).mapM (Item.seqToRe f) <;> simp [altOfList_mi]

def Parsed.mi (g : List ClsItem → List ClsItem) (x : Parsed) : Parsed :=
  { items := Item.miL g x.items, ci := x.ci }

theorem Parsed.toRe_mi (p : Parsed) : (p.mi g).toRe = p.toRe.map (Re.mapItems g) := by
  simp only [Parsed.toRe, Parsed.mi, Item.sizeL_mi, (WcModel.toRe_mi _).2]
  cases Item.listToRe (2 * Item.sizeL p.items + 4) p.items <;> simp [Re.mapItems]

end nat

end WcModel

import WcModel.Model.Match
import WcModel.Properties.C18all
import WcModel.Proofs.BytesWalkRe
/-
  C18 on the walkers — the list layer (`Model/Match.lean`: `compileOne`, `compileSeq`,
  `compilePattern`, `compileMatch`, `matchReal`).

  `isBytes` reaches this layer in exactly one place: `compilePart … isBytes value`
  (= `_wcparse._compile(value, flags)` on a bytes / str pattern).  `compilePart_twin` is
  `C18.bytes_str_winDrive` in the vocabulary of this layer: the two calls fail alike or give regexes
  with the same normal form `Re.bnorm` (⇔ `ReBytesTwin`).  Everything above only stores the
  regexes in lists and finally runs `Re.fullmatch` / `Re.fullmatchCap` on them, so
    * `compileMatch_twin` : the bytes and the str match object are equal after `MatchObj.bnorm`
      (or both calls raise the same error);
    * `matchReal_twin`    : match objects with equal normal forms answer alike on every Latin-1
      name, on every tree, with and without REALPATH.
-/
namespace WcModel

/-- lists of regexes are compared after normalising every member (`twinL_iff_bnormL`: ⇔ member-wise `ReBytesTwin`) -/
abbrev bnormL (l : List Re) : List Re := l.map Re.bnorm

/-- member-wise bytes twins -/
def TwinL : List Re → List Re → Prop
  | [], [] => True
  | a :: l, b :: m => ReBytesTwin a b ∧ TwinL l m
  | _, _ => False

theorem twinL_iff_bnormL : ∀ (l₁ l₂ : List Re), TwinL l₁ l₂ ↔ bnormL l₁ = bnormL l₂
  | [], [] => by simp [TwinL, bnormL]
  | [], _ :: _ => by simp [TwinL, bnormL]
  | _ :: _, [] => by simp [TwinL, bnormL]
  | a :: l₁, b :: l₂ => by
    simp only [TwinL, bnormL, List.map_cons, List.cons.injEq, ReBytesTwin_iff_bnorm]
    exact and_congr Iff.rfl (twinL_iff_bnormL l₁ l₂)

/-- a test that does not see the spelling gives the same `any` on twin lists -/
theorem any_bnormL {g : Re → Bool} (hg : ∀ r₁ r₂ : Re, r₁.bnorm = r₂.bnorm → g r₁ = g r₂) :
    ∀ {l₁ l₂ : List Re}, bnormL l₁ = bnormL l₂ → l₁.any g = l₂.any g
  | [], [], _ => rfl
  | [], _ :: _, h => by simp [bnormL] at h
  | _ :: _, [], h => by simp [bnormL] at h
  | a :: l₁, b :: l₂, h => by
    simp only [bnormL, List.map_cons, List.cons.injEq] at h
    simp only [List.any_cons, hg a b h.1, any_bnormL hg h.2]

theorem bnormL_isEmpty {l₁ l₂ : List Re} (h : bnormL l₁ = bnormL l₂) : l₁.isEmpty = l₂.isEmpty := by
  cases l₁ <;> cases l₂ <;> simp [bnormL] at h ⊢

theorem bnormL_append (l₁ l₂ : List Re) : bnormL (l₁ ++ l₂) = bnormL l₁ ++ bnormL l₂ := List.map_append

/-! ### the one place the type is read -/

/-- **`_compile(bytes)` vs `_compile(str)`**: for every flag set and every pattern text the two
    calls raise the same error or return bytes twins. -/
theorem compilePart_twin (f : Flags) (v : List Char) :
    (compilePart f true v).map Re.bnorm = (compilePart f false v).map Re.bnorm := by
  simp only [compilePart, Driver.parsePattern]
  rcases C18.bytes_str_winDrive (Flags.ofNat f.toNat) v with ⟨hB, hS⟩ | ⟨pB, pS, rB, rS, hB, hS, _, hrB, hrS, ht, _⟩
  · rw [hB, hS]
  · rw [hB, hS]
    simp only [hrB, hrS, Except.map]
    rw [ht.bnorm_eq]

theorem compileOne_twin (flags : Nat) (v : List Char) :
    (compileOne flags true v).map Re.bnorm = (compileOne flags false v).map Re.bnorm :=
  compilePart_twin _ v

/-- what `compilePart_twin` says, case by case -/
theorem exceptMap_cases {α β ε : Type} {f : α → β} {x y : Except ε α} (h : x.map f = y.map f) :
    (∃ e, x = .error e ∧ y = .error e) ∨ (∃ a b, x = .ok a ∧ y = .ok b ∧ f a = f b) := by
  cases x with
  | error e =>
    cases y with
    | error e' => simp only [Except.map, Except.error.injEq] at h; subst h; exact .inl ⟨e, rfl, rfl⟩
    | ok b => simp [Except.map] at h
  | ok a =>
    cases y with
    | error e' => simp [Except.map] at h
    | ok b => simp only [Except.map, Except.ok.injEq] at h; exact .inr ⟨a, b, rfl, rfl, h⟩

def nPair (x : List Re × List Re) : List Re × List Re := (bnormL x.1, bnormL x.2)

theorem compileSeq_twin (flags : Nat) : ∀ (l seen : List (List Char)) (posB posS negB negS : List Re),
    bnormL posB = bnormL posS → bnormL negB = bnormL negS →
    (compileSeq flags true l seen posB negB).map nPair = (compileSeq flags false l seen posS negS).map nPair := by
  intro l
  induction l with
  | nil =>
    intro seen posB posS negB negS hp hn
    simp only [compileSeq, Except.map, nPair, hp, hn]
  | cons e r ih =>
    intro seen posB posS negB negS hp hn
    simp only [compileSeq]
    split
    · exact ih seen _ _ _ _ hp hn
    · split
      · rcases exceptMap_cases (compileOne_twin (flags ||| Gen.F_NO_GLOBSTAR_CAPTURE ||| Gen.FDOTMATCH) (e.drop 1)) with
          ⟨x, hB, hS⟩ | ⟨a, b, hB, hS, hab⟩
        · rw [hB, hS]
        · rw [hB, hS]
          exact ih _ _ _ _ _ hp (by rw [bnormL_append, bnormL_append, hn]; simp only [bnormL, List.map_cons, hab])
      · rcases exceptMap_cases (compileOne_twin flags e) with ⟨x, hB, hS⟩ | ⟨a, b, hB, hS, hab⟩
        · rw [hB, hS]
        · rw [hB, hS]
          exact ih _ _ _ _ _ (by rw [bnormL_append, bnormL_append, hp]; simp only [bnormL, List.map_cons, hab]) hn

/-- the part of `compile_pattern` after the exclusion list (used twice below) -/
local macro "cp_tail " fl:term ", " exps:term ", " n0B:term ", " n0S:term ", " h0:term : tactic => `(tactic|
  (rcases exceptMap_cases (compileSeq_twin $fl $exps [] [] [] $n0B $n0S rfl $h0) with ⟨x, hB', hS'⟩ | ⟨a, b, hB', hS', hab⟩
   · rw [hB', hS']
   · rw [hB', hS']
     obtain ⟨posB, negB⟩ := a
     obtain ⟨posS, negS⟩ := b
     simp only [nPair, Prod.mk.injEq] at hab
     obtain ⟨hp, hn⟩ := hab
     have hp' : List.map Re.bnorm posB = List.map Re.bnorm posS := hp
     have hn' : List.map Re.bnorm negB = List.map Re.bnorm negS := hn
     simp only [bnormL_isEmpty hp, bnormL_isEmpty hn]
     cases hc : (!negS.isEmpty && posS.isEmpty && hasBit $fl Gen.FNEGATEALL)
     · simp only [Bool.false_eq_true, ↓reduceIte, Except.map, nPair, bnormL_isEmpty hp]
       split
       · simp only [List.map_append, hn', hp']
       · simp only [hn', hp']
     · simp only [↓reduceIte]
       rcases exceptMap_cases (compileOne_twin ($fl ||| (if hasBit $fl Gen.FPATHNAME then Gen.FGLOBSTAR else 0)) ['*', '*']) with
         ⟨x, hB2, hS2⟩ | ⟨a, b, hB2, hS2, hab2⟩
       · rw [hB2, hS2]; try rfl
       · rw [hB2, hS2]
         simp only [Except.map, List.isEmpty_cons, Bool.not_false, Bool.true_and, nPair, bnormL_append]
         split
         · simp only [hn', List.map_append, List.map_cons, hab2]
         · simp only [hn', List.map_append, List.map_cons, hab2]))

theorem compilePattern_twin (flags : Nat) (exps : List (List Char)) (excl : Option (List (List Char))) :
    (compilePattern flags true exps excl).map nPair = (compilePattern flags false exps excl).map nPair := by
  unfold compilePattern
  simp only []
  generalize (if excl.isSome then noNegateFlags flags else flags) = fl
  cases excl with
  | none =>
    simp only []
    cp_tail fl, exps, [], [], rfl
  | some ex =>
    simp only []
    rcases exceptMap_cases (compileSeq_twin (fl ||| Gen.FDOTMATCH ||| Gen.F_NO_GLOBSTAR_CAPTURE) ex [] [] [] [] [] rfl rfl) with
      ⟨x, hB, hS⟩ | ⟨a0, b0, hB, hS, hab0⟩
    · simp only [hB, hS, Except.map]
    · simp only [hB, hS, Except.map]
      have h0 : bnormL a0.1 = bnormL b0.1 := congrArg Prod.fst hab0
      cp_tail fl, exps, a0.1, b0.1, h0

def MatchObj.bnorm (o : MatchObj) : MatchObj := { o with incl := bnormL o.incl, excl := bnormL o.excl }

/-- **the list layer**: `glob.globmatch`'s matcher object for a bytes pattern list and for the
    str one — the same error, or match objects with the same normal form (member-wise bytes twins,
    same REALPATH / FOLLOW switches) -/
theorem compileMatch_twin (userFlags : Nat) (exps : List (List Char)) (excl : Option (List (List Char))) :
    (compileMatch userFlags true exps excl).map MatchObj.bnorm =
      (compileMatch userFlags false exps excl).map MatchObj.bnorm := by
  unfold compileMatch
  simp only []
  rcases exceptMap_cases (compilePattern_twin (globFlagTransform userFlags) exps excl) with ⟨x, hB, hS⟩ | ⟨a, b, hB, hS, hab⟩
  · rw [hB, hS]
  · rw [hB, hS]
    obtain ⟨posB, negB⟩ := a
    obtain ⟨posS, negS⟩ := b
    simp only [nPair, Prod.mk.injEq] at hab
    simp only [Except.map, MatchObj.bnorm, hab.1, hab.2]

/-! ### matching -/

theorem fsMatch_twin (fs : FS) {r₁ r₂ : Re} (h : r₁.bnorm = r₂.bnorm) (name : List Char) (hn : Latin1 name)
    (follow : Bool) : fsMatch fs r₁ name follow = fsMatch fs r₂ name follow := by
  unfold fsMatch
  rw [(ReBytesTwin.of_bnorm_eq h).fullmatchCap_eq name hn]

/-- **same answers**: match objects with equal normal forms accept the same Latin-1 names, on
    every tree (`_Match.match`, with and without REALPATH) -/
theorem matchReal_twin (fs : FS) {o₁ o₂ : MatchObj} (h : o₁.bnorm = o₂.bnorm) (name : List Char)
    (hn : Latin1 name) : matchReal fs o₁ name = matchReal fs o₂ name := by
  obtain ⟨i₁, e₁, re₁, fo₁⟩ := o₁
  obtain ⟨i₂, e₂, re₂, fo₂⟩ := o₂
  simp only [MatchObj.bnorm, MatchObj.mk.injEq] at h
  obtain ⟨hi, he, rfl, rfl⟩ := h
  have hfull : ∀ s, Latin1 s → ∀ r₁ r₂ : Re, r₁.bnorm = r₂.bnorm → r₁.fullmatch s = r₂.fullmatch s :=
    fun s hs r₁ r₂ hr => (ReBytesTwin.of_bnorm_eq hr).fullmatch_eq s hs
  have hcore : ∀ s, Latin1 s → ∀ fo, ∀ r₁ r₂ : Re, r₁.bnorm = r₂.bnorm → fsMatch fs r₁ s fo = fsMatch fs r₂ s fo :=
    fun s hs fo r₁ r₂ hr => fsMatch_twin fs hr s hs fo
  unfold matchReal matchRealCore
  simp only []
  have hn' : Latin1 (if !(name.getLast? == some '/') && fs.isdir name then name ++ ['/'] else name) := by
    split
    · exact hn.append (Latin1.cons (by decide) Latin1.nil)
    · exact hn
  rw [any_bnormL (hfull name hn) hi, any_bnormL (hfull name hn) he,
    any_bnormL (hcore _ hn' fo₁) hi, any_bnormL (hcore _ hn' true) he]

end WcModel

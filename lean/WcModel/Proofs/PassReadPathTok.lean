import WcModel.Proofs.PassPrintPath
import WcModel.Proofs.PassReadSpell
/-
  PassReadPath, part 1: the one-token facts of PATH MODE (`PPP.PathX cfg`) for the spellings the
  path printer `PPP.printPath` never writes (the path-mode counterpart of `PassReadTok.lean`):

    * a bare literal character the printer would have escaped (`! + @` not before `(`, `(`
      anywhere, `|` and `)` at top level)                                       (`run_bare_*`)
    * an escaped ordinary character `\a`; `\.` (two iterations)                  (`run_esc_*`)
    * a run of stars: ONE item `(?=[^/])…[^/]*?` at the start of a segment (`dropStars`), one
      `[^/]*?` per star elsewhere.  At the start of a segment, at top level, under GLOBSTAR, the
      run must not be a globstar: `**` (`***` under GLOBSTARLONG) followed by the end of the
      text, a separator, an escaped separator or a lone backslash (`globFree`)   (`run_stars_*`)

  All facts keep track of `ps.globstar` (never written): the globstars of the later segments
  read it.
-/
namespace WcModel
namespace PRP
open PP PPP PR

/-- top-level loop: the word `w` is consumed, at most `|w|` iterations, the items `x as` pushed.
    `side as g rest`: the side condition may depend on "at the segment start" and on `ps.globstar` -/
def RunR (cfg : Cfg) (w : List Char) (x : Bool → List Item) (side : Bool → Bool → List Char → Prop) : Prop :=
  ∀ (as : Bool) (k F i : Nat) (rest : List Char) (ps : PS) (l : List Item), PP.Inv ps as false k →
    side as ps.globstar rest → w.length ≤ F →
    ∃ ps' F', F - w.length ≤ F' ∧ PP.Inv ps' false false k ∧ ps'.globstar = ps.globstar ∧
      rootLoop cfg F ⟨i, w ++ rest⟩ ps l = rootLoop cfg F' ⟨i + w.length, rest⟩ ps' ((x as).reverse ++ l)

/-- the loop inside a group -/
def RunE (cfg : Cfg) (w : List Char) (x : Bool → List Item) (side : List Char → Prop) : Prop :=
  ∀ (as : Bool) (k F i : Nat) (rest : List Char) (ps : PS) (l : List Item) (a n : Bool), PP.Inv ps as true k →
    side rest → w.length ≤ F →
    ∃ ps' F', F - w.length ≤ F' ∧ PP.Inv ps' false true k ∧ ps'.globstar = ps.globstar ∧
      extLoop cfg F ⟨i, w ++ rest⟩ ps l a n = extLoop cfg F' ⟨i + w.length, rest⟩ ps' ((x as).reverse ++ l) a n

theorem RunR_of_step {cfg : Cfg} {w : List Char} {x : Bool → Item} {side : List Char → Prop}
    (hs : StepG cfg w x side) (hw : 1 ≤ w.length) : RunR cfg w (fun as => [x as]) (fun _ _ r => side r) := by
  intro as k F i rest ps l hi hsd hF
  obtain ⟨F', rfl⟩ : ∃ F', F = F' + 1 := ⟨F - 1, by omega⟩
  obtain ⟨ps', hi', hg', e⟩ := (hs as false k F' i rest ps l hi hsd).1
  exact ⟨ps', F', by omega, hi', hg', by rw [e]; rfl⟩

theorem RunE_of_step {cfg : Cfg} {w : List Char} {x : Bool → Item} {side : List Char → Prop}
    (hs : StepG cfg w x side) (hw : 1 ≤ w.length) : RunE cfg w (fun as => [x as]) side := by
  intro as k F i rest ps l a n hi hsd hF
  obtain ⟨F', rfl⟩ : ∃ F', F = F' + 1 := ⟨F - 1, by omega⟩
  obtain ⟨ps', hi', hg', e⟩ := (hs as true k F' i rest ps l hi hsd).2 a n
  exact ⟨ps', F', by omega, hi', hg', by rw [e]; rfl⟩

/-! ### bare literal characters -/

theorem litItem_ne (c : Char) (hs : c ≠ '/') : litItem c = .re (.lit c) := by
  simp [litItem, litRe', hs]

/-- a bare character that is not `* ? [ \ /` is a literal at top level … -/
theorem tok_bare_root (cfg : Cfg) (h : PathX cfg) (c : Char) (c1 : c ≠ '*') (c2 : c ≠ '?') (c3 : c ≠ '[')
    (c4 : c ≠ '\\') (hs : c ≠ '/') (it : It) (ps : PS) (l : List Item) :
    HF.rootPlain cfg c it ps l = (it, ps.updateDirState, litItem c :: l) := by
  by_cases hd : c = '.'
  · subst hd
    simp [HF.rootPlain, handleDot_p cfg h, litItem, litRe']
  · simp [HF.rootPlain, hd, hs, c1, c2, c3, c4, litItem, litRe']

/-- … and, when it is neither `|` nor `)`, inside a group -/
theorem tok_bare_ext (cfg : Cfg) (h : PathX cfg) (c : Char) (c1 : c ≠ '*') (c2 : c ≠ '?') (c3 : c ≠ '[')
    (c4 : c ≠ '\\') (hs : c ≠ '/') (c8 : c ≠ '|') (c10 : c ≠ ')') (it : It) (ps : PS) (l : List Item)
    (a n : Bool) {as il : Bool} {k : Nat} (hi : PP.Inv ps as il k) :
    ∃ ps' as', PP.Inv ps' as' il k ∧ ps'.globstar = ps.globstar ∧
      HF.extPlain cfg c it ps l a n = (ps', it, litItem c :: l, true) := by
  by_cases hd : c = '.'
  · subst hd
    refine ⟨_, false, ?_, ?_, by simp [HF.extPlain, handleDot_p cfg h, litItem, litRe']; rfl⟩
    · split
      · exact ⟨rfl, rfl, hi.inList, hi.invExt, hi.mb, hi.emb⟩
      · rename_i hn
        exact ⟨by simpa using hn, hi.dirStart, hi.inList, hi.invExt, hi.mb, hi.emb⟩
    · split <;> rfl
  · exact ⟨_, _, hi, rfl, by simp [HF.extPlain, hd, hs, c1, c2, c3, c4, c8, c10, litItem, litRe']⟩

theorem run_bare_root (cfg : Cfg) (h : PathX cfg) (c : Char) (c1 : c ≠ '*') (c2 : c ≠ '?') (c3 : c ≠ '[')
    (c4 : c ≠ '\\') (hs : c ≠ '/') : RunR cfg [c] (fun _ => [litItem c]) (fun _ _ r => bareSide c r) := by
  intro as k F i rest ps l hi hsd hF
  obtain ⟨F', rfl⟩ : ∃ F', F = F' + 1 := ⟨F - 1, by simp at hF; omega⟩
  obtain ⟨ps1, hi1, hg1, e⟩ := PPP.rootTok_plainG cfg c ⟨i+1, rest⟩ ps l hi hsd
  refine ⟨ps1.updateDirState, F', by simp, hi1.upd, by simpa using hg1, ?_⟩
  show rootLoop cfg (F'+1) ⟨i, c :: rest⟩ ps l = _
  rw [rootLoop_cons, e, tok_bare_root cfg h c c1 c2 c3 c4 hs]
  rfl

theorem run_bare_ext (cfg : Cfg) (h : PathX cfg) (c : Char) (c1 : c ≠ '*') (c2 : c ≠ '?') (c3 : c ≠ '[')
    (c4 : c ≠ '\\') (hs : c ≠ '/') (c8 : c ≠ '|') (c10 : c ≠ ')') :
    RunE cfg [c] (fun _ => [litItem c]) (bareSide c) := by
  intro as k F i rest ps l a n hi hsd hF
  obtain ⟨F', rfl⟩ : ∃ F', F = F' + 1 := ⟨F - 1, by simp at hF; omega⟩
  obtain ⟨ps1, hi1, hg1, e⟩ := PPP.extTok_plainG cfg F' c ⟨i+1, rest⟩ ps l a n hi hsd
  obtain ⟨ps2, as2, hi2, hg2, e2⟩ := tok_bare_ext cfg h c c1 c2 c3 c4 hs c8 c10 ⟨i+1, rest⟩ ps1 l a n hi1
  refine ⟨ps2.updateDirState, F', by simp, hi2.upd, by simpa [hg2] using hg1, ?_⟩
  show extLoop cfg (F'+1) ⟨i, c :: rest⟩ ps l a n = _
  rw [extLoop_cons, e, e2, extCont_ne _ _ _ _ _ _ _ _ c10]
  rfl

/-! ### escaped characters -/

/-- `\c` for any `c` but the dot and the separator -/
theorem tok_esc (cfg : Cfg) (h : PathX cfg) (c : Char) (hd : c ≠ '.') (hs : c ≠ '/') (i : Nat) (rest : List Char)
    (ps : PS) (l : List Item) (a n : Bool) (hds : ps.dirStart = false) :
    HF.rootPlain cfg '\\' ⟨i, c :: rest⟩ ps l = (⟨i + 1, rest⟩, ps.updateDirState, litItem c :: l) ∧
    HF.extPlain cfg '\\' ⟨i, c :: rest⟩ ps l a n = (ps, ⟨i + 1, rest⟩, litItem c :: l, true) := by
  have href : references cfg ps ⟨i, c :: rest⟩ = .val (.lit c) ⟨i + 1, rest⟩ ps := by
    unfold references
    by_cases hb : c = '\\'
    · subst hb; simp [It.next, h.bslash, h.unix]
    · simp [It.next, hb, hs, hd]
  constructor
  · simp [HF.rootPlain, href, hds, litItem, litRe', hs]
  · simp [HF.extPlain, href, litItem, litRe', hs]

theorem step_esc (cfg : Cfg) (h : PathX cfg) (c : Char) (hd : c ≠ '.') (hs : c ≠ '/') :
    StepG cfg ['\\', c] (fun _ => litItem c) (fun _ => True) := by
  intro as il k F i rest ps l hi _
  constructor
  · obtain ⟨ps1, hi1, hg1, e⟩ := PPP.rootTok_plainG cfg '\\' ⟨i+1, c :: rest⟩ ps l hi (fun hx => absurd hx bs_not_ext')
    refine ⟨ps1.updateDirState, hi1.upd, by simpa using hg1, ?_⟩
    show rootLoop cfg (F+1) ⟨i, '\\' :: c :: rest⟩ ps l = _
    rw [rootLoop_cons, e, (tok_esc cfg h c hd hs _ _ ps1 l false false hi1.dirStart).1]
    rfl
  · intro a n
    obtain ⟨ps1, hi1, hg1, e⟩ := PPP.extTok_plainG cfg F '\\' ⟨i+1, c :: rest⟩ ps l a n hi (fun hx => absurd hx bs_not_ext')
    refine ⟨ps1.updateDirState, hi1.upd, by simpa using hg1, ?_⟩
    show extLoop cfg (F+1) ⟨i, '\\' :: c :: rest⟩ ps l a n = _
    rw [extLoop_cons, e, (tok_esc cfg h c hd hs _ _ ps1 l a n hi1.dirStart).2, extCont_ne _ _ _ _ _ _ _ _ (by decide)]
    rfl

/-- the first of the two iterations spent on `\.`: the backslash is dropped, nothing is pushed -/
theorem esc_dot_first (cfg : Cfg) (F i : Nat) (rest : List Char) (ps : PS) (l : List Item) (a n : Bool)
    {as il : Bool} {k : Nat} (hi : PP.Inv ps as il k) :
    (∃ ps1, PP.Inv ps1 as il k ∧ ps1.globstar = ps.globstar ∧
      rootLoop cfg (F+1) ⟨i, '\\' :: '.' :: rest⟩ ps l = rootLoop cfg F ⟨i+1, '.' :: rest⟩ ps1 l) ∧
    (∃ ps1, PP.Inv ps1 as il k ∧ ps1.globstar = ps.globstar ∧
      extLoop cfg (F+1) ⟨i, '\\' :: '.' :: rest⟩ ps l a n = extLoop cfg F ⟨i+1, '.' :: rest⟩ ps1 l a n) := by
  have href : ∀ ps1 : PS, references cfg ps1 ⟨i+1, '.' :: rest⟩ = .dot ⟨i+1, '.' :: rest⟩ := by
    intro ps1; simp [references, It.next]
  constructor
  · have hx : ¬ ((cfg.extend && decide ('\\' ∈ extTypes)) = true) := by simp [bs_not_ext']
    refine ⟨ps, hi, rfl, ?_⟩
    rw [rootLoop_cons]
    unfold HF.rootTok
    rw [if_neg hx]
    simp [HF.rootPlain, href]
  · obtain ⟨ps1, hi1, hg1, e⟩ := PPP.extTok_plainG cfg F '\\' ⟨i+1, '.' :: rest⟩ ps l a n hi
      (fun hx => absurd hx bs_not_ext')
    refine ⟨ps1, hi1, hg1, ?_⟩
    rw [extLoop_cons, e]
    simp [HF.extPlain, href, HF.extCont]

theorem run_esc_dot_root (cfg : Cfg) (h : PathX cfg) :
    RunR cfg ['\\', '.'] (fun _ => [litItem '.']) (fun _ _ _ => True) := by
  intro as k F i rest ps l hi _ hF
  obtain ⟨F', rfl⟩ : ∃ F', F = F' + 2 := ⟨F - 2, by simp at hF; omega⟩
  obtain ⟨ps1, hi1, hg1, e1⟩ := (esc_dot_first cfg (F'+1) i rest ps l false false hi).1
  obtain ⟨ps2, hi2, hg2, e2⟩ := (step_lit_p cfg h '.' dot_not_esc (by decide) as false k F' (i+1) rest ps1 l hi1 trivial).1
  refine ⟨ps2, F', by simp, hi2, hg2.trans hg1, ?_⟩
  show rootLoop cfg (F'+1+1) ⟨i, '\\' :: '.' :: rest⟩ ps l = _
  rw [e1]
  exact e2

theorem run_esc_dot_ext (cfg : Cfg) (h : PathX cfg) :
    RunE cfg ['\\', '.'] (fun _ => [litItem '.']) (fun _ => True) := by
  intro as k F i rest ps l a n hi _ hF
  obtain ⟨F', rfl⟩ : ∃ F', F = F' + 2 := ⟨F - 2, by simp at hF; omega⟩
  obtain ⟨ps1, hi1, hg1, e1⟩ := (esc_dot_first cfg (F'+1) i rest ps l a n hi).2
  obtain ⟨ps2, hi2, hg2, e2⟩ := (step_lit_p cfg h '.' dot_not_esc (by decide) as true k F' (i+1) rest ps1 l hi1 trivial).2 a n
  refine ⟨ps2, F', by simp, hi2, hg2.trans hg1, ?_⟩
  show extLoop cfg (F'+1+1) ⟨i, '\\' :: '.' :: rest⟩ ps l a n = _
  rw [e1]
  exact e2

/-- an escaped character other than the separator -/
theorem run_esc_root (cfg : Cfg) (h : PathX cfg) (c : Char) (hs : c ≠ '/') :
    RunR cfg ['\\', c] (fun _ => [litItem c]) (fun _ _ _ => True) := by
  by_cases hd : c = '.'
  · subst hd; exact run_esc_dot_root cfg h
  · exact RunR_of_step (step_esc cfg h c hd hs) (by simp)

theorem run_esc_ext (cfg : Cfg) (h : PathX cfg) (c : Char) (hs : c ≠ '/') :
    RunE cfg ['\\', c] (fun _ => [litItem c]) (fun _ => True) := by
  by_cases hd : c = '.'
  · subst hd; exact run_esc_dot_ext cfg h
  · exact RunE_of_step (step_esc cfg h c hd hs) (by simp)

/-! ### runs of stars -/

/-- the first phase of `hsSel`: the second (and, under GLOBSTARLONG, third) star -/
def hs1 (cfg : Cfg) (it : It) (capture0 : Bool) : Bool × Bool × It × It :=
  match it.next with
  | none => (true, capture0, it, it)
  | some (c, it1) =>
    if c != '*' then (true, capture0, it, it)
    else if cfg.globstarlong then
      match it1.next with
      | none => (false, capture0, it1, it)
      | some (c2, it2) => if c2 != '*' then (false, capture0, it1, it) else (false, false, it2, it1)
    else (false, capture0, it1, it)

/-- the second phase: what follows the stars -/
def hs2 (cfg : Cfg) (ps : PS) (capture : Bool) (it prev : It) : Bool × Bool × It × PS :=
  match it.next with
  | none => (true, capture, it, ps)
  | some (c, it1) =>
    if c = '\\' then
      match referencesSeq cfg it1 with
      | .val _ _ => (false, capture, it, ps)
      | .dot _ => (false, capture, it, ps)
      | .pathname => (true, capture, it1.advance 1, { ps with matchbase := false })
      | .stop => (true, capture, it1, ps)
    else if c = '/' then (true, capture, it1, { ps with matchbase := false })
    else if c = '(' && cfg.extend then (false, capture, prev, ps)
    else (false, capture, it, ps)

theorem hsSel_eq (cfg : Cfg) (ps : PS) (it : It) (c0 : Bool) :
    hsSel cfg ps it c0 =
      if ps.afterStart && ps.globstar && !ps.inList then
        (if (hs1 cfg it c0).1 then (false, (hs1 cfg it c0).2.1, (hs1 cfg it c0).2.2.1, ps)
         else hs2 cfg ps (hs1 cfg it c0).2.1 (hs1 cfg it c0).2.2.1 (hs1 cfg it c0).2.2.2)
      else (false, c0, it, ps) := by
  rfl

/-- what must follow `**` (`***` under GLOBSTARLONG) at a segment start for it NOT to be a
    globstar: something, not a separator, not an escaped separator, not a lone backslash.
    `n` = the number of stars after the first one. -/
def globFree (long : Bool) (n : Nat) (rest : List Char) : Prop :=
  (n = 1 ∨ (long = true ∧ n = 2)) →
    rest ≠ [] ∧ rest.head? ≠ some '/' ∧ ∀ t, rest = '\\' :: t → ∃ d u, t = d :: u ∧ d ≠ '/'

/-- the look past the stars finds no separator: not a globstar.  `prev` is only used before `(`,
    which `starSide` excludes. -/
theorem hs2_free (cfg : Cfg) (h : PathX cfg) (ps : PS) (cap : Bool) (i : Nat) (rest : List Char) (prev : It)
    (h1 : rest ≠ []) (h2 : rest.head? ≠ some '/') (h3 : ∀ t, rest = '\\' :: t → ∃ d u, t = d :: u ∧ d ≠ '/')
    (h4 : rest.head? ≠ some '(') :
    hs2 cfg ps cap ⟨i, rest⟩ prev = (false, cap, ⟨i, rest⟩, ps) := by
  cases rest with
  | nil => exact absurd rfl h1
  | cons c r =>
    have c2 : c ≠ '/' := by simpa using h2
    have c4 : c ≠ '(' := by simpa using h4
    by_cases hb : c = '\\'
    · subst hb
      obtain ⟨d, u, rfl, hd⟩ := h3 r rfl
      have : referencesSeq cfg ⟨i+1, d :: u⟩ = .val (.chr d (d ∈ reEscapeSet)) ⟨i+2, u⟩ ∨
          referencesSeq cfg ⟨i+1, d :: u⟩ = .dot ⟨i+1, d :: u⟩ ∨
          referencesSeq cfg ⟨i+1, d :: u⟩ = .val (.chr '\\' true) ⟨i+2, u⟩ := by
        unfold referencesSeq
        by_cases hdb : d = '\\'
        · subst hdb; right; right; simp [It.next, h.bslash, h.unix]
        · by_cases hdd : d = '.'
          · subst hdd; right; left; simp [It.next]
          · left; simp [It.next, hdb, hdd, hd]
      unfold hs2
      rcases this with e | e | e <;> simp [It.next, e]
    · unfold hs2
      simp [It.next, hb, c2, c4]

theorem stars_two (n : Nat) : stars (n+2) = '*' :: '*' :: stars n := by
  rw [stars_succ, stars_succ]

/-- **`hsSel` on the rest of a run of stars that is not a globstar**: some of the stars have been
    read, the others are left to `dropStars` -/
theorem hsSel_run (cfg : Cfg) (h : PathX cfg) (ps : PS) (i n : Nat) (rest : List Char) (c0 : Bool)
    (hs : starSide rest) (hg0 : (ps.afterStart && ps.globstar && !ps.inList) = true → globFree cfg.globstarlong n rest) :
    ∃ cap j, j ≤ n ∧ hsSel cfg ps ⟨i, stars n ++ rest⟩ c0 = (false, cap, ⟨i + j, stars (n - j) ++ rest⟩, ps) := by
  rw [hsSel_eq]
  by_cases hcond : (ps.afterStart && ps.globstar && !ps.inList) = true
  case neg => rw [if_neg hcond]; exact ⟨c0, 0, Nat.zero_le _, by simp⟩
  rw [if_pos hcond]
  have hg : globFree cfg.globstarlong n rest := hg0 hcond
  -- what may follow a run: the end, a group opener `*(`, or a character that is not a star
  have hrest : rest = [] ∨ (∃ r, rest = '*' :: '(' :: r) ∨ (∃ c r, rest = c :: r ∧ c ≠ '*' ∧ c ≠ '(') := by
    cases rest with
    | nil => exact .inl rfl
    | cons c r =>
      have c4 : c ≠ '(' := by simpa using hs.1
      rcases hs.2 with h2 | ⟨r', e⟩
      · exact .inr (.inr ⟨c, r, rfl, by simpa using h2, c4⟩)
      · exact .inr (.inl ⟨r', e⟩)
  have hext := h.extend
  match n with
  | 0 =>
    refine ⟨c0, 0, Nat.le_refl _, ?_⟩
    rcases hrest with rfl | ⟨r, rfl⟩ | ⟨c, r, rfl, c1, c4⟩
    · simp [stars, hs1, It.next]
    · cases hl : cfg.globstarlong <;> simp [stars, hs1, hs2, It.next, hl, hext]
    · simp [stars, hs1, It.next, c1]
  | 1 =>
    have e1 : stars 1 ++ rest = '*' :: rest := by simp [stars]
    rw [e1]
    by_cases hl : cfg.globstarlong = true
    · -- GLOBSTARLONG: a third star is looked for
      rcases hrest with rfl | ⟨r, rfl⟩ | ⟨c, r, rfl, c1, c4⟩
      · exact absurd rfl (hg (.inl rfl)).1
      · refine ⟨false, 1, Nat.le_refl _, ?_⟩
        simp [hs1, hs2, It.next, hl, hext, stars]
      · obtain ⟨g1, g2, g3⟩ := hg (.inl rfl)
        refine ⟨c0, 1, Nat.le_refl _, ?_⟩
        have : hs1 cfg ⟨i, '*' :: c :: r⟩ c0 = (false, c0, ⟨i+1, c :: r⟩, ⟨i, '*' :: c :: r⟩) := by
          simp [hs1, It.next, hl, c1]
        simp only [this, Bool.false_eq_true, if_false]
        rw [hs2_free cfg h ps c0 (i+1) (c :: r) _ g1 g2 g3 hs.1]
        simp [stars]
    · have hl' : cfg.globstarlong = false := by simpa using hl
      obtain ⟨g1, g2, g3⟩ := hg (.inl rfl)
      refine ⟨c0, 1, Nat.le_refl _, ?_⟩
      have : hs1 cfg ⟨i, '*' :: rest⟩ c0 = (false, c0, ⟨i+1, rest⟩, ⟨i, '*' :: rest⟩) := by
        simp [hs1, It.next, hl']
      simp only [this, Bool.false_eq_true, if_false]
      rcases hrest with rfl | ⟨r, rfl⟩ | ⟨c, r, rfl, c1, c4⟩
      · exact absurd rfl g1
      · simp [hs2, It.next, stars]
      · rw [hs2_free cfg h ps c0 (i+1) (c :: r) _ g1 g2 g3 hs.1]
        simp [stars]
  | m+2 =>
    rw [stars_two, List.cons_append, List.cons_append]
    by_cases hl : cfg.globstarlong = true
    · -- the third star has been read: what follows decides
      have h1 : hs1 cfg ⟨i, '*' :: '*' :: (stars m ++ rest)⟩ c0 =
          (false, false, ⟨i+2, stars m ++ rest⟩, ⟨i+1, '*' :: (stars m ++ rest)⟩) := by
        simp [hs1, It.next, hl]
      simp only [h1, Bool.false_eq_true, if_false]
      refine ⟨false, 2, by omega, ?_⟩
      have e2 : m + 2 - 2 = m := by omega
      rw [e2]
      match m with
      | 0 =>
        obtain ⟨g1, g2, g3⟩ := hg (.inr ⟨hl, rfl⟩)
        simp only [stars, List.replicate_zero, List.nil_append]
        rcases hrest with rfl | ⟨r, rfl⟩ | ⟨c, r, rfl, c1, c4⟩
        · exact absurd rfl g1
        · simp [hs2, It.next]
        · rw [hs2_free cfg h ps false (i+2) (c :: r) _ g1 g2 g3 hs.1]
      | k+1 =>
        rw [stars_succ, List.cons_append]
        simp [hs2, It.next]
    · have hl' : cfg.globstarlong = false := by simpa using hl
      have h1 : hs1 cfg ⟨i, '*' :: '*' :: (stars m ++ rest)⟩ c0 =
          (false, c0, ⟨i+1, '*' :: (stars m ++ rest)⟩, ⟨i, '*' :: '*' :: (stars m ++ rest)⟩) := by
        simp [hs1, It.next, hl']
      simp only [h1, Bool.false_eq_true, if_false]
      refine ⟨c0, 1, by omega, ?_⟩
      have e2 : m + 2 - 1 = m + 1 := by omega
      rw [e2, stars_succ, List.cons_append]
      simp [hs2, It.next]

theorem hsStar_start (cfg : Cfg) (h : PathX cfg) (ps : PS) (ha : ps.afterStart = true) :
    Re.cat cfg.needChar (hsStar cfg ps).1 = pStar cfg.dot true := by
  unfold hsStar pStar
  simp only [h.pathname, ha, h.win, h.needChar, if_true, Bool.true_and]
  cases cfg.dot <;> rfl

/-- **a star at the start of a segment, followed by the rest of its run (not a globstar)** -/
theorem handleStar_start (cfg : Cfg) (h : PathX cfg) (ps : PS) (i n : Nat) (rest : List Char) (cur : List Item)
    (ha : ps.afterStart = true) (hs : starSide rest) (hg : (ps.afterStart && ps.globstar && !ps.inList) = true → globFree cfg.globstarlong n rest) :
    handleStar cfg ps ⟨i, stars n ++ rest⟩ cur =
      (ps.resetDirTrack, ⟨i + n, rest⟩, .re (pStar cfg.dot true) :: cur) := by
  rw [handleStar_eq]
  obtain ⟨cap, j, hj, e⟩ := hsSel_run cfg h ps i n rest (cfg.pathname && cfg.globstarCapture) hs hg
  rw [e]
  unfold hsBody
  simp only [Bool.not_false, if_true, ha, h.extend, dropStars_run (n - j) (i + j) rest hs,
    hsStar_start cfg h ps ha]
  have : i + j + (n - j) = i + n := by omega
  rw [this]

/-- a star elsewhere: `[^/]*?`, nothing is skipped -/
theorem handleStar_mid (cfg : Cfg) (h : PathX cfg) (ps : PS) (it : It) (cur : List Item)
    (ha : ps.afterStart = false) :
    handleStar cfg ps it cur = (ps.resetDirTrack, it, .re (Frag.pathStar false) :: cur) := by
  rw [handleStar_eq]
  have hsel : hsSel cfg ps it (cfg.pathname && cfg.globstarCapture) =
      (false, cfg.pathname && cfg.globstarCapture, it, ps) := by
    unfold hsSel
    simp [ha]
  rw [hsel]
  unfold hsBody hsStar
  simp [h.pathname, ha, h.win]

/-- the items pushed for a run of `n+1` stars in path mode -/
def starItems (cfg : Cfg) (as : Bool) (n : Nat) : List Item :=
  if as then [.re (pStar cfg.dot true)] else List.replicate (n+1) (.re (Frag.pathStar false))

theorem star_mid_root (cfg : Cfg) (h : PathX cfg) (F i : Nat) (rest : List Char) (ps : PS) (l : List Item)
    {k : Nat} (hi : PP.Inv ps false false k) (hn : rest.head? ≠ some '(') :
    ∃ ps', PP.Inv ps' false false k ∧ ps'.globstar = ps.globstar ∧
      rootLoop cfg (F+1) ⟨i, '*' :: rest⟩ ps l =
        rootLoop cfg F ⟨i+1, rest⟩ ps' (.re (Frag.pathStar false) :: l) := by
  obtain ⟨ps1, hi1, hg1, e⟩ := PPP.rootTok_plainG cfg '*' ⟨i+1, rest⟩ ps l hi (fun _ => hn)
  refine ⟨ps1.resetDirTrack.updateDirState, hi1.reset.upd, by simpa [PS.resetDirTrack] using hg1, ?_⟩
  rw [rootLoop_cons, e]
  simp [HF.rootPlain, handleStar_mid cfg h ps1 _ l hi1.afterStart]

theorem star_mid_ext (cfg : Cfg) (h : PathX cfg) (F i : Nat) (rest : List Char) (ps : PS) (l : List Item)
    (a n : Bool) {k : Nat} (hi : PP.Inv ps false true k) (hn : rest.head? ≠ some '(') :
    ∃ ps', PP.Inv ps' false true k ∧ ps'.globstar = ps.globstar ∧
      extLoop cfg (F+1) ⟨i, '*' :: rest⟩ ps l a n =
        extLoop cfg F ⟨i+1, rest⟩ ps' (.re (Frag.pathStar false) :: l) a n := by
  obtain ⟨ps1, hi1, hg1, e⟩ := PPP.extTok_plainG cfg F '*' ⟨i+1, rest⟩ ps l a n hi (fun _ => hn)
  refine ⟨ps1.resetDirTrack.updateDirState, hi1.reset.upd, by simpa [PS.resetDirTrack] using hg1, ?_⟩
  rw [extLoop_cons, e]
  simp only [HF.extPlain, if_true, handleStar_mid cfg h ps1 _ l hi1.afterStart]
  rw [extCont_ne _ _ _ _ _ _ _ _ (by decide)]

theorem stars_mid_root (cfg : Cfg) (h : PathX cfg) : ∀ (n F i : Nat) (rest : List Char) (ps : PS) (l : List Item)
    {k : Nat}, PP.Inv ps false false k → starSide rest → n ≤ F →
    ∃ ps', PP.Inv ps' false false k ∧ ps'.globstar = ps.globstar ∧
      rootLoop cfg F ⟨i, stars n ++ rest⟩ ps l =
        rootLoop cfg (F - n) ⟨i + n, rest⟩ ps' ((List.replicate n (.re (Frag.pathStar false))).reverse ++ l) := by
  intro n
  induction n with
  | zero => intro F i rest ps l k hi _ _; exact ⟨ps, hi, rfl, by simp [stars]⟩
  | succ n ih =>
    intro F i rest ps l k hi hs hF
    obtain ⟨F', rfl⟩ : ∃ F', F = F' + 1 := ⟨F - 1, by omega⟩
    rw [stars_succ]
    obtain ⟨ps1, hi1, hg1, e1⟩ := star_mid_root cfg h F' i (stars n ++ rest) ps l hi (stars_head n rest hs)
    obtain ⟨ps2, hi2, hg2, e2⟩ := ih F' (i+1) rest ps1 (.re (Frag.pathStar false) :: l) hi1 hs (by omega)
    refine ⟨ps2, hi2, hg2.trans hg1, ?_⟩
    show rootLoop cfg (F'+1) ⟨i, '*' :: (stars n ++ rest)⟩ ps l = _
    rw [e1, e2, replicate_reverse_append]
    have a1 : F' + 1 - (n + 1) = F' - n := by omega
    have a2 : i + 1 + n = i + (n + 1) := by omega
    rw [a1, a2]

theorem stars_mid_ext (cfg : Cfg) (h : PathX cfg) (a nn : Bool) : ∀ (n F i : Nat) (rest : List Char) (ps : PS)
    (l : List Item) {k : Nat}, PP.Inv ps false true k → starSide rest → n ≤ F →
    ∃ ps', PP.Inv ps' false true k ∧ ps'.globstar = ps.globstar ∧
      extLoop cfg F ⟨i, stars n ++ rest⟩ ps l a nn =
        extLoop cfg (F - n) ⟨i + n, rest⟩ ps' ((List.replicate n (.re (Frag.pathStar false))).reverse ++ l) a nn := by
  intro n
  induction n with
  | zero => intro F i rest ps l k hi _ _; exact ⟨ps, hi, rfl, by simp [stars]⟩
  | succ n ih =>
    intro F i rest ps l k hi hs hF
    obtain ⟨F', rfl⟩ : ∃ F', F = F' + 1 := ⟨F - 1, by omega⟩
    rw [stars_succ]
    obtain ⟨ps1, hi1, hg1, e1⟩ := star_mid_ext cfg h F' i (stars n ++ rest) ps l a nn hi (stars_head n rest hs)
    obtain ⟨ps2, hi2, hg2, e2⟩ := ih F' (i+1) rest ps1 (.re (Frag.pathStar false) :: l) hi1 hs (by omega)
    refine ⟨ps2, hi2, hg2.trans hg1, ?_⟩
    show extLoop cfg (F'+1) ⟨i, '*' :: (stars n ++ rest)⟩ ps l a nn = _
    rw [e1, e2, replicate_reverse_append]
    have a1 : F' + 1 - (n + 1) = F' - n := by omega
    have a2 : i + 1 + n = i + (n + 1) := by omega
    rw [a1, a2]

/-- the side condition of a run of stars at top level: what `starSide` says, and at the start of
    a segment the run is not a globstar (`g` = `ps.globstar`) -/
def starSideR (long : Bool) (n : Nat) (as g : Bool) (rest : List Char) : Prop :=
  starSide rest ∧ (as = true → g = true → globFree long n rest)

/-- **a run of `n+1` stars**, top level -/
theorem run_stars_root (cfg : Cfg) (h : PathX cfg) (n : Nat) :
    RunR cfg (stars (n+1)) (fun as => starItems cfg as n) (starSideR cfg.globstarlong n) := by
  intro as k F i rest ps l hi hsd hF
  obtain ⟨hs, hgf⟩ := hsd
  rw [stars_length] at hF
  cases as with
  | true =>
    obtain ⟨F', rfl⟩ : ∃ F', F = F' + 1 := ⟨F - 1, by omega⟩
    obtain ⟨ps1, hi1, hgs, e⟩ := PPP.rootTok_plainG cfg '*' ⟨i+1, stars n ++ rest⟩ ps l hi (fun _ => stars_head n rest hs)
    refine ⟨ps1.resetDirTrack.updateDirState, F', by rw [stars_length]; omega, hi1.reset.upd,
      by simpa [PS.resetDirTrack] using hgs, ?_⟩
    rw [stars_succ]
    show rootLoop cfg (F'+1) ⟨i, '*' :: (stars n ++ rest)⟩ ps l = _
    have hg1 : (ps1.afterStart && ps1.globstar && !ps1.inList) = true → globFree cfg.globstarlong n rest := by
      intro hc
      simp only [Bool.and_eq_true] at hc
      exact hgf rfl (hgs ▸ hc.1.2)
    rw [rootLoop_cons, e]
    simp only [HF.rootPlain, show ('*' : Char) ≠ '.' by decide, if_false, if_true,
      handleStar_start cfg h ps1 (i+1) n rest l hi1.afterStart hs hg1, starItems]
    have : i + 1 + n = i + ('*' :: stars n).length := by simp [stars_length]; omega
    rw [this]; rfl
  | false =>
    obtain ⟨ps', hi', hg', e⟩ := stars_mid_root cfg h (n+1) F i rest ps l hi hs hF
    exact ⟨ps', F - (n+1), by rw [stars_length]; omega, hi', hg', by rw [e, stars_length]; rfl⟩

/-- **a run of `n+1` stars**, inside a group (never a globstar) -/
theorem run_stars_ext (cfg : Cfg) (h : PathX cfg) (n : Nat) :
    RunE cfg (stars (n+1)) (fun as => starItems cfg as n) starSide := by
  intro as k F i rest ps l a nn hi hs hF
  rw [stars_length] at hF
  cases as with
  | true =>
    obtain ⟨F', rfl⟩ : ∃ F', F = F' + 1 := ⟨F - 1, by omega⟩
    obtain ⟨ps1, hi1, hgs, e⟩ := PPP.extTok_plainG cfg F' '*' ⟨i+1, stars n ++ rest⟩ ps l a nn hi
      (fun _ => stars_head n rest hs)
    refine ⟨ps1.resetDirTrack.updateDirState, F', by rw [stars_length]; omega, hi1.reset.upd,
      by simpa [PS.resetDirTrack] using hgs, ?_⟩
    rw [stars_succ]
    show extLoop cfg (F'+1) ⟨i, '*' :: (stars n ++ rest)⟩ ps l a nn = _
    have hg1 : (ps1.afterStart && ps1.globstar && !ps1.inList) = true → globFree cfg.globstarlong n rest := by
      intro hc
      simp [hi1.inList] at hc
    rw [extLoop_cons, e]
    simp only [HF.extPlain, if_true,
      handleStar_start cfg h ps1 (i+1) n rest l hi1.afterStart hs hg1, starItems]
    rw [extCont_ne _ _ _ _ _ _ _ _ (by decide)]
    have : i + 1 + n = i + ('*' :: stars n).length := by simp [stars_length]; omega
    rw [this]; rfl
  | false =>
    obtain ⟨ps', hi', hg', e⟩ := stars_mid_ext cfg h a nn (n+1) F i rest ps l hi hs hF
    exact ⟨ps', F - (n+1), by rw [stars_length]; omega, hi', hg', by rw [e, stars_length]; rfl⟩

end PRP
end WcModel

import WcModel.Proofs.CompPathSeg
import WcModel.Proofs.Lang
/-
  Semantics of the tidy path-mode compiler (`compPath`), globstar-free patterns:
  the compiled regex full-matches `s` iff the executable path specification `pathLangR`
  accepts `s` — for subjects all of whose pieces are visible (no leading dot unless DOTGLOB,
  never `.`/`..`), and patterns whose segments are negation-free, D1p-safe and non-nullable.
-/
namespace WcModel

/-! ### non-nullable patterns consume at least one character -/

theorem L_nonnull (ci : Bool) (g : Pat) (h : g.nullable = false) :
    ∀ a b, Pat.L ci g a b → b.rest.length < a.rest.length := by
  induction g with
  | eps => simp [Pat.nullable] at h
  | star => simp [Pat.nullable] at h
  | lit c => intro a b hl; obtain ⟨d, s, e, _, rfl⟩ := hl; simp [e]
  | any => intro a b hl; obtain ⟨d, s, e, _, rfl⟩ := hl; simp [e]
  | cls n i => intro a b hl; obtain ⟨d, s, e, _, rfl⟩ := hl; simp [e]
  | seq p q ihp ihq =>
    intro a b hl
    obtain ⟨c, l1, l2⟩ := hl
    have s1 := (Pat.L_suf ci p _ _ l1).len
    have s2 := (Pat.L_suf ci q _ _ l2).len
    simp only [Pat.nullable, Bool.and_eq_false_iff] at h
    rcases h with h | h
    · have := ihp h _ _ l1; omega
    · have := ihq h _ _ l2; omega
  | alt p q ihp ihq =>
    intro a b hl
    simp only [Pat.nullable, Bool.or_eq_false_iff] at h
    rcases hl with hl | hl
    · exact ihp h.1 _ _ hl
    · exact ihq h.2 _ _ hl
  | ext k p ih =>
    intro a b hl
    cases k with
    | opt => simp [Pat.nullable] at h
    | star => simp [Pat.nullable] at h
    | neg => simp [Pat.nullable] at h
    | plus =>
      obtain ⟨c, l1, l2⟩ := hl
      have := ih (by simpa [Pat.nullable] using h) _ _ l1
      have := (Iter.suf (Pat.L_suf ci p) l2).len
      omega
    | one => exact ih (by simpa [Pat.nullable] using h) _ _ hl

theorem suf_eq_or_lt {a c : St} (h : St.Suf c a) : c = a ∨ c.rest.length < a.rest.length := by
  rcases h with rfl | ⟨_, pre, hne, e⟩
  · exact Or.inl rfl
  · right
    rw [e]
    have : 0 < pre.length := List.length_pos_iff.mpr hne
    simp; omega

/-- `r` is empty or begins with a separator -/
def AtSep (r : List Char) : Prop := r = [] ∨ ∃ r', r = '/' :: r'

/-- a non-nullable pattern is solid wherever it stands -/
theorem solid_of_nonnull (g : Pat) : ∀ as, g.nullable = false → g.solid as = true := by
  induction g with
  | eps => intro as h; simp [Pat.nullable] at h
  | star => intro as h; simp [Pat.nullable] at h
  | lit c => intro as _; rfl
  | any => intro as _; rfl
  | cls n i => intro as _; rfl
  | seq p q ihp ihq =>
    intro as h
    simp only [Pat.nullable, Bool.and_eq_false_iff] at h
    simp only [Pat.solid, Bool.or_eq_true]
    rcases h with h | h
    · exact Or.inl (ihp as h)
    · exact Or.inr (ihq _ h)
  | alt p q ihp ihq =>
    intro as h
    simp only [Pat.nullable, Bool.or_eq_false_iff] at h
    simp only [Pat.solid, Bool.and_eq_true]
    exact ⟨ihp as h.1, ihq as h.2⟩
  | ext k p ih =>
    intro as h
    cases k with
    | opt => simp [Pat.nullable] at h
    | star => simp [Pat.nullable] at h
    | neg => simp [Pat.nullable] at h
    | plus => simpa [Pat.solid] using ih as (by simpa [Pat.nullable] using h)
    | one => simpa [Pat.solid] using ih as (by simpa [Pat.nullable] using h)

/-- **a solid segment never succeeds on an empty piece**: it consumes something, or it stands
    before a non-separator character -/
theorem compSeg_solid (dot ci : Bool) (g : Pat) (hn : g.negFree = true) (hs : g.noSlash = true) :
    ∀ as, g.solid as = true → ∀ a c, Re.M ⟨true, ci⟩ (compSeg dot as g) a c →
      c.rest.length < a.rest.length ∨ (c = a ∧ ¬ AtSep a.rest) := by
  induction g with
  | eps => intro as h; simp [Pat.solid] at h
  | lit ch =>
    intro as _ a c h
    simp only [compSeg, Re.M] at h
    obtain ⟨d, s, e, _, rfl⟩ := h
    left; simp [e]
  | any =>
    intro as _ a c h
    simp only [compSeg, Frag.qmark] at h
    obtain ⟨⟨d, s, e, _, rfl⟩, _⟩ := guarded1_sound (fun x y => M_any_dotall ci x y) h
    left; simp [e]
  | cls neg items =>
    intro as _ a c h
    simp only [compSeg] at h
    obtain ⟨⟨d, s, e, _, rfl⟩, _⟩ := guarded1_sound (fun x y => M_cls_scls ci neg items x y) h
    left; simp [e]
  | star =>
    intro as has a c h
    simp only [Pat.solid] at has
    subst has
    have hit := M_pStar_sound _ dot true a c h
    simp only [compSeg, pStar, ite_true, Re.M.eq_5] at h
    obtain ⟨m, h1, _⟩ := h
    obtain ⟨_, d, s, e, hd⟩ := (M_needCharPath _ a m).mp h1
    rcases suf_eq_or_lt (Iter.suf (fun _ _ h => consume1_suf h) hit) with rfl | hlt
    · right
      refine ⟨rfl, ?_⟩
      rintro (h0 | ⟨r', h0⟩)
      · simp [h0] at e
      · rw [h0] at e; simp at e; exact hd e.1.symm
    · exact Or.inl hlt
  | seq p q ihp ihq =>
    intro as has a c h
    simp only [Pat.negFree, Bool.and_eq_true] at hn
    simp only [Pat.noSlash, Bool.and_eq_true] at hs
    simp only [Pat.solid, Bool.or_eq_true] at has
    rw [compSeg_seq _ _ _ _ hn.1, Re.M.eq_5] at h
    obtain ⟨m, h1, h2⟩ := h
    have s1 := suf_eq_or_lt (Pat.L_suf ci p _ _ (compSeg_sound dot ci p hn.1 hs.1 _ _ _ h1).1)
    have s2 := suf_eq_or_lt (Pat.L_suf ci q _ _ (compSeg_sound dot ci q hn.2 hs.2 _ _ _ h2).1)
    rcases has with has | has
    · rcases ihp hn.1 hs.1 as has a m h1 with hlt | ⟨rfl, hna⟩
      · left; rcases s2 with rfl | s2
        · exact hlt
        · omega
      · rcases s2 with rfl | s2
        · exact Or.inr ⟨rfl, hna⟩
        · exact Or.inl s2
    · rcases ihq hn.2 hs.2 _ has m c h2 with hlt | ⟨rfl, hnm⟩
      · left; rcases s1 with rfl | s1
        · exact hlt
        · omega
      · rcases s1 with rfl | s1
        · exact Or.inr ⟨rfl, hnm⟩
        · exact Or.inl s1
  | alt p q ihp ihq =>
    intro as has a c h
    simp only [Pat.negFree, Bool.and_eq_true] at hn
    simp only [Pat.noSlash, Bool.and_eq_true] at hs
    simp only [Pat.solid, Bool.and_eq_true] at has
    simp only [compSeg, Re.M] at h
    rcases h with h | h
    · exact ihp hn.1 hs.1 as has.1 a c h
    · exact ihq hn.2 hs.2 as has.2 a c h
  | ext k p ih =>
    intro as has a c h
    cases k with
    | neg => simp [Pat.negFree] at hn
    | opt => simp [Pat.solid] at has
    | star => simp [Pat.solid] at has
    | one =>
      have ih' := ih (by simpa [Pat.negFree] using hn) (by simpa [Pat.noSlash] using hs) as
        (by simpa [Pat.solid] using has)
      simp only [compSeg, quantRe, Re.M] at h
      exact ih' a c h
    | plus =>
      have hn' : p.negFree = true := by simpa [Pat.negFree] using hn
      have hs' : p.noSlash = true := by simpa [Pat.noSlash] using hs
      have ih' := ih hn' hs' as (by simpa [Pat.solid] using has)
      simp only [compSeg, quantRe, Re.M] at h
      obtain ⟨m, h1, h2⟩ := h
      have s2 := suf_eq_or_lt (Iter.suf (R := Re.M ⟨true, ci⟩ (.grp (compSeg dot as p)))
        (fun x y hxy => Pat.L_suf ci p _ _ (compSeg_sound dot ci p hn' hs' as x y (by simpa [Re.M] using hxy)).1) h2)
      rcases ih' a m (by simpa [Re.M] using h1) with hlt | ⟨rfl, hna⟩
      · left; rcases s2 with rfl | s2
        · exact hlt
        · omega
      · rcases s2 with rfl | s2
        · exact Or.inr ⟨rfl, hna⟩
        · exact Or.inl s2

/-! ### the documented language does not look beyond the text it consumes -/

theorem consume1_frame {p : Char → Bool} {a' b' : St} (h : consume1 p a' b') (a : St) (r : List Char)
    (e : a.rest = a'.rest ++ r) : ∃ b, b.rest = b'.rest ++ r ∧ consume1 p a b := by
  obtain ⟨d, s, e1, hp, rfl⟩ := h
  exact ⟨⟨false, s ++ r⟩, rfl, d, s ++ r, by simp [e, e1], hp, rfl⟩

theorem Iter.frame {R : St → St → Prop} {r : List Char}
    (hR : ∀ x' y', R x' y' → ∀ x, x.rest = x'.rest ++ r → ∃ y, y.rest = y'.rest ++ r ∧ R x y)
    {a' b' : St} (h : Iter R a' b') :
    ∀ a, a.rest = a'.rest ++ r → ∃ b, b.rest = b'.rest ++ r ∧ Iter R a b := by
  induction h with
  | refl a' => intro a e; exact ⟨a, e, Iter.refl a⟩
  | step hab _ ih =>
    intro a e
    obtain ⟨m, em, hm⟩ := hR _ _ hab a e
    obtain ⟨b, eb, hb⟩ := ih m em
    exact ⟨b, eb, Iter.step hm hb⟩

/-- appending unread text to the subject does not change what a pattern can consume -/
theorem L_frame (ci : Bool) (g : Pat) (hn : g.negFree = true) (r : List Char) :
    ∀ a' b', Pat.L ci g a' b' → ∀ a, a.rest = a'.rest ++ r → ∃ b, b.rest = b'.rest ++ r ∧ Pat.L ci g a b := by
  induction g with
  | eps => intro a' b' h a e; simp only [Pat.L] at h; subst h; exact ⟨a, e, rfl⟩
  | lit c => intro a' b' h a e; exact consume1_frame h a r e
  | any => intro a' b' h a e; exact consume1_frame h a r e
  | cls n i => intro a' b' h a e; exact consume1_frame h a r e
  | star =>
    intro a' b' h a e
    exact Iter.frame (fun x' y' hxy x ex => consume1_frame hxy x r ex) h a e
  | seq p q ihp ihq =>
    intro a' b' h a e
    simp only [Pat.negFree, Bool.and_eq_true] at hn
    obtain ⟨c', l1, l2⟩ := h
    obtain ⟨c, ec, hc⟩ := ihp hn.1 _ _ l1 a e
    obtain ⟨b, eb, hb⟩ := ihq hn.2 _ _ l2 c ec
    exact ⟨b, eb, c, hc, hb⟩
  | alt p q ihp ihq =>
    intro a' b' h a e
    simp only [Pat.negFree, Bool.and_eq_true] at hn
    rcases h with h | h
    · obtain ⟨b, eb, hb⟩ := ihp hn.1 _ _ h a e
      exact ⟨b, eb, Or.inl hb⟩
    · obtain ⟨b, eb, hb⟩ := ihq hn.2 _ _ h a e
      exact ⟨b, eb, Or.inr hb⟩
  | ext k p ih =>
    intro a' b' h a e
    cases k with
    | neg => simp [Pat.negFree] at hn
    | opt =>
      have ih' := ih (by simpa [Pat.negFree] using hn)
      rcases h with h | h
      · subst h; exact ⟨a, e, Or.inl rfl⟩
      · obtain ⟨b, eb, hb⟩ := ih' _ _ h a e
        exact ⟨b, eb, Or.inr hb⟩
    | star =>
      have ih' := ih (by simpa [Pat.negFree] using hn)
      exact Iter.frame (fun x' y' hxy x ex => ih' x' y' hxy x ex) h a e
    | plus =>
      have ih' := ih (by simpa [Pat.negFree] using hn)
      obtain ⟨c', l1, l2⟩ := h
      obtain ⟨c, ec, hc⟩ := ih' _ _ l1 a e
      obtain ⟨b, eb, hb⟩ := Iter.frame (fun x' y' hxy x ex => ih' x' y' hxy x ex) l2 c ec
      exact ⟨b, eb, c, hc, hb⟩
    | one =>
      have ih' := ih (by simpa [Pat.negFree] using hn)
      exact ih' _ _ h a e

theorem consume1_unframe {p : Char → Bool} {a b : St} (h : consume1 p a b) (a' : St) (r q : List Char)
    (e : a.rest = a'.rest ++ r) (eb : b.rest = q ++ r) : ∃ b', b'.rest = q ∧ consume1 p a' b' := by
  obtain ⟨d, s, e1, hp, rfl⟩ := h
  simp only at eb
  subst eb
  have : a'.rest = d :: q := by
    apply List.append_cancel_right (bs := r)
    rw [← e, e1]; simp
  exact ⟨⟨false, q⟩, rfl, d, q, this, hp, rfl⟩

theorem suf_unframe {m b : St} (h : St.Suf b m) {q r : List Char} (eb : b.rest = q ++ r) :
    ∃ qm, m.rest = qm ++ r := by
  obtain ⟨pre, e⟩ := h.pre
  exact ⟨pre ++ q, by rw [e, eb, List.append_assoc]⟩

theorem Iter.unframe {R : St → St → Prop} {r : List Char}
    (hs : ∀ x y, R x y → St.Suf y x)
    (hR : ∀ x y, R x y → ∀ x' q, x.rest = x'.rest ++ r → y.rest = q ++ r → ∃ y', y'.rest = q ∧ R x' y')
    {a b : St} (h : Iter R a b) :
    ∀ a' q, a.rest = a'.rest ++ r → b.rest = q ++ r → ∃ b', b'.rest = q ∧ Iter R a' b' := by
  induction h with
  | refl a =>
    intro a' q e eb
    have : a'.rest = q := List.append_cancel_right (e.symm.trans eb)
    exact ⟨a', this, Iter.refl a'⟩
  | step hab hbc ih =>
    intro a' q e eb
    obtain ⟨qm, em⟩ := suf_unframe (Iter.suf hs hbc) eb
    obtain ⟨m', em', hm'⟩ := hR _ _ hab a' qm e em
    obtain ⟨b', eb', hb'⟩ := ih m' q (by rw [em, em']) eb
    exact ⟨b', eb', Iter.step hm' hb'⟩

/-- … and removing unread text neither -/
theorem L_unframe (ci : Bool) (g : Pat) (hn : g.negFree = true) (r : List Char) :
    ∀ a b, Pat.L ci g a b → ∀ a' q, a.rest = a'.rest ++ r → b.rest = q ++ r →
      ∃ b', b'.rest = q ∧ Pat.L ci g a' b' := by
  induction g with
  | eps =>
    intro a b h a' q e eb
    simp only [Pat.L] at h; subst h
    exact ⟨a', List.append_cancel_right (e.symm.trans eb), rfl⟩
  | lit c => intro a b h a' q e eb; exact consume1_unframe h a' r q e eb
  | any => intro a b h a' q e eb; exact consume1_unframe h a' r q e eb
  | cls n i => intro a b h a' q e eb; exact consume1_unframe h a' r q e eb
  | star =>
    intro a b h a' q e eb
    exact Iter.unframe (fun _ _ hxy => consume1_suf hxy)
      (fun x y hxy x' q' ex ey => consume1_unframe hxy x' r q' ex ey) h a' q e eb
  | seq p q' ihp ihq =>
    intro a b h a' q e eb
    simp only [Pat.negFree, Bool.and_eq_true] at hn
    obtain ⟨c, l1, l2⟩ := h
    obtain ⟨qc, ec⟩ := suf_unframe (Pat.L_suf ci q' _ _ l2) eb
    obtain ⟨c', ec', hc'⟩ := ihp hn.1 _ _ l1 a' qc e ec
    obtain ⟨b', eb', hb'⟩ := ihq hn.2 _ _ l2 c' q (by rw [ec, ec']) eb
    exact ⟨b', eb', c', hc', hb'⟩
  | alt p q' ihp ihq =>
    intro a b h a' q e eb
    simp only [Pat.negFree, Bool.and_eq_true] at hn
    rcases h with h | h
    · obtain ⟨b', eb', hb'⟩ := ihp hn.1 _ _ h a' q e eb
      exact ⟨b', eb', Or.inl hb'⟩
    · obtain ⟨b', eb', hb'⟩ := ihq hn.2 _ _ h a' q e eb
      exact ⟨b', eb', Or.inr hb'⟩
  | ext k p ih =>
    intro a b h a' q e eb
    cases k with
    | neg => simp [Pat.negFree] at hn
    | opt =>
      have ih' := ih (by simpa [Pat.negFree] using hn)
      rcases h with h | h
      · subst h
        exact ⟨a', List.append_cancel_right (e.symm.trans eb), Or.inl rfl⟩
      · obtain ⟨b', eb', hb'⟩ := ih' _ _ h a' q e eb
        exact ⟨b', eb', Or.inr hb'⟩
    | star =>
      have ih' := ih (by simpa [Pat.negFree] using hn)
      exact Iter.unframe (Pat.L_suf ci p) (fun x y hxy x' q' ex ey => ih' x y hxy x' q' ex ey) h a' q e eb
    | plus =>
      have ih' := ih (by simpa [Pat.negFree] using hn)
      obtain ⟨c, l1, l2⟩ := h
      obtain ⟨qc, ec⟩ := suf_unframe (Iter.suf (Pat.L_suf ci p) l2) eb
      obtain ⟨c', ec', hc'⟩ := ih' _ _ l1 a' qc e ec
      obtain ⟨b', eb', hb'⟩ := Iter.unframe (Pat.L_suf ci p)
        (fun x y hxy x' q' ex ey => ih' x y hxy x' q' ex ey) l2 c' q (by rw [ec, ec']) eb
      exact ⟨b', eb', c', hc', hb'⟩
    | one =>
      have ih' := ih (by simpa [Pat.negFree] using hn)
      exact ih' _ _ h a' q e eb

/-- the text between two states is in the language of `g` iff `g` can consume it in place -/
theorem L_piece_iff (ci : Bool) (g : Pat) (hn : g.negFree = true) (a : St) (p r : List Char)
    (e : a.rest = p ++ r) :
    (∃ c, c.rest = r ∧ Pat.L ci g a c) ↔ g.Lang ci p := by
  unfold Pat.Lang
  constructor
  · rintro ⟨c, ec, hc⟩
    obtain ⟨b', eb', hb'⟩ := L_unframe ci g hn r a c hc ⟨true, p⟩ [] e (by simp [ec])
    rcases b' with ⟨f, br⟩
    simp only at eb'; subst eb'
    exact ⟨f, hb'⟩
  · rintro ⟨f, h⟩
    obtain ⟨b, eb, hb⟩ := L_frame ci g hn r _ _ h a e
    exact ⟨b, by simpa using eb, hb⟩

/-! ### under the rule `.free` the executable path specification is the documented language -/

theorem endsR_free (ci : Bool) (g : Pat) : ∀ a, Pat.endsR ci .free g a = Pat.ends ci g a := by
  induction g with
  | seq p q ihp ihq => intro a; simp only [Pat.endsR, Pat.ends, ihp, ihq]
  | alt p q ihp ihq => intro a; simp only [Pat.endsR, Pat.ends, ihp, ihq]
  | ext k p ih =>
    intro a
    cases k <;> simp [Pat.endsR, Pat.ends, ih]
  | _ => intro a; simp [Pat.endsR, Pat.ends]

theorem langR_free_iff (ci : Bool) (g : Pat) (s : List Char) :
    g.langR ci .free s = true ↔ g.Lang ci s := by
  rw [← Pat.langB_iff]
  unfold Pat.langR Pat.langB
  rw [endsR_free]

theorem segMatch_free (ctx : PCtx) (g : Pat) (x : List Char) :
    segMatch ctx .free g x = g.langR ctx.ci .free x := by
  unfold segMatch
  split
  · split <;> rfl
  · rfl


/-! ### cutting a path into pieces -/

def allSl (l : List Char) : Bool := l.all (fun d => d == '/')

theorem cutAtSlash_cons_slash (r : List Char) : cutAtSlash ('/' :: r) = [] :: cutAtSlash r := by
  simp [cutAtSlash]

theorem cutAtSlash_cons_ne (c : Char) (hc : c ≠ '/') (r : List Char) (h : List Char) (t : List (List Char))
    (e : cutAtSlash r = h :: t) : cutAtSlash (c :: r) = (c :: h) :: t := by
  simp only [cutAtSlash, List.cons.injEq] at e
  simp [cutAtSlash, hc, e.1, e.2]

theorem cutAtSlash_piece (p r : List Char) (hp : '/' ∉ p) :
    cutAtSlash (p ++ '/' :: r) = p :: cutAtSlash r := by
  induction p with
  | nil => exact cutAtSlash_cons_slash r
  | cons x p ih =>
    simp only [List.mem_cons, not_or] at hp
    exact cutAtSlash_cons_ne x (Ne.symm hp.1) _ _ _ (ih hp.2)

theorem cutAtSlash_last (p : List Char) (hp : '/' ∉ p) : cutAtSlash p = [p] := by
  induction p with
  | nil => rfl
  | cons x p ih =>
    simp only [List.mem_cons, not_or] at hp
    exact cutAtSlash_cons_ne x (Ne.symm hp.1) _ _ _ (ih hp.2)

theorem pieces_nil : pieces [] = [] := rfl

theorem pieces_slash (r : List Char) : pieces ('/' :: r) = pieces r := by
  simp [pieces, cutAtSlash_cons_slash]

theorem pieces_piece (p r : List Char) (hp : '/' ∉ p) (hne : p ≠ []) :
    pieces (p ++ '/' :: r) = p :: pieces r := by
  simp [pieces, cutAtSlash_piece p r hp, hne]

theorem pieces_last (p : List Char) (hp : '/' ∉ p) (hne : p ≠ []) : pieces p = [p] := by
  simp [pieces, cutAtSlash_last p hp, hne]

theorem pieces_append (p r : List Char) (hp : '/' ∉ p) (hne : p ≠ []) (hr : AtSep r) :
    pieces (p ++ r) = p :: pieces r := by
  rcases hr with rfl | ⟨r', rfl⟩
  · simp [pieces_last p hp hne, pieces_nil]
  · rw [pieces_piece p r' hp hne, pieces_slash]

theorem pieces_allSl_append (pre r : List Char) (h : allSl pre = true) : pieces (pre ++ r) = pieces r := by
  induction pre with
  | nil => rfl
  | cons x pre ih =>
    simp only [allSl, List.all_cons, Bool.and_eq_true, beq_iff_eq] at h
    obtain ⟨rfl, h2⟩ := h
    rw [List.cons_append, pieces_slash]
    exact ih h2

theorem pieces_allSl (r : List Char) (h : allSl r = true) : pieces r = [] := by
  have := pieces_allSl_append r [] h
  simpa [pieces_nil] using this

/-- every path is a separator-free prefix followed by nothing or a separator -/
theorem piece_decomp (t : List Char) : ∃ p r, t = p ++ r ∧ '/' ∉ p ∧ AtSep r := by
  induction t with
  | nil => exact ⟨[], [], rfl, by simp, Or.inl rfl⟩
  | cons x t ih =>
    by_cases hx : x = '/'
    · subst hx
      exact ⟨[], '/' :: t, rfl, by simp, Or.inr ⟨t, rfl⟩⟩
    · obtain ⟨p, r, e, hp, hr⟩ := ih
      refine ⟨x :: p, r, by simp [e], ?_, hr⟩
      simp only [List.mem_cons, not_or]
      exact ⟨Ne.symm hx, hp⟩

/-- every text is a run of separators followed by something that does not begin with one -/
theorem slash_decomp (r : List Char) : ∃ pre r', r = pre ++ r' ∧ allSl pre = true ∧ r'.head? ≠ some '/' := by
  induction r with
  | nil => exact ⟨[], [], rfl, rfl, by simp⟩
  | cons x r ih =>
    by_cases hx : x = '/'
    · subst hx
      obtain ⟨pre, r', e, hp, hr⟩ := ih
      exact ⟨'/' :: pre, r', by simp [e], by simpa [allSl] using hp, hr⟩
    · exact ⟨[], x :: r, rfl, rfl, by simp [hx]⟩

theorem allSl_of_pieces_nil (r : List Char) (h : pieces r = []) : allSl r = true := by
  induction r using List.rec with
  | nil => rfl
  | cons x r ih =>
    by_cases hx : x = '/'
    · subst hx
      rw [pieces_slash] at h
      simpa [allSl] using ih h
    · exfalso
      obtain ⟨p, r', e, hp, hr⟩ := piece_decomp (x :: r)
      have hne : p ≠ [] := by
        rintro rfl
        rcases hr with rfl | ⟨r'', rfl⟩
        · simp at e
        · simp at e; exact hx e.1
      rw [e, pieces_append p r' hp hne hr] at h
      simp at h

theorem head_not_slash_of_piece (p r : List Char) (hp : '/' ∉ p) (hne : p ≠ []) :
    (p ++ r).head? ≠ some '/' := by
  cases p with
  | nil => exact absurd rfl hne
  | cons x p =>
    simp only [List.mem_cons, not_or] at hp
    simp [Ne.symm hp.1]

theorem allSl_head (r : List Char) (h : allSl r = true) : AtSep r := by
  cases r with
  | nil => exact Or.inl rfl
  | cons x r =>
    simp only [allSl, List.all_cons, Bool.and_eq_true, beq_iff_eq] at h
    exact Or.inr ⟨r, by rw [h.1]⟩

theorem allSl_getLast (r : List Char) (h : allSl r = true) (hne : r ≠ []) : r.getLast? = some '/' := by
  have : r.getLast hne = '/' := by
    have hm := List.getLast_mem hne
    simp only [allSl, List.all_eq_true, beq_iff_eq] at h
    exact h _ hm
  rw [List.getLast?_eq_some_getLast hne, this]

theorem getLast_append_ne (p r : List Char) (hr : r ≠ []) : (p ++ r).getLast? = r.getLast? := by
  rw [List.getLast?_append]
  cases h : r.getLast? with
  | none => simp [List.getLast?_eq_none_iff] at h; exact absurd h hr
  | some x => rfl

theorem getLast_piece_ne_slash (p : List Char) (hp : '/' ∉ p) : p.getLast? ≠ some '/' := by
  intro h
  exact hp (List.mem_of_getLast? h)

/-- two ways of cutting the same text at its first separator agree -/
theorem piece_unique {p1 p2 r1 r2 : List Char} (h1 : '/' ∉ p1) (h2 : '/' ∉ p2) (a1 : AtSep r1) (a2 : AtSep r2)
    (e : p1 ++ r1 = p2 ++ r2) : p1 = p2 ∧ r1 = r2 := by
  induction p1 generalizing p2 with
  | nil =>
    cases p2 with
    | nil => exact ⟨rfl, by simpa using e⟩
    | cons y p2 =>
      exfalso
      simp only [List.mem_cons, not_or] at h2
      rcases a1 with rfl | ⟨r', rfl⟩
      · simp at e
      · simp at e; exact h2.1 e.1
  | cons x p1 ih =>
    simp only [List.mem_cons, not_or] at h1
    cases p2 with
    | nil =>
      exfalso
      rcases a2 with rfl | ⟨r', rfl⟩
      · simp at e
      · simp at e; exact h1.1 e.1.symm
    | cons y p2 =>
      simp only [List.mem_cons, not_or] at h2
      simp only [List.cons_append, List.cons.injEq] at e
      obtain ⟨e1, e2⟩ := ih h1.2 h2.2 e.2
      exact ⟨by rw [e.1, e1], e2⟩


/-! ### separators in the regex -/

theorem iter_sl_all {a b : St} (h : Iter (consume1 (fun d => d == '/')) a b) :
    ∃ pre, a.rest = pre ++ b.rest ∧ allSl pre = true := iter_consume_all h

/-- `[/]+` consumes a non-empty run of separators -/
theorem M_sepPlus_iff (md : Mode) (a c : St) :
    Re.M md (Frag.sepPlus false) a c ↔
      c.atStart = false ∧ ∃ pre, pre ≠ [] ∧ allSl pre = true ∧ a.rest = pre ++ c.rest := by
  rw [sepPlus_sem]
  constructor
  · rintro ⟨m, h1, h2⟩
    obtain ⟨d, s, e1, hd, rfl⟩ := h1
    simp only [beq_iff_eq] at hd
    subst hd
    obtain ⟨pre, e2, hp⟩ := iter_sl_all h2
    simp only at e2
    refine ⟨?_, '/' :: pre, by simp, by simpa [allSl] using hp, by simp [e1, e2]⟩
    rcases Iter.suf (fun _ _ h => consume1_suf h) h2 with rfl | ⟨hf, _⟩
    · rfl
    · exact hf
  · rintro ⟨hf, pre, hne, hp, e⟩
    cases pre with
    | nil => exact absurd rfl hne
    | cons x pre =>
      simp only [allSl, List.all_cons, Bool.and_eq_true, beq_iff_eq] at hp
      obtain ⟨rfl, hp2⟩ := hp
      refine ⟨⟨false, pre ++ c.rest⟩, ⟨'/', pre ++ c.rest, by simpa using e, rfl, rfl⟩, ?_⟩
      rcases c with ⟨cf, cr⟩
      simp only at hf; subst hf
      cases pre with
      | nil => exact Iter.refl _
      | cons y pre' => exact iter_of_all false (y :: pre') cr (by simp) hp2

/-- `[/]*?` up to the end of the subject: only separators are left -/
theorem M_pathTrail_end (md : Mode) (a : St) :
    (∃ y, y.rest = [] ∧ Re.M md (Frag.pathTrail false) a y) ↔ allSl a.rest = true := by
  simp only [Frag.pathTrail, Re.M.eq_11]
  constructor
  · rintro ⟨y, hy, h⟩
    have h' := (Iter.congr (fun x y => M_sep md x y)).mp h
    obtain ⟨pre, e, hp⟩ := iter_sl_all h'
    rw [e, hy]; simpa using hp
  · intro h
    rcases a with ⟨af, ar⟩
    cases ar with
    | nil => exact ⟨⟨af, []⟩, rfl, Iter.refl _⟩
    | cons x xs =>
      refine ⟨⟨false, []⟩, rfl, (Iter.congr (fun x y => M_sep md x y)).mpr ?_⟩
      have := iter_of_all (p := fun d => d == '/') af (x :: xs) [] (by simp) h
      simpa using this

/-- the end of every compiled path pattern: the pending separator, then `_PATH_TRAIL` -/
theorem M_end_iff (md : Mode) (sb : Bool) (a : St) :
    (∃ y, y.rest = [] ∧ Re.M md (sepIf sb (Frag.pathTrail false)) a y) ↔
      (allSl a.rest = true ∧ (sb = true → a.rest ≠ [])) := by
  cases sb with
  | false =>
    simp only [sepIf, Bool.false_eq_true, ite_false, false_implies, and_true]
    exact M_pathTrail_end md a
  | true =>
    simp only [sepIf, ite_true, Re.M.eq_5, forall_const]
    constructor
    · rintro ⟨y, hy, c, h1, h2⟩
      obtain ⟨_, pre, hne, hp, e⟩ := (M_sepPlus_iff md a c).mp h1
      have hc := (M_pathTrail_end md c).mp ⟨y, hy, h2⟩
      refine ⟨?_, ?_⟩
      · rw [e]
        simp only [allSl, List.all_append, Bool.and_eq_true] at hp hc ⊢
        exact ⟨hp, hc⟩
      · rw [e]; simp [hne]
    · rintro ⟨hall, hne⟩
      cases hr : a.rest with
      | nil => exact absurd hr hne
      | cons x xs =>
        rw [hr] at hall
        simp only [allSl, List.all_cons, Bool.and_eq_true, beq_iff_eq] at hall
        obtain ⟨rfl, hxs⟩ := hall
        obtain ⟨y, hy, h2⟩ := (M_pathTrail_end md ⟨false, xs⟩).mpr hxs
        exact ⟨y, hy, ⟨false, xs⟩, (M_sepPlus_iff md a _).mpr ⟨rfl, ['/'], by simp, rfl, by simp [hr]⟩, h2⟩

/-- a written separator followed by `R` -/
theorem M_sepThen_iff (md : Mode) (R : Re) (a : St) :
    (∃ y, y.rest = [] ∧ Re.M md (.cat (Frag.sepPlus false) R) a y) ↔
      ∃ pre r', pre ≠ [] ∧ allSl pre = true ∧ a.rest = pre ++ r' ∧
        ∃ y, y.rest = [] ∧ Re.M md R ⟨false, r'⟩ y := by
  simp only [Re.M.eq_5]
  constructor
  · rintro ⟨y, hy, c, h1, h2⟩
    obtain ⟨hf, pre, hne, hp, e⟩ := (M_sepPlus_iff md a c).mp h1
    rcases c with ⟨cf, cr⟩
    simp only at hf; subst hf
    exact ⟨pre, cr, hne, hp, e, y, hy, h2⟩
  · rintro ⟨pre, r', hne, hp, e, y, hy, h2⟩
    exact ⟨y, hy, ⟨false, r'⟩, (M_sepPlus_iff md a _).mpr ⟨rfl, pre, hne, hp, e⟩, h2⟩

/-! ### the start conditions, from the shape of the subject -/

theorem IterN.one_inv {R : St → St → Prop} {a b : St} (h : IterN R 1 a b) : R a b := by
  cases h with
  | succ hab hbc => cases hbc; exact hab

theorem IterN.two_inv {R : St → St → Prop} {a b : St} (h : IterN R 2 a b) : ∃ m, R a m ∧ R m b := by
  cases h with
  | succ hab hbc => exact ⟨_, hab, IterN.one_inv hbc⟩

/-- `_NO_DIR` lets a visible piece through (given D3p: `$` must not stand before a final newline) -/
theorem noDirOK_of_piece (md : Mode) (dot : Bool) (a : St) (p r : List Char)
    (e : a.rest = p ++ r) (hsl : '/' ∉ p) (hne : p ≠ []) (hr : AtSep r)
    (hvis : visible dot p = true) (hnl : dot = false ∨ a.rest.getLast? ≠ some '\n') : NoDirOK md a := by
  rintro ⟨c, hc⟩
  simp only [Re.M.eq_5, Re.M.eq_7, Re.M.eq_13, Frag.pathEop, Re.M.eq_6] at hc
  obtain ⟨m, ⟨n, h1, h2, hit⟩, heop⟩ := hc
  -- the dots that were consumed
  have hdots : ∃ dots, (dots = ['.'] ∨ dots = ['.', '.']) ∧ a.rest = dots ++ m.rest := by
    have hn : n = 1 ∨ n = 2 := by omega
    rcases hn with rfl | rfl
    · obtain ⟨d, s, e1, hd, rfl⟩ := (M_lit_dot md _ _).mp (IterN.one_inv hit)
      simp only [beq_iff_eq] at hd; subst hd
      exact ⟨['.'], Or.inl rfl, by simp [e1]⟩
    · obtain ⟨x, hx1, hx2⟩ := IterN.two_inv hit
      obtain ⟨d, s, e1, hd, rfl⟩ := (M_lit_dot md _ _).mp hx1
      obtain ⟨d', s', e1', hd', rfl⟩ := (M_lit_dot md _ _).mp hx2
      simp only [beq_iff_eq] at hd hd'; subst hd; subst hd'
      simp only at e1'
      exact ⟨['.', '.'], Or.inr rfl, by simp [e1, e1']⟩
  obtain ⟨dots, hd, ed⟩ := hdots
  have hdsl : '/' ∉ dots := by rcases hd with rfl | rfl <;> simp
  have hdd : isDotDir dots = true := by rcases hd with rfl | rfl <;> decide
  have hphead : p.head? = some '.' := by
    have : (p ++ r).head? = some '.' := by
      rw [← e, ed]; rcases hd with rfl | rfl <;> rfl
    cases p with
    | nil => exact absurd rfl hne
    | cons x p' => simpa using this
  have hm : m.rest = [] ∨ m.rest = ['\n'] ∨ ∃ r', m.rest = '/' :: r' := by
    rcases heop with h | h
    · simp only [Re.M.eq_17] at h
      have := h.2
      unfold atEos at this
      simp only [Bool.or_eq_true, beq_iff_eq] at this
      rcases this with h' | h'
      · exact Or.inl h'
      · exact Or.inr (Or.inl h')
    · obtain ⟨d, s, e1, hd', _⟩ := (M_sep md _ _).mp h
      simp only [beq_iff_eq] at hd'; subst hd'
      exact Or.inr (Or.inr ⟨s, e1⟩)
  have hvis' : isDotDir p = false ∧ (dot = true ∨ p.head? ≠ some '.') := by
    simp only [visible, Bool.and_eq_true, Bool.not_eq_true', Bool.or_eq_true, bne_iff_ne, ne_eq] at hvis
    exact hvis
  rcases hm with hm | hm | ⟨r', hm⟩
  · -- `.` / `..` at the very end
    have := piece_unique hsl hdsl hr (Or.inl rfl) (by rw [← e, ed, hm])
    rw [this.1, hdd] at hvis'
    exact absurd hvis'.1 (by simp)
  · -- `.⏎` / `..⏎` : excluded by the newline hypothesis
    rcases hvis'.2 with hdot | hnd
    · rcases hnl with h | h
      · simp [hdot] at h
      · apply h
        rw [ed, hm]
        rcases hd with rfl | rfl <;> rfl
    · exact hnd hphead
  · have := piece_unique hsl hdsl hr (Or.inr ⟨r', rfl⟩) (by rw [← e, ed, hm])
    rw [this.1, hdd] at hvis'
    exact absurd hvis'.1 (by simp)

theorem pstart_of_piece (md : Mode) (dot : Bool) (a : St) (p r : List Char)
    (e : a.rest = p ++ r) (hsl : '/' ∉ p) (hne : p ≠ []) (hr : AtSep r)
    (hvis : visible dot p = true) (hnl : dot = false ∨ a.rest.getLast? ≠ some '\n') : PStart dot md a := by
  refine ⟨?_, ?_, noDirOK_of_piece md dot a p r e hsl hne hr hvis hnl⟩
  · cases p with
    | nil => exact absurd rfl hne
    | cons x p' =>
      simp only [List.mem_cons, not_or] at hsl
      exact ⟨x, p' ++ r, by simp [e], Ne.symm hsl.1⟩
  · intro hd
    simp only [visible, Bool.and_eq_true, Bool.not_eq_true', Bool.or_eq_true, bne_iff_ne, ne_eq, hd,
      Bool.false_eq_true, false_or] at hvis
    cases p with
    | nil => exact absurd rfl hne
    | cons x p' =>
      simp only [e, List.cons_append, List.head?_cons]
      simpa using hvis.2

/-- the hypotheses on the subject: every piece may be matched by wildcards (C03 is about the
    others), and — only under DOTGLOB, where `_NO_DIR` tests `$` — no final newline (D3p) -/
def Vis (dot : Bool) (t : List Char) : Prop :=
  (∀ p ∈ pieces t, visible dot p = true) ∧ (dot = false ∨ t.getLast? ≠ some '\n')

theorem Vis.tail {dot : Bool} {x r : List Char} (h : Vis dot (x ++ r))
    (hsub : ∀ p ∈ pieces r, p ∈ pieces (x ++ r)) : Vis dot r := by
  refine ⟨fun p hp => h.1 p (hsub p hp), ?_⟩
  rcases h.2 with h2 | h2
  · exact Or.inl h2
  · right
    cases r with
    | nil => simp
    | cons y ys => rwa [getLast_append_ne x (y :: ys) (by simp)] at h2


/-! ### one segment followed by the rest of the pattern -/

/-- what follows a segment in a compiled pattern can only start at a separator or at the end -/
def RTail (md : Mode) (R : Re) : Prop := ∀ c y, Re.M md R c y → y.rest = [] → AtSep c.rest

theorem RTail_end (md : Mode) (sb : Bool) : RTail md (sepIf sb (Frag.pathTrail false)) :=
  fun c y h hy => allSl_head _ ((M_end_iff md sb c).mp ⟨y, hy, h⟩).1

theorem RTail_sep (md : Mode) (R : Re) : RTail md (.cat (Frag.sepPlus false) R) := by
  intro c y h _
  rw [Re.M.eq_5] at h
  obtain ⟨m, h1, _⟩ := h
  obtain ⟨_, pre, hne, hp, e⟩ := (M_sepPlus_iff md c m).mp h1
  cases pre with
  | nil => exact absurd rfl hne
  | cons x pre =>
    simp only [allSl, List.all_cons, Bool.and_eq_true, beq_iff_eq] at hp
    exact Or.inr ⟨pre ++ m.rest, by rw [e, hp.1]; rfl⟩

theorem segScope_iff (g : Pat) : g.segScope = true ↔
    (g.negFree = true ∧ g.noSlash = true ∧ g.startSafe false = true ∧ g.solid true = true) := by
  simp [Pat.segScope, and_assoc]

/-- **a segment consumes exactly one non-empty piece, in its language** -/
theorem M_segThen_iff (dot ci : Bool) (g : Pat) (hg : g.segScope = true) (R : Re)
    (hR : RTail ⟨true, ci⟩ R) (a : St) (hv : Vis dot a.rest) :
    (∃ y, y.rest = [] ∧ Re.M ⟨true, ci⟩ (.cat (compSeg dot true g) R) a y) ↔
      ∃ p r, a.rest = p ++ r ∧ p ≠ [] ∧ '/' ∉ p ∧ AtSep r ∧ g.Lang ci p ∧
        ∃ y, y.rest = [] ∧ Re.M ⟨true, ci⟩ R ⟨false, r⟩ y := by
  obtain ⟨hn, hs, hst, hnull⟩ := (segScope_iff g).mp hg
  rw [show (∃ y, y.rest = [] ∧ Re.M ⟨true, ci⟩ (.cat (compSeg dot true g) R) a y) ↔
      (∃ y, y.rest = [] ∧ ∃ c, Re.M ⟨true, ci⟩ (compSeg dot true g) a c ∧ Re.M ⟨true, ci⟩ R c y) by
    simp only [Re.M.eq_5]]
  constructor
  · rintro ⟨y, hy, c, h1, h2⟩
    obtain ⟨l, pre, e, n⟩ := compSeg_sound dot ci g hn hs true a c h1
    have hlen : c.rest.length < a.rest.length := by
      rcases compSeg_solid dot ci g hn hs true hnull a c h1 with hlt | ⟨rfl, hna⟩
      · exact hlt
      · exact absurd (hR c y h2 hy) hna
    have hpre : pre ≠ [] := by
      rintro rfl
      simp at e; rw [e] at hlen; omega
    have hf : c.atStart = false := by
      rcases Pat.L_suf ci g a c l with rfl | ⟨hf, _⟩
      · omega
      · exact hf
    have hc : c = ⟨false, c.rest⟩ := by rcases c with ⟨cf, cr⟩; simp only at hf; rw [hf]
    refine ⟨pre, c.rest, e, hpre, n, hR c y h2 hy, (L_piece_iff ci g hn a pre c.rest e).mp ⟨c, rfl, l⟩,
      y, hy, ?_⟩
    rw [← hc]; exact h2
  · rintro ⟨p, r, e, hne, hsl, hr, hlang, y, hy, h2⟩
    obtain ⟨c, ec, hc⟩ := (L_piece_iff ci g hn a p r e).mpr hlang
    have hmem : p ∈ pieces a.rest := by rw [e, pieces_append p r hsl hne hr]; exact List.mem_cons_self
    have hps := pstart_of_piece ⟨true, ci⟩ dot a p r e hsl hne hr (hv.1 p hmem) hv.2
    have hM := compSeg_true_complete dot ci g hn hst a c hps hc ⟨p, by rw [e, ec], hsl⟩
    have hf : c.atStart = false := by
      rcases Pat.L_suf ci g a c hc with rfl | ⟨hf, _⟩
      · exfalso
        have := congrArg List.length e
        rw [ec] at this
        simp at this
        exact hne this
      · exact hf
    have hc' : c = ⟨false, r⟩ := by rcases c with ⟨cf, cr⟩; simp only at hf ec; rw [hf, ec]
    exact ⟨y, hy, c, hM, hc' ▸ h2⟩

/-! ### the list of segments -/

theorem pathRe_one (dot tr : Bool) (g : Pat) :
    pathRe dot tr [.pat g] false = .cat (compSeg dot true g) (sepIf tr (Frag.pathTrail false)) := by
  simp [pathRe, sepIf]

theorem pathRe_cons2 (dot tr : Bool) (g g2 : Pat) (rest : List Seg) :
    pathRe dot tr (.pat g :: .pat g2 :: rest) false =
      .cat (compSeg dot true g) (.cat (Frag.sepPlus false) (pathRe dot tr (.pat g2 :: rest) false)) := by
  simp [pathRe, sepIf]

theorem pathRe_true (dot tr : Bool) (g : Pat) (rest : List Seg) :
    pathRe dot tr (.pat g :: rest) true = .cat (Frag.sepPlus false) (pathRe dot tr (.pat g :: rest) false) := by
  simp [pathRe, sepIf]

theorem segsMatch_pat_asep (ctx : PCtx) (r : DotRule) (gs : List Pat) (xs : List (List Char)) (pt ptr a1 a2 : Bool) :
    segsMatch ctx r (gs.map .pat) xs pt ptr a1 = segsMatch ctx r (gs.map .pat) xs pt ptr a2 := by
  cases gs with
  | nil => simp [segsMatch]
  | cons g gs =>
    cases xs with
    | nil => simp [segsMatch]
    | cons x xs => simp [segsMatch]

theorem segsMatch_pat_nil (ctx : PCtx) (r : DotRule) (g : Pat) (ss : List Seg) (pt ptr a1 : Bool) :
    segsMatch ctx r (.pat g :: ss) [] pt ptr a1 = false := by
  simp [segsMatch]

theorem segsMatch_pat_cons (ctx : PCtx) (r : DotRule) (g : Pat) (ss : List Seg) (x : List Char)
    (xs : List (List Char)) (pt ptr a1 : Bool) :
    segsMatch ctx r (.pat g :: ss) (x :: xs) pt ptr a1 =
      (segMatch ctx r g x && segsMatch ctx r ss xs pt ptr true) := by
  simp [segsMatch]

theorem segsMatch_nil (ctx : PCtx) (r : DotRule) (xs : List (List Char)) (pt ptr a1 : Bool) :
    segsMatch ctx r [] xs pt ptr a1 = (xs.isEmpty && (!pt || ptr)) := by
  simp [segsMatch]

/-- **the segments of a globstar-free pattern against the pieces of the subject**: from a
    position where a segment is expected, the compiled pattern reaches the end of the subject iff
    the subject does not continue with a separator and the executable specification accepts -/
theorem pathRe_pats_sem (ctx : PCtx) (tr : Bool) (gs : List Pat) (hne : gs ≠ [])
    (hgs : ∀ g ∈ gs, g.segScope = true) :
    ∀ (a : St) (asep : Bool), Vis ctx.dot a.rest →
      ((∃ y, y.rest = [] ∧ Re.M ⟨true, ctx.ci⟩ (pathRe ctx.dot tr (gs.map .pat) false) a y) ↔
        (a.rest.head? ≠ some '/' ∧
          segsMatch ctx .free (gs.map .pat) (pieces a.rest) tr (decide (a.rest.getLast? = some '/')) asep = true)) := by
  induction gs with
  | nil => exact absurd rfl hne
  | cons g rest ih =>
    have hg := hgs g List.mem_cons_self
    have hn : g.negFree = true := ((segScope_iff g).mp hg).1
    cases rest with
    | nil =>
      -- the last segment
      intro a asep hv
      simp only [List.map_cons, List.map_nil]
      rw [pathRe_one, M_segThen_iff ctx.dot ctx.ci g hg _ (RTail_end _ tr) a hv]
      constructor
      · rintro ⟨p, r, e, hpne, hsl, hr, hlang, hend⟩
        obtain ⟨hall, htr⟩ := (M_end_iff _ tr ⟨false, r⟩).mp hend
        simp only at hall htr
        refine ⟨e ▸ head_not_slash_of_piece p r hsl hpne, ?_⟩
        rw [e, pieces_append p r hsl hpne hr, pieces_allSl r hall, segsMatch_pat_cons, segsMatch_nil,
          segMatch_free, (langR_free_iff ctx.ci g p).mpr hlang]
        simp only [List.isEmpty_nil, Bool.true_and, Bool.or_eq_true, Bool.not_eq_true', decide_eq_true_eq]
        cases htr' : tr with
        | false => exact Or.inl rfl
        | true =>
          right
          have hrne := htr htr'
          rw [getLast_append_ne p r hrne]
          exact allSl_getLast r hall hrne
      · rintro ⟨hhead, hsm⟩
        obtain ⟨p, r, e, hsl, hr⟩ := piece_decomp a.rest
        have hpne : p ≠ [] := by
          rintro rfl
          rcases hr with rfl | ⟨r', rfl⟩
          · simp only [List.append_nil] at e
            rw [e, pieces_nil, segsMatch_pat_nil] at hsm
            exact absurd hsm (by simp)
          · simp [e] at hhead
        rw [e, pieces_append p r hsl hpne hr, segsMatch_pat_cons, segsMatch_nil, segMatch_free] at hsm
        simp only [Bool.and_eq_true, List.isEmpty_iff, Bool.or_eq_true, Bool.not_eq_true',
          decide_eq_true_eq] at hsm
        obtain ⟨hlang, hnil, htr⟩ := hsm
        have hall := allSl_of_pieces_nil r hnil
        refine ⟨p, r, e, hpne, hsl, hr, (langR_free_iff ctx.ci g p).mp hlang,
          (M_end_iff _ tr ⟨false, r⟩).mpr ⟨hall, ?_⟩⟩
        intro htr' hr0
        simp only at hr0
        rcases htr with htr | htr
        · rw [htr] at htr'; exact absurd htr' (by simp)
        · rw [hr0, List.append_nil] at htr
          exact getLast_piece_ne_slash p hsl htr
    | cons g2 rest2 =>
      have ih' := ih (by simp) (fun g' hg' => hgs g' (List.mem_cons_of_mem _ hg'))
      intro a asep hv
      simp only [List.map_cons] at ih' ⊢
      rw [pathRe_cons2, M_segThen_iff ctx.dot ctx.ci g hg _ (RTail_sep _ _) a hv]
      constructor
      · rintro ⟨p, r, e, hpne, hsl, hr, hlang, hrest⟩
        obtain ⟨pre, r', hprene, hpre, er, hrest'⟩ := (M_sepThen_iff _ _ ⟨false, r⟩).mp hrest
        simp only at er
        have hpc : pieces a.rest = p :: pieces r' := by
          rw [e, pieces_append p r hsl hpne hr, er, pieces_allSl_append pre r' hpre]
        have hv' : Vis ctx.dot r' := by
          have : a.rest = (p ++ pre) ++ r' := by rw [e, er, List.append_assoc]
          apply Vis.tail (x := p ++ pre) (this ▸ hv)
          intro q hq
          rw [← this, hpc]; exact List.mem_cons_of_mem _ hq
        obtain ⟨hh', hsm'⟩ := (ih' ⟨false, r'⟩ true hv').mp hrest'
        simp only at hh' hsm'
        refine ⟨e ▸ head_not_slash_of_piece p r hsl hpne, ?_⟩
        have hr'ne : r' ≠ [] := by
          rintro rfl
          rw [pieces_nil, segsMatch_pat_nil] at hsm'
          exact absurd hsm' (by simp)
        have hlast : a.rest.getLast? = r'.getLast? := by
          rw [e, er, ← List.append_assoc]; exact getLast_append_ne _ r' hr'ne
        rw [hpc, segsMatch_pat_cons, segMatch_free, (langR_free_iff ctx.ci g p).mpr hlang, hlast]
        simpa using hsm'
      · rintro ⟨hhead, hsm⟩
        obtain ⟨p, r, e, hsl, hr⟩ := piece_decomp a.rest
        have hpne : p ≠ [] := by
          rintro rfl
          rcases hr with rfl | ⟨r', rfl⟩
          · simp only [List.append_nil] at e
            rw [e, pieces_nil, segsMatch_pat_nil] at hsm
            exact absurd hsm (by simp)
          · simp [e] at hhead
        obtain ⟨pre, r', er, hpre, hr'head⟩ := slash_decomp r
        have hpc : pieces a.rest = p :: pieces r' := by
          rw [e, pieces_append p r hsl hpne hr, er, pieces_allSl_append pre r' hpre]
        rw [hpc, segsMatch_pat_cons, segMatch_free] at hsm
        simp only [Bool.and_eq_true] at hsm
        obtain ⟨hlang, hsm'⟩ := hsm
        have hr'ne : r' ≠ [] := by
          rintro rfl
          rw [pieces_nil, segsMatch_pat_nil] at hsm'
          exact absurd hsm' (by simp)
        have hprene : pre ≠ [] := by
          rintro rfl
          simp only [List.nil_append] at er
          subst er
          rcases hr with rfl | ⟨r'', rfl⟩
          · exact hr'ne rfl
          · simp at hr'head
        have hlast : a.rest.getLast? = r'.getLast? := by
          rw [e, er, ← List.append_assoc]; exact getLast_append_ne _ r' hr'ne
        have hv' : Vis ctx.dot r' := by
          have : a.rest = (p ++ pre) ++ r' := by rw [e, er, List.append_assoc]
          apply Vis.tail (x := p ++ pre) (this ▸ hv)
          intro q hq
          rw [← this, hpc]; exact List.mem_cons_of_mem _ hq
        rw [hlast] at hsm'
        have hrest' := (ih' ⟨false, r'⟩ true hv').mpr ⟨hr'head, hsm'⟩
        exact ⟨p, r, e, hpne, hsl, hr, (langR_free_iff ctx.ci g p).mp hlang,
          (M_sepThen_iff _ _ ⟨false, r⟩).mpr ⟨pre, r', hprene, hpre, er, hrest'⟩⟩


/-! ### whole patterns -/

theorem wrapRe_fullmatch (ci : Bool) (r : Re) (s : List Char) :
    (wrapRe ci r).FullMatch s ↔ ∃ y, y.rest = [] ∧ Re.M ⟨true, ci⟩ r ⟨true, s⟩ y := by
  unfold wrapRe Re.FullMatch
  simp only [Re.M]
  constructor
  · rintro ⟨b, c, ⟨rfl, _⟩, c', h, rfl, _⟩
    exact ⟨_, rfl, h⟩
  · rintro ⟨⟨f, yr⟩, hy, h⟩
    simp only at hy; subst hy
    exact ⟨f, _, ⟨rfl, trivial⟩, _, h, rfl, by simp [atEos]⟩

theorem segs_all_pat (segs : List Seg) (h : segs.all Seg.patScope = true) :
    ∃ gs : List Pat, segs = gs.map .pat ∧ ∀ g ∈ gs, g.segScope = true := by
  induction segs with
  | nil => exact ⟨[], rfl, by simp⟩
  | cons s ss ih =>
    simp only [List.all_cons, Bool.and_eq_true] at h
    obtain ⟨gs, e, hgs⟩ := ih h.2
    cases s with
    | glob => simp [Seg.patScope] at h
    | pat g =>
      refine ⟨g :: gs, by simp [e], ?_⟩
      intro g' hg'
      simp only [List.mem_cons] at hg'
      rcases hg' with rfl | hg'
      · simpa [Seg.patScope] using h.1
      · exact hgs g' hg'

theorem pathLangR_pats (ctx : PCtx) (r : DotRule) (abs tr : Bool) (gs : List Pat) (path : List Char) :
    pathLangR ctx r ⟨abs, gs.map .pat, tr⟩ path =
      ((if abs then decide (path.head? = some '/') else !decide (path.head? = some '/')) &&
       segsMatch ctx r (gs.map .pat) (pieces path) tr (decide (path.getLast? = some '/')) abs) := by
  unfold pathLangR pieces
  cases gs <;> cases abs <;> simp

/-- **semantics of the tidy path compiler, globstar-free patterns** -/
theorem compPath_globfree_sem (ctx : PCtx) (pp : PathPat)
    (hsc : pp.segs.all Seg.patScope = true) (hwf : pp.segs = [] → pp.abs = true)
    (s : List Char) (hv : Vis ctx.dot s) :
    (wrapRe ctx.ci (compPath ctx.dot pp)).FullMatch s ↔ pathLangR ctx .free pp s = true := by
  obtain ⟨gs, e, hgs⟩ := segs_all_pat pp.segs hsc
  rcases pp with ⟨abs, segs, tr⟩
  simp only at e hwf hsc
  subst e
  rw [wrapRe_fullmatch, pathLangR_pats]
  unfold compPath
  simp only
  cases gs with
  | nil =>
    have habs := hwf rfl
    simp only [List.map_nil, pathRe, habs, ite_true, segsMatch_nil, Bool.and_eq_true, decide_eq_true_eq,
      List.isEmpty_iff, Bool.or_eq_true, Bool.not_eq_true']
    rw [M_end_iff]
    simp only [forall_const]
    constructor
    · rintro ⟨hall, hne⟩
      have hh : AtSep s := allSl_head s hall
      refine ⟨?_, pieces_allSl s hall, Or.inr (allSl_getLast s hall hne)⟩
      rcases hh with rfl | ⟨r', rfl⟩
      · exact absurd rfl hne
      · rfl
    · rintro ⟨hh, hnil, _⟩
      refine ⟨allSl_of_pieces_nil s hnil, ?_⟩
      rintro rfl
      simp at hh
  | cons g rest =>
    have hne : (g :: rest) ≠ [] := by simp
    cases abs with
    | false =>
      have key := pathRe_pats_sem ctx tr (g :: rest) hne hgs ⟨true, s⟩ false hv
      simp only at key
      rw [key]
      simp only [Bool.false_eq_true, ite_false, List.map_cons, Bool.and_eq_true,
        Bool.not_eq_true', decide_eq_false_iff_not, ne_eq]
    | true =>
      simp only [ite_true, List.map_cons, Bool.and_eq_true, decide_eq_true_eq]
      rw [pathRe_true, M_sepThen_iff]
      constructor
      · rintro ⟨pre, r', hprene, hpre, es, hrest⟩
        simp only at es
        have hv' : Vis ctx.dot r' := by
          apply Vis.tail (x := pre) (es ▸ hv)
          intro q hq
          rwa [pieces_allSl_append pre r' hpre]
        obtain ⟨_, hsm⟩ := (pathRe_pats_sem ctx tr (g :: rest) hne hgs ⟨false, r'⟩ true hv').mp hrest
        simp only [List.map_cons] at hsm
        have hr'ne : r' ≠ [] := by
          rintro rfl
          rw [pieces_nil, segsMatch_pat_nil] at hsm
          exact absurd hsm (by simp)
        refine ⟨?_, ?_⟩
        · rw [es]
          rcases allSl_head pre hpre with rfl | ⟨x, rfl⟩
          · exact absurd rfl hprene
          · rfl
        · rw [es, pieces_allSl_append pre r' hpre, getLast_append_ne pre r' hr'ne]
          exact hsm
      · rintro ⟨hh, hsm⟩
        obtain ⟨pre, r', es, hpre, hr'head⟩ := slash_decomp s
        have hprene : pre ≠ [] := by
          rintro rfl
          simp only [List.nil_append] at es
          subst es
          exact hr'head hh
        rw [es, pieces_allSl_append pre r' hpre] at hsm
        have hr'ne : r' ≠ [] := by
          rintro rfl
          rw [pieces_nil, segsMatch_pat_nil] at hsm
          exact absurd hsm (by simp)
        rw [getLast_append_ne pre r' hr'ne] at hsm
        have hv' : Vis ctx.dot r' := by
          apply Vis.tail (x := pre) (es ▸ hv)
          intro q hq
          rwa [pieces_allSl_append pre r' hpre]
        refine ⟨pre, r', hprene, hpre, es, ?_⟩
        exact (pathRe_pats_sem ctx tr (g :: rest) hne hgs ⟨false, r'⟩ true hv').mpr ⟨hr'head, hsm⟩

end WcModel

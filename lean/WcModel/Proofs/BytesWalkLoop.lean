import WcModel.Model.Compile
/-
  C18 on the walkers — the three list loops WITH the limit arithmetic (`Model/Compile.lean`:
  `translate`, `compilePattern`, `globPatterns`, all instances of `runPatterns`).

  The loops are generic in the type `R` of a compiled pattern: they call `x.parse` / `x.noDir` and
  store the results, and never look at them.  That is a theorem here (`*_natural`): for every
  `N : R → R'`, running a loop in the world `x` and mapping `N` over the compiled patterns of the
  outcome is the same as running it in the world `x.mapR N` (whose compiler is `N ∘ x.parse`) —
  the same exception (PatternLimit / normaliser error, with the same pull count), the same number of
  positive and negative patterns, the same bracex calls.  Consequently (`*_twin`) two worlds that
  differ only in their compilers, whose compiled patterns `N` cannot tell apart, have outcomes `N`
  cannot tell apart: for `N` = "normal form of the regex" that is "bytes and str pattern lists
  raise alike and compile to twin lists, for every flags / limit / exclude list".
-/
namespace WcModel.Compile

/-- the world `x` with `N` applied to every compiled pattern -/
def Ext.mapR {R R' : Type} (x : Ext R) (N : R → R') : Ext R' :=
  { norm := x.norm, brace := x.brace, split := x.split, tilde := x.tilde,
    parse := fun fl p => N (x.parse fl p), noDir := fun u => N (x.noDir u) }

def Acc.mapOut {O O' : Type} (F : O → O') (a : Acc O) : Acc O' := ⟨a.total, a.pulls, a.seen, F a.out⟩

/-- `q` is `p` seen through `F` -/
structure PolicyMap {O O' : Type} (F : O → O') (p : Policy O) (q : Policy O') : Prop where
  useSeen : ∀ e, p.useSeen e = q.useSeen e
  route : ∀ e o, F (p.route e o) = q.route e (F o)

variable {O O' : Type} {F : O → O'} {p : Policy O} {q : Policy O'}

theorem admitPiece_map (h : PolicyMap F p q) (e : Pat) (a : Acc O) :
    (admitPiece p e a).mapOut F = admitPiece q e (a.mapOut F) := by
  unfold admitPiece
  rw [← h.useSeen]
  split
  · show (if e ∈ a.seen then a else _).mapOut F = if e ∈ a.seen then a.mapOut F else _
    split
    · rfl
    · simp only [Acc.mapOut, h.route]
  · simp only [Acc.mapOut, h.route]

def mapRun (F : O → O') {γ : Type} (x : Acc O × γ) : Acc O' × γ := (x.1.mapOut F, x.2)

theorem runPieces_map (h : PolicyMap F p q) (limit : Int) : ∀ (es : List Pat) (a : Acc O) (c : Nat),
    (runPieces p limit es a c).map (mapRun F) = runPieces q limit es (a.mapOut F) c := by
  intro es
  induction es with
  | nil => intro a c; rfl
  | cons e es ih =>
    intro a c
    simp only [runPieces]
    split <;> split
    · rfl
    · rename_i h1 h2; exact absurd h1 h2
    · rename_i h1 h2; exact absurd h2 h1
    · rw [ih]
      congr 1
      exact admitPiece_map h e _

theorem runItems_map (h : PolicyMap F p q) (limit : Int) : ∀ (its : List (List Pat)) (a : Acc O) (c : Nat),
    (runItems p limit its a c).map (mapRun F) = runItems q limit its (a.mapOut F) c := by
  intro its
  induction its with
  | nil => intro a c; rfl
  | cons it its ih =>
    intro a c
    simp only [runItems]
    have hp := runPieces_map h limit it { a with pulls := a.pulls + 1 } c
    have e : ({ a with pulls := a.pulls + 1 } : Acc O).mapOut F = { a.mapOut F with pulls := (a.mapOut F).pulls + 1 } := rfl
    rw [e] at hp
    rw [← hp]
    cases runPieces p limit it { a with pulls := a.pulls + 1 } c with
    | error x => rfl
    | ok r =>
      obtain ⟨a', c'⟩ := r
      exact ih a' c'

theorem expand_mapR {R R' : Type} (x : Ext R) (N : R → R') (fl : Flags) (pt : Pat) (cl : Int) :
    expand (x.mapR N) fl pt cl = expand x fl pt cl := rfl

theorem runPatterns_map {R R' : Type} (x : Ext R) (N : R → R') (fl : Flags) (h : PolicyMap F p q) (limit : Int) :
    ∀ (ps : List Pat) (cl : Int) (a : Acc O),
      (runPatterns x fl p limit ps cl a).map (mapRun F) = runPatterns (x.mapR N) fl q limit ps cl (a.mapOut F) := by
  intro ps
  induction ps with
  | nil => intro cl a; rfl
  | cons pt ps ih =>
    intro cl a
    simp only [runPatterns]
    have hn : (x.mapR N).norm fl pt = x.norm fl pt := rfl
    rw [hn]
    cases x.norm fl pt with
    | error e => rfl
    | ok qn =>
      simp only []
      rw [expand_mapR]
      rw [← runItems_map h limit (expand x fl qn cl).1 a 0]
      cases runItems p limit (expand x fl qn cl).1 a 0 with
      | error e => rfl
      | ok r =>
        obtain ⟨a', count⟩ := r
        rw [show Except.map (mapRun F) (Except.ok (a', count)) = Except.ok (a'.mapOut F, count) from rfl]
        simp only []
        by_cases hc : (expand x fl qn cl).2 = true
        · rw [if_pos hc, if_pos hc]; rfl
        · rw [if_neg hc, if_neg hc]; exact ih _ a'

theorem braceArgs_map {R R' : Type} (x : Ext R) (N : R → R') (fl : Flags) (h : PolicyMap F p q) (limit : Int) :
    ∀ (ps : List Pat) (cl : Int) (a : Acc O),
      braceArgs x fl p limit ps cl a = braceArgs (x.mapR N) fl q limit ps cl (a.mapOut F) := by
  intro ps
  induction ps with
  | nil => intro cl a; rfl
  | cons pt ps ih =>
    intro cl a
    simp only [braceArgs]
    have hn : (x.mapR N).norm fl pt = x.norm fl pt := rfl
    rw [hn]
    cases x.norm fl pt with
    | error e => rfl
    | ok qn =>
      simp only []
      rw [expand_mapR]
      rw [← runItems_map h limit (expand x fl qn cl).1 a 0]
      cases runItems p limit (expand x fl qn cl).1 a 0 with
      | error e => rfl
      | ok r =>
        obtain ⟨a', count⟩ := r
        rw [show Except.map (mapRun F) (Except.ok (a', count)) = Except.ok (a'.mapOut F, count) from rfl]
        simp only []
        by_cases hc : (expand x fl qn cl).2 = true
        · rw [if_pos hc, if_pos hc]
        · rw [if_neg hc, if_neg hc, ih _ a']

/-! ### `translate`, `compile_pattern` -/

def PN.map {R R' : Type} (N : R → R') (o : PN R) : PN R' := ⟨o.pos.map N, o.neg.map N⟩
def Out.map {R R' : Type} (N : R → R') (o : Out R) : Out R' := ⟨o.pos.map N, o.neg.map N, o.pulls⟩

theorem pnPolicy_map {R R' : Type} (x : Ext R) (N : R → R') (fl : Flags) :
    PolicyMap (PN.map N) (pnPolicy x fl) (pnPolicy (x.mapR N) fl) where
  useSeen := fun _ => rfl
  route := fun e o => by
    simp only [pnPolicy]
    split
    · simp only [PN.map, List.map_append, List.map_cons, List.map_nil, Ext.mapR]
    · simp only [PN.map, List.map_append, List.map_cons, List.map_nil, Ext.mapR]

theorem isEmpty_snoc {α : Type} (l : List α) (a : α) : (l ++ [a]).isEmpty = false := by cases l <;> rfl

theorem finishPN_map {R R' : Type} (x : Ext R) (N : R → R') (fl : Flags) (o : PN R) :
    (finishPN x fl o).map N = finishPN (x.mapR N) fl (o.map N) := by
  obtain ⟨pos, neg⟩ := o
  have hp : ∀ f pt, (x.mapR N).parse f pt = N (x.parse f pt) := fun _ _ => rfl
  have hd : ∀ u, (x.mapR N).noDir u = N (x.noDir u) := fun _ => rfl
  simp only [finishPN, PN.map, List.isEmpty_map, hp, hd]
  cases h1 : (!neg.isEmpty && pos.isEmpty && fl.negateall)
  · simp only [Bool.false_eq_true, ↓reduceIte, List.isEmpty_map]
    cases h2 : (!pos.isEmpty && fl.nodir)
    · simp only [Bool.false_eq_true, ↓reduceIte]
    · simp only [↓reduceIte, List.map_append, List.map_cons, List.map_nil]
  · simp only [↓reduceIte, List.map_append, List.map_cons, List.map_nil, isEmpty_snoc, Bool.not_false, Bool.true_and]
    cases h2 : fl.nodir
    · simp only [Bool.false_eq_true, ↓reduceIte]
    · simp only [↓reduceIte, List.map_append, List.map_cons, List.map_nil]

theorem compileCore_natural {R R' : Type} (x : Ext R) (N : R → R') (fl : Flags) (limit : Int) (pats : List Pat)
    (neg0 : List R) (pulls0 used : Nat) :
    (compileCore x fl limit pats neg0 pulls0 used).map (Out.map N) =
      compileCore (x.mapR N) fl limit pats (neg0.map N) pulls0 used := by
  unfold compileCore
  have h := runPatterns_map x N fl (pnPolicy_map x N fl) limit pats (startLimit limit used)
    ⟨used, pulls0, [], ⟨[], neg0⟩⟩
  have e : (⟨used, pulls0, [], ⟨[], neg0⟩⟩ : Acc (PN R)).mapOut (PN.map N) = ⟨used, pulls0, [], ⟨[], neg0.map N⟩⟩ := rfl
  rw [e] at h
  rw [← h]
  cases runPatterns x fl (pnPolicy x fl) limit pats (startLimit limit used) ⟨used, pulls0, [], ⟨[], neg0⟩⟩ with
  | error e => rfl
  | ok r =>
    simp only [Except.map, mapRun, Acc.mapOut, Out.map]
    rw [← finishPN_map]
    rfl

theorem translateCore_natural {R R' : Type} (x : Ext R) (N : R → R') (fl : Flags) (limit : Int) (pats : List Pat)
    (neg0 : List R) (pulls0 used : Nat) :
    (translateCore x fl limit pats neg0 pulls0 used).map (Out.map N) =
      translateCore (x.mapR N) fl limit pats (neg0.map N) pulls0 used :=
  compileCore_natural x N { fl with translate := true } limit pats neg0 pulls0 used

/-- **`_wcparse.compile_pattern` is natural in the compiled-pattern type** -/
theorem compilePattern_natural {R R' : Type} (x : Ext R) (N : R → R') (fl : Flags) (limit : Int) (pats : List Pat)
    (excl : Option (List Pat)) :
    (compilePattern x fl limit pats excl).map (Out.map N) = compilePattern (x.mapR N) fl limit pats excl := by
  unfold compilePattern
  cases excl with
  | none => exact compileCore_natural x N fl limit pats [] 0 0
  | some ex =>
    simp only []
    have h0 := compileCore_natural x N (negFlags (noNegateFlags fl)) limit ex [] 0 0
    simp only [List.map_nil] at h0
    rw [← h0]
    cases compileCore x (negFlags (noNegateFlags fl)) limit ex [] 0 0 with
    | error e => rfl
    | ok o =>
      simp only [Except.map, Out.map, List.length_map]
      exact compileCore_natural x N (noNegateFlags fl) limit pats o.pos o.pulls o.pos.length

/-- **`_wcparse.translate` is natural in the compiled-pattern type** -/
theorem translate_natural {R R' : Type} (x : Ext R) (N : R → R') (fl : Flags) (limit : Int) (pats : List Pat)
    (excl : Option (List Pat)) :
    (translate x fl limit pats excl).map (Out.map N) = translate (x.mapR N) fl limit pats excl := by
  unfold translate
  cases excl with
  | none => exact translateCore_natural x N fl limit pats [] 0 0
  | some ex =>
    simp only []
    have h0 := translateCore_natural x N (negFlags (noNegateFlags fl)) limit ex [] 0 0
    simp only [List.map_nil] at h0
    rw [← h0]
    cases translateCore x (negFlags (noNegateFlags fl)) limit ex [] 0 0 with
    | error e => rfl
    | ok o =>
      simp only [Except.map, Out.map, List.length_map]
      exact translateCore_natural x N (noNegateFlags fl) limit pats o.pos o.pulls o.pos.length

/-! ### `Glob.__init__` -/

def GPN.map {R R' : Type} (N : R → R') (o : GPN R) : GPN R' := ⟨o.pos, o.neg.map N⟩
def GOut.map {R R' : Type} (N : R → R') (o : GOut R) : GOut R' := ⟨o.pos, o.neg.map N, o.pulls⟩

theorem globPolicy_map {R R' : Type} (x : Ext R) (N : R → R') (g : GlobCfg) (force : Bool) :
    PolicyMap (GPN.map N) (globPolicy x g force) (globPolicy (x.mapR N) g force) where
  useSeen := fun _ => rfl
  route := fun e o => by
    simp only [globPolicy]
    split
    · simp only [GPN.map, List.map_append, List.map_cons, List.map_nil, Ext.mapR]
    · simp only [GPN.map]

theorem finishGlob_map {R R' : Type} (x : Ext R) (N : R → R') (g : GlobCfg) (force : Bool) (o : GPN R) :
    (finishGlob x g force o).map N = finishGlob (x.mapR N) g force (o.map N) := by
  have hd : ∀ u, (x.mapR N).noDir u = N (x.noDir u) := fun _ => rfl
  simp only [finishGlob, GPN.map, List.isEmpty_map, hd]
  cases (g.nodir && !force)
  · simp only [Bool.false_eq_true, ↓reduceIte]
  · simp only [↓reduceIte, List.map_append, List.map_cons, List.map_nil]

def mapParse {R R' : Type} (N : R → R') (r : GPN R × Int × Nat × Nat) : GPN R' × Int × Nat × Nat := (r.1.map N, r.2)

theorem globParse_natural {R R' : Type} (x : Ext R) (N : R → R') (g : GlobCfg) (force : Bool) (pats : List Pat)
    (cl : Int) (o : GPN R) (pulls total : Nat) :
    (globParse x g force pats cl o pulls total).map (mapParse N) =
      globParse (x.mapR N) g force pats cl (o.map N) pulls total := by
  unfold globParse
  have h := runPatterns_map x N g.flags (globPolicy_map x N g force) g.limit pats cl ⟨total, pulls, [], o⟩
  have e : (⟨total, pulls, [], o⟩ : Acc (GPN R)).mapOut (GPN.map N) = ⟨total, pulls, [], o.map N⟩ := rfl
  rw [e] at h
  rw [← h]
  cases runPatterns x g.flags (globPolicy x g force) g.limit pats cl ⟨total, pulls, [], o⟩ with
  | error e => rfl
  | ok r =>
    simp only [Except.map, mapRun, Acc.mapOut, mapParse]
    rw [← finishGlob_map]

/-- **the pattern part of `Glob.__init__` is natural in the compiled-pattern type** -/
theorem globPatterns_natural {R R' : Type} (x : Ext R) (N : R → R') (g : GlobCfg) (pats : List Pat)
    (excl : Option (List Pat)) :
    (globPatterns x g pats excl).map (GOut.map N) = globPatterns (x.mapR N) g pats excl := by
  unfold globPatterns
  split
  · rfl
  · have h0 := globParse_natural x N g false pats g.limit ⟨[], []⟩ 0 0
    rw [show GPN.map N (⟨[], []⟩ : GPN R) = ⟨[], []⟩ from rfl] at h0
    rw [← h0]
    cases globParse x g false pats g.limit ⟨[], []⟩ 0 0 with
    | error e => rfl
    | ok r =>
      obtain ⟨o, cl, pulls, total⟩ := r
      simp only [Except.map, mapParse]
      cases excl with
      | none => rfl
      | some ex =>
        simp only []
        rw [← globParse_natural x N g true ex cl o pulls total]
        cases globParse x g true ex cl o pulls total with
        | error e => rfl
        | ok r' =>
          obtain ⟨o', cl', pulls', total'⟩ := r'
          rfl

/-! ### two worlds that differ only in their compilers -/

/-- `compile_pattern(bytes list)` vs `compile_pattern(str list)`: if `N` cannot tell the two
    compilers apart, it cannot tell the two outcomes apart — for every flags, LIMIT, pattern list
    and exclude list; the same exception with the same number of bracex pulls, or lists of the same
    lengths whose members `N` identifies. -/
theorem compilePattern_twin {R R' : Type} (xB xS : Ext R) (N : R → R') (h : xB.mapR N = xS.mapR N) (fl : Flags)
    (limit : Int) (pats : List Pat) (excl : Option (List Pat)) :
    (compilePattern xB fl limit pats excl).map (Out.map N) = (compilePattern xS fl limit pats excl).map (Out.map N) := by
  rw [compilePattern_natural, compilePattern_natural, h]

theorem translate_twin {R R' : Type} (xB xS : Ext R) (N : R → R') (h : xB.mapR N = xS.mapR N) (fl : Flags)
    (limit : Int) (pats : List Pat) (excl : Option (List Pat)) :
    (translate xB fl limit pats excl).map (Out.map N) = (translate xS fl limit pats excl).map (Out.map N) := by
  rw [translate_natural, translate_natural, h]

theorem globPatterns_twin {R R' : Type} (xB xS : Ext R) (N : R → R') (h : xB.mapR N = xS.mapR N) (g : GlobCfg)
    (pats : List Pat) (excl : Option (List Pat)) :
    (globPatterns xB g pats excl).map (GOut.map N) = (globPatterns xS g pats excl).map (GOut.map N) := by
  rw [globPatterns_natural, globPatterns_natural, h]

/-- matching (`any(include) and not any(exclude)`) through `N` -/
theorem matchPN_map {R R' Nm : Type} (N : R → R') (mt : R → Nm → Bool) (mt' : R' → Nm → Bool) (name : Nm)
    (h : ∀ r, mt' (N r) name = mt r name) (pos neg : List R) :
    matchPN mt' (pos.map N) (neg.map N) name = matchPN mt pos neg name := by
  simp only [matchPN, List.any_map, Function.comp_def, h]

end WcModel.Compile

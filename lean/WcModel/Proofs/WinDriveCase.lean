import WcModel.Proofs.ParseCase
/-
  The real Windows drive scanner `winDrive` (Model/WinDrive.lean) commutes with lowering the ASCII
  case of the pattern:  `winDrive cfg (p.map asciiLower) = (winDrive cfg p).low`  (`winDrive_low`),
  i.e. the hypothesis `DriveC cfg (winDrive cfg)` of `parseItems_low` (Proofs/ParseCase.lean).

  The scanners (`sep2`, `partChars`, `unescape`, `partAt`, `partSearch`, `partsLoop`, …) compare
  characters only with `\\ / : . ? ⏎` and test `isLetter` / `lower p = "unc"`, all of which are
  invariant.  `winDrive` itself is cut into top-level copies of its local definitions (`wdAltA`,
  `wdFin`, `wdTryFrom`, `wdAltB`, `wdMain`), tied to the model by `rfl` (`winDrive_eq`,
  `partsLoop_succ`), so the model's executable behaviour is untouched.
-/
namespace WcModel
open Win

theorem sep2_low (p : List Char) : sep2 (p.map L) = sep2 p := by
  fun_cases sep2 p with
  | case1 r => simp [sep2, L_fix (k := '\\') (by nl)]
  | case2 r => simp [sep2, L_fix (k := '/') (by nl)]
  | case3 x h1 h2 =>
    rw [sep2.eq_def]
    split
    · rename_i r hr
      exfalso
      cases p with
      | nil => simp at hr
      | cons c t =>
        cases t with
        | nil => simp at hr
        | cons d u =>
          simp only [List.map_cons, List.cons.injEq, L_bslash] at hr
          exact h1 u (by rw [hr.1, hr.2.1])
    · rename_i r hr
      exfalso
      cases p with
      | nil => simp at hr
      | cons c t =>
        simp only [List.map_cons, List.cons.injEq, L_slash] at hr
        exact h2 t (by rw [hr.1])
    · rfl

theorem atEos_low (s : List Char) : atEos (s.map L) = atEos s := by
  cases s with
  | nil => rfl
  | cons c t =>
    cases t with
    | nil =>
      rw [Bool.eq_iff_iff]
      simp [atEos]
    | cons d u => simp [atEos]

theorem sepOrEnd_low (s : List Char) : sepOrEnd (s.map L) = sepOrEnd s := by
  unfold sepOrEnd
  rw [sep2_low, atEos_low]

theorem partChars_low (p : List Char) :
    partChars (p.map L) = ((partChars p).1.map L, (partChars p).2.map L) := by
  fun_induction partChars p with
  | case1 c rest hc =>
    simp only [List.map_cons, L_fix (k := '\\') (by nl), partChars]
    simp only [L_bslash, L_slash, hc, ite_true]
    simp
  | case2 c rest hc a b hab ih =>
    simp only [List.map_cons, L_fix (k := '\\') (by nl), partChars]
    simp only [L_bslash, L_slash, hc, ih, hab]
    simp
  | case3 => simp [partChars, L_fix (k := '\\') (by nl)]
  | case4 rest => simp [partChars, L_fix (k := '/') (by nl)]
  | case5 c rest h1 h2 h3 a b hab ih =>
    have hb : c ≠ '\\' := by
      intro e; subst e
      cases rest with
      | nil => exact h2 rfl rfl
      | cons d u => exact h1 d u rfl rfl
    have hs : c ≠ '/' := by
      intro e; subst e; exact h3 rfl
    rw [List.map_cons, partChars.eq_def]
    split
    · rename_i c' r' hr
      simp only [List.cons.injEq, L_bslash] at hr
      exact absurd hr.1 hb
    · rename_i hr
      simp only [List.cons.injEq, L_bslash] at hr
      exact absurd hr.1 hb
    · rename_i r' hr
      simp only [List.cons.injEq, L_slash] at hr
      exact absurd hr.1 hs
    · rename_i c' r' _ _ _ hr
      simp only [List.cons.injEq] at hr
      obtain ⟨rfl, rfl⟩ := hr
      simp only [ih, hab]
      simp
    · rename_i hr; simp at hr
  | case6 => rfl


theorem unescape_low (s : List Char) : unescape (s.map L) = (unescape s).map L := by
  fun_induction unescape s with
  | case1 rest ih =>
    simp only [List.map_cons, L_fix (k := '\\') (by nl), L_fix (k := '\n') (by nl)] at ih ⊢
    simp only [unescape, ite_true, ih]
  | case2 c rest hc ih =>
    simp only [List.map_cons, L_fix (k := '\\') (by nl), unescape, L_nl, hc, ite_false, ih]
  | case3 c rest h1 ih =>
    have hb : c ≠ '\\' ∨ rest = [] := by
      cases rest with
      | nil => exact .inr rfl
      | cons d u => exact .inl (fun e => h1 d u e rfl)
    rw [List.map_cons, unescape.eq_def]
    split
    · rename_i c' r' hr
      simp only [List.cons.injEq, L_bslash] at hr
      rcases hb with hb | hb
      · exact absurd hr.1 hb
      · subst hb; simp at hr
    · rename_i c' r' _ hr
      simp only [List.cons.injEq] at hr
      obtain ⟨rfl, rfl⟩ := hr
      simp only [ih, List.map_cons]
    · rename_i hr; simp at hr
  | case4 => rfl

theorem lower_low (s : List Char) : lower (s.map L) = lower s := by
  unfold lower
  simp only [List.map_map]
  congr 1
  funext c
  exact lower_lower c

theorem isLetter_low (c : Char) : isLetter (L c) = isLetter c := by
  have e : ∀ d : Char, isLetter d = (decide (97 ≤ d.toNat ∧ d.toNat ≤ 122) || decide (65 ≤ d.toNat ∧ d.toNat ≤ 90)) := by
    intro d
    unfold isLetter
    rw [Bool.eq_iff_iff]
    simp only [Bool.or_eq_true, Bool.and_eq_true, decide_eq_true_eq, Char.le_def]
    rfl
  rw [e, e, lower_toNat]
  rw [Bool.eq_iff_iff]
  simp only [Bool.or_eq_true, decide_eq_true_eq]
  split <;> omega

def tripLow (x : List Char × Nat × Bool) : List Char × Nat × Bool := (x.1.map L, x.2.1, x.2.2)

theorem partAt_low (s : List Char) : partAt (s.map L) = (partAt s).map tripLow := by
  unfold partAt
  rw [partChars_low]
  dsimp only
  simp only [List.isEmpty_map, sepOrEnd_low, List.length_map]
  split
  · rfl
  · split <;> rfl

def quadLow (x : Nat × List Char × Nat × Bool) : Nat × List Char × Nat × Bool :=
  (x.1, x.2.1.map L, x.2.2.1, x.2.2.2)

theorem partSearch_low : ∀ (fuel : Nat) (s : List Char) (k : Nat),
    partSearch fuel (s.map L) k = (partSearch fuel s k).map quadLow := by
  intro fuel
  induction fuel with
  | zero => intro s k; rfl
  | succ n ih =>
    intro s k
    unfold partSearch
    rw [partAt_low]
    cases partAt s with
    | some v => obtain ⟨g, m, b⟩ := v; rfl
    | none =>
      cases s with
      | nil => rfl
      | cons c t => exact ih t (k + 1)

def Win.Scan.low (st : Scan) : Scan := { st with parts := st.parts.map (List.map L) }

/-- one iteration's state update of `partsLoop`, in two pieces -/
def plBase (st : Scan) (p : List Char) (skipped n : Nat) (b : Bool) : Scan :=
  { st with parts := st.parts ++ [p], slash := b, endIdx := st.endIdx + skipped + n, count := st.count + 1 }

def plUpd (isSpecial c1 c2 : Bool) (st : Scan) : Scan :=
  if isSpecial then
    if c1 then { st with complete := st.complete + 2 }
    else if c2 then { st with first := st.first + 1, complete := st.complete + 1 }
    else st
  else st

def plStep (isSpecial : Bool) (st : Scan) (g : List Char) (skipped n : Nat) (b : Bool) : Scan :=
  plUpd isSpecial (st.count + 1 = st.first && lower (unescape g) = "unc".toList)
    (st.count + 1 = st.first && lower (unescape g) = "global".toList) (plBase st (unescape g) skipped n b)

theorem partsLoop_succ (isSpecial : Bool) (fuel : Nat) (s : List Char) (st : Scan) :
    partsLoop isSpecial (fuel+1) s st =
      match partSearch (s.length + 1) s 0 with
      | none => st
      | some (skipped, g, n, b) =>
        if st.count + 1 = (plStep isSpecial st g skipped n b).complete then plStep isSpecial st g skipped n b
        else partsLoop isSpecial fuel (s.drop (skipped + n)) (plStep isSpecial st g skipped n b) := by
  rw [partsLoop]
  rfl

@[simp] theorem Win.Scan.low_complete (st : Scan) : st.low.complete = st.complete := rfl
@[simp] theorem Win.Scan.low_count (st : Scan) : st.low.count = st.count := rfl
@[simp] theorem Win.Scan.low_first (st : Scan) : st.low.first = st.first := rfl
@[simp] theorem Win.Scan.low_endIdx (st : Scan) : st.low.endIdx = st.endIdx := rfl
@[simp] theorem Win.Scan.low_slash (st : Scan) : st.low.slash = st.slash := rfl
@[simp] theorem Win.Scan.low_parts (st : Scan) : st.low.parts = st.parts.map (List.map L) := rfl

theorem plUpd_low (i c1 c2 : Bool) (st : Scan) : plUpd i c1 c2 st.low = (plUpd i c1 c2 st).low := by
  cases i <;> cases c1 <;> cases c2 <;> rfl

theorem plStep_low (isSpecial : Bool) (st : Scan) (g : List Char) (skipped n : Nat) (b : Bool) :
    plStep isSpecial st.low (g.map L) skipped n b = (plStep isSpecial st g skipped n b).low := by
  have e1 : lower (unescape (g.map L)) = lower (unescape g) := by rw [unescape_low, lower_low]
  have hb : plBase st.low (unescape (g.map L)) skipped n b = (plBase st (unescape g) skipped n b).low := by
    simp [plBase, Win.Scan.low, unescape_low]
  unfold plStep
  rw [e1, hb]
  exact plUpd_low _ _ _ _

theorem partsLoop_low (isSpecial : Bool) : ∀ (fuel : Nat) (s : List Char) (st : Scan),
    partsLoop isSpecial fuel (s.map L) st.low = (partsLoop isSpecial fuel s st).low := by
  intro fuel
  induction fuel with
  | zero => intro s st; rfl
  | succ n ih =>
    intro s st
    rw [partsLoop_succ, partsLoop_succ]
    simp only [List.length_map, partSearch_low]
    cases partSearch (s.length + 1) s 0 with
    | none => rfl
    | some v =>
      obtain ⟨skipped, g, m, b⟩ := v
      simp only [Option.map_some, quadLow, plStep_low, Win.Scan.low_complete, Win.Scan.low_count]
      split
      · rfl
      · rw [← List.map_drop]
        exact ih _ _

theorem litsOf_low : ∀ s : List Char, litsOf (s.map L) = (litsOf s).low
  | [] => rfl
  | [c] => rfl
  | c :: d :: rest => by
    have ih := litsOf_low (d :: rest)
    simp only [List.map_cons] at ih
    simp only [List.map_cons, litsOf, Re.low, ih]

theorem escapeDrive_low (s : List Char) (cs : Bool) :
    escapeDrive (s.map L) cs = (escapeDrive s cs).low := by
  unfold escapeDrive
  split <;> simp [Re.low, litsOf_low]

theorem joinSep_low : ∀ l : List Re, joinSep (l.map Re.low) = (joinSep l).low
  | [] => rfl
  | [r] => rfl
  | r :: r2 :: rs => by
    have ih := joinSep_low (r2 :: rs)
    simp only [List.map_cons] at ih
    simp only [List.map_cons, joinSep, Re.low, ih, Frag.sep_low]


/-! ### `winDrive`, cut into pieces (copies of its local definitions) -/

def wdAltA (p : List Char) : Option (List Char × Nat × Bool) :=
    match sep2 p with
    | none => none
    | some n1 =>
      match sep2 (p.drop n1) with
      | none => none
      | some n2 =>
        let (g2, rest) := partChars (p.drop (n1 + n2))
        if g2.isEmpty then none else
        match sepOrEnd rest with
        | some (n4, b) => some (g2, n1 + n2 + g2.length + n4, b)
        | none => none

def wdFin (g3 : List Char) (r3 : List Char) : Option (List Char × Nat × Bool) :=
          match r3 with
          | ':' :: r4 =>
            match sepOrEnd r4 with
            | some (n4, b) => some (g3 ++ [':'], (g3.length + 1) + n4, b)
            | none => none
          | _ => none

def wdTryFrom (pre : List Char) (r : List Char) : Option (List Char × Nat × Bool) :=
      match r with
      | l :: r2 =>
        if !isLetter l then none else
        match r2 with
        | '\\' :: r3 =>
          match wdFin (pre ++ [l, '\\']) r3 with
          | some x => some x
          | none => wdFin (pre ++ [l]) r2
        | _ => wdFin (pre ++ [l]) r2
      | [] => none

def wdAltB (p : List Char) : Option (List Char × Nat × Bool) :=
    let (b1, r1) := match p with
      | '\\' :: r => (['\\'], r)
      | r => ([], r)
    match wdTryFrom b1 r1 with
    | some x => some x
    | none => if b1.isEmpty then none else wdTryFrom [] p

def wdNone (root : Bool) : DriveInfo := { rootSpecified := root, drive := none, slash := false, endIdx := 0 }

def wdAfterColon (r : List Char) : Bool :=
  match r with
  | '\\' :: _ => true
  | '/' :: _ => true
  | r => atEos r

def wdLetterOk (g0 : List Char) : Bool :=
        match g0 with
        | l :: ':' :: r => isLetter l && wdAfterColon r
        | _ => false

def wdTail (p : List Char) : DriveInfo :=
      match p with
      | '\\' :: '\\' :: _ => wdNone true
      | '/' :: _ => wdNone true
      | _ => wdNone false

def wdMain (cfg : Cfg) (p : List Char) (altA altB : Option (List Char × Nat × Bool)) : DriveInfo :=
  match altA with
  | some (g2, end0, _) =>
    let part0 := unescape g2
    let isSpecial := lower part0 = ['.'] || lower part0 = ['?']
    let st := partsLoop isSpecial (p.length + 1) (p.drop end0)
      { parts := [part0], slash := false, endIdx := end0, count := 0, complete := 1, first := 1 }
    if st.count = st.complete then
      let r : Re := .cat (.rep 2 2 (Frag.sep true))
        (joinSep (st.parts.map (fun q => escapeDrive q cfg.caseSensitive)))
      { rootSpecified := true, drive := some [.re r], slash := st.slash, endIdx := st.endIdx }
    else wdNone true
  | none =>
    match altB with
    | some (g3, end0, b4) =>
      let g0 := p.take end0
      if wdLetterOk g0 then
        let d := (unescape g3).map (fun c => if c = '/' then '\\' else c)
        { rootSpecified := true, drive := some [.re (escapeDrive d cfg.caseSensitive)], slash := b4,
          endIdx := end0 }
      else wdNone false
    | none => wdTail p

theorem winDrive_eq (cfg : Cfg) (p : List Char) : winDrive cfg p = wdMain cfg p (wdAltA p) (wdAltB p) := by
  rfl


theorem wdAltA_low (p : List Char) : wdAltA (p.map L) = (wdAltA p).map tripLow := by
  unfold wdAltA
  rw [sep2_low]
  cases sep2 p with
  | none => rfl
  | some n1 =>
    dsimp only
    rw [← List.map_drop, sep2_low]
    cases sep2 (p.drop n1) with
    | none => rfl
    | some n2 =>
      dsimp only
      rw [← List.map_drop, partChars_low]
      dsimp only
      simp only [List.isEmpty_map, sepOrEnd_low, List.length_map]
      split
      · rfl
      · cases sepOrEnd (partChars (List.drop (n1 + n2) p)).2 with
        | none => rfl
        | some v => rfl

theorem wdFin_low (g3 r3 : List Char) : wdFin (g3.map L) (r3.map L) = (wdFin g3 r3).map tripLow := by
  cases r3 with
  | nil => rfl
  | cons c r4 =>
    by_cases hc : c = ':'
    · subst hc
      simp only [List.map_cons, L_fix (k := ':') (by nl), wdFin, sepOrEnd_low]
      cases sepOrEnd r4 with
      | none => rfl
      | some v => simp [tripLow, L_fix (k := ':') (by nl)]
    · have h1 : wdFin g3 (c :: r4) = none := by
        rw [wdFin.eq_def]
        split
        · rename_i r hr; simp only [List.cons.injEq] at hr; exact absurd hr.1 hc
        · rfl
      have h2 : wdFin (g3.map L) ((c :: r4).map L) = none := by
        rw [wdFin.eq_def]
        split
        · rename_i r hr; simp only [List.map_cons, List.cons.injEq, L_colon] at hr; exact absurd hr.1 hc
        · rfl
      rw [h1, h2]; rfl

theorem wdTryFrom_low (pre r : List Char) :
    wdTryFrom (pre.map L) (r.map L) = (wdTryFrom pre r).map tripLow := by
  cases r with
  | nil => rfl
  | cons l r2 =>
    have e1 : pre.map L ++ [L l] = (pre ++ [l]).map L := by simp
    have e2 : pre.map L ++ [L l, '\\'] = (pre ++ [l, '\\']).map L := by
      simp [L_fix (k := '\\') (by nl)]
    cases r2 with
    | nil =>
      simp only [List.map_cons, List.map_nil, wdTryFrom, isLetter_low]
      split
      · rfl
      · rw [e1]; exact wdFin_low _ []
    | cons d r3 =>
      by_cases hd : d = '\\'
      · subst hd
        simp only [List.map_cons, L_fix (k := '\\') (by nl), wdTryFrom, isLetter_low]
        split
        · rfl
        · rw [e1, e2, wdFin_low]
          have := wdFin_low (pre ++ [l]) ('\\' :: r3)
          simp only [List.map_cons, L_fix (k := '\\') (by nl)] at this
          rw [this]
          cases wdFin (pre ++ [l, '\\']) r3 <;> rfl
      · have h1 : wdTryFrom pre (l :: d :: r3) = if (!isLetter l) = true then none else wdFin (pre ++ [l]) (d :: r3) := by
          rw [wdTryFrom.eq_def]
          dsimp only
          split
          · rfl
          · split
            · rename_i r hr; simp only [List.cons.injEq] at hr; exact absurd hr.1 hd
            · rfl
        have h2 : wdTryFrom (pre.map L) ((l :: d :: r3).map L) =
            if (!isLetter l) = true then none else wdFin ((pre ++ [l]).map L) ((d :: r3).map L) := by
          rw [wdTryFrom.eq_def]
          simp only [List.map_cons, isLetter_low]
          split
          · rfl
          · split
            · rename_i r hr; simp only [List.cons.injEq, L_bslash] at hr; exact absurd hr.1 hd
            · rw [← e1]
        rw [h1, h2]
        split
        · rfl
        · exact wdFin_low _ _

theorem wdAltB_low (p : List Char) : wdAltB (p.map L) = (wdAltB p).map tripLow := by
  cases p with
  | nil => rfl
  | cons c t =>
    by_cases hc : c = '\\'
    · subst hc
      simp only [List.map_cons, L_fix (k := '\\') (by nl), wdAltB]
      have h1 := wdTryFrom_low ['\\'] t
      have h2 := wdTryFrom_low [] ('\\' :: t)
      simp only [List.map_cons, List.map_nil, L_fix (k := '\\') (by nl)] at h1 h2
      rw [h1, h2]
      cases wdTryFrom ['\\'] t with
      | some x => rfl
      | none => simp
    · have h1 : wdAltB (c :: t) = wdTryFrom [] (c :: t) := by
        unfold wdAltB
        split
        rename_i b1 r1 heq
        split at heq
        · rename_i r hr; simp only [List.cons.injEq] at hr; exact absurd hr.1 hc
        · cases heq
          cases wdTryFrom [] (c :: t) <;> rfl
      have h2 : wdAltB ((c :: t).map L) = wdTryFrom [] ((c :: t).map L) := by
        unfold wdAltB
        split
        rename_i b1 r1 heq
        split at heq
        · rename_i r hr; simp only [List.map_cons, List.cons.injEq, L_bslash] at hr; exact absurd hr.1 hc
        · cases heq
          cases wdTryFrom [] ((c :: t).map L) <;> rfl
      rw [h1, h2]
      exact wdTryFrom_low [] _


theorem wdAfterColon_low (r : List Char) : wdAfterColon (r.map L) = wdAfterColon r := by
  cases r with
  | nil => rfl
  | cons e r' =>
    by_cases h1 : e = '\\'
    · subst h1; simp [wdAfterColon, L_fix (k := '\\') (by nl)]
    · by_cases h2 : e = '/'
      · subst h2; simp [wdAfterColon, L_fix (k := '/') (by nl)]
      · have e1 : wdAfterColon (e :: r') = atEos (e :: r') := by
          rw [wdAfterColon.eq_def]
          split
          · rename_i r hr; simp only [List.cons.injEq] at hr; exact absurd hr.1 h1
          · rename_i r hr; simp only [List.cons.injEq] at hr; exact absurd hr.1 h2
          · rfl
        have e2 : wdAfterColon ((e :: r').map L) = atEos ((e :: r').map L) := by
          rw [wdAfterColon.eq_def]
          split
          · rename_i r hr; simp only [List.map_cons, List.cons.injEq, L_bslash] at hr; exact absurd hr.1 h1
          · rename_i r hr; simp only [List.map_cons, List.cons.injEq, L_slash] at hr; exact absurd hr.1 h2
          · rfl
        rw [e1, e2, atEos_low]

theorem wdLetterOk_low (g : List Char) : wdLetterOk (g.map L) = wdLetterOk g := by
  cases g with
  | nil => rfl
  | cons l t =>
    cases t with
    | nil => rfl
    | cons c r =>
      by_cases hc : c = ':'
      · subst hc
        simp only [List.map_cons, L_fix (k := ':') (by nl), wdLetterOk, isLetter_low, wdAfterColon_low]
      · have e1 : wdLetterOk (l :: c :: r) = false := by
          rw [wdLetterOk.eq_def]
          split
          · rename_i l' r' hr; simp only [List.cons.injEq] at hr; exact absurd hr.2.1 hc
          · rfl
        have e2 : wdLetterOk ((l :: c :: r).map L) = false := by
          rw [wdLetterOk.eq_def]
          split
          · rename_i l' r' hr
            simp only [List.map_cons, List.cons.injEq, L_colon] at hr; exact absurd hr.2.1 hc
          · rfl
        rw [e1, e2]

theorem wdTail_low (p : List Char) : wdTail (p.map L) = wdTail p := by
  have key : ∀ q, wdTail q = if (sep2 q).isSome then wdNone true else wdNone false := by
    intro q
    fun_cases sep2 q with
    | case1 r => rfl
    | case2 r => rfl
    | case3 x h1 h2 =>
      rw [wdTail.eq_def]
      split
      · rename_i r; exact (h1 r rfl).elim
      · rename_i r; exact (h2 r rfl).elim
      · rfl
  rw [key, key, sep2_low]

theorem swapSlash_low (s : List Char) :
    (s.map L).map (fun c => if c = '/' then '\\' else c) =
      (s.map (fun c => if c = '/' then '\\' else c)).map L := by
  simp only [List.map_map]
  congr 1
  funext c
  simp only [Function.comp, L_slash]
  split
  · exact (L_fix (k := '\\') (by nl)).symm
  · rfl

theorem wdMain_low (cfg : Cfg) (p : List Char) (a b : Option (List Char × Nat × Bool)) :
    wdMain cfg (p.map L) (a.map tripLow) (b.map tripLow) = (wdMain cfg p a b).low := by
  unfold wdMain
  cases a with
  | some v =>
    obtain ⟨g2, end0, x⟩ := v
    simp only [Option.map_some, tripLow, unescape_low, lower_low, List.length_map]
    have hst : Win.Scan.mk [(unescape g2).map L] false end0 0 1 1 =
        Win.Scan.low (Win.Scan.mk [unescape g2] false end0 0 1 1) := rfl
    rw [hst, ← List.map_drop, partsLoop_low]
    generalize partsLoop _ _ _ _ = st
    by_cases h : st.count = st.complete
    · have hl : st.low.count = st.low.complete := h
      rw [if_pos hl, if_pos h]
      simp only [Win.Scan.low_parts, Win.Scan.low_slash, Win.Scan.low_endIdx]
      have hj : joinSep (List.map (fun q => escapeDrive q cfg.caseSensitive) (List.map (List.map L) st.parts)) =
          (joinSep (List.map (fun q => escapeDrive q cfg.caseSensitive) st.parts)).low := by
        rw [← joinSep_low]
        congr 1
        simp only [List.map_map]
        congr 1
        funext q
        exact escapeDrive_low q _
      simp only [DriveInfo.low, Option.map_some, Item.lowL_cons, Item.low_re, Item.lowL_nil, Re.low,
        Frag.sep_low, hj]
    · have hl : ¬ st.low.count = st.low.complete := h
      rw [if_neg hl, if_neg h]; rfl
  | none =>
    cases b with
    | some v =>
      obtain ⟨g3, end0, b4⟩ := v
      simp only [Option.map_some, Option.map_none, tripLow, ← List.map_take, wdLetterOk_low]
      split
      · simp only [DriveInfo.low, Option.map_some, Item.lowL_cons, Item.low_re, Item.lowL_nil,
          unescape_low, swapSlash_low, escapeDrive_low]
      · rfl
    | none =>
      simp only [Option.map_none, wdTail_low]
      have : ∀ q, (wdTail q).low = wdTail q := by
        intro q
        unfold wdTail
        repeat' split
        all_goals rfl
      rw [this]

/-- **the real drive scanner commutes with the case map** -/
theorem winDrive_low (cfg : Cfg) (p : List Char) : winDrive cfg (p.map L) = (winDrive cfg p).low := by
  rw [winDrive_eq, winDrive_eq, wdAltA_low, wdAltB_low]
  exact wdMain_low cfg p _ _

theorem winDrive_driveC (cfg : Cfg) : DriveC cfg (winDrive cfg) := fun _ p => winDrive_low cfg p

end WcModel

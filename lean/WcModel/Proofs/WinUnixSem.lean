import WcModel.Proofs.CaseClosed
import WcModel.Model.Frag
/-
  C17 (FORCEWIN = Unix rules on the separator-normalised name), semantic half.

  `Re.ms` ("map separators") rewrites a regex built by the pass under Unix rules into the regex the
  pass builds under Windows rules: every class gets `\\` inserted in front of each literal `/`
  member (`[/]` ↦ `[\\/]`, `[/.]` ↦ `[\\/.]`, `[^/]` ↦ `[^\\/]`, user classes untouched).
  A literal `/` (only `_NO_ROOT` has one) becomes `(?:[\\/])`, a literal backslash becomes the
  empty class: under Unix rules it can never match a name whose backslashes were replaced.

  `Re.sepOK` is the (computable) side condition: every class either names `/` literally, or
  cannot tell `\` from `/`, or stands directly behind a `(?![/…])` guard (`restrictSequence`).

  `ms_sim`: for `sepOK` regexes, `r.ms` on a subject and `r` on the normalised subject
  (`\` ↦ `/`) have the same matches, state by state, in every mode.
-/
namespace WcModel

/-! ### the map -/

def slashItem : ClsItem := .chr '/' false
def bslashItem : ClsItem := .chr '\\' true

def mapCls (its : List ClsItem) : List ClsItem :=
  its.flatMap (fun x => if x = slashItem then [bslashItem, slashItem] else [x])

def hasSlash (its : List ClsItem) : Bool := its.any (fun x => x == slashItem)

/-- the class cannot tell `\` from `/` -/
def clsNeutral (its : List ClsItem) : Bool :=
  its.any (fun x => x.has '\\') == its.any (fun x => x.has '/')

def Re.ms : Re → Re
  | .lit c => if c = '/' then .grp (Frag.sep true) else if c = '\\' then .cls false [] else .lit c
  | .cls n its => .cls n (mapCls its)
  | .cat a b => .cat a.ms b.ms
  | .alt a b => .alt a.ms b.ms
  | .grp r => .grp r.ms
  | .cap r => .cap r.ms
  | .gcap r => .gcap r.ms
  | .opt r => .opt r.ms
  | .star l r => .star l r.ms
  | .plus r => .plus r.ms
  | .rep lo hi r => .rep lo hi r.ms
  | .look n r => .look n r.ms
  | .flags s i r => .flags s i r.ms
  | .eps => .eps
  | .any => .any
  | .bos => .bos
  | .eos => .eos

/-- the name used in the statement of the task -/
abbrev Re.mapSep : Re → Re := Re.ms

/-- the regex ends with a negative look-ahead on a class naming `/` -/
def Re.endGuard : Re → Bool
  | .look true (.cls false g) => hasSlash g
  | .cat _ (.look true (.cls false g)) => hasSlash g
  | _ => false

def Re.isCls : Re → Bool
  | .cls _ _ => true
  | _ => false

def Re.sepOK : Re → Bool
  | .cls _ its => hasSlash its || clsNeutral its
  | .cat a b => a.sepOK && (b.sepOK || (a.endGuard && b.isCls))
  | .alt a b => a.sepOK && b.sepOK
  | .grp r => r.sepOK
  | .cap r => r.sepOK
  | .gcap r => r.sepOK
  | .opt r => r.sepOK
  | .star _ r => r.sepOK
  | .plus r => r.sepOK
  | .rep _ _ r => r.sepOK
  | .look _ r => r.sepOK
  | .flags _ _ r => r.sepOK
  | _ => true

/-! ### the subject map -/

def nrm (c : Char) : Char := if c = '\\' then '/' else c
def nrmL (s : List Char) : List Char := s.map nrm
def nrmS (a : St) : St := ⟨a.atStart, nrmL a.rest⟩

@[simp] theorem nrmS_atStart (a : St) : (nrmS a).atStart = a.atStart := rfl
@[simp] theorem nrmS_rest (a : St) : (nrmS a).rest = nrmL a.rest := rfl
@[simp] theorem nrmL_nil : nrmL [] = [] := rfl
@[simp] theorem nrmL_cons (c : Char) (s : List Char) : nrmL (c :: s) = nrm c :: nrmL s := rfl

theorem nrm_of_ne {d : Char} (h : d ≠ '\\') : nrm d = d := by simp [nrm, h]
theorem nrm_bs : nrm '\\' = '/' := by decide
theorem nrm_ne_bs (d : Char) : nrm d ≠ '\\' := by
  unfold nrm; split
  · decide
  · assumption
theorem nrm_eq_slash (d : Char) : nrm d = '/' ↔ (d = '\\' ∨ d = '/') := by
  unfold nrm; split
  · rename_i h; simp [h]
  · rename_i h; simp [h]
theorem nrm_idem (d : Char) : nrm (nrm d) = nrm d := nrm_of_ne (nrm_ne_bs d)

theorem nrm_eq_nl (d : Char) : nrm d = '\n' ↔ d = '\n' := by
  unfold nrm; split
  · rename_i h; subst h; decide
  · exact Iff.rfl

theorem atEos_nrm (s : List Char) : atEos (nrmL s) = atEos s := by
  cases s with
  | nil => rfl
  | cons c t =>
    cases t with
    | nil =>
      simp only [atEos, nrmL_cons, nrmL_nil]
      by_cases h : c = '\n'
      · subst h; rfl
      · have h' : nrm c ≠ '\n' := fun x => h ((nrm_eq_nl c).mp x)
        have e1 : ([c] == ['\n']) = false := by simpa using h
        have e2 : ([nrm c] == ['\n']) = false := by simpa using h'
        rw [e1, e2]; rfl
    | cons d u => simp [atEos]

/-! ### character facts -/

theorem nonLetter_bs : nonLetter '\\' := by unfold nonLetter; decide
theorem nonLetter_fslash : nonLetter '/' := by unfold nonLetter; decide

theorem lower_bs : asciiLower '\\' = '\\' := by decide
theorem upper_bs : asciiUpper '\\' = '\\' := by decide
theorem lower_slash : asciiLower '/' = '/' := by decide
theorem upper_slash : asciiUpper '/' = '/' := by decide

theorem hasCi_bs (x : ClsItem) (ci : Bool) : x.hasCi ci '\\' = x.has '\\' := by
  simp only [ClsItem.hasCi, lower_bs, upper_bs]
  cases x.has '\\' <;> cases ci <;> rfl

theorem hasCi_slash (x : ClsItem) (ci : Bool) : x.hasCi ci '/' = x.has '/' := by
  simp only [ClsItem.hasCi, lower_slash, upper_slash]
  cases x.has '/' <;> cases ci <;> rfl

/-- `[k]` for a non-letter `k`, as a class member test -/
theorem chr_hasCi_nonLetter {k : Char} (hk : nonLetter k) (e ci : Bool) (d : Char) :
    (ClsItem.chr k e).hasCi ci d = (d == k) := by
  have := clsChr_iff hk ci e d
  simp only [clsMatch, List.any_cons, List.any_nil, Bool.or_false, bne_iff_ne, ne_eq,
    Bool.not_eq_false] at this
  rw [Bool.eq_iff_iff, this]
  simp

theorem charEq_nonLetter {k : Char} (hk : nonLetter k) (ci : Bool) (c : Char) :
    charEq ci c k = (c == k) := by
  unfold charEq
  cases ci
  · rfl
  · simp only [ite_true]
    rw [Bool.eq_iff_iff]
    simp only [beq_iff_eq]
    have hk' : asciiLower k = k := (asciiLower_eq_nonLetter hk k).mpr rfl
    rw [hk']
    exact asciiLower_eq_nonLetter hk c

theorem charEq_nonLetter' {k : Char} (hk : nonLetter k) (ci : Bool) (d : Char) :
    charEq ci k d = (d == k) := by
  unfold charEq
  cases ci
  · simp only [Bool.false_eq_true, ite_false]
    rw [Bool.eq_iff_iff]; simp only [beq_iff_eq]; exact eq_comm
  · simp only [ite_true]
    rw [Bool.eq_iff_iff]
    simp only [beq_iff_eq]
    have hk' : asciiLower k = k := (asciiLower_eq_nonLetter hk k).mpr rfl
    rw [hk']
    constructor
    · intro h; exact (asciiLower_eq_nonLetter hk d).mp h.symm
    · intro h; exact ((asciiLower_eq_nonLetter hk d).mpr h).symm

/-! ### classes -/

theorem any_mapCls_ne (ci : Bool) {d : Char} (hd : d ≠ '\\') (its : List ClsItem) :
    (mapCls its).any (fun x => x.hasCi ci d) = its.any (fun x => x.hasCi ci d) := by
  induction its with
  | nil => rfl
  | cons x rest ih =>
    unfold mapCls at ih ⊢
    simp only [List.flatMap_cons, List.any_append, List.any_cons, ih]
    congr 1
    split
    · rename_i hx
      subst hx
      have : bslashItem.hasCi ci d = false := by
        unfold bslashItem
        rw [chr_hasCi_nonLetter nonLetter_bs]
        simpa using hd
      simp [this]
    · simp

theorem any_mapCls_bs (ci : Bool) (its : List ClsItem) :
    (mapCls its).any (fun x => x.hasCi ci '\\') = (hasSlash its || its.any (fun x => x.has '\\')) := by
  induction its with
  | nil => rfl
  | cons x rest ih =>
    unfold mapCls at ih ⊢
    unfold hasSlash at ih ⊢
    simp only [List.flatMap_cons, List.any_append, List.any_cons, ih]
    split
    · rename_i hx
      subst hx
      have : bslashItem.hasCi ci '\\' = true := by
        unfold bslashItem
        rw [chr_hasCi_nonLetter nonLetter_bs]; rfl
      simp [this]
    · rename_i hx
      have : (x == slashItem) = false := by simpa using hx
      simp only [List.any_cons, List.any_nil, Bool.or_false, this, Bool.false_or, hasCi_bs]
      cases x.has '\\' <;> cases rest.any (fun x => x == slashItem) <;> simp

theorem any_slash_of_hasSlash {its : List ClsItem} (h : hasSlash its = true) :
    its.any (fun x => x.has '/') = true := by
  unfold hasSlash at h
  rw [List.any_eq_true] at h ⊢
  obtain ⟨x, hx, he⟩ := h
  have : x = slashItem := by simpa using he
  subst this
  exact ⟨_, hx, by decide⟩

/-- the key class fact: the mapped class on `d` is the class on the normalised `d` -/
theorem clsMatch_mapCls (ci neg : Bool) (its : List ClsItem)
    (hok : (hasSlash its || clsNeutral its) = true) (d : Char) :
    clsMatch ci neg (mapCls its) d = clsMatch ci neg its (nrm d) := by
  unfold clsMatch
  congr 1
  by_cases hd : d = '\\'
  · subst hd
    rw [nrm_bs, any_mapCls_bs]
    have e : its.any (fun x => x.hasCi ci '/') = its.any (fun x => x.has '/') := by
      congr 1; funext x; exact hasCi_slash x ci
    rw [e]
    cases hs : hasSlash its with
    | true => simp [any_slash_of_hasSlash hs]
    | false =>
      simp only [hs, Bool.false_or] at hok ⊢
      unfold clsNeutral at hok
      simpa using hok
  · rw [nrm_of_ne hd, any_mapCls_ne ci hd]

/-- without any side condition the two agree away from the separators -/
theorem clsMatch_mapCls_ne (ci neg : Bool) (its : List ClsItem) {d : Char} (hd : d ≠ '\\') :
    clsMatch ci neg (mapCls its) d = clsMatch ci neg its d := by
  unfold clsMatch
  rw [any_mapCls_ne ci hd]

theorem clsMatch_slash_of_hasSlash (ci : Bool) {g : List ClsItem} (h : hasSlash g = true) :
    clsMatch ci false g '/' = true := by
  unfold clsMatch
  have e : g.any (fun x => x.hasCi ci '/') = g.any (fun x => x.has '/') := by
    congr 1; funext x; exact hasCi_slash x ci
  rw [e, any_slash_of_hasSlash h]; rfl

theorem hasSlash_mapCls {g : List ClsItem} (h : hasSlash g = true) : hasSlash (mapCls g) = true := by
  unfold hasSlash at *
  rw [List.any_eq_true] at h ⊢
  obtain ⟨x, hx, he⟩ := h
  have : x = slashItem := by simpa using he
  subst this
  refine ⟨slashItem, ?_, by simp⟩
  unfold mapCls
  rw [List.mem_flatMap]
  exact ⟨slashItem, hx, by simp⟩

theorem clsMatch_bs_of_hasSlash (ci : Bool) {g : List ClsItem} (h : hasSlash g = true) :
    clsMatch ci false (mapCls g) '\\' = true := by
  unfold clsMatch
  rw [any_mapCls_bs, h]; rfl

/-! ### literals -/

theorem nrm_lit_plain (ci : Bool) {c : Char} (h1 : c ≠ '/') (h2 : c ≠ '\\') (d : Char) :
    charEq ci c d = charEq ci c (nrm d) := by
  by_cases hd : d = '\\'
  · subst hd
    rw [nrm_bs, charEq_nonLetter nonLetter_bs, charEq_nonLetter nonLetter_fslash]
    have e1 : (c == '\\') = false := by simpa using h2
    have e2 : (c == '/') = false := by simpa using h1
    rw [e1, e2]
  · rw [nrm_of_ne hd]

theorem nrm_lit_slash (ci : Bool) (d : Char) :
    clsMatch ci false (Frag.sepItems true) d = charEq ci '/' (nrm d) := by
  rw [charEq_nonLetter' nonLetter_fslash]
  unfold clsMatch Frag.sepItems
  simp only [ite_true, List.any_cons, List.any_nil, Bool.or_false,
    chr_hasCi_nonLetter nonLetter_bs, chr_hasCi_nonLetter nonLetter_fslash]
  rw [Bool.eq_iff_iff]
  simp only [bne_iff_ne, ne_eq, Bool.not_eq_false, Bool.or_eq_true, beq_iff_eq]
  exact (nrm_eq_slash d).symm

theorem nrm_lit_bs (ci : Bool) (d : Char) :
    clsMatch ci false [] d = charEq ci '\\' (nrm d) := by
  rw [charEq_nonLetter' nonLetter_bs]
  have : (nrm d == '\\') = false := by simpa using nrm_ne_bs d
  rw [this]; rfl

theorem nrm_any (dl : Bool) (d : Char) : anyMatch dl d = anyMatch dl (nrm d) := by
  unfold anyMatch
  congr 1
  rw [Bool.eq_iff_iff]
  simp only [bne_iff_ne, ne_eq]
  exact not_congr (nrm_eq_nl d).symm

/-! ### transfer lemmas -/

theorem consume1_nrm_fwd {p q : Char → Bool} (h : ∀ d, p d = q (nrm d)) {a b : St}
    (hm : consume1 p a b) : consume1 q (nrmS a) (nrmS b) := by
  obtain ⟨d, s, h1, h2, rfl⟩ := hm
  exact ⟨nrm d, nrmL s, by simp [h1], by rw [← h]; exact h2, rfl⟩

theorem consume1_nrm_bwd {p q : Char → Bool} (h : ∀ d, p d = q (nrm d)) {a : St} {b' : St}
    (hm : consume1 q (nrmS a) b') : ∃ b, nrmS b = b' ∧ consume1 p a b := by
  obtain ⟨d', s', h1, h2, rfl⟩ := hm
  rcases a with ⟨f, r⟩
  cases r with
  | nil => simp at h1
  | cons d s =>
    simp only [nrmS_rest, nrmL_cons, List.cons.injEq] at h1
    obtain ⟨rfl, rfl⟩ := h1
    exact ⟨⟨false, s⟩, rfl, d, s, rfl, by rw [h]; exact h2, rfl⟩

theorem Iter_nrm_fwd {R R' : St → St → Prop} (hR : ∀ a b, R a b → R' (nrmS a) (nrmS b)) {a b : St}
    (h : Iter R a b) : Iter R' (nrmS a) (nrmS b) := by
  induction h with
  | refl a => exact Iter.refl _
  | step hab _ ih => exact Iter.step (hR _ _ hab) ih

theorem Iter_nrm_bwd {R R' : St → St → Prop}
    (hR : ∀ a b', R' (nrmS a) b' → ∃ b, nrmS b = b' ∧ R a b) {a : St} {b' : St}
    (h : Iter R' (nrmS a) b') : ∃ b, nrmS b = b' ∧ Iter R a b := by
  generalize hx : nrmS a = x at h
  induction h generalizing a with
  | refl _ => exact ⟨a, hx, Iter.refl a⟩
  | step hab _ ih =>
    subst hx
    obtain ⟨m, hm1, hm2⟩ := hR _ _ hab
    obtain ⟨b, hb1, hb2⟩ := ih hm1
    exact ⟨b, hb1, Iter.step hm2 hb2⟩

theorem IterN_nrm_fwd {R R' : St → St → Prop} (hR : ∀ a b, R a b → R' (nrmS a) (nrmS b)) {n : Nat}
    {a b : St} (h : IterN R n a b) : IterN R' n (nrmS a) (nrmS b) := by
  induction h with
  | zero a => exact IterN.zero _
  | succ hab _ ih => exact IterN.succ (hR _ _ hab) ih

theorem IterN_nrm_bwd {R R' : St → St → Prop}
    (hR : ∀ a b', R' (nrmS a) b' → ∃ b, nrmS b = b' ∧ R a b) {n : Nat} {a : St} {b' : St}
    (h : IterN R' n (nrmS a) b') : ∃ b, nrmS b = b' ∧ IterN R n a b := by
  generalize hx : nrmS a = x at h
  induction h generalizing a with
  | zero _ => exact ⟨a, hx, IterN.zero a⟩
  | succ hab _ ih =>
    subst hx
    obtain ⟨m, hm1, hm2⟩ := hR _ _ hab
    obtain ⟨b, hb1, hb2⟩ := ih hm1
    exact ⟨b, hb1, IterN.succ hm2 hb2⟩

/-! ### guards -/

/-- Unix side: after a guard the next character is not `/` -/
theorem endGuard_U {g : Re} (hg : g.endGuard = true) (md : Mode) {x c : St} (hm : Re.M md g x c)
    {d : Char} {s : List Char} (hc : c.rest = d :: s) : d ≠ '/' := by
  have key : ∀ (its : List ClsItem) (y : St), hasSlash its = true →
      Re.M md (.look true (.cls false its)) y c → d ≠ '/' := by
    intro its y hs hl hd
    subst hd
    simp only [Re.M] at hl
    obtain ⟨rfl, hno⟩ := hl
    exact hno ⟨⟨false, s⟩, '/', s, hc, clsMatch_slash_of_hasSlash md.ci hs, rfl⟩
  unfold Re.endGuard at hg
  split at hg
  · exact key _ _ hg hm
  · simp only [Re.M] at hm
    obtain ⟨y, _, h2⟩ := hm
    exact key _ _ hg (by simpa only [Re.M] using h2)
  · cases hg

/-- Windows side: after the mapped guard the next character is neither separator -/
theorem endGuard_W {g : Re} (hg : g.endGuard = true) (md : Mode) {x c : St} (hm : Re.M md g.ms x c)
    {d : Char} {s : List Char} (hc : c.rest = d :: s) : d ≠ '/' ∧ d ≠ '\\' := by
  have key : ∀ (its : List ClsItem) (y : St), hasSlash its = true →
      Re.M md (.look true (.cls false (mapCls its))) y c → d ≠ '/' ∧ d ≠ '\\' := by
    intro its y hs hl
    simp only [Re.M] at hl
    obtain ⟨rfl, hno⟩ := hl
    constructor
    · intro hd; subst hd
      exact hno ⟨⟨false, s⟩, '/', s, hc,
        clsMatch_slash_of_hasSlash md.ci (hasSlash_mapCls hs), rfl⟩
    · intro hd; subst hd
      exact hno ⟨⟨false, s⟩, '\\', s, hc, clsMatch_bs_of_hasSlash md.ci hs, rfl⟩
  unfold Re.endGuard at hg
  split at hg
  · exact key _ _ hg (by simpa only [Re.ms] using hm)
  · simp only [Re.ms, Re.M] at hm
    obtain ⟨y, _, h2⟩ := hm
    exact key _ _ hg (by simpa only [Re.M] using h2)
  · cases hg

/-! ### the simulation -/

def MsFwd (r : Re) : Prop := ∀ md a b, Re.M md r.ms a b → Re.M md r (nrmS a) (nrmS b)
def MsBwd (r : Re) : Prop := ∀ md a b', Re.M md r (nrmS a) b' → ∃ b, nrmS b = b' ∧ Re.M md r.ms a b

theorem nrmS_inj_start {a b : St} (h : nrmS b = nrmS a) (hl : b.rest = a.rest) : b = a := by
  rcases a with ⟨f, r⟩; rcases b with ⟨f', r'⟩
  simp only [nrmS, St.mk.injEq] at h
  simp only at hl
  rw [h.1, hl]

theorem ms_sim (r : Re) : r.sepOK = true → MsFwd r ∧ MsBwd r := by
  induction r with
  | eps =>
    intro _
    refine ⟨fun md a b h => ?_, fun md a b' h => ?_⟩
    · simp only [Re.ms, Re.M] at h ⊢; rw [h]
    · simp only [Re.ms, Re.M] at h ⊢; exact ⟨a, h.symm, rfl⟩
  | lit c =>
    intro _
    by_cases h1 : c = '/'
    · subst h1
      refine ⟨fun md a b h => ?_, fun md a b' h => ?_⟩
      · simp only [Re.ms, ite_true, Re.M, Frag.sep] at h ⊢
        exact consume1_nrm_fwd (nrm_lit_slash md.ci) h
      · simp only [Re.ms, ite_true, Re.M, Frag.sep] at h ⊢
        exact consume1_nrm_bwd (nrm_lit_slash md.ci) h
    · by_cases h2 : c = '\\'
      · subst h2
        refine ⟨fun md a b h => ?_, fun md a b' h => ?_⟩
        · simp only [Re.ms, h1, ite_false, ite_true, Re.M] at h ⊢
          exact consume1_nrm_fwd (nrm_lit_bs md.ci) h
        · simp only [Re.ms, h1, ite_false, ite_true, Re.M] at h ⊢
          exact consume1_nrm_bwd (nrm_lit_bs md.ci) h
      · refine ⟨fun md a b h => ?_, fun md a b' h => ?_⟩
        · simp only [Re.ms, h1, h2, ite_false, Re.M] at h ⊢
          exact consume1_nrm_fwd (nrm_lit_plain md.ci h1 h2) h
        · simp only [Re.ms, h1, h2, ite_false, Re.M] at h ⊢
          exact consume1_nrm_bwd (nrm_lit_plain md.ci h1 h2) h
  | any =>
    intro _
    refine ⟨fun md a b h => ?_, fun md a b' h => ?_⟩
    · simp only [Re.ms, Re.M] at h ⊢; exact consume1_nrm_fwd (nrm_any md.dotall) h
    · simp only [Re.ms, Re.M] at h ⊢; exact consume1_nrm_bwd (nrm_any md.dotall) h
  | cls neg its =>
    intro hok
    simp only [Re.sepOK] at hok
    refine ⟨fun md a b h => ?_, fun md a b' h => ?_⟩
    · simp only [Re.ms, Re.M] at h ⊢; exact consume1_nrm_fwd (clsMatch_mapCls md.ci neg its hok) h
    · simp only [Re.ms, Re.M] at h ⊢; exact consume1_nrm_bwd (clsMatch_mapCls md.ci neg its hok) h
  | cat r₁ r₂ ih₁ ih₂ =>
    intro hok
    simp only [Re.sepOK, Bool.and_eq_true, Bool.or_eq_true] at hok
    obtain ⟨hok1, hok2⟩ := hok
    obtain ⟨f1, b1⟩ := ih₁ hok1
    rcases hok2 with hok2 | ⟨hg, hc⟩
    · obtain ⟨f2, b2⟩ := ih₂ hok2
      refine ⟨fun md a b h => ?_, fun md a b' h => ?_⟩
      · simp only [Re.ms, Re.M] at h ⊢
        obtain ⟨c, h1, h2⟩ := h
        exact ⟨nrmS c, f1 md _ _ h1, f2 md _ _ h2⟩
      · simp only [Re.ms, Re.M] at h ⊢
        obtain ⟨c', h1, h2⟩ := h
        obtain ⟨c, rfl, hc1⟩ := b1 md _ _ h1
        obtain ⟨b, rfl, hb⟩ := b2 md _ _ h2
        exact ⟨b, rfl, c, hc1, hb⟩
    · -- a user class behind its guard
      cases r₂ with
      | cls neg its =>
        refine ⟨fun md a b h => ?_, fun md a b' h => ?_⟩
        · simp only [Re.ms, Re.M] at h ⊢
          obtain ⟨c, h1, h2⟩ := h
          refine ⟨nrmS c, f1 md _ _ h1, ?_⟩
          obtain ⟨d, s, e1, e2, rfl⟩ := h2
          obtain ⟨_, hd2⟩ := endGuard_W hg md h1 e1
          refine ⟨d, nrmL s, by simp [e1, nrm_of_ne hd2], ?_, rfl⟩
          rw [← clsMatch_mapCls_ne md.ci neg its hd2]; exact e2
        · simp only [Re.ms, Re.M] at h ⊢
          obtain ⟨c', h1, h2⟩ := h
          obtain ⟨c, rfl, hc1⟩ := b1 md _ _ h1
          obtain ⟨d', s', e1, e2, rfl⟩ := h2
          rcases c with ⟨fc, rc⟩
          cases rc with
          | nil => simp at e1
          | cons d s =>
            simp only [nrmS_rest, nrmL_cons, List.cons.injEq] at e1
            obtain ⟨rfl, rfl⟩ := e1
            obtain ⟨_, hd2⟩ := endGuard_W hg md hc1 (c := ⟨fc, d :: s⟩) rfl
            refine ⟨⟨false, s⟩, rfl, ⟨fc, d :: s⟩, hc1, d, s, rfl, ?_, rfl⟩
            rw [clsMatch_mapCls_ne md.ci neg its hd2]
            rw [nrm_of_ne hd2] at e2
            exact e2
      | _ => simp [Re.isCls] at hc
  | alt r₁ r₂ ih₁ ih₂ =>
    intro hok
    simp only [Re.sepOK, Bool.and_eq_true] at hok
    obtain ⟨f1, b1⟩ := ih₁ hok.1
    obtain ⟨f2, b2⟩ := ih₂ hok.2
    refine ⟨fun md a b h => ?_, fun md a b' h => ?_⟩
    · simp only [Re.ms, Re.M] at h ⊢
      rcases h with h | h
      · exact Or.inl (f1 md _ _ h)
      · exact Or.inr (f2 md _ _ h)
    · simp only [Re.ms, Re.M] at h ⊢
      rcases h with h | h
      · obtain ⟨b, hb, hm⟩ := b1 md _ _ h; exact ⟨b, hb, Or.inl hm⟩
      · obtain ⟨b, hb, hm⟩ := b2 md _ _ h; exact ⟨b, hb, Or.inr hm⟩
  | grp r ih =>
    intro hok
    obtain ⟨f, b⟩ := ih (by simpa [Re.sepOK] using hok)
    exact ⟨fun md a b h => by simp only [Re.ms, Re.M] at h ⊢; exact f md _ _ h,
      fun md a b' h => by simp only [Re.ms, Re.M] at h ⊢; exact b md _ _ h⟩
  | cap r ih =>
    intro hok
    obtain ⟨f, b⟩ := ih (by simpa [Re.sepOK] using hok)
    exact ⟨fun md a b h => by simp only [Re.ms, Re.M] at h ⊢; exact f md _ _ h,
      fun md a b' h => by simp only [Re.ms, Re.M] at h ⊢; exact b md _ _ h⟩
  | gcap r ih =>
    intro hok
    obtain ⟨f, b⟩ := ih (by simpa [Re.sepOK] using hok)
    exact ⟨fun md a b h => by simp only [Re.ms, Re.M] at h ⊢; exact f md _ _ h,
      fun md a b' h => by simp only [Re.ms, Re.M] at h ⊢; exact b md _ _ h⟩
  | opt r ih =>
    intro hok
    obtain ⟨f, b⟩ := ih (by simpa [Re.sepOK] using hok)
    refine ⟨fun md a b h => ?_, fun md a b' h => ?_⟩
    · simp only [Re.ms, Re.M] at h ⊢
      rcases h with h | h
      · exact Or.inl (by rw [h])
      · exact Or.inr (f md _ _ h)
    · simp only [Re.ms, Re.M] at h ⊢
      rcases h with h | h
      · exact ⟨a, h.symm, Or.inl rfl⟩
      · obtain ⟨b0, hb, hm⟩ := b md _ _ h; exact ⟨b0, hb, Or.inr hm⟩
  | star l r ih =>
    intro hok
    obtain ⟨f, b⟩ := ih (by simpa [Re.sepOK] using hok)
    refine ⟨fun md a b h => ?_, fun md a b' h => ?_⟩
    · simp only [Re.ms, Re.M] at h ⊢; exact Iter_nrm_fwd (f md) h
    · simp only [Re.ms, Re.M] at h ⊢; exact Iter_nrm_bwd (b md) h
  | plus r ih =>
    intro hok
    obtain ⟨f, b⟩ := ih (by simpa [Re.sepOK] using hok)
    refine ⟨fun md a b h => ?_, fun md a b' h => ?_⟩
    · simp only [Re.ms, Re.M] at h ⊢
      obtain ⟨c, h1, h2⟩ := h
      exact ⟨nrmS c, f md _ _ h1, Iter_nrm_fwd (f md) h2⟩
    · simp only [Re.ms, Re.M] at h ⊢
      obtain ⟨c', h1, h2⟩ := h
      obtain ⟨c, rfl, hc1⟩ := b md _ _ h1
      obtain ⟨b0, hb, hm⟩ := Iter_nrm_bwd (b md) h2
      exact ⟨b0, hb, c, hc1, hm⟩
  | rep lo hi r ih =>
    intro hok
    obtain ⟨f, b⟩ := ih (by simpa [Re.sepOK] using hok)
    refine ⟨fun md a b h => ?_, fun md a b' h => ?_⟩
    · simp only [Re.ms, Re.M] at h ⊢
      obtain ⟨n, h1, h2, h3⟩ := h
      exact ⟨n, h1, h2, IterN_nrm_fwd (f md) h3⟩
    · simp only [Re.ms, Re.M] at h ⊢
      obtain ⟨n, h1, h2, h3⟩ := h
      obtain ⟨b0, hb, hm⟩ := IterN_nrm_bwd (b md) h3
      exact ⟨b0, hb, n, h1, h2, hm⟩
  | look neg r ih =>
    intro hok
    obtain ⟨F, B⟩ := ih (by simpa [Re.sepOK] using hok)
    cases neg with
    | false =>
      refine ⟨fun md a b h => ?_, fun md a b' h => ?_⟩
      · simp only [Re.ms, Re.M] at h ⊢
        obtain ⟨rfl, c, hc⟩ := h
        exact ⟨rfl, nrmS c, F md _ _ hc⟩
      · simp only [Re.ms, Re.M] at h ⊢
        obtain ⟨rfl, c', hc⟩ := h
        obtain ⟨c, _, hm⟩ := B md _ _ hc
        exact ⟨a, rfl, rfl, c, hm⟩
    | true =>
      refine ⟨fun md a b h => ?_, fun md a b' h => ?_⟩
      · simp only [Re.ms, Re.M] at h ⊢
        obtain ⟨rfl, hno⟩ := h
        refine ⟨rfl, ?_⟩
        rintro ⟨c', hc⟩
        obtain ⟨c, _, hm⟩ := B md _ _ hc
        exact hno ⟨c, hm⟩
      · simp only [Re.ms, Re.M] at h ⊢
        obtain ⟨rfl, hno⟩ := h
        refine ⟨a, rfl, rfl, ?_⟩
        rintro ⟨c, hc⟩
        exact hno ⟨nrmS c, F md _ _ hc⟩
  | bos =>
    intro _
    refine ⟨fun md a b h => ?_, fun md a b' h => ?_⟩
    · simp only [Re.ms, Re.M] at h ⊢; obtain ⟨rfl, h2⟩ := h; exact ⟨rfl, h2⟩
    · simp only [Re.ms, Re.M] at h ⊢; obtain ⟨rfl, h2⟩ := h; exact ⟨a, rfl, rfl, h2⟩
  | eos =>
    intro _
    refine ⟨fun md a b h => ?_, fun md a b' h => ?_⟩
    · simp only [Re.ms, Re.M] at h ⊢
      obtain ⟨rfl, h2⟩ := h
      exact ⟨rfl, by rw [nrmS_rest, atEos_nrm]; exact h2⟩
    · simp only [Re.ms, Re.M] at h ⊢
      obtain ⟨rfl, h2⟩ := h
      exact ⟨a, rfl, rfl, by rw [nrmS_rest, atEos_nrm] at h2; exact h2⟩
  | flags s i r ih =>
    intro hok
    obtain ⟨f, b⟩ := ih (by simpa [Re.sepOK] using hok)
    exact ⟨fun md a b h => by simp only [Re.ms, Re.M] at h ⊢; exact f _ _ _ h,
      fun md a b' h => by simp only [Re.ms, Re.M] at h ⊢; exact b _ _ _ h⟩

/-- **Windows regex on a name ⇔ Unix regex on the normalised name** -/
theorem ms_fullMatch (r : Re) (hok : r.sepOK = true) (name : List Char) :
    r.ms.FullMatch name ↔ r.FullMatch (nrmL name) := by
  obtain ⟨f, b⟩ := ms_sim r hok
  constructor
  · rintro ⟨e, h⟩
    exact ⟨e, f _ _ _ h⟩
  · rintro ⟨e, h⟩
    obtain ⟨b0, hb, hm⟩ := b ⟨false, false⟩ ⟨true, name⟩ ⟨e, []⟩ h
    rcases b0 with ⟨f0, r0⟩
    simp only [nrmS, St.mk.injEq] at hb
    obtain ⟨rfl, hr⟩ := hb
    have : r0 = [] := by cases r0 <;> simp_all [nrmL]
    subst this
    exact ⟨_, hm⟩

end WcModel

import WcModel.Proofs.ParseWF
/-
  C04 bridge, part 5: REALPATH does not change the pass — except for what `root` puts at the bottom
  of the item stack.

  `Cfg.realpath` is read in exactly one place of the faithful port: `root` pushes `'' _NO_ROOT`
  before the loop when the pattern is not rooted (the REALPATH *globstar capture* is a separate
  field, `globstarCapture`).  So every function of the pass is the same function for `cfg` and for
  `cfg.rp b` (= `cfg` with `realpath := b`): `rootLoop_rp`, `cleanUpInverse_rp`, ….
  This lets the theorems about the pass that assume `cfg.realpath = false` (`PPP.PathX`) be
  applied to the loop of a REALPATH run.
-/
namespace WcModel

@[reducible] def Cfg.rp (c : Cfg) (b : Bool) : Cfg := { c with realpath := b }

theorem Cfg.rp_self (c : Cfg) : c.rp c.realpath = c := rfl

theorem restrictExtendedSlash_rp (c : Cfg) (b : Bool) : restrictExtendedSlash (c.rp b) = restrictExtendedSlash c := rfl
theorem restrictSequence_rp (c : Cfg) (b : Bool) : restrictSequence (c.rp b) = restrictSequence c := rfl
theorem referencesSeq_rp (c : Cfg) (b : Bool) : referencesSeq (c.rp b) = referencesSeq c := rfl
theorem references_rp (c : Cfg) (b : Bool) : references (c.rp b) = references c := rfl
theorem qmarkItem_rp (c : Cfg) (b : Bool) : qmarkItem (c.rp b) = qmarkItem c := rfl
theorem consumePathSep_rp (c : Cfg) (b : Bool) : consumePathSep (c.rp b) = consumePathSep c := rfl
theorem hsSel_rp (c : Cfg) (b : Bool) : hsSel (c.rp b) = hsSel c := rfl
theorem hsStar_rp (c : Cfg) (b : Bool) : hsStar (c.rp b) = hsStar c := rfl
theorem hsBody_rp (c : Cfg) (b : Bool) : hsBody (c.rp b) = hsBody c := rfl
theorem peBuild_rp (c : Cfg) (b : Bool) : peBuild (c.rp b) = peBuild c := rfl

theorem handleStar_rp (c : Cfg) (b : Bool) : handleStar (c.rp b) = handleStar c := by
  funext ps it cur
  rw [handleStar_eq, handleStar_eq, hsSel_rp, hsStar_rp, hsBody_rp]

theorem seqLoop_rp (c : Cfg) (b : Bool) : ∀ fuel : Nat, seqLoop (c.rp b) fuel = seqLoop c fuel := by
  intro fuel
  induction fuel with
  | zero => funext ch it st; rfl
  | succ n ih =>
    funext ch it st
    rw [seqLoop, seqLoop, ih]
    rfl

theorem sequence_rp (c : Cfg) (b : Bool) : sequence (c.rp b) = sequence c := by
  funext ps it
  unfold sequence
  simp only [seqLoop_rp]
  rfl

theorem dotScan_rp (c : Cfg) (b : Bool) (inList : Bool) : ∀ fuel : Nat,
    dotScan (c.rp b) inList fuel = dotScan c inList fuel := by
  intro fuel
  induction fuel with
  | zero => funext it x y; rfl
  | succ n ih =>
    funext it x y
    rw [dotScan, dotScan, ih]
    rfl

theorem handleDot_rp (c : Cfg) (b : Bool) : handleDot (c.rp b) = handleDot c := by
  funext ps it
  unfold handleDot
  simp only [dotScan_rp]
  rfl

theorem cleanUpGo_rp (c : Cfg) (b : Bool) (nested : Bool) : ∀ (rev done : List Item) (n : Nat),
    cleanUpGo (c.rp b) nested rev done n = cleanUpGo c nested rev done n := by
  intro rev
  induction rev with
  | nil => intro done n; rfl
  | cons x rest ih =>
    intro done n
    cases x with
    | ph star => simp only [cleanUpGo]; rw [ih]; rfl
    | _ => simp only [cleanUpGo]; rw [ih]

theorem cleanUpInverse_rp (c : Cfg) (b : Bool) : cleanUpInverse (c.rp b) = cleanUpInverse c := by
  funext ps cur nested
  unfold cleanUpInverse
  simp only [cleanUpGo_rp]

theorem peClose_rp (c : Cfg) (b : Bool) : peClose (c.rp b) = peClose c := by
  funext ps0 it r
  unfold peClose
  simp only [cleanUpInverse_rp]

theorem elCont_rp (c : Cfg) (b : Bool) (n : Nat) (hEL : extLoop (c.rp b) n = extLoop c n) :
    elCont (c.rp b) n = elCont c n := by
  funext ch x y ps it ext upd
  unfold elCont
  simp only [hEL]

theorem elOther_rp (c : Cfg) (b : Bool) (n : Nat) (hEL : extLoop (c.rp b) n = extLoop c n) :
    elOther (c.rp b) n = elOther c n := by
  funext ch x y ps it ext
  unfold elOther
  simp only [elCont_rp c b n hEL, handleStar_rp, handleDot_rp, qmarkItem_rp, restrictExtendedSlash_rp,
    cleanUpInverse_rp, references_rp, sequence_rp]
  rfl

theorem ext_rp (c : Cfg) (b : Bool) : ∀ n : Nat,
    parseExtend (c.rp b) n = parseExtend c n ∧ extLoop (c.rp b) n = extLoop c n
  | 0 => by
    refine ⟨?_, ?_⟩
    · funext lt it ps cur rd; rw [parseExtend, parseExtend]
    · funext it ps ext x y; rw [extLoop, extLoop]
  | n+1 => by
    have ih := ext_rp c b n
    refine ⟨?_, ?_⟩
    · funext lt it ps cur rd
      rw [parseExtend_succ, parseExtend_succ, ih.2, peClose_rp, peBuild_rp]
    · funext it ps ext x y
      rw [extLoop_succ, extLoop_succ, ih.1, elCont_rp c b n ih.2, elOther_rp c b n ih.2]

theorem parseExtend_rp (c : Cfg) (b : Bool) (n : Nat) : parseExtend (c.rp b) n = parseExtend c n := (ext_rp c b n).1

theorem rlOther_rp (c : Cfg) (b : Bool) (n : Nat) (ih : rootLoop (c.rp b) n = rootLoop c n) :
    rlOther (c.rp b) n = rlOther c n := by
  funext ch ps it cur
  unfold rlOther
  simp only [ih, handleStar_rp, handleDot_rp, qmarkItem_rp, consumePathSep_rp, cleanUpInverse_rp, references_rp,
    sequence_rp]
  rfl

/-- **the top-level loop does not look at `realpath`** -/
theorem rootLoop_rp (c : Cfg) (b : Bool) : ∀ n : Nat, rootLoop (c.rp b) n = rootLoop c n
  | 0 => by funext it ps cur; rw [rootLoop, rootLoop]
  | n+1 => by
    have ih := rootLoop_rp c b n
    funext it ps cur
    rw [rootLoop_succ, rootLoop_succ, ih, rlOther_rp c b n ih]
    simp only [parseExtend_rp]

end WcModel

import WcModel.Proofs.LiteralPath
import WcModel.Proofs.EscapeWinFn
import WcModel.Proofs.WinUnixMap
/-
  C09 under Windows rules, part (2): PATH MODE with FORCEWIN, pattern without a drive.

  What the faithful port emits for a pattern made of literal units (`printToks ts`, in particular
  `escape(s)`) under Windows rules in path mode (`unix = false`, `winDriveDetect = bslashAbort =
  true`): the items of the UNIX run on the separator-normalised string (`\` ↦ `/`), mapped by
  `Re.ms` (`[/]+` ↦ `[\\/]+`, the guarded dot with `[\\/]`, …):

      rootLoop cfg … (printToks ts)  =  (pathRes cfg st (nrmL (tokChars ts))).map (·.ms)

  The new ingredients with respect to `LiteralPath.lean`: the escaped backslash `\\` is a
  separator (`_references` aborts with `PathNameException`), `consume_path_sep` is the Windows
  flavour (it counts backslashes and rewinds before a lone one), `_handle_dot`'s look-ahead sees
  `\\` as a separator.

  The loop theorem `rootLoop_plitsW` is stated for an arbitrary start position / iterator index /
  `current` list so that part (3) (a drive in front) can reuse it.
-/
set_option linter.unusedSimpArgs false
namespace WcModel

/-- path mode, Windows rules (what `Cfg.ofFlags` gives for PATHNAME | FORCEWIN) -/
structure PathWin (cfg : Cfg) : Prop where
  pathname : cfg.pathname = true
  unix : cfg.unix = false
  bslash : cfg.bslashAbort = true
  wdd : cfg.winDriveDetect = true

theorem PathWin.win {cfg : Cfg} (h : PathWin cfg) : cfg.win = true := by simp [Cfg.win, h.unix]

/-! ### separators among the units -/

theorem pokTok_bs_esc {cfg : Cfg} {t : LTok} {rest : List LTok} (h : pokTok cfg t rest) (hc : t.c = '\\') :
    t.esc = true := by
  rcases h with ⟨h, _⟩ | ⟨_, _, _, _, h, _⟩
  · exact h
  · exact absurd hc h

theorem tok_eq_esc {t : LTok} (he : t.esc = true) : t = ⟨t.c, true⟩ := by
  cases t; simp_all

theorem printToks_esc (c : Char) (r : List LTok) : printToks (⟨c, true⟩ :: r) = '\\' :: c :: printToks r := by
  simp [printToks_cons, LTok.print]

theorem nrm_slash : nrm '/' = '/' := by decide

theorem nrm_nonsep {c : Char} (h : isSepW c = false) : nrm c = c ∧ c ≠ '/' ∧ c ≠ '\\' := by
  have : ¬ (c = '/' ∨ c = '\\') := by rw [← isSepW_iff]; simp [h]
  have h1 : c ≠ '/' := fun e => this (.inl e)
  have h2 : c ≠ '\\' := fun e => this (.inr e)
  exact ⟨nrm_of_ne h2, h1, h2⟩

theorem isSepW_false_of {c : Char} (h1 : c ≠ '/') (h2 : c ≠ '\\') : isSepW c = false := by
  simp [isSepW, h1, h2]

/-! ### one iteration of the `root` loop on each kind of unit (path mode, Windows rules) -/

/-- a separator `/`: `[\\/]+`, and `consume_path_sep` (Windows flavour) skips the rest of the run -/
theorem rootLoop_pslashW (cfg : Cfg) (h : PathWin cfg) (fuel i : Nat) (rest : List Char) (ps : PS)
    (cur : List Item) (hinv : TopInv ps) :
    rootLoop cfg (fuel + 1) ⟨i, '/' :: rest⟩ ps cur =
      rootLoop cfg fuel (consumeWin (rest.length + 1) ⟨i + 1, rest⟩ ⟨i + 1, rest⟩ 0)
        ({ ps.setStartDir with matchbase := false } : PS).updateDirState (.re (Frag.sepPlus true) :: cur) := by
  have hwin := h.win
  have hcl : cleanUpInverse cfg ps.setStartDir cur false = (cur, ps.setStartDir) := by
    simp [cleanUpInverse, PS.setStartDir, hinv.inv0]
  conv => lhs; unfold rootLoop
  simp [It.next, slash_not_ext, h.pathname, hcl, consumePathSep, h.bslash, hwin]

/-- the escaped backslash `\\`: exactly the same -/
theorem rootLoop_pbsW (cfg : Cfg) (h : PathWin cfg) (fuel i : Nat) (rest : List Char) (ps : PS)
    (cur : List Item) (hinv : TopInv ps) :
    rootLoop cfg (fuel + 1) ⟨i, '\\' :: '\\' :: rest⟩ ps cur =
      rootLoop cfg fuel (consumeWin (rest.length + 1) ⟨i + 2, rest⟩ ⟨i + 2, rest⟩ 0)
        ({ ps.setStartDir with matchbase := false } : PS).updateDirState (.re (Frag.sepPlus true) :: cur) := by
  have hwin := h.win
  have hcl : cleanUpInverse cfg ps.setStartDir cur false = (cur, ps.setStartDir) := by
    simp [cleanUpInverse, PS.setStartDir, hinv.inv0]
  conv => lhs; unfold rootLoop
  simp only [It.next, bs_not_ext, decide_false, Bool.and_false, Bool.false_eq_true, ite_false]
  simp [references, It.next, h.bslash, hinv.inList, PS.setStartDir, hcl, consumePathSep, hwin,
    cleanUpInverse, hinv.inv0]

/-- an escaped character other than `.`, `/` and `\` -/
theorem rootLoop_pescW (cfg : Cfg) (fuel i : Nat) (c : Char) (rest : List Char) (ps : PS)
    (cur : List Item) (hinv : TopInv ps) (hd : c ≠ '.') (hs : c ≠ '/') (hb : c ≠ '\\') :
    rootLoop cfg (fuel + 1) ⟨i, '\\' :: c :: rest⟩ ps cur =
      rootLoop cfg fuel ⟨i + 2, rest⟩ ps.updateDirState (.re (.lit c) :: cur) := by
  conv => lhs; unfold rootLoop
  simp only [It.next, bs_not_ext, decide_false, Bool.and_false, Bool.false_eq_true, ite_false]
  simp [references, It.next, hb, hs, hd, hinv.dirStart]

/-! ### `consume_path_sep`, Windows flavour, on the rest of a literal pattern -/

/-- the separators (`/`, `\\`) are skipped, they emit nothing, and what is left does not begin with
    one; a backslash that escapes the next unit is put back -/
theorem consumeWin_toks (cfg : Cfg) : ∀ (r : List LTok) (fuel i : Nat) (prev : It) (count : Int),
    pokToks cfg r → count % 2 = 0 → 0 ≤ count → (printToks r).length + 1 ≤ fuel →
    ∃ k r', consumeWin fuel ⟨i, printToks r⟩ prev count = ⟨i + k, printToks r'⟩ ∧ pokToks cfg r' ∧
      (∀ t r'', r' = t :: r'' → isSepW t.c = false) ∧
      pathRes cfg .sep (nrmL (tokChars r)) = pathRes cfg .sep (nrmL (tokChars r')) ∧
      r'.length ≤ r.length ∧ (printToks r').length + k ≤ (printToks r).length := by
  intro r
  induction r with
  | nil =>
    intro fuel i prev count _ _ _ hf
    obtain ⟨f, rfl⟩ : ∃ f, fuel = f + 1 := ⟨fuel - 1, by simp [printToks] at hf; omega⟩
    exact ⟨0, [], by simp [consumeWin, printToks, It.next], trivial, (fun t r'' e => by cases e), rfl,
      Nat.le_refl _, Nat.le_refl _⟩
  | cons t r ih =>
    intro fuel i prev count hok hcount hpos hf
    have hc2 : (count % 2 != 0) = false := by simp [hcount]
    by_cases hs : t.c = '/'
    · have he := pokTok_slash_unesc hok.1 hs
      rw [tok_eq_unesc he, hs, printToks_unesc] at hf ⊢
      obtain ⟨f, rfl⟩ : ∃ f, fuel = f + 1 := ⟨fuel - 1, by simp at hf; omega⟩
      obtain ⟨k, r', e1, e2, e3, e4, e5, e6⟩ := ih f (i + 1) ⟨i, '/' :: printToks r⟩ (count + 2) hok.2
        (by omega) (by omega) (by simp at hf; omega)
      refine ⟨k + 1, r', ?_, e2, e3, ?_, by simp; omega, by simp; omega⟩
      · rw [consumeWin]
        simp only [It.next, hc2]
        have n1 : (('/' : Char) = '\\') = False := by decide
        simp only [n1, ite_false, ite_true, Bool.false_eq_true]
        rw [e1]
        simp; omega
      · simp only [tokChars, List.map_cons, nrmL_cons, nrm_slash, pathRes, ite_true] at e4 ⊢
        exact e4
    by_cases hb : t.c = '\\'
    · have he := pokTok_bs_esc hok.1 hb
      rw [tok_eq_esc he, hb, printToks_esc] at hf ⊢
      obtain ⟨f, rfl⟩ : ∃ f, fuel = f + 2 := ⟨fuel - 2, by simp at hf; omega⟩
      obtain ⟨k, r', e1, e2, e3, e4, e5, e6⟩ := ih f (i + 2) ⟨i + 1, '\\' :: printToks r⟩ (count + 1 + 1) hok.2
        (by omega) (by omega) (by simp at hf; omega)
      refine ⟨k + 2, r', ?_, e2, e3, ?_, by simp; omega, by simp; omega⟩
      · rw [consumeWin]
        simp only [It.next, ite_true]
        rw [consumeWin]
        simp only [It.next, ite_true]
        rw [e1]
        simp; omega
      · simp only [tokChars, List.map_cons, nrmL_cons, nrm_bs, pathRes, ite_true] at e4 ⊢
        exact e4
    · -- not a separator: stop (before the escaping backslash, if any)
      refine ⟨0, t :: r, ?_, hok, ?_, rfl, Nat.le_refl _, Nat.le_refl _⟩
      · rw [printToks_cons]
        cases he : t.esc with
        | true =>
          simp only [LTok.print, he, ite_true, List.cons_append, List.nil_append, printToks_cons,
            List.length_cons, List.length_append] at hf ⊢
          obtain ⟨f, rfl⟩ : ∃ f, fuel = f + 2 := ⟨fuel - 2, by omega⟩
          rw [consumeWin]
          simp only [It.next, ite_true]
          rw [consumeWin]
          simp only [It.next, hb, hs, ite_false]
          have : (decide (count + 1 > 0) && (count + 1) % 2 != 0) = true := by
            simp only [Bool.and_eq_true, decide_eq_true_eq, bne_iff_ne, ne_eq]
            constructor <;> omega
          simp [this]
        | false =>
          simp only [LTok.print, he, Bool.false_eq_true, ite_false, List.cons_append, List.nil_append,
            List.length_cons] at hf ⊢
          obtain ⟨f, rfl⟩ : ∃ f, fuel = f + 1 := ⟨fuel - 1, by omega⟩
          rw [consumeWin]
          simp [It.next, hb, hs, hc2]
      · intro t' r'' e
        injection e with e1 _
        subst e1
        exact isSepW_false_of hs hb

/-! ### `_handle_dot` on the rest of a literal pattern (Windows rules) -/

/-- the look-ahead scan stops with "neither" at a backslash escape that is not a separator or dot -/
theorem dotScan_escW (cfg : Cfg) (fuel i : Nat) (c : Char) (rest : List Char) (cur prev : Bool)
    (hd : c ≠ '.') (hs : c ≠ '/') (hb : c ≠ '\\') :
    dotScan cfg false (fuel + 1) ⟨i, '\\' :: c :: rest⟩ cur prev = (false, false) := by
  unfold dotScan
  have e1 : (('\\' : Char) = '.') = False := by decide
  have e2 : (('\\' : Char) = '|') = False := by decide
  have e3 : (('\\' : Char) = ')') = False := by decide
  simp only [It.next, e1, e2, e3, decide_false, Bool.false_and, Bool.false_eq_true, ite_false, Bool.or_self,
    Bool.and_false, ite_true]
  simp [referencesSeq, It.next, hb, hs, hd]

/-- … and passes the escaped backslash `\\` as it passes `/` -/
theorem dotScan_bsbs (cfg : Cfg) (h : PathWin cfg) (fuel i : Nat) (rest : List Char) (cur prev : Bool) :
    dotScan cfg false (fuel + 1) ⟨i, '\\' :: '\\' :: rest⟩ cur prev = (cur, prev) := by
  unfold dotScan
  have e1 : (('\\' : Char) = '.') = False := by decide
  have e2 : (('\\' : Char) = '|') = False := by decide
  have e3 : (('\\' : Char) = ')') = False := by decide
  simp only [It.next, e1, e2, e3, decide_false, Bool.false_and, Bool.false_eq_true, ite_false, Bool.or_self,
    Bool.and_false, ite_true]
  simp [referencesSeq, It.next, h.bslash]

/-- the first unit is not a dot or a separator: the scan says "neither" -/
theorem dotScan_otherW (cfg : Cfg) (fuel i : Nat) (t : LTok) (r : List LTok) (cur prev : Bool)
    (hok : pokTok cfg t r) (hd : t.c ≠ '.') (hs : t.c ≠ '/') (hb : t.c ≠ '\\') :
    dotScan cfg false (fuel + 1) ⟨i, printToks (t :: r)⟩ cur prev = (false, false) := by
  rw [printToks_cons]
  rcases hok with ⟨he, _⟩ | ⟨he, _, _, _, _, _⟩
  · simp only [LTok.print, he, ite_true, List.cons_append, List.nil_append]
    exact dotScan_escW cfg fuel i t.c _ cur prev hd hs hb
  · simp only [LTok.print, he, Bool.false_eq_true, ite_false, List.cons_append, List.nil_append]
    exact dotScan_plainPath cfg fuel i t.c _ cur prev hd hs hb

/-- a separator unit in front: the scan returns its two flags unchanged -/
theorem dotScan_sepTok (cfg : Cfg) (h : PathWin cfg) (fuel i : Nat) (t : LTok) (r : List LTok) (cur prev : Bool)
    (hok : pokTok cfg t r) (hs : isSepW t.c = true) :
    dotScan cfg false (fuel + 1) ⟨i, printToks (t :: r)⟩ cur prev = (cur, prev) := by
  rcases (isSepW_iff _).mp hs with hc | hc
  · rw [tok_eq_unesc (pokTok_slash_unesc hok hc), hc, printToks_unesc]
    exact dotScan_slash cfg fuel i _ cur prev
  · rw [tok_eq_esc (pokTok_bs_esc hok hc), hc, printToks_esc]
    exact dotScan_bsbs cfg h fuel i _ cur prev

theorem dotPlain_nrm_sep {c : Char} (hs : isSepW c = true) (r : List Char) : dotPlain (nrm c :: r) = true := by
  have : nrm c = '/' := (nrm_eq_slash c).mpr ((isSepW_iff c).mp hs).symm
  rw [this]; simp [dotPlain]

theorem dotScan_toksW (cfg : Cfg) (h : PathWin cfg) (i : Nat) (r : List LTok) (hok : pokToks cfg r) :
    (!(dotScan cfg false ((printToks r).length + 1) ⟨i, printToks r⟩ true false).1 &&
      !(dotScan cfg false ((printToks r).length + 1) ⟨i, printToks r⟩ true false).2) =
        !dotPlain (nrmL (tokChars r)) := by
  cases r with
  | nil => simp [printToks, dotScan_nil, dotPlain, tokChars]
  | cons t r =>
    by_cases hs : isSepW t.c = true
    · rw [dotScan_sepTok cfg h _ i t r true false hok.1 hs]
      simp [tokChars, dotPlain_nrm_sep hs]
    have hs' : isSepW t.c = false := by simpa using hs
    obtain ⟨n1, n2, n3⟩ := nrm_nonsep hs'
    by_cases hd : t.c = '.'
    · have he : t.esc = false := by
        rcases hok.1 with ⟨_, h1, _⟩ | ⟨h1, _⟩
        · exact absurd hd h1
        · exact h1
      rw [tok_eq_unesc he, hd, printToks_unesc]
      have step : ∀ f, dotScan cfg false (f + 1) ⟨i, '.' :: printToks r⟩ true false =
          dotScan cfg false f ⟨i + 1, printToks r⟩ false true := by
        intro f
        conv => lhs; unfold dotScan
        simp [It.next]
      rw [step]
      cases r with
      | nil => simp [printToks, dotScan_nil, dotPlain, tokChars, nrm]
      | cons t2 r' =>
        obtain ⟨f, hf⟩ : ∃ f, ('.' :: printToks (t2 :: r')).length = f + 1 :=
          ⟨(printToks (t2 :: r')).length, by simp⟩
        rw [hf]
        have nd : nrm '.' = '.' := by decide
        by_cases hs2 : isSepW t2.c = true
        · rw [dotScan_sepTok cfg h f (i + 1) t2 r' false true hok.2.1 hs2]
          have : nrm t2.c = '/' := (nrm_eq_slash t2.c).mpr ((isSepW_iff t2.c).mp hs2).symm
          simp [dotPlain, tokChars, nd, this]
        have hs2' : isSepW t2.c = false := by simpa using hs2
        obtain ⟨m1, m2, m3⟩ := nrm_nonsep hs2'
        by_cases hd2 : t2.c = '.'
        · have he2 : t2.esc = false := by
            rcases hok.2.1 with ⟨_, h1, _⟩ | ⟨h1, _⟩
            · exact absurd hd2 h1
            · exact h1
          rw [tok_eq_unesc he2, hd2, printToks_unesc]
          have : dotScan cfg false (f + 1) ⟨i + 1, '.' :: printToks r'⟩ false true = (false, false) := by
            unfold dotScan
            simp [It.next]
          rw [this]
          simp [dotPlain, tokChars, nd]
        · rw [dotScan_otherW cfg f (i + 1) t2 r' false true hok.2.1 hd2 m2 m3]
          simp [dotPlain, tokChars, nd, m1, m2, hd2]
    · rw [dotScan_otherW cfg _ i t r true false hok.1 hd n2 n3]
      simp [dotPlain, tokChars, n1, n2, hd]

theorem dotRe_ms (cfg : Cfg) (after : Bool) (r : List Char) :
    (dotRe cfg after r).ms = if after && cfg.nodotdir && !dotPlain r then Frag.guardedDot true else .lit '.' := by
  unfold dotRe
  split <;> simp

theorem handleDot_toksW (cfg : Cfg) (h : PathWin cfg) (ps : PS) (hinv : TopInv ps) (i : Nat) (r : List LTok)
    (hok : pokToks cfg r) :
    handleDot cfg ps ⟨i, printToks r⟩ = (dotRe cfg ps.afterStart (nrmL (tokChars r))).ms := by
  have hwin := h.win
  rw [dotRe_ms]
  unfold handleDot
  simp only [h.pathname, Bool.and_true, hinv.inList, hwin]
  by_cases hc : (ps.afterStart && cfg.nodotdir) = true
  · simp only [hc, ite_true, Bool.true_and]
    have := dotScan_toksW cfg h i r hok
    generalize dotScan cfg false ((printToks r).length + 1) ⟨i, printToks r⟩ true false = p at this
    obtain ⟨a, b⟩ := p
    simp only at this ⊢
    rw [this]
  · simp [hc]

/-! ### the whole loop -/

/-- the Windows fragments: the Unix fragments of the normalised string, mapped -/
def pathResW (cfg : Cfg) (st : LPos) (s : List Char) : List Item :=
  (pathRes cfg st (nrmL s)).map (fun r => Item.re r.ms)

theorem pathResW_nil (cfg : Cfg) (st : LPos) : pathResW cfg st [] = [] := rfl

theorem pathResW_sep (cfg : Cfg) (st : LPos) (hst : st ≠ .sep) {c : Char} (hc : isSepW c = true) (r : List Char) :
    pathResW cfg st (c :: r) = .re (Frag.sepPlus true) :: pathResW cfg .sep r := by
  have : nrm c = '/' := (nrm_eq_slash c).mpr ((isSepW_iff c).mp hc).symm
  simp [pathResW, pathRes, this, hst]

theorem pathResW_dot (cfg : Cfg) (st : LPos) (r : List Char) :
    pathResW cfg st ('.' :: r) = .re (dotRe cfg st.after (nrmL r)).ms :: pathResW cfg .mid r := by
  have nd : nrm '.' = '.' := by decide
  simp [pathResW, pathRes, nd]

theorem pathResW_lit (cfg : Cfg) (st : LPos) {c : Char} (hs : isSepW c = false) (hd : c ≠ '.') (r : List Char) :
    pathResW cfg st (c :: r) = .re (.lit c) :: pathResW cfg .mid r := by
  obtain ⟨n1, n2, n3⟩ := nrm_nonsep hs
  simp [pathResW, pathRes, n1, n2, hd, Re.ms_lit_of n2 n3]

/-- **the loop of `root` on a literal pattern**, any run of units, any flags of path mode / Windows rules -/
theorem rootLoop_plitsW (cfg : Cfg) (h : PathWin cfg) : ∀ (n : Nat) (ts : List LTok), ts.length ≤ n →
    ∀ (fuel i : Nat) (ps : PS) (cur : List Item) (st : LPos), pokToks cfg ts → TopInv ps →
      ps.afterStart = st.after → (st = .sep → ∀ t r, ts = t :: r → isSepW t.c = false) →
      (printToks ts).length + 1 ≤ fuel →
      ∃ ps', rootLoop cfg fuel ⟨i, printToks ts⟩ ps cur =
          (ps', (pathResW cfg st (tokChars ts)).reverse ++ cur) ∧ TopInv ps' := by
  intro n
  induction n with
  | zero =>
    intro ts hs fuel i ps cur st _ hinv _ _ hf
    have : ts = [] := List.eq_nil_of_length_eq_zero (Nat.le_zero.mp hs)
    subst this
    cases fuel with
    | zero => simp at hf
    | succ f => exact ⟨ps, by simp [printToks, rootLoop, It.next, pathResW_nil, tokChars], hinv⟩
  | succ n ih =>
    intro ts hs fuel i ps cur st hok hinv haft hsep hf
    cases ts with
    | nil =>
      cases fuel with
      | zero => simp at hf
      | succ f => exact ⟨ps, by simp [printToks, rootLoop, It.next, pathResW_nil, tokChars], hinv⟩
    | cons t r =>
      have hr : r.length ≤ n := by simpa using hs
      obtain ⟨hk, hrest⟩ := hok
      by_cases hsw : isSepW t.c = true
      · -- a separator: the rest of the run is skipped
        have hst : st ≠ .sep := fun e => by rw [hsep e t r rfl] at hsw; cases hsw
        obtain ⟨i1, i2⟩ := hinv.afterSep
        rcases (isSepW_iff _).mp hsw with hsl | hbs
        · have he := pokTok_slash_unesc hk hsl
          rw [tok_eq_unesc he, hsl, printToks_unesc] at hf ⊢
          obtain ⟨f, rfl⟩ : ∃ f, fuel = f + 1 := ⟨fuel - 1, by simp at hf; omega⟩
          rw [rootLoop_pslashW cfg h f i _ ps cur hinv]
          obtain ⟨k, r', c1, c2, c3, c4, c5, c6⟩ := consumeWin_toks cfg r ((printToks r).length + 1) (i + 1)
            ⟨i + 1, printToks r⟩ 0 hrest (by decide) (by decide) (Nat.le_refl _)
          rw [c1]
          obtain ⟨ps', e1, e2⟩ := ih r' (Nat.le_trans c5 hr) f (i + 1 + k) _ (.re (Frag.sepPlus true) :: cur) .sep c2 i1
            (by rw [i2]; rfl) (fun _ => c3) (by simp at hf; omega)
          refine ⟨ps', ?_, e2⟩
          rw [e1]
          have : tokChars (⟨'/', false⟩ :: r) = '/' :: tokChars r := rfl
          rw [this, pathResW_sep cfg st hst (by decide)]
          unfold pathResW
          rw [c4]
          simp
        · have he := pokTok_bs_esc hk hbs
          rw [tok_eq_esc he, hbs, printToks_esc] at hf ⊢
          obtain ⟨f, rfl⟩ : ∃ f, fuel = f + 1 := ⟨fuel - 1, by simp at hf; omega⟩
          rw [rootLoop_pbsW cfg h f i _ ps cur hinv]
          obtain ⟨k, r', c1, c2, c3, c4, c5, c6⟩ := consumeWin_toks cfg r ((printToks r).length + 1) (i + 2)
            ⟨i + 2, printToks r⟩ 0 hrest (by decide) (by decide) (Nat.le_refl _)
          rw [c1]
          obtain ⟨ps', e1, e2⟩ := ih r' (Nat.le_trans c5 hr) f (i + 2 + k) _ (.re (Frag.sepPlus true) :: cur) .sep c2 i1
            (by rw [i2]; rfl) (fun _ => c3) (by simp at hf; omega)
          refine ⟨ps', ?_, e2⟩
          rw [e1]
          have : tokChars (⟨'\\', true⟩ :: r) = '\\' :: tokChars r := rfl
          rw [this, pathResW_sep cfg st hst (by decide)]
          unfold pathResW
          rw [c4]
          simp
      · have hsw' : isSepW t.c = false := by simpa using hsw
        obtain ⟨n1, hsl, hbs⟩ := nrm_nonsep hsw'
        obtain ⟨i1, i2⟩ := hinv.afterNonSep
        rw [printToks_cons] at hf ⊢
        have htc : tokChars (t :: r) = t.c :: tokChars r := rfl
        by_cases hd : t.c = '.'
        · -- a dot
          have he : t.esc = false := by
            rcases hk with ⟨_, h1, _⟩ | ⟨h1, _⟩
            · exact absurd hd h1
            · exact h1
          simp only [LTok.print, he, Bool.false_eq_true, ite_false, List.cons_append, List.nil_append, hd,
            List.length_cons] at hf ⊢
          obtain ⟨f, rfl⟩ : ∃ f, fuel = f + 1 := ⟨fuel - 1, by omega⟩
          rw [rootLoop_pdot, handleDot_toksW cfg h ps hinv _ r hrest, haft]
          obtain ⟨ps', e1, e2⟩ := ih r hr f (i + 1) _ (.re (dotRe cfg st.after (nrmL (tokChars r))).ms :: cur) .mid
            hrest i1 (by rw [i2]; rfl) (fun e => by cases e) (by omega)
          refine ⟨ps', ?_, e2⟩
          rw [e1, htc, hd, pathResW_dot]
          simp
        · rcases hk with ⟨he, _, _⟩ | ⟨he, h1, h2, h3, h4, hext⟩
          · -- `\c`
            simp only [LTok.print, he, ite_true, List.cons_append, List.nil_append, List.length_cons] at hf ⊢
            obtain ⟨f, rfl⟩ : ∃ f, fuel = f + 1 := ⟨fuel - 1, by omega⟩
            rw [rootLoop_pescW cfg f i t.c _ ps cur hinv hd hsl hbs]
            obtain ⟨ps', e1, e2⟩ := ih r hr f (i + 2) _ (.re (.lit t.c) :: cur) .mid hrest i1
              (by rw [i2]; rfl) (fun e => by cases e) (by omega)
            refine ⟨ps', ?_, e2⟩
            rw [e1, htc, pathResW_lit cfg st hsw' hd]
            simp
          · -- an ordinary character
            simp only [LTok.print, he, Bool.false_eq_true, ite_false, List.cons_append, List.nil_append,
              List.length_cons] at hf ⊢
            obtain ⟨f, rfl⟩ : ∃ f, fuel = f + 1 := ⟨fuel - 1, by omega⟩
            rw [rootLoop_pplain cfg f i t.c _ ps cur hinv h1 h2 h3 h4 hd hsl
              (fun e m => head_printToks_ne_paren r (hext e m))]
            obtain ⟨ps', e1, e2⟩ := ih r hr f (i + 1) _ (.re (.lit t.c) :: cur) .mid hrest i1
              (by rw [i2]; rfl) (fun e => by cases e) (by omega)
            refine ⟨ps', ?_, e2⟩
            rw [e1, htc, pathResW_lit cfg st hsw' hd]
            simp

/-! ### `root` and `_parse` (no drive) -/

/-- glob entry conditions on the configuration: path mode, Windows rules, no MATCHBASE, the pattern
    may be absolute, no REALPATH (there the pass puts `_NO_WIN_ROOT` in front, which also refuses a
    leading `x:` — see `C09win.realpath_letter_colon`) -/
structure PathWinEntry (cfg : Cfg) : Prop extends PathWin cfg where
  anchor : cfg.anchor = false
  matchbase : cfg.matchbase0 = false
  extmatchbase : cfg.extmatchbase0 = false
  noAbs : cfg.noAbs = false
  realpath : cfg.realpath = false

theorem root_plitsW (cfg : Cfg) (h : PathWin cfg) (hna : cfg.noAbs = false) (hrp : cfg.realpath = false)
    (drive : List Char → DriveInfo) (ts : List LTok) (hok : pokToks cfg ts)
    (hnd : (drive (printToks ts)).drive = none) (ps : PS) (hinv : TopInv ps) :
    ∃ ps', root cfg drive (printToks ts) ps [.empty] =
      .ok (ps', .re (Frag.pathTrail true) :: ((pathResW cfg .start (tokChars ts)).reverse ++ [.empty])) ∧
        TopInv ps' := by
  have hwin := h.win
  rw [root_eq]
  unfold rootPre rootPost
  simp only [h.wdd, ite_true, hnd, hna, Bool.false_and, Bool.false_eq_true, ite_false, hrp, Bool.and_false]
  have hinv' : TopInv (if (drive (printToks ts)).rootSpecified = true then
      ({ ps.setAfterStart with matchbase := false, extmatchbase := false } : PS) else ps.setAfterStart) := by
    split
    · exact ⟨rfl, hinv.inList, hinv.invNest, hinv.mdd, hinv.inv0, rfl, rfl⟩
    · exact ⟨rfl, hinv.inList, hinv.invNest, hinv.mdd, hinv.inv0, hinv.mb, hinv.emb⟩
  have haft : (if (drive (printToks ts)).rootSpecified = true then
      ({ ps.setAfterStart with matchbase := false, extmatchbase := false } : PS) else ps.setAfterStart).afterStart =
        LPos.start.after := by
    split <;> rfl
  obtain ⟨ps', e1, e2⟩ := rootLoop_plitsW cfg h ts.length ts (Nat.le_refl _) ((printToks ts).length + 1) 0 _
    [.empty] .start hok hinv' haft (fun e => by cases e) (Nat.le_refl _)
  refine ⟨ps', ?_, e2⟩
  simp only [e1, cleanUpInverse, e2.inv0, ite_true, hwin, h.pathname]

/-- the items of a whole literal pattern that stands for `s` (forward order), Windows rules -/
def pathItemsW (cfg : Cfg) (s : List Char) : List Item :=
  if s = [] then [.empty] else .empty :: pathResW cfg .start s ++ [.re (Frag.pathTrail true)]

theorem nrmL_eq_nil (s : List Char) : nrmL s = [] ↔ s = [] := by
  cases s <;> simp [nrmL]

/-- … they are the Unix items of the normalised string, mapped -/
theorem pathItemsW_eq (cfg : Cfg) (hrp : cfg.realpath = false) (s : List Char) :
    pathItemsW cfg s = Item.msL (pathItems cfg (nrmL s)) := by
  unfold pathItemsW pathItems pathPrefix
  by_cases hs : s = []
  · subst hs; simp [nrmL]
  · have : nrmL s ≠ [] := fun e => hs ((nrmL_eq_nil s).mp e)
    simp only [hs, this, ite_false, hrp, Bool.false_eq_true, and_false]
    simp [Item.msL_eq_map, pathResW, Function.comp_def]

/-- **(a) the whole pass on a literal pattern without a drive** — every run of literal units, every
    flag record of path mode with Windows rules, without MATCHBASE and REALPATH -/
theorem parseItems_plitsW (cfg : Cfg) (h : PathWinEntry cfg) (drive : List Char → DriveInfo) (ts : List LTok)
    (hok : pokToks cfg ts) (hnd : (drive (printToks ts)).drive = none) :
    parseItems cfg drive (printToks ts) =
      .ok { items := pathItemsW cfg (tokChars ts), ci := !cfg.caseSensitive } := by
  unfold parseItems
  simp only [anchorStep, h.anchor, Bool.false_eq_true, ite_false]
  simp only [parsePrepend, h.matchbase, h.extmatchbase, Bool.or_self, Bool.false_eq_true, ite_false]
  unfold parseBody
  simp only [printToks_ne_bs ts (pokToks_bs cfg ts hok), ite_false, printToks_isEmpty]
  cases ts with
  | nil => simp [pathItemsW, tokChars]
  | cons t r =>
    obtain ⟨ps', hr, hi⟩ := root_plitsW cfg h.toPathWin h.noAbs h.realpath drive (t :: r) hok hnd
      { matchbase := false, extmatchbase := false, globstar := cfg.globstar0 } ⟨rfl, rfl, rfl, rfl, rfl, rfl, rfl⟩
    simp only [List.isEmpty_cons, Bool.false_eq_true, ite_false, hr]
    simp [hi.mb, hi.emb, pathItemsW, tokChars]

/-! ### the regex and its language -/

theorem sepOK_catE' {a b : Re} (ha : a.sepOK = true) (hb : b.sepOK = true) : (catE' a b).sepOK = true := by
  unfold catE'
  split
  · exact ha
  · split
    · exact hb
    · simp [Re.sepOK, ha, hb]

theorem seqRe_sepOK : ∀ (rs : List Re), (∀ r ∈ rs, r.sepOK = true) → (seqRe rs).sepOK = true := by
  intro rs
  induction rs with
  | nil => intro _; rfl
  | cons r rs ih =>
    intro h
    exact sepOK_catE' (h r (by simp)) (ih (fun x hx => h x (by simp [hx])))

theorem dotRe_sepOK (cfg : Cfg) (a : Bool) (r : List Char) : (dotRe cfg a r).sepOK = true := by
  unfold dotRe; split
  · decide
  · rfl

theorem pathRes_sepOK (cfg : Cfg) : ∀ (s : List Char) (st : LPos), ∀ r ∈ pathRes cfg st s, r.sepOK = true := by
  intro s
  induction s with
  | nil => intro st r hr; simp [pathRes] at hr
  | cons c s ih =>
    intro st r hr
    simp only [pathRes] at hr
    split at hr
    · split at hr
      · exact ih _ r hr
      · rcases List.mem_cons.mp hr with rfl | hr
        · decide
        · exact ih _ r hr
    · split at hr
      · rcases List.mem_cons.mp hr with rfl | hr
        · exact dotRe_sepOK _ _ _
        · exact ih _ r hr
      · rcases List.mem_cons.mp hr with rfl | hr
        · rfl
        · exact ih _ r hr

theorem pathReList_sepOK (cfg : Cfg) (s : List Char) : ∀ r ∈ pathReList cfg s, r.sepOK = true := by
  intro r hr
  unfold pathReList at hr
  split at hr
  · simp at hr
  · simp only [List.mem_append, List.mem_singleton] at hr
    rcases hr with (hr | hr) | rfl
    · split at hr
      · simp only [List.mem_singleton] at hr; subst hr; decide
      · simp at hr
    · exact pathRes_sepOK cfg s _ r hr
    · decide

theorem pathLitRe_sepOK (cfg : Cfg) (s : List Char) : (pathLitRe cfg s).sepOK = true := by
  unfold pathLitRe
  simp [Re.sepOK, seqRe_sepOK _ (pathReList_sepOK cfg s)]

/-- the regex of `escape(s)` under Windows rules: the Unix one of the normalised string, mapped -/
def pathLitReW (cfg : Cfg) (s : List Char) : Re := (pathLitRe cfg (nrmL s)).ms

theorem toRe_pathItemsW (cfg : Cfg) (hrp : cfg.realpath = false) (s : List Char) :
    (Parsed.toRe { items := pathItemsW cfg s, ci := !cfg.caseSensitive }) = some (pathLitReW cfg s) := by
  have e : ({ items := pathItemsW cfg s, ci := !cfg.caseSensitive } : Parsed) =
      Parsed.ms { items := pathItems cfg (nrmL s), ci := !cfg.caseSensitive } := by
    simp [Parsed.ms, pathItemsW_eq cfg hrp]
  rw [e, toRe_ms, toRe_pathItems]
  rfl

/-- **Windows regex on a name ⇔ the Unix literal regex of the normalised string on the normalised name** -/
theorem pathLitReW_fullMatch (cfg : Cfg) (s name : List Char) :
    (pathLitReW cfg s).FullMatch name ↔ (pathLitRe cfg (nrmL s)).FullMatch (nrmL name) :=
  ms_fullMatch _ (pathLitRe_sepOK cfg _) name

end WcModel

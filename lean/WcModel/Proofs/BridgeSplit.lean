import WcModel.Proofs.BridgeSem
import WcModel.Proofs.GlobSplitShape
import WcModel.Proofs.SeqScanAgree
/-
  C04 bridge, part 10: `_GlobSplit` on a printed path pattern — one part per segment.

  `scan'` (the scanner of `_GlobSplit.split`, Proofs/GlobSplitShape.lean) runs over a printed segment
  without finding a split point: separators are only found BETWEEN the segments.  Token by token
  (`TS`, top level; `EG`, inside an extended group, where `parse_extend` runs), as in
  `PassPrintPath`, for the printable fragment `pp false g`, slash-free, with the look-ahead
  conditions `ok g rest`.  Brackets may hold POSIX classes (`[[:alpha:]]`): `_GlobSplit._sequence`
  steps over a printed bracket because it ends where the parser's `_sequence` ends
  (`SeqScan.gsplit_sequence_agree`, on every text) and the parser reads a printed bracket to its
  closing `]` (`PPP.sequence_print_p`).  (When this file was first written the theorems carried a
  hypothesis "no POSIX class in a bracket", FORCED by D34 — `_GlobSplit._sequence` did not know
  `[:alpha:]` and ended the bracket at the `]` of the class; D34 was found here, repaired by 421a2e4
  and mirrored in `GSplit.skipPosix`; the hypothesis is gone, `posix_bridge_witness` and
  `D34_bridge_fixed_witness` in `Properties/C04bridge.lean`.)
-/
namespace WcModel.Bridge
open PP PPP GSplit

/-! ### single scanner steps -/

theorem It.next_cons (i : Nat) (c : Char) (r : List Char) : (⟨i, c :: r⟩ : It).next = some (c, ⟨i + 1, r⟩) := rfl
theorem It.next_nil (i : Nat) : (⟨i, []⟩ : It).next = none := rfl

theorem scan'_nil (F i : Nat) : scan' true F ⟨i, []⟩ = [] := by
  cases F with
  | zero => rfl
  | succ F => rw [scan'_succ, It.next_nil]

/-- `parse_extend` just after a list-type character that is not followed by `(` -/
theorem parseExtend_fail (F i : Nat) (t : List Char) (h : t.head? ≠ some '(') :
    GSplit.parseExtend true F ⟨i, t⟩ = (false, ⟨i, t⟩) := by
  cases F with
  | zero => rfl
  | succ F =>
    rw [GSplit.parseExtend]
    cases t with
    | nil => rfl
    | cons c r =>
      simp only [It.next_cons]
      have : c ≠ '(' := by simpa using h
      simp [this]

/-- an ordinary character: not a list-type character, not `\`, `/`, `[` -/
theorem scan'_plain (F i : Nat) (c : Char) (r : List Char) (h1 : c ∉ extTypes) (h2 : c ≠ '\\') (h3 : c ≠ '/')
    (h4 : c ≠ '[') : scan' true (F + 1) ⟨i, c :: r⟩ = scan' true F ⟨i + 1, r⟩ := by
  rw [scan'_succ, It.next_cons]
  simp [h1, h2, h3, h4]

/-- a list-type character (`? * + @ !`) not followed by `(` -/
theorem scan'_ext_fail (F i : Nat) (c : Char) (r : List Char) (h1 : c ∈ extTypes) (h : r.head? ≠ some '(') :
    scan' true (F + 1) ⟨i, c :: r⟩ = scan' true F ⟨i + 1, r⟩ := by
  rw [scan'_succ, It.next_cons]
  obtain ⟨h2, h3, h4⟩ := extTypes_ne c h1
  simp [h1, parseExtend_fail _ _ _ h, h2, h3, h4]

/-- an escaped character other than `/` -/
theorem scan'_esc (F i : Nat) (c : Char) (r : List Char) (h : c ≠ '/') :
    scan' true (F + 1) ⟨i, '\\' :: c :: r⟩ = scan' true F ⟨i + 2, r⟩ := by
  rw [scan'_succ, It.next_cons]
  have : '\\' ∉ extTypes := by decide
  simp [this, It.next_cons, h]

/-- a separator -/
theorem scan'_slash (F i : Nat) (r : List Char) :
    scan' true (F + 1) ⟨i, '/' :: r⟩ = (i, 0) :: scan' true F ⟨i + 1, r⟩ := by
  rw [scan'_succ, It.next_cons]
  have : '/' ∉ extTypes := by decide
  simp [this]

/-! ### brackets -/

/-- the text between `[` and `]` of a printed bracket -/
def clsBody (neg : Bool) (items : List SCls) : List Char := (if neg then ['!'] else []) ++ items.flatMap printCls

theorem print_cls (neg : Bool) (items : List SCls) (t : List Char) :
    print (.cls neg items) ++ t = '[' :: (clsBody neg items ++ ']' :: t) := by
  simp [print, clsBody]

theorem print_cls_length (neg : Bool) (items : List SCls) :
    (print (.cls neg items)).length = (clsBody neg items).length + 2 := by
  simp [print, clsBody]; omega

/-- **`_sequence` on a printed bracket** (POSIX classes included): it ends at the closing `]`.
    The splitter's `_sequence` ends where the parser's ends (`SeqScan.gsplit_sequence_agree`, every
    text), and the parser reads a printed slash-free bracket to its end (`PPP.sequence_print_p`). -/
theorem sequence_print (neg : Bool) (items : List SCls) (hok : clsOK items = true) (hsl : items.all memNoSl = true)
    (j : Nat) (t : List Char) :
    GSplit.sequence ⟨j, clsBody neg items ++ ']' :: t⟩ = some ⟨j + (clsBody neg items).length + 1, t⟩ := by
  have hx := pathX_cfgP false false
  have ps : PS := default
  rw [← SeqScan.gsplit_sequence_agree (cfgP false false) ps _ hx.pathname hx.bslash]
  unfold clsBody
  rw [sequence_print_p (cfgP false false) hx ps neg items hok hsl j t]
  simp only [Option.map_some, List.length_append, List.length_cons, List.length_nil]
  congr 2

theorem scan'_cls (F i : Nat) (neg : Bool) (items : List SCls) (hok : clsOK items = true)
    (hsl : items.all memNoSl = true) (t : List Char) :
    scan' true (F + 1) ⟨i, print (.cls neg items) ++ t⟩ =
      scan' true F ⟨i + (print (.cls neg items)).length, t⟩ := by
  rw [print_cls, print_cls_length, scan'_succ, It.next_cons]
  have : '[' ∉ extTypes := by decide
  have e : i + 1 + (clsBody neg items).length + 1 = i + ((clsBody neg items).length + 2) := by omega
  simp [this, sequence_print neg items hok hsl, e]

/-! ### inside an extended group: `parse_extend` -/

theorem extLoop_close (F j : Nat) (r : List Char) (mark : It) :
    GSplit.extLoop true (F + 1) ⟨j, ')' :: r⟩ mark = (true, ⟨j + 1, r⟩) := by
  rw [GSplit.extLoop, It.next_cons]; simp

theorem extLoop_plain (F j : Nat) (c : Char) (r : List Char) (mark : It) (h0 : c ≠ ')') (h1 : c ∉ extTypes)
    (h2 : c ≠ '\\') (h4 : c ≠ '[') :
    GSplit.extLoop true (F + 1) ⟨j, c :: r⟩ mark = GSplit.extLoop true F ⟨j + 1, r⟩ mark := by
  rw [GSplit.extLoop, It.next_cons]
  simp [h0, h1, h2, h4]

theorem extLoop_ext_fail (F j : Nat) (c : Char) (r : List Char) (mark : It) (h1 : c ∈ extTypes)
    (h : r.head? ≠ some '(') :
    GSplit.extLoop true (F + 1) ⟨j, c :: r⟩ mark = GSplit.extLoop true F ⟨j + 1, r⟩ mark := by
  rw [GSplit.extLoop, It.next_cons]
  have h0 : c ≠ ')' := by intro e; subst e; revert h1; decide
  simp [h0, h1, parseExtend_fail _ _ _ h]

theorem extLoop_group (F j : Nat) (c : Char) (r : List Char) (mark it' : It) (h1 : c ∈ extTypes) (b : Bool)
    (h : GSplit.parseExtend true F ⟨j + 1, r⟩ = (b, it')) :
    GSplit.extLoop true (F + 1) ⟨j, c :: r⟩ mark = GSplit.extLoop true F it' mark := by
  rw [GSplit.extLoop, It.next_cons]
  have h0 : c ≠ ')' := by intro e; subst e; revert h1; decide
  simp [h0, h1, h]

theorem extLoop_esc (F j : Nat) (c : Char) (r : List Char) (mark : It) :
    GSplit.extLoop true (F + 1) ⟨j, '\\' :: c :: r⟩ mark = GSplit.extLoop true F ⟨j + 2, r⟩ mark := by
  rw [GSplit.extLoop, It.next_cons]
  have : '\\' ∉ extTypes := by decide
  simp [this, It.next_cons]

theorem extLoop_cls (F j : Nat) (neg : Bool) (items : List SCls) (hok : clsOK items = true)
    (hsl : items.all memNoSl = true) (t : List Char) (mark : It) :
    GSplit.extLoop true (F + 1) ⟨j, print (.cls neg items) ++ t⟩ mark =
      GSplit.extLoop true F ⟨j + (print (.cls neg items)).length, t⟩ mark := by
  rw [print_cls, print_cls_length, GSplit.extLoop, It.next_cons]
  have : '[' ∉ extTypes := by decide
  have e : j + 1 + (clsBody neg items).length + 1 = j + ((clsBody neg items).length + 2) := by omega
  simp [this, sequence_print neg items hok hsl, e]

theorem parseExtend_open (F j : Nat) (r : List Char) :
    GSplit.parseExtend true (F + 1) ⟨j, '(' :: r⟩ = GSplit.extLoop true F ⟨j + 1, r⟩ ⟨j, '(' :: r⟩ := by
  rw [GSplit.parseExtend, It.next_cons]; simp

theorem escSet_props : ∀ c ∈ escSet, c ≠ '/' := by decide
theorem extTypes_esc : ∀ c ∈ extTypes, c ∈ escSet := by decide

theorem bare_props (c : Char) (h : c ∉ escSet) : c ≠ ')' ∧ c ∉ extTypes ∧ c ≠ '\\' ∧ c ≠ '[' := by
  refine ⟨?_, fun hc => h (extTypes_esc c hc), ?_, ?_⟩ <;> (intro e; subst e; exact h (by decide))

theorem extChar_mem (k : ExtKind) : extChar k ∈ extTypes := by cases k <;> decide

/-- **the in-group claim**: `parse_extend`'s loop runs over a printed pattern -/
def EG (g : Pat) : Prop :=
  ∀ (u : List Char) (F j m : Nat) (mark : It), ok g u = true → (print g).length + m ≤ F →
    ∃ F', m ≤ F' ∧ GSplit.extLoop true F ⟨j, print g ++ u⟩ mark = GSplit.extLoop true F' ⟨j + (print g).length, u⟩ mark

theorem EG_all : ∀ (g : Pat) (b : Bool), pp b g = true → slashFree g = true → EG g := by
  intro g
  induction g with
  | eps => intro b _ _ u F j m mark _ hF; exact ⟨F, by simpa [print] using hF, by simp [print]⟩
  | lit c =>
    intro b _ hs u F j m mark _ hF
    simp only [print, printLit] at hF ⊢
    by_cases hc : c ∈ escSet
    · rw [if_pos hc] at hF ⊢
      obtain ⟨F1, rfl⟩ : ∃ F1, F = F1 + 1 := ⟨F - 1, by simp at hF; omega⟩
      exact ⟨F1, by simp at hF; omega, by simpa using extLoop_esc F1 j c u mark⟩
    · rw [if_neg hc] at hF ⊢
      obtain ⟨F1, rfl⟩ : ∃ F1, F = F1 + 1 := ⟨F - 1, by simp at hF; omega⟩
      obtain ⟨h0, h1, h2, h4⟩ := bare_props c hc
      exact ⟨F1, by simp at hF; omega, by simpa using extLoop_plain F1 j c u mark h0 h1 h2 h4⟩
  | any =>
    intro b _ _ u F j m mark hok hF
    obtain ⟨F1, rfl⟩ : ∃ F1, F = F1 + 1 := ⟨F - 1, by simp [print] at hF; omega⟩
    have hu : u.head? ≠ some '(' := by simpa [ok] using hok
    exact ⟨F1, by simp [print] at hF; omega, by simpa [print] using extLoop_ext_fail F1 j '?' u mark (by decide) hu⟩
  | star =>
    intro b _ _ u F j m mark hok hF
    obtain ⟨F1, rfl⟩ : ∃ F1, F = F1 + 1 := ⟨F - 1, by simp [print] at hF; omega⟩
    have hu : u.head? ≠ some '(' := by
      simp only [ok, Bool.and_eq_true, bne_iff_ne, ne_eq] at hok; exact hok.1
    exact ⟨F1, by simp [print] at hF; omega, by simpa [print] using extLoop_ext_fail F1 j '*' u mark (by decide) hu⟩
  | cls neg items =>
    intro b hp hs u F j m mark _ hF
    simp only [slashFree] at hs
    have hcl : clsOK items = true := by cases b <;> simpa [pp] using hp
    rw [print_cls_length] at hF
    obtain ⟨F1, rfl⟩ : ∃ F1, F = F1 + 1 := ⟨F - 1, by omega⟩
    exact ⟨F1, by omega, extLoop_cls F1 j neg items hcl hs u mark⟩
  | seq a b' iha ihb =>
    intro b hp hs u F j m mark hok hF
    simp only [slashFree, Bool.and_eq_true] at hs
    have hp' : pp false a = true ∧ pp false b' = true := by cases b <;> simpa [pp] using hp
    simp only [ok, Bool.and_eq_true] at hok
    simp only [print, List.length_append] at hF ⊢
    obtain ⟨F1, h1, e1⟩ := iha false hp'.1 hs.1 (print b' ++ u) F j
      ((print b').length + m) mark hok.1 (by omega)
    obtain ⟨F2, h2, e2⟩ := ihb false hp'.2 hs.2 u F1 (j + (print a).length) m mark
      hok.2 h1
    refine ⟨F2, h2, ?_⟩
    rw [List.append_assoc, e1, e2, Nat.add_assoc]
  | alt a b' iha ihb =>
    intro b hp hs u F j m mark hok hF
    simp only [slashFree, Bool.and_eq_true] at hs
    have hp' : pp false a = true ∧ pp true b' = true := by
      cases b
      · simp [pp] at hp
      · simpa [pp] using hp
    simp only [ok, Bool.and_eq_true] at hok
    simp only [print, List.length_append, List.length_cons] at hF ⊢
    obtain ⟨F1, h1, e1⟩ := iha false hp'.1 hs.1 ('|' :: (print b' ++ u)) F j
      ((print b').length + 1 + m) mark hok.1 (by omega)
    obtain ⟨F1', rfl⟩ : ∃ F1', F1 = F1' + 1 := ⟨F1 - 1, by omega⟩
    have e15 := extLoop_plain F1' (j + (print a).length) '|' (print b' ++ u) mark (by decide) (by decide) (by decide)
      (by decide)
    obtain ⟨F2, h2, e2⟩ := ihb true hp'.2 hs.2 u F1' (j + (print a).length + 1) m mark
      hok.2 (by omega)
    refine ⟨F2, h2, ?_⟩
    rw [List.append_assoc, List.cons_append, e1, e15, e2]
    congr 2
    omega
  | ext k body ih =>
    intro b hp hs u F j m mark hok hF
    have hp' : pp true body = true := by
      cases b <;> (simp only [pp, Bool.and_eq_true] at hp; exact hp.2)
    have hs' : slashFree body = true := by simpa [slashFree] using hs
    simp only [ok] at hok
    simp only [print, List.length_cons, List.length_append, List.length_nil] at hF ⊢
    obtain ⟨F1, rfl⟩ : ∃ F1, F = F1 + 1 := ⟨F - 1, by omega⟩
    obtain ⟨F2, rfl⟩ : ∃ F2, F1 = F2 + 1 := ⟨F1 - 1, by omega⟩
    -- the nested `parse_extend`
    obtain ⟨F3, h3, e3⟩ := ih true hp' hs' (')' :: u) F2 (j + 1 + 1) 1 ⟨j + 1, '(' :: (print body ++ ')' :: u)⟩ hok
      (by omega)
    obtain ⟨F4, rfl⟩ : ∃ F4, F3 = F4 + 1 := ⟨F3 - 1, by omega⟩
    have hpe : GSplit.parseExtend true (F2 + 1) ⟨j + 1, '(' :: (print body ++ ')' :: u)⟩ =
        (true, ⟨j + 1 + 1 + (print body).length + 1, u⟩) := by
      rw [parseExtend_open, e3, extLoop_close]
    refine ⟨F2 + 1, by omega, ?_⟩
    have := extLoop_group (F2 + 1) j (extChar k) ('(' :: (print body ++ ')' :: u)) mark _ (extChar_mem k) true hpe
    simp only [List.cons_append, List.append_assoc, List.nil_append] at this ⊢
    rw [this]
    congr 2
    omega

/-! ### the top level -/

theorem scan'_group (F i : Nat) (c : Char) (r : List Char) (it' : It) (h1 : c ∈ extTypes)
    (h : GSplit.parseExtend true (r.length + 2) ⟨i + 1, r⟩ = (true, it')) :
    scan' true (F + 1) ⟨i, c :: r⟩ = scan' true F it' := by
  rw [scan'_succ, It.next_cons]
  simp [h1, h]

/-- **the top-level claim**: the scanner runs over a printed pattern without finding a split point -/
def TS (g : Pat) : Prop :=
  ∀ (t : List Char) (F i m : Nat), ok g t = true → (print g).length + m ≤ F →
    ∃ F', m ≤ F' ∧ scan' true F ⟨i, print g ++ t⟩ = scan' true F' ⟨i + (print g).length, t⟩

theorem TS_all : ∀ (g : Pat), pp false g = true → slashFree g = true → TS g := by
  intro g
  induction g with
  | eps => intro _ _ t F i m _ hF; exact ⟨F, by simpa [print] using hF, by simp [print]⟩
  | lit c =>
    intro _ hs t F i m _ hF
    have hsl : c ≠ '/' := by simpa [slashFree] using hs
    simp only [print, printLit] at hF ⊢
    by_cases hc : c ∈ escSet
    · rw [if_pos hc] at hF ⊢
      obtain ⟨F1, rfl⟩ : ∃ F1, F = F1 + 1 := ⟨F - 1, by simp at hF; omega⟩
      exact ⟨F1, by simp at hF; omega, by simpa using scan'_esc F1 i c t (escSet_props c hc)⟩
    · rw [if_neg hc] at hF ⊢
      obtain ⟨F1, rfl⟩ : ∃ F1, F = F1 + 1 := ⟨F - 1, by simp at hF; omega⟩
      obtain ⟨_, h1, h2, h4⟩ := bare_props c hc
      exact ⟨F1, by simp at hF; omega, by simpa using scan'_plain F1 i c t h1 h2 hsl h4⟩
  | any =>
    intro _ _ t F i m hok hF
    obtain ⟨F1, rfl⟩ : ∃ F1, F = F1 + 1 := ⟨F - 1, by simp [print] at hF; omega⟩
    have hu : t.head? ≠ some '(' := by simpa [ok] using hok
    exact ⟨F1, by simp [print] at hF; omega, by simpa [print] using scan'_ext_fail F1 i '?' t (by decide) hu⟩
  | star =>
    intro _ _ t F i m hok hF
    obtain ⟨F1, rfl⟩ : ∃ F1, F = F1 + 1 := ⟨F - 1, by simp [print] at hF; omega⟩
    have hu : t.head? ≠ some '(' := by
      simp only [ok, Bool.and_eq_true, bne_iff_ne, ne_eq] at hok; exact hok.1
    exact ⟨F1, by simp [print] at hF; omega, by simpa [print] using scan'_ext_fail F1 i '*' t (by decide) hu⟩
  | cls neg items =>
    intro hp hs t F i m _ hF
    simp only [slashFree] at hs
    have hcl : clsOK items = true := by simpa [pp] using hp
    rw [print_cls_length] at hF
    obtain ⟨F1, rfl⟩ : ∃ F1, F = F1 + 1 := ⟨F - 1, by omega⟩
    exact ⟨F1, by omega, scan'_cls F1 i neg items hcl hs t⟩
  | seq a b iha ihb =>
    intro hp hs t F i m hok hF
    simp only [slashFree, Bool.and_eq_true] at hs
    simp only [pp, Bool.and_eq_true] at hp
    simp only [ok, Bool.and_eq_true] at hok
    simp only [print, List.length_append] at hF ⊢
    obtain ⟨F1, h1, e1⟩ := iha hp.1 hs.1 (print b ++ t) F i
      ((print b).length + m) hok.1 (by omega)
    obtain ⟨F2, h2, e2⟩ := ihb hp.2 hs.2 t F1 (i + (print a).length) m hok.2 h1
    refine ⟨F2, h2, ?_⟩
    rw [List.append_assoc, e1, e2, Nat.add_assoc]
  | alt a b _ _ => intro hp; simp [pp] at hp
  | ext k body _ =>
    intro hp hs t F i m hok hF
    simp only [pp, Bool.and_eq_true] at hp
    have hs' : slashFree body = true := by simpa [slashFree] using hs
    simp only [ok] at hok
    simp only [print, List.length_cons, List.length_append, List.length_nil] at hF ⊢
    obtain ⟨F1, rfl⟩ : ∃ F1, F = F1 + 1 := ⟨F - 1, by omega⟩
    obtain ⟨F3, h3, e3⟩ := EG_all body true hp.2 hs' (')' :: t) ((print body).length + 1 + t.length + 2) (i + 1 + 1) 1
      ⟨i + 1, '(' :: (print body ++ ')' :: t)⟩ hok (by omega)
    obtain ⟨F4, rfl⟩ : ∃ F4, F3 = F4 + 1 := ⟨F3 - 1, by omega⟩
    have hpe : GSplit.parseExtend true (('(' :: (print body ++ ')' :: t)).length + 2)
        ⟨i + 1, '(' :: (print body ++ ')' :: t)⟩ = (true, ⟨i + 1 + 1 + (print body).length + 1, t⟩) := by
      have : ('(' :: (print body ++ ')' :: t)).length + 2 = ((print body).length + 1 + t.length + 2) + 1 := by
        simp; omega
      rw [this, parseExtend_open, e3, extLoop_close]
    refine ⟨F1, by omega, ?_⟩
    have := scan'_group F1 i (extChar k) ('(' :: (print body ++ ')' :: t)) _ (extChar_mem k) hpe
    simp only [List.cons_append, List.append_assoc, List.nil_append] at this ⊢
    rw [this]
    congr 2
    omega

/-- what may follow a printed segment: nothing, or a separator -/
def TailOK (t : List Char) : Prop := t = [] ∨ ∃ u, t = '/' :: u

/-- **the scanner runs over a printed segment** (a file-name segment in scope, or `**`) -/
theorem scan'_seg (s : Seg) (hok : PPP.segOK s = true)
    (t : List Char) (ht : TailOK t) (F i m : Nat) (hF : (segText s).length + m ≤ F) :
    ∃ F', m ≤ F' ∧ scan' true F ⟨i, segText s ++ t⟩ = scan' true F' ⟨i + (segText s).length, t⟩ := by
  cases s with
  | pat g =>
    obtain ⟨h1, h2, h3, _⟩ := segOK_pat hok
    exact TS_all g h1 h2 t F i m (by rw [ok_sep g t ht]; exact h3) hF
  | glob =>
    simp only [segText, List.length_cons, List.length_nil] at hF ⊢
    obtain ⟨F1, rfl⟩ : ∃ F1, F = F1 + 2 := ⟨F - 2, by omega⟩
    have ht' : t.head? ≠ some '(' := by
      rcases ht with rfl | ⟨u, rfl⟩ <;> simp
    refine ⟨F1, by omega, ?_⟩
    have e1 := scan'_ext_fail (F1 + 1) i '*' ('*' :: t) (by decide) (by simp)
    have e2 := scan'_ext_fail F1 (i + 1) '*' t (by decide) ht'
    simp only [List.cons_append, List.nil_append]
    rw [e1, e2]

/-! ### `storeAll` over the printed segments -/

/-- what `split` stores for the segments, one `store` per segment -/
def expParts (c : SplitCfg) (tr : Bool) : List Seg → List GPart → Except SplitErr (List GPart)
  | [], l => .ok l
  | s :: rest, l =>
    match GSplit.store c (segText s) l (if rest.isEmpty then tr else true) with
    | .error e => .error e
    | .ok l' => expParts c tr rest l'

/-- the end of `split`: the text after the last split point -/
def finish (c : SplitCfg) (P : List Char) (r : Except SplitErr (List GPart × Int)) : Except SplitErr (List GPart) :=
  match r with
  | .error e => .error e
  | .ok (parts, start) =>
    if start < P.length ∧ !(P.drop (start + 1).toNat).isEmpty then GSplit.store c (P.drop (start + 1).toNat) parts false
    else .ok parts

theorem slice_mid (pre w t : List Char) : GSplit.slice (pre ++ (w ++ t)) pre.length (pre.length + w.length) = w := by
  unfold GSplit.slice
  rw [← List.append_assoc, List.take_left' (by simp), List.drop_left' rfl]

theorem toNat_pre (n : Nat) : ((n : Int) - 1 + 1).toNat = n := by omega

theorem stored_segs (c : SplitCfg) (tr : Bool) : ∀ (segs : List Seg), segs ≠ [] →
    (∀ s ∈ segs, PPP.segOK s = true) →
    ∀ (pre : List Char) (l : List GPart) (F : Nat), (printSegs tr segs false).length + 1 ≤ F →
      finish c (pre ++ printSegs tr segs false)
        (GSplit.storeAll c (pre ++ printSegs tr segs false)
          (scan' true F ⟨pre.length, printSegs tr segs false⟩) ((pre.length : Int) - 1) l) =
      expParts c tr segs l := by
  intro segs
  induction segs with
  | nil => intro h; exact absurd rfl h
  | cons s rest ih =>
    intro _ hok pre l F hF
    have hs := hok s List.mem_cons_self
    obtain ⟨_, hwne⟩ := segText_props s hs
    rw [printSegs_unfold] at hF ⊢
    cases rest with
    | nil =>
      cases tr with
      | false =>
        simp only [List.isEmpty_nil, Bool.not_false, Bool.and_self, if_true, List.append_nil] at hF ⊢
        obtain ⟨F', _, e⟩ := scan'_seg s hs [] (Or.inl rfl) F pre.length 1 (by simpa using hF)
        simp only [List.append_nil] at e
        rw [e, scan'_nil]
        simp only [GSplit.storeAll, finish, expParts, List.isEmpty_nil, if_true]
        rw [toNat_pre, List.drop_left' rfl]
        have h1 : ((pre.length : Int) - 1 < ((pre ++ segText s).length : Int)) := by simp; omega
        have h2 : (segText s).isEmpty = false := by simpa using hwne
        simp only [h1, h2, Bool.not_false, and_self, if_true]
        cases GSplit.store c (segText s) l false <;> rfl
      | true =>
        simp only [List.isEmpty_nil, Bool.not_true, Bool.and_false, Bool.false_eq_true, if_false, printSegs,
          List.length_append, List.length_cons, List.length_nil] at hF ⊢
        obtain ⟨F', hF', e⟩ := scan'_seg s hs ['/'] (Or.inr ⟨[], rfl⟩) F pre.length 1 (by omega)
        obtain ⟨F2, rfl⟩ : ∃ F2, F' = F2 + 1 := ⟨F' - 1, by omega⟩
        rw [e, scan'_slash, scan'_nil]
        simp only [GSplit.storeAll, toNat_pre, slice_mid, expParts, List.isEmpty_nil, if_true]
        cases hst : GSplit.store c (segText s) l true with
        | error e => rfl
        | ok l1 =>
          simp only [finish]
          have h3 : (Int.ofNat (pre.length + (segText s).length + 0) + 1).toNat =
              (pre ++ (segText s ++ ['/'])).length := by simp; omega
          rw [h3, List.drop_length]
          simp
    | cons s2 rest' =>
      have hrest : printSegs tr (s2 :: rest') false ≠ [] :=
        printSegs_ne_nil tr (s2 :: rest') false (fun x hx => hok x (List.mem_cons_of_mem _ hx)) (fun h => by cases h)
      simp only [List.isEmpty_cons, Bool.false_and, Bool.false_eq_true, if_false, List.length_append,
        List.length_cons] at hF ⊢
      obtain ⟨F', hF', e⟩ := scan'_seg s hs ('/' :: printSegs tr (s2 :: rest') false) (Or.inr ⟨_, rfl⟩) F pre.length
        ((printSegs tr (s2 :: rest') false).length + 2) (by omega)
      obtain ⟨F2, rfl⟩ : ∃ F2, F' = F2 + 1 := ⟨F' - 1, by omega⟩
      rw [e, scan'_slash]
      simp only [GSplit.storeAll, toNat_pre, slice_mid, expParts, List.isEmpty_cons, Bool.false_eq_true, if_false]
      cases hst : GSplit.store c (segText s) l true with
      | error e => rfl
      | ok l1 =>
        simp only
        have ih' := ih (by simp) (fun x hx => hok x (List.mem_cons_of_mem _ hx))
          (pre ++ segText s ++ ['/']) l1 F2 (by omega)
        have e1 : pre ++ segText s ++ ['/'] ++ printSegs tr (s2 :: rest') false =
            pre ++ (segText s ++ '/' :: printSegs tr (s2 :: rest') false) := by simp
        have e2 : (pre ++ segText s ++ ['/']).length = pre.length + (segText s).length + 1 := by
          simp only [List.length_append, List.length_cons, List.length_nil]
        have e3 : (((pre.length + (segText s).length + 1 : Nat)) : Int) - 1 =
            Int.ofNat (pre.length + (segText s).length + 0) := by
          simp
        rw [e1, e2, e3] at ih'
        exact ih'

/-! ### what `store` appends -/

/-- without MATCHBASE / `_EXTMATCHBASE` the flags handed to the part compiler (G6 repair) are the
    splitter's own flags -/
theorem noBase_eq (f : Flags) (h1 : f.matchbase = false) (h2 : f.extmatchbase = false) : f.noBase = f := by
  cases f
  simp only [Flags.noBase] at *
  subst h1 h2
  rfl

def lastGlob (l : List GPart) : Bool := (l.getLast?.map (·.isGlobstar)).getD false

theorem lastGlob_snoc (l : List GPart) (p : GPart) : lastGlob (l ++ [p]) = p.isGlobstar := by
  simp [lastGlob]

theorem store_pat (c : SplitCfg) (hpf : c.partFlags = c.flags) (hb : c.isBytes = false)
    (hgl : c.globstarlong = false) (g : Pat)
    (hne : print g ≠ []) (hng : print g ≠ ['*', '*']) (l l' : List GPart) (d : Bool)
    (h : GSplit.store c (print g) l d = .ok l') :
    ∃ p, l' = l ++ [p] ∧ PartOf c.flags (.pat g) d p := by
  unfold GSplit.store at h
  have he : (print g).isEmpty = false := by simpa using hne
  have hs : (print g == ['*', '*']) = false := by simpa using hng
  simp only [he, Bool.and_false, Bool.false_eq_true, if_false, hgl, Bool.false_and, hs, Bool.or_self, hb, hpf] at h
  cases hm : GSplit.isMagic c.flags (print g) with
  | false =>
    simp only [hm, Bool.false_eq_true, if_false] at h
    cases h
    exact ⟨_, rfl, rfl, rfl, rfl, rfl, Or.inr ⟨rfl, hm, rfl⟩⟩
  | true =>
    simp only [hm, if_true] at h
    cases hc : compilePart c.flags false (print g) with
    | error e => simp [hc, Except.map] at h
    | ok r =>
      simp only [hc, Except.map] at h
      cases h
      exact ⟨_, rfl, rfl, rfl, rfl, rfl, Or.inl ⟨rfl, r, hc, rfl⟩⟩

theorem store_glob (c : SplitCfg) (hpf : c.partFlags = c.flags) (hgs : c.globstar = true) (hgl : c.globstarlong = false) (l l' : List GPart)
    (hl : lastGlob l = false) (d : Bool) (h : GSplit.store c ['*', '*'] l d = .ok l') :
    ∃ pat, l' = l ++ [⟨pat, true, true, false, d, false⟩] := by
  unfold GSplit.store at h
  have hm : GSplit.isMagic c.flags ['*', '*'] = true := star_magic _ _ (by simp)
  have hl' : (l.getLast?.map (·.isGlobstar)).getD false = false := hl
  simp only [List.isEmpty_cons, Bool.and_false, Bool.false_eq_true, if_false, hgl, Bool.false_and, hgs,
    BEq.rfl, Bool.and_self, Bool.or_true, hm, if_true, hl', Bool.and_false, hpf] at h
  cases hc : compilePart c.flags c.isBytes ['*', '*'] with
  | error e => simp [hc, Except.map] at h
  | ok r =>
    simp only [hc, Except.map] at h
    cases h
    exact ⟨_, rfl⟩

theorem shape_of_exp (c : SplitCfg) (hpf : c.partFlags = c.flags) (hb : c.isBytes = false) (hgl : c.globstarlong = false) (tr : Bool) :
    ∀ (segs : List Seg), (∀ s ∈ segs, PPP.segOK s = true) → noGG segs = true →
      (segs.any Seg.isGlob = true → c.globstar = true) →
    ∀ (l parts : List GPart), (lastGlob l = true → segs.head? ≠ some .glob) →
      expParts c tr segs l = .ok parts → ∃ ps, parts = l ++ ps ∧ SplitShape c.flags tr segs ps := by
  intro segs
  induction segs with
  | nil =>
    intro _ _ _ l parts _ h
    simp only [expParts] at h
    cases h
    exact ⟨[], by simp, trivial⟩
  | cons s rest ih =>
    intro hok hgg hgs l parts hl h
    have hexp : expParts c tr (s :: rest) l =
        match GSplit.store c (segText s) l (if rest.isEmpty then tr else true) with
        | .error e => .error e
        | .ok l' => expParts c tr rest l' := rfl
    rw [hexp] at h
    cases hst : GSplit.store c (segText s) l (if rest.isEmpty then tr else true) with
    | error e => rw [hst] at h; cases h
    | ok l1 =>
      rw [hst] at h
      simp only at h
      have hokr : ∀ x ∈ rest, PPP.segOK x = true := fun x hx => hok x (List.mem_cons_of_mem _ hx)
      cases s with
      | pat g =>
        obtain ⟨_, _, h3, h4⟩ := segOK_pat (hok _ List.mem_cons_self)
        obtain ⟨p, rfl, hp⟩ := store_pat c hpf hb hgl g h4 (print_ne_glob g h3).1 l l1 _ hst
        have hgg' : noGG rest = true := by simpa [noGG] using hgg
        obtain ⟨ps, rfl, hps⟩ := ih hokr hgg' (fun hx => hgs (by simp [hx])) (l ++ [p]) parts
          (fun hx => by rw [lastGlob_snoc, hp.1] at hx; cases hx) h
        exact ⟨p :: ps, by simp, hp, hps⟩
      | glob =>
        have hl' : lastGlob l = false := by
          cases hx : lastGlob l with
          | false => rfl
          | true => exact absurd rfl (hl hx)
        obtain ⟨pat, rfl⟩ := store_glob c hpf (hgs (by simp [Seg.isGlob])) hgl l l1 hl' _ hst
        simp only [noGG, Bool.and_eq_true] at hgg
        obtain ⟨ps, rfl, hps⟩ := ih hokr hgg.2 (fun hx => hgs (by simp [hx])) _ parts
          (fun _ => by
            cases rest with
            | nil => simp
            | cons a b =>
              cases a with
              | glob => simp at hgg
              | pat g => simp) h
        exact ⟨_ :: ps, by simp, ⟨pat, rfl⟩, hps⟩

/-- **`_GlobSplit` on a printed relative path pattern**: one part per segment.
    `f` : Unix rules, EXTMATCH, no NEGATE, no MATCHBASE / `_EXTMATCHBASE` / `_NOABSOLUTE`, no
    GLOBSTARLONG, GLOBSTAR when the pattern has a globstar.  The pattern: relative, printable
    segments (`PPP.segOK`: brackets slash-free, POSIX classes allowed), no two adjacent globstars.
    (Whether the split SUCCEEDS is the business of the part compiler; this theorem
    says what a successful split looks like, and `globSplit_printPath_ok` below that it succeeds
    when every magic segment compiles.) -/
theorem globSplit_printPath (f : Flags) (hux : isUnixStyle f = true) (hneg : f.negate = false)
    (hext : f.extmatch = true) (hmb : f.matchbase = false) (hemb : f.extmatchbase = false)
    (hna : f.noabsolute = false) (hgl : f.globstarlong = false)
    (tr : Bool) (segs : List Seg) (hne : segs ≠ []) (hok : ∀ s ∈ segs, PPP.segOK s = true) (hgg : noGG segs = true)
    (hgs : segs.any Seg.isGlob = true → f.globstar = true) :
    globSplit f false (printSegs tr segs false) = expParts (SplitCfg.ofFlags f false) tr segs [] ∧
    ∀ parts, globSplit f false (printSegs tr segs false) = .ok parts →
      SplitShape (SplitCfg.ofFlags f false).flags tr segs parts := by
  have hhead := printSegs_false_head tr segs hok
  have hnil := printSegs_ne_nil tr segs false hok (fun h => absurd h hne)
  have hsp0 : storedParts (SplitCfg.ofFlags f false) (printSegs tr segs false) =
      expParts (SplitCfg.ofFlags f false) tr segs [] := by
    unfold storedParts
    rcases driveInit_cases (printSegs tr segs false) with ⟨r, hr, _⟩ | ⟨_, hd⟩
    · rw [hr] at hhead; simp at hhead
    · rw [hd]
      simp only [scan_eq, List.reverse_nil, List.nil_append]
      have hx : (SplitCfg.ofFlags f false).flags.extmatch = true := hext
      rw [hx]
      have := stored_segs (SplitCfg.ofFlags f false) tr segs hne hok [] [] ((printSegs tr segs false).length + 2)
        (by omega)
      simp only [List.nil_append, List.length_nil] at this
      have e0 : ((0 : Nat) : Int) - 1 = -1 := rfl
      rw [e0] at this
      rw [← this]
      unfold finish
      have hemp : (printSegs tr segs false).isEmpty = false := by simpa using hnil
      cases GSplit.storeAll (SplitCfg.ofFlags f false) (printSegs tr segs false)
          (scan' true ((printSegs tr segs false).length + 2) ⟨0, printSegs tr segs false⟩) (-1) [] with
      | error e => rfl
      | ok r =>
        obtain ⟨parts, start⟩ := r
        simp only [hemp, Bool.false_eq_true, if_false]
        generalize (if start < ((printSegs tr segs false).length : Int) ∧
            (!(List.drop (start + 1).toNat (printSegs tr segs false)).isEmpty) = true then
          GSplit.store (SplitCfg.ofFlags f false) (List.drop (start + 1).toNat (printSegs tr segs false)) parts false
          else Except.ok parts) = X
        cases X <;> rfl
  have heq : globSplit f false (printSegs tr segs false) = expParts (SplitCfg.ofFlags f false) tr segs [] := by
    rw [globSplit_eq, hux]
    have heff : effPattern f (printSegs tr segs false) = printSegs tr segs false := by
      unfold effPattern; rw [isNegative_of_negate f hneg]; rfl
    rw [heff, hsp0]
    simp only [Bool.not_true, Bool.false_eq_true, if_false]
    cases he : expParts (SplitCfg.ofFlags f false) tr segs [] with
    | error e => rfl
    | ok s =>
      have h1 : (SplitCfg.ofFlags f false).flags.noabsolute = false := hna
      have h2 : needBase (SplitCfg.ofFlags f false) s = false := by
        unfold needBase
        have h3 : (SplitCfg.ofFlags f false).flags.extmatchbase = false := hemb
        have h4 : (SplitCfg.ofFlags f false).flags.matchbase = false := hmb
        simp [h3, h4]
      simp only [h1, Bool.false_and, Bool.false_eq_true, if_false, withBase, h2]
  refine ⟨heq, fun parts hp => ?_⟩
  rw [heq] at hp
  obtain ⟨ps, hps, hsh⟩ := shape_of_exp (SplitCfg.ofFlags f false) (noBase_eq _ hmb hemb) rfl hgl tr segs hok hgg
    (fun h => by simp [SplitCfg.globstar, SplitCfg.ofFlags, hgs h]) [] parts
    (fun h => by simp [lastGlob] at h) hp
  simp only [List.nil_append] at hps
  subst hps
  exact hsh

/-! ### the split succeeds -/

theorem store_pat_ok (c : SplitCfg) (hpf : c.partFlags = c.flags) (hb : c.isBytes = false) (g : Pat) (hne : print g ≠ [])
    (hc : ∃ r, compilePart c.flags false (print g) = .ok r) (l : List GPart) (d : Bool) :
    ∃ l', GSplit.store c (print g) l d = .ok l' := by
  obtain ⟨r, hr⟩ := hc
  unfold GSplit.store
  have he : (print g).isEmpty = false := by simpa using hne
  simp only [he, Bool.and_false, Bool.false_eq_true, if_false, hb, hpf, hr, Except.map]
  cases GSplit.isMagic c.flags (print g) <;> simp only [Bool.false_eq_true, if_false, if_true] <;> split <;>
    exact ⟨_, rfl⟩

theorem expParts_ok (c : SplitCfg) (hpf : c.partFlags = c.flags) (hb : c.isBytes = false) (tr : Bool) : ∀ (segs : List Seg),
    (∀ s ∈ segs, PPP.segOK s = true) → segs.any Seg.isGlob = false →
    (∀ g, Seg.pat g ∈ segs → ∃ r, compilePart c.flags false (print g) = .ok r) →
    ∀ l, ∃ parts, expParts c tr segs l = .ok parts := by
  intro segs
  induction segs with
  | nil => intro _ _ _ l; exact ⟨l, rfl⟩
  | cons s rest ih =>
    intro hok hg hc l
    simp only [List.any_cons, Bool.or_eq_false_iff] at hg
    cases s with
    | glob => simp [Seg.isGlob] at hg
    | pat g =>
      obtain ⟨_, _, _, h4⟩ := segOK_pat (hok _ List.mem_cons_self)
      obtain ⟨l', hl'⟩ := store_pat_ok c hpf hb g h4 (hc g List.mem_cons_self) l (if rest.isEmpty then tr else true)
      obtain ⟨parts, hp⟩ := ih (fun x hx => hok x (List.mem_cons_of_mem _ hx)) hg.2
        (fun g' hg' => hc g' (List.mem_cons_of_mem _ hg')) l'
      refine ⟨parts, ?_⟩
      have hexp : expParts c tr (.pat g :: rest) l =
          match GSplit.store c (segText (.pat g)) l (if rest.isEmpty then tr else true) with
          | .error e => .error e
          | .ok l' => expParts c tr rest l' := rfl
      rw [hexp]
      simp only [segText, hl', hp]

/-- **`_GlobSplit` under `wordF dot gs` on a globstar-free printed pattern in scope**: it succeeds,
    with one part per segment -/
theorem globSplit_patOK (dot gs : Bool) (pp : PathPat) (hpp : patOK pp = true)
    (hg : pp.segs.any Seg.isGlob = false) :
    ∃ parts, globSplit (gInit dot gs).flags false (printPath pp) = .ok parts ∧
      SplitShape (gFlags dot gs) pp.trailing pp.segs parts := by
  have hok := patOK_segOK hpp
  obtain ⟨heq, hshape⟩ := globSplit_printPath (gInit dot gs).flags (gInit_unix dot gs) (gInit_flags_negate dot gs)
    (by cases dot <;> cases gs <;> decide) (by cases dot <;> cases gs <;> decide)
    (by cases dot <;> cases gs <;> decide) (by cases dot <;> cases gs <;> decide)
    (by cases dot <;> cases gs <;> decide) pp.trailing pp.segs (patOK_ne hpp) hok (patOK_noGG hpp)
    (by rw [hg]; intro h; cases h)
  obtain ⟨parts, hp⟩ := expParts_ok (SplitCfg.ofFlags (gInit dot gs).flags false) (by cases dot <;> cases gs <;> decide) rfl pp.trailing pp.segs hok hg
    (fun g hgm => by
      have hsc : g.segScope = true := patOK_scope hpp (.pat g) hgm
      obtain ⟨r, hr, _⟩ := segPart_magic dot gs g (hok _ hgm) hsc
      exact ⟨r, hr⟩) []
  have hpr : printPath pp = printSegs pp.trailing pp.segs false := by
    unfold printPath; rw [patOK_abs hpp]
  rw [hpr]
  exact ⟨parts, by rw [heq, hp], hshape parts (by rw [heq, hp])⟩

/-! ### with globstars (GLOBSTAR set) -/

theorem store_glob_ok (c : SplitCfg) (hpf : c.partFlags = c.flags) (hc : ∃ r, compilePart c.flags c.isBytes ['*', '*'] = .ok r)
    (l : List GPart) (d : Bool) : ∃ l', GSplit.store c ['*', '*'] l d = .ok l' := by
  obtain ⟨r, hr⟩ := hc
  unfold GSplit.store
  have hm : GSplit.isMagic c.flags ['*', '*'] = true := star_magic _ _ (by simp)
  simp only [List.isEmpty_cons, Bool.and_false, Bool.false_eq_true, if_false, hm, if_true, hpf, hr, Except.map]
  split <;> exact ⟨_, rfl⟩

theorem expParts_ok' (c : SplitCfg) (hpf : c.partFlags = c.flags) (hb : c.isBytes = false) (tr : Bool)
    (hstar : ∃ r, compilePart c.flags false ['*', '*'] = .ok r) : ∀ (segs : List Seg),
    (∀ s ∈ segs, PPP.segOK s = true) →
    (∀ g, Seg.pat g ∈ segs → ∃ r, compilePart c.flags false (print g) = .ok r) →
    ∀ l, ∃ parts, expParts c tr segs l = .ok parts := by
  intro segs
  induction segs with
  | nil => intro _ _ l; exact ⟨l, rfl⟩
  | cons s rest ih =>
    intro hok hc l
    have hexp : expParts c tr (s :: rest) l =
        match GSplit.store c (segText s) l (if rest.isEmpty then tr else true) with
        | .error e => .error e
        | .ok l' => expParts c tr rest l' := rfl
    have hl' : ∃ l', GSplit.store c (segText s) l (if rest.isEmpty then tr else true) = .ok l' := by
      cases s with
      | glob => exact store_glob_ok c hpf (by rw [hb]; exact hstar) l _
      | pat g =>
        obtain ⟨_, _, _, h4⟩ := segOK_pat (hok _ List.mem_cons_self)
        exact store_pat_ok c hpf hb g h4 (hc g List.mem_cons_self) l _
    obtain ⟨l', hl'⟩ := hl'
    obtain ⟨parts, hp⟩ := ih (fun x hx => hok x (List.mem_cons_of_mem _ hx))
      (fun g' hg' => hc g' (List.mem_cons_of_mem _ hg')) l'
    exact ⟨parts, by rw [hexp, hl']; exact hp⟩

/-- the scope on the `glob` side: relative, printable (a leading globstar allowed), segments in
    `Pat.segScope` -/
def patOKg (pp : PathPat) : Bool := pathOK pp && !pp.abs && pp.segs.all Seg.scope

theorem compile_star2 (dot : Bool) : ∃ r, compilePart (gFlags dot true) false ['*', '*'] = .ok r := by
  have h : (compilePart (gFlags dot true) false ['*', '*']).isOk = true := by cases dot <;> decide +kernel
  cases hc : compilePart (gFlags dot true) false ['*', '*'] with
  | error e => rw [hc] at h; cases h
  | ok r => exact ⟨r, rfl⟩

/-- **`_GlobSplit` under `wordF dot true` (GLOBSTAR) on a printed relative pattern in scope,
    globstars included**: it succeeds, with one part per segment -/
theorem globSplit_patOKg (dot : Bool) (pp : PathPat) (hpp : patOKg pp = true) :
    ∃ parts, globSplit (gInit dot true).flags false (printPath pp) = .ok parts ∧
      SplitShape (gFlags dot true) pp.trailing pp.segs parts := by
  simp only [patOKg, pathOK, Bool.and_eq_true, List.all_eq_true, Bool.or_eq_true, Bool.not_eq_eq_eq_not, Bool.not_true,
    List.isEmpty_eq_false_iff] at hpp
  obtain ⟨⟨⟨⟨hok, hgg⟩, h3⟩, habs⟩, hsc⟩ := hpp
  have hne : pp.segs ≠ [] := by
    rcases h3 with h3 | h3
    · exact h3
    · rw [habs] at h3; cases h3
  obtain ⟨heq, hshape⟩ := globSplit_printPath (gInit dot true).flags (gInit_unix dot true)
    (gInit_flags_negate dot true)
    (by cases dot <;> decide) (by cases dot <;> decide) (by cases dot <;> decide) (by cases dot <;> decide)
    (by cases dot <;> decide) pp.trailing pp.segs hne hok hgg (fun _ => by cases dot <;> decide)
  obtain ⟨parts, hp⟩ := expParts_ok' (SplitCfg.ofFlags (gInit dot true).flags false) (by cases dot <;> decide) rfl pp.trailing
    (compile_star2 dot) pp.segs hok
    (fun g hgm => by
      have hsc' : g.segScope = true := hsc (.pat g) hgm
      obtain ⟨r, hr, _⟩ := segPart_magic dot true g (hok _ hgm) hsc'
      exact ⟨r, hr⟩) []
  have hpr : printPath pp = printSegs pp.trailing pp.segs false := by
    unfold printPath; rw [habs]
  rw [hpr]
  exact ⟨parts, by rw [heq, hp], hshape parts (by rw [heq, hp])⟩

end WcModel.Bridge

import WcModel.Proofs.TwinCanon
/-
  C08, second clause — the regex leaves the pass emits never contain a `((?#)…)` group: all
  capturing groups of a translated regex come from the group templates.

  `Re.capFix r` is `r` when `r` has no `.cap` node and `ε` otherwise; `Item.leaf` applies it to
  every regex stored in an item tree (leaves, placeholders, the `eop`/`star` of a closed `!(…)`).
  Lock-step (`parseItems_leaf`, the third use of the skeleton of `Proofs/TranslateTwin.lean`):
  the pass commutes with `Item.leafL`, because every fragment it pushes is cap free; so its
  output is a fixed point (`parseItems_leaf_fixed`), and a fixed point with no capture-decorated
  node converts to a regex without capturing groups (`toRe_capFree`).
-/
set_option linter.unusedSimpArgs false
namespace WcModel

def Re.capFix (r : Re) : Re := if r.capCount = 0 then r else .eps

theorem Re.capFix_of_zero {r : Re} (h : r.capCount = 0) : r.capFix = r := by
  unfold Re.capFix; rw [if_pos h]

theorem Re.capCount_of_capFix {r : Re} (h : r.capFix = r) : r.capCount = 0 := by
  unfold Re.capFix at h
  split at h
  · assumption
  · subst h; rfl

mutual
def Item.leaf : Item → Item
  | .re r => .re r.capFix
  | .empty => .empty
  | .bar => .bar
  | .group kd c body => .group kd c (Item.leafL body)
  | .invOpen c body => .invOpen c (Item.leafL body)
  | .ph star => .ph star.capFix
  | .closed tail eop star => .closed (Item.leafL tail) (eop.map Re.capFix) star.capFix
def Item.leafL : List Item → List Item
  | [] => []
  | x :: xs => Item.leaf x :: Item.leafL xs
end

theorem Item.leafL_eq_map (l : List Item) : Item.leafL l = l.map Item.leaf := by
  induction l with
  | nil => rfl
  | cons x xs ih => simp [Item.leafL, ih]

@[simp] theorem Item.leafL_nil : Item.leafL [] = [] := rfl
@[simp] theorem Item.leafL_cons (x : Item) (xs : List Item) :
    Item.leafL (x :: xs) = x.leaf :: Item.leafL xs := rfl
@[simp] theorem Item.leafL_append (a b : List Item) :
    Item.leafL (a ++ b) = Item.leafL a ++ Item.leafL b := by
  simp [Item.leafL_eq_map]
@[simp] theorem Item.leafL_reverse (a : List Item) :
    Item.leafL a.reverse = (Item.leafL a).reverse := by
  simp [Item.leafL_eq_map]

@[simp] theorem Item.leaf_empty : Item.leaf .empty = .empty := rfl
@[simp] theorem Item.leaf_bar : Item.leaf .bar = .bar := rfl
@[simp] theorem Item.leaf_ph (s : Re) : Item.leaf (.ph s) = .ph s.capFix := rfl
@[simp] theorem Item.leaf_re (r : Re) : Item.leaf (.re r) = .re r.capFix := rfl
@[simp] theorem Item.leaf_group (kd c b) :
    Item.leaf (.group kd c b) = .group kd c (Item.leafL b) := by
  simp [Item.leaf]
@[simp] theorem Item.leaf_invOpen (c b) : Item.leaf (.invOpen c b) = .invOpen c (Item.leafL b) := by
  simp [Item.leaf]
@[simp] theorem Item.leaf_closed (t e s) : Item.leaf (.closed t e s) =
    .closed (Item.leafL t) (e.map Re.capFix) s.capFix := by
  simp [Item.leaf]

mutual
theorem Item.leaf_eraseCap : ∀ x : Item, (Item.eraseCap x).leaf = Item.eraseCap x.leaf
  | .re _ => rfl
  | .empty => rfl
  | .bar => rfl
  | .ph _ => rfl
  | .group kd c body => by
    simp [Item.eraseCap, Item.leafL_eraseCapL body]
  | .invOpen c body => by
    simp [Item.eraseCap, Item.leafL_eraseCapL body]
  | .closed tail eop star => by
    simp [Item.eraseCap, Item.leafL_eraseCapL tail]
theorem Item.leafL_eraseCapL : ∀ l : List Item,
    Item.leafL (Item.eraseCapL l) = Item.eraseCapL (Item.leafL l)
  | [] => rfl
  | x :: xs => by
    simp [Item.eraseCapL, Item.leaf_eraseCap x, Item.leafL_eraseCapL xs]
end

@[simp] theorem capCount_globstarDiv (w : Bool) : (Frag.globstarDiv w).capCount = 0 := by
  cases w <;> rfl

@[simp] theorem Item.isDiv_leaf (win : Bool) (x : Item) : x.leaf.isDiv win = x.isDiv win := by
  cases x with
  | re r =>
    simp only [Item.leaf_re, Item.isDiv]
    unfold Re.capFix
    split
    · rfl
    · rename_i h
      have h1 : ¬ r = Frag.globstarDiv win := fun e => h (by rw [e]; simp)
      have h2 : ¬ Re.eps = Frag.globstarDiv win := by simp [Frag.globstarDiv]
      rw [show (Re.eps == Frag.globstarDiv win) = false from beq_eq_false_iff_ne.mpr h2,
        show (r == Frag.globstarDiv win) = false from beq_eq_false_iff_ne.mpr h1]
  | _ => simp [Item.isDiv]

@[simp] theorem Item.isEmpty_leaf (x : Item) : x.leaf.isEmpty = x.isEmpty := by
  cases x <;> simp [Item.isEmpty]

/-! ### every fragment the pass pushes is cap free -/

@[simp] theorem capFix_lit (c) : (Re.lit c).capFix = .lit c := rfl
@[simp] theorem capCount_sep (w) : (Frag.sep w).capCount = 0 := rfl
@[simp] theorem capFix_sep (w) : (Frag.sep w).capFix = Frag.sep w := rfl
@[simp] theorem capFix_sepPlus (w) : (Frag.sepPlus w).capFix = Frag.sepPlus w := rfl
@[simp] theorem capFix_needSep (w) : (Frag.needSep w).capFix = Frag.needSep w := rfl
@[simp] theorem capFix_globstarDiv (w) : (Frag.globstarDiv w).capFix = Frag.globstarDiv w :=
  Re.capFix_of_zero (capCount_globstarDiv w)
@[simp] theorem capFix_pathTrail (w) : (Frag.pathTrail w).capFix = Frag.pathTrail w := rfl
@[simp] theorem capFix_seqPath (w) : (Frag.seqPath w).capFix = Frag.seqPath w := rfl
@[simp] theorem capFix_noRoot : Frag.noRoot.capFix = Frag.noRoot := rfl
@[simp] theorem capFix_noWinRoot : Frag.noWinRoot.capFix = Frag.noWinRoot := rfl

theorem capCount_needChar (c : Cfg) : c.needChar.capCount = 0 := by
  unfold Cfg.needChar; split <;> rfl
theorem capCount_eop (c : Cfg) : c.eop.capCount = 0 := by
  unfold Cfg.eop; split
  · cases c.win <;> rfl
  · rfl
@[simp] theorem capFix_eop (c : Cfg) : c.eop.capFix = c.eop := Re.capFix_of_zero (capCount_eop c)

theorem capCount_catE (a b : Re) : (catE a b).capCount = a.capCount + b.capCount := by
  unfold catE; split
  · rename_i h; simp [h, Re.capCount]
  · rfl

theorem capCount_restrictSequence (c : Cfg) (ps : PS) : (restrictSequence c ps).1.capCount = 0 := by
  unfold restrictSequence
  simp only
  cases c.win <;> repeat' split
  all_goals rfl

@[simp] theorem capFix_handleDot (c : Cfg) (ps : PS) (it : It) :
    (handleDot c ps it).capFix = handleDot c ps it := by
  apply Re.capFix_of_zero
  unfold handleDot
  simp only
  cases c.win <;> split <;> split <;> rfl

@[simp] theorem leaf_qmarkItem (c : Cfg) (ps : PS) : (qmarkItem c ps).1.leaf = (qmarkItem c ps).1 := by
  have : (qmarkItem c ps).1 = .re (catE (restrictSequence c ps).1 Frag.qmark) := rfl
  rw [this, Item.leaf_re, Re.capFix_of_zero]
  rw [capCount_catE, capCount_restrictSequence]; rfl

theorem capCount_restrictExtendedSlash {c : Cfg} {g : Re} (h : restrictExtendedSlash c = some g) :
    g.capCount = 0 := by
  unfold restrictExtendedSlash at h
  split at h
  · cases h; rfl
  · cases h

theorem capFix_references {c : Cfg} {ps : PS} {it : It} {v it' ps'}
    (h : references c ps it = .val v it' ps') : v.capFix = v := by
  apply Re.capFix_of_zero
  unfold references at h
  simp only [] at h
  repeat' (split at h)
  all_goals first | (cases h) | skip
  all_goals first
    | rfl
    | (simp only [Re.capCount, capCount_sep, Nat.add_zero]
       apply capCount_restrictExtendedSlash; assumption)

theorem capFix_sequence {c : Cfg} {ps : PS} {it : It} {x : Re × PS × It}
    (h : sequence c ps it = some x) : x.1.capFix = x.1 := by
  apply Re.capFix_of_zero
  unfold sequence at h
  simp only [] at h
  repeat' (split at h)
  all_goals first | (cases h) | skip
  all_goals first | rfl | simp [capCount_catE, capCount_restrictSequence, Re.capCount]

theorem capFix_restrictExtendedSlash {c : Cfg} {g : Re} (h : restrictExtendedSlash c = some g) :
    g.capFix = g := Re.capFix_of_zero (capCount_restrictExtendedSlash h)

@[simp] theorem capCount_pathStar (w) : (Frag.pathStar w).capCount = 0 := by cases w <;> rfl
@[simp] theorem capCount_pathStarDot1 (w) : (Frag.pathStarDot1 w).capCount = 0 := by cases w <;> rfl
@[simp] theorem capCount_pathStarDot2 (w) : (Frag.pathStarDot2 w).capCount = 0 := by cases w <;> rfl
@[simp] theorem capCount_star : Frag.star.capCount = 0 := rfl
@[simp] theorem capCount_noDot : Frag.noDot.capCount = 0 := rfl

theorem capCount_hsStar (c : Cfg) (ps : PS) :
    (hsStar c ps).1.capCount = 0 ∧ (hsStar c ps).2.capCount = 0 := by
  unfold hsStar
  simp only
  cases c.win <;> repeat' split
  all_goals exact ⟨rfl, rfl⟩

/-! ### `clean_up_inverse` -/

theorem cleanUpGo_leaf (c : Cfg) (nested : Bool) : ∀ (rev done : List Item) (n : Nat),
    cleanUpGo c nested (Item.leafL rev) (Item.leafL done) n =
      (Item.leafL (cleanUpGo c nested rev done n).1, (cleanUpGo c nested rev done n).2) := by
  intro rev
  induction rev with
  | nil => intro done n; simp [cleanUpGo]
  | cons x rest ih =>
    intro done n
    cases x with
    | ph star =>
      simp only [Item.leafL_cons, Item.leaf_ph, cleanUpGo]
      rw [← ih]
      have hc : Item.leafL (if c.capture = true then Item.eraseCapL done else done) =
          (if c.capture = true then Item.eraseCapL (Item.leafL done) else Item.leafL done) := by
        split
        · exact Item.leafL_eraseCapL done
        · rfl
      have he : Option.map Re.capFix (if nested = true then none else some c.eop) =
          (if nested = true then none else some c.eop) := by
        split <;> simp
      simp only [Item.leafL_cons, Item.leaf_closed, hc, he]
    | _ => simp [cleanUpGo, ← ih]

theorem cleanUpInverse_leaf (c : Cfg) (ps : PS) (cur : List Item) (nested : Bool) :
    cleanUpInverse c ps (Item.leafL cur) nested =
      (Item.leafL (cleanUpInverse c ps cur nested).1, (cleanUpInverse c ps cur nested).2) := by
  unfold cleanUpInverse
  split
  · rfl
  · have := cleanUpGo_leaf c nested cur [] 0
    simp only [Item.leafL_nil] at this
    simp only [this, Item.leafL_reverse]

/-! ### `_handle_star` -/

def lfMap3 (t : PS × It × List Item) : PS × It × List Item := (t.1, t.2.1, Item.leafL t.2.2)
def lfMap4 (t : Bool × PS × It × List Item) : Bool × PS × It × List Item :=
  (t.1, t.2.1, t.2.2.1, Item.leafL t.2.2.2)
def lfMapEL : Except PS (PS × It × List Item) → Except PS (PS × It × List Item)
  | .ok t => .ok (lfMap3 t)
  | .error e => .error e

@[simp] theorem lfMap3_mk (a b c) : lfMap3 (a, b, c) = (a, b, Item.leafL c) := rfl
@[simp] theorem lfMap4_mk (a b c d) : lfMap4 (a, b, c, d) = (a, b, c, Item.leafL d) := rfl
@[simp] theorem lfMapEL_ok (t) : lfMapEL (.ok t) = .ok (lfMap3 t) := rfl
@[simp] theorem lfMapEL_error (e) : lfMapEL (.error e) = .error e := rfl

theorem hsBody_leaf (c : Cfg) (cur : List Item) (star g : Re) (t : Bool × Bool × It × PS)
    (hs : star.capCount = 0) (hg : g.capCount = 0) :
    hsBody c (Item.leafL cur) star g t = lfMap3 (hsBody c cur star g t) := by
  obtain ⟨isGlob, cap, it, ps⟩ := t
  have h1 : (c.needChar.cat star).capFix = c.needChar.cat star :=
    Re.capFix_of_zero (by simp [Re.capCount, capCount_needChar, hs])
  have h2 : star.capFix = star := Re.capFix_of_zero hs
  have h3 : (if cap = true then g.gcap else g).capFix = (if cap = true then g.gcap else g) :=
    Re.capFix_of_zero (by split <;> simp [Re.capCount, hg])
  unfold hsBody
  simp only
  split
  · split <;> simp [h1, h2]
  · cases cur with
    | nil => simp
    | cons last before =>
      simp only [Item.leafL_cons, Item.isDiv_leaf, Item.isEmpty_leaf]
      split
      · simp
      · split <;> simp [h3]

theorem handleStar_leaf (c : Cfg) (ps : PS) (it : It) (cur : List Item) :
    handleStar c ps it (Item.leafL cur) = lfMap3 (handleStar c ps it cur) := by
  rw [handleStar_eq, handleStar_eq]
  exact hsBody_leaf c cur _ _ _ (capCount_hsStar c ps).1 (capCount_hsStar c ps).2

/-! ### `parse_extend` -/

theorem peFinish_leaf (ps0 : PS) (s : Bool) (ps : PS) (it : It) (cur : List Item) :
    peFinish ps0 s ps it (Item.leafL cur) = lfMap4 (peFinish ps0 s ps it cur) := rfl

theorem peFail_leaf (ps0 : PS) (index : It) (cur : List Item) (ps : PS) :
    peFail ps0 index (Item.leafL cur) ps = lfMap4 (peFail ps0 index cur ps) := rfl

theorem peBuild_leaf (c : Cfg) (ps0 : PS) (lt : Char) (cur : List Item) (ps1 : PS) (body : List Item) :
    peBuild c ps0 lt (Item.leafL cur) ps1 (Item.leafL body) =
      (Item.leafL (peBuild c ps0 lt cur ps1 body).1, (peBuild c ps0 lt cur ps1 body).2) := by
  unfold peBuild
  simp only
  split
  · simp
  split
  · simp
  split
  · simp
  split
  · simp
  · simp
    symm
    apply Re.capFix_of_zero
    repeat' split
    all_goals simp [Re.capCount, capCount_needChar]

theorem peClose_leaf (c : Cfg) (ps0 : PS) (it : It) (r : List Item × PS) :
    peClose c ps0 it (Item.leafL r.1, r.2) = lfMap4 (peClose c ps0 it r) := by
  obtain ⟨cur, ps⟩ := r
  unfold peClose
  simp only
  split
  · rw [cleanUpInverse_leaf]
    rfl
  · rfl

theorem parseExtend_leaf_step (c : Cfg) (n : Nat)
    (hEL : ∀ it ps ext a b, extLoop c n it ps (Item.leafL ext) a b = lfMapEL (extLoop c n it ps ext a b))
    (lt : Char) (it : It) (ps : PS) (cur : List Item) (rd : Bool) :
    parseExtend c (n+1) lt it ps (Item.leafL cur) rd =
      lfMap4 (parseExtend c (n+1) lt it ps cur rd) := by
  rw [parseExtend_succ, parseExtend_succ]
  split
  · rfl
  · split
    · rfl
    · rename_i c2 it2 _ _
      have hfix := hEL it2 (peEnter ps lt rd) [] ps.afterStart ps.invNest
      simp only [Item.leafL_nil] at hfix
      cases h : extLoop c n it2 (peEnter ps lt rd) [] ps.afterStart ps.invNest with
      | error e => rfl
      | ok t =>
        obtain ⟨ps1, it1, ext⟩ := t
        rw [h] at hfix
        simp only [lfMapEL_ok, lfMap3_mk, Except.ok.injEq, Prod.mk.injEq, true_and] at hfix
        simp only
        have hr : ext.reverse = Item.leafL ext.reverse := by
          rw [Item.leafL_reverse, ← hfix]
        rw [hr, peBuild_leaf, peClose_leaf, ← hr]

theorem elCont_leaf (c : Cfg) (n : Nat)
    (hEL : ∀ it ps ext a b, extLoop c n it ps (Item.leafL ext) a b = lfMapEL (extLoop c n it ps ext a b))
    (ch : Char) (a b : Bool) (ps : PS) (it : It) (ext : List Item) (upd : Bool) :
    elCont c n ch a b ps it (Item.leafL ext) upd = lfMapEL (elCont c n ch a b ps it ext upd) := by
  unfold elCont
  simp only
  split
  · rfl
  · exact hEL _ _ _ _ _

theorem elOther_leaf (c : Cfg) (n : Nat)
    (hEL : ∀ it ps ext a b, extLoop c n it ps (Item.leafL ext) a b = lfMapEL (extLoop c n it ps ext a b))
    (ch : Char) (a b : Bool) (ps : PS) (it : It) (ext : List Item) :
    elOther c n ch a b ps it (Item.leafL ext) = lfMapEL (elOther c n ch a b ps it ext) := by
  have C := elCont_leaf c n hEL ch a b
  unfold elOther
  simp only [handleStar_leaf]
  split
  · -- star
    rcases handleStar c ps it ext with ⟨ps', it', ext'⟩
    exact C _ _ _ _
  split
  · -- dot
    rw [← C]; simp
  split
  · -- qmark
    rw [← C]; simp
  split
  · -- slash
    rw [← C]
    split
    · rename_i g heq
      simp [capFix_restrictExtendedSlash heq]
    · simp
  split
  · -- bar
    rw [← C]
    cases ps.invNest
    · simp
    · simp [cleanUpInverse_leaf]
  split
  · -- backslash
    split
    · rename_i v it' ps' heq
      rw [← C]; simp [capFix_references heq]
    · exact C _ _ _ _
    · exact C _ _ _ _
  split
  · -- bracket
    split
    · rename_i r ps' it' heq
      have := capFix_sequence heq
      simp only at this
      rw [← C]; simp [this]
    · rw [← C]; simp
  split
  · rw [← C]; simp
  · exact C _ _ _ _

theorem extLoop_leaf_step (c : Cfg) (n : Nat)
    (hPE : ∀ lt it ps cur rd, parseExtend c n lt it ps (Item.leafL cur) rd =
      lfMap4 (parseExtend c n lt it ps cur rd))
    (hEL : ∀ it ps ext a b, extLoop c n it ps (Item.leafL ext) a b = lfMapEL (extLoop c n it ps ext a b))
    (it : It) (ps : PS) (ext : List Item) (a b : Bool) :
    extLoop c (n+1) it ps (Item.leafL ext) a b = lfMapEL (extLoop c (n+1) it ps ext a b) := by
  rw [extLoop_succ, extLoop_succ]
  split
  · rfl
  · rename_i ch it' _
    simp only [hPE]
    rcases parseExtend c n ch it' ps ext false with ⟨b0, ps0, it0, ext0⟩
    by_cases hx : (c.extend && decide (ch ∈ extTypes)) = true
    · simp only [hx, if_true, lfMap4_mk]
      cases b0
      · simp only
        exact elOther_leaf c n hEL ch a b ps0 it' ext
      · simp only
        exact elCont_leaf c n hEL ch a b ps0 it0 ext0 true
    · simp only [hx]
      exact elOther_leaf c n hEL ch a b ps it' ext

theorem ext_leaf (c : Cfg) : ∀ n : Nat,
    (∀ lt it ps cur rd, parseExtend c n lt it ps (Item.leafL cur) rd =
      lfMap4 (parseExtend c n lt it ps cur rd)) ∧
    (∀ it ps ext a b, extLoop c n it ps (Item.leafL ext) a b = lfMapEL (extLoop c n it ps ext a b))
  | 0 => by
    refine ⟨fun lt it ps cur rd => ?_, fun it ps ext a b => ?_⟩
    · rw [parseExtend, parseExtend]; rfl
    · rw [extLoop, extLoop]; rfl
  | n+1 =>
    have ih := ext_leaf c n
    ⟨parseExtend_leaf_step c n ih.2, extLoop_leaf_step c n ih.1 ih.2⟩

/-! ### the top-level loop, `root`, `_parse` -/

def lfMap2 (t : PS × List Item) : PS × List Item := (t.1, Item.leafL t.2)
@[simp] theorem lfMap2_mk (a b) : lfMap2 (a, b) = (a, Item.leafL b) := rfl

theorem rlOther_leaf (c : Cfg) (n : Nat)
    (ih : ∀ it ps cur, rootLoop c n it ps (Item.leafL cur) = lfMap2 (rootLoop c n it ps cur))
    (ch : Char) (ps : PS) (it : It) (cur : List Item) :
    rlOther c n ch ps it (Item.leafL cur) = lfMap2 (rlOther c n ch ps it cur) := by
  unfold rlOther
  simp only [handleStar_leaf, cleanUpInverse_leaf]
  split
  · rw [← ih]; simp
  split
  · rcases handleStar c ps it cur with ⟨ps', it', cur'⟩
    exact ih _ _ _
  split
  · rw [← ih]; simp
  split
  · split
    · rw [← ih]; simp
    · rw [← ih]; simp
  split
  · split
    · rename_i v it' ps' heq
      split
      · rw [← ih]; simp [capFix_references heq]
      · rw [← ih]; simp [capFix_references heq]
    · exact ih _ _ _
    · exact ih _ _ _
  split
  · split
    · rename_i r ps' it' heq
      have := capFix_sequence heq
      simp only at this
      rw [← ih]; simp [this]
    · rw [← ih]; simp
  · rw [← ih]; simp

theorem rootLoop_leaf (c : Cfg) : ∀ (n : Nat) (it : It) (ps : PS) (cur : List Item),
    rootLoop c n it ps (Item.leafL cur) = lfMap2 (rootLoop c n it ps cur)
  | 0, it, ps, cur => by rw [rootLoop, rootLoop]; rfl
  | n+1, it, ps, cur => by
    have ih := rootLoop_leaf c n
    rw [rootLoop_succ, rootLoop_succ]
    split
    · rfl
    · rename_i ch it' _
      simp only [(ext_leaf c _).1]
      rcases parseExtend c (2 * it'.rest.length + 8) ch it' ps cur true with ⟨b0, ps0, it0, cur0⟩
      by_cases hx : (c.extend && decide (ch ∈ extTypes)) = true
      · simp only [hx, if_true, lfMap4_mk]
        cases b0
        · simp only
          exact rlOther_leaf c n ih ch ps0 it' cur
        · simp only
          exact ih _ _ _
      · simp only [hx]
        exact rlOther_leaf c n ih ch ps it' cur

def DriveInfo.leaf (d : DriveInfo) : DriveInfo := { d with drive := d.drive.map (Item.leafL) }
/-- the drive scanner with its leaves fixed -/
def leafDrive (drive : List Char → DriveInfo) : List Char → DriveInfo := fun s => (drive s).leaf

def lfMapER : Except ParseErr (PS × List Item) → Except ParseErr (PS × List Item)
  | .ok t => .ok (lfMap2 t)
  | .error e => .error e
@[simp] theorem lfMapER_ok (t) : lfMapER (.ok t) = .ok (lfMap2 t) := rfl
@[simp] theorem lfMapER_error (e) : lfMapER (.error e) = .error e := rfl

def Parsed.leaf (p : Parsed) : Parsed := { items := Item.leafL p.items, ci := p.ci }
def lfMapP : Except ParseErr Parsed → Except ParseErr Parsed
  | .ok t => .ok (t.leaf)
  | .error e => .error e
@[simp] theorem lfMapP_ok (t) : lfMapP (.ok t) = .ok (t.leaf) := rfl
@[simp] theorem lfMapP_error (e) : lfMapP (.error e) = .error e := rfl

def lfMapPre (t : Bool × It × List Item) : Bool × It × List Item := (t.1, t.2.1, Item.leafL t.2.2)

theorem rootPre_leaf (c : Cfg) (drive : List Char → DriveInfo) (pattern : List Char) (cur : List Item) :
    rootPre c (leafDrive drive) pattern (Item.leafL cur) = lfMapPre (rootPre c drive pattern cur) := by
  unfold rootPre
  simp only [    leafDrive, DriveInfo.leaf]
  by_cases hw : c.winDriveDetect = true
  · rw [if_pos hw, if_pos hw]
    cases (drive pattern).drive with
    | none => rfl
    | some items =>
      simp only [Option.map_some]
      by_cases hs : (drive pattern).slash = true
      · simp [hs, lfMapPre]
      · simp [hs, lfMapPre]
  · rw [if_neg hw, if_neg hw]
    by_cases hh : (c.pathname && decide (pattern.head? = some '/')) = true
    · rw [if_pos hh, if_pos hh]; rfl
    · rw [if_neg hh, if_neg hh]; rfl

theorem rootPost_leaf (c : Cfg) (ps : PS) (a : Bool) (it : It) (cur : List Item) :
    rootPost c ps (a, it, Item.leafL cur) = lfMapER (rootPost c ps (a, it, cur)) := by
  unfold rootPost
  simp only
  by_cases hn : (c.noAbs && a) = true
  · rw [if_pos hn, if_pos hn]; rfl
  · rw [if_neg hn, if_neg hn]
    have e : (if (!a && c.realpath) = true then
          Item.empty :: Item.re (if c.winDriveDetect = true then Frag.noWinRoot else Frag.noRoot) ::
            Item.leafL cur
        else Item.leafL cur) =
        Item.leafL (if (!a && c.realpath) = true then
          Item.empty :: Item.re (if c.winDriveDetect = true then Frag.noWinRoot else Frag.noRoot) :: cur
        else cur) := by
      split
      · split <;> simp
      · rfl
    rw [e, rootLoop_leaf]
    rcases rootLoop c (it.rest.length + 1) it _ _ with ⟨ps1, cur1⟩
    simp only [lfMap2_mk, cleanUpInverse_leaf]
    rcases cleanUpInverse c ps1 cur1 false with ⟨cur2, ps2⟩
    simp only
    cases c.pathname <;> simp

theorem root_leaf (c : Cfg) (drive : List Char → DriveInfo) (pattern : List Char) (ps : PS)
    (cur : List Item) :
    root c (leafDrive drive) pattern ps (Item.leafL cur) = lfMapER (root c drive pattern ps cur) := by
  rw [root_eq, root_eq, rootPre_leaf]
  rcases rootPre c drive pattern cur with ⟨a, it, cur'⟩
  exact rootPost_leaf c _ a it cur'

theorem parsePrepend_leaf (c : Cfg) (drive : List Char → DriveInfo) (ps : PS) :
    parsePrepend c (leafDrive drive) ps = lfMapER (parsePrepend c drive ps) := by
  unfold parsePrepend
  have h1 := root_leaf c drive ['*', '*', '*'] ps [.empty]
  have h2 := root_leaf c drive ['*', '*'] { ps with globstar := true } [.empty]
  simp only [Item.leafL_cons, Item.leaf_empty, Item.leafL_nil] at h1 h2
  by_cases hm : (ps.matchbase || ps.extmatchbase) = true
  · rw [if_pos hm, if_pos hm]
    by_cases hf : (c.globstarlong && c.follow) = true
    · rw [if_pos hf, if_pos hf]; exact h1
    · rw [if_neg hf, if_neg hf, h2]
      cases root c drive ['*', '*'] { ps with globstar := true } [.empty] with
      | error e => rfl
      | ok t => rfl
  · rw [if_neg hm, if_neg hm]; rfl

theorem parseBody_leaf (c : Cfg) (drive : List Char → DriveInfo) (p : List Char) (ps : PS)
    (prepend : List Item) :
    parseBody c (leafDrive drive) p ps (Item.leafL prepend) =
      lfMapP (parseBody c drive p ps prepend) := by
  unfold parseBody
  simp only
  generalize (if p = ['\\'] then [] else p) = p'
  have h1 := root_leaf c drive p' ps [.empty]
  simp only [Item.leafL_cons, Item.leaf_empty, Item.leafL_nil] at h1
  by_cases hp : p'.isEmpty = true
  · simp [hp, Parsed.leaf]
  · simp only [hp, h1, Bool.false_eq_true, if_false]
    cases root c drive p' ps [.empty] with
    | error e => rfl
    | ok t =>
      obtain ⟨ps1, result⟩ := t
      simp only [lfMapER_ok, lfMap2_mk, lfMapP_ok, Parsed.leaf]
      split <;> simp

/-- **lock-step**: the pass commutes with `Item.leafL` -/
theorem parseItems_leaf (c : Cfg) (drive : List Char → DriveInfo) (p : List Char) :
    parseItems c (leafDrive drive) p = lfMapP (parseItems c drive p) := by
  unfold parseItems
  simp only
  rw [parsePrepend_leaf]
  cases parsePrepend c drive (anchorStep c p _).2 with
  | error e => rfl
  | ok t =>
    obtain ⟨ps1, pre⟩ := t
    simp only [lfMapER_ok, lfMap2_mk]
    exact parseBody_leaf c drive _ ps1 pre


/-! ### fixed points -/

/-- drive functions whose items are cap-free regex leaves (true of `_get_win_drive`) -/
def DriveCapFree (drive : List Char → DriveInfo) : Prop :=
  ∀ s items, (drive s).drive = some items → ∀ x ∈ items, ∃ r, x = Item.re r ∧ r.capCount = 0

theorem DriveCapFree.leaf {drive : List Char → DriveInfo} (h : DriveCapFree drive) : DriveLeaf drive :=
  fun s items hi x hx => (h s items hi x hx).imp (fun _ hr => hr.1)

theorem leafL_of_capFree : ∀ (l : List Item), (∀ x ∈ l, ∃ r, x = Item.re r ∧ r.capCount = 0) →
    Item.leafL l = l
  | [], _ => rfl
  | x :: xs, h => by
    obtain ⟨r, rfl, hr⟩ := h x (by simp)
    simp [Re.capFix_of_zero hr, leafL_of_capFree xs (fun y hy => h y (by simp [hy]))]

theorem DriveCapFree.leafDrive_eq {drive : List Char → DriveInfo} (h : DriveCapFree drive) :
    WcModel.leafDrive drive = drive := by
  funext s
  unfold WcModel.leafDrive DriveInfo.leaf
  cases hd : (drive s).drive with
  | none =>
    have : (drive s) = { (drive s) with drive := none } := by rw [← hd]
    rw [this]; rfl
  | some items =>
    have e := leafL_of_capFree items (h s items hd)
    have : (drive s) = { (drive s) with drive := some items } := by rw [← hd]
    rw [this]; simp [e]

/-- the output of the pass is a fixed point of `Item.leafL`: every regex it stores is cap free -/
theorem parseItems_leaf_fixed (c : Cfg) (drive : List Char → DriveInfo) (hd : DriveCapFree drive)
    (p : List Char) (parsed : Parsed) (h : parseItems c drive p = .ok parsed) :
    Item.leafL parsed.items = parsed.items := by
  have := parseItems_leaf c drive p
  rw [hd.leafDrive_eq, h] at this
  simp only [lfMapP_ok, Except.ok.injEq] at this
  have := congrArg Parsed.items this
  exact this.symm

/-! the real drive scanner -/

open Win in
theorem capCount_litsOf : ∀ s : List Char, (litsOf s).capCount = 0
  | [] => rfl
  | [_] => rfl
  | _ :: d :: rest => by
    have := capCount_litsOf (d :: rest)
    simp only [litsOf, Re.capCount] at this ⊢
    omega

open Win in
theorem capCount_escapeDrive (s : List Char) (cs : Bool) : (escapeDrive s cs).capCount = 0 := by
  unfold escapeDrive
  split <;> simp [Re.capCount, capCount_litsOf]

open Win in
theorem capCount_joinSep : ∀ l : List Re, (∀ r ∈ l, r.capCount = 0) → (joinSep l).capCount = 0
  | [], _ => rfl
  | [r], h => by simpa [joinSep] using h r (by simp)
  | r :: r2 :: rs, h => by
    have h1 := h r (by simp)
    have h2 := capCount_joinSep (r2 :: rs) (fun q hq => h q (by simp [hq]))
    simp only [joinSep, Re.capCount] at h2 ⊢
    simp [h1, h2]

theorem winDrive_drive_capFree (cfg : Cfg) (p : List Char) :
    (winDrive cfg p).drive = none ∨ ∃ r, (winDrive cfg p).drive = some [.re r] ∧ r.capCount = 0 := by
  unfold winDrive
  extract_lets none_ altA fin tryFrom altB
  clear_value altA altB
  split
  · extract_lets part0 isSpecial st
    split
    · refine .inr ⟨_, rfl, ?_⟩
      show 0 + Re.capCount _ = 0
      rw [Nat.zero_add]
      apply capCount_joinSep
      intro r hr
      simp only [List.mem_map] at hr
      obtain ⟨q, _, rfl⟩ := hr
      exact capCount_escapeDrive _ _
    · exact .inl rfl
  · split
    · extract_lets g0 letterOk
      split
      · exact .inr ⟨_, rfl, capCount_escapeDrive _ _⟩
      · exact .inl rfl
    · split <;> exact .inl rfl

theorem winDrive_capFree (c : Cfg) : DriveCapFree (winDrive c) := by
  intro s items hi x hx
  rcases winDrive_drive_capFree c s with h0 | ⟨r, h0, hr⟩
  · rw [h0] at hi; cases hi
  · rw [h0] at hi; cases hi
    simp only [List.mem_singleton] at hx
    exact ⟨r, hx, hr⟩

/-! ### a cap-free, undecorated item list converts to a regex without capturing groups -/

/-- all stored regexes cap free and no capture-decorated node -/
def Item.CapFreeL (xs : List Item) : Prop := Item.leafL xs = xs ∧ Item.yesCountL xs = 0

theorem Item.CapFreeL.nil : Item.CapFreeL [] := ⟨rfl, rfl⟩

theorem Item.CapFreeL.cons_iff {x : Item} {xs : List Item} :
    Item.CapFreeL (x :: xs) ↔ (x.leaf = x ∧ x.yesCount = 0) ∧ Item.CapFreeL xs := by
  unfold Item.CapFreeL
  simp only [Item.leafL_cons, List.cons.injEq, Item.yesCountL, Nat.add_eq_zero_iff]
  constructor
  · rintro ⟨⟨a, b⟩, c, d⟩; exact ⟨⟨a, c⟩, b, d⟩
  · rintro ⟨⟨a, c⟩, b, d⟩; exact ⟨⟨a, b⟩, c, d⟩

theorem Item.yesCountL_append (a b : List Item) :
    Item.yesCountL (a ++ b) = Item.yesCountL a + Item.yesCountL b := by
  induction a with
  | nil => simp [Item.yesCountL]
  | cons x xs ih => simp [Item.yesCountL, ih]; omega

theorem Item.CapFreeL.append {a b : List Item} (ha : Item.CapFreeL a) (hb : Item.CapFreeL b) :
    Item.CapFreeL (a ++ b) :=
  ⟨by rw [Item.leafL_append, ha.1, hb.1], by rw [Item.yesCountL_append, ha.2, hb.2]⟩

theorem splitBars_capFree : ∀ (xs : List Item), Item.CapFreeL xs → ∀ part ∈ splitBars xs, Item.CapFreeL part
  | [], _ => by intro part hp; simp [splitBars] at hp; subst hp; exact .nil
  | x :: xs, h => by
    obtain ⟨hx, hxs⟩ := Item.CapFreeL.cons_iff.mp h
    have ih := splitBars_capFree xs hxs
    have key : ∀ part ∈ twConsHead x (splitBars xs), Item.CapFreeL part := by
      intro part hp
      cases hs : splitBars xs with
      | nil =>
        rw [hs] at hp
        simp only [twConsHead, List.mem_singleton] at hp
        subst hp
        exact Item.CapFreeL.cons_iff.mpr ⟨hx, .nil⟩
      | cons a as =>
        rw [hs] at hp ih
        simp only [twConsHead, List.mem_cons] at hp
        rcases hp with rfl | hp
        · exact Item.CapFreeL.cons_iff.mpr ⟨hx, ih a (by simp)⟩
        · exact ih part (by simp [hp])
    cases x with
    | bar =>
      intro part hp
      simp only [splitBars, List.mem_cons] at hp
      rcases hp with rfl | hp
      · exact .nil
      · exact ih part hp
    | re r => exact key
    | empty => exact key
    | group kd c b => exact key
    | invOpen c b => exact key
    | ph s => exact key
    | closed t e s => exact key

theorem mapM_capFree (g : List Item → Option Re) :
    ∀ (xs : List (List Item)) (rs : List Re), (∀ x ∈ xs, ∀ r, g x = some r → r.capCount = 0) →
      xs.mapM g = some rs → sumCap rs = 0
  | [], rs, _, h => by simp at h; subst h; rfl
  | x :: xs, rs, hx, h => by
    simp only [List.mapM_cons] at h
    cases hg : g x with
    | none => rw [hg] at h; simp at h
    | some r =>
      cases hm : xs.mapM g with
      | none => rw [hg, hm] at h; simp at h
      | some rs' =>
        rw [hg, hm] at h
        simp at h
        subst h
        have h1 := hx x (by simp) r hg
        have h2 := mapM_capFree g xs rs' (fun y hy => hx y (by simp [hy])) hm
        simp [sumCap, h1, h2]

theorem toRe_capFree : ∀ f : Nat,
    (∀ xs r, Item.CapFreeL xs → Item.seqToRe f xs = some r → r.capCount = 0) ∧
    (∀ xs r, Item.CapFreeL xs → Item.listToRe f xs = some r → r.capCount = 0)
  | 0 => by
    refine ⟨fun xs r _ h => ?_, fun xs r _ h => ?_⟩
    · simp [Item.seqToRe] at h
    · simp [Item.listToRe] at h
  | f+1 => by
    have ih := toRe_capFree f
    refine ⟨fun xs r hP h => ?_, fun xs r hP h => ?_⟩
    · cases xs with
      | nil => simp [Item.seqToRe] at h; subst h; rfl
      | cons x xs =>
        obtain ⟨⟨hl, hy⟩, hxs⟩ := Item.CapFreeL.cons_iff.mp hP
        cases x with
        | bar => simp [Item.seqToRe] at h
        | ph s => simp [Item.seqToRe] at h
        | closed t e s => simp [Item.seqToRe] at h
        | empty =>
          simp only [Item.seqToRe] at h
          exact ih.1 xs r hxs h
        | re q =>
          simp only [Item.seqToRe] at h
          cases hr : Item.seqToRe f xs with
          | none => rw [hr] at h; simp at h
          | some r2 =>
            rw [hr] at h; simp at h; subst h
            simp only [Item.leaf_re, Item.re.injEq] at hl
            rw [capCount_catE', Re.capCount_of_capFix hl, ih.1 xs r2 hxs hr]
        | group kd c b =>
          simp only [Item.seqToRe] at h
          simp only [Item.leaf_group, Item.group.injEq, true_and] at hl
          simp only [Item.yesCount, Nat.add_eq_zero_iff] at hy
          cases hb : Item.listToRe f b with
          | none => rw [hb] at h; simp at h
          | some rb =>
            cases hr : Item.seqToRe f xs with
            | none => rw [hb, hr] at h; simp at h
            | some r2 =>
              rw [hb, hr] at h; simp at h; subst h
              rw [capCount_catE', capCount_quant, ih.2 b rb ⟨hl, hy.2⟩ hb, ih.1 xs r2 hxs hr, hy.1]
        | invOpen c b =>
          simp only [Item.leaf_invOpen, Item.invOpen.injEq, true_and] at hl
          simp only [Item.yesCount, Nat.add_eq_zero_iff] at hy
          cases xs with
          | nil => simp [Item.seqToRe] at h
          | cons x2 xs2 =>
            obtain ⟨⟨hl2, hy2⟩, hxs2⟩ := Item.CapFreeL.cons_iff.mp hxs
            cases x2 with
            | re _ => simp [Item.seqToRe] at h
            | empty => simp [Item.seqToRe] at h
            | bar => simp [Item.seqToRe] at h
            | ph _ => simp [Item.seqToRe] at h
            | group _ _ _ => simp [Item.seqToRe] at h
            | invOpen _ _ => simp [Item.seqToRe] at h
            | closed t e s =>
              simp only [Item.seqToRe] at h
              simp only [Item.leaf_closed, Item.closed.injEq] at hl2
              simp only [Item.yesCount] at hy2
              obtain ⟨ht, he, hs⟩ := hl2
              cases hb : Item.listToRe f b with
              | none => rw [hb] at h; simp at h
              | some rb =>
                have hrb := ih.2 b rb ⟨hl, hy.2⟩ hb
                have key : ∀ E : List Item, Item.CapFreeL E → ∀ la,
                    Item.listToRe f (Item.re (.grp rb) :: (t ++ E)) = some la → la.capCount = 0 := by
                  intro E hE la hl'
                  have h1 : Item.CapFreeL (Item.re (.grp rb) :: t) :=
                    Item.CapFreeL.cons_iff.mpr
                      ⟨⟨by simp [Re.capFix_of_zero (r := .grp rb) (by simpa [Re.capCount] using hrb)], rfl⟩,
                        ⟨ht, hy2⟩⟩
                  exact ih.2 _ la (by simpa using h1.append hE) hl'
                have c3 := Re.capCount_of_capFix hs
                have hc : c = false := by cases c <;> simp_all
                subst hc
                rw [hb] at h
                cases e with
                | none =>
                  simp only [List.append_nil, Option.bind_eq_bind, Option.bind_some] at h
                  cases hl' : Item.listToRe f (Item.re (.grp rb) :: t) with
                  | none => rw [hl'] at h; simp at h
                  | some la =>
                    cases hr : Item.seqToRe f xs2 with
                    | none => rw [hl', hr] at h; simp at h
                    | some r2 =>
                      rw [hl', hr] at h; simp at h; subst h
                      have c1 := key [] .nil la (by simpa using hl')
                      have c2 := ih.1 xs2 r2 hxs2 hr
                      simp [capCount_catE', Re.capCount, c1, c2, c3]
                | some e =>
                  simp only [Option.map_some, Option.some.injEq] at he
                  have hE : Item.CapFreeL [Item.re e] :=
                    Item.CapFreeL.cons_iff.mpr ⟨⟨by simp [he], rfl⟩, .nil⟩
                  simp only [Option.bind_eq_bind, Option.bind_some] at h
                  cases hl' : Item.listToRe f (Item.re (.grp rb) :: t ++ [Item.re e]) with
                  | none => rw [hl'] at h; simp at h
                  | some la =>
                    cases hr : Item.seqToRe f xs2 with
                    | none => rw [hl', hr] at h; simp at h
                    | some r2 =>
                      rw [hl', hr] at h; simp at h; subst h
                      have c1 := key [Item.re e] hE la (by simpa using hl')
                      have c2 := ih.1 xs2 r2 hxs2 hr
                      simp [capCount_catE', Re.capCount, c1, c2, c3]
    · simp only [Item.listToRe] at h
      cases hm : (splitBars xs).mapM (Item.seqToRe f) with
      | none => rw [hm] at h; simp at h
      | some parts =>
        rw [hm] at h; simp at h; subst h
        rw [capCount_altOfList]
        exact mapM_capFree (Item.seqToRe f) (splitBars xs) parts
          (fun x hx r hr => ih.1 x r (splitBars_capFree xs hP x hx) hr) hm

/-- a parsed pattern whose items are cap free and undecorated has a regex with no capturing
    group -/
theorem Parsed.toRe_capFree (p : Parsed) (h : Item.CapFreeL p.items) (r : Re) (hr : p.toRe = some r) :
    r.capCount = 0 := by
  unfold Parsed.toRe at hr
  cases hi : Item.listToRe (2 * Item.sizeL p.items + 4) p.items with
  | none => rw [hi] at hr; simp at hr
  | some inner =>
    rw [hi] at hr; simp at hr; subst hr
    simp [Re.capCount, (WcModel.toRe_capFree _).2 p.items inner h hi]

end WcModel

import WcModel.Proofs.ParseWF
import WcModel.Proofs.Strip
/-
  C08 (all patterns) — the pass run in translate mode and the pass run in compile mode are
  the same run up to the capture decoration.

  Method.  `Cfg.plain c` is `c` with `translate`, `capture` and `globstarCapture` switched off;
  `Item.norm` forgets the decoration of an item (group templates, the `(?#)`→`?:` marks, the
  globstar capture).  The central lemma (`parseItems_norm`) says that the run on `c.plain`
  equals the *normalised* run on `c`:

      parseItems c.plain (normDrive drive) p = (parseItems c drive p).map Parsed.norm

  for every configuration, drive function and string.  Two configurations that differ only
  in the three capture fields have the same `plain`, hence normalise to the same item list;
  and `toRe` of a list and of its normal form have the same `Re.strip` (part 3).
-/
set_option linter.unusedSimpArgs false
namespace WcModel

/-! ## 1. normal forms -/

/-- forget the REALPATH globstar capture `(…*?)`.  Only a starred body is unwrapped: that is
    what `_handle_star` wraps, and it keeps `Item.isDiv` (a `+` group) unaffected. -/
def Re.ungcap : Re → Re
  | .gcap (.star l r) => .star l r
  | x => x

mutual
def Item.norm : Item → Item
  | .re r => .re r.ungcap
  | .empty => .empty
  | .bar => .bar
  | .group k _ body => .group k .no (Item.normL body)
  | .invOpen _ body => .invOpen false (Item.normL body)
  | .ph star => .ph star
  | .closed tail eop star => .closed (Item.normL tail) eop star
def Item.normL : List Item → List Item
  | [] => []
  | x :: xs => Item.norm x :: Item.normL xs
end

theorem Item.normL_eq_map (l : List Item) : Item.normL l = l.map Item.norm := by
  induction l with
  | nil => rfl
  | cons x xs ih => simp [Item.normL, ih]

@[simp] theorem Item.normL_nil : Item.normL [] = [] := rfl
@[simp] theorem Item.normL_cons (x : Item) (xs : List Item) :
    Item.normL (x :: xs) = x.norm :: Item.normL xs := rfl
@[simp] theorem Item.normL_append (a b : List Item) :
    Item.normL (a ++ b) = Item.normL a ++ Item.normL b := by
  simp [Item.normL_eq_map]
@[simp] theorem Item.normL_reverse (a : List Item) :
    Item.normL a.reverse = (Item.normL a).reverse := by
  simp [Item.normL_eq_map]

@[simp] theorem Item.norm_empty : Item.norm .empty = .empty := rfl
@[simp] theorem Item.norm_bar : Item.norm .bar = .bar := rfl
@[simp] theorem Item.norm_ph (s : Re) : Item.norm (.ph s) = .ph s := rfl
@[simp] theorem Item.norm_re (r : Re) : Item.norm (.re r) = .re r.ungcap := rfl
@[simp] theorem Item.norm_group (k c b) : Item.norm (.group k c b) = .group k .no (Item.normL b) := by
  simp [Item.norm]
@[simp] theorem Item.norm_invOpen (c b) : Item.norm (.invOpen c b) = .invOpen false (Item.normL b) := by
  simp [Item.norm]
@[simp] theorem Item.norm_closed (t e s) : Item.norm (.closed t e s) = .closed (Item.normL t) e s := by
  simp [Item.norm]

mutual
theorem Item.norm_eraseCap : ∀ x : Item, (Item.eraseCap x).norm = x.norm
  | .re _ => rfl
  | .empty => rfl
  | .bar => rfl
  | .ph _ => rfl
  | .group k c body => by
    simp [Item.eraseCap, Item.normL_eraseCapL body]
  | .invOpen c body => by
    simp [Item.eraseCap, Item.normL_eraseCapL body]
  | .closed tail eop star => by
    simp [Item.eraseCap, Item.normL_eraseCapL tail]
theorem Item.normL_eraseCapL : ∀ l : List Item, Item.normL (Item.eraseCapL l) = Item.normL l
  | [] => rfl
  | x :: xs => by
    simp [Item.eraseCapL, Item.norm_eraseCap x, Item.normL_eraseCapL xs]
end

@[simp] theorem Item.isDiv_norm (win : Bool) (x : Item) : x.norm.isDiv win = x.isDiv win := by
  cases x <;> simp [Item.isDiv]
  rename_i r
  unfold Re.ungcap
  split
  · simp [Frag.globstarDiv, BEq.beq]
  · rfl

@[simp] theorem Item.isEmpty_norm (x : Item) : x.norm.isEmpty = x.isEmpty := by
  cases x <;> simp [Item.isEmpty]

/-! ## 2. the configuration without the capture decoration -/

@[reducible] def Cfg.plain (c : Cfg) : Cfg :=
  { c with translate := false, capture := false, globstarCapture := false }

@[simp] theorem Cfg.plain_isBytes (c : Cfg) : c.plain.isBytes = c.isBytes := rfl
@[simp] theorem Cfg.plain_noAbs (c : Cfg) : c.plain.noAbs = c.noAbs := rfl
@[simp] theorem Cfg.plain_pathname (c : Cfg) : c.plain.pathname = c.pathname := rfl
@[simp] theorem Cfg.plain_globstarlong (c : Cfg) : c.plain.globstarlong = c.globstarlong := rfl
@[simp] theorem Cfg.plain_globstar0 (c : Cfg) : c.plain.globstar0 = c.globstar0 := rfl
@[simp] theorem Cfg.plain_follow (c : Cfg) : c.plain.follow = c.follow := rfl
@[simp] theorem Cfg.plain_realpath (c : Cfg) : c.plain.realpath = c.realpath := rfl
@[simp] theorem Cfg.plain_translate (c : Cfg) : c.plain.translate = false := rfl
@[simp] theorem Cfg.plain_globstarCapture (c : Cfg) : c.plain.globstarCapture = false := rfl
@[simp] theorem Cfg.plain_dot (c : Cfg) : c.plain.dot = c.dot := rfl
@[simp] theorem Cfg.plain_extend (c : Cfg) : c.plain.extend = c.extend := rfl
@[simp] theorem Cfg.plain_matchbase0 (c : Cfg) : c.plain.matchbase0 = c.matchbase0 := rfl
@[simp] theorem Cfg.plain_extmatchbase0 (c : Cfg) : c.plain.extmatchbase0 = c.extmatchbase0 := rfl
@[simp] theorem Cfg.plain_anchor (c : Cfg) : c.plain.anchor = c.anchor := rfl
@[simp] theorem Cfg.plain_nodotdir (c : Cfg) : c.plain.nodotdir = c.nodotdir := rfl
@[simp] theorem Cfg.plain_capture (c : Cfg) : c.plain.capture = false := rfl
@[simp] theorem Cfg.plain_caseSensitive (c : Cfg) : c.plain.caseSensitive = c.caseSensitive := rfl
@[simp] theorem Cfg.plain_unix (c : Cfg) : c.plain.unix = c.unix := rfl
@[simp] theorem Cfg.plain_winDriveDetect (c : Cfg) : c.plain.winDriveDetect = c.winDriveDetect := rfl
@[simp] theorem Cfg.plain_bslashAbort (c : Cfg) : c.plain.bslashAbort = c.bslashAbort := rfl
@[simp] theorem Cfg.plain_win (c : Cfg) : c.plain.win = c.win := rfl
@[simp] theorem Cfg.plain_needChar (c : Cfg) : c.plain.needChar = c.needChar := rfl
@[simp] theorem Cfg.plain_eop (c : Cfg) : c.plain.eop = c.eop := rfl

/-! the helpers that never look at the capture fields -/

@[simp] theorem restrictExtendedSlash_plain (c : Cfg) :
    restrictExtendedSlash c.plain = restrictExtendedSlash c := rfl
@[simp] theorem restrictSequence_plain (c : Cfg) (ps : PS) :
    restrictSequence c.plain ps = restrictSequence c ps := rfl
@[simp] theorem referencesSeq_plain (c : Cfg) (it : It) :
    referencesSeq c.plain it = referencesSeq c it := rfl
@[simp] theorem references_plain (c : Cfg) (ps : PS) (it : It) :
    references c.plain ps it = references c ps it := rfl
@[simp] theorem qmarkItem_plain (c : Cfg) (ps : PS) : qmarkItem c.plain ps = qmarkItem c ps := rfl
@[simp] theorem consumePathSep_plain (c : Cfg) (it : It) :
    consumePathSep c.plain it = consumePathSep c it := rfl

theorem seqLoop_plain' (c : Cfg) : ∀ (fuel : Nat), seqLoop c.plain fuel = seqLoop c fuel := by
  intro fuel
  induction fuel with
  | zero => funext ch it st; rfl
  | succ n ih =>
    funext ch it st
    rw [seqLoop, seqLoop, ih]
    rfl

@[simp] theorem seqLoop_plain (c : Cfg) (fuel : Nat) (ch : Char) (it : It) (st : SeqSt) :
    seqLoop c.plain fuel ch it st = seqLoop c fuel ch it st := by
  rw [seqLoop_plain']

@[simp] theorem sequence_plain (c : Cfg) (ps : PS) (it : It) :
    sequence c.plain ps it = sequence c ps it := by
  unfold sequence
  simp only [seqLoop_plain']
  rfl

theorem dotScan_plain' (c : Cfg) (inList : Bool) : ∀ (fuel : Nat),
    dotScan c.plain inList fuel = dotScan c inList fuel := by
  intro fuel
  induction fuel with
  | zero => funext it a b; rfl
  | succ n ih =>
    funext it a b
    rw [dotScan, dotScan, ih]
    rfl

@[simp] theorem dotScan_plain (c : Cfg) (inList : Bool) (fuel : Nat) (it : It) (a b : Bool) :
    dotScan c.plain inList fuel it a b = dotScan c inList fuel it a b := by
  rw [dotScan_plain']

@[simp] theorem handleDot_plain (c : Cfg) (ps : PS) (it : It) :
    handleDot c.plain ps it = handleDot c ps it := by
  unfold handleDot
  simp only [dotScan_plain']
  rfl

/-! ### fragments that are never a globstar capture -/

@[simp] theorem Re.ungcap_eps : Re.ungcap .eps = .eps := rfl
@[simp] theorem Re.ungcap_lit (c) : Re.ungcap (.lit c) = .lit c := rfl
@[simp] theorem Re.ungcap_any : Re.ungcap .any = .any := rfl
@[simp] theorem Re.ungcap_cls (n i) : Re.ungcap (.cls n i) = .cls n i := rfl
@[simp] theorem Re.ungcap_cat (a b) : Re.ungcap (.cat a b) = .cat a b := rfl
@[simp] theorem Re.ungcap_alt (a b) : Re.ungcap (.alt a b) = .alt a b := rfl
@[simp] theorem Re.ungcap_grp (a) : Re.ungcap (.grp a) = .grp a := rfl
@[simp] theorem Re.ungcap_cap (a) : Re.ungcap (.cap a) = .cap a := rfl
@[simp] theorem Re.ungcap_opt (a) : Re.ungcap (.opt a) = .opt a := rfl
@[simp] theorem Re.ungcap_star (l a) : Re.ungcap (.star l a) = .star l a := rfl
@[simp] theorem Re.ungcap_plus (a) : Re.ungcap (.plus a) = .plus a := rfl
@[simp] theorem Re.ungcap_rep (l h a) : Re.ungcap (.rep l h a) = .rep l h a := rfl
@[simp] theorem Re.ungcap_look (n a) : Re.ungcap (.look n a) = .look n a := rfl
@[simp] theorem Re.ungcap_bos : Re.ungcap .bos = .bos := rfl
@[simp] theorem Re.ungcap_eos : Re.ungcap .eos = .eos := rfl
@[simp] theorem Re.ungcap_flags (s i a) : Re.ungcap (.flags s i a) = .flags s i a := rfl
@[simp] theorem Re.ungcap_gcap_star (l a) : Re.ungcap (.gcap (.star l a)) = .star l a := rfl

@[simp] theorem ungcap_sep (w) : (Frag.sep w).ungcap = Frag.sep w := rfl
@[simp] theorem ungcap_sepPlus (w) : (Frag.sepPlus w).ungcap = Frag.sepPlus w := rfl
@[simp] theorem ungcap_needSep (w) : (Frag.needSep w).ungcap = Frag.needSep w := rfl
@[simp] theorem ungcap_globstarDiv (w) : (Frag.globstarDiv w).ungcap = Frag.globstarDiv w := rfl
@[simp] theorem ungcap_pathTrail (w) : (Frag.pathTrail w).ungcap = Frag.pathTrail w := rfl
@[simp] theorem ungcap_seqPath (w) : (Frag.seqPath w).ungcap = Frag.seqPath w := rfl
@[simp] theorem ungcap_noRoot : Frag.noRoot.ungcap = Frag.noRoot := rfl
@[simp] theorem ungcap_noWinRoot : Frag.noWinRoot.ungcap = Frag.noWinRoot := rfl

@[simp] theorem ungcap_catE_cls (pre : Re) (n i) : (catE pre (.cls n i)).ungcap = catE pre (.cls n i) := by
  unfold catE; split <;> rfl
@[simp] theorem ungcap_catE_any (pre : Re) : (catE pre .any).ungcap = catE pre .any := by
  unfold catE; split <;> rfl

@[simp] theorem ungcap_handleDot (c : Cfg) (ps : PS) (it : It) :
    (handleDot c ps it).ungcap = handleDot c ps it := by
  unfold handleDot
  simp only
  split <;> split <;> rfl

@[simp] theorem norm_qmarkItem (c : Cfg) (ps : PS) : (qmarkItem c ps).1.norm = (qmarkItem c ps).1 := by
  simp [qmarkItem, Frag.qmark]

theorem ungcap_references {c : Cfg} {ps : PS} {it : It} {v it' ps'}
    (h : references c ps it = .val v it' ps') : v.ungcap = v := by
  unfold references at h
  simp only [] at h
  repeat' (split at h)
  all_goals first | (cases h) | skip
  all_goals first | rfl | skip

theorem ungcap_sequence {c : Cfg} {ps : PS} {it : It} {x : Re × PS × It}
    (h : sequence c ps it = some x) : x.1.ungcap = x.1 := by
  unfold sequence at h
  simp only [] at h
  repeat' (split at h)
  all_goals first | (cases h) | skip
  all_goals first | rfl | simp

/-! ### `clean_up_inverse` -/

theorem cleanUpGo_norm (c : Cfg) (nested : Bool) : ∀ (rev done : List Item) (n : Nat),
    cleanUpGo c.plain nested (Item.normL rev) (Item.normL done) n =
      (Item.normL (cleanUpGo c nested rev done n).1, (cleanUpGo c nested rev done n).2) := by
  intro rev
  induction rev with
  | nil => intro done n; simp [cleanUpGo]
  | cons x rest ih =>
    intro done n
    cases x with
    | ph star =>
      simp only [Item.normL_cons, Item.norm_ph, cleanUpGo, Cfg.plain_capture, Cfg.plain_eop,
        Bool.false_eq_true, if_false]
      rw [← ih]
      have hc : Item.normL (if c.capture = true then Item.eraseCapL done else done) = Item.normL done := by
        split
        · exact Item.normL_eraseCapL done
        · rfl
      simp [hc]
    | _ => simp [cleanUpGo, ← ih]

theorem cleanUpInverse_norm (c : Cfg) (ps : PS) (cur : List Item) (nested : Bool) :
    cleanUpInverse c.plain ps (Item.normL cur) nested =
      (Item.normL (cleanUpInverse c ps cur nested).1, (cleanUpInverse c ps cur nested).2) := by
  unfold cleanUpInverse
  split
  · rfl
  · have := cleanUpGo_norm c nested cur [] 0
    simp only [Item.normL_nil] at this
    simp only [this, Item.normL_reverse]

/-! ### `_handle_star` -/

def normMap3 (t : PS × It × List Item) : PS × It × List Item := (t.1, t.2.1, Item.normL t.2.2)
def normMap4 (t : Bool × PS × It × List Item) : Bool × PS × It × List Item :=
  (t.1, t.2.1, t.2.2.1, Item.normL t.2.2.2)
def normMapEL : Except PS (PS × It × List Item) → Except PS (PS × It × List Item)
  | .ok t => .ok (normMap3 t)
  | .error e => .error e

@[simp] theorem normMap3_mk (a b c) : normMap3 (a, b, c) = (a, b, Item.normL c) := rfl
@[simp] theorem normMap4_mk (a b c d) : normMap4 (a, b, c, d) = (a, b, c, Item.normL d) := rfl
@[simp] theorem normMapEL_ok (t) : normMapEL (.ok t) = .ok (normMap3 t) := rfl
@[simp] theorem normMapEL_error (e) : normMapEL (.error e) = .error e := rfl

@[simp] theorem hsSel_plain (c : Cfg) (ps : PS) (it : It) (c0 : Bool) :
    hsSel c.plain ps it c0 = hsSel c ps it c0 := rfl
@[simp] theorem hsStar_plain (c : Cfg) (ps : PS) : hsStar c.plain ps = hsStar c ps := rfl

/-- the look-ahead for a second / third star (copied verbatim from `hsSel`) -/
def twPeek (cfg : Cfg) (capture0 : Bool) (it : It) : Bool × Bool × It × It :=
  match it.next with
  | none => (true, capture0, it, it)
  | some (c, it1) =>
    if c != '*' then (true, capture0, it, it)
    else if cfg.globstarlong then
      match it1.next with
      | none => (false, capture0, it1, it)
      | some (c2, it2) => if c2 != '*' then (false, capture0, it1, it) else (false, false, it2, it1)
    else (false, capture0, it1, it)

def twSel (cfg : Cfg) (ps : PS) (pk : Bool × Bool × It × It) : Bool × Bool × It × PS :=
  let (skip, capture, it, prev) := pk
      if skip then (false, capture, it, ps)
      else
        match it.next with
        | none => (true, capture, it, ps)
        | some (c, it1) =>
          if c = '\\' then
            match referencesSeq cfg it1 with
            | .val _ _ => (false, capture, it, ps)
            | .dot _ => (false, capture, it, ps)
            | .pathname =>
              (true, capture, it1.advance 1, { ps with matchbase := false })
            | .stop => (true, capture, it1, ps)
          else if c = '/' then (true, capture, it1, { ps with matchbase := false })
          else if c = '(' && cfg.extend then (false, capture, prev, ps)
          else (false, capture, it, ps)

theorem hsSel_eq (cfg : Cfg) (ps : PS) (it : It) (c0 : Bool) :
    hsSel cfg ps it c0 =
      if ps.afterStart && ps.globstar && !ps.inList then twSel cfg ps (twPeek cfg c0 it)
      else (false, c0, it, ps) := by
  rfl

theorem twPeek_cap (c : Cfg) (it : It) (c0 : Bool) :
    (twPeek c false it).1 = (twPeek c c0 it).1 ∧
    (twPeek c false it).2.1 = false ∧
    (twPeek c false it).2.2 = (twPeek c c0 it).2.2 ∧
    ((twPeek c c0 it).2.1 = true → c0 = true) := by
  unfold twPeek
  repeat' split
  all_goals simp

theorem twSel_cap (c : Cfg) (ps : PS) (a : Bool) (k k' : Bool) (it prev : It) :
    (twSel c ps (a, k, it, prev)).1 = (twSel c ps (a, k', it, prev)).1 ∧
    (twSel c ps (a, k, it, prev)).2.1 = k ∧
    (twSel c ps (a, k, it, prev)).2.2 = (twSel c ps (a, k', it, prev)).2.2 := by
  unfold twSel
  simp only
  repeat' split
  all_goals simp_all

/-- the capture bit is the only component of the selector that depends on `capture0` -/
theorem hsSel_cap (c : Cfg) (ps : PS) (it : It) (c0 : Bool) :
    (hsSel c ps it false).1 = (hsSel c ps it c0).1 ∧
    (hsSel c ps it false).2.1 = false ∧
    (hsSel c ps it false).2.2 = (hsSel c ps it c0).2.2 ∧
    ((hsSel c ps it c0).2.1 = true → c0 = true) := by
  rw [hsSel_eq, hsSel_eq]
  split
  · obtain ⟨h1, h2, h3, h4⟩ := twPeek_cap c it c0
    rcases hp : twPeek c c0 it with ⟨a, k, it', prev⟩
    rcases hq : twPeek c false it with ⟨a', k', it'', prev'⟩
    rw [hp, hq] at h1 h3
    rw [hp] at h4
    rw [hq] at h2
    simp only at h1 h2 h3 h4
    obtain ⟨rfl, rfl⟩ := Prod.mk.inj h3
    subst h1 h2
    obtain ⟨g1, g2, g3⟩ := twSel_cap c ps a' false k it'' prev'
    obtain ⟨-, g2', -⟩ := twSel_cap c ps a' k false it'' prev'
    exact ⟨g1, g2, g3, fun h => h4 (by rw [← g2']; exact h)⟩
  · simp

theorem hsStar_shape (c : Cfg) (ps : PS) :
    (hsStar c ps).1.ungcap = (hsStar c ps).1 ∧ (hsStar c ps).2.ungcap = (hsStar c ps).2 ∧
    (c.pathname = true → ∃ l r, (hsStar c ps).2 = .star l r) := by
  unfold hsStar
  simp only
  repeat' split
  all_goals first
    | exact ⟨rfl, rfl, fun _ => ⟨_, _, rfl⟩⟩
    | (refine ⟨rfl, rfl, fun h => ?_⟩; simp_all)

theorem hsBody_norm (c : Cfg) (cur : List Item) (star g : Re) (isGlob cap : Bool) (it : It) (ps : PS)
    (hs : star.ungcap = star) (hg : g.ungcap = g) (hc : cap = true → ∃ l r, g = .star l r) :
    hsBody c.plain (Item.normL cur) star g (isGlob, false, it, ps) =
      normMap3 (hsBody c cur star g (isGlob, cap, it, ps)) := by
  have hG : (if cap = true then Re.gcap g else g).ungcap = g := by
    split
    · rename_i h
      obtain ⟨l, r, rfl⟩ := hc h
      rfl
    · exact hg
  unfold hsBody
  simp only [Cfg.plain_win, Cfg.plain_needChar, Cfg.plain_extend, consumePathSep_plain,
    Bool.false_eq_true, if_false]
  split
  · split <;> simp [hs]
  · cases cur with
    | nil => simp
    | cons last before =>
      simp only [Item.normL_cons, Item.isDiv_norm, Item.isEmpty_norm]
      split
      · simp
      · split <;> simp [hG]

theorem handleStar_norm (c : Cfg) (ps : PS) (it : It) (cur : List Item) :
    handleStar c.plain ps it (Item.normL cur) = normMap3 (handleStar c ps it cur) := by
  rw [handleStar_eq, handleStar_eq]
  simp only [hsStar_plain, hsSel_plain, Cfg.plain_pathname, Cfg.plain_globstarCapture, Bool.and_false]
  obtain ⟨h1, h2, h3, h4⟩ := hsSel_cap c ps it (c.pathname && c.globstarCapture)
  obtain ⟨s1, s2, s3⟩ := hsStar_shape c ps
  rcases hp : hsSel c ps it (c.pathname && c.globstarCapture) with ⟨a, k, it', ps'⟩
  rcases hq : hsSel c ps it false with ⟨a', k', it'', ps''⟩
  rw [hp, hq] at h1 h3
  rw [hp] at h4
  rw [hq] at h2
  simp only at h1 h2 h3 h4
  obtain ⟨rfl, rfl⟩ := Prod.mk.inj h3
  subst h1 h2
  apply hsBody_norm c cur _ _ a' k it'' ps'' s1 s2
  intro hk
  have := h4 hk
  simp only [Bool.and_eq_true] at this
  exact s3 this.1

/-! ### `parse_extend` -/

theorem peFinish_norm (ps0 : PS) (s : Bool) (ps : PS) (it : It) (cur : List Item) :
    peFinish ps0 s ps it (Item.normL cur) = normMap4 (peFinish ps0 s ps it cur) := rfl

theorem peFail_norm (ps0 : PS) (index : It) (cur : List Item) (ps : PS) :
    peFail ps0 index (Item.normL cur) ps = normMap4 (peFail ps0 index cur ps) := rfl

theorem peBuild_norm (c : Cfg) (ps0 : PS) (lt : Char) (cur : List Item) (ps1 : PS) (body : List Item) :
    peBuild c.plain ps0 lt (Item.normL cur) ps1 (Item.normL body) =
      (Item.normL (peBuild c ps0 lt cur ps1 body).1, (peBuild c ps0 lt cur ps1 body).2) := by
  unfold peBuild
  simp only [Cfg.plain_capture, Cfg.plain_pathname, Cfg.plain_win, Cfg.plain_dot, Cfg.plain_needChar]
  split
  · simp
  split
  · simp
  split
  · simp
  split
  · simp
  · simp

theorem peClose_norm (c : Cfg) (ps0 : PS) (it : It) (r : List Item × PS) :
    peClose c.plain ps0 it (Item.normL r.1, r.2) = normMap4 (peClose c ps0 it r) := by
  obtain ⟨cur, ps⟩ := r
  unfold peClose
  simp only
  split
  · rw [cleanUpInverse_norm]
    rfl
  · rfl

theorem parseExtend_norm_step (c : Cfg) (n : Nat)
    (hEL : ∀ it ps ext a b, extLoop c.plain n it ps (Item.normL ext) a b = normMapEL (extLoop c n it ps ext a b))
    (lt : Char) (it : It) (ps : PS) (cur : List Item) (rd : Bool) :
    parseExtend c.plain (n+1) lt it ps (Item.normL cur) rd =
      normMap4 (parseExtend c (n+1) lt it ps cur rd) := by
  rw [parseExtend_succ, parseExtend_succ]
  split
  · rfl
  · split
    · rfl
    · have := hEL ‹It› (peEnter ps lt rd) [] ps.afterStart ps.invNest
      simp only [Item.normL_nil] at this
      rw [this]
      cases extLoop c n ‹It› (peEnter ps lt rd) [] ps.afterStart ps.invNest with
      | error e => rfl
      | ok t =>
        obtain ⟨ps1, it1, ext⟩ := t
        simp only [normMapEL_ok, normMap3_mk]
        rw [← Item.normL_reverse, peBuild_norm, peClose_norm]

theorem elCont_norm (c : Cfg) (n : Nat)
    (hEL : ∀ it ps ext a b, extLoop c.plain n it ps (Item.normL ext) a b = normMapEL (extLoop c n it ps ext a b))
    (ch : Char) (a b : Bool) (ps : PS) (it : It) (ext : List Item) (upd : Bool) :
    elCont c.plain n ch a b ps it (Item.normL ext) upd = normMapEL (elCont c n ch a b ps it ext upd) := by
  unfold elCont
  simp only
  split
  · rfl
  · exact hEL _ _ _ _ _

theorem elOther_norm (c : Cfg) (n : Nat)
    (hEL : ∀ it ps ext a b, extLoop c.plain n it ps (Item.normL ext) a b = normMapEL (extLoop c n it ps ext a b))
    (ch : Char) (a b : Bool) (ps : PS) (it : It) (ext : List Item) :
    elOther c.plain n ch a b ps it (Item.normL ext) = normMapEL (elOther c n ch a b ps it ext) := by
  have C := elCont_norm c n hEL ch a b
  unfold elOther
  simp only [handleStar_norm, handleDot_plain, qmarkItem_plain, restrictExtendedSlash_plain,
    references_plain, sequence_plain, Cfg.plain_dot, Cfg.plain_nodotdir, Cfg.plain_win]
  split
  · -- star
    rcases handleStar c ps it ext with ⟨ps', it', ext'⟩
    exact C _ _ _ _
  split
  · -- dot
    rw [← C]; simp
  split
  · -- qmark
    rw [← C]; simp
  split
  · -- slash
    rw [← C]
    split
    · rename_i g heq
      have : g.ungcap = g := by
        unfold restrictExtendedSlash at heq
        split at heq
        · cases heq; rfl
        · cases heq
      simp [this]
    · simp
  split
  · -- bar
    rw [← C]
    cases ps.invNest
    · simp
    · simp [cleanUpInverse_norm]
  split
  · -- backslash
    split
    · rename_i v it' ps' heq
      rw [← C]; simp [ungcap_references heq]
    · exact C _ _ _ _
    · exact C _ _ _ _
  split
  · -- bracket
    split
    · rename_i r ps' it' heq
      have := ungcap_sequence heq
      simp only at this
      rw [← C]; simp [this]
    · rw [← C]; simp
  split
  · rw [← C]; simp
  · exact C _ _ _ _

theorem extLoop_norm_step (c : Cfg) (n : Nat)
    (hPE : ∀ lt it ps cur rd, parseExtend c.plain n lt it ps (Item.normL cur) rd =
      normMap4 (parseExtend c n lt it ps cur rd))
    (hEL : ∀ it ps ext a b, extLoop c.plain n it ps (Item.normL ext) a b = normMapEL (extLoop c n it ps ext a b))
    (it : It) (ps : PS) (ext : List Item) (a b : Bool) :
    extLoop c.plain (n+1) it ps (Item.normL ext) a b = normMapEL (extLoop c (n+1) it ps ext a b) := by
  rw [extLoop_succ, extLoop_succ]
  split
  · rfl
  · rename_i ch it' _
    simp only [Cfg.plain_extend, hPE]
    rcases parseExtend c n ch it' ps ext false with ⟨b0, ps0, it0, ext0⟩
    by_cases hx : (c.extend && decide (ch ∈ extTypes)) = true
    · simp only [hx, if_true, normMap4_mk]
      cases b0
      · simp only
        exact elOther_norm c n hEL ch a b ps0 it' ext
      · simp only
        exact elCont_norm c n hEL ch a b ps0 it0 ext0 true
    · simp only [hx]
      exact elOther_norm c n hEL ch a b ps it' ext

theorem ext_norm (c : Cfg) : ∀ n : Nat,
    (∀ lt it ps cur rd, parseExtend c.plain n lt it ps (Item.normL cur) rd =
      normMap4 (parseExtend c n lt it ps cur rd)) ∧
    (∀ it ps ext a b, extLoop c.plain n it ps (Item.normL ext) a b = normMapEL (extLoop c n it ps ext a b))
  | 0 => by
    refine ⟨fun lt it ps cur rd => ?_, fun it ps ext a b => ?_⟩
    · rw [parseExtend, parseExtend]; rfl
    · rw [extLoop, extLoop]; rfl
  | n+1 =>
    have ih := ext_norm c n
    ⟨parseExtend_norm_step c n ih.2, extLoop_norm_step c n ih.1 ih.2⟩

/-! ### the top-level loop, `root`, `_parse` -/

def normMap2 (t : PS × List Item) : PS × List Item := (t.1, Item.normL t.2)
@[simp] theorem normMap2_mk (a b) : normMap2 (a, b) = (a, Item.normL b) := rfl

theorem rlOther_norm (c : Cfg) (n : Nat)
    (ih : ∀ it ps cur, rootLoop c.plain n it ps (Item.normL cur) = normMap2 (rootLoop c n it ps cur))
    (ch : Char) (ps : PS) (it : It) (cur : List Item) :
    rlOther c.plain n ch ps it (Item.normL cur) = normMap2 (rlOther c n ch ps it cur) := by
  unfold rlOther
  simp only [handleStar_norm, handleDot_plain, qmarkItem_plain, consumePathSep_plain,
    references_plain, sequence_plain, Cfg.plain_pathname, Cfg.plain_win, cleanUpInverse_norm]
  split
  · rw [← ih]; simp
  split
  · rcases handleStar c ps it cur with ⟨ps', it', cur'⟩
    exact ih _ _ _
  split
  · rw [← ih]; simp
  split
  · split
    · rw [← ih]; simp
    · rw [← ih]; simp
  split
  · split
    · rename_i v it' ps' heq
      split
      · rw [← ih]; simp [ungcap_references heq]
      · rw [← ih]; simp [ungcap_references heq]
    · exact ih _ _ _
    · exact ih _ _ _
  split
  · split
    · rename_i r ps' it' heq
      have := ungcap_sequence heq
      simp only at this
      rw [← ih]; simp [this]
    · rw [← ih]; simp
  · rw [← ih]; simp

theorem rootLoop_norm (c : Cfg) : ∀ (n : Nat) (it : It) (ps : PS) (cur : List Item),
    rootLoop c.plain n it ps (Item.normL cur) = normMap2 (rootLoop c n it ps cur)
  | 0, it, ps, cur => by rw [rootLoop, rootLoop]; rfl
  | n+1, it, ps, cur => by
    have ih := rootLoop_norm c n
    rw [rootLoop_succ, rootLoop_succ]
    split
    · rfl
    · rename_i ch it' _
      simp only [Cfg.plain_extend, (ext_norm c _).1]
      rcases parseExtend c (2 * it'.rest.length + 8) ch it' ps cur true with ⟨b0, ps0, it0, cur0⟩
      by_cases hx : (c.extend && decide (ch ∈ extTypes)) = true
      · simp only [hx, if_true, normMap4_mk]
        cases b0
        · simp only
          exact rlOther_norm c n ih ch ps0 it' cur
        · simp only
          exact ih _ _ _
      · simp only [hx]
        exact rlOther_norm c n ih ch ps it' cur

def DriveInfo.norm (d : DriveInfo) : DriveInfo := { d with drive := d.drive.map Item.normL }
/-- the drive scanner with its items normalised (the items it returns are shared by both runs) -/
def normDrive (drive : List Char → DriveInfo) : List Char → DriveInfo := fun s => (drive s).norm

def normMapER : Except ParseErr (PS × List Item) → Except ParseErr (PS × List Item)
  | .ok t => .ok (normMap2 t)
  | .error e => .error e
@[simp] theorem normMapER_ok (t) : normMapER (.ok t) = .ok (normMap2 t) := rfl
@[simp] theorem normMapER_error (e) : normMapER (.error e) = .error e := rfl

def Parsed.norm (p : Parsed) : Parsed := { items := Item.normL p.items, ci := p.ci }
def normMapP : Except ParseErr Parsed → Except ParseErr Parsed
  | .ok t => .ok t.norm
  | .error e => .error e
@[simp] theorem normMapP_ok (t) : normMapP (.ok t) = .ok t.norm := rfl
@[simp] theorem normMapP_error (e) : normMapP (.error e) = .error e := rfl

def normMapPre (t : Bool × It × List Item) : Bool × It × List Item := (t.1, t.2.1, Item.normL t.2.2)

theorem rootPre_norm (c : Cfg) (drive : List Char → DriveInfo) (pattern : List Char) (cur : List Item) :
    rootPre c.plain (normDrive drive) pattern (Item.normL cur) = normMapPre (rootPre c drive pattern cur) := by
  unfold rootPre
  simp only [Cfg.plain_winDriveDetect, Cfg.plain_pathname, Cfg.plain_win, consumePathSep_plain,
    normDrive, DriveInfo.norm]
  by_cases hw : c.winDriveDetect = true
  · rw [if_pos hw, if_pos hw]
    cases (drive pattern).drive with
    | none => rfl
    | some items =>
      simp only [Option.map_some]
      by_cases hs : (drive pattern).slash = true
      · simp [hs, normMapPre]
      · simp [hs, normMapPre]
  · rw [if_neg hw, if_neg hw]
    by_cases hh : (c.pathname && decide (pattern.head? = some '/')) = true
    · rw [if_pos hh, if_pos hh]; rfl
    · rw [if_neg hh, if_neg hh]; rfl

theorem rootPost_norm (c : Cfg) (ps : PS) (a : Bool) (it : It) (cur : List Item) :
    rootPost c.plain ps (a, it, Item.normL cur) = normMapER (rootPost c ps (a, it, cur)) := by
  unfold rootPost
  simp only [Cfg.plain_noAbs, Cfg.plain_realpath, Cfg.plain_winDriveDetect, Cfg.plain_pathname,
    Cfg.plain_win]
  by_cases hn : (c.noAbs && a) = true
  · rw [if_pos hn, if_pos hn]; rfl
  · rw [if_neg hn, if_neg hn]
    have e : (if (!a && c.realpath) = true then
          Item.empty :: Item.re (if c.winDriveDetect = true then Frag.noWinRoot else Frag.noRoot) ::
            Item.normL cur
        else Item.normL cur) =
        Item.normL (if (!a && c.realpath) = true then
          Item.empty :: Item.re (if c.winDriveDetect = true then Frag.noWinRoot else Frag.noRoot) :: cur
        else cur) := by
      split
      · split <;> simp
      · rfl
    rw [e, rootLoop_norm]
    rcases rootLoop c (it.rest.length + 1) it _ _ with ⟨ps1, cur1⟩
    simp only [normMap2_mk, cleanUpInverse_norm]
    rcases cleanUpInverse c ps1 cur1 false with ⟨cur2, ps2⟩
    simp only
    cases c.pathname <;> simp

theorem root_norm (c : Cfg) (drive : List Char → DriveInfo) (pattern : List Char) (ps : PS)
    (cur : List Item) :
    root c.plain (normDrive drive) pattern ps (Item.normL cur) = normMapER (root c drive pattern ps cur) := by
  rw [root_eq, root_eq, rootPre_norm]
  rcases rootPre c drive pattern cur with ⟨a, it, cur'⟩
  exact rootPost_norm c _ a it cur'

theorem parsePrepend_norm (c : Cfg) (drive : List Char → DriveInfo) (ps : PS) :
    parsePrepend c.plain (normDrive drive) ps = normMapER (parsePrepend c drive ps) := by
  unfold parsePrepend
  simp only [Cfg.plain_globstarlong, Cfg.plain_follow]
  have h1 := root_norm c drive ['*', '*', '*'] ps [.empty]
  have h2 := root_norm c drive ['*', '*'] { ps with globstar := true } [.empty]
  simp only [Item.normL_cons, Item.norm_empty, Item.normL_nil] at h1 h2
  by_cases hm : (ps.matchbase || ps.extmatchbase) = true
  · rw [if_pos hm, if_pos hm]
    by_cases hf : (c.globstarlong && c.follow) = true
    · rw [if_pos hf, if_pos hf]; exact h1
    · rw [if_neg hf, if_neg hf, h2]
      cases root c drive ['*', '*'] { ps with globstar := true } [.empty] with
      | error e => rfl
      | ok t => rfl
  · rw [if_neg hm, if_neg hm]; rfl

theorem parseBody_norm (c : Cfg) (drive : List Char → DriveInfo) (p : List Char) (ps : PS)
    (prepend : List Item) :
    parseBody c.plain (normDrive drive) p ps (Item.normL prepend) =
      normMapP (parseBody c drive p ps prepend) := by
  unfold parseBody
  simp only [Cfg.plain_caseSensitive]
  generalize (if p = ['\\'] then [] else p) = p'
  have h1 := root_norm c drive p' ps [.empty]
  simp only [Item.normL_cons, Item.norm_empty, Item.normL_nil] at h1
  by_cases hp : p'.isEmpty = true
  · simp [hp, Parsed.norm]
  · simp only [hp, h1, Bool.false_eq_true, if_false]
    cases root c drive p' ps [.empty] with
    | error e => rfl
    | ok t =>
      obtain ⟨ps1, result⟩ := t
      simp only [normMapER_ok, normMap2_mk, normMapP_ok, Parsed.norm]
      split <;> simp

/-- **the central lemma**: the run without the capture decoration is the normalised run -/
theorem parseItems_norm (c : Cfg) (drive : List Char → DriveInfo) (p : List Char) :
    parseItems c.plain (normDrive drive) p = normMapP (parseItems c drive p) := by
  unfold parseItems
  simp only [Cfg.plain_matchbase0, Cfg.plain_extmatchbase0, Cfg.plain_globstar0]
  have ha : ∀ ps, anchorStep c.plain p ps = anchorStep c p ps := fun _ => rfl
  rw [ha, parsePrepend_norm]
  cases parsePrepend c drive (anchorStep c p _).2 with
  | error e => rfl
  | ok t =>
    obtain ⟨ps1, pre⟩ := t
    simp only [normMapER_ok, normMap2_mk]
    exact parseBody_norm c drive _ ps1 pre

end WcModel

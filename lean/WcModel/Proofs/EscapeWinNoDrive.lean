import WcModel.Proofs.EscapeWinCarve
/-
  C09 under Windows rules, part (2): the "no drive" hypothesis discharged syntactically.

  If `s` starts neither with an ASCII letter followed by `:` nor with two separators
  (`NoDrivePrefixW s`), then
    * `RE_WIN_DRIVE` does not match the doubled text, so `escape(s, unix=False) = escapeUnix s`;
    * the parser's `_get_win_drive` finds no drive in `escape(s)`,
  i.e. `NoDriveAgree cfg s` holds and `C09_escape_path_win` applies.
-/
set_option linter.unusedSimpArgs false
namespace WcModel

open EscW

/-- `s` starts neither with a drive letter and a colon nor with two separators -/
def NoDrivePrefixW (s : List Char) : Prop :=
  (∀ l r, s = l :: ':' :: r → Win.isLetter l = false) ∧
  (∀ a b r, s = a :: b :: r → ¬ (isSepW a = true ∧ isSepW b = true))

theorem escapeUnix_cons (c : Char) (r : List Char) : escapeUnix (c :: r) = escapeChar c ++ escapeUnix r := by
  simp [escapeUnix]

/-! ### the parser's side -/

/-- what the escape of a non-empty string looks like at its head -/
theorem escTail (b : Char) (r : List Char) :
    (isSepW b = false → Win.sep2 (escapeUnix (b :: r)) = none) ∧
    (b ≠ ':' → (escapeUnix (b :: r)).head? ≠ some ':' ∧
      ∀ r3, escapeUnix (b :: r) = '\\' :: r3 → r3.head? ≠ some ':') := by
  rw [escapeUnix_cons]
  unfold escapeChar
  by_cases hb : b = '\\'
  · subst hb
    refine ⟨fun h => by simp [isSepW] at h, fun _ => ⟨by simp, fun r3 e => ?_⟩⟩
    simp at e; subst e; simp
  · by_cases hm : b ∈ magicEscapeChars
    · simp only [hb, hm, ite_false, ite_true]
      refine ⟨fun _ => by simp [Win.sep2, hb], fun hc => ⟨by simp, fun r3 e => ?_⟩⟩
      simp at e; subst e; simpa using hc
    · simp only [hb, hm, ite_false]
      refine ⟨fun h => ?_, fun hc => ⟨by simpa using hc, fun r3 e => ?_⟩⟩
      · have : b ≠ '/' := fun e => by subst e; simp [isSepW] at h
        simp [Win.sep2, hb, this]
      · simp at e; exact absurd e.1 hb

theorem escTail_sep (t : List Char) (h : ∀ b r, t = b :: r → isSepW b = false) :
    Win.sep2 (escapeUnix t) = none := by
  cases t with
  | nil => rfl
  | cons b r => exact (escTail b r).1 (h b r rfl)

theorem escTail_colon (t : List Char) (h : ∀ b r, t = b :: r → b ≠ ':') :
    (escapeUnix t).head? ≠ some ':' ∧ ∀ r3, escapeUnix t = '\\' :: r3 → r3.head? ≠ some ':' := by
  cases t with
  | nil => exact ⟨by simp [escapeUnix], fun r3 e => by simp [escapeUnix] at e⟩
  | cons b r => exact (escTail b r).2 (h b r rfl)

theorem winDrive_noDrive_sep (cfg : Cfg) (q : List Char) (hq : Win.sep2 q = none) :
    (winDrive cfg ('/' :: q)).drive = none ∧ (winDrive cfg ('\\' :: '\\' :: q)).drive = none := by
  have e1 : Win.sep2 ('/' :: q) = some 1 := rfl
  have e2 : Win.sep2 ('\\' :: '\\' :: q) = some 2 := rfl
  constructor
  · unfold winDrive
    simp [e1, hq, Win.isLetter]
  · unfold winDrive
    simp [e2, hq, Win.isLetter]

theorem magic_props : ∀ x ∈ magicEscapeChars, x ≠ '\\' ∧ x ≠ '/' ∧ Win.isLetter x = false ∧ x ≠ ':' := by decide

/-- `\x…` for a metacharacter `x` -/
theorem winDrive_noDrive_magic (cfg : Cfg) (a : Char) (ha : a ∈ magicEscapeChars) (q : List Char) :
    (winDrive cfg ('\\' :: a :: q)).drive = none := by
  obtain ⟨h1, h2, h3, _⟩ := magic_props a ha
  have e1 : Win.sep2 ('\\' :: a :: q) = none := by simp [Win.sep2, h1]
  have e2 : Win.isLetter '\\' = false := by decide
  unfold winDrive
  simp [e1, h3, e2, h1]

/-- an ordinary first character that is not a letter -/
theorem winDrive_noDrive_plain (cfg : Cfg) (a : Char) (h1 : a ≠ '\\') (h2 : a ≠ '/')
    (h3 : Win.isLetter a = false) (q : List Char) :
    (winDrive cfg (a :: q)).drive = none := by
  have e1 : Win.sep2 (a :: q) = none := by simp [Win.sep2, h1, h2]
  unfold winDrive
  simp [e1, h3, h1, h2]

/-- a letter not followed by (an optional backslash and) a colon -/
theorem winDrive_noDrive_letter (cfg : Cfg) (a : Char) (h3 : Win.isLetter a = true) (q : List Char)
    (hq1 : q.head? ≠ some ':') (hq2 : ∀ r3, q = '\\' :: r3 → r3.head? ≠ some ':') :
    (winDrive cfg (a :: q)).drive = none := by
  have h1 : a ≠ '\\' := by rintro rfl; revert h3; decide
  have h2 : a ≠ '/' := by rintro rfl; revert h3; decide
  have e1 : Win.sep2 (a :: q) = none := by simp [Win.sep2, h1, h2]
  unfold winDrive
  cases q with
  | nil => simp [e1, h3, h1, h2]
  | cons c q' =>
    have hc : c ≠ ':' := by simpa using hq1
    by_cases hb : c = '\\'
    · subst hb
      have := hq2 q' rfl
      cases q' with
      | nil => simp [e1, h3, h1, h2]
      | cons d q'' =>
        have hd : d ≠ ':' := by simpa using this
        simp [e1, h3, h1, h2, hd]
    · simp [e1, h3, h1, h2, hb, hc]

/-- **the parser finds no drive in the escape of a string without a drive prefix** -/
theorem winDrive_none_of_prefixW (cfg : Cfg) (s : List Char) (h : NoDrivePrefixW s) :
    (winDrive cfg (escapeUnix s)).drive = none := by
  cases s with
  | nil => rfl
  | cons a t =>
    rw [escapeUnix_cons]
    unfold escapeChar
    by_cases hb : a = '\\'
    · subst hb
      simp only [ite_true, List.cons_append, List.nil_append]
      refine (winDrive_noDrive_sep cfg _ (escTail_sep t ?_)).2
      intro b r e
      have := h.2 '\\' b r (by rw [e])
      cases hs : isSepW b with
      | false => rfl
      | true => exact absurd ⟨by decide, hs⟩ this
    · by_cases hm : a ∈ magicEscapeChars
      · simp only [hb, hm, ite_false, ite_true, List.cons_append, List.nil_append]
        exact winDrive_noDrive_magic cfg a hm _
      · simp only [hb, hm, ite_false, List.cons_append, List.nil_append]
        by_cases hs : a = '/'
        · subst hs
          refine (winDrive_noDrive_sep cfg _ (escTail_sep t ?_)).1
          intro b r e
          have := h.2 '/' b r (by rw [e])
          cases hs : isSepW b with
          | false => rfl
          | true => exact absurd ⟨by decide, hs⟩ this
        · cases hl : Win.isLetter a with
          | false => exact winDrive_noDrive_plain cfg a hb hs hl _
          | true =>
            have hc : ∀ b r, t = b :: r → b ≠ ':' := by
              rintro b r e rfl
              have := h.1 a r (by rw [e])
              rw [hl] at this; cases this
            obtain ⟨q1, q2⟩ := escTail_colon t hc
            exact winDrive_noDrive_letter cfg a hl _ q1 q2

/-! ### escape's side -/

theorem dbl_cons (c : Char) (r : List Char) : dbl (c :: r) = (if c = '\\' then ['\\', '\\'] else [c]) ++ dbl r := by
  simp [dbl]

theorem sepD_dbl_none (t : List Char) (h : ∀ b r, t = b :: r → isSepW b = false) : sepD (dbl t) = none := by
  cases t with
  | nil => rfl
  | cons b r =>
    have hb := h b r rfl
    obtain ⟨_, n2, n3⟩ := nrm_nonsep hb
    rw [dbl_cons]
    simp [n3, sepD, n2]

theorem dbl_head_colon (t : List Char) (h : ∀ b r, t = b :: r → b ≠ ':') : ∀ r, dbl t ≠ ':' :: r := by
  intro r e
  cases t with
  | nil => simp [dbl] at e
  | cons b r' =>
    rw [dbl_cons] at e
    by_cases hb : b = '\\'
    · subst hb; simp at e
    · simp [hb] at e
      exact h b r' rfl e.1

/-- **`RE_WIN_DRIVE` does not match the (doubled) text of a string without a drive prefix** -/
theorem reWinDrive_none_of_prefixW (s : List Char) (h : NoDrivePrefixW s) : reWinDrive (dbl s) = none := by
  cases s with
  | nil => rfl
  | cons a t =>
    rw [dbl_cons]
    by_cases hs : isSepW a = true
    · have ht : sepD (dbl t) = none := by
        apply sepD_dbl_none
        intro b r e
        have := h.2 a b r (by rw [e])
        cases hb : isSepW b with
        | false => rfl
        | true => exact absurd ⟨hs, hb⟩ this
      rcases (isSepW_iff a).mp hs with rfl | rfl
      · have n1 : (('/' : Char) = '\\') = False := by decide
        simp only [n1, ite_false, List.cons_append, List.nil_append]
        have e1 : sepD ('/' :: dbl t) = some (dbl t) := rfl
        have e2 : letterColon ('/' :: dbl t) = none := by
          cases dbl t with
          | nil => rfl
          | cons c q => by_cases hc : c = ':' <;> simp [letterColon, hc, Win.isLetter]
        unfold reWinDrive
        simp [e1, e2, ht, Option.orElse]
      · simp only [ite_true, List.cons_append, List.nil_append]
        have e1 : sepD ('\\' :: '\\' :: dbl t) = some (dbl t) := rfl
        have e2 : letterColon ('\\' :: '\\' :: dbl t) = none := by simp [letterColon]
        unfold reWinDrive
        simp [e1, e2, ht, Option.orElse]
    · have hs' : isSepW a = false := by simpa using hs
      obtain ⟨_, n2, n3⟩ := nrm_nonsep hs'
      simp only [n3, ite_false, List.cons_append, List.nil_append]
      have e1 : sepD (a :: dbl t) = none := by simp [sepD, n2, n3]
      unfold reWinDrive
      simp only [e1, Option.bind_none, Option.orElse, Option.bind_eq_bind]
      cases hl : Win.isLetter a with
      | false =>
        cases hq : dbl t with
        | nil => simp [letterColon]
        | cons c q => by_cases hc : c = ':' <;> simp [letterColon, hl, hc]
      | true =>
        have hc : ∀ b r, t = b :: r → b ≠ ':' := by
          rintro b r e rfl
          have := h.1 a r (by rw [e])
          rw [hl] at this; cases this
        have := dbl_head_colon t hc
        cases hq : dbl t with
        | nil => simp [letterColon]
        | cons c q =>
          have hcc : c ≠ ':' := fun e => this q (by rw [hq, e])
          simp [letterColon, hcc]

/-- **without a drive prefix the two scanners agree (neither finds a drive)** and
    `escape(s, unix=False)` is the Unix escape -/
theorem noDriveAgree_of_prefixW (cfg : Cfg) (s : List Char) (h : NoDrivePrefixW s) :
    NoDriveAgree cfg s = true ∧ escapeWin s = escapeUnix s := by
  have h1 := reWinDrive_none_of_prefixW s h
  have h2 := winDrive_none_of_prefixW cfg s h
  refine ⟨?_, escapeWin_noCarve s h1⟩
  unfold NoDriveAgree
  rw [h1, h2]
  rfl

end WcModel

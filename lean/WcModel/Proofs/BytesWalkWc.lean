import WcModel.Proofs.WcWalk
/-
  C18 on the walkers — `WcMatch` (`Model/WcWalk.lean`, stream K7).

  The model of `WcMatch` has no `isBytes` anywhere: the tree has one name type, and the two compiled
  patterns enter only as the decision tables `fileDec` / `dirExcl : RelPath → Res Bool`.  What the
  walk asks those tables is made precise here: `run_congr` — for any predicate `P` on names, if
  every name of the tree satisfies `P` and two pairs of tables agree on every path whose components
  satisfy `P`, the two runs are the same event sequence (for every abort oracle and every hook
  record).  With `P` = Latin-1 that is "a bytes `WcMatch` and a str `WcMatch` whose compiled
  patterns decide alike on Latin-1 paths walk alike".
-/
namespace WcModel.WcWalk

variable {V : Type}

/-- every name anywhere in the tree (links' unfoldings included) satisfies `P` -/
def Tree.AllNames (P : Name → Prop) : Tree → Prop
  | .nil => True
  | .cons n _ sub rest => P n ∧ sub.AllNames P ∧ rest.AllNames P

def PathP (P : Name → Prop) (p : RelPath) : Prop := ∀ n ∈ p, P n

/-- two decision tables that cannot be told apart on `P`-paths -/
def DecAgree (P : Name → Prop) (d₁ d₂ : RelPath → Res Bool) : Prop := ∀ p, PathP P p → d₁ p = d₂ p

theorem PathP.snoc {P : Name → Prop} {p : RelPath} {n : Name} (hp : PathP P p) (hn : P n) : PathP P (p ++ [n]) := by
  intro m hm
  rcases List.mem_append.mp hm with h | h
  · exact hp m h
  · simp only [List.mem_cons, List.not_mem_nil, or_false] at h; subst h; exact hn

theorem PathP.cmpArg {P : Name → Prop} {p : RelPath} {n : Name} (hp : PathP P p) (hn : P n) (b : Bool) :
    PathP P (cmpArg b p n) := by
  unfold WcWalk.cmpArg
  split
  · exact hp.snoc hn
  · intro m hm; simp only [List.mem_cons, List.not_mem_nil, or_false] at hm; subst hm; exact hn

theorem dirNames_all {P : Name → Prop} : ∀ {t : Tree}, t.AllNames P → ∀ n ∈ dirNames t, P n
  | .nil, _, n, hn => by simp [dirNames] at hn
  | .cons m k sub rest, h, n, hn => by
    simp only [Tree.AllNames] at h
    simp only [dirNames] at hn
    split at hn
    · rcases List.mem_cons.mp hn with rfl | hn
      · exact h.1
      · exact dirNames_all h.2.2 n hn
    · exact dirNames_all h.2.2 n hn

theorem fileNames_all {P : Name → Prop} : ∀ {t : Tree}, t.AllNames P → ∀ n ∈ fileNames t, P n
  | .nil, _, n, hn => by simp [fileNames] at hn
  | .cons m k sub rest, h, n, hn => by
    simp only [Tree.AllNames] at h
    simp only [fileNames] at hn
    split at hn
    · exact fileNames_all h.2.2 n hn
    · rcases List.mem_cons.mp hn with rfl | hn
      · exact h.1
      · exact fileNames_all h.2.2 n hn

section
variable {P : Name → Prop} (cfg : Cfg) {f₂ d₂ : RelPath → Res Bool}
  (hf : DecAgree P cfg.fileDec f₂) (hd : DecAgree P cfg.dirExcl d₂)

/-- the same switches, other decision tables -/
abbrev Cfg.withDec (cfg : Cfg) (f₂ d₂ : RelPath → Res Bool) : Cfg := { cfg with fileDec := f₂, dirExcl := d₂ }

include hd in
theorem validFolder_congr (hk : Hooks V) {rel : RelPath} {n : Name} (hr : PathP P rel) (hn : P n) :
    validFolder cfg hk rel n = validFolder (cfg.withDec f₂ d₂) hk rel n := by
  unfold validFolder
  rw [hd _ (hr.cmpArg hn _)]

include hf in
theorem validFile_congr (hk : Hooks V) {rel : RelPath} {n : Name} (hr : PathP P rel) (hn : P n) :
    validFile cfg hk rel n = validFile (cfg.withDec f₂ d₂) hk rel n := by
  unfold validFile
  rw [hf _ (hr.cmpArg hn _)]

include hd in
theorem dirStep_congr (hk : Hooks V) {rel : RelPath} {n : Name} (hr : PathP P rel) (hn : P n) :
    dirStep cfg hk rel n = dirStep (cfg.withDec f₂ d₂) hk rel n := by
  unfold dirStep
  rw [validFolder_congr cfg hd hk hr hn]

include hf in
theorem fileStep_congr (hk : Hooks V) {rel : RelPath} {n : Name} (hr : PathP P rel) (hn : P n) :
    fileStep cfg hk rel n = fileStep (cfg.withDec f₂ d₂) hk rel n := by
  unfold fileStep
  rw [validFile_congr cfg hf hk hr hn]

include hd in
theorem dirLoop_congr (o : Oracle) (hk : Hooks V) {rel : RelPath} (hr : PathP P rel) :
    ∀ (ns : List Name), (∀ n ∈ ns, P n) → ∀ c, dirLoop o cfg hk rel ns c = dirLoop o (cfg.withDec f₂ d₂) hk rel ns c := by
  intro ns
  induction ns with
  | nil => intro _ c; rfl
  | cons n ns ih =>
    intro hns c
    simp only [dirLoop]
    rw [← dirStep_congr cfg hd hk hr (hns n List.mem_cons_self),
      ← ih (fun m hm => hns m (List.mem_cons_of_mem _ hm))]

include hf in
theorem fileLoop_congr (o : Oracle) (hk : Hooks V) {rel : RelPath} (hr : PathP P rel) :
    ∀ (ns : List Name), (∀ n ∈ ns, P n) → ∀ c, fileLoop o cfg hk rel ns c = fileLoop o (cfg.withDec f₂ d₂) hk rel ns c := by
  intro ns
  induction ns with
  | nil => intro _ c; rfl
  | cons n ns ih =>
    intro hns c
    simp only [fileLoop]
    rw [← fileStep_congr cfg hf hk hr (hns n List.mem_cons_self),
      ← ih (fun m hm => hns m (List.mem_cons_of_mem _ hm))]

include hf hd in
theorem dirBody_congr (o : Oracle) (hk : Hooks V) {rel : RelPath} (hr : PathP P rel) {t : Tree} (ht : t.AllNames P)
    (c : Ctr) {subs₁ subs₂ : List Name → Ctr → Run V} (hs : ∀ kept c', subs₁ kept c' = subs₂ kept c') :
    dirBody o cfg hk rel t c subs₁ = dirBody o (cfg.withDec f₂ d₂) hk rel t c subs₂ := by
  have h1 : ∀ c, dirLoop o (cfg.withDec f₂ d₂) hk rel (dirNames t) c = dirLoop o cfg hk rel (dirNames t) c :=
    fun c => (dirLoop_congr cfg hd o hk hr _ (dirNames_all ht) c).symm
  have h2 : ∀ c, fileLoop o (cfg.withDec f₂ d₂) hk rel (fileNames t) c = fileLoop o cfg hk rel (fileNames t) c :=
    fun c => (fileLoop_congr cfg hf o hk hr _ (fileNames_all ht) c).symm
  unfold dirBody
  simp only [h1, h2, hs]

include hf hd in
theorem walkSubs_congr (o : Oracle) (hk : Hooks V) : ∀ (t : Tree), t.AllNames P →
    ∀ (rel : RelPath), PathP P rel → ∀ (kept : List Name) (c : Ctr),
      walkSubs o cfg hk rel kept t c = walkSubs o (cfg.withDec f₂ d₂) hk rel kept t c := by
  intro t
  induction t with
  | nil => intro _ rel _ kept c; rfl
  | cons n k sub rest ihs ihr =>
    intro ht rel hr kept c
    simp only [Tree.AllNames] at ht
    have hwd : ∀ c, walkDir o cfg hk (rel ++ [n]) sub c = walkDir o (cfg.withDec f₂ d₂) hk (rel ++ [n]) sub c := by
      intro c
      unfold walkDir
      exact dirBody_congr cfg hf hd o hk (hr.snoc ht.1) ht.2.1 c
        (fun kept' c' => ihs ht.2.1 (rel ++ [n]) (hr.snoc ht.1) kept' c')
    rw [walkSubs_cons, walkSubs_cons]
    have he : enters (cfg.withDec f₂ d₂) kept n k = enters cfg kept n k := rfl
    rw [he]
    simp only [← hwd, ← ihr ht.2.2 rel hr kept]

include hf hd in
/-- **the walk asks its decision tables only about paths made of names of the tree** -/
theorem run_congr (o : Oracle) (hk : Hooks V) (t : Tree) (ht : t.AllNames P) :
    run o cfg hk t = run o (cfg.withDec f₂ d₂) hk t := by
  unfold run walkDir
  rw [dirBody_congr cfg hf hd o hk (fun _ h => by simp at h) ht _
    (fun kept c' => walkSubs_congr cfg hf hd o hk t ht [] (fun _ h => by simp at h) kept c')]

end

end WcModel.WcWalk

import WcModel.Model.GlobSplit
import WcModel.Model.Split
import WcModel.Proofs.PassPrint
import WcModel.Proofs.SeqWF
/-
  The two auxiliary scanners that step over a bracket expression — `_GlobSplit._sequence`
  (`GSplit.sequence`) and `WcSplit._sequence` (`Split.sequence`) — end exactly where the parser's
  `WcParse._sequence` (`sequence`) ends, or give up exactly when it gives up: on EVERY text
  (escapes, POSIX classes, a leading `]`, `^` as negation included).  This is what the D34 repair is
  about: before it the scanners read `!` only as negation, took a first `]` for the end and did not
  know POSIX classes, so `[[:digit:]@(]x/y)` was cut in the wrong place.
-/
namespace WcModel.SeqScan

theorem handlePosix_none (it : It) (res : List CTok) (e : Nat) (h : matchPosix it.rest = none) :
    handlePosix it res e = none := by
  unfold handlePosix; rw [h]

theorem handlePosix_some (it : It) (res : List CTok) (e : Nat) (n : PosixName) (len : Nat) (r : List Char)
    (h : matchPosix it.rest = some (n, len, r)) :
    ∃ res', handlePosix it res e = some (⟨it.idx + len, r⟩, res') := by
  unfold handlePosix; rw [h]; exact ⟨_, rfl⟩

theorem skipPosix_none (it : It) (h : matchPosix it.rest = none) : GSplit.skipPosix it = it := by
  unfold GSplit.skipPosix; rw [h]

theorem skipPosix_some (it : It) (n : PosixName) (len : Nat) (r : List Char)
    (h : matchPosix it.rest = some (n, len, r)) : GSplit.skipPosix it = ⟨it.idx + len, r⟩ := by
  unfold GSplit.skipPosix; rw [h]

/-- the member loops, run on the same fuel, stop at the same place -/
theorem gsplit_seqLoop_agree (cfg : Cfg) (hp : cfg.pathname = true) (hb : cfg.bslashAbort = false) :
    ∀ (fuel : Nat) (c : Char) (it : It) (st : SeqSt),
      (seqLoop cfg fuel c it st).map (·.1) = GSplit.seqLoop fuel c it := by
  intro fuel
  induction fuel with
  | zero => intro c it st; rfl
  | succ n ih =>
    intro c it st
    by_cases h1 : c = ']'
    · subst h1; simp [seqLoop, GSplit.seqLoop]
    · by_cases h2 : c = '-'
      · subst h2
        simp only [seqLoop, GSplit.seqLoop, h1, if_false, if_true, show ('-' : Char) ≠ '\\' by decide,
          show ('-' : Char) ≠ '/' by decide, show ('-' : Char) ≠ '[' by decide]
        cases it.next with
        | none => rfl
        | some p => exact ih _ _ _
      · by_cases h3 : c = '['
        · subst h3
          cases hm : matchPosix it.rest with
          | none =>
            simp only [seqLoop, GSplit.seqLoop, h1, h2, if_false, if_true, handlePosix_none it _ _ hm,
              skipPosix_none it hm, show ('[' : Char) ≠ '\\' by decide, show ('[' : Char) ≠ '/' by decide]
            split
            · rename_i heq; split at heq <;> cases heq
            · rename_i value j heq
              have hj : j = it := by split at heq <;> (cases heq; rfl)
              subst hj
              cases j.next with
              | none => rfl
              | some p => exact ih _ _ _
          | some x =>
            obtain ⟨nm, len, r⟩ := x
            obtain ⟨res', hh⟩ := handlePosix_some it st.res st.endRange nm len r hm
            simp only [seqLoop, GSplit.seqLoop, h1, h2, if_false, if_true, hh,
              skipPosix_some it nm len r hm, show ('[' : Char) ≠ '\\' by decide, show ('[' : Char) ≠ '/' by decide]
            cases (It.mk (it.idx + len) r).next with
            | none => rfl
            | some p => exact ih _ _ _
        · by_cases h4 : c = '\\'
          · subst h4
            simp only [seqLoop, GSplit.seqLoop, h1, h2, h3, if_false, if_true, referencesSeq]
            cases hn : it.next with
            | none => rfl
            | some p =>
              obtain ⟨d, it2⟩ := p
              simp only [hb, hp, Bool.false_eq_true, if_false, if_true]
              by_cases hd : d = '/'
              · subst hd; simp [show ('/' : Char) ≠ '\\' by decide]
              · simp only [hd, if_false]
                by_cases e1 : d = '\\'
                · subst e1
                  simp only [if_true]
                  cases cfg.unix <;> simp only [Bool.not_true, Bool.not_false, Bool.false_eq_true, if_true, if_false] <;>
                  · cases it2.next with
                    | none => rfl
                    | some p => exact ih _ _ _
                · by_cases e3 : d = '.'
                  · subst e3
                    simp only [e1, if_false, if_true, hn]
                    cases it2.next with
                    | none => rfl
                    | some p => exact ih _ _ _
                  · simp only [e1, e3, if_false]
                    cases it2.next with
                    | none => rfl
                    | some p => exact ih _ _ _
          · by_cases h5 : c = '/'
            · subst h5
              simp [seqLoop, GSplit.seqLoop, hp]
            · simp only [seqLoop, GSplit.seqLoop, h1, h2, h3, h4, h5, if_false]
              split
              · rename_i heq; split at heq <;> cases heq
              · rename_i value j heq
                have hj : j = it := by split at heq <;> (cases heq; rfl)
                subst hj
                cases j.next with
                | none => rfl
                | some p => exact ih _ _ _

theorem seqFinish_it (cfg : Cfg) (ps : PS) (neg : Bool) (it : It) (st : SeqSt) :
    (PP.seqFinish cfg ps neg it st).map (·.2.2) = some it := by
  unfold PP.seqFinish
  dsimp only
  split <;> rfl

/-- where the parser stands after the first member -/
theorem seqStep2_it (neg : Bool) (c : Char) (j : It) :
    (PP.seqStep2 neg c j).map (fun x => (x.1, x.2.1)) =
      (if c = '[' then (GSplit.skipPosix j).next else if c = '-' ∨ c = ']' then j.next else some (c, j)) := by
  unfold PP.seqStep2
  dsimp only
  by_cases h1 : c = '['
  · subst h1
    simp only [if_true]
    cases hm : matchPosix j.rest with
    | none =>
      rw [handlePosix_none j _ _ hm, skipPosix_none j hm]
      cases j.next <;> rfl
    | some x =>
      obtain ⟨nm, len, r⟩ := x
      obtain ⟨res', hh⟩ := handlePosix_some j (if neg then [.caret, .opn] else [.opn]) 0 nm len r hm
      rw [hh, skipPosix_some j nm len r hm]
      dsimp only
      cases (It.mk (j.idx + len) r).next <;> rfl
  · simp only [h1, if_false]
    by_cases h2 : c = '-' ∨ c = ']'
    · have hb2 : (decide (c = '-') || decide (c = ']')) = true := by simpa using h2
      simp only [hb2, h2, if_true]
      cases j.next <;> rfl
    · have hb2 : (decide (c = '-') || decide (c = ']')) = false := by simpa using h2
      simp only [hb2, h2, if_false, Bool.false_eq_true]
      rfl

/-- the scanner after the (optional) negation character -/
def gsTail (c : Char) (it : It) : Option It :=
  (if c = '[' then (GSplit.skipPosix it).next else if c = '-' ∨ c = ']' then it.next else some (c, it)).bind
    fun x => GSplit.seqLoop (x.2.rest.length + 2) x.1 x.2

theorem seqBody_it (cfg : Cfg) (hp : cfg.pathname = true) (hb : cfg.bslashAbort = false) (ps : PS) (neg : Bool)
    (c : Char) (j : It) : (PP.seqBody cfg ps neg c j).map (·.2.2) = gsTail c j := by
  unfold PP.seqBody gsTail
  rw [← seqStep2_it neg c j]
  cases PP.seqStep2 neg c j with
  | none => rfl
  | some x =>
    obtain ⟨c', j', res, lp⟩ := x
    simp only [Option.map_some, Option.bind_some]
    rw [← gsplit_seqLoop_agree cfg hp hb _ _ _ ⟨res, 0, -1, false, lp⟩]
    cases seqLoop cfg (j'.rest.length + 2) c' j' ⟨res, 0, -1, false, lp⟩ with
    | none => rfl
    | some y => obtain ⟨j2, st⟩ := y; exact seqFinish_it cfg ps neg j2 st

theorem gsplit_sequence_eq (it : It) :
    GSplit.sequence it =
      match it.next with
      | none => none
      | some (c, it) =>
        if c = '!' ∨ c = '^' then
          match it.next with
          | none => none
          | some (c', it') => gsTail c' it'
        else gsTail c it := by
  unfold GSplit.sequence gsTail
  cases it.next with
  | none => rfl
  | some p =>
    obtain ⟨c, i1⟩ := p
    simp only [Option.bind_eq_bind, Option.bind_some]
    split
    · cases i1.next with
      | none => rfl
      | some q =>
        obtain ⟨c', i2⟩ := q
        simp only [Option.bind_some]
        split
        · rfl
        · split <;> rfl
    · split
      · rfl
      · split <;> rfl

/-- **the glob splitter's bracket skip = the parser's `_sequence`**, as far as the iterator goes: on
    every text, from every position.  (`_GlobSplit` is only ever used with PATHNAME and, on this
    host, Unix rules — `GlobInit.unix_on_this_host`.) -/
theorem gsplit_sequence_agree (cfg : Cfg) (ps : PS) (it : It) (hp : cfg.pathname = true)
    (hb : cfg.bslashAbort = false) :
    (sequence cfg ps it).map (·.2.2) = GSplit.sequence it := by
  rw [PP.sequence_eq, gsplit_sequence_eq]
  cases it.next with
  | none => rfl
  | some p1 =>
    obtain ⟨c1, i1⟩ := p1
    dsimp only
    by_cases hneg : c1 = '!' ∨ c1 = '^'
    · have hnb : (decide (c1 = '!') || decide (c1 = '^')) = true := by simpa using hneg
      simp only [hnb, hneg, if_true]
      cases i1.next with
      | none => rfl
      | some p2 => exact seqBody_it cfg hp hb ps true _ _
    · have hnb : (decide (c1 = '!') || decide (c1 = '^')) = false := by simpa using hneg
      simp only [hnb, hneg, if_false, Bool.false_eq_true]
      exact seqBody_it cfg hp hb ps false _ _

/-! ### the SPLIT scanner -/

theorem splitSkip_none (r : List Char) (h : matchPosix r = none) : Split.skipPosix r = r := by
  unfold Split.skipPosix; rw [h]

theorem splitSkip_some (r : List Char) (n : PosixName) (len : Nat) (r' : List Char)
    (h : matchPosix r = some (n, len, r')) : Split.skipPosix r = r' := by
  unfold Split.skipPosix; rw [h]

theorem matchPosix_len {s : List Char} {n : PosixName} {len : Nat} {r : List Char}
    (h : matchPosix s = some (n, len, r)) : r.length ≤ s.length := by
  obtain ⟨pre, hp⟩ := matchPosix_suffix h
  rw [hp, List.length_append]; omega

/-- the member loops stop at the same place, whatever (sufficient) fuel each was given -/
theorem wcsplit_seqLoop_agree (cfg : Cfg) (sc : Split.Cfg) (hp : sc.pathname = cfg.pathname)
    (hb : sc.bslashAbort = cfg.bslashAbort) :
    ∀ (f1 f2 : Nat) (c : Char) (it : It) (st : SeqSt), it.rest.length < f1 → it.rest.length < f2 →
      (seqLoop cfg f1 c it st).map (·.1.rest) = Split.seqLoop sc f2 c it.rest := by
  intro f1
  induction f1 with
  | zero => intro f2 c it st h; omega
  | succ n ih =>
    intro f2 c it st hf1 hf2
    obtain ⟨g, rfl⟩ : ∃ g, f2 = g + 1 := ⟨f2 - 1, by omega⟩
    -- the common tail: read the next character from `j`
    have tail : ∀ (j : It) (F : Char → It → SeqSt), j.rest.length ≤ it.rest.length →
        Option.map (fun x => x.1.rest)
          (match j.next with
           | none => none
           | some (c', it') => seqLoop cfg n c' it' (F c' it')) =
        (match (some j.rest : Option (List Char)) with
         | none => none
         | some [] => none
         | some (c' :: r) => Split.seqLoop sc g c' r) := by
      intro j F hj
      obtain ⟨ji, jr⟩ := j
      cases jr with
      | nil => rfl
      | cons c' r =>
        simp only [It.next]
        simp only [List.length_cons] at hj
        exact ih g c' ⟨ji + 1, r⟩ _ (by simp only []; omega) (by simp only []; omega)
    by_cases h1 : c = ']'
    · subst h1; simp [seqLoop, Split.seqLoop]
    · by_cases h2 : c = '-'
      · subst h2
        simp only [seqLoop, Split.seqLoop, h1, if_false, if_true, show ('-' : Char) ≠ '\\' by decide,
          show ('-' : Char) ≠ '/' by decide, show ('-' : Char) ≠ '[' by decide]
        exact tail it _ (Nat.le_refl _)
      · by_cases h3 : c = '['
        · subst h3
          cases hm : matchPosix it.rest with
          | none =>
            simp only [seqLoop, Split.seqLoop, h1, h2, if_false, if_true, handlePosix_none it _ _ hm,
              splitSkip_none it.rest hm, show ('[' : Char) ≠ '\\' by decide, show ('[' : Char) ≠ '/' by decide]
            split
            · rename_i heq; split at heq <;> cases heq
            · rename_i value j heq
              have hj : j = it := by split at heq <;> (cases heq; rfl)
              subst hj
              exact tail j _ (Nat.le_refl _)
          | some x =>
            obtain ⟨nm, len, r⟩ := x
            obtain ⟨res', hh⟩ := handlePosix_some it st.res st.endRange nm len r hm
            simp only [seqLoop, Split.seqLoop, h1, h2, if_false, if_true, hh,
              splitSkip_some it.rest nm len r hm, show ('[' : Char) ≠ '\\' by decide, show ('[' : Char) ≠ '/' by decide]
            exact tail ⟨it.idx + len, r⟩ _ (matchPosix_len hm)
        · by_cases h4 : c = '\\'
          · subst h4
            obtain ⟨ii, ir⟩ := it
            cases ir with
            | nil => simp [seqLoop, Split.seqLoop, referencesSeq, Split.references, It.next]
            | cons d r2 =>
              have hle : (It.mk (ii + 1) r2).rest.length ≤ (It.mk ii (d :: r2)).rest.length := by
                simp only [List.length_cons]; omega
              have hn : (It.mk ii (d :: r2)).next = some (d, ⟨ii + 1, r2⟩) := rfl
              simp only [seqLoop, Split.seqLoop, h1, h2, h3, if_false, if_true, referencesSeq, Split.references,
                hn, Bool.true_and, hp, hb]
              by_cases e1 : d = '\\'
              · subst e1
                simp only [if_true]
                cases cfg.bslashAbort with
                | true => rfl
                | false =>
                  simp only [Bool.false_eq_true, if_false]
                  cases cfg.unix <;> simp only [Bool.not_true, Bool.not_false, Bool.false_eq_true, if_true, if_false] <;>
                    exact tail ⟨ii + 1, r2⟩ _ hle
              · by_cases e2 : d = '/'
                · subst e2
                  simp only [e1, if_false, if_true]
                  cases cfg.pathname with
                  | true => rfl
                  | false =>
                    simp only [Bool.false_eq_true, if_false]
                    cases cfg.unix <;> simp only [Bool.false_eq_true, if_true, if_false] <;>
                      exact tail ⟨ii + 1, r2⟩ _ hle
                · by_cases e3 : d = '.'
                  · subst e3
                    simp only [e1, e2, if_false, if_true]
                    exact tail ⟨ii + 1, r2⟩ _ hle
                  · simp only [e1, e2, e3, if_false]
                    exact tail ⟨ii + 1, r2⟩ _ hle
          · by_cases h5 : c = '/'
            · subst h5
              simp only [seqLoop, Split.seqLoop, h1, h2, h3, h4, if_false, if_true, hp]
              cases cfg.pathname with
              | true => rfl
              | false =>
                simp only [Bool.false_eq_true, if_false]
                exact tail it _ (Nat.le_refl _)
            · simp only [seqLoop, Split.seqLoop, h1, h2, h3, h4, h5, if_false]
              split
              · rename_i heq; split at heq <;> cases heq
              · rename_i value j heq
                have hj : j = it := by split at heq <;> (cases heq; rfl)
                subst hj
                exact tail j _ (Nat.le_refl _)

/-- the SPLIT scanner after the (optional) negation character -/
def spTail (sc : Split.Cfg) (c1 : Char) (r1 : List Char) : Option (List Char) :=
  let s2 : Option (Char × List Char) :=
    if c1 = '[' then (match Split.skipPosix r1 with | [] => none | c' :: r' => some (c', r'))
    else if c1 = '-' ∨ c1 = ']' then (match r1 with | [] => none | c' :: r' => some (c', r'))
    else some (c1, r1)
  match s2 with
  | none => none
  | some (c2, r2) => Split.seqLoop sc (r2.length + 1) c2 r2

theorem split_sequence_eq (sc : Split.Cfg) (rest : List Char) :
    Split.sequence sc rest =
      match rest with
      | [] => none
      | c :: r =>
        match (if c = '!' ∨ c = '^' then (match r with | [] => none | c' :: r' => some (c', r')) else some (c, r) :
            Option (Char × List Char)) with
        | none => none
        | some (c1, r1) => spTail sc c1 r1 := by
  rfl

theorem skipPosix_rest (j : It) : (GSplit.skipPosix j).rest = Split.skipPosix j.rest := by
  unfold GSplit.skipPosix Split.skipPosix
  cases matchPosix j.rest with
  | none => rfl
  | some x => rfl

theorem next_rest (j : It) :
    j.next.map (fun x => (x.1, x.2.rest)) = (match j.rest with | [] => none | c' :: r' => some (c', r')) := by
  obtain ⟨i, r⟩ := j
  cases r <;> rfl

theorem seqBody_rest (cfg : Cfg) (sc : Split.Cfg) (hp : sc.pathname = cfg.pathname)
    (hb : sc.bslashAbort = cfg.bslashAbort) (ps : PS) (neg : Bool) (c : Char) (j : It) :
    (PP.seqBody cfg ps neg c j).map (·.2.2.rest) = spTail sc c j.rest := by
  have h2 : (PP.seqStep2 neg c j).map (fun x => (x.1, x.2.1.rest)) =
      (if c = '[' then (match Split.skipPosix j.rest with | [] => none | c' :: r' => some (c', r'))
       else if c = '-' ∨ c = ']' then (match j.rest with | [] => none | c' :: r' => some (c', r'))
       else some (c, j.rest)) := by
    have := congrArg (Option.map (fun x : Char × It => (x.1, x.2.rest))) (seqStep2_it neg c j)
    rw [Option.map_map] at this
    refine Eq.trans this ?_
    split
    · rw [next_rest, skipPosix_rest]
    · split
      · rw [next_rest]
      · rfl
  unfold PP.seqBody spTail
  dsimp only
  rw [← h2]
  cases PP.seqStep2 neg c j with
  | none => rfl
  | some x =>
    obtain ⟨c', j', res, lp⟩ := x
    simp only [Option.map_some]
    rw [← wcsplit_seqLoop_agree cfg sc hp hb (j'.rest.length + 2) (j'.rest.length + 1) c' j' ⟨res, 0, -1, false, lp⟩
      (by omega) (by omega)]
    cases seqLoop cfg (j'.rest.length + 2) c' j' ⟨res, 0, -1, false, lp⟩ with
    | none => rfl
    | some y =>
      obtain ⟨j2, st⟩ := y
      have := congrArg (Option.map It.rest) (seqFinish_it cfg ps neg j2 st)
      rw [Option.map_map] at this
      exact this

/-- **the SPLIT scanner's bracket skip = the parser's `_sequence`**, as far as the position goes: on
    every text, under every flag word (`WcSplit` takes PATHNAME and the Windows/Unix choice from
    the same flags the parser gets: `Split.Cfg.ofFlags`) -/
theorem wcsplit_sequence_agree (cfg : Cfg) (sc : Split.Cfg) (hp : sc.pathname = cfg.pathname)
    (hb : sc.bslashAbort = cfg.bslashAbort) (ps : PS) (it : It) :
    (sequence cfg ps it).map (·.2.2.rest) = Split.sequence sc it.rest := by
  rw [PP.sequence_eq, split_sequence_eq]
  obtain ⟨i, rest⟩ := it
  cases rest with
  | nil => rfl
  | cons c1 r1 =>
    have hn : (It.mk i (c1 :: r1)).next = some (c1, ⟨i + 1, r1⟩) := rfl
    simp only [hn]
    by_cases hneg : c1 = '!' ∨ c1 = '^'
    · have hnb : (decide (c1 = '!') || decide (c1 = '^')) = true := by simpa using hneg
      simp only [hnb, hneg, if_true]
      cases r1 with
      | nil => rfl
      | cons c2 r2 =>
        have hn2 : (It.mk (i + 1) (c2 :: r2)).next = some (c2, ⟨i + 1 + 1, r2⟩) := rfl
        simp only [hn2]
        exact seqBody_rest cfg sc hp hb ps true c2 ⟨i + 1 + 1, r2⟩
    · have hnb : (decide (c1 = '!') || decide (c1 = '^')) = false := by simpa using hneg
      simp only [hnb, hneg, if_false, Bool.false_eq_true]
      exact seqBody_rest cfg sc hp hb ps false c1 ⟨i + 1, r1⟩

/-! ### at the level of the flag word -/

/-- `glob`: under PATHNAME and Unix rules (what `Glob.__init__` guarantees on this host) the pattern
    splitter steps over a bracket exactly as the segment compiler will read it -/
theorem gsplit_sequence_agree_flags (isBytes : Bool) (f : Flags) (hp : f.pathname = true)
    (hu : isUnixStyle f = true) (ps : PS) (it : It) :
    (sequence (Cfg.ofFlags isBytes f) ps it).map (·.2.2) = GSplit.sequence it :=
  gsplit_sequence_agree _ ps it (by simp [Cfg.ofFlags, hp]) (by simp [Cfg.ofFlags, hu])

/-- SPLIT: `WcSplit(p, flags)` steps over a bracket exactly as `WcParse(piece, flags)` will read it,
    under Unix rules or PATHNAME.  (Under Windows rules WITHOUT PATHNAME the two disagree about `\\`
    inside a bracket — `WcSplit.bslash_abort = not unix`, `WcParse.bslash_abort = pathname` — which
    is not part of D34; the hypothesis keeps that case out.) -/
theorem wcsplit_sequence_agree_flags (isBytes : Bool) (f : Flags)
    (h : isUnixStyle f = true ∨ f.pathname = true) (ps : PS) (it : It) :
    (sequence (Cfg.ofFlags isBytes f) ps it).map (·.2.2.rest) = Split.sequence (Split.Cfg.ofFlags f) it.rest := by
  refine wcsplit_sequence_agree _ _ (by simp [Cfg.ofFlags, Split.Cfg.ofFlags]) ?_ ps it
  rcases h with h | h
  · simp [Cfg.ofFlags, Split.Cfg.ofFlags, h]
  · cases hu : isUnixStyle f <;> simp [Cfg.ofFlags, Split.Cfg.ofFlags, h, hu]

/-- **D34, the property the repair is about**: on every text and from every position, both auxiliary
    scanners end a bracket expression where the parser's `_sequence` ends it, and give up (the `[`
    is then an ordinary character) exactly when the parser gives up -/
theorem seq_scanners_agree (isBytes : Bool) (f : Flags) (ps : PS) (it : It) :
    (f.pathname = true → isUnixStyle f = true →
      (sequence (Cfg.ofFlags isBytes f) ps it).map (·.2.2) = GSplit.sequence it) ∧
    (isUnixStyle f = true ∨ f.pathname = true →
      (sequence (Cfg.ofFlags isBytes f) ps it).map (·.2.2.rest) = Split.sequence (Split.Cfg.ofFlags f) it.rest) :=
  ⟨fun hp hu => gsplit_sequence_agree_flags isBytes f hp hu ps it,
   fun h => wcsplit_sequence_agree_flags isBytes f h ps it⟩

end WcModel.SeqScan

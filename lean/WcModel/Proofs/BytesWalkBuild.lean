import WcModel.Proofs.BytesWalkGlob
/-
  C18 on the walkers — `Glob.__init__` (`_iter_patterns`, `_parse_patterns`): the bytes and the str
  constructor build twin objects or raise the same error (`build_twin`), and every pattern they
  hold is an output of `_GlobSplit.split` (`build_allSplit`), so that its drive part, if any, is
  the literal `/` (`headOK_of_split`, from `globSplit_drive_all`).
-/
namespace WcModel

def GlobObj.bnorm (o : GlobObj) : GlobObj :=
  { pattern := o.pattern.map bnormP, npatterns := bnormL o.npatterns, nounique := o.nounique }

theorem GlobObj.bnorm_eq_fields {o₁ o₂ : GlobObj} (h : o₁.bnorm = o₂.bnorm) :
    o₁.pattern.map bnormP = o₂.pattern.map bnormP ∧ bnormL o₁.npatterns = bnormL o₂.npatterns ∧
      o₁.nounique = o₂.nounique := by
  obtain ⟨a1, a2, a3⟩ := o₁
  obtain ⟨b1, b2, b3⟩ := o₂
  simpa [GlobObj.bnorm] using h

theorem GlobObj.bnorm_mk {o₁ o₂ : GlobObj} (h1 : o₁.pattern.map bnormP = o₂.pattern.map bnormP)
    (h2 : bnormL o₁.npatterns = bnormL o₂.npatterns) (h3 : o₁.nounique = o₂.nounique) : o₁.bnorm = o₂.bnorm := by
  simp only [GlobObj.bnorm, h1, h2, h3]

/-- the same `Glob.__init__` fields with the other pattern type -/
def GInit.withBytes (g : GInit) (b : Bool) : GInit := { g with isBytes := b }

theorem GInit.ofNat_withBytes (uf : Nat) (he b b' fd : Bool) :
    (GInit.ofNat uf he b fd).withBytes b' = GInit.ofNat uf he b' fd := rfl

theorem iterPatterns_withBytes (g : GInit) (b nu fn : Bool) : ∀ (l seen : List (List Char)),
    iterPatterns (g.withBytes b) nu fn seen l = iterPatterns g nu fn seen l := by
  intro l
  induction l with
  | nil => intro seen; rfl
  | cons e r ih =>
    intro seen
    simp only [iterPatterns, ih]
    rfl

theorem parseItemsInto_twin (g : GInit) : ∀ (items : List (Bool × List Char)) (oB oS : GlobObj),
    oB.bnorm = oS.bnorm →
    (parseItemsInto (g.withBytes true) items oB).map GlobObj.bnorm =
      (parseItemsInto (g.withBytes false) items oS).map GlobObj.bnorm := by
  intro items
  induction items with
  | nil => intro oB oS h; simp only [parseItemsInto, Except.map, h]
  | cons it r ih =>
    intro oB oS h
    obtain ⟨h1, h2, h3⟩ := GlobObj.bnorm_eq_fields h
    obtain ⟨neg, p⟩ := it
    cases neg with
    | true =>
      simp only [parseItemsInto]
      rcases exceptMap_cases (compilePart_twin g.negFlags p) with ⟨x, hB, hS⟩ | ⟨a, b, hB, hS, hab⟩
      · simp only [GInit.withBytes, hB, hS, Except.map]
      · simp only [GInit.withBytes, hB, hS]
        exact ih _ _ (GlobObj.bnorm_mk h1 (by
          simp only [bnormL, List.map_append, List.map_cons, List.map_nil, hab]
          rw [show List.map Re.bnorm oB.npatterns = List.map Re.bnorm oS.npatterns from h2]) h3)
    | false =>
      simp only [parseItemsInto]
      rcases exceptMap_cases (globSplit_twin g.flags p) with ⟨x, hB, hS⟩ | ⟨a, b, hB, hS, hab⟩
      · simp only [GInit.withBytes, hB, hS, Except.map]
      · simp only [GInit.withBytes, hB, hS]
        exact ih _ _ (GlobObj.bnorm_mk (by simp only [List.map_append, List.map_cons, List.map_nil, h1, hab]) h2 h3)

theorem map_bnormP_isEmpty {l₁ l₂ : List (List GPart)} (h : l₁.map bnormP = l₂.map bnormP) :
    l₁.isEmpty = l₂.isEmpty := by
  cases l₁ <;> cases l₂ <;> simp at h ⊢

theorem map_bnormP_length {l₁ l₂ : List (List GPart)} (h : l₁.map bnormP = l₂.map bnormP) :
    l₁.length = l₂.length := by
  have := congrArg List.length h
  simpa using this

/-- the flags of the NEGATEALL default pattern -/
def gsFlags (g : GInit) : Flags := { g.flags with globstar := true }

/-- `_parse_patterns` 533-536: the NEGATEALL default pattern `**` -/
def negateallStep (g : GInit) (o : GlobObj) : Except SplitErr GlobObj :=
  if o.pattern.isEmpty && !o.npatterns.isEmpty && g.negateall then
    (globSplit (gsFlags g) g.isBytes ['*', '*']).map (fun ps => { o with pattern := o.pattern ++ [ps] })
  else .ok o

def nodirStep (g : GInit) (fn : Bool) (o : GlobObj) : GlobObj :=
  if g.nodir && !fn then { o with npatterns := o.npatterns ++ [Frag.noNixDir] } else o

/-- `_parse_patterns` 538-546: the NODIR exclusion and the single-pattern NOUNIQUE shortcut -/
def finishStep (g : GInit) (fn : Bool) (o : GlobObj) : GlobObj :=
  if !fn && (nodirStep g fn o).pattern.length ≤ 1 && !g.flags.nodotdir && !(nodirStep g fn o).nounique &&
      !(g.pathlib && g.scandotdir) then
    { nodirStep g fn o with nounique := true }
  else nodirStep g fn o

theorem parsePatterns_eq (g : GInit) (exps : List (List (List Char))) (fn : Bool) (o : GlobObj) :
    parsePatterns g exps fn o =
      match parseItemsInto g (iterPatterns g o.nounique fn [] exps.flatten) o with
      | .error e => .error e
      | .ok o1 =>
        match negateallStep g o1 with
        | .error e => .error e
        | .ok o2 => .ok (finishStep g fn o2) := by
  unfold parsePatterns negateallStep finishStep nodirStep gsFlags
  cases parseItemsInto g (iterPatterns g o.nounique fn [] exps.flatten) o with
  | error e => rfl
  | ok o1 =>
    simp only []
    generalize (if (o1.pattern.isEmpty && !o1.npatterns.isEmpty && g.negateall) = true then
      Except.map (fun ps => ({ o1 with pattern := o1.pattern ++ [ps] } : GlobObj))
        (globSplit { g.flags with globstar := true } g.isBytes ['*', '*']) else Except.ok o1) = X
    cases X with
    | error e => rfl
    | ok o2 => simp only []; split <;> (split <;> rfl)

theorem negateallStep_twin (g : GInit) {a b : GlobObj} (hab : a.bnorm = b.bnorm) :
    (negateallStep (g.withBytes true) a).map GlobObj.bnorm =
      (negateallStep (g.withBytes false) b).map GlobObj.bnorm := by
  obtain ⟨h1, h2, h3⟩ := GlobObj.bnorm_eq_fields hab
  have e : ∀ (bb : Bool) (o : GlobObj), negateallStep (g.withBytes bb) o =
      if o.pattern.isEmpty && !o.npatterns.isEmpty && g.negateall then
        (globSplit (gsFlags g) bb ['*', '*']).map (fun ps => { o with pattern := o.pattern ++ [ps] })
      else .ok o := fun _ _ => rfl
  rw [e, e, map_bnormP_isEmpty h1, bnormL_isEmpty h2]
  split
  · rcases exceptMap_cases (globSplit_twin (gsFlags g) ['*', '*']) with ⟨x, hB2, hS2⟩ | ⟨pa, pb, hB2, hS2, hab2⟩
    · rw [hB2, hS2]; rfl
    · rw [hB2, hS2]
      simp only [Except.map]
      exact congrArg Except.ok
        (GlobObj.bnorm_mk (by simp only [List.map_append, List.map_cons, List.map_nil, h1, hab2]) h2 h3)
  · simp only [Except.map, hab]

theorem nodirStep_twin (g : GInit) (fn : Bool) {a b : GlobObj} (hab : a.bnorm = b.bnorm) :
    (nodirStep (g.withBytes true) fn a).bnorm = (nodirStep (g.withBytes false) fn b).bnorm := by
  obtain ⟨k1, k2, k3⟩ := GlobObj.bnorm_eq_fields hab
  have e : ∀ (bb : Bool) (o : GlobObj), nodirStep (g.withBytes bb) fn o =
      if g.nodir && !fn then { o with npatterns := o.npatterns ++ [Frag.noNixDir] } else o := fun _ _ => rfl
  rw [e, e]
  split
  · exact GlobObj.bnorm_mk k1 (by
      simp only [bnormL, List.map_append]
      rw [show List.map Re.bnorm a.npatterns = List.map Re.bnorm b.npatterns from k2]) k3
  · exact hab

theorem finishStep_twin (g : GInit) (fn : Bool) {a b : GlobObj} (hab : a.bnorm = b.bnorm) :
    (finishStep (g.withBytes true) fn a).bnorm = (finishStep (g.withBytes false) fn b).bnorm := by
  have hnd := nodirStep_twin g fn hab
  obtain ⟨m1, m2, m3⟩ := GlobObj.bnorm_eq_fields hnd
  have e : ∀ (bb : Bool) (o : GlobObj), finishStep (g.withBytes bb) fn o =
      if !fn && (nodirStep (g.withBytes bb) fn o).pattern.length ≤ 1 && !g.flags.nodotdir &&
          !(nodirStep (g.withBytes bb) fn o).nounique && !(g.pathlib && g.scandotdir) then
        { nodirStep (g.withBytes bb) fn o with nounique := true }
      else nodirStep (g.withBytes bb) fn o := fun _ _ => rfl
  rw [e, e, map_bnormP_length m1, m3]
  split
  · exact GlobObj.bnorm_mk m1 m2 rfl
  · exact hnd

theorem parsePatterns_twin (g : GInit) (exps : List (List (List Char))) (fn : Bool) {oB oS : GlobObj}
    (h : oB.bnorm = oS.bnorm) :
    (parsePatterns (g.withBytes true) exps fn oB).map GlobObj.bnorm =
      (parsePatterns (g.withBytes false) exps fn oS).map GlobObj.bnorm := by
  rw [parsePatterns_eq, parsePatterns_eq]
  rw [iterPatterns_withBytes, iterPatterns_withBytes, (GlobObj.bnorm_eq_fields h).2.2]
  rcases exceptMap_cases (parseItemsInto_twin g (iterPatterns g oS.nounique fn [] exps.flatten) oB oS h) with
    ⟨x, hB, hS⟩ | ⟨a, b, hB, hS, hab⟩
  · rw [hB, hS]
  · rw [hB, hS]
    simp only []
    rcases exceptMap_cases (negateallStep_twin g hab) with ⟨x, hB3, hS3⟩ | ⟨a', b', hB3, hS3, hab3⟩
    · rw [hB3, hS3]
    · rw [hB3, hS3]
      simp only [Except.map]
      exact congrArg Except.ok (finishStep_twin g fn hab3)

/-- **`Glob.__init__`** on a bytes pattern list and on the str one: the same error, or objects that are
    equal after `GlobObj.bnorm` — the same number of patterns, each pattern part-wise twin
    (`gpartTwin_iff`), exclusions member-wise twins (`twinL_iff_bnormL`), the same NOUNIQUE switch. -/
theorem build_twin (g : GInit) (exps : Option (List (List (List Char)))) (excl : Option (List (List (List Char)))) :
    (GlobObj.build (g.withBytes true) exps excl).map GlobObj.bnorm =
      (GlobObj.build (g.withBytes false) exps excl).map GlobObj.bnorm := by
  unfold GlobObj.build
  cases exps with
  | none => rfl
  | some e =>
    simp only []
    have h0 : ({ nounique := (g.withBytes true).nouniqueFlag } : GlobObj).bnorm =
        ({ nounique := (g.withBytes false).nouniqueFlag } : GlobObj).bnorm := rfl
    rcases exceptMap_cases (parsePatterns_twin g e false h0) with ⟨x, hB, hS⟩ | ⟨a, b, hB, hS, hab⟩
    · rw [hB, hS]
    · rw [hB, hS]
      cases excl with
      | none => simp only [Except.map, hab]
      | some ex => exact parsePatterns_twin g ex true hab

/-! ### every pattern of a `Glob` object was produced by `_GlobSplit` -/

def AllSplit (o : GlobObj) : Prop := ∀ ps ∈ o.pattern, ∃ f b p, globSplit f b p = .ok ps

theorem parseItemsInto_allSplit (g : GInit) : ∀ (items : List (Bool × List Char)) (o o' : GlobObj),
    AllSplit o → parseItemsInto g items o = .ok o' → AllSplit o' := by
  intro items
  induction items with
  | nil => intro o o' ho h; simp only [parseItemsInto, Except.ok.injEq] at h; subst h; exact ho
  | cons it r ih =>
    intro o o' ho h
    obtain ⟨neg, p⟩ := it
    cases neg with
    | true =>
      simp only [parseItemsInto] at h
      split at h
      · cases h
      · rename_i re _
        exact ih { o with npatterns := o.npatterns ++ [re] } _ (fun ps hps => ho ps hps) h
    | false =>
      simp only [parseItemsInto] at h
      split at h
      · cases h
      · rename_i parts hp
        refine ih _ _ ?_ h
        intro ps hps
        rcases List.mem_append.mp hps with h1 | h1
        · exact ho ps h1
        · simp only [List.mem_cons, List.not_mem_nil, or_false] at h1
          subst h1
          exact ⟨_, _, _, hp⟩

theorem finishStep_pattern (g : GInit) (fn : Bool) (o : GlobObj) : (finishStep g fn o).pattern = o.pattern := by
  unfold finishStep nodirStep
  split <;> (split <;> rfl)

theorem parsePatterns_allSplit (g : GInit) (exps : List (List (List Char))) (fn : Bool) (o o' : GlobObj)
    (ho : AllSplit o) (h : parsePatterns g exps fn o = .ok o') : AllSplit o' := by
  rw [parsePatterns_eq] at h
  split at h
  · cases h
  · rename_i o1 h1
    have ho1 := parseItemsInto_allSplit g _ _ _ ho h1
    split at h
    · cases h
    · rename_i o2 h2
      have ho2 : AllSplit o2 := by
        unfold negateallStep at h2
        split at h2
        · cases hs : globSplit (gsFlags g) g.isBytes ['*', '*'] with
          | error e => rw [hs] at h2; cases h2
          | ok ps =>
            rw [hs] at h2
            simp only [Except.map, Except.ok.injEq] at h2
            subst h2
            intro q hq
            rcases List.mem_append.mp hq with hq | hq
            · exact ho1 q hq
            · simp only [List.mem_cons, List.not_mem_nil, or_false] at hq
              subst hq
              exact ⟨_, _, _, hs⟩
        · cases h2; exact ho1
      cases h
      intro ps hps
      rw [finishStep_pattern] at hps
      exact ho2 ps hps

theorem build_allSplit (g : GInit) (exps : Option (List (List (List Char)))) (excl : Option (List (List (List Char))))
    (o : GlobObj) (h : GlobObj.build g exps excl = .ok o) : AllSplit o := by
  unfold GlobObj.build at h
  cases exps with
  | none => simp only [Except.ok.injEq] at h; subst h; intro ps hps; simp at hps
  | some e =>
    simp only [] at h
    split at h
    · cases h
    · rename_i o1 h1
      have ho1 := parsePatterns_allSplit g e false _ _ (fun ps hps => by simp at hps) h1
      cases excl with
      | none => simp only [Except.ok.injEq] at h; subst h; exact ho1
      | some ex => exact parsePatterns_allSplit g ex true _ _ ho1 h

theorem headOK_of_split {f : Flags} {b : Bool} {p : List Char} {ps : List GPart}
    (h : globSplit f b p = .ok ps) : HeadOK ps := by
  intro p0 rest hp hd
  have := (globSplit_drive_all f b p ps h p0 (by rw [hp]; exact List.mem_cons_self)).1
  rw [hd] at this
  have ht : p0.pat.text = ['/'] := by simpa using this.symm
  rw [ht]
  exact latin1_slash

theorem AllSplit.headOK {o : GlobObj} (h : AllSplit o) : ∀ ps ∈ o.pattern, HeadOK ps := by
  intro ps hps
  obtain ⟨f, b, p, hp⟩ := h ps hps
  exact headOK_of_split hp

end WcModel

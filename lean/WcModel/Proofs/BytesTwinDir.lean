import WcModel.Proofs.BytesFill
import WcModel.Proofs.BytesTwin
/-
  C18 (all patterns), directed form — the tagged run.

  `BytesTwin.lean` shows that the bytes pass and the str pass agree up to the spelling of the full
  range, without saying which side has which spelling.  Here the sharper statement: there is ONE
  tagged item list `T` (a class standing for "every code unit" carries the member list
  `[markItem]`, something the pass never emits) such that the bytes pass returns `T` with the tag
  filled by `fullRange true` and the str pass returns `T` with the tag filled by `fullRange false`
  (`parseItems_dir`).  Consequently the two regexes are related by the DIRECTED relation
  `ReBytesDir` (`… .cls neg [fullRange true]` on the bytes side where the str side has
  `.cls neg [fullRange false]`, identical elsewhere).

  The lock-step induction is the one of `BytesTwin.lean`, carrying the tagged stack as a witness;
  the helpers are natural in the filling map by `BytesFill.lean`.
-/
namespace WcModel

/-- a class member the pass never produces (a POSIX item with empty text) -/
def markItem : ClsItem := .posix .alnum [] []

def fillItems (b : Bool) (items : List ClsItem) : List ClsItem :=
  if items = [markItem] then [fullRange b] else items

theorem fillItems_mark (b : Bool) : fillItems b [markItem] = [fullRange b] := by simp [fillItems]

theorem goodG_fill (b : Bool) : GoodG (fillItems b) := by
  cases b
  all_goals
    refine ⟨by decide, by decide, by decide, by decide, by decide, by decide, ?_, ?_⟩
    · intro i h
      unfold fillItems at h
      split at h
      · exact absurd h (by decide)
      · exact h
    · intro i h
      unfold fillItems at h
      split at h
      · exact absurd h (by decide)
      · exact h

/-! ### the directed relation -/

inductive ReBytesDir : Re → Re → Prop
  | refl (r) : ReBytesDir r r
  | full (neg : Bool) : ReBytesDir (.cls neg [fullRange true]) (.cls neg [fullRange false])
  | cat {a a' b b'} : ReBytesDir a a' → ReBytesDir b b' → ReBytesDir (.cat a b) (.cat a' b')
  | alt {a a' b b'} : ReBytesDir a a' → ReBytesDir b b' → ReBytesDir (.alt a b) (.alt a' b')
  | grp {r r'} : ReBytesDir r r' → ReBytesDir (.grp r) (.grp r')
  | cap {r r'} : ReBytesDir r r' → ReBytesDir (.cap r) (.cap r')
  | gcap {r r'} : ReBytesDir r r' → ReBytesDir (.gcap r) (.gcap r')
  | opt {r r'} : ReBytesDir r r' → ReBytesDir (.opt r) (.opt r')
  | star (l) {r r'} : ReBytesDir r r' → ReBytesDir (.star l r) (.star l r')
  | plus {r r'} : ReBytesDir r r' → ReBytesDir (.plus r) (.plus r')
  | rep (lo hi) {r r'} : ReBytesDir r r' → ReBytesDir (.rep lo hi r) (.rep lo hi r')
  | look (n) {r r'} : ReBytesDir r r' → ReBytesDir (.look n r) (.look n r')
  | flags (s i) {r r'} : ReBytesDir r r' → ReBytesDir (.flags s i r) (.flags s i r')

theorem ReBytesDir.toTwin {r₁ r₂ : Re} (h : ReBytesDir r₁ r₂) : ReBytesTwin r₁ r₂ := by
  induction h with
  | refl r => exact .refl r
  | full neg => exact .full neg true false
  | cat _ _ ih₁ ih₂ => exact .cat ih₁ ih₂
  | alt _ _ ih₁ ih₂ => exact .alt ih₁ ih₂
  | grp _ ih => exact .grp ih
  | cap _ ih => exact .cap ih
  | gcap _ ih => exact .gcap ih
  | opt _ ih => exact .opt ih
  | star l _ ih => exact .star l ih
  | plus _ ih => exact .plus ih
  | rep lo hi _ ih => exact .rep lo hi ih
  | look n _ ih => exact .look n ih
  | flags s i _ ih => exact .flags s i ih

/-- filling one tagged regex with the two spellings gives a directed pair -/
theorem ReBytesDir.of_fill (t : Re) :
    ReBytesDir (t.mapItems (fillItems true)) (t.mapItems (fillItems false)) := by
  induction t with
  | cls neg items =>
    simp only [Re.mapItems, fillItems]
    split
    · exact .full neg
    · exact .refl _
  | cat a b iha ihb => exact .cat iha ihb
  | alt a b iha ihb => exact .alt iha ihb
  | grp r ih => exact .grp ih
  | cap r ih => exact .cap ih
  | gcap r ih => exact .gcap ih
  | opt r ih => exact .opt ih
  | star l r ih => exact .star l ih
  | plus r ih => exact .plus ih
  | rep lo hi r ih => exact .rep lo hi ih
  | look n r ih => exact .look n ih
  | flags s i r ih => exact .flags s i ih
  | eps => exact .refl _
  | lit c => exact .refl _
  | any => exact .refl _
  | bos => exact .refl _
  | eos => exact .refl _

theorem ReBytesDir.cls_inv {n n' : Bool} {i i' : List ClsItem}
    (h : ReBytesDir (.cls n i) (.cls n' i')) :
    n = n' ∧ (i = i' ∨ (i = [fullRange true] ∧ i' = [fullRange false])) := by
  generalize ha : Re.cls n i = a at h
  generalize hb : Re.cls n' i' = b at h
  cases h with
  | refl r => subst ha; cases hb; exact ⟨rfl, .inl rfl⟩
  | full neg => cases ha; cases hb; exact ⟨rfl, .inr ⟨rfl, rfl⟩⟩
  | cat _ _ => cases ha
  | alt _ _ => cases ha
  | grp _ => cases ha
  | cap _ => cases ha
  | gcap _ => cases ha
  | opt _ => cases ha
  | star _ _ => cases ha
  | plus _ => cases ha
  | rep _ _ _ => cases ha
  | look _ _ => cases ha
  | flags _ _ _ => cases ha

/-- the relation really is directed: the str spelling on the left and the bytes spelling on the
    right are NOT related -/
theorem ReBytesDir.directed (neg : Bool) :
    ¬ ReBytesDir (.cls neg [fullRange false]) (.cls neg [fullRange true]) := by
  intro h
  have := h.cls_inv.2
  revert this
  decide

/-! ### the tagged bracket expression -/

theorem posixItem_ne_mark (b : Bool) (n : PosixName) : posixItem b n ≠ markItem := by
  cases b <;> cases n <;> decide +kernel

theorem tokAtoms_noMark (b : Bool) : ∀ l : List CTok, some markItem ∉ tokAtoms b l
  | [] => by simp [tokAtoms]
  | t :: r => by
    have ih := tokAtoms_noMark b r
    have hc : ∀ c e, markItem ≠ ClsItem.chr c e := by intro c e; simp [markItem]
    cases t with
    | opn => simp only [tokAtoms, List.mem_cons, Option.some.injEq, not_or]; exact ⟨hc _ _, ih⟩
    | caret => simp only [tokAtoms, List.mem_cons, Option.some.injEq, not_or]; exact ⟨hc _ _, ih⟩
    | dash => simp only [tokAtoms, List.mem_cons, reduceCtorEq, false_or]; exact ih
    | chr c e => simp only [tokAtoms, List.mem_cons, Option.some.injEq, not_or]; exact ⟨hc _ _, ih⟩
    | posix n =>
      simp only [tokAtoms, List.mem_cons, Option.some.injEq, not_or]
      exact ⟨fun h => posixItem_ne_mark b n h.symm, ih⟩
    | sepBare =>
      simp only [tokAtoms, List.mem_cons, Option.some.injEq, not_or]
      exact ⟨hc _ _, hc _ _, ih⟩

theorem groupAtoms_noMark (f : Nat) (l : List (Option ClsItem)) (h : some markItem ∉ l) :
    markItem ∉ groupAtoms f l := by
  fun_induction groupAtoms f l <;> simp_all [markItem]

theorem fillItems_groupAtoms (b b' : Bool) (f : Nat) (l : List CTok) :
    fillItems b (groupAtoms f (tokAtoms b' l)) = groupAtoms f (tokAtoms b' l) := by
  unfold fillItems
  split
  · rename_i h
    have := groupAtoms_noMark f (tokAtoms b' l) (tokAtoms_noMark b' l)
    rw [h] at this
    simp at this
  · rfl

/-- `sequence` (Model/Parse.lean) verbatim, except that the member standing for "every code unit"
    in the two emptied-class forms is a parameter `F` instead of `fullRange cfg.isBytes` -/
def sequenceF (F : ClsItem) (cfg : Cfg) (ps : PS) (it : It) : Option (Re × PS × It) :=
  match it.next with
  | none => none
  | some (c, it) =>
    let step1 : Option (Bool × Char × It) :=
      if c = '!' || c = '^' then
        match it.next with
        | none => none
        | some (c', it') => some (true, c', it')
      else some (false, c, it)
    match step1 with
    | none => none
    | some (neg, c, it) =>
      let res0 : List CTok := if neg then [.caret, .opn] else [.opn]
      let step2 : Option (Char × It × List CTok × Bool) :=
        if c = '[' then
          match handlePosix it res0 0 with
          | some (it', res) =>
            match it'.next with
            | none => none
            | some (c', it'') => some (c', it'', res, true)
          | none =>
            match it.next with
            | none => none
            | some (c', it') => some (c', it', .chr '[' true :: res0, false)
        else if c = '-' || c = ']' then
          match it.next with
          | none => none
          | some (c', it') => some (c', it', .chr c true :: res0, false)
        else some (c, it, res0, false)
      match step2 with
      | none => none
      | some (c, it, res, lastPosix) =>
        match seqLoop cfg (it.rest.length + 2) c it ⟨res, 0, -1, false, lastPosix⟩ with
        | none => none
        | some (it, st) =>
          let toks := st.res.reverse
          let body := toks.drop (if neg then 2 else 1)
          let cls : Re :=
            if st.removed && body.isEmpty then
              .cls (!neg) [F]
            else if st.removed && !neg && body == [.chr '^' false] then
              .cls false [F]
            else
              let atoms := tokAtoms cfg.isBytes body
              .cls neg (groupAtoms (atoms.length + 1) atoms)
          if cfg.pathname || ps.afterStart then
            let (pre, ps') := restrictSequence cfg ps
            some (catE pre cls, ps', it)
          else some (cls, ps, it)

theorem sequence_eqF (cfg : Cfg) (ps : PS) (it : It) :
    sequence cfg ps it = sequenceF (fullRange cfg.isBytes) cfg ps it := rfl

/-- the tagged bracket expression -/
def sequenceT (cfg : Cfg) (ps : PS) (it : It) : Option (Re × PS × It) := sequenceF markItem cfg ps it

def fSeq (b : Bool) (x : Re × PS × It) : Re × PS × It := (x.1.mapItems (fillItems b), x.2.1, x.2.2)

/-- the pass under `isBytes = b` emits the tagged class filled with `fullRange b` -/
theorem sequence_fill (cfg : Cfg) (b : Bool) (ps : PS) (it : It) :
    sequence (cfg.withBytes b) ps it = (sequenceT cfg ps it).map (fSeq b) := by
  rw [sequence_eqF]
  unfold sequenceT sequenceF
  simp only [Cfg.wb_isBytes, Cfg.wb_pathname, seqLoop_wb, restrictSequence_wb,
    tokAtoms_agree b cfg.isBytes]
  repeat' split
  all_goals simp [fSeq, catE_mi, restrictSequence_mi (goodG_fill b), Re.mapItems, fillItems_mark,
    fillItems_groupAtoms]

/-! ### the lock-step induction, with the tagged stack as witness -/

local notation "gT" => fillItems true
local notation "gF" => fillItems false
local notation "FT" => Item.miL (fillItems true)
local notation "FF" => Item.miL (fillItems false)

def ELDir (cfg : Cfg) (n : Nat) : Prop :=
  ∀ (it : It) (ps : PS) (L₁ L₂ : List Item) (a' b' : Bool) (T : List Item), L₁ = FT T → L₂ = FF T →
    ∃ X, extLoop (cfg.withBytes true) n it ps L₁ a' b' = fEL gT X ∧
         extLoop (cfg.withBytes false) n it ps L₂ a' b' = fEL gF X

def PEDir (cfg : Cfg) (n : Nat) : Prop :=
  ∀ (lt : Char) (it : It) (ps : PS) (L₁ L₂ : List Item) (rd : Bool) (T : List Item),
    L₁ = FT T → L₂ = FF T →
    ∃ X, parseExtend (cfg.withBytes true) n lt it ps L₁ rd = fPE gT X ∧
         parseExtend (cfg.withBytes false) n lt it ps L₂ rd = fPE gF X

theorem parseExtend_dir_step (cfg : Cfg) (n : Nat) (hEL : ELDir cfg n) : PEDir cfg (n+1) := by
  intro lt it ps L₁ L₂ rd T e1 e2
  subst e1 e2
  rw [parseExtend_succ, parseExtend_succ]
  cases hn : it.next with
  | none => exact ⟨peFail ps it T (peEnter ps lt rd), rfl, rfl⟩
  | some p =>
    obtain ⟨c, it'⟩ := p
    simp only
    split
    · exact ⟨peFail ps it T (peEnter ps lt rd), rfl, rfl⟩
    · obtain ⟨X, h1, h2⟩ := hEL it' (peEnter ps lt rd) [] [] ps.afterStart ps.invNest []
        (by simp) (by simp)
      rw [h1, h2]
      cases X with
      | error q => exact ⟨peFail ps it T q, rfl, rfl⟩
      | ok x =>
        obtain ⟨ps1, it1, x1⟩ := x
        simp only [fEL, peBuild_wb, peClose_wb]
        refine ⟨peClose cfg ps it1 (peBuild cfg ps lt T ps1 x1.reverse), ?_, ?_⟩
        · rw [← Item.miL_reverse, peBuild_mi (goodG_fill true), peClose_mi (goodG_fill true)]
        · rw [← Item.miL_reverse, peBuild_mi (goodG_fill false), peClose_mi (goodG_fill false)]

theorem elCont_dir (cfg : Cfg) (n : Nat) (hEL : ELDir cfg n)
    (c : Char) (a' b' : Bool) (ps : PS) (it : It) (L₁ L₂ : List Item) (upd : Bool) (T : List Item)
    (e1 : L₁ = FT T) (e2 : L₂ = FF T) :
    ∃ X, elCont (cfg.withBytes true) n c a' b' ps it L₁ upd = fEL gT X ∧
         elCont (cfg.withBytes false) n c a' b' ps it L₂ upd = fEL gF X := by
  subst e1 e2
  unfold elCont
  simp only
  split
  · exact ⟨.ok (_, it, T), rfl, rfl⟩
  · exact hEL _ _ _ _ _ _ T rfl rfl

theorem elOther_dir (cfg : Cfg) (n : Nat) (hEL : ELDir cfg n)
    (c : Char) (a' b' : Bool) (ps : PS) (it : It) (L₁ L₂ : List Item) (T : List Item)
    (e1 : L₁ = FT T) (e2 : L₂ = FF T) :
    ∃ X, elOther (cfg.withBytes true) n c a' b' ps it L₁ = fEL gT X ∧
         elOther (cfg.withBytes false) n c a' b' ps it L₂ = fEL gF X := by
  subst e1 e2
  have C := elCont_dir cfg n hEL c a' b'
  have hT := goodG_fill true
  have hF := goodG_fill false
  unfold elOther
  simp only [handleStar_wb, handleDot_wb, qmarkItem_wb, restrictExtendedSlash_wb, cleanUpInverse_wb,
    references_wb, Cfg.wb_win, Cfg.wb_dot, Cfg.wb_nodotdir]
  split
  · -- star
    rw [handleStar_mi hT, handleStar_mi hF]
    exact C _ _ _ _ _ (handleStar cfg ps it T).2.2 rfl rfl
  split
  · -- dot
    exact C _ _ _ _ _ (.re (handleDot cfg ps it) :: T) (by simp [handleDot_mi hT])
      (by simp [handleDot_mi hF])
  split
  · -- qmark
    exact C _ _ _ _ _ ((qmarkItem cfg ps).1 :: T) (by simp [qmarkItem_mi hT])
      (by simp [qmarkItem_mi hF])
  split
  · -- slash
    cases hr : restrictExtendedSlash cfg with
    | none =>
      exact C _ _ _ _ _ (.re (Frag.sep cfg.win) :: T) (by simp [Frag.sep_mi hT])
        (by simp [Frag.sep_mi hF])
    | some r =>
      exact C _ _ _ _ _ (.re (Frag.sep cfg.win) :: .re r :: T)
        (by simp [Frag.sep_mi hT, restrictExtendedSlash_mi hT cfg r hr])
        (by simp [Frag.sep_mi hF, restrictExtendedSlash_mi hF cfg r hr])
  split
  · -- bar
    by_cases hi : ps.invNest = true
    · simp only [hi, if_true]
      rw [cleanUpInverse_mi hT, cleanUpInverse_mi hF]
      exact C _ _ _ _ _ (.bar :: (cleanUpInverse cfg ps T b').1) (by simp) (by simp)
    · simp only [hi]
      exact C _ _ _ _ _ (.bar :: T) (by simp) (by simp)
  split
  · -- backslash
    split
    · rename_i v it' ps' heq
      exact C _ _ _ _ _ (.re v :: T) (by simp [references_mi hT cfg ps it v it' ps' heq])
        (by simp [references_mi hF cfg ps it v it' ps' heq])
    · exact C _ _ _ _ _ T rfl rfl
    · exact C _ _ _ _ _ T rfl rfl
  split
  · -- bracket
    rw [sequence_fill cfg true ps it, sequence_fill cfg false ps it]
    cases sequenceT cfg ps it with
    | none => exact C _ _ _ _ _ (.re (.lit '[') :: T) (by simp [Re.mapItems]) (by simp [Re.mapItems])
    | some y =>
      obtain ⟨r, ps', it'⟩ := y
      exact C _ _ _ _ _ (.re r :: T) (by simp) (by simp)
  split
  · exact C _ _ _ _ _ (.re (.lit c) :: T) (by simp [Re.mapItems]) (by simp [Re.mapItems])
  · exact C _ _ _ _ _ T rfl rfl

theorem extLoop_dir_step (cfg : Cfg) (n : Nat) (hPE : PEDir cfg n) (hEL : ELDir cfg n) :
    ELDir cfg (n+1) := by
  intro it ps L₁ L₂ a' b' T e1 e2
  rw [extLoop_succ, extLoop_succ]
  cases hn : it.next with
  | none => exact ⟨.error ps, rfl, rfl⟩
  | some p =>
    obtain ⟨c, it'⟩ := p
    simp only [Cfg.wb_extend]
    obtain ⟨X, h1, h2⟩ := hPE c it' ps L₁ L₂ false T e1 e2
    rw [h1, h2]
    obtain ⟨b1, p1, i1, x1⟩ := X
    by_cases hx' : (cfg.extend && decide (c ∈ extTypes)) = true
    · simp only [hx', if_true, fPE]
      cases b1
      · simp only
        exact elOther_dir cfg n hEL c a' b' p1 it' L₁ L₂ T e1 e2
      · simp only
        exact elCont_dir cfg n hEL c a' b' _ _ _ _ _ x1 rfl rfl
    · simp only [hx']
      exact elOther_dir cfg n hEL c a' b' ps it' L₁ L₂ T e1 e2

theorem ext_dir (cfg : Cfg) : ∀ n : Nat, PEDir cfg n ∧ ELDir cfg n
  | 0 => by
    refine ⟨fun lt it ps L₁ L₂ rd T e1 e2 => ?_, fun it ps L₁ L₂ a' b' T e1 e2 => ?_⟩
    · subst e1 e2; rw [parseExtend, parseExtend]; exact ⟨(false, ps, it, T), rfl, rfl⟩
    · rw [extLoop, extLoop]; exact ⟨.error ps, rfl, rfl⟩
  | n+1 =>
    have ih := ext_dir cfg n
    ⟨parseExtend_dir_step cfg n ih.2, extLoop_dir_step cfg n ih.1 ih.2⟩

/-! ### the top-level loop -/

def RLDir (cfg : Cfg) (n : Nat) : Prop :=
  ∀ (it : It) (ps : PS) (L₁ L₂ : List Item) (T : List Item), L₁ = FT T → L₂ = FF T →
    ∃ X, rootLoop (cfg.withBytes true) n it ps L₁ = fRL gT X ∧
         rootLoop (cfg.withBytes false) n it ps L₂ = fRL gF X

theorem rlOther_dir (cfg : Cfg) (n : Nat) (ih : RLDir cfg n)
    (c : Char) (ps : PS) (it : It) (L₁ L₂ : List Item) (T : List Item)
    (e1 : L₁ = FT T) (e2 : L₂ = FF T) :
    ∃ X, rlOther (cfg.withBytes true) n c ps it L₁ = fRL gT X ∧
         rlOther (cfg.withBytes false) n c ps it L₂ = fRL gF X := by
  subst e1 e2
  have hT := goodG_fill true
  have hF := goodG_fill false
  unfold rlOther
  simp only [handleStar_wb, handleDot_wb, qmarkItem_wb, cleanUpInverse_wb, references_wb,
    consumePathSep_wb, Cfg.wb_win, Cfg.wb_pathname]
  split
  · exact ih _ _ _ _ (.re (handleDot cfg ps it) :: T) (by simp [handleDot_mi hT])
      (by simp [handleDot_mi hF])
  split
  · rw [handleStar_mi hT, handleStar_mi hF]
    exact ih _ _ _ _ (handleStar cfg ps it T).2.2 rfl rfl
  split
  · exact ih _ _ _ _ ((qmarkItem cfg ps).1 :: T) (by simp [qmarkItem_mi hT])
      (by simp [qmarkItem_mi hF])
  split
  · by_cases hp : cfg.pathname = true
    · simp only [hp, if_true]
      rw [cleanUpInverse_mi hT, cleanUpInverse_mi hF]
      exact ih _ _ _ _ (.re (Frag.sepPlus cfg.win) :: (cleanUpInverse cfg ps.setStartDir T false).1)
        (by simp [Frag.sepPlus_mi hT]) (by simp [Frag.sepPlus_mi hF])
    · simp only [hp]
      exact ih _ _ _ _ (.re (Frag.sep cfg.win) :: T) (by simp [Frag.sep_mi hT])
        (by simp [Frag.sep_mi hF])
  split
  · split
    · rename_i v it' ps' heq
      have hv1 := references_mi hT cfg ps it v it' ps' heq
      have hv2 := references_mi hF cfg ps it v it' ps' heq
      by_cases hd : ps'.dirStart = true
      · simp only [hd, if_true]
        rw [cleanUpInverse_mi hT, cleanUpInverse_mi hF]
        exact ih _ _ _ _ (.re v :: (cleanUpInverse cfg ps' T false).1) (by simp [hv1]) (by simp [hv2])
      · simp only [hd]
        exact ih _ _ _ _ (.re v :: T) (by simp [hv1]) (by simp [hv2])
    · exact ih _ _ _ _ T rfl rfl
    · exact ih _ _ _ _ T rfl rfl
  split
  · rw [sequence_fill cfg true ps it, sequence_fill cfg false ps it]
    cases sequenceT cfg ps it with
    | none => exact ih _ _ _ _ (.re (.lit '[') :: T) (by simp [Re.mapItems]) (by simp [Re.mapItems])
    | some y =>
      obtain ⟨r, ps', it'⟩ := y
      exact ih _ _ _ _ (.re r :: T) (by simp) (by simp)
  · exact ih _ _ _ _ (.re (.lit c) :: T) (by simp [Re.mapItems]) (by simp [Re.mapItems])

theorem rootLoop_dir (cfg : Cfg) : ∀ n : Nat, RLDir cfg n
  | 0 => by
    intro it ps L₁ L₂ T e1 e2
    subst e1 e2
    rw [rootLoop, rootLoop]; exact ⟨(ps, T), rfl, rfl⟩
  | n+1 => by
    have ih := rootLoop_dir cfg n
    intro it ps L₁ L₂ T e1 e2
    rw [rootLoop_succ, rootLoop_succ]
    cases hn : it.next with
    | none => subst e1 e2; exact ⟨(ps, T), rfl, rfl⟩
    | some p =>
      obtain ⟨c, it'⟩ := p
      simp only [Cfg.wb_extend]
      obtain ⟨X, h1, h2⟩ := (ext_dir cfg (2 * it'.rest.length + 8)).1 c it' ps L₁ L₂ true T e1 e2
      rw [h1, h2]
      obtain ⟨b1, p1, i1, x1⟩ := X
      by_cases hx' : (cfg.extend && decide (c ∈ extTypes)) = true
      · simp only [hx', if_true, fPE]
        cases b1
        · simp only
          exact rlOther_dir cfg n ih c p1 it' L₁ L₂ T e1 e2
        · simp only
          exact ih _ _ _ _ x1 rfl rfl
      · simp only [hx']
        exact rlOther_dir cfg n ih c ps it' L₁ L₂ T e1 e2

/-! ### `root`, `_parse` -/

def DriveInfo.mi (g : List ClsItem → List ClsItem) (d : DriveInfo) : DriveInfo :=
  { d with drive := d.drive.map (Item.miL g) }

def fPre (g : List ClsItem → List ClsItem) (x : Bool × It × List Item) : Bool × It × List Item :=
  (x.1, x.2.1, Item.miL g x.2.2)

def fRP (g : List ClsItem → List ClsItem) :
    Except ParseErr (PS × List Item) → Except ParseErr (PS × List Item)
  | .ok x => .ok (fRL g x)
  | .error e => .error e

def fPP (g : List ClsItem → List ClsItem) : Except ParseErr Parsed → Except ParseErr Parsed
  | .ok x => .ok (x.mi g)
  | .error e => .error e

theorem rootPre_mi {g : List ClsItem → List ClsItem} (hg : GoodG g) (cfg : Cfg) (b : Bool)
    (d dT : List Char → DriveInfo) (pattern : List Char) (T : List Item)
    (hd : d pattern = (dT pattern).mi g) :
    rootPre (cfg.withBytes b) d pattern (Item.miL g T) = fPre g (rootPre cfg dT pattern T) := by
  unfold rootPre
  simp only [consumePathSep_wb, Cfg.wb_win, Cfg.wb_pathname, Cfg.wb_winDriveDetect, hd, DriveInfo.mi]
  by_cases hw : cfg.winDriveDetect = true
  · simp only [hw, if_true]
    cases (dT pattern).drive with
    | none => rfl
    | some x =>
      simp only [Option.map_some, fPre]
      by_cases hs : (dT pattern).slash = true <;> simp [hs, Frag.sepPlus_mi hg]
  · by_cases hp : (cfg.pathname && decide (pattern.head? = some '/')) = true <;>
      simp only [hw, hp, Bool.false_eq_true, if_true, if_false, fPre]

def KDir (K₁ K₂ : It → PS → List Item → PS × List Item) : Prop :=
  ∀ (it : It) (ps : PS) (L₁ L₂ : List Item) (T : List Item), L₁ = FT T → L₂ = FF T →
    ∃ X, K₁ it ps L₁ = fRL gT X ∧ K₂ it ps L₂ = fRL gF X

theorem rootPostK_dir (K₁ K₂ : It → PS → List Item → PS × List Item) (hK : KDir K₁ K₂)
    (cfg : Cfg) (ps : PS) (rs : Bool) (it : It) (T : List Item) :
    ∃ X, rootPostK K₁ cfg ps (rs, it, FT T) = fRP gT X ∧
         rootPostK K₂ cfg ps (rs, it, FF T) = fRP gF X := by
  have hT := goodG_fill true
  have hF := goodG_fill false
  unfold rootPostK
  simp only
  by_cases hna : (cfg.noAbs && rs) = true
  · simp only [hna, if_true]
    exact ⟨.error .noAbsolute, rfl, rfl⟩
  · simp only [hna]
    obtain ⟨X, h1, h2⟩ := hK it
      (if rs = true then { ps with matchbase := false, extmatchbase := false } else ps)
      (if (!rs && cfg.realpath) = true then
          Item.empty :: .re (if cfg.winDriveDetect = true then Frag.noWinRoot else Frag.noRoot) :: FT T
        else FT T)
      (if (!rs && cfg.realpath) = true then
          Item.empty :: .re (if cfg.winDriveDetect = true then Frag.noWinRoot else Frag.noRoot) :: FF T
        else FF T)
      (if (!rs && cfg.realpath) = true then
          Item.empty :: .re (if cfg.winDriveDetect = true then Frag.noWinRoot else Frag.noRoot) :: T
        else T)
      (by by_cases hc : (!rs && cfg.realpath) = true <;> by_cases hw : cfg.winDriveDetect = true <;>
            simp [hc, hw, Frag.noWinRoot_mi hT, Frag.noRoot_mi hT])
      (by by_cases hc : (!rs && cfg.realpath) = true <;> by_cases hw : cfg.winDriveDetect = true <;>
            simp [hc, hw, Frag.noWinRoot_mi hF, Frag.noRoot_mi hF])
    simp only [h1, h2]
    obtain ⟨ps1, x1⟩ := X
    simp only [fRL, cleanUpInverse_mi hT, cleanUpInverse_mi hF]
    refine ⟨.ok ((cleanUpInverse cfg ps1 x1 false).2,
      if cfg.pathname = true then .re (Frag.pathTrail cfg.win) :: (cleanUpInverse cfg ps1 x1 false).1
      else (cleanUpInverse cfg ps1 x1 false).1), ?_, ?_⟩
    · by_cases hp : cfg.pathname = true <;> simp [hp, fRP, fRL, Frag.pathTrail_mi hT]
    · by_cases hp : cfg.pathname = true <;> simp [hp, fRP, fRL, Frag.pathTrail_mi hF]

def RDir (R₁ R₂ : List Char → PS → List Item → Except ParseErr (PS × List Item)) : Prop :=
  ∀ (p : List Char) (ps : PS) (L₁ L₂ : List Item) (T : List Item), L₁ = FT T → L₂ = FF T →
    ∃ X, R₁ p ps L₁ = fRP gT X ∧ R₂ p ps L₂ = fRP gF X

theorem root_dir (cfg : Cfg) (d₁ d₂ dT : List Char → DriveInfo)
    (hd1 : ∀ q, d₁ q = (dT q).mi gT) (hd2 : ∀ q, d₂ q = (dT q).mi gF) :
    RDir (root (cfg.withBytes true) d₁) (root (cfg.withBytes false) d₂) := by
  intro p ps L₁ L₂ T e1 e2
  subst e1 e2
  rw [root_eq, root_eq, rootPost_eqK, rootPost_eqK, rootPostK_wb, rootPostK_wb,
    rootPre_mi (goodG_fill true) cfg true d₁ dT p T (hd1 p),
    rootPre_mi (goodG_fill false) cfg false d₂ dT p T (hd2 p)]
  exact rootPostK_dir (fun it => rootLoop (cfg.withBytes true) (it.rest.length + 1) it)
    (fun it => rootLoop (cfg.withBytes false) (it.rest.length + 1) it)
    (fun it ps L₁ L₂ T e1 e2 => rootLoop_dir cfg (it.rest.length + 1) it ps L₁ L₂ T e1 e2)
    cfg ps.setAfterStart (rootPre cfg dT p T).1 (rootPre cfg dT p T).2.1 (rootPre cfg dT p T).2.2

theorem parsePrependK_dir (R₁ R₂ : List Char → PS → List Item → Except ParseErr (PS × List Item))
    (hR : RDir R₁ R₂) (cfg : Cfg) (ps : PS) :
    ∃ X, parsePrependK R₁ cfg ps = fRP gT X ∧ parsePrependK R₂ cfg ps = fRP gF X := by
  unfold parsePrependK
  split
  · split
    · exact hR _ _ _ _ [.empty] (by simp) (by simp)
    · obtain ⟨X, h1, h2⟩ := hR ['*', '*'] { ps with globstar := true } [.empty] [.empty] [.empty]
        (by simp) (by simp)
      rw [h1, h2]
      cases X with
      | error e => exact ⟨.error e, rfl, rfl⟩
      | ok x =>
        obtain ⟨p1, x1⟩ := x
        exact ⟨.ok ({ p1 with globstar := ps.globstar }, x1), rfl, rfl⟩
  · exact ⟨.ok (ps, [Item.empty]), by simp [fRP, fRL], by simp [fRP, fRL]⟩

theorem parseBodyK_dir (R₁ R₂ : List Char → PS → List Item → Except ParseErr (PS × List Item))
    (hR : RDir R₁ R₂) (cfg : Cfg) (p : List Char) (ps : PS) (pre : List Item) :
    ∃ X, parseBodyK R₁ cfg p ps (FT pre) = fPP gT X ∧ parseBodyK R₂ cfg p ps (FF pre) = fPP gF X := by
  unfold parseBodyK
  simp only
  generalize (if p = ['\\'] then [] else p) = p'
  cases he : p'.isEmpty
  · simp only [Bool.false_eq_true, if_false, Bool.not_false, Bool.true_and]
    obtain ⟨X, h1, h2⟩ := hR p' ps [.empty] [.empty] [.empty] (by simp) (by simp)
    rw [h1, h2]
    cases X with
    | error e => exact ⟨.error e, rfl, rfl⟩
    | ok x =>
      obtain ⟨p1, x1⟩ := x
      simp only [fRP, fRL]
      refine ⟨.ok { items := (if (p1.matchbase || p1.extmatchbase) = true then
          x1 ++ pre else x1).reverse, ci := !cfg.caseSensitive }, ?_, ?_⟩
      · generalize (p1.matchbase || p1.extmatchbase) = cnd
        cases cnd <;> simp [fPP, Parsed.mi]
      · generalize (p1.matchbase || p1.extmatchbase) = cnd
        cases cnd <;> simp [fPP, Parsed.mi]
  · simp only [if_true, Bool.not_true, Bool.false_and, Bool.false_eq_true, if_false]
    exact ⟨.ok { items := [Item.empty].reverse, ci := !cfg.caseSensitive }, by simp [fPP, Parsed.mi],
      by simp [fPP, Parsed.mi]⟩

theorem parseItemsK_dir (R₁ R₂ : List Char → PS → List Item → Except ParseErr (PS × List Item))
    (hR : RDir R₁ R₂) (cfg : Cfg) (p : List Char) :
    ∃ X, parseItemsK R₁ cfg p = fPP gT X ∧ parseItemsK R₂ cfg p = fPP gF X := by
  unfold parseItemsK
  simp only
  obtain ⟨X, h1, h2⟩ := parsePrependK_dir R₁ R₂ hR cfg
    (anchorStep cfg p { matchbase := cfg.matchbase0, extmatchbase := cfg.extmatchbase0,
                        globstar := cfg.globstar0 }).2
  rw [h1, h2]
  cases X with
  | error e => exact ⟨.error e, rfl, rfl⟩
  | ok x =>
    obtain ⟨p1, x1⟩ := x
    simp only [fRP, fRL]
    exact parseBodyK_dir R₁ R₂ hR cfg _ _ _

/-- **one tagged output, two fillings** -/
theorem parseItems_dir (cfg : Cfg) (d₁ d₂ dT : List Char → DriveInfo)
    (hd1 : ∀ q, d₁ q = (dT q).mi gT) (hd2 : ∀ q, d₂ q = (dT q).mi gF) (p : List Char) :
    ∃ X, parseItems (cfg.withBytes true) d₁ p = fPP gT X ∧
         parseItems (cfg.withBytes false) d₂ p = fPP gF X := by
  rw [parseItems_eqK, parseItems_eqK, parseItemsK_wb, parseItemsK_wb]
  exact parseItemsK_dir _ _ (root_dir cfg d₁ d₂ dT hd1 hd2) cfg p

/-! ### the real drive scanner emits no class that could be a tag -/

theorem litsOf_mi (g : List ClsItem → List ClsItem) : ∀ s : List Char,
    (Win.litsOf s).mapItems g = Win.litsOf s
  | [] => rfl
  | [c] => rfl
  | c :: d :: rest => by
    unfold Win.litsOf
    simp only [Re.mapItems, litsOf_mi g (d :: rest)]

theorem escapeDrive_mi (g : List ClsItem → List ClsItem) (s : List Char) (cs : Bool) :
    (Win.escapeDrive s cs).mapItems g = Win.escapeDrive s cs := by
  unfold Win.escapeDrive
  split <;> simp [Re.mapItems, litsOf_mi]

theorem joinSep_mi {g : List ClsItem → List ClsItem} (hg : GoodG g) : ∀ l : List Re,
    (∀ r ∈ l, r.mapItems g = r) → (Win.joinSep l).mapItems g = Win.joinSep l
  | [], _ => rfl
  | [r], h => h r (by simp)
  | r :: r2 :: rs, h => by
    unfold Win.joinSep
    simp only [Re.mapItems, h r (by simp), Frag.sep_mi hg,
      joinSep_mi hg (r2 :: rs) (fun x hx => h x (List.mem_cons_of_mem _ hx))]

theorem winDrive_items_mi {g : List ClsItem → List ClsItem} (hg : GoodG g) (cfg : Cfg) (q : List Char)
    (items : List Item) (h : (winDrive cfg q).drive = some items) : Item.miL g items = items := by
  unfold winDrive at h
  extract_lets none_ altA fin tryFrom altB at h
  have hnone : ∀ b, (none_ b).drive = some items → Item.miL g items = items := by
    intro b hb; simp [none_] at hb
  clear_value altA altB
  clear fin tryFrom
  split at h
  · extract_lets part0 isSpecial st rr at h
    split at h
    · simp only [Option.some.injEq] at h
      subst h
      simp only [rr, Item.miL_cons, Item.mi_re, Item.miL_nil, Re.mapItems, Frag.sep_mi hg]
      rw [joinSep_mi hg]
      intro r hr
      obtain ⟨q', _, rfl⟩ := List.mem_map.1 hr
      exact escapeDrive_mi g _ _
    · exact hnone _ h
  · split at h
    · extract_lets g0 letterOk at h
      split at h
      · simp only [Option.some.injEq] at h
        subst h
        simp only [Item.miL_cons, Item.mi_re, Item.miL_nil, escapeDrive_mi]
      · exact hnone _ h
    · split at h <;> exact hnone _ h

theorem winDrive_mi {g : List ClsItem → List ClsItem} (hg : GoodG g) (cfg : Cfg) (q : List Char) :
    (winDrive cfg q).mi g = winDrive cfg q := by
  have h := winDrive_items_mi hg cfg q
  generalize winDrive cfg q = d at h
  obtain ⟨a, dr, c, e⟩ := d
  simp only [DriveInfo.mi, DriveInfo.mk.injEq, true_and, and_true]
  cases dr with
  | none => rfl
  | some items => simp only [Option.map_some, Option.some.injEq]; exact h items rfl

end WcModel

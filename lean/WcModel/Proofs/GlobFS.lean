import WcModel.Model.FS
/-
  Facts about the abstract file tree: heights decrease along real paths, `get` composes,
  what `scandir` returns.
-/
namespace WcModel

theorem findEntry_mem {n : Name} {es : List (Name × Node)} {c : Node} (h : findEntry n es = some c) :
    (n, c) ∈ es := by
  induction es with
  | nil => simp [findEntry] at h
  | cons e r ih =>
    obtain ⟨m, d⟩ := e
    unfold findEntry at h
    by_cases hm : m = n
    · simp [hm] at h; subst h; subst hm; exact List.mem_cons_self
    · simp [hm] at h; exact List.mem_cons_of_mem _ (ih h)

theorem height_le_heightL {n : Name} {c : Node} {es : List (Name × Node)} (h : (n, c) ∈ es) :
    c.height ≤ Node.heightL es := by
  induction es with
  | nil => cases h
  | cons e r ih =>
    obtain ⟨m, d⟩ := e
    simp only [Node.heightL]
    cases h with
    | head => exact Nat.le_max_left _ _
    | tail _ h' => exact Nat.le_trans (ih h') (Nat.le_max_right _ _)

theorem height_child_lt {n : Name} {c : Node} {es : List (Name × Node)} (h : (n, c) ∈ es) :
    c.height < (Node.dir es).height := by
  have := height_le_heightL h
  simp only [Node.height]; omega

theorem Node.get_append (nd : Node) (p q : RPath) :
    nd.get (p ++ q) = (nd.get p).bind (fun m => m.get q) := by
  induction p generalizing nd with
  | nil => simp [Node.get]
  | cons a r ih =>
    cases nd with
    | file => simp [Node.get]
    | link t => simp [Node.get]
    | dir es =>
      simp only [List.cons_append, Node.get]
      cases findEntry a es with
      | none => simp
      | some c => simpa using ih c

theorem Node.get_one {nd c : Node} {n : Name} (h : nd.get [n] = some c) :
    ∃ es, nd = .dir es ∧ findEntry n es = some c := by
  cases nd with
  | file => simp [Node.get] at h
  | link t => simp [Node.get] at h
  | dir es =>
    refine ⟨es, rfl, ?_⟩
    simp only [Node.get] at h
    cases hf : findEntry n es with
    | none => simp [hf] at h
    | some c' => simp [hf] at h; simp [h]

/-- a node strictly below another (along a real path) is strictly lower -/
theorem Node.height_get_snoc {top nd c : Node} {rp : RPath} {n : Name}
    (h₁ : top.get rp = some nd) (h₂ : top.get (rp ++ [n]) = some c) : c.height < nd.height := by
  rw [Node.get_append, h₁] at h₂
  obtain ⟨es, rfl, hf⟩ := Node.get_one (by simpa using h₂)
  exact height_child_lt (findEntry_mem hf)

theorem Node.height_get_le {top nd : Node} {rp : RPath} (h : top.get rp = some nd) :
    nd.height ≤ top.height := by
  induction rp generalizing top with
  | nil => simp [Node.get] at h; subst h; exact Nat.le_refl _
  | cons a r ih =>
    cases top with
    | file => simp [Node.get] at h
    | link t => simp [Node.get] at h
    | dir es =>
      simp only [Node.get] at h
      cases hf : findEntry a es with
      | none => simp [hf] at h
      | some c =>
        simp [hf] at h
        exact Nat.le_trans (ih h) (Nat.le_of_lt (height_child_lt (findEntry_mem hf)))

theorem FS.entries_some {fs : FS} {l : Loc} {es : List (Name × Node)} (h : fs.entries l = some es) :
    ∃ rp, l = some rp ∧ fs.top.get rp = some (.dir es) := by
  cases l with
  | none => simp [FS.entries] at h
  | some rp =>
    refine ⟨rp, rfl, ?_⟩
    simp only [FS.entries] at h
    split at h
    · next es' heq => simp at h; subst h; exact heq
    · simp at h

/-- what `scandir` returns for a directory -/
theorem FS.scandir_some {fs : FS} {l : Loc} {ds : List DEnt} (h : fs.scandir l = some ds) :
    ∃ rp es, l = some rp ∧ fs.top.get rp = some (.dir es) ∧
      ds = es.map (fun e =>
        let d := fs.nodeIsDir rp e.1 e.2
        ({ name := e.1, isDir := d, isLink := d && e.2.isLinkNode, loc := childLoc rp e.1 e.2 } : DEnt)) := by
  cases l with
  | none => simp [FS.scandir] at h
  | some rp =>
    simp only [FS.scandir] at h
    cases he : fs.entries (some rp) with
    | none => simp [he] at h
    | some es =>
      obtain ⟨rp', hrp, hget⟩ := FS.entries_some he
      cases hrp
      simp [he] at h
      exact ⟨rp, es, rfl, hget, h.symm⟩

/-- a listed entry that is a directory and not a link sits at `rp ++ [name]`, strictly lower -/
theorem FS.scandir_real_child {fs : FS} {rp : RPath} {nd : Node} {ds : List DEnt} {e : DEnt}
    (hget : fs.top.get rp = some nd) (h : fs.scandir (some rp) = some ds) (he : e ∈ ds)
    (hd : e.isDir = true) (hl : e.isLink = false) :
    e.loc = some (rp ++ [e.name]) ∧ ∃ c, fs.top.get (rp ++ [e.name]) = some c ∧ c.height < nd.height ∧
      ∃ es x, fs.top.get rp = some (.dir es) ∧ (e.name, x) ∈ es ∧ x.isLinkNode = false := by
  obtain ⟨rp', es, hrp, hg, hds⟩ := FS.scandir_some h
  cases hrp
  subst hds
  obtain ⟨⟨n, x⟩, hx, rfl⟩ := List.mem_map.1 he
  simp only at hd hl ⊢
  have hx' : x.isLinkNode = false := by
    cases hxl : x.isLinkNode with
    | false => rfl
    | true => simp [hd, hxl] at hl
  have hloc : childLoc rp n x = some (rp ++ [n]) := by
    cases x with
    | file => rfl
    | dir _ => rfl
    | link t => simp [Node.isLinkNode] at hx'
  refine ⟨hloc, ?_⟩
  simp only [FS.nodeIsDir, hloc, FS.locIsDir] at hd
  cases hent : fs.entries (some (rp ++ [n])) with
  | none => simp [hent] at hd
  | some es' =>
    obtain ⟨rp'', hrp'', hg'⟩ := FS.entries_some hent
    cases hrp''
    exact ⟨_, hg', Node.height_get_snoc hget hg', es, x, hg, hx, hx'⟩

end WcModel

import WcModel.Proofs.PassReadPathCls
/-
  "pass_read" for PATH MODE: the faithful port of the parser (`parseItems`), run on ANY SPELLING of
  a path pattern the strict path reader `parsePath` accepts, yields the regex of the tidy path
  compiler `compPath` — up to `PP.Eqv` (same `Re.M` in every mode).

  `PPP.pass_print_path` (Proofs/PassPrintPath.lean) proves this for ONE spelling per path pattern
  (`PPP.printPath pp`: single separators, printed segments, no adjacent globstars).  Here:
    * every spelling of a file-name segment (`PR.SPat`; Proofs/PassReadPathTok/Seg/Cls.lean),
    * runs of separators anywhere (`consumePathSep`),
    * adjacent globstars `**/**` (the port emits nothing for a globstar that follows the divider
      of another one; the reader merges them: the hypothesis `noGG` of `pass_print_path` is gone),
    * `***` under GLOBSTARLONG.

  The text of a pattern is described by a *shape*: a list of spelled segments, each with the
  number of separators written before it, and the number of separators at the end (`ptext`).

  MAIN THEOREM
    `pass_read_path`   `parsePath ctx p = some pp`, every file-name segment of `pp` negation-free ⊢
        ∃ parsed r, parseItems cfg drive p = .ok parsed ∧ parsed.toRe = some r ∧
                    Eqv r (wrapRe (!cfg.caseSensitive) (compPath cfg.dot pp))
  (`PathX cfg`; `ctx.ext`, no MATCHBASE, the GLOBSTAR / GLOBSTARLONG flags of `ctx` and `cfg` agree).
-/
namespace WcModel
namespace PRP
open PP PPP PR

/-! ## Part 1: shapes -/

def slashes (k : Nat) : List Char := List.replicate k '/'

theorem slashes_succ (k : Nat) : slashes (k+1) = '/' :: slashes k := by simp [slashes, List.replicate_succ]
theorem slashes_add (a b : Nat) : slashes (a + b) = slashes a ++ slashes b := by
  induction a with
  | zero => simp [slashes]
  | succ a ih => rw [Nat.succ_add, slashes_succ, slashes_succ, ih]; rfl
theorem slashes_length (k : Nat) : (slashes k).length = k := by simp [slashes]

/-- a spelled segment: a spelled file-name pattern, or a globstar written `**` / `***` -/
inductive SSeg
  | pat (sp : SPat)
  | glob (three : Bool)

def SSeg.text : SSeg → List Char
  | .pat sp => sprint sp
  | .glob false => ['*', '*']
  | .glob true => ['*', '*', '*']

def SSeg.seg : SSeg → Seg
  | .pat sp => .pat (erase sp)
  | .glob _ => .glob

/-- the text of a shape: every segment preceded by its separators, then the final separators.
    `eaten` = the separators before the first segment have been consumed already -/
def ptext : Bool → List (Nat × SSeg) → Nat → List Char
  | eaten, [], t => if eaten then [] else slashes t
  | eaten, (k, s) :: rest, t => (if eaten then [] else slashes k) ++ (s.text ++ ptext false rest t)

/-- the number of separators at the very beginning -/
def firstK : List (Nat × SSeg) → Nat → Nat
  | [], t => t
  | (k, _) :: _, _ => k

theorem ptext_split (L : List (Nat × SSeg)) (t : Nat) :
    ptext false L t = slashes (firstK L t) ++ ptext true L t := by
  cases L with
  | nil => simp [ptext, firstK]
  | cons e rest => obtain ⟨k, s⟩ := e; simp [ptext, firstK]

/-- the globstar as the pass emits it: `**` is captured under `globstarCapture`, `***` never -/
def gstarOf (cfg : Cfg) (three : Bool) : Re := if three then pGstar cfg.dot else gstarRe cfg

/-- the items the pass pushes for the segments, in forward order (mirrors `pathRe`, merging
    adjacent globstars).  `sb` = a separator is pending, `ag` = directly after a globstar. -/
def pI (cfg : Cfg) (tr : Bool) : Bool → Bool → List SSeg → List Item
  | sb, _, [] => if sb then [.re (Frag.sepPlus false)] else []
  | sb, _, .pat sp :: rest =>
    (if sb then [.re (Frag.sepPlus false)] else []) ++
      (psits cfg true sp ++ pI cfg tr (if rest.isEmpty then tr else true) false rest)
  | sb, false, .glob three :: rest =>
    (if sb then [.re (Frag.needSep false)] else []) ++
      (.re (gstarOf cfg three) :: .re (Frag.globstarDiv false) :: pI cfg tr false true rest)
  | _, true, .glob _ :: rest => pI cfg tr false true rest

/-- what the path level needs to know about a spelled segment -/
def SegWF (cfg : Cfg) (g : Bool) : SSeg → Prop
  | .pat sp => rpp false (erase sp) = true ∧ sprint sp ≠ [] ∧ '/' ∉ sprint sp ∧ pgood cfg sp ∧
      ∀ tail, TailOK tail → psok cfg g true true sp tail
  | .glob three => g = true ∧ (three = true → cfg.globstarlong = true)

theorem SSeg.text_ne (cfg : Cfg) (g : Bool) (s : SSeg) (h : SegWF cfg g s) :
    s.text ≠ [] ∧ s.text.head? ≠ some '/' := by
  cases s with
  | pat sp =>
    obtain ⟨_, h2, h3, _⟩ := h
    refine ⟨h2, ?_⟩
    simp only [SSeg.text]
    cases hs : sprint sp with
    | nil => simp
    | cons c r => rw [hs] at h3; simp only [List.mem_cons, not_or] at h3; simpa using Ne.symm h3.1
  | glob three => cases three <;> simp [SSeg.text]

theorem ptext_true_head (cfg : Cfg) (g : Bool) (L : List (Nat × SSeg)) (t : Nat)
    (hw : ∀ e ∈ L, SegWF cfg g e.2) : (ptext true L t).head? ≠ some '/' := by
  cases L with
  | nil => simp [ptext]
  | cons e rest =>
    obtain ⟨k, s⟩ := e
    obtain ⟨h1, h2⟩ := s.text_ne cfg g (hw (k, s) (by simp))
    simp only [ptext, if_true, List.nil_append]
    exact head_append_ne h1 h2

theorem tailOK_ptext (L : List (Nat × SSeg)) (t : Nat) (hk : ∀ e ∈ L, 1 ≤ e.1) : TailOK (ptext false L t) := by
  cases L with
  | nil =>
    cases t with
    | zero => left; simp [ptext, slashes]
    | succ n => right; exact ⟨slashes n, by simp [ptext, slashes_succ]⟩
  | cons e rest =>
    obtain ⟨k, s⟩ := e
    have : 1 ≤ k := hk (k, s) (by simp)
    obtain ⟨k', rfl⟩ : ∃ k', k = k' + 1 := ⟨k - 1, by omega⟩
    right
    exact ⟨slashes k' ++ (s.text ++ ptext false rest t), by simp [ptext, slashes_succ]⟩

/-! ## Part 2: the loop of `root` on a shape -/

theorem dropWhileCount_slashes : ∀ (m : Nat) (v : List Char) (i : Nat), v.head? ≠ some '/' →
    dropWhileCount '/' (slashes m ++ v) i = (i + m, v) := by
  intro m
  induction m with
  | zero =>
    intro v i hv
    cases v with
    | nil => simp [slashes, dropWhileCount]
    | cons d r =>
      have : d ≠ '/' := by simpa using hv
      simp [slashes, dropWhileCount, this]
  | succ m ih =>
    intro v i hv
    rw [slashes_succ, List.cons_append, dropWhileCount]
    simp only [if_true]
    rw [ih v (i+1) hv]
    congr 1; omega

theorem consumePathSep_run (cfg : Cfg) (h : PathX cfg) (i m : Nat) (v : List Char) (hv : v.head? ≠ some '/') :
    consumePathSep cfg ⟨i, slashes m ++ v⟩ = ⟨i + m, v⟩ := by
  simp [consumePathSep, h.bslash, consumeUnix, dropWhileCount_slashes m v i hv]

/-- a run of `m+1` separators at top level: one `[/]+` -/
theorem slash_run (cfg : Cfg) (h : PathX cfg) (F i m : Nat) (v : List Char) (ps : PS) (cur : List Item)
    {as : Bool} (hi : PP.Inv ps as false 0) (hv : v.head? ≠ some '/') :
    ∃ ps', rootLoop cfg (F+1) ⟨i, slashes (m+1) ++ v⟩ ps cur =
        rootLoop cfg F ⟨i+1+m, v⟩ ps' (.re (Frag.sepPlus false) :: cur) ∧
      PP.Inv ps' true false 0 ∧ ps'.globstar = ps.globstar := by
  rw [slashes_succ, List.cons_append]
  obtain ⟨ps1, hi1, hg1, e⟩ := PPP.rootTok_plainG cfg '/' ⟨i+1, slashes m ++ v⟩ ps cur hi
    (fun hx => absurd hx slash_not_ext')
  refine ⟨({ ps1.setStartDir with matchbase := false } : PS).updateDirState, ?_, ?_, ?_⟩
  · rw [rootLoop_cons, e]
    have hz : ps1.setStartDir.invExt = 0 := hi1.invExt
    simp only [HF.rootPlain, show ('/' : Char) ≠ '.' by decide, show ('/' : Char) ≠ '*' by decide,
      show ('/' : Char) ≠ '?' by decide, if_false, if_true, h.pathname,
      cleanUp_zero cfg ps1.setStartDir cur false hz, consumePathSep_run cfg h (i+1) m v hv, h.win]
  · obtain ⟨h1, h2, h3, h4, h5, h6⟩ := hi1
    exact ⟨by simp [PS.updateDirState, PS.setStartDir, PS.setAfterStart],
      by simp [PS.updateDirState, PS.setStartDir, PS.setAfterStart],
      by simp [PS.setStartDir, h3], by simp [PS.setStartDir, h4],
      by simp [PS.updateDirState, PS.setStartDir, PS.setAfterStart],
      by simp [PS.updateDirState, PS.setStartDir, PS.setAfterStart, h6]⟩
  · simp [PS.setStartDir, hg1]

/-- the item stack after a globstar: nothing new after the divider of another globstar; else the
    last item (`''` or `[/]+`) is overwritten -/
def globRes (cfg : Cfg) (three : Bool) (last : Item) (before : List Item) : List Item :=
  if last.isDiv false then last :: before
  else .re (Frag.globstarDiv false) ::
    (if last.isEmpty then .re (gstarOf cfg three) :: before
     else .re (gstarOf cfg three) :: .re (Frag.needSep false) :: before)

/-- `hsSel` on the rest of a globstar: the text after the first star is `*` (`**` under
    GLOBSTARLONG) followed by the end of the text or by separators -/
theorem hsSel_glob (cfg : Cfg) (h : PathX cfg) (ps : PS) (i : Nat) (three : Bool) (m : Nat) (v : List Char)
    (hi : PP.Inv ps true false 0) (hg : ps.globstar = true) (h3 : three = true → cfg.globstarlong = true)
    (hv : v = [] ∨ 0 < m) :
    ∃ ps' j u, hsSel cfg ps ⟨i, (SSeg.glob three).text.tail ++ (slashes m ++ v)⟩ (cfg.pathname && cfg.globstarCapture) =
        (true, (if three then false else cfg.globstarCapture), ⟨j, u⟩, ps') ∧
      (u = slashes m ++ v ∨ ∃ m', m = m' + 1 ∧ u = slashes m' ++ v) ∧
      PP.Inv ps' true false 0 ∧ ps'.globstar = true := by
  have hc0 : (cfg.pathname && cfg.globstarCapture) = cfg.globstarCapture := by simp [h.pathname]
  rw [hc0, hsSel_eq]
  have hcond : (ps.afterStart && ps.globstar && !ps.inList) = true := by
    simp [hi.afterStart, hg, hi.inList]
  rw [if_pos hcond]
  have hi2 : PP.Inv ({ ps with matchbase := false } : PS) true false 0 :=
    ⟨hi.afterStart, hi.dirStart, hi.inList, hi.invExt, rfl, hi.emb⟩
  -- the second phase, on what follows the stars
  have ph2 : ∀ (cap : Bool) (j : Nat) (prev : It),
      ∃ ps' j' u, hs2 cfg ps cap ⟨j, slashes m ++ v⟩ prev = (true, cap, ⟨j', u⟩, ps') ∧
        (u = slashes m ++ v ∨ ∃ m', m = m' + 1 ∧ u = slashes m' ++ v) ∧
        PP.Inv ps' true false 0 ∧ ps'.globstar = true := by
    intro cap j prev
    cases m with
    | zero =>
      rcases hv with rfl | hm
      · exact ⟨ps, j, [], by simp [hs2, It.next, slashes], .inl (by simp [slashes]), hi, hg⟩
      · omega
    | succ m' =>
      refine ⟨{ ps with matchbase := false }, j+1, slashes m' ++ v, ?_, .inr ⟨m', rfl, rfl⟩, hi2, hg⟩
      simp [hs2, It.next, slashes_succ]
  have hhead : (slashes m ++ v).head? ≠ some '*' := by
    cases m with
    | zero =>
      rcases hv with rfl | hm
      · simp [slashes]
      · omega
    | succ m' => simp [slashes_succ]
  cases three with
  | false =>
    have h1 : hs1 cfg ⟨i, ['*'] ++ (slashes m ++ v)⟩ cfg.globstarCapture =
        (false, cfg.globstarCapture, ⟨i+1, slashes m ++ v⟩, ⟨i, ['*'] ++ (slashes m ++ v)⟩) := by
      cases hl : cfg.globstarlong
      · simp [hs1, It.next, hl]
      · cases hsv : slashes m ++ v with
        | nil => simp [hs1, It.next, hl]
        | cons d r =>
          have : d ≠ '*' := by rw [hsv] at hhead; simpa using hhead
          simp [hs1, It.next, hl, this]
    simp only [SSeg.text, List.tail_cons, h1, Bool.false_eq_true, if_false]
    exact ph2 _ _ _
  | true =>
    have hl := h3 rfl
    have h1 : hs1 cfg ⟨i, ['*', '*'] ++ (slashes m ++ v)⟩ cfg.globstarCapture =
        (false, false, ⟨i+2, slashes m ++ v⟩, ⟨i+1, ['*'] ++ (slashes m ++ v)⟩) := by
      simp [hs1, It.next, hl]
    simp only [SSeg.text, List.tail_cons, h1, Bool.false_eq_true, if_false, if_true]
    exact ph2 _ _ _

/-- **a globstar at a segment start, at top level, under GLOBSTAR**: `**` / `***`, followed by the
    end of the text or by a run of separators, which it consumes -/
theorem glob_step (cfg : Cfg) (h : PathX cfg) (F i : Nat) (three : Bool) (m : Nat) (v : List Char) (ps : PS)
    (last : Item) (before : List Item) (hi : PP.Inv ps true false 0) (hg : ps.globstar = true)
    (h3 : three = true → cfg.globstarlong = true) (hv : v = [] ∨ 0 < m) (hvh : v.head? ≠ some '/') :
    ∃ ps' j, rootLoop cfg (F+1) ⟨i, (SSeg.glob three).text ++ (slashes m ++ v)⟩ ps (last :: before) =
        rootLoop cfg F ⟨j, v⟩ ps' (globRes cfg three last before) ∧
      PP.Inv ps' true false 0 ∧ ps'.globstar = true := by
  have htext : (SSeg.glob three).text = '*' :: (SSeg.glob three).text.tail := by cases three <;> rfl
  rw [htext, List.cons_append]
  have hnp : ((SSeg.glob three).text.tail ++ (slashes m ++ v)).head? ≠ some '(' := by
    cases three <;> simp [SSeg.text]
  obtain ⟨ps1, hi1, hg1, e⟩ := PPP.rootTok_plainG cfg '*' ⟨i+1, (SSeg.glob three).text.tail ++ (slashes m ++ v)⟩ ps
    (last :: before) hi (fun _ => hnp)
  obtain ⟨ps2, j, u, hsel, hu, hi2, hg2⟩ := hsSel_glob cfg h ps1 (i+1) three m v hi1 (hg1.trans hg) h3 hv
  -- the separators that are left are consumed
  obtain ⟨j', hcons⟩ : ∃ j', consumePathSep cfg ⟨j, u⟩ = ⟨j', v⟩ := by
    rcases hu with rfl | ⟨m', _, rfl⟩
    · exact ⟨_, consumePathSep_run cfg h j m v hvh⟩
    · exact ⟨_, consumePathSep_run cfg h j m' v hvh⟩
  have hstar : handleStar cfg ps1 ⟨i+1, (SSeg.glob three).text.tail ++ (slashes m ++ v)⟩ (last :: before) =
      (ps2.resetDirTrack.setStartDir, ⟨j', v⟩, globRes cfg three last before) := by
    rw [handleStar_eq, hsStar_glob cfg h ps1 hi1.afterStart, hsel]
    unfold hsBody
    simp only [Bool.not_true, Bool.false_eq_true, if_false, h.win, hcons, globRes, gstarOf, gstarRe]
    cases three <;> cases hd : last.isDiv false <;> simp
  refine ⟨ps2.resetDirTrack.setStartDir.updateDirState, j', ?_, inv_afterGlob hi2, ?_⟩
  · rw [rootLoop_cons, e]
    simp only [HF.rootPlain, show ('*' : Char) ≠ '.' by decide, if_false, if_true, hstar]
  · simp [PS.setStartDir, PS.resetDirTrack, hg2]

theorem firstK_zero (rest : List (Nat × SSeg)) (t : Nat) (hkr : ∀ e ∈ rest, 1 ≤ e.1) (h0 : firstK rest t = 0) :
    rest = [] ∧ t = 0 := by
  cases rest with
  | nil => exact ⟨rfl, h0⟩
  | cons e' r' =>
    obtain ⟨k', s'⟩ := e'
    have := hkr (k', s') (by simp)
    simp only [firstK] at h0
    omega

theorem sbNext_eq (rest : List (Nat × SSeg)) (t : Nat) (hkr : ∀ e ∈ rest, 1 ≤ e.1) :
    (if (rest.map (·.2)).isEmpty then decide (0 < t) else true) = decide (0 < firstK rest t) := by
  cases rest with
  | nil => rfl
  | cons e' r' =>
    obtain ⟨k', s'⟩ := e'
    have : 0 < k' := hkr (k', s') (by simp)
    simp only [List.map_cons, List.isEmpty_cons, Bool.false_eq_true, if_false, firstK]
    exact (decide_eq_true this).symm

theorem isDiv_div : (Item.re (Frag.globstarDiv false)).isDiv false = true := by decide

/-- **the loop of `root` on a shape whose first separators have been consumed** -/
theorem seg_loop (cfg : Cfg) (h : PathX cfg) (g : Bool) (t : Nat) :
    ∀ (L : List (Nat × SSeg)) (sb ag : Bool) (F i : Nat) (ps : PS) (before : List Item),
      (∀ e ∈ L, SegWF cfg g e.2) → (∀ e ∈ L.tail, 1 ≤ e.1) → ps.globstar = g → PP.Inv ps true false 0 →
      (ag = true → sb = false ∧ ∃ b', before = .re (Frag.globstarDiv false) :: b') →
      (sb = false → ag = false → ∀ k three rest, L ≠ (k, .glob three) :: rest) →
      (ptext true L t).length + 1 ≤ F →
      ∃ ps', rootLoop cfg F ⟨i, ptext true L t⟩ ps ((if sb then [.re (Frag.sepPlus false)] else []) ++ before) =
          (ps', (pI cfg (decide (0 < t)) sb ag (L.map (·.2))).reverse ++ before) ∧
        ps'.invExt = 0 ∧ ps'.matchbase = false ∧ ps'.extmatchbase = false := by
  intro L
  induction L with
  | nil =>
    intro sb ag F i ps before _ _ _ hi _ _ hF
    simp only [ptext, if_true, List.length_nil] at hF ⊢
    refine ⟨ps, ?_, hi.invExt, hi.mb, hi.emb⟩
    rw [rootLoop_nil cfg F i ps _ (by omega)]
    cases sb <;> simp [pI]
  | cons e rest ih =>
    intro sb ag F i ps before hw hk hg hi hag hlead hF
    obtain ⟨k, s⟩ := e
    have hwr : ∀ e ∈ rest, SegWF cfg g e.2 := fun e he => hw e (List.mem_cons_of_mem _ he)
    have hkr : ∀ e ∈ rest, 1 ≤ e.1 := fun e he => hk e (by simpa using he)
    have hkr' : ∀ e ∈ rest.tail, 1 ≤ e.1 := fun e he => hkr e (List.mem_of_mem_tail he)
    have hws : SegWF cfg g s := hw (k, s) (by simp)
    simp only [ptext, if_true, List.nil_append, List.length_append] at hF ⊢
    -- what follows the segment: nothing, or a run of separators and the rest
    have hsplit := ptext_split rest t
    have hvh := ptext_true_head cfg g rest t hwr
    have hend := firstK_zero rest t hkr
    have hsbn := sbNext_eq rest t hkr
    cases s with
    | pat sp =>
      obtain ⟨hrpp, hne, hns, hgood, hok⟩ := hws
      have htail : TailOK (ptext false rest t) := tailOK_ptext rest t hkr
      -- the segment
      obtain ⟨ps1, F1, hF1, e1, hi1, hg1⟩ := R_all cfg h sp hrpp F i (ptext false rest t) ps
        ((if sb then [.re (Frag.sepPlus false)] else []) ++ before) true hi
        (by rw [hg]; exact hok _ htail) (by simp only [SSeg.text] at hF; omega)
      simp only [SSeg.text] at hF ⊢
      rw [e1]
      -- the separators after it
      by_cases h0 : firstK rest t = 0
      · obtain ⟨rfl, rfl⟩ := hend h0
        simp only [ptext, Bool.false_eq_true, if_false, slashes, List.replicate_zero]
        refine ⟨ps1, ?_, hi1.invExt, hi1.mb, hi1.emb⟩
        rw [rootLoop_nil cfg F1 _ ps1 _ (by simp [ptext, slashes] at hF; omega)]
        cases ag <;> cases sb <;> simp [pI]
      · obtain ⟨m, hm⟩ : ∃ m, firstK rest t = m + 1 := ⟨firstK rest t - 1, by omega⟩
        rw [hsplit, hm] at hF ⊢
        simp only [List.length_append, slashes_length] at hF
        obtain ⟨F2, rfl⟩ : ∃ F2, F1 = F2 + 1 := ⟨F1 - 1, by omega⟩
        obtain ⟨ps2, e2, hi2, hg2⟩ := slash_run cfg h F2 (i + (sprint sp).length) m (ptext true rest t) ps1 _ hi1 hvh
        rw [e2]
        obtain ⟨ps3, e3, h3⟩ := ih true false F2 _ ps2
          ((psits cfg true sp).reverse ++ ((if sb then [.re (Frag.sepPlus false)] else []) ++ before))
          hwr hkr' (hg2.trans (hg1.trans hg)) hi2 (fun hx => by cases hx) (fun hx => by cases hx) (by omega)
        simp only [if_true, List.singleton_append] at e3
        refine ⟨ps3, ?_, h3⟩
        rw [e3]
        have hsb' : (if (rest.map (·.2)).isEmpty then decide (0 < t) else true) = true := by
          rw [hsbn, hm]; simp
        have hpi : ∀ sb ag, pI cfg (decide (0 < t)) sb ag (SSeg.pat sp :: rest.map (·.2)) =
            (if sb then [.re (Frag.sepPlus false)] else []) ++
              (psits cfg true sp ++ pI cfg (decide (0 < t)) true false (rest.map (·.2))) := by
          intro sb ag; cases ag <;> simp only [pI, hsb']
        simp only [List.map_cons, hpi]
        cases sb <;> simp
    | glob three =>
      obtain ⟨hgt, h3⟩ := hws
      have hgs : ps.globstar = true := hg.trans hgt
      have hv : ptext true rest t = [] ∨ 0 < firstK rest t := by
        by_cases h0 : firstK rest t = 0
        · obtain ⟨rfl, rfl⟩ := hend h0
          left; simp [ptext]
        · right; omega
      obtain ⟨F1, rfl⟩ : ∃ F1, F = F1 + 1 := ⟨F - 1, by omega⟩
      rw [hsplit]
      rw [hsplit] at hF
      simp only [List.length_append, slashes_length] at hF
      have hlen : 2 ≤ (SSeg.glob three).text.length := by cases three <;> simp [SSeg.text]
      cases ag with
      | true =>
        obtain ⟨hsb, b', rfl⟩ := hag rfl
        subst hsb
        simp only [Bool.false_eq_true, if_false, List.nil_append]
        obtain ⟨ps1, j, e1, hi1, hg1⟩ := glob_step cfg h F1 i three (firstK rest t) (ptext true rest t) ps
          (.re (Frag.globstarDiv false)) b' hi hgs h3 hv hvh
        rw [e1]
        have hres : globRes cfg three (.re (Frag.globstarDiv false)) b' = .re (Frag.globstarDiv false) :: b' := by
          simp [globRes, isDiv_div]
        rw [hres]
        obtain ⟨ps2, e2, h2⟩ := ih false true F1 j ps1 (.re (Frag.globstarDiv false) :: b')
          hwr hkr' (hg1.trans hgt.symm) hi1 (fun _ => ⟨rfl, b', rfl⟩) (fun _ hx => by cases hx) (by omega)
        simp only [Bool.false_eq_true, if_false, List.nil_append] at e2
        exact ⟨ps2, by rw [e2]; simp [pI], h2⟩
      | false =>
        have hsbt : sb = true := by
          cases sb with
          | true => rfl
          | false => exact absurd rfl (hlead rfl rfl k three rest)
        subst hsbt
        simp only [if_true, List.singleton_append]
        obtain ⟨ps1, j, e1, hi1, hg1⟩ := glob_step cfg h F1 i three (firstK rest t) (ptext true rest t) ps
          (.re (Frag.sepPlus false)) before hi hgs h3 hv hvh
        rw [e1]
        have hres : globRes cfg three (.re (Frag.sepPlus false)) before =
            .re (Frag.globstarDiv false) :: .re (gstarOf cfg three) :: .re (Frag.needSep false) :: before := by
          simp [globRes, isDiv_sepPlus, Item.isEmpty]
        rw [hres]
        obtain ⟨ps2, e2, h2⟩ := ih false true F1 j ps1
          (.re (Frag.globstarDiv false) :: .re (gstarOf cfg three) :: .re (Frag.needSep false) :: before)
          hwr hkr' (hg1.trans hgt.symm) hi1 (fun _ => ⟨rfl, _, rfl⟩) (fun _ hx => by cases hx) (by omega)
        simp only [Bool.false_eq_true, if_false, List.nil_append] at e2
        exact ⟨ps2, by rw [e2]; simp [pI], h2⟩

/-- the pattern begins with a globstar: `_handle_star` overwrites the initial `''` -/
def leadG : List (Nat × SSeg) → Bool
  | (0, .glob _) :: _ => true
  | _ => false

/-- the bottom of the item stack once the loop is over -/
def baseIt (L : List (Nat × SSeg)) : List Item := if leadG L then [] else [.empty]

/-- the items of a whole shape, in forward order -/
def allItems (cfg : Cfg) (L : List (Nat × SSeg)) (t : Nat) : List Item :=
  pI cfg (decide (0 < t)) (decide (0 < firstK L t)) false (L.map (·.2))

/-- **the loop of `root` on a whole shape, started on `['']`** -/
theorem path_loop (cfg : Cfg) (h : PathX cfg) (g : Bool) (t : Nat) (L : List (Nat × SSeg)) (ps : PS)
    (hw : ∀ e ∈ L, SegWF cfg g e.2) (hk : ∀ e ∈ L.tail, 1 ≤ e.1) (hg : ps.globstar = g)
    (hi : PP.Inv ps true false 0) :
    ∃ ps', rootLoop cfg ((ptext false L t).length + 1) ⟨0, ptext false L t⟩ ps [.empty] =
        (ps', (allItems cfg L t).reverse ++ baseIt L) ∧
      ps'.invExt = 0 ∧ ps'.matchbase = false ∧ ps'.extmatchbase = false := by
  by_cases h0 : firstK L t = 0
  · -- no separator at the beginning
    cases L with
    | nil =>
      simp only [firstK] at h0
      subst h0
      refine ⟨ps, ?_, hi.invExt, hi.mb, hi.emb⟩
      simp [ptext, slashes, rootLoop_nil, allItems, pI, baseIt, leadG, firstK]
    | cons e rest =>
      obtain ⟨k, s⟩ := e
      simp only [firstK] at h0
      subst h0
      have hwr : ∀ e ∈ rest, SegWF cfg g e.2 := fun e he => hw e (List.mem_cons_of_mem _ he)
      have hkr : ∀ e ∈ rest, 1 ≤ e.1 := fun e he => hk e (by simpa using he)
      have hkr' : ∀ e ∈ rest.tail, 1 ≤ e.1 := fun e he => hkr e (List.mem_of_mem_tail he)
      have htxt : ptext false ((0, s) :: rest) t = ptext true ((0, s) :: rest) t := by
        simp [ptext, slashes]
      cases s with
      | pat sp =>
        rw [htxt]
        obtain ⟨ps1, e1, h1⟩ := seg_loop cfg h g t ((0, .pat sp) :: rest) false false _ 0 ps [.empty] hw hk hg hi
          (fun hx => by cases hx) (fun _ _ k three r hx => by cases hx) (Nat.le_refl _)
        refine ⟨ps1, ?_, h1⟩
        simp only [Bool.false_eq_true, if_false, List.nil_append] at e1
        rw [e1]
        simp [allItems, firstK, baseIt, leadG]
      | glob three =>
        obtain ⟨hgt, h3⟩ := hw (0, .glob three) (by simp)
        have hsplit := ptext_split rest t
        have hvh := ptext_true_head cfg g rest t hwr
        have hv : ptext true rest t = [] ∨ 0 < firstK rest t := by
          by_cases h0 : firstK rest t = 0
          · obtain ⟨rfl, rfl⟩ := firstK_zero rest t hkr h0
            left; simp [ptext]
          · right; omega
        have htxt2 : ptext false ((0, .glob three) :: rest) t =
            (SSeg.glob three).text ++ (slashes (firstK rest t) ++ ptext true rest t) := by
          simp [ptext, slashes, hsplit]
        rw [htxt2]
        obtain ⟨ps1, j, e1, hi1, hg1⟩ := glob_step cfg h
          (((SSeg.glob three).text ++ (slashes (firstK rest t) ++ ptext true rest t)).length) 0 three
          (firstK rest t) (ptext true rest t) ps .empty [] hi (hg.trans hgt) h3 hv hvh
        rw [e1]
        have hres : globRes cfg three .empty [] = [.re (Frag.globstarDiv false), .re (gstarOf cfg three)] := by
          simp [globRes, Item.isDiv, Item.isEmpty]
        rw [hres]
        have hlen : 2 ≤ (SSeg.glob three).text.length := by cases three <;> simp [SSeg.text]
        obtain ⟨ps2, e2, h2⟩ := seg_loop cfg h g t rest false true
          (((SSeg.glob three).text ++ (slashes (firstK rest t) ++ ptext true rest t)).length) j ps1
          [.re (Frag.globstarDiv false), .re (gstarOf cfg three)]
          hwr hkr' (hg1.trans hgt.symm) hi1 (fun _ => ⟨rfl, _, rfl⟩) (fun _ hx => by cases hx)
          (by simp only [List.length_append]; omega)
        simp only [Bool.false_eq_true, if_false, List.nil_append] at e2
        refine ⟨ps2, ?_, h2⟩
        rw [e2]
        simp [allItems, firstK, baseIt, leadG, pI]
  · -- a run of separators first
    obtain ⟨m, hm⟩ : ∃ m, firstK L t = m + 1 := ⟨firstK L t - 1, by omega⟩
    have hvh := ptext_true_head cfg g L t hw
    rw [ptext_split, hm]
    obtain ⟨ps1, e1, hi1, hg1⟩ := slash_run cfg h ((slashes (m+1) ++ ptext true L t).length) 0 m
      (ptext true L t) ps [.empty] hi hvh
    rw [e1]
    have hlead : leadG L = false := by
      cases L with
      | nil => rfl
      | cons e rest =>
        obtain ⟨k, s⟩ := e
        simp only [firstK] at hm
        subst hm
        cases s <;> rfl
    obtain ⟨ps2, e2, h2⟩ := seg_loop cfg h g t L true false ((slashes (m+1) ++ ptext true L t).length)
      (0+1+m) ps1 [.empty] hw hk (hg1.trans hg) hi1
      (fun hx => by cases hx) (fun hx => by cases hx)
      (by simp only [List.length_append, slashes_length]; omega)
    simp only [if_true, List.singleton_append] at e2
    refine ⟨ps2, ?_, h2⟩
    rw [e2]
    simp [allItems, hm, baseIt, hlead]

theorem ptext_ne_nil (cfg : Cfg) (g : Bool) (L : List (Nat × SSeg)) (t : Nat) (hw : ∀ e ∈ L, SegWF cfg g e.2)
    (hne : L ≠ [] ∨ 0 < t) : ptext false L t ≠ [] := by
  cases L with
  | nil =>
    rcases hne with h | h
    · exact absurd rfl h
    · obtain ⟨t', rfl⟩ : ∃ t', t = t' + 1 := ⟨t - 1, by omega⟩
      simp [ptext, slashes_succ]
  | cons e rest =>
    obtain ⟨k, s⟩ := e
    obtain ⟨h1, _⟩ := s.text_ne cfg g (hw (k, s) (by simp))
    simp [ptext, h1]

/-- `root` on a shape -/
theorem root_shape (cfg : Cfg) (h : PathX cfg) (drive : List Char → DriveInfo) (g : Bool) (t : Nat)
    (L : List (Nat × SSeg)) (hw : ∀ e ∈ L, SegWF cfg g e.2) (hk : ∀ e ∈ L.tail, 1 ≤ e.1) (ps : PS)
    (hg : ps.globstar = g) (hi : PP.Inv ps false false 0) :
    ∃ ps', root cfg drive (ptext false L t) ps [.empty] =
        .ok (ps', .re (Frag.pathTrail false) :: ((allItems cfg L t).reverse ++ baseIt L)) ∧
      ps'.matchbase = false ∧ ps'.extmatchbase = false := by
  rw [root_eq]
  unfold rootPre rootPost
  simp only [h.wdd, Bool.false_eq_true, ite_false, h.pathname, Bool.true_and, h.noAbs, Bool.false_and,
    h.realpath, Bool.and_false]
  by_cases hhd : (ptext false L t).head? = some '/'
  · have hi' : PP.Inv ({ ps.setAfterStart with matchbase := false, extmatchbase := false } : PS) true false 0 :=
      ⟨rfl, rfl, hi.inList, hi.invExt, rfl, rfl⟩
    obtain ⟨ps1, e1, h0, hm, he⟩ := path_loop cfg h g t L _ hw hk (by simpa [PS.setAfterStart] using hg) hi'
    refine ⟨ps1, ?_, hm, he⟩
    simp only [hhd, decide_true, if_true, e1, cleanUp_zero cfg ps1 _ false h0, h.win]
  · have hi' : PP.Inv ps.setAfterStart true false 0 := ⟨rfl, rfl, hi.inList, hi.invExt, hi.mb, hi.emb⟩
    obtain ⟨ps1, e1, h0, hm, he⟩ := path_loop cfg h g t L _ hw hk (by simpa [PS.setAfterStart] using hg) hi'
    refine ⟨ps1, ?_, hm, he⟩
    simp only [hhd, decide_false, Bool.false_eq_true, if_false, if_true, e1, cleanUp_zero cfg ps1 _ false h0, h.win]

/-- the whole pass on a shape -/
theorem parseItems_shape (cfg : Cfg) (h : PathX cfg) (drive : List Char → DriveInfo) (t : Nat)
    (L : List (Nat × SSeg)) (hw : ∀ e ∈ L, SegWF cfg cfg.globstar0 e.2) (hk : ∀ e ∈ L.tail, 1 ≤ e.1)
    (hne : L ≠ [] ∨ 0 < t) (hbs : ptext false L t ≠ ['\\']) :
    parseItems cfg drive (ptext false L t) =
      .ok { items := baseIt L ++ (allItems cfg L t ++ [.re (Frag.pathTrail false)]),
            ci := !cfg.caseSensitive } := by
  unfold parseItems
  simp only [anchorStep, h.anchor, Bool.false_eq_true, ite_false]
  simp only [parsePrepend, h.matchbase, h.extmatchbase, Bool.or_self, Bool.false_eq_true, ite_false]
  unfold parseBody
  have hemp : (ptext false L t).isEmpty = false := by
    simpa using ptext_ne_nil cfg cfg.globstar0 L t hw hne
  obtain ⟨ps', hr, hm, he⟩ := root_shape cfg h drive cfg.globstar0 t L hw hk
    { matchbase := false, extmatchbase := false, globstar := cfg.globstar0 } rfl ⟨rfl, rfl, rfl, rfl, rfl, rfl⟩
  simp only [hbs, ite_false, hemp, Bool.false_eq_true, hr]
  have hb : (baseIt L).reverse = baseIt L := by
    unfold baseIt; split <;> rfl
  simp [hm, he, hb]

/-! ## Part 3: from the items of a shape to `pathRe` on the merged segments -/

/-- the reader's merge of consecutive globstars (the fold of `parsePath`) -/
def mergeG (segs : List Seg) : List Seg :=
  segs.foldr (fun (s : Seg) (acc : List Seg) => match s, acc with
    | Seg.glob, Seg.glob :: _ => acc
    | _, _ => s :: acc) []

/-- without a leading globstar -/
def dropG : List Seg → List Seg
  | .glob :: l => l
  | l => l

theorem mergeG_pat (g : Pat) (R : List Seg) : mergeG (.pat g :: R) = .pat g :: mergeG R := by
  simp [mergeG]

theorem mergeG_glob (R : List Seg) : mergeG (.glob :: R) = .glob :: dropG (mergeG R) := by
  have : mergeG (.glob :: R) = (match Seg.glob, mergeG R with
      | Seg.glob, Seg.glob :: _ => mergeG R
      | _, _ => Seg.glob :: mergeG R) := rfl
  rw [this]
  cases hm : mergeG R with
  | nil => rfl
  | cons a l => cases a <;> rfl

theorem mergeG_isEmpty (R : List Seg) : (mergeG R).isEmpty = R.isEmpty := by
  cases R with
  | nil => rfl
  | cons a l =>
    cases a with
    | pat g => rw [mergeG_pat]; rfl
    | glob => rw [mergeG_glob]; rfl

theorem gstarOf_eqv (cfg : Cfg) (three : Bool) : Eqv (gstarOf cfg three) (pGstar cfg.dot) := by
  unfold gstarOf; split
  · exact Eqv.refl _
  · exact gstarRe_eqv cfg

theorem pI_toRe (cfg : Cfg) (h : PathX cfg) (g tr : Bool) : ∀ (S : List SSeg) (sb ag : Bool),
    (∀ s ∈ S, SegWF cfg g s) → (ag = true → sb = false) → ∀ (f : Nat) (x : Re),
    Item.seqToRe f (pI cfg tr sb ag S ++ [.re (Frag.pathTrail false)]) = some x →
    Eqv x (pathRe cfg.dot tr (if ag then dropG (mergeG (S.map SSeg.seg)) else mergeG (S.map SSeg.seg)) sb) := by
  have last : ∀ (f : Nat) (x : Re), Item.seqToRe f [.re (Frag.pathTrail false)] = some x →
      Eqv x (Frag.pathTrail false) := by
    intro f x hx
    obtain ⟨f', x', h2, e⟩ := seqToRe_re_eqv hx
    rw [seqToRe_nil h2] at e
    exact e.trans (Eqv.cat_eps _)
  intro S
  induction S with
  | nil =>
    intro sb ag _ _ f x hx
    have hm : (if ag = true then dropG (mergeG (([] : List SSeg).map SSeg.seg)) else mergeG (([] : List SSeg).map SSeg.seg)) = [] := by
      cases ag <;> rfl
    rw [hm]
    cases sb with
    | false =>
      have hx' : Item.seqToRe f [.re (Frag.pathTrail false)] = some x := by
        cases ag <;> simpa [pI] using hx
      simpa [pathRe, sepIf] using last f x hx'
    | true =>
      have hx' : Item.seqToRe f (.re (Frag.sepPlus false) :: [.re (Frag.pathTrail false)]) = some x := by
        cases ag <;> simpa [pI] using hx
      obtain ⟨f', x', h2, e⟩ := seqToRe_re_eqv hx'
      simp only [pathRe, sepIf, if_true]
      exact e.trans ((Eqv.refl _).cat (last f' x' h2))
  | cons s rest ih =>
    intro sb ag hw hag f x hx
    have hwr : ∀ s ∈ rest, SegWF cfg g s := fun s hs => hw s (List.mem_cons_of_mem _ hs)
    cases s with
    | pat sp =>
      obtain ⟨hrpp, _, _, hgood, _⟩ := hw (.pat sp) (by simp)
      have hm : (if ag = true then dropG (mergeG ((SSeg.pat sp :: rest).map SSeg.seg))
          else mergeG ((SSeg.pat sp :: rest).map SSeg.seg)) = .pat (erase sp) :: mergeG (rest.map SSeg.seg) := by
        simp only [List.map_cons, SSeg.seg, mergeG_pat]
        cases ag <;> rfl
      rw [hm]
      have hemp : (mergeG (rest.map SSeg.seg)).isEmpty = rest.isEmpty := by
        rw [mergeG_isEmpty]; cases rest <;> rfl
      have core : ∀ (f : Nat) (x : Re),
          Item.seqToRe f (psits cfg true sp ++
            (pI cfg tr (if rest.isEmpty then tr else true) false rest ++ [.re (Frag.pathTrail false)])) = some x →
          Eqv x (.cat (compSeg cfg.dot true (erase sp))
            (pathRe cfg.dot tr (mergeG (rest.map SSeg.seg)) (if rest.isEmpty then tr else true))) := by
        intro f x hx
        obtain ⟨f1, x1, h1, e1⟩ := (psits_toRe cfg h sp hgood).1 hrpp true f _ x hx
        have := ih (if rest.isEmpty then tr else true) false hwr (fun hx => by cases hx) f1 x1 h1
        simp only [Bool.false_eq_true, if_false] at this
        exact e1.trans ((Eqv.refl _).cat this)
      have hpi : pI cfg tr sb ag (SSeg.pat sp :: rest) = (if sb then [.re (Frag.sepPlus false)] else []) ++
          (psits cfg true sp ++ pI cfg tr (if rest.isEmpty then tr else true) false rest) := by
        cases ag <;> simp only [pI]
      rw [hpi] at hx
      cases sb with
      | false =>
        simp only [Bool.false_eq_true, if_false, List.nil_append, List.append_assoc] at hx
        simpa [pathRe, sepIf, hemp] using core f x hx
      | true =>
        simp only [if_true, List.cons_append, List.nil_append, List.append_assoc] at hx
        obtain ⟨f', x', h2, e⟩ := seqToRe_re_eqv hx
        simp only [pathRe, sepIf, if_true, hemp]
        exact e.trans ((Eqv.refl _).cat (core f' x' h2))
    | glob three =>
      cases ag with
      | true =>
        have hsb : sb = false := hag rfl
        subst hsb
        have hm : dropG (mergeG ((SSeg.glob three :: rest).map SSeg.seg)) = dropG (mergeG (rest.map SSeg.seg)) := by
          simp only [List.map_cons, SSeg.seg, mergeG_glob]
          rfl
        simp only [if_true, hm]
        have hx' : Item.seqToRe f (pI cfg tr false true rest ++ [.re (Frag.pathTrail false)]) = some x := by
          simpa [pI] using hx
        have := ih false true hwr (fun _ => rfl) f x hx'
        simpa using this
      | false =>
        have hm : mergeG ((SSeg.glob three :: rest).map SSeg.seg) = .glob :: dropG (mergeG (rest.map SSeg.seg)) := by
          simp only [List.map_cons, SSeg.seg, mergeG_glob]
        simp only [Bool.false_eq_true, if_false, hm]
        have core : ∀ (f : Nat) (x : Re),
            Item.seqToRe f (.re (gstarOf cfg three) :: .re (Frag.globstarDiv false) ::
              (pI cfg tr false true rest ++ [.re (Frag.pathTrail false)])) = some x →
            Eqv x (.cat (pGstar cfg.dot) (.cat (Frag.globstarDiv false)
              (pathRe cfg.dot tr (dropG (mergeG (rest.map SSeg.seg))) false))) := by
          intro f x hx
          obtain ⟨f1, x1, h1, e1⟩ := seqToRe_re_eqv hx
          obtain ⟨f2, x2, h2, e2⟩ := seqToRe_re_eqv h1
          have := ih false true hwr (fun _ => rfl) f2 x2 h2
          simp only [if_true] at this
          exact e1.trans ((gstarOf_eqv cfg three).cat (e2.trans ((Eqv.refl _).cat this)))
        cases sb with
        | false =>
          simp only [pI, Bool.false_eq_true, if_false, List.nil_append, List.cons_append] at hx
          simpa [pathRe, needSepIf] using core f x hx
        | true =>
          simp only [pI, if_true, List.cons_append, List.nil_append] at hx
          obtain ⟨f', x', h2, e⟩ := seqToRe_re_eqv hx
          simp only [pathRe, needSepIf, if_true]
          exact e.trans ((Eqv.refl _).cat (core f' x' h2))

theorem pI_WF (cfg : Cfg) (g tr : Bool) : ∀ (S : List SSeg) (sb ag : Bool),
    (∀ s ∈ S, SegWF cfg g s) → WF false (pI cfg tr sb ag S) ∧ HF.NoBar (pI cfg tr sb ag S) := by
  intro S
  induction S with
  | nil =>
    intro sb ag _
    cases sb <;> cases ag <;> simp only [pI, Bool.false_eq_true, if_false, if_true]
    all_goals first
      | exact ⟨.nil, HF.NoBar.nil⟩
      | exact ⟨.re .nil, HF.NoBar.cons rfl HF.NoBar.nil⟩
  | cons s rest ih =>
    intro sb ag hw
    have hwr : ∀ s ∈ rest, SegWF cfg g s := fun s hs => hw s (List.mem_cons_of_mem _ hs)
    cases s with
    | pat sp =>
      obtain ⟨hrpp, _, _, _, _⟩ := hw (.pat sp) (by simp)
      obtain ⟨w1, n1⟩ := ih (if rest.isEmpty then tr else true) false hwr
      have w2 := (psits_WF cfg sp false true hrpp).append w1
      have n2 := (psits_noBar cfg sp true hrpp).append n1
      cases sb <;> cases ag <;>
        simp only [pI, Bool.false_eq_true, if_false, if_true, List.nil_append, List.cons_append]
      all_goals first
        | exact ⟨w2, n2⟩
        | exact ⟨.re w2, HF.NoBar.cons rfl n2⟩
    | glob three =>
      obtain ⟨w1, n1⟩ := ih false true hwr
      cases sb <;> cases ag <;>
        simp only [pI, Bool.false_eq_true, if_false, if_true, List.nil_append, List.cons_append]
      all_goals first
        | exact ⟨w1, n1⟩
        | exact ⟨.re (.re w1), HF.NoBar.cons rfl (HF.NoBar.cons rfl n1)⟩
        | exact ⟨.re (.re (.re w1)), HF.NoBar.cons rfl (HF.NoBar.cons rfl (HF.NoBar.cons rfl n1))⟩

theorem toRe_shape (cfg : Cfg) (h : PathX cfg) (g : Bool) (t : Nat) (L : List (Nat × SSeg))
    (hw : ∀ e ∈ L, SegWF cfg g e.2) (ci : Bool) :
    ∃ r, (Parsed.toRe { items := baseIt L ++ (allItems cfg L t ++ [.re (Frag.pathTrail false)]), ci := ci }) = some r ∧
      Eqv r (wrapRe ci (pathRe cfg.dot (decide (0 < t)) (mergeG (L.map (·.2.seg))) (decide (0 < firstK L t)))) := by
  have hwS : ∀ s ∈ L.map (·.2), SegWF cfg g s := by
    intro s hs
    obtain ⟨e, he, rfl⟩ := List.mem_map.mp hs
    exact hw e he
  obtain ⟨w0, n0⟩ := pI_WF cfg g (decide (0 < t)) (L.map (·.2)) (decide (0 < firstK L t)) false hwS
  have hwf0 : WF false (allItems cfg L t ++ [.re (Frag.pathTrail false)]) := w0.append (.re .nil)
  have hnb0 : HF.NoBar (allItems cfg L t ++ [.re (Frag.pathTrail false)]) :=
    n0.append (HF.NoBar.cons rfl HF.NoBar.nil)
  have hwf : WF false (baseIt L ++ (allItems cfg L t ++ [.re (Frag.pathTrail false)])) := by
    unfold baseIt; split
    · exact hwf0
    · exact .empty hwf0
  have hnb : HF.NoBar (baseIt L ++ (allItems cfg L t ++ [.re (Frag.pathTrail false)])) := by
    unfold baseIt; split
    · exact hnb0
    · exact HF.NoBar.cons rfl hnb0
  obtain ⟨r, hr⟩ := Option.isSome_iff_exists.mp (Parsed.toRe_isSome_of_WF ⟨_, ci⟩ hwf)
  refine ⟨r, hr, ?_⟩
  unfold Parsed.toRe at hr
  simp only [] at hr
  generalize hLL : baseIt L ++ (allItems cfg L t ++ [.re (Frag.pathTrail false)]) = LL at hr hnb
  cases hin : Item.listToRe (2 * Item.sizeL LL + 4) LL with
  | none => simp [hin] at hr
  | some inner =>
    simp [hin] at hr
    subst hr
    obtain ⟨f', xs, _, hm, hx⟩ := listToRe_inv hin
    rw [HF.splitBars_noBar _ hnb] at hm
    simp only [List.mapM_cons, List.mapM_nil] at hm
    cases h1 : Item.seqToRe f' LL with
    | none => simp [h1] at hm
    | some x =>
      simp [h1] at hm
      have hx' : inner = x := by rw [hx, ← hm]; rfl
      have hmap : (L.map (·.2)).map SSeg.seg = L.map (·.2.seg) := by simp
      have hE : Eqv x (pathRe cfg.dot (decide (0 < t)) (mergeG (L.map (·.2.seg))) (decide (0 < firstK L t))) := by
        subst hLL
        have key : ∀ f x, Item.seqToRe f (allItems cfg L t ++ [.re (Frag.pathTrail false)]) = some x →
            Eqv x (pathRe cfg.dot (decide (0 < t)) (mergeG (L.map (·.2.seg))) (decide (0 < firstK L t))) := by
          intro f x hx
          have hx2 : Item.seqToRe f (pI cfg (decide (0 < t)) (decide (0 < firstK L t)) false (L.map (fun e => e.2)) ++
              [.re (Frag.pathTrail false)]) = some x := hx
          have := pI_toRe cfg h g (decide (0 < t)) (L.map (fun e => e.2)) (decide (0 < firstK L t)) false hwS
            (fun hx => by cases hx) f x hx2
          simpa [hmap] using this
        unfold baseIt at h1
        split at h1
        · exact key f' x h1
        · cases f' with
          | zero => simp [Item.seqToRe] at h1
          | succ f =>
            simp only [List.cons_append, List.nil_append, Item.seqToRe] at h1
            exact key f x h1
      rw [hx']
      exact (Eqv.refl _).cat ((hE.flags true ci).cat (Eqv.refl _))

/-! ## Part 4: every string the strict path reader accepts has a shape -/

/-- raw pieces, each preceded by a separator -/
def joinSl : List (List Char) → List Char
  | [] => []
  | r :: rs => '/' :: (r ++ joinSl rs)

/-- a text is its first raw piece followed by the others, each after a separator -/
theorem cut_join : ∀ p : List Char, ∃ r0 rs, cutAtSlash p = r0 :: rs ∧ p = r0 ++ joinSl rs ∧
    (∀ r ∈ r0 :: rs, '/' ∉ r) := by
  intro p
  induction p with
  | nil => exact ⟨[], [], rfl, rfl, by simp⟩
  | cons c p ih =>
    obtain ⟨r0, rs, h1, h2, h3⟩ := ih
    by_cases hc : c = '/'
    · subst hc
      refine ⟨[], r0 :: rs, by rw [cutAtSlash_cons_slash, h1], by simp [joinSl, ← h2], ?_⟩
      intro r hr
      rcases List.mem_cons.mp hr with rfl | hr
      · simp
      · exact h3 r hr
    · refine ⟨c :: r0, rs, cutAtSlash_cons_ne c hc p r0 rs h1, by simp [← h2], ?_⟩
      intro r hr
      rcases List.mem_cons.mp hr with rfl | hr
      · have := h3 r0 (by simp)
        simp only [List.mem_cons, not_or]
        exact ⟨Ne.symm hc, this⟩
      · exact h3 r (List.mem_cons_of_mem _ hr)

/-- how the strict path reader reads one piece -/
def readPiece (ctx : PCtx) (p : List Char) : Option Seg :=
  if (ctx.globstar || ctx.globstarlong) && p = ['*', '*'] then some Seg.glob
  else if ctx.globstarlong && p = ['*', '*', '*'] then some Seg.glob
  else (Grammar.parsePat ctx.ext p).map Seg.pat

theorem parsePath_eq (ctx : PCtx) (s : List Char) (hmb : ctx.matchbase = false) :
    parsePath ctx s =
      if s.isEmpty then none else
      if (cutAtSlash s).any (fun p => p.getLast? = some '\\') then none else
      match ((cutAtSlash s).filter (fun p => !p.isEmpty)).mapM (readPiece ctx) with
      | none => none
      | some segs => some ⟨s.head? = some '/', mergeG segs, s.getLast? = some '/' && s.length > 1⟩ := by
  unfold parsePath
  simp only [hmb, Bool.false_and, Bool.false_eq_true, if_false]
  rfl

theorem SegWF_noSl (cfg : Cfg) (g : Bool) (s : SSeg) (h : SegWF cfg g s) : '/' ∉ s.text := by
  cases s with
  | pat sp => exact h.2.2.1
  | glob three => cases three <;> simp [SSeg.text]

/-- **one accepted piece is the text of a spelled segment** -/
theorem spell_piece (cfg : Cfg) (h : PathX cfg) (ctx : PCtx) (hext : ctx.ext = true)
    (hgs : (ctx.globstar || ctx.globstarlong) = cfg.globstar0) (hgl : ctx.globstarlong = cfg.globstarlong)
    (r : List Char) (seg : Seg) (hne : r ≠ []) (hns : '/' ∉ r) (hbs : r.getLast? ≠ some '\\')
    (hr : readPiece ctx r = some seg) (hneg : ∀ gp, seg = .pat gp → gp.negFree = true) :
    ∃ ss : SSeg, ss.text = r ∧ ss.seg = seg ∧ SegWF cfg cfg.globstar0 ss := by
  unfold readPiece at hr
  by_cases h1 : ((ctx.globstar || ctx.globstarlong) && decide (r = ['*', '*'])) = true
  · rw [if_pos h1] at hr
    simp only [Bool.and_eq_true, decide_eq_true_eq] at h1
    injection hr with hr
    subst hr
    refine ⟨.glob false, h1.2.symm, rfl, ?_, fun hx => by cases hx⟩
    rw [← hgs]; exact h1.1
  · rw [if_neg h1] at hr
    by_cases h2 : (ctx.globstarlong && decide (r = ['*', '*', '*'])) = true
    · rw [if_pos h2] at hr
      simp only [Bool.and_eq_true, decide_eq_true_eq] at h2
      injection hr with hr
      subst hr
      refine ⟨.glob true, h2.2.symm, rfl, ?_, fun _ => by rw [← hgl]; exact h2.1⟩
      rw [← hgs, h2.1]; simp
    · rw [if_neg h2] at hr
      rw [hext] at hr
      cases hp : Grammar.parsePat true r with
      | none => simp [hp] at hr
      | some gp =>
        simp only [hp, Option.map_some, Option.some.injEq] at hr
        subst hr
        obtain ⟨sp, hs1, hs2, hs3, hs4⟩ := spell_of_parsePat (fnOf cfg) (fnOf_FnX cfg h) r gp hp
        have hng : gp.negFree = true := hneg gp rfl
        have hrpp : rpp false (erase sp) = true := by
          rw [hs2]
          exact rpp_of_shp gp false (by rw [← hs2]; exact sgood_shp (fnOf cfg) sp false hs4) hng
        have hns' : '/' ∉ sprint sp := by rw [hs1]; exact hns
        refine ⟨.pat sp, hs1, by simp [SSeg.seg, hs2], hrpp, by rw [hs1]; exact hne, hns',
          pgood_of_sgood cfg sp false hs4 hns', ?_⟩
        intro tail ht
        have hpiece : PieceOK cfg.globstar0 cfg.globstarlong (sprint sp ++ []) := by
          rw [List.append_nil, hs1]
          refine ⟨hbs, ?_, ?_⟩
          · intro hg e
            apply h1
            simp [hgs, hg, e]
          · intro hl e
            apply h2
            simp [hgl, hl, e]
        have := psok_of_sok cfg h cfg.globstar0 tail ht sp true true [] hs3 (by simpa using hns')
          (fun _ _ _ => hpiece)
        simpa using this

/-- one more separator in front of a shape -/
def bump : List (Nat × SSeg) × Nat → List (Nat × SSeg) × Nat
  | ([], t) => ([], t + 1)
  | ((k, s) :: rest, t) => ((k + 1, s) :: rest, t)

theorem ptext_bump (Lt : List (Nat × SSeg) × Nat) :
    ptext false (bump Lt).1 (bump Lt).2 = '/' :: ptext false Lt.1 Lt.2 := by
  obtain ⟨L, t⟩ := Lt
  cases L with
  | nil => simp [bump, ptext, slashes_succ]
  | cons e rest => obtain ⟨k, s⟩ := e; simp [bump, ptext, slashes_succ]

theorem mapM_cons_some {α β : Type} (f : α → Option β) (a : α) (l : List α) (ys : List β)
    (h : (a :: l).mapM f = some ys) : ∃ y ys', f a = some y ∧ l.mapM f = some ys' ∧ ys = y :: ys' := by
  simp only [List.mapM_cons] at h
  cases hfa : f a with
  | none => simp [hfa] at h
  | some y =>
    cases hl : l.mapM f with
    | none => simp [hfa, hl] at h
    | some ys' =>
      simp [hfa, hl] at h
      exact ⟨y, ys', rfl, rfl, h.symm⟩

/-- **the raw pieces after the first one, as a shape** -/
theorem build (cfg : Cfg) (h : PathX cfg) (ctx : PCtx) (hext : ctx.ext = true)
    (hgs : (ctx.globstar || ctx.globstarlong) = cfg.globstar0) (hgl : ctx.globstarlong = cfg.globstarlong) :
    ∀ (rs : List (List Char)) (segs0 : List Seg),
      (∀ r ∈ rs, '/' ∉ r ∧ r.getLast? ≠ some '\\') →
      (rs.filter (fun p => !p.isEmpty)).mapM (readPiece ctx) = some segs0 →
      (∀ gp, Seg.pat gp ∈ segs0 → gp.negFree = true) →
      ∃ (L : List (Nat × SSeg)) (t : Nat), joinSl rs = ptext false L t ∧ (∀ e ∈ L, 1 ≤ e.1) ∧
        (∀ e ∈ L, SegWF cfg cfg.globstar0 e.2) ∧ L.map (·.2.seg) = segs0 := by
  intro rs
  induction rs with
  | nil =>
    intro segs0 _ hm _
    simp only [List.filter_nil, List.mapM_nil] at hm
    injection hm with hm
    exact ⟨[], 0, by simp [joinSl, ptext, slashes], by simp, by simp, by simp [← hm]⟩
  | cons r rs ih =>
    intro segs0 hrs hm hneg
    have hrs' : ∀ r ∈ rs, '/' ∉ r ∧ r.getLast? ≠ some '\\' := fun x hx => hrs x (List.mem_cons_of_mem _ hx)
    by_cases hre : r = []
    · subst hre
      simp only [List.filter_cons, List.isEmpty_nil, Bool.not_true, Bool.false_eq_true, if_false] at hm
      obtain ⟨L, t, h1, h2, h3, h4⟩ := ih segs0 hrs' hm hneg
      refine ⟨(bump (L, t)).1, (bump (L, t)).2, ?_, ?_, ?_, ?_⟩
      · rw [ptext_bump]; simp [joinSl, h1]
      · cases L with
        | nil => simp [bump]
        | cons e rest =>
          obtain ⟨k, s⟩ := e
          intro e he
          simp only [bump, List.mem_cons] at he
          rcases he with rfl | he
          · simp
          · exact h2 e (List.mem_cons_of_mem _ he)
      · cases L with
        | nil => simp [bump]
        | cons e rest =>
          obtain ⟨k, s⟩ := e
          intro e he
          simp only [bump, List.mem_cons] at he
          rcases he with rfl | he
          · exact h3 (k, s) (by simp)
          · exact h3 e (List.mem_cons_of_mem _ he)
      · cases L with
        | nil => simpa [bump] using h4
        | cons e rest => obtain ⟨k, s⟩ := e; simpa [bump] using h4
    · have hne : (!r.isEmpty) = true := by simpa using hre
      simp only [List.filter_cons, hne, if_true] at hm
      obtain ⟨seg, segs', hr1, hr2, rfl⟩ := mapM_cons_some _ _ _ _ hm
      obtain ⟨L, t, h1, h2, h3, h4⟩ := ih segs' hrs' hr2 (fun gp hg => hneg gp (List.mem_cons_of_mem _ hg))
      obtain ⟨hns, hbs⟩ := hrs r (by simp)
      obtain ⟨ss, t1, t2, t3⟩ := spell_piece cfg h ctx hext hgs hgl r seg hre hns hbs hr1
        (fun gp e => hneg gp (by rw [e]; simp))
      refine ⟨(1, ss) :: L, t, ?_, ?_, ?_, ?_⟩
      · simp [joinSl, ptext, slashes, t1, h1]
      · intro e he
        rcases List.mem_cons.mp he with rfl | he
        · exact Nat.le_refl _
        · exact h2 e he
      · intro e he
        rcases List.mem_cons.mp he with rfl | he
        · exact t3
        · exact h3 e he
      · simp [t2, h4]

theorem pat_mem_mergeG (gp : Pat) : ∀ R : List Seg, Seg.pat gp ∈ R → Seg.pat gp ∈ mergeG R := by
  intro R
  induction R with
  | nil => intro hx; cases hx
  | cons a l ih =>
    intro hx
    cases a with
    | pat g =>
      rw [mergeG_pat]
      rcases List.mem_cons.mp hx with e | hx
      · rw [e]; simp
      · exact List.mem_cons_of_mem _ (ih hx)
    | glob =>
      rw [mergeG_glob]
      rcases List.mem_cons.mp hx with e | hx
      · cases e
      · have := ih hx
        refine List.mem_cons_of_mem _ ?_
        cases hm : mergeG l with
        | nil => rw [hm] at this; cases this
        | cons b l' =>
          rw [hm] at this
          cases b with
          | pat g' => exact this
          | glob =>
            rcases List.mem_cons.mp this with e | hx'
            · cases e
            · exact hx'

/-- the first character of the text of a shape -/
theorem head_ptext (cfg : Cfg) (g : Bool) (L : List (Nat × SSeg)) (t : Nat) (hw : ∀ e ∈ L, SegWF cfg g e.2) :
    decide ((ptext false L t).head? = some '/') = decide (0 < firstK L t) := by
  rw [ptext_split]
  have hh := ptext_true_head cfg g L t hw
  cases hk : firstK L t with
  | zero => simp [slashes, hh]
  | succ m => simp [slashes_succ]

/-- the last character of the text of a shape with at least one segment -/
theorem last_ptext (cfg : Cfg) (g : Bool) (t : Nat) : ∀ (L : List (Nat × SSeg)) (eaten : Bool),
    (∀ e ∈ L, SegWF cfg g e.2) → L ≠ [] →
    ((ptext eaten L t).getLast? = some '/' ↔ 0 < t) := by
  intro L
  induction L with
  | nil => intro _ _ hne; exact absurd rfl hne
  | cons e rest ih =>
    intro eaten hw _
    obtain ⟨k, s⟩ := e
    have hwr : ∀ e ∈ rest, SegWF cfg g e.2 := fun e he => hw e (List.mem_cons_of_mem _ he)
    have hs := hw (k, s) (by simp)
    obtain ⟨hs1, _⟩ := s.text_ne cfg g hs
    have hs2 := SegWF_noSl cfg g s hs
    simp only [ptext]
    cases rest with
    | nil =>
      simp only [ptext, Bool.false_eq_true, if_false]
      cases t with
      | zero =>
        simp only [slashes, List.replicate_zero, List.append_nil, Nat.lt_irrefl, iff_false]
        intro hl
        rw [List.getLast?_append] at hl
        cases hls : s.text.getLast? with
        | none =>
          have := List.getLast?_eq_none_iff.mp hls
          exact hs1 this
        | some c =>
          rw [hls] at hl
          simp only [Option.some_or, Option.some.injEq] at hl
          subst hl
          exact hs2 (List.mem_of_getLast? hls)
      | succ n =>
        simp only [Nat.zero_lt_succ, iff_true]
        rw [← List.append_assoc, List.getLast?_append]
        have : (slashes (n+1)).getLast? = some '/' := by
          simp [slashes, List.getLast?_replicate]
        rw [this]; rfl
    | cons e' r' =>
      have hne : ptext false (e' :: r') t ≠ [] := ptext_ne_nil cfg g (e' :: r') t hwr (.inl (by simp))
      rw [← List.append_assoc, List.getLast?_append]
      have := ih false hwr (by simp)
      cases hl : (ptext false (e' :: r') t).getLast? with
      | none => exact absurd (List.getLast?_eq_none_iff.mp hl) hne
      | some c =>
        rw [hl] at this
        simpa using this

theorem pathRe_nil_tr (dot tr tr' sb : Bool) : pathRe dot tr [] sb = pathRe dot tr' [] sb := rfl

/-- **pass_read for path mode.**  For every string `p` the strict path reader accepts
    (`parsePath ctx p = some pp`: cut at `/`, runs of separators and a trailing separator allowed,
    every piece read by `Grammar.parsePat`, `**` — `***` under GLOBSTARLONG — as globstars,
    consecutive globstars merged) whose file-name segments are negation-free, the faithful port run
    on `p` returns items that convert to a regex `Eqv`-equivalent to the tidy path compiler's
    `compPath pp`.  No condition on the spelling is left. -/
theorem pass_read_path (cfg : Cfg) (h : PathX cfg) (drive : List Char → DriveInfo) (ctx : PCtx)
    (hext : ctx.ext = true) (hmb : ctx.matchbase = false)
    (hgs : (ctx.globstar || ctx.globstarlong) = cfg.globstar0) (hgl : ctx.globstarlong = cfg.globstarlong)
    (p : List Char) (pp : PathPat) (hp : parsePath ctx p = some pp)
    (hneg : ∀ gp, Seg.pat gp ∈ pp.segs → gp.negFree = true) :
    ∃ parsed r, parseItems cfg drive p = .ok parsed ∧ parsed.toRe = some r ∧
      Eqv r (wrapRe (!cfg.caseSensitive) (compPath cfg.dot pp)) := by
  rw [parsePath_eq ctx p hmb] at hp
  by_cases hemp : p.isEmpty = true
  · simp [hemp] at hp
  rw [if_neg hemp] at hp
  by_cases hany : (cutAtSlash p).any (fun q => q.getLast? = some '\\') = true
  · simp [hany] at hp
  rw [if_neg hany] at hp
  obtain ⟨r0, rs, hcut, hpj, hnsl⟩ := cut_join p
  rw [hcut] at hp hany
  cases hm : ((r0 :: rs).filter (fun q => !q.isEmpty)).mapM (readPiece ctx) with
  | none => simp [hm] at hp
  | some segs0 =>
    simp only [hm, Option.some.injEq] at hp
    have hbsl : ∀ r ∈ r0 :: rs, r.getLast? ≠ some '\\' := by
      intro r hr hx
      apply hany
      rw [List.any_eq_true]
      exact ⟨r, hr, by simpa using hx⟩
    have hneg0 : ∀ gp, Seg.pat gp ∈ segs0 → gp.negFree = true := by
      intro gp hg
      apply hneg gp
      rw [← hp]
      exact pat_mem_mergeG gp segs0 hg
    have hrs : ∀ r ∈ rs, '/' ∉ r ∧ r.getLast? ≠ some '\\' := fun r hr =>
      ⟨hnsl r (List.mem_cons_of_mem _ hr), hbsl r (List.mem_cons_of_mem _ hr)⟩
    -- the shape of the whole pattern
    have hshape : ∃ (L : List (Nat × SSeg)) (t : Nat), p = ptext false L t ∧ (∀ e ∈ L.tail, 1 ≤ e.1) ∧
        (∀ e ∈ L, SegWF cfg cfg.globstar0 e.2) ∧ L.map (·.2.seg) = segs0 := by
      by_cases hr0 : r0 = []
      · subst hr0
        simp only [List.filter_cons, List.isEmpty_nil, Bool.not_true, Bool.false_eq_true, if_false] at hm
        obtain ⟨L, t, h1, h2, h3, h4⟩ := build cfg h ctx hext hgs hgl rs segs0 hrs hm hneg0
        exact ⟨L, t, by rw [hpj, h1]; rfl, fun e he => h2 e (List.mem_of_mem_tail he), h3, h4⟩
      · have hne : (!r0.isEmpty) = true := by simpa using hr0
        simp only [List.filter_cons, hne, if_true] at hm
        obtain ⟨seg, segs', hr1, hr2, rfl⟩ := mapM_cons_some _ _ _ _ hm
        obtain ⟨L, t, h1, h2, h3, h4⟩ := build cfg h ctx hext hgs hgl rs segs' hrs hr2
          (fun gp hg => hneg0 gp (List.mem_cons_of_mem _ hg))
        obtain ⟨ss, t1, t2, t3⟩ := spell_piece cfg h ctx hext hgs hgl r0 seg hr0 (hnsl r0 (by simp))
          (hbsl r0 (by simp)) hr1 (fun gp e => hneg0 gp (by rw [e]; simp))
        refine ⟨(0, ss) :: L, t, by rw [hpj, h1]; simp [ptext, slashes, t1], fun e he => h2 e (by simpa using he), ?_,
          by simp [t2, h4]⟩
        intro e he
        rcases List.mem_cons.mp he with rfl | he
        · exact t3
        · exact h3 e he
    obtain ⟨L, t, hpt, hk, hw, hsegs⟩ := hshape
    have hne : L ≠ [] ∨ 0 < t := by
      by_cases hL : L = []
      · right
        subst hL
        cases t with
        | zero => exfalso; apply hemp; rw [hpt]; rfl
        | succ n => omega
      · exact .inl hL
    have hbs : ptext false L t ≠ ['\\'] := by
      rw [← hpt]
      intro e
      apply hany
      rw [← hcut, e]
      decide
    obtain ⟨r, hr, hE⟩ := toRe_shape cfg h cfg.globstar0 t L hw (!cfg.caseSensitive)
    refine ⟨_, r, by rw [hpt]; exact parseItems_shape cfg h drive t L hw hk hne hbs, hr, ?_⟩
    -- the reader's `abs` / `trailing` in terms of the shape
    have hcomp : compPath cfg.dot pp =
        pathRe cfg.dot (decide (0 < t)) (mergeG (L.map (·.2.seg))) (decide (0 < firstK L t)) := by
      rw [← hp]
      simp only [compPath]
      rw [hsegs]
      have habs : decide (p.head? = some '/') = decide (0 < firstK L t) := by
        rw [hpt]; exact head_ptext cfg cfg.globstar0 L t hw
      rw [habs]
      by_cases hL : L = []
      · subst hL
        simp only [List.map_nil] at hsegs
        subst hsegs
        rfl
      · congr 1
        have hl := last_ptext cfg cfg.globstar0 t L false hw hL
        rw [← hpt] at hl
        by_cases ht : 0 < t
        · have hlen : p.length > 1 := by
            rw [hpt]
            cases L with
            | nil => exact absurd rfl hL
            | cons e rest =>
              obtain ⟨k, s⟩ := e
              obtain ⟨hs1, _⟩ := s.text_ne cfg cfg.globstar0 (hw (k, s) (by simp))
              have : 1 ≤ s.text.length := by
                cases hx : s.text with
                | nil => exact absurd hx hs1
                | cons c r => simp
              have h2 : 1 ≤ (ptext false rest t).length := by
                cases rest with
                | nil => simp [ptext, slashes_length]; omega
                | cons e' r' =>
                  have := ptext_ne_nil cfg cfg.globstar0 (e' :: r') t
                    (fun e he => hw e (List.mem_cons_of_mem _ he)) (.inl (by simp))
                  cases hx : ptext false (e' :: r') t with
                  | nil => exact absurd hx this
                  | cons c r => simp
              simp only [ptext, Bool.false_eq_true, if_false, List.length_append]
              omega
          simp [hl.mpr ht, ht, hlen]
        · have : ¬ p.getLast? = some '/' := fun hx => ht (hl.mp hx)
          simp [this, ht]
    rw [hcomp]
    exact hE

/-! ### non-vacuity -/

/-- a pattern with a run of leading separators, an escaped ordinary character, three globstars in
    a row (doubled separators between them), two stars inside a segment, a bracket with `]`
    first, a bare `!` and `(`, three stars at the start of a segment, trailing separators -/
def pDemo : List Char := "//\\a*.d/**//**/**/x**y[]a[:digit:]]/!b(c/***z+(p|\\q)//".toList

/-- the hypotheses of `pass_read_path` hold for `pDemo` in the sampled configuration
    PATHNAME|FORCEUNIX|EXTGLOB|GLOBSTAR: the reader accepts it, the three globstars are merged into
    one, every file-name segment is negation-free; and the text is not a printed path pattern -/
theorem pDemo_read :
    ((parsePath (PathTidy.ctxOf false true true) pDemo).map fun q =>
      (q.segs.length == 5) && q.abs && q.trailing &&
      q.segs.all (fun s => match s with | .pat g => g.negFree | .glob => true) &&
      !(printPath q == pDemo)) = some true := by decide +kernel

example : ∃ pp parsed r, parsePath (PathTidy.ctxOf false true true) pDemo = some pp ∧
    parseItems (cfgP false true) (fun _ => default) pDemo = .ok parsed ∧ parsed.toRe = some r ∧
    Eqv r (wrapRe (!(cfgP false true).caseSensitive) (compPath (cfgP false true).dot pp)) := by
  cases hr : parsePath (PathTidy.ctxOf false true true) pDemo with
  | none => have := pDemo_read; rw [hr] at this; cases this
  | some pp =>
    have hd := pDemo_read
    rw [hr] at hd
    simp only [Option.map_some, Option.some.injEq, Bool.and_eq_true, List.all_eq_true] at hd
    obtain ⟨parsed, r, h1, h2, h3⟩ := pass_read_path (cfgP false true) (pathX_cfgP false true) (fun _ => default)
      (PathTidy.ctxOf false true true) rfl rfl (by decide) (by decide) pDemo pp hr
      (fun gp hg => hd.1.2 (.pat gp) hg)
    exact ⟨pp, parsed, r, rfl, h1, h2, h3⟩

end PRP
end WcModel

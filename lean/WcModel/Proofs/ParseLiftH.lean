import WcModel.Proofs.ParseLift
/-
  A variant of the generic lifting of `ParseLift.lean` in which the hypothesis on `sequence`
  also knows that the bracket `[` has just been read from a text satisfying the invariant
  (`SeqOKH`).  With the invariant "no `[` left" the hypothesis becomes vacuous, which
  `SeqOK` cannot express.  The proofs are those of `ParseLift.lean` (`el_step_lift` …
  `parseItems_lift`), with the head character passed along at the two call sites of `sequence`.
-/
namespace WcModel

/-- what the pass needs from `sequence`, given that `[` was read from a `J` text -/
def SeqOKH (P : Re → Prop) (J : List Char → Prop) (cfg : Cfg) : Prop :=
  ∀ (ps : PS) (it0 it : It) (r : Re) (ps' : PS) (it' : It), JI J it0 → it0.next = some ('[', it) →
    sequence cfg ps it = some (r, ps', it') → P r ∧ JI J it'

theorem SeqOK.toH {P : Re → Prop} {J : List Char → Prop} (hJ : TextInv J) {cfg : Cfg}
    (h : SeqOK P J cfg) : SeqOKH P J cfg :=
  fun ps _ it r ps' it' hi hn hs => h ps it r ps' it' (JI.next hJ hi hn) hs

section
variable {P : Re → Prop} {J : List Char → Prop} (hP : Lift P) (hJ : TextInv J)
include hP hJ

theorem el_step_liftH (cfg : Cfg) (hseq : SeqOKH P J cfg) (n : Nat) (ihP : ExtP P J cfg n)
    (ihE : ExtLoopP P J cfg n) : ExtLoopP P J cfg (n+1) := by
  intro it ps ext ta tn ps' it' ext' hi hc h
  unfold extLoop at h
  split at h
  · cases h
  · rename_i c it1 hn
    have hi1 := JI.next hJ hi hn
    extract_lets continue_ extRes at h
    have hcont : ∀ q i e u, JI J i → Item.AllL P e → continue_ q i e u = .ok (ps', it', ext') →
        JI J it' ∧ Item.AllL P ext' := by
      intro q i e u hi' he' hk
      simp only [continue_] at hk
      split at hk
      · cases hk; exact ⟨hi', he'⟩
      · exact ihE _ _ _ _ _ _ _ _ hi' he' hk
    clear_value continue_
    generalize hER : extRes = er at h
    simp only [extRes] at hER
    clear extRes
    split at h
    · rename_i ps2 it2 ext2
      split at hER
      · simp only [Option.some.injEq] at hER
        obtain ⟨hi2, he2⟩ := ihP _ _ _ _ _ _ _ _ _ hi1 hc hER
        exact (fun a b => hcont _ _ _ _ a b h) hi2 he2
      · cases hER
    · extract_lets psq at h
      clear_value psq
      split at h
      · -- star
        have h1 := handleStar_ji hJ cfg psq ext hi1
        have h2 := handleStar_all hP cfg psq it1 hc
        rcases hs : handleStar cfg psq it1 ext with ⟨p3, i3, e3⟩
        rw [hs] at h h1 h2
        exact (fun a b => hcont _ _ _ _ a b h) h1 h2
      · split at h
        · exact (fun a b => hcont _ _ _ _ a b h) hi1 ⟨handleDot_all hP cfg psq it1, hc⟩
        · split at h
          · have h2 := qmarkItem_all hP cfg psq
            rcases hq : qmarkItem cfg psq with ⟨q3, p3⟩
            rw [hq] at h h2
            exact (fun a b => hcont _ _ _ _ a b h) hi1 ⟨h2, hc⟩
          · split at h
            · refine (fun a b => hcont _ _ _ _ a b h) hi1 ⟨hP.sep _, ?_⟩
              show Item.AllL P (match restrictExtendedSlash cfg with
                | some g => Item.re g :: ext
                | none => ext)
              split
              · rename_i g hg
                exact ⟨restrictExtendedSlash_all hP cfg g hg, hc⟩
              · exact hc
            · split at h
              · split at h
                rename_i e3 p3 hcl
                have he3 : Item.AllL P e3 := by
                  split at hcl
                  · have := cleanUpInverse_all hP cfg psq ext tn hc
                    rw [hcl] at this
                    exact this
                  · cases hcl; exact hc
                exact (fun a b => hcont _ _ _ _ a b h) hi1 ⟨trivial, he3⟩
              · split at h
                · split at h
                  · rename_i v i3 p3 hr
                    obtain ⟨hv, hi3⟩ := references_val_lift hP hJ hr hi1
                    exact (fun a b => hcont _ _ _ _ a b h) hi3 ⟨hv, hc⟩
                  · rename_i i3 hr
                    exact (fun a b => hcont _ _ _ _ a b h) (references_dot_lift hr hi1) hc
                  · exact (fun a b => hcont _ _ _ _ a b h) hi1 hc
                · split at h
                  · split at h
                    · rename_i r p3 i3 hsq
                      have hcb : c = '[' := by assumption
                      obtain ⟨hr, hi3⟩ := hseq _ it _ _ _ _ hi (by rw [← hcb]; exact hn) hsq
                      exact (fun a b => hcont _ _ _ _ a b h) hi3 ⟨hr, hc⟩
                    · exact (fun a b => hcont _ _ _ _ a b h) hi1 ⟨hP.lit _, hc⟩
                  · split at h
                    · exact (fun a b => hcont _ _ _ _ a b h) hi1 ⟨hP.lit _, hc⟩
                    · exact (fun a b => hcont _ _ _ _ a b h) hi1 hc

theorem pe_el_liftH (cfg : Cfg) (hseq : SeqOKH P J cfg) :
    ∀ fuel, ExtP P J cfg fuel ∧ ExtLoopP P J cfg fuel := by
  intro fuel
  induction fuel with
  | zero =>
    constructor
    · intro lt it ps cur rd b ps' it' cur' hi hc h
      simp only [parseExtend, Prod.mk.injEq] at h
      obtain ⟨_, _, rfl, rfl⟩ := h
      exact ⟨hi, hc⟩
    · intro it ps ext ta tn ps' it' ext' hi hc h
      simp [extLoop] at h
  | succ n ih => exact ⟨pe_step_lift hP hJ cfg n ih.2, el_step_liftH hP hJ cfg hseq n ih.1 ih.2⟩

/-! ### `root` and `_parse` -/

theorem rootLoop_liftH (cfg : Cfg) (hseq : SeqOKH P J cfg) : ∀ (fuel : Nat) (it : It) (ps : PS)
    (cur : List Item), JI J it → Item.AllL P cur → Item.AllL P (rootLoop cfg fuel it ps cur).2 := by
  intro fuel
  induction fuel with
  | zero => intro it ps cur _ hc; simpa [rootLoop] using hc
  | succ n ih =>
    intro it ps cur hi hc
    unfold rootLoop
    split
    · exact hc
    · rename_i c it1 hn
      have hi1 := JI.next hJ hi hn
      extract_lets extRes
      generalize hER : extRes = er
      simp only [extRes] at hER
      clear extRes
      split
      · rename_i ps2 it2 cur2
        split at hER
        · simp only [Option.some.injEq] at hER
          obtain ⟨hi2, he2⟩ := (pe_el_liftH hP hJ cfg hseq _).1 _ _ _ _ _ _ _ _ _ hi1 hc hER
          exact ih _ _ _ hi2 he2
        · cases hER
      · extract_lets psq
        clear_value psq
        split
        · exact ih _ _ _ hi1 ⟨handleDot_all hP cfg psq it1, hc⟩
        · split
          · have h1 := handleStar_ji hJ cfg psq cur hi1
            have h2 := handleStar_all hP cfg psq it1 hc
            rcases hs : handleStar cfg psq it1 cur with ⟨p3, i3, e3⟩
            rw [hs] at h1 h2
            exact ih _ _ _ h1 h2
          · split
            · have h2 := qmarkItem_all hP cfg psq
              rcases hq : qmarkItem cfg psq with ⟨q3, p3⟩
              rw [hq] at h2
              exact ih _ _ _ hi1 ⟨h2, hc⟩
            · split
              · split
                · split
                  rename_i c3 p3 hcl
                  have h2 := cleanUpInverse_all' hP hcl hc
                  exact ih _ _ _ (JI.consumePathSep hJ cfg hi1) ⟨hP.sepPlus _, h2⟩
                · exact ih _ _ _ hi1 ⟨hP.sep _, hc⟩
              · split
                · split
                  · rename_i v i3 p3 hr
                    obtain ⟨hv, hi3⟩ := references_val_lift hP hJ hr hi1
                    split
                    · split
                      rename_i c4 p4 hcl
                      have h2 := cleanUpInverse_all' hP hcl hc
                      exact ih _ _ _ (JI.consumePathSep hJ cfg hi3) ⟨hv, h2⟩
                    · exact ih _ _ _ hi3 ⟨hv, hc⟩
                  · rename_i i3 hr
                    exact ih _ _ _ (references_dot_lift hr hi1) hc
                  · exact ih _ _ _ hi1 hc
                · split
                  · split
                    · rename_i r p3 i3 hsq
                      have hcb : c = '[' := by assumption
                      obtain ⟨hr, hi3⟩ := hseq _ it _ _ _ _ hi (by rw [← hcb]; exact hn) hsq
                      exact ih _ _ _ hi3 ⟨hr, hc⟩
                    · exact ih _ _ _ hi1 ⟨hP.lit _, hc⟩
                  · exact ih _ _ _ hi1 ⟨hP.lit _, hc⟩

theorem root_liftH (cfg : Cfg) (hseq : SeqOKH P J cfg) (drive : List Char → DriveInfo)
    (hd : DriveP P drive) (pattern : List Char) (ps : PS) (cur : List Item) (hp : J pattern)
    (hc : Item.AllL P cur) (ps' : PS) (cur' : List Item)
    (h : root cfg drive pattern ps cur = .ok (ps', cur')) : Item.AllL P cur' := by
  unfold root at h
  extract_lets ps1 it0 d at h
  have hi0 : JI J it0 := hp
  split at h
  rename_i rs it1 cur1 hsel
  have hsel' : JI J it1 ∧ Item.AllL P cur1 := by
    split at hsel
    · split at hsel
      · rename_i items hitems
        have hitm : Item.AllL P items := hd pattern items hitems
        simp only [Prod.mk.injEq] at hsel
        obtain ⟨_, rfl, rfl⟩ := hsel
        refine ⟨JI.consumePathSep hJ cfg (JI.advance hJ hi0 _), ?_⟩
        have hrev := Item.allL_append (Item.allL_reverse hitm) hc
        split
        · exact ⟨hP.sepPlus _, hrev⟩
        · exact hrev
      · cases hsel; exact ⟨hi0, hc⟩
    · split at hsel
      · cases hsel; exact ⟨hi0, hc⟩
      · cases hsel; exact ⟨hi0, hc⟩
  obtain ⟨hi1, hc1⟩ := hsel'
  split at h
  · cases h
  · extract_lets ps2 cur2 at h
    have hc2 : Item.AllL P cur2 := by
      show Item.AllL P (if _ then _ else _)
      split
      · refine ⟨trivial, ?_, hc1⟩
        show P (if _ then _ else _)
        split
        · exact hP.noWinRoot
        · exact hP.noRoot
      · exact hc1
    have hrl := rootLoop_liftH hP hJ cfg hseq (it1.rest.length + 1) it1 ps2 cur2 hi1 hc2
    split at h
    rename_i ps3 cur3 hrl'
    rw [hrl'] at hrl
    split at h
    rename_i cur4 ps4 hcl
    have hc4 := cleanUpInverse_all' hP hcl hrl
    simp only [Except.ok.injEq, Prod.mk.injEq] at h
    obtain ⟨_, rfl⟩ := h
    split
    · exact ⟨hP.pathTrail _, hc4⟩
    · exact hc4

theorem parsePrepend_liftH (cfg : Cfg) (hseq : SeqOKH P J cfg) (drive : List Char → DriveInfo)
    (hd : DriveP P drive) (ps ps' : PS) (pre : List Item)
    (h : parsePrepend cfg drive ps = .ok (ps', pre)) : Item.AllL P pre := by
  have hstar3 : J ['*', '*', '*'] := hJ.stars3
  have hstar2 : J ['*', '*'] := hJ.suffix ['*'] hstar3
  have hempty : Item.AllL P [Item.empty] := ⟨trivial, trivial⟩
  unfold parsePrepend at h
  split at h
  · split at h
    · exact root_liftH hP hJ cfg hseq drive hd _ _ _ hstar3 hempty _ _ h
    · split at h
      · rename_i ps2 pre2 hr
        cases h
        exact root_liftH hP hJ cfg hseq drive hd _ _ _ hstar2 hempty _ _ hr
      · cases h
  · cases h
    exact hempty

theorem parseBody_liftH (cfg : Cfg) (hseq : SeqOKH P J cfg) (drive : List Char → DriveInfo)
    (hd : DriveP P drive) (p : List Char) (hp : J p) (ps : PS) (pre : List Item)
    (hpre : Item.AllL P pre) (parsed : Parsed)
    (h : parseBody cfg drive p ps pre = .ok parsed) : Item.AllL P parsed.items := by
  have hempty : Item.AllL P [Item.empty] := ⟨trivial, trivial⟩
  unfold parseBody at h
  extract_lets p2 at h
  have hp2 : J p2 := by
    show J (if _ then _ else _)
    split
    · exact hJ.suffix ['*', '*', '*'] (by simpa using hJ.stars3)
    · exact hp
  split at h
  · cases h
  · rename_i ps2 result hr
    have hres : Item.AllL P result := by
      split at hr
      · cases hr; exact hempty
      · exact root_liftH hP hJ cfg hseq drive hd _ _ _ hp2 hempty _ _ hr
    cases h
    apply Item.allL_reverse
    split
    · exact Item.allL_append hres hpre
    · exact hres

/-- **the generic lifting, items**: every regex inside the items `parseItems` returns is `P` -/
theorem parseItems_liftH (cfg : Cfg) (hseq : SeqOKH P J cfg) (drive : List Char → DriveInfo)
    (hd : DriveP P drive) (p : List Char) (hp : J p) (parsed : Parsed)
    (h : parseItems cfg drive p = .ok parsed) : Item.AllL P parsed.items := by
  unfold parseItems at h
  extract_lets ps0 a at h
  have ha : J a.1 := by
    show J (anchorStep cfg p ps0).1
    unfold anchorStep
    split
    · obtain ⟨pre, hpre⟩ := stripAnchor_suffix cfg.winDriveDetect p
      rw [hpre] at hp
      exact hJ.suffix pre hp
    · exact hp
  split at h
  · cases h
  · rename_i ps2 pre hpp
    exact parseBody_liftH hP hJ cfg hseq drive hd _ ha _ _
      (parsePrepend_liftH hP hJ cfg hseq drive hd _ _ _ hpp) _ h

end

/-- **the generic lifting with head information, whole pass** -/
theorem parse_liftH {P : Re → Prop} {J : List Char → Prop} (hP : Lift P) (hJ : TextInv J)
    (cfg : Cfg) (hseq : SeqOKH P J cfg) (drive : List Char → DriveInfo) (hd : DriveP P drive)
    (p : List Char) (hp : J p) (parsed : Parsed) (r : Re)
    (h : parseItems cfg drive p = .ok parsed) (hr : parsed.toRe = some r) :
    ∃ inner, r = .cat .bos (.cat (.flags true parsed.ci inner) .eos) ∧ P inner :=
  toRe_lift hP parsed r (parseItems_liftH hP hJ cfg hseq drive hd p hp parsed h) hr

end WcModel

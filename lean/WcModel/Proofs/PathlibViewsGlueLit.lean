import WcModel.Proofs.PathlibViewsParseLit
import WcModel.Proofs.PathlibViewsGlue
/-
  C16: `compile_pattern` / `Glob.__init__` for a literal pattern `s₁/…/sₖ` (generalises the first
  half of `PathlibViewsGlue`).
-/
namespace WcModel.PathlibViews
open WcModel

theorem compileMatch_emLits (W : Nat) (h : MatchCfgOK W) (segs : List Name) (hp : PlainSegs segs) :
    compileMatch W false [joinSl segs] none =
      .ok { incl := [emLitRe (C09path.globCfg W false) (joinSl segs)],
            excl := if hasBit (globFlagTransform W) Gen.FNODIR then [Frag.noNixDir] else [],
            real := true, follow := false } := by
  have hsh : (joinSl segs).head? ≠ some '/' := joinSl_head segs hp.compOK
  have hpne := joinSl_ne_nil segs hp.ne hp.compOK
  have hone : compileOne (globFlagTransform W) false (joinSl segs) =
      .ok (emLitRe (C09path.globCfg W false) (joinSl segs)) := by
    unfold compileOne compilePart Driver.parsePattern
    rw [Flags.ofNat_toNat]
    have := parseItems_emLits (C09path.globCfg W false) h.pu h.realpath h.cap h.dot h.anchor h.emb h.long
      (winDrive (C09path.globCfg W false)) segs hp
    unfold C09path.globCfg at this
    simp only [this]
    have ht := emItems_toRe (C09path.globCfg W false) h.realpath (joinSl segs) hpne hsh
      (!(C09path.globCfg W false).caseSensitive)
    unfold C09path.globCfg at ht
    simp only [ht]
    rfl
  unfold compileMatch compilePattern
  cases hnd : hasBit (globFlagTransform W) Gen.FNODIR <;>
  simp [compileSeq, hp.not_negative, hone, hnd, h.real, h.follow, h.unixT]

theorem iterPatterns_one' (g : GInit) (nu : Bool) (p : List Char) (hneg : isNegative g.flags p = false) :
    iterPatterns g nu false [] [p] = [(false, p)] := by
  simp only [iterPatterns, hneg, Bool.false_and, Bool.false_eq_true, if_false,
    List.not_mem_nil, Bool.or_false]
  split <;> rfl

theorem build_emLits (g : GInit) (hu : isUnixStyle g.flags = true) (hem : g.flags.extmatchbase = true)
    (segs : List Name) (hp : PlainSegs segs) :
    ∃ nu, GlobObj.build g (some [[joinSl segs]]) none =
      .ok { pattern := [basePart (SplitCfg.ofFlags g.flags g.isBytes) :: litParts segs],
            npatterns := if g.nodir then [Frag.noNixDir] else [], nounique := nu } := by
  unfold GlobObj.build
  simp only
  unfold parsePatterns
  simp only [List.flatten_cons, List.flatten_nil, List.append_nil, iterPatterns_one' g _ _ (hp.not_negative g.flags),
    parseItemsInto, globSplit_lits g.flags g.isBytes segs hp hu hem, List.nil_append, List.isEmpty_cons, Bool.false_and,
    Bool.false_eq_true, if_false, Bool.not_false, Bool.and_true]
  cases g.nodir <;> simp only [Bool.false_eq_true, if_false, if_true] <;>
  (by_cases hc : (true && decide ([basePart (SplitCfg.ofFlags g.flags g.isBytes) :: litParts segs].length ≤ 1) &&
      !g.flags.nodotdir && !g.nouniqueFlag && !(g.pathlib && g.scandotdir)) = true
   · rw [if_pos hc]; exact ⟨_, rfl⟩
   · rw [if_neg hc]; exact ⟨_, rfl⟩)

end WcModel.PathlibViews

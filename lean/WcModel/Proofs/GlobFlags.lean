import WcModel.Model.GlobWalk
/-
  The follow-flag table of C06, from the generated flag values: for **every** user flag word
  `n`, `Glob.follow_links = FOLLOW ∧ ¬GLOBSTARLONG`; the implicit MATCHBASE part is `***`
  exactly under GLOBSTARLONG ∧ FOLLOW; and on this host the walker always uses Unix rules.
-/
namespace WcModel

/-! ### the generated flag values are the single bits the proofs below name -/
theorem gen_FOLLOW : Gen.FFOLLOW = 2 ^ 11 := by decide
theorem gen_GLOBSTARLONG : Gen.FGLOBSTARLONG = 2 ^ 21 := by decide
theorem gen_FORCEWIN : Gen.FFORCEWIN = 2 ^ 16 := by decide
theorem gen_REALPATH : Gen.FREALPATH = 2 ^ 10 := by decide
theorem gen_host_not_windows : hostIsWindows = false := by decide

theorem and_two_pow' (n k : Nat) : n &&& 2 ^ k = if n.testBit k then 2 ^ k else 0 := by
  apply Nat.eq_of_testBit_eq; intro i
  rw [Nat.testBit_and, Nat.testBit_two_pow]
  by_cases h : k = i
  · subst h; cases hb : n.testBit k <;> simp
  · cases hb : n.testBit k <;> simp [h]

theorem hasBit_pow (n k : Nat) : hasBit n (2 ^ k) = n.testBit k := by
  unfold hasBit
  show (n &&& 2 ^ k != 0) = n.testBit k
  rw [and_two_pow']
  cases h : n.testBit k <;> simp

theorem tb_xor {n b k : Nat} (h : b.testBit k = false) : (n ^^^ b).testBit k = n.testBit k := by
  simp [Nat.testBit_xor, h]
theorem tb_or {n b k : Nat} (h : b.testBit k = false) : (n ||| b).testBit k = n.testBit k := by
  simp [Nat.testBit_or, h]
theorem tb_and {n b k : Nat} (h : b.testBit k = true) : (n &&& b).testBit k = n.testBit k := by
  simp [Nat.testBit_and, h]
theorem tb_clearIf {n b k : Nat} (h : b.testBit k = false) : (clearIf n b).testBit k = n.testBit k := by
  unfold clearIf; split
  · exact tb_xor h
  · rfl

/-- the bits `Glob.__init__` and `_flag_transform` may change -/
def touched : List Nat :=
  [Gen.FNEGATE, Gen.FNEGATEALL, Gen.globMARK, Gen.FNODIR, Gen.globPATHLIB, Gen.FREALPATH,
   Gen.FFORCEWIN ||| Gen.FFORCEUNIX, Gen.FPATHNAME, Gen.FFORCEWIN, Gen.FFORCEUNIX, Gen.FNODOTDIR]

/-- a bit inside `glob.FLAG_MASK` that is none of the touched ones passes through
    `_flag_transform` unchanged -/
theorem tb_transform {n k : Nat} (hm : Gen.globFlagMask.testBit k = true)
    (hs : ∀ c ∈ touched, Nat.testBit c k = false) :
    (globFlagTransform n).testBit k = n.testBit k := by
  have h1 := hs (Gen.FFORCEWIN ||| Gen.FFORCEUNIX) (by simp [touched])
  have h2 := hs Gen.FPATHNAME (by simp [touched])
  have h3 := hs Gen.FFORCEWIN (by simp [touched])
  unfold globFlagTransform
  simp only [gen_host_not_windows, Bool.false_eq_true, if_false]
  split <;> split <;> simp [tb_clearIf, hm, h1, h2, h3]

theorem tb_initStrip {n k : Nat} (ex : Bool) (hs : ∀ c ∈ touched, Nat.testBit c k = false) :
    (initStrip n ex).testBit k = n.testBit k := by
  unfold initStrip noNegateFlags
  cases ex
  · rfl
  · simp only [if_true]
    rw [tb_clearIf (hs _ (by simp [touched])), tb_clearIf (hs _ (by simp [touched]))]

theorem tb_initWord0 {n k : Nat} (hm : Gen.globFlagMask.testBit k = true)
    (hs : ∀ c ∈ touched, Nat.testBit c k = false) : (initWord0 n).testBit k = n.testBit k := by
  unfold initWord0
  rw [tb_transform hm hs, tb_or (hs _ (by simp [touched])), tb_clearIf (hs _ (by simp [touched])),
    tb_clearIf (hs _ (by simp [touched])), tb_clearIf (hs _ (by simp [touched])),
    tb_clearIf (hs _ (by simp [touched]))]

theorem tb_initWord {n k : Nat} (hm : Gen.globFlagMask.testBit k = true)
    (hs : ∀ c ∈ touched, Nat.testBit c k = false) : (initWord n).testBit k = n.testBit k := by
  unfold initWord
  split
  · rw [tb_or (hs _ (by simp [touched])), tb_initWord0 hm hs]
  · exact tb_initWord0 hm hs

/-- **`follow_links := FOLLOW ∧ ¬GLOBSTARLONG`, for every flag word** (glob.py 440-442) -/
theorem followLinks_table (n : Nat) (ex b fd : Bool) :
    (GInit.ofNat n ex b fd).followLinks = (hasBit n Gen.FFOLLOW && !hasBit n Gen.FGLOBSTARLONG) := by
  simp only [GInit.followLinks, GInit.ofNat, Flags.ofNat]
  rw [gen_FOLLOW, gen_GLOBSTARLONG, hasBit_pow, hasBit_pow, hasBit_pow, hasBit_pow,
    tb_initWord (by decide) (by decide), tb_initWord (by decide) (by decide),
    tb_initStrip ex (by decide), tb_initStrip ex (by decide)]

/-- `_flag_transform(flags | REALPATH)` on this host never leaves FORCEWIN set -/
theorem transform_clears_forcewin (m : Nat) :
    (globFlagTransform (m ||| Gen.FREALPATH)).testBit 16 = false := by
  have key : ∀ x : Nat, hasBit (x &&& Gen.globFlagMask ||| Gen.FPATHNAME) Gen.FREALPATH = x.testBit 10 := by
    intro x
    rw [gen_REALPATH, hasBit_pow, tb_or (by decide), tb_and (by decide)]
  have hclr : ∀ x : Nat, (clearIf x Gen.FFORCEWIN).testBit 16 = false := by
    intro x
    unfold clearIf
    rw [gen_FORCEWIN, hasBit_pow]
    cases h : x.testBit 16
    · simp [h]
    · have : Nat.testBit (2 ^ 16) 16 = true := by decide
      simp [Nat.testBit_xor, h, this]
  have tail : ∀ y : Nat, y.testBit 10 = true →
      (if hasBit (y &&& Gen.globFlagMask ||| Gen.FPATHNAME) Gen.FREALPATH = true then
          clearIf (y &&& Gen.globFlagMask ||| Gen.FPATHNAME) Gen.FFORCEWIN
        else y &&& Gen.globFlagMask ||| Gen.FPATHNAME).testBit 16 = false := by
    intro y hy
    rw [key, hy]
    simp only [if_true]
    exact hclr _
  have h10 : (m ||| Gen.FREALPATH).testBit 10 = true := by
    have : Gen.FREALPATH.testBit 10 = true := by decide
    simp [Nat.testBit_or, this]
  unfold globFlagTransform
  simp only [gen_host_not_windows, Bool.false_eq_true, if_false]
  apply tail
  split
  · rw [tb_xor (by decide)]; exact h10
  · exact h10

/-- on this host the walker always splits and matches with Unix rules (glob.py 114-121, 438) -/
theorem unix_on_this_host (n : Nat) (ex b fd : Bool) : isUnixStyle (GInit.ofNat n ex b fd).flags = true := by
  have hw : (GInit.ofNat n ex b fd).flags.forcewin = false := by
    simp only [GInit.ofNat, Flags.ofNat]
    rw [gen_FORCEWIN, hasBit_pow]
    unfold initWord
    split
    · rw [tb_or (by decide)]; exact transform_clears_forcewin _
    · exact transform_clears_forcewin _
  unfold isUnixStyle
  simp [hw, gen_host_not_windows]

/-- the MATCHBASE / `_EXTMATCHBASE` implicit part follows links iff GLOBSTARLONG ∧ FOLLOW
    (glob.py 374-380) — the one place where FOLLOW still matters under GLOBSTARLONG -/
theorem basePart_long (c : SplitCfg) :
    (basePart c).isGlobstarLong = (c.flags.globstarlong && c.flags.follow) ∧
    (basePart c).isGlobstar = true ∧ (basePart c).isMagic = true ∧ (basePart c).dirOnly = true := by
  unfold basePart SplitCfg.globstarlong
  split <;> simp_all

theorem gen_NODOTDIR : Gen.FNODOTDIR = 2 ^ 20 := by decide

/-- NODOTDIR is forced unless SCANDOTDIR (glob.py 434-435), for every flag word -/
theorem nodotdir_forced (n : Nat) (ex b fd : Bool) (h : (GInit.ofNat n ex b fd).scandotdir = false) :
    (GInit.ofNat n ex b fd).flags.nodotdir = true := by
  simp only [GInit.ofNat] at h
  simp only [GInit.ofNat, Flags.ofNat]
  unfold initWord
  rw [h]
  simp only [Bool.not_false, Bool.true_and]
  cases hb : hasBit (initWord0 (initStrip n ex)) Gen.FNODOTDIR with
  | true => simp [hb]
  | false =>
    simp only [Bool.not_false, if_true]
    rw [gen_NODOTDIR, hasBit_pow]
    have : Nat.testBit (2 ^ 20) 20 = true := by decide
    simp [Nat.testBit_or, this]

theorem parseItemsInto_nounique (g : GInit) :
    ∀ (items : List (Bool × List Char)) (o o' : GlobObj), parseItemsInto g items o = .ok o' →
      o'.nounique = o.nounique := by
  intro items
  induction items with
  | nil => intro o o' h; simp [parseItemsInto] at h; rw [h]
  | cons it rest ih =>
    intro o o' h
    obtain ⟨neg, p⟩ := it
    cases neg with
    | true =>
      simp only [parseItemsInto] at h
      split at h
      · cases h
      · have := ih _ _ h; simpa using this
    | false =>
      simp only [parseItemsInto] at h
      split at h
      · cases h
      · have := ih _ _ h; simpa using this

/-- the "single pattern ⇒ no seen set" shortcut of `_parse_patterns` (539-546) is taken only
    when NODOTDIR is not in force -/
theorem shortcut_needs_no_nodotdir (g : GInit) (exps : List (List (List Char))) (fn : Bool) (o o' : GlobObj)
    (hn : g.flags.nodotdir = true) (h : parsePatterns g exps fn o = .ok o') : o'.nounique = o.nounique := by
  unfold parsePatterns at h
  split at h
  · cases h
  · rename_i o1 h1
    have e1 : o1.nounique = o.nounique := parseItemsInto_nounique g _ _ _ h1
    split at h
    · cases h
    · rename_i o2 h2
      have e2 : o2.nounique = o1.nounique := by
        split at h2
        · cases hs : globSplit { g.flags with globstar := true } g.isBytes ['*', '*'] with
          | error e => simp [hs, Except.map] at h2
          | ok ps => simp [hs, Except.map] at h2; subst h2; rfl
        · cases h2; rfl
      have hcond : ∀ (x : GlobObj), (!fn && decide (x.pattern.length ≤ 1) && !g.flags.nodotdir && !x.nounique &&
          !(g.pathlib && g.scandotdir)) = false := by
        intro x; simp [hn]
      simp only [hcond, Bool.false_eq_true, if_false] at h
      split at h <;> cases h <;> simp [e1, e2]

end WcModel

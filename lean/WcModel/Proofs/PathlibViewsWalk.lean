import WcModel.Proofs.PathlibViewsMatch
import WcModel.Properties.C05split
/-
  C16, the walker side of `match` ⇔ `rglob` for literal one-segment patterns, and the two sides
  joined (`matchReal_emLit_iff_denotes`): on a well-formed tree, for a clean relative path `q`,

      the `_EXTMATCHBASE` matcher object of the literal pattern `s` accepts `q` under REALPATH
        ⇔  the split pattern `[**, s]` denotes `q`  (`Spec/Denotes.lean`)

  both being: `q = d₁/…/dₙ/s` exists, every `dᵢ` is visible, no `d₁/…/dᵢ` is a symbolic link.
-/
namespace WcModel.PathlibViews
open WcModel

/-! ### string-level resolution of a path given by its components -/

theorem base_joinSl (fs : FS) (comps : List Name) (hc : ∀ c ∈ comps, CompOK c) :
    fs.base (joinSl comps) = some fs.cwd := base_rel (joinSl_head comps hc)

theorem resolve_joinSl (fs : FS) (comps : List Name) (hne : comps ≠ []) (hc : ∀ c ∈ comps, CompOK c) :
    fs.resolve (joinSl comps) = fs.steps (some fs.cwd) comps := by
  unfold FS.resolve
  rw [base_joinSl fs comps hc, splitSlash_joinSl comps hne hc]

theorem lexists_joinSl (fs : FS) (pre : List Name) (d : Name) (hpre : ∀ c ∈ pre, CompOK c) (hd : CompOK d) :
    fs.lexists (joinSl (pre ++ [d])) = fs.lstep (fs.steps (some fs.cwd) pre) d := by
  have hc : ∀ c ∈ pre ++ [d], CompOK c := by
    intro c h
    rcases List.mem_append.mp h with h | h
    · exact hpre c h
    · simp only [List.mem_singleton] at h; subst h; exact hd
  unfold FS.lexists
  rw [base_joinSl fs _ hc, splitSlash_joinSl _ (by simp) hc]
  simp

theorem islink_joinSl (fs : FS) (pre : List Name) (d : Name) (hpre : ∀ c ∈ pre, CompOK c) (hd : CompOK d) :
    fs.islink (joinSl (pre ++ [d])) = fs.linkstep (fs.steps (some fs.cwd) pre) d := by
  have hc : ∀ c ∈ pre ++ [d], CompOK c := by
    intro c h
    rcases List.mem_append.mp h with h | h
    · exact hpre c h
    · simp only [List.mem_singleton] at h; subst h; exact hd
  unfold FS.islink
  rw [base_joinSl fs _ hc, splitSlash_joinSl _ (by simp) hc]
  simp

/-- no component of `ds`, reached from `l`, is itself a symbolic link -/
def NoLinks (fs : FS) : Loc → List Name → Prop
  | _, [] => True
  | l, d :: r => fs.linkstep l d = false ∧ NoLinks fs (fs.step l d) r

theorem noLinks_iff (fs : FS) : ∀ (ds pre : List Name), (∀ c ∈ ds, CompOK c) → (∀ c ∈ pre, CompOK c) →
    ((∀ i, i < ds.length → fs.islink (joinSl (pre ++ ds.take (i + 1))) = false) ↔
      NoLinks fs (fs.steps (some fs.cwd) pre) ds) := by
  intro ds
  induction ds with
  | nil => intro pre _ _; simp [NoLinks]
  | cons d r ih =>
    intro pre hds hpre
    have hd := hds d List.mem_cons_self
    have hpre' : ∀ x ∈ pre ++ [d], CompOK x := by
      intro x hx
      rcases List.mem_append.mp hx with h | h
      · exact hpre x h
      · simp only [List.mem_singleton] at h; subst h; exact hd
    have ih' := ih (pre ++ [d]) (fun x hx => hds x (List.mem_cons_of_mem _ hx)) hpre'
    rw [steps_append] at ih'
    simp only [FS.steps] at ih'
    simp only [NoLinks, ← ih', ← islink_joinSl fs pre d hpre hd]
    constructor
    · intro h
      refine ⟨by simpa using h 0 (by simp), fun i hi => ?_⟩
      have := h (i + 1) (by simpa using hi)
      simpa [List.append_assoc] using this
    · rintro ⟨h0, h1⟩ i hi
      cases i with
      | zero => simpa using h0
      | succ i' =>
        have := h1 i' (by simpa using hi)
        simpa [List.append_assoc] using this

/-! ### walking down real directories -/

/-- from `l`, the names `ds` are entries `**` descends into (directories, visible, not links
    unless FOLLOW), one below the other, ending at `l'` -/
def Walk (fs : FS) (c : WalkCfg) : Loc → List Name → Loc → Prop
  | l, [], l' => l' = l
  | l, d :: r, l' => ∃ o, o ∈ entriesOf fs ⟨[], l⟩ ∧ o.name = d ∧ descends c false o = true ∧ Walk fs c o.loc r l'

theorem entriesOf_path (fs : FS) (p q : List Char) (l : Loc) : entriesOf fs ⟨p, l⟩ = entriesOf fs ⟨q, l⟩ := rfl

theorem Walk.below {fs : FS} {c : WalkCfg} : ∀ {ds : List Name} {l l' : Loc} (p : List Char),
    Walk fs c l ds l' → Below fs c false ⟨p, l⟩ ⟨ds.foldl pjoin p, l'⟩ := by
  intro ds
  induction ds with
  | nil => intro l l' p h; cases h; exact Below.here _
  | cons d r ih =>
    intro l l' p h
    obtain ⟨o, ho, hn, hd, hw⟩ := h
    subst hn
    have h1 : Below fs c false ⟨p, l⟩ ⟨pjoin p o.name, o.loc⟩ := Below.step (d := ⟨p, l⟩) ho hd
    exact Below.trans h1 (ih (pjoin p o.name) hw)

theorem Walk.snoc {fs : FS} {c : WalkCfg} : ∀ {ds : List Name} {l l1 : Loc} {o : Offer},
    Walk fs c l ds l1 → o ∈ entriesOf fs ⟨[], l1⟩ → descends c false o = true → Walk fs c l (ds ++ [o.name]) o.loc := by
  intro ds
  induction ds with
  | nil => intro l l1 o h ho hd; cases h; exact ⟨o, ho, rfl, hd, rfl⟩
  | cons d r ih =>
    intro l l1 o h ho hd
    obtain ⟨o', ho', hn, hd', hw⟩ := h
    exact ⟨o', ho', hn, hd', ih hw ho hd⟩

theorem below_walk {fs : FS} {c : WalkCfg} {d d' : Dir} (h : Below fs c false d d') :
    ∃ ds, Walk fs c d.loc ds d'.loc ∧ d'.path = ds.foldl pjoin d.path := by
  induction h with
  | here => exact ⟨[], rfl, rfl⟩
  | @down d1 o _ ho hd ih =>
    obtain ⟨ds, hw, hp⟩ := ih
    refine ⟨ds ++ [o.name], hw.snoc ho hd, ?_⟩
    simp [List.foldl_append, hp]

/-- an entry of the directory at `l`, unfolded -/
theorem mem_entriesOf {fs : FS} {p : List Char} {l : Loc} {o : Offer} (h : o ∈ entriesOf fs ⟨p, l⟩) :
    ∃ rp es n nd, l = some rp ∧ fs.top.get rp = some (.dir es) ∧ (n, nd) ∈ es ∧
      o = ⟨n, fs.nodeIsDir rp n nd, childLoc rp n nd, fs.nodeIsDir rp n nd && nd.isLinkNode⟩ := by
  unfold entriesOf at h
  cases hsc : fs.scandir l with
  | none => simp [hsc] at h
  | some dsn =>
    simp only [hsc, List.mem_map] at h
    obtain ⟨x, hx, rfl⟩ := h
    obtain ⟨rp, es, hl, hg, hds⟩ := FS.scandir_some hsc
    subst hds
    obtain ⟨⟨n, nd⟩, hmem, rfl⟩ := List.mem_map.1 hx
    exact ⟨rp, es, n, nd, hl, hg, hmem, rfl⟩

theorem of_entry {fs : FS} {rp : RPath} {es : List (Name × Node)} {n : Name} {nd : Node}
    (hg : fs.top.get rp = some (.dir es)) (hm : (n, nd) ∈ es) (p : List Char) :
    (⟨n, fs.nodeIsDir rp n nd, childLoc rp n nd, fs.nodeIsDir rp n nd && nd.isLinkNode⟩ : Offer) ∈
      entriesOf fs ⟨p, some rp⟩ := by
  unfold entriesOf FS.scandir
  have he : fs.entries (some rp) = some es := by simp [FS.entries, hg]
  simp only [he, List.mem_map]
  exact ⟨⟨n, fs.nodeIsDir rp n nd, fs.nodeIsDir rp n nd && nd.isLinkNode, childLoc rp n nd⟩,
    ⟨(n, nd), hm, rfl⟩, rfl⟩

theorem isHidden_false (n : Name) : isHidden false n = decide (n.head? = some '.') := by
  unfold isHidden
  cases h : n.head? with
  | none => simp
  | some c => by_cases hc : c = '.' <;> simp [hc]

/-- **a walk, read at the string level** (well-formed tree): the names are proper, visible
    components, stepping through them leads where the walk leads, and none is a link -/
theorem Walk.facts {fs : FS} (hwf : fs.WFTree) {c : WalkCfg} (hdot : c.dot = false) (hfl : c.followLinks = false) :
    ∀ {ds : List Name} {l l' : Loc}, Walk fs c l ds l' →
      fs.steps l ds = l' ∧ NoLinks fs l ds ∧ (∀ d ∈ ds, CompOK d ∧ d.head? ≠ some '.') ∧
      (ds ≠ [] → fs.locIsDir l' = true) := by
  intro ds
  induction ds with
  | nil => intro l l' h; cases h; exact ⟨rfl, trivial, by simp, fun h => absurd rfl h⟩
  | cons d r ih =>
    intro l l' h
    obtain ⟨o, ho, hn, hd, hw⟩ := h
    obtain ⟨rp, es, n, nd, hl, hg, hmem, rfl⟩ := mem_entriesOf ho
    subst hn
    subst hl
    obtain ⟨hn1, hn2, hn3, hn4⟩ := hwf.names rp es hg (n, nd) hmem
    have hfind := findEntry_of_nodup hmem (hwf.nodup rp es hg)
    have hent : fs.entries (some rp) = some es := by simp [FS.entries, hg]
    have hstep : fs.step (some rp) n = childLoc rp n nd := by
      simp [FS.step, hent, hn1, hn2, hn3, hfind]
    simp only [descends, hdot, hfl, Bool.or_false, Bool.and_eq_true, Bool.not_eq_true',
      Bool.and_eq_false_imp] at hd
    obtain ⟨⟨hdir, hhid⟩, hlk⟩ := hd
    have hnl : nd.isLinkNode = false := by
      cases hx : nd.isLinkNode with
      | false => rfl
      | true => rw [hdir, hx] at hlk; simp at hlk
    have hlink : fs.linkstep (some rp) n = false := by
      cases nd with
      | link t => simp [Node.isLinkNode] at hnl
      | file => simp [FS.linkstep, hent, hn1, hn2, hn3, hfind]
      | dir es' => simp [FS.linkstep, hent, hn1, hn2, hn3, hfind]
    obtain ⟨i1, i2, i3, i4⟩ := ih hw
    refine ⟨by simp only [FS.steps, hstep]; exact i1, ⟨hlink, by rw [hstep]; exact i2⟩, ?_, ?_⟩
    · intro x hx
      rcases List.mem_cons.mp hx with rfl | hx
      · refine ⟨⟨hn1, hn4⟩, ?_⟩
        rw [isHidden_false] at hhid
        simpa using hhid
      · exact i3 x hx
    · intro _
      by_cases hr : r = []
      · subst hr
        cases hw
        simpa [FS.nodeIsDir] using hdir
      · exact i4 hr

theorem steps_none (fs : FS) (ds : List Name) : fs.steps none ds = none := by
  induction ds with
  | nil => rfl
  | cons d r ih => simp [FS.steps, FS.step, ih]

theorem locIsDir_of_steps (fs : FS) (l : Loc) (ds : List Name) (hne : ds ≠ [])
    (h : fs.steps l ds ≠ none) : fs.locIsDir l = true := by
  cases ds with
  | nil => exact absurd rfl hne
  | cons d r =>
    simp only [FS.steps] at h
    have h1 : fs.step l d ≠ none := by
      intro e; rw [e, steps_none] at h; exact h rfl
    cases l with
    | none => exact absurd rfl h1
    | some rp =>
      unfold FS.locIsDir
      cases he : fs.entries (some rp) with
      | none => exact absurd (step_of_not_dir fs rp d he) h1
      | some es => rfl

/-- **the converse**: proper visible names that resolve, none of them a link, are a walk -/
theorem walk_of_facts {fs : FS} {c : WalkCfg} (hdot : c.dot = false) :
    ∀ (ds : List Name) (l : Loc), (∀ d ∈ ds, CompOK d ∧ d.head? ≠ some '.') → NoLinks fs l ds →
      fs.locIsDir (fs.steps l ds) = true → Walk fs c l ds (fs.steps l ds) := by
  intro ds
  induction ds with
  | nil => intro l _ _ _; rfl
  | cons d r ih =>
    intro l hds hnl hdir
    obtain ⟨⟨hd1, hd2⟩, hd3⟩ := hds d List.mem_cons_self
    obtain ⟨hl0, hl1⟩ := hnl
    simp only [FS.steps] at hdir ⊢
    have hsome : fs.steps (fs.step l d) r ≠ none := by
      intro e; rw [e] at hdir; simp [FS.locIsDir, FS.entries] at hdir
    have hstep : fs.step l d ≠ none := by
      intro e; rw [e, steps_none] at hsome; exact hsome rfl
    cases l with
    | none => exact absurd rfl hstep
    | some rp =>
      have hdne : d ≠ dot ∧ d ≠ dotdot := by
        constructor <;> (intro e; subst e; simp [dot, dotdot] at hd3)
      cases he : fs.entries (some rp) with
      | none => exact absurd (step_of_not_dir fs rp d he) hstep
      | some es =>
        obtain ⟨rp', hrp, hget⟩ := FS.entries_some he
        cases hrp
        cases hf : findEntry d es with
        | none => simp [FS.step, he, hd1, hdne.1, hdne.2, hf] at hstep
        | some nd =>
          have hst : fs.step (some rp) d = childLoc rp d nd := by
            simp [FS.step, he, hd1, hdne.1, hdne.2, hf]
          have hnl : nd.isLinkNode = false := by
            cases nd with
            | link t => simp [FS.linkstep, he, hd1, hdne.1, hdne.2, hf] at hl0
            | file => rfl
            | dir _ => rfl
          have hisdir : fs.nodeIsDir rp d nd = true := by
            unfold FS.nodeIsDir
            rw [← hst]
            by_cases hr : r = []
            · subst hr; simpa [FS.steps] using hdir
            · exact locIsDir_of_steps fs _ r hr hsome
          refine ⟨_, of_entry hget (findEntry_mem hf) [], rfl, ?_, ?_⟩
          · simp only [descends, hisdir, hnl, hdot, isHidden_false]
            simp [hd3]
          · simp only
            rw [← hst]
            exact ih _ (fun x hx => hds x (List.mem_cons_of_mem _ hx)) hl1 hdir

/-! ### what the split pattern `[**, s]` denotes -/

/-- the literal last part of the split pattern (`dir_only = False`: no trailing separator) -/
def litPart (s : List Char) : GPart := ⟨.lit s, false, false, false, false, false⟩

theorem joinSl_inj (a b : List Name) (ha : ∀ c ∈ a, CompOK c) (hb : ∀ c ∈ b, CompOK c) (hane : a ≠ [])
    (hbne : b ≠ []) (h : joinSl a = joinSl b) : a = b := by
  rw [← splitSlash_joinSl a hane ha, ← splitSlash_joinSl b hbne hb, h]

theorem lstep_iff_entry {fs : FS} (hwf : fs.WFTree) (l : Loc) (s : Name) (hs : CompOK s)
    (hsd : s ≠ dot ∧ s ≠ dotdot) :
    fs.lstep l s = true ↔ ∃ o, o ∈ entriesOf fs ⟨[], l⟩ ∧ o.name = s := by
  constructor
  · intro h
    unfold FS.lstep at h
    cases he : fs.entries l with
    | none => simp [he] at h
    | some es =>
      obtain ⟨rp, rfl, hget⟩ := FS.entries_some he
      simp only [he, hs.1, hsd.1, hsd.2, or_self, if_false] at h
      cases hf : findEntry s es with
      | none => simp [hf] at h
      | some nd => exact ⟨_, of_entry hget (findEntry_mem hf) [], rfl⟩
  · rintro ⟨o, ho, rfl⟩
    obtain ⟨rp, es, n, nd, rfl, hg, hmem, rfl⟩ := mem_entriesOf ho
    have hfind := findEntry_of_nodup hmem (hwf.nodup rp es hg)
    have hent : fs.entries (some rp) = some es := by simp [FS.entries, hg]
    simp only at hs hsd
    simp [FS.lstep, hent, hs.1, hsd.1, hsd.2, hfind]

/-- **what `[**, s]` denotes on a well-formed tree** (no DOTMATCH, case-sensitive, no FOLLOW, the
    implicit part is `**` not `***`): the clean paths `d₁/…/dₙ/s` that exist, whose `dᵢ` are
    visible, and none of whose prefixes `d₁/…/dᵢ` is a symbolic link -/
theorem denotes_emLit (fs : FS) (hwf : fs.WFTree) (c : WalkCfg)
    (hdot : c.dot = false) (hcs : c.caseSensitive = true) (hfl : c.followLinks = false)
    (bp : GPart) (hbm : bp.isMagic = true) (hbg : bp.isGlobstar = true) (hbl : bp.isGlobstarLong = false)
    (s : Name) (hs : CompOK s) (hsd : s ≠ dot ∧ s ≠ dotdot)
    (comps : List Name) (hne : comps ≠ []) (hc : ∀ x ∈ comps, CompOK x) :
    (∃ v, DenotesTop fs c [bp, litPart s] v ∧ v.path = joinSl comps) ↔
      ∃ ds, comps = ds ++ [s] ∧ (∀ d ∈ ds, d.head? ≠ some '.') ∧ fs.lexists (joinSl comps) = true ∧
        ∀ i, i < ds.length → fs.islink (joinSl (ds.take (i + 1))) = false := by
  have hstar : bp.isStar = true := by simp [GPart.isStar, hbm, hbg]
  constructor
  · rintro ⟨v, hv, hp⟩
    cases hv with
    | magic _ hden =>
      cases hden with
      | inner hns _ _ _ _ => rw [hstar] at hns; cases hns
      | @starLast _ _ _ d' o _ hb ho hseg _ =>
        rw [hbl] at hb
        obtain ⟨ds, hw, hpath⟩ := below_walk hb
        simp only [FS.rootDir] at hw hpath
        obtain ⟨f1, f2, f3, _⟩ := hw.facts hwf hdot hfl
        have hds : ∀ d ∈ ds, CompOK d := fun d hd => (f3 d hd).1
        rw [joinSl_foldl ds hds] at hpath
        have hname : o.name = s := by
          simpa [segOK, litPart, hcs] using hseg
        have hvp : joinSl comps = joinSl (ds ++ [s]) := by
          rw [← hp, joinSl_pjoin ds s hds hs]
          simp [Offer.toY, hpath, hname]
        have hall : ∀ x ∈ ds ++ [s], CompOK x := by
          intro x hx
          rcases List.mem_append.mp hx with h | h
          · exact hds x h
          · simp only [List.mem_singleton] at h; subst h; exact hs
        have hcomps := joinSl_inj comps (ds ++ [s]) hc hall hne (by simp) hvp
        refine ⟨ds, hcomps, fun d hd => (f3 d hd).2, ?_, ?_⟩
        · rw [hcomps, lexists_joinSl fs ds s hds hs, f1]
          have hoe : o ∈ entriesOf fs ⟨[], d'.loc⟩ := by
            unfold offered at ho
            split at ho
            · simp only [List.cons_append, List.nil_append, List.mem_cons] at ho
              rcases ho with rfl | rfl | ho
              · exact absurd hname.symm hsd.1
              · exact absurd hname.symm hsd.2
              · exact ho
            · cases ho
          exact (lstep_iff_entry hwf _ s hs hsd).mpr ⟨o, hoe, hname⟩
        · have := (noLinks_iff fs ds [] hds (fun _ h => by cases h)).mpr (by simpa [FS.steps] using f2)
          simpa using this
    | writtenThen hnm _ _ => rw [hbm] at hnm; cases hnm
    | nameThen hnm _ _ _ _ _ _ => rw [hbm] at hnm; cases hnm
  · rintro ⟨ds, rfl, hvis, hex, hlinks⟩
    have hds : ∀ d ∈ ds, CompOK d := fun d hd => hc d (List.mem_append_left _ hd)
    rw [lexists_joinSl fs ds s hds hs] at hex
    obtain ⟨o, hoe, hname⟩ := (lstep_iff_entry hwf _ s hs hsd).mp hex
    have hdirL : fs.locIsDir (fs.steps (some fs.cwd) ds) = true := by
      unfold entriesOf at hoe
      cases hsc : fs.scandir (fs.steps (some fs.cwd) ds) with
      | none => simp [hsc] at hoe
      | some dsn => exact FS.locIsDir_iff.2 ⟨dsn, hsc⟩
    have hnl : NoLinks fs (some fs.cwd) ds := by
      have := (noLinks_iff fs ds [] hds (fun _ h => by cases h)).mp (by simpa using hlinks)
      simpa [FS.steps] using this
    have hw := walk_of_facts (c := c) hdot ds (some fs.cwd) (fun d hd => ⟨hds d hd, hvis d hd⟩) hnl hdirL
    have hb : Below fs c false fs.rootDir ⟨ds.foldl pjoin [], fs.steps (some fs.cwd) ds⟩ := hw.below []
    rw [joinSl_foldl ds hds] at hb
    refine ⟨o.toY ⟨joinSl ds, fs.steps (some fs.cwd) ds⟩, DenotesTop.magic hbm ?_, ?_⟩
    · refine Denotes.starLast hstar (by rw [hbl]; exact hb) (entriesOf_sub_offered hoe) ?_ ?_
      · simp [segOK, litPart, hcs, hname]
      · intro h; cases h
    · simp only [Offer.toY, hname]
      exact (joinSl_pjoin ds s hds hs).symm

theorem Walk.names_mem {fs : FS} {c : WalkCfg} : ∀ {ds : List Name} {l l' : Loc}, Walk fs c l ds l' →
    ∀ d ∈ ds, ∃ rp es nd, fs.top.get rp = some (.dir es) ∧ (d, nd) ∈ es := by
  intro ds
  induction ds with
  | nil => intro l l' _ d hd; cases hd
  | cons a r ih =>
    intro l l' h d hd
    obtain ⟨o, ho, hn, _, hw⟩ := h
    rcases List.mem_cons.mp hd with rfl | hd
    · obtain ⟨rp, es, n, nd, _, hg, hmem, rfl⟩ := mem_entriesOf ho
      subst hn
      exact ⟨rp, es, nd, hg, hmem⟩
    · exact ih hw d hd

/-- every path `[**, s]` denotes is clean: visible directory names of the tree, then `s` -/
theorem denotes_emLit_path (fs : FS) (hwf : fs.WFTree) (c : WalkCfg)
    (hdot : c.dot = false) (hcs : c.caseSensitive = true) (hfl : c.followLinks = false)
    (bp : GPart) (hbm : bp.isMagic = true) (hbg : bp.isGlobstar = true) (hbl : bp.isGlobstarLong = false)
    (s : Name) (hs : CompOK s) (v : Y) (hv : DenotesTop fs c [bp, litPart s] v) :
    ∃ ds, v.path = joinSl (ds ++ [s]) ∧ (∀ d ∈ ds, CompOK d ∧ d.head? ≠ some '.') ∧
      ∀ d ∈ ds, ∃ rp es nd, fs.top.get rp = some (.dir es) ∧ (d, nd) ∈ es := by
  have hstar : bp.isStar = true := by simp [GPart.isStar, hbm, hbg]
  cases hv with
  | magic _ hden =>
    cases hden with
    | inner hns _ _ _ _ => rw [hstar] at hns; cases hns
    | @starLast _ _ _ d' o _ hb ho hseg _ =>
      rw [hbl] at hb
      obtain ⟨ds, hw, hpath⟩ := below_walk hb
      simp only [FS.rootDir] at hw hpath
      obtain ⟨_, _, f3, _⟩ := hw.facts hwf hdot hfl
      have hds : ∀ d ∈ ds, CompOK d := fun d hd => (f3 d hd).1
      rw [joinSl_foldl ds hds] at hpath
      have hname : o.name = s := by
        simpa [segOK, litPart, hcs] using hseg
      refine ⟨ds, ?_, f3, hw.names_mem⟩
      rw [joinSl_pjoin ds s hds hs]
      simp [Offer.toY, hpath, hname]
  | writtenThen hnm _ _ => rw [hbm] at hnm; cases hnm
  | nameThen hnm _ _ _ _ _ _ => rw [hbm] at hnm; cases hnm

/-! ### the matcher object of the literal pattern -/

/-- **`_Match.match` under REALPATH with the `_EXTMATCHBASE` regex of the literal pattern `s`**, on
    a clean relative path that does not end in a newline -/
theorem matchReal_emLit (fs : FS) (cfg : Cfg) (hcs : cfg.caseSensitive = true) (hrp : cfg.realpath = true)
    (s : List Char) (hs : CompOK s) (o : MatchObj) (hoi : o.incl = [emLitRe cfg s]) (hoe : o.excl = [])
    (hor : o.real = true) (hof : o.follow = false) (hok : (emLitRe cfg s).repOK = true)
    (comps : List Name) (hne : comps ≠ []) (hc : ∀ x ∈ comps, CompOK x)
    (hnl : (joinSl comps).getLast? ≠ some '\n') :
    matchReal fs o (joinSl comps) = true ↔
      ∃ ds, comps = ds ++ [s] ∧ (∀ d ∈ ds, d.head? ≠ some '.') ∧ fs.lexists (joinSl comps) = true ∧
        ∀ i, i < ds.length → fs.islink (joinSl (ds.take (i + 1))) = false := by
  rw [C04cap.matchReal_real_iff fs o _ hor (by rw [hoe]; intro r hr; cases hr)]
  have hjne := joinSl_ne_nil comps hne hc
  obtain ⟨tl, htl, hreal, hnl'⟩ : ∃ tl, allSl tl = true ∧ C04cap.realName fs (joinSl comps) = joinSl comps ++ tl ∧
      (joinSl comps ++ tl).getLast? ≠ some '\n' := by
    unfold C04cap.realName
    split
    · exact ⟨['/'], rfl, rfl, by simp⟩
    · exact ⟨[], rfl, by simp, by simpa using hnl⟩
  rw [hreal, hoi, hoe, hof]
  simp only [List.mem_singleton, exists_eq_left, List.not_mem_nil, false_implies, implies_true, and_true]
  rw [fsMatch_emLit fs cfg hcs hrp s hs hok comps hne hc tl htl hnl']
  constructor
  · rintro ⟨_, hex, ds, h1, h2, h3⟩; exact ⟨ds, h1, h2, hex, h3⟩
  · rintro ⟨ds, h1, h2, hex, h3⟩; exact ⟨hjne, hex, ds, h1, h2, h3⟩

/-- **C04 for the fragment** — `globmatch(REALPATH)` and the specification of `glob` meet: the
    `_EXTMATCHBASE` matcher of the literal one-segment pattern `s` accepts the clean relative path
    `q` exactly when the split pattern `[**, s]` denotes `q` on the tree. -/
theorem matchReal_emLit_iff_denotes (fs : FS) (hwf : fs.WFTree) (cfg : Cfg)
    (hcs : cfg.caseSensitive = true) (hrp : cfg.realpath = true)
    (s : List Char) (hs : CompOK s) (hsd : s ≠ dot ∧ s ≠ dotdot)
    (o : MatchObj) (hoi : o.incl = [emLitRe cfg s]) (hoe : o.excl = [])
    (hor : o.real = true) (hof : o.follow = false) (hok : (emLitRe cfg s).repOK = true)
    (c : WalkCfg) (hdot : c.dot = false) (hccs : c.caseSensitive = true) (hfl : c.followLinks = false)
    (bp : GPart) (hbm : bp.isMagic = true) (hbg : bp.isGlobstar = true) (hbl : bp.isGlobstarLong = false)
    (comps : List Name) (hne : comps ≠ []) (hc : ∀ x ∈ comps, CompOK x)
    (hnl : (joinSl comps).getLast? ≠ some '\n') :
    matchReal fs o (joinSl comps) = true ↔ ∃ v, DenotesTop fs c [bp, litPart s] v ∧ v.path = joinSl comps := by
  rw [matchReal_emLit fs cfg hcs hrp s hs o hoi hoe hor hof hok comps hne hc hnl,
    denotes_emLit fs hwf c hdot hccs hfl bp hbm hbg hbl s hs hsd comps hne hc]

end WcModel.PathlibViews

import WcModel.Proofs.BridgeNoCap
import WcModel.Proofs.RegexCap
/-
  C04 bridge, part 11: ONE capture group in a bar-free item list — every accepting run (`Re.MC`) of
  the regex the list converts to splits into a match of what stands before the group, the group's
  body, and what stands after it; the only binding made is the group's.

  (`Re.fullmatchCap_MC` says the spans `re.fullmatch` reports are those of ONE run; with this
  decomposition, and the fact that — for a `**` between file-name segments — the three matches
  determine the two positions, the reported span is known without following the matcher's
  priorities.)
-/
namespace WcModel.Bridge
open PP PPP

/-- a run of a regex without capture group binds nothing -/
theorem MC_ncaps0 {md : Mode} {r : Re} {base : Nat} {a b : St} {cs cs' : Caps} (h0 : r.ncaps = 0)
    (h : Re.MC md r base a cs b cs') : cs' = cs := by
  obtain ⟨new, rfl, hn⟩ := h.caps
  cases new with
  | nil => rfl
  | cons e r' =>
    obtain ⟨h1, h2, _⟩ := hn e List.mem_cons_self
    omega

theorem M_catE' (md : Mode) (x y : Re) (a b : St) : Re.M md (catE' x y) a b ↔ ∃ m, Re.M md x a m ∧ Re.M md y m b := by
  rw [Eqv.catE' x y md a b]
  simp only [Re.M]

/-- a run of `catE' x y` with `y` carrying a capture group (so `y ≠ ε`) and `x` carrying none -/
theorem MC_catE'_left {md : Mode} {x y : Re} {base : Nat} {a b : St} {cs cs' : Caps} (hx : x.ncaps = 0)
    (hy : y.ncaps ≠ 0) (h : Re.MC md (catE' x y) base a cs b cs') :
    ∃ m, Re.M md x a m ∧ Re.MC md y base m cs b cs' := by
  unfold catE' at h
  have hye : y ≠ .eps := by intro e; subst e; exact hy rfl
  rw [if_neg hye] at h
  by_cases hxe : x = .eps
  · subst hxe
    simp only [if_true] at h
    exact ⟨a, by simp only [Re.M], h⟩
  · rw [if_neg hxe] at h
    cases h with
    | cat h1 h2 =>
      have := MC_ncaps0 hx h1
      subst this
      rw [hx, Nat.add_zero] at h2
      exact ⟨_, h1.toM, h2⟩

/-- a run of `catE' (gcap G) y` with `y` carrying no capture group -/
theorem MC_catE'_gcap {md : Mode} {G y : Re} {base : Nat} {a b : St} {cs cs' : Caps} (hG : G.ncaps = 0)
    (hy : y.ncaps = 0) (h : Re.MC md (catE' (.gcap G) y) base a cs b cs') :
    ∃ d, Re.M md G a d ∧ Re.M md y d b ∧ cs' = (base + 1, a.rest.length, d.rest.length) :: cs := by
  unfold catE' at h
  by_cases hye : y = .eps
  · subst hye
    simp only [if_true] at h
    cases h with
    | gcap h1 =>
      have := MC_ncaps0 hG h1
      subst this
      exact ⟨b, h1.toM, by simp only [Re.M], rfl⟩
  · rw [if_neg hye] at h
    have : (Re.gcap G) ≠ .eps := by intro e; cases e
    rw [if_neg this] at h
    cases h with
    | cat h1 h2 =>
      cases h1 with
      | gcap h1 =>
        have e1 := MC_ncaps0 hG h1
        subst e1
        have e2 := MC_ncaps0 hy h2
        subst e2
        exact ⟨_, h1.toM, h2.toM, rfl⟩

theorem mapM_mono {α β : Type} (g g' : α → Option β) : ∀ (l : List α) (ys : List β),
    (∀ a ∈ l, ∀ b, g a = some b → g' a = some b) → l.mapM g = some ys → l.mapM g' = some ys := by
  intro l
  induction l with
  | nil => intro ys _ h; simpa using h
  | cons a r ih =>
    intro ys hg h
    rw [List.mapM_cons] at h ⊢
    cases h1 : g a with
    | none => simp [h1] at h
    | some b =>
      cases h2 : r.mapM g with
      | none => simp [h1, h2] at h
      | some bs =>
        simp [h1, h2] at h
        subst h
        rw [hg a List.mem_cons_self b h1, ih bs (fun a' ha' => hg a' (List.mem_cons_of_mem _ ha')) h2]
        rfl

/-- more fuel does not change the conversion of a plain item list -/
theorem toRe_mono_plain : ∀ f : Nat,
    (∀ l x f', plainBL l = true → Item.seqToRe f l = some x → f ≤ f' → Item.seqToRe f' l = some x) ∧
    (∀ l x f', plainBL l = true → Item.listToRe f l = some x → f ≤ f' → Item.listToRe f' l = some x)
  | 0 => by
    refine ⟨fun l x f' _ h _ => ?_, fun l x f' _ h _ => ?_⟩
    · simp [Item.seqToRe] at h
    · simp [Item.listToRe] at h
  | f+1 => by
    have ih := toRe_mono_plain f
    refine ⟨fun l x f' hp h hle => ?_, fun l x f' hp h hle => ?_⟩
    · obtain ⟨f'', rfl⟩ : ∃ f'', f' = f'' + 1 := ⟨f' - 1, by omega⟩
      have hle' : f ≤ f'' := by omega
      cases l with
      | nil => simp [Item.seqToRe] at h ⊢; exact h
      | cons it rest =>
        simp only [plainBL, Bool.and_eq_true] at hp
        cases it with
        | re r0 =>
          obtain ⟨f0, x', hf, h2, rfl⟩ := seqToRe_re h
          cases hf
          simp [Item.seqToRe, ih.1 rest x' f'' hp.2 h2 hle']
        | empty =>
          simp only [Item.seqToRe] at h ⊢
          exact ih.1 rest x f'' hp.2 h hle'
        | group k c body =>
          obtain ⟨f0, b, x', hf, h1, h2, rfl⟩ := seqToRe_group h
          cases hf
          simp only [plainB, Bool.and_eq_true] at hp
          simp [Item.seqToRe, ih.2 body b f'' hp.1.2 h1 hle', ih.1 rest x' f'' hp.2 h2 hle']
        | bar => simp [Item.seqToRe] at h
        | invOpen c b => simp [plainB] at hp
        | ph s => simp [plainB] at hp
        | closed t e s => simp [plainB] at hp
    · obtain ⟨f'', rfl⟩ : ∃ f'', f' = f'' + 1 := ⟨f' - 1, by omega⟩
      have hle' : f ≤ f'' := by omega
      obtain ⟨f0, parts, hf, hm, rfl⟩ := listToRe_inv h
      cases hf
      have : (splitBars l).mapM (Item.seqToRe f'') = some parts := by
        refine mapM_mono _ _ _ parts ?_ hm
        intro part hpart b hb
        refine ih.1 part b f'' ?_ hb hle'
        rw [plainBL_iff] at hp ⊢
        exact fun y hy => hp y (splitBars_sub l part hpart y hy)
      simp [Item.listToRe, this]

theorem toRe_mono_seq {f f' : Nat} {l : List Item} {x : Re} (hp : plainBL l = true) (h : Item.seqToRe f l = some x)
    (hle : f ≤ f') : Item.seqToRe f' l = some x := (toRe_mono_plain f).1 l x f' hp h hle

theorem toRe_mono_list {f f' : Nat} {l : List Item} {x : Re} (hp : plainBL l = true) (h : Item.listToRe f l = some x)
    (hle : f ≤ f') : Item.listToRe f' l = some x := (toRe_mono_plain f).2 l x f' hp h hle

/-- **one capture group in a bar-free item list** -/
theorem seq_split (G : Re) (hG : G.ncaps = 0) (I2 : List Item) (hI2 : plainBL I2 = true) :
    ∀ (I1 : List Item), plainBL I1 = true → ∀ (f : Nat) (x : Re),
      Item.seqToRe f (I1 ++ .re (.gcap G) :: I2) = some x →
      ∃ f1 x1 f2 x2, Item.seqToRe f1 I1 = some x1 ∧ Item.seqToRe f2 I2 = some x2 ∧ x.ncaps = 1 ∧
        ∀ md base a cs b cs', Re.MC md x base a cs b cs' →
          ∃ c d, Re.M md x1 a c ∧ Re.M md G c d ∧ Re.M md x2 d b ∧
            cs' = (base + 1, c.rest.length, d.rest.length) :: cs := by
  intro I1
  induction I1 with
  | nil =>
    intro _ f x h
    simp only [List.nil_append] at h
    obtain ⟨f', x2, rfl, h2, rfl⟩ := seqToRe_re h
    have hx2 : x2.ncaps = 0 := (toRe_plain f').1 I2 x2 hI2 h2
    refine ⟨1, .eps, f', x2, by simp [Item.seqToRe], h2, by rw [C04cap.ncaps_catE', hx2]; simp [Re.ncaps, hG], ?_⟩
    intro md base a cs b cs' hmc
    obtain ⟨d, h1, h2', h3⟩ := MC_catE'_gcap hG hx2 hmc
    exact ⟨a, d, by simp only [Re.M], h1, h2', h3⟩
  | cons it I1' ih =>
    intro hp f x h
    simp only [plainBL, Bool.and_eq_true] at hp
    simp only [List.cons_append] at h
    -- the head item is a plain regex `r0`; the tail converts to `x'`
    have step : ∀ (r0 x' : Re) (f' : Nat), r0.ncaps = 0 →
        Item.seqToRe f' (I1' ++ .re (.gcap G) :: I2) = some x' → x = catE' r0 x' →
        (∀ f1 x1', Item.seqToRe f1 I1' = some x1' → ∃ f1', Item.seqToRe f1' (it :: I1') = some (catE' r0 x1')) →
        ∃ f1 x1 f2 x2, Item.seqToRe f1 (it :: I1') = some x1 ∧ Item.seqToRe f2 I2 = some x2 ∧ x.ncaps = 1 ∧
          ∀ md base a cs b cs', Re.MC md x base a cs b cs' →
            ∃ c d, Re.M md x1 a c ∧ Re.M md G c d ∧ Re.M md x2 d b ∧
              cs' = (base + 1, c.rest.length, d.rest.length) :: cs := by
      intro r0 x' f' h0 hx' hx hmk
      obtain ⟨f1, x1', f2, x2, e1, e2, hn, hdec⟩ := ih hp.2 f' x' hx'
      obtain ⟨f1', e1'⟩ := hmk f1 x1' e1
      refine ⟨f1', catE' r0 x1', f2, x2, e1', e2, by rw [hx, C04cap.ncaps_catE', h0, hn], ?_⟩
      intro md base a cs b cs' hmc
      rw [hx] at hmc
      obtain ⟨m, hm1, hm2⟩ := MC_catE'_left h0 (by rw [hn]; simp) hmc
      obtain ⟨c, d, hc1, hc2, hc3, hc4⟩ := hdec md base m cs b cs' hm2
      exact ⟨c, d, (M_catE' md r0 x1' a c).2 ⟨m, hm1, hc1⟩, hc2, hc3, hc4⟩
    cases it with
    | re r0 =>
      obtain ⟨f', x', rfl, h2, rfl⟩ := seqToRe_re h
      have h0 : r0.ncaps = 0 := by simpa [plainB] using hp.1
      exact step r0 x' f' h0 h2 rfl (fun f1 x1' e => ⟨f1 + 1, by simp [Item.seqToRe, e]⟩)
    | empty =>
      cases f with
      | zero => simp [Item.seqToRe] at h
      | succ f' =>
        simp only [Item.seqToRe] at h
        obtain ⟨f1, x1, f2, x2, e1, e2, hn, hdec⟩ := ih hp.2 f' x h
        exact ⟨f1 + 1, x1, f2, x2, by simp [Item.seqToRe, e1], e2, hn, hdec⟩
    | group k c body =>
      obtain ⟨f', bq, x', rfl, h1, h2, rfl⟩ := seqToRe_group h
      simp only [plainB, Bool.and_eq_true, bne_iff_ne, ne_eq] at hp
      have h0 : (quant k c bq).ncaps = 0 := ncaps_quant k c bq hp.1.1 ((toRe_plain f').2 body bq hp.1.2 h1)
      refine step (quant k c bq) x' f' h0 h2 rfl (fun f1 x1' e => ?_)
      -- enough fuel for both the body and the tail
      refine ⟨max f' f1 + 1, ?_⟩
      have hb : Item.listToRe (max f' f1) body = some bq := toRe_mono_list hp.1.2 h1 (Nat.le_max_left _ _)
      have ht : Item.seqToRe (max f' f1) I1' = some x1' := toRe_mono_seq hp.2 e (Nat.le_max_right _ _)
      simp [Item.seqToRe, hb, ht]
    | bar => cases f <;> simp [Item.seqToRe] at h
    | invOpen c b => simp [plainB] at hp
    | ph s => simp [plainB] at hp
    | closed t e s => simp [plainB] at hp

end WcModel.Bridge

import WcModel.Model.Match
import WcModel.Proofs.GlobFlags
/-
  C04 / C06 (REALPATH side): facts about `matchReal`, `fsMatch`, `fsPieces`.
-/
namespace WcModel

/-- a path that does not exist never matches under REALPATH -/
theorem matchReal_nonexistent (fs : FS) (o : MatchObj) (p : List Char) (hr : o.real = true)
    (h : fs.lexists p = false) : matchReal fs o p = false := by
  unfold matchReal
  split
  · rfl
  · simp only [h, Bool.false_eq_true, if_false]

/-- the empty file name never matches -/
theorem matchReal_empty (fs : FS) (o : MatchObj) : matchReal fs o [] = false := by
  simp [matchReal]

/-- **is-dir slash**: a path written without a trailing separator is matched as `path/`
    exactly when the file system says it is a directory -/
theorem matchRealCore_dir (fs : FS) (o : MatchObj) (p : List Char) (h₁ : p.getLast? ≠ some '/')
    (h₂ : fs.isdir p = true) :
    matchRealCore fs o p =
      (o.incl.any (fun r => fsMatch fs r (p ++ ['/']) o.follow) &&
        !(o.excl.any (fun r => fsMatch fs r (p ++ ['/']) true))) := by
  unfold matchRealCore
  have : (p.getLast? == some '/') = false := by simpa using h₁
  simp [this, h₂]

theorem matchRealCore_nondir (fs : FS) (o : MatchObj) (p : List Char) (h₂ : fs.isdir p = false) :
    matchRealCore fs o p =
      (o.incl.any (fun r => fsMatch fs r p o.follow) && !(o.excl.any (fun r => fsMatch fs r p true))) := by
  unfold matchRealCore
  simp [h₂]

/-- with FOLLOW (and for every exclusion pattern) the link test is skipped: plain full match -/
theorem fsMatch_follow (fs : FS) (r : Re) (p : List Char) :
    fsMatch fs r p true = (r.fullmatchCap p).isSome := by
  unfold fsMatch
  cases r.fullmatchCap p <;> simp

/-- **the per-piece link rule** (`_fs_match` 109-128): the pieces of one `**` group are accepted
    only if none of the tested ones — every piece, except the last one when the group reaches
    the end of the path — is a symbolic link. -/
theorem fsPieces_ok (fs : FS) (atEnd : Bool) :
    ∀ (parts : List Name) (j last : Nat) (base : List Char),
      (fsPieces fs atEnd parts j last base).2 = true →
      ∀ (k : Nat) (_hk : k < parts.length), (!atEnd || j + k != last) = true →
        fs.islink ((parts.take (k + 1)).foldl pjoin base) = false := by
  intro parts
  induction parts with
  | nil => intro j last base _ k hk; cases hk
  | cons part r ih =>
    intro j last base h k hk hc
    simp only [fsPieces] at h
    by_cases hl : ((!atEnd || j != last) && fs.islink (pjoin base part)) = true
    · simp [hl] at h
    · simp only [hl] at h
      cases k with
      | zero =>
        simp only [Nat.add_zero] at hc
        simp only [List.take, List.foldl]
        cases hlk : fs.islink (pjoin base part) with
        | false => rfl
        | true => simp [hc, hlk] at hl
      | succ k =>
        have := ih (j + 1) last (pjoin base part) (by simpa using h) k (by simpa using hk)
          (by rw [Nat.add_assoc, Nat.add_comm 1 k]; exact hc)
        simpa [List.take, List.foldl] using this

/-- `globmatch`'s `follow` is FOLLOW ∧ ¬GLOBSTARLONG of the user's flag word (`_wcparse.compile`
    782-785 after `glob._flag_transform`), for every flag word -/
theorem compileMatch_follow (n : Nat) (b : Bool) (exps : List (List Char)) (excl : Option (List (List Char)))
    (o : MatchObj) (h : compileMatch n b exps excl = .ok o) :
    o.follow = (hasBit n Gen.FFOLLOW && !hasBit n Gen.FGLOBSTARLONG) := by
  unfold compileMatch at h
  simp only at h
  cases hc : compilePattern (globFlagTransform n) b exps excl with
  | error x => simp [hc] at h
  | ok pn =>
    obtain ⟨pos, neg⟩ := pn
    simp only [hc] at h
    cases h
    simp only
    rw [gen_FOLLOW, gen_GLOBSTARLONG, hasBit_pow, hasBit_pow, hasBit_pow, hasBit_pow,
      tb_transform (by decide) (by decide), tb_transform (by decide) (by decide)]

end WcModel

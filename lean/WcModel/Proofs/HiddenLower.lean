import WcModel.Proofs.Comp
import WcModel.Properties.C03
/-
  C03, lower bound ("the match is granted"), fnmatch mode, tidy compiler — generalised from
  `C03_lower_fn` (which needs the AST shape `.seq (.lit '.') q`, `q` negation-free) to EVERY
  pattern of C01's scope whose first token (`Pat.headTok`) is a written character.

  A pattern that begins with literal text carries no start-of-name guard at all: neither
  `(?![.])`, nor `(?=.)`, nor a re-tested guard inside a repeated group (D1 cannot bite).  So
  the compiled regex means the documented language on EVERY name — hidden, empty, whatever
  DOTMATCH says; only D3 (`$` before a final newline, inside the look-ahead of `!(…)`) remains.
-/
namespace WcModel.HL

theorem negFree_of_isEmpty (p : Pat) (h : p.isEmpty = true) : p.negFree = true := by
  induction p with
  | eps => rfl
  | seq a b iha ihb =>
    simp only [Pat.isEmpty, Bool.and_eq_true] at h
    simp [Pat.negFree, iha h.1, ihb h.2]
  | _ => simp [Pat.isEmpty] at h

/-- a syntactically empty pattern compiles to something that consumes nothing -/
theorem comp_isEmpty (isBytes dot as ci : Bool) (p : Pat) (h : p.isEmpty = true) (a b : St) :
    Re.M ⟨true, ci⟩ (comp isBytes dot as p) a b ↔ b = a := by
  induction p generalizing as a b with
  | eps => simp [comp, Re.M]
  | seq p q ihp ihq =>
    simp only [Pat.isEmpty, Bool.and_eq_true] at h
    have hn : p.negFree = true := negFree_of_isEmpty p h.1
    rw [comp_seq _ _ _ _ _ hn]
    simp only [Re.M.eq_5, ihp _ h.1, ihq _ h.2]
    constructor
    · rintro ⟨c, rfl, rfl⟩; rfl
    · rintro rfl; exact ⟨_, rfl, rfl⟩
  | _ => simp [Pat.isEmpty] at h

/-- negation-free patterns whose first token is a written character: compiled "at the start of
    the name" they mean the documented language from ANY state (no `StartOK`, no `startSafe`) -/
theorem comp_headLit_negFree (isBytes dot ci : Bool) (g : Pat) (hn : g.negFree = true)
    (hs : g.noSlash = true) (c : Char) (hh : g.headTok = some (.lit c)) :
    ∀ a b, Re.M ⟨true, ci⟩ (comp isBytes dot true g) a b ↔ Pat.L ci g a b := by
  induction g with
  | eps => simp [Pat.headTok] at hh
  | lit d =>
    intro a b
    have : d ≠ '/' := by simpa [Pat.noSlash] using hs
    simp [comp, litRe, this, Re.M, Pat.L]
  | any => simp [Pat.headTok] at hh
  | star => simp [Pat.headTok] at hh
  | cls n i => simp [Pat.headTok] at hh
  | alt p q _ _ => simp [Pat.headTok] at hh
  | ext k p _ => simp [Pat.headTok] at hh
  | seq p q ihp ihq =>
    intro a b
    simp only [Pat.negFree, Bool.and_eq_true] at hn
    simp only [Pat.noSlash, Bool.and_eq_true] at hs
    rw [comp_seq _ _ _ _ _ hn.1]
    simp only [Bool.true_and, Re.M.eq_5, Pat.L]
    cases hpt : p.headTok with
    | none =>
      have he := C03.isEmpty_of_headTok_none p hpt
      have hq : q.headTok = some (.lit c) := by simpa [Pat.headTok, hpt] using hh
      rw [he]
      constructor
      · rintro ⟨x, h1, h2⟩
        have hx := (comp_isEmpty isBytes dot true ci p he a x).mp h1
        exact ⟨x, (L_of_isEmpty ci p he a x).mpr hx, (ihq hn.2 hs.2 hq x b).mp h2⟩
      · rintro ⟨x, h1, h2⟩
        have hx := (L_of_isEmpty ci p he a x).mp h1
        exact ⟨x, (comp_isEmpty isBytes dot true ci p he a x).mpr hx, (ihq hn.2 hs.2 hq x b).mpr h2⟩
    | some t =>
      have ht : p.headTok = some (.lit c) := by
        simp only [Pat.headTok, hpt] at hh; rw [hpt]; exact hh
      have hne : p.isEmpty = false := by
        cases he : p.isEmpty with
        | false => rfl
        | true => rw [C03.headTok_none_of_isEmpty p he] at hpt; cases hpt
      rw [hne]
      constructor
      · rintro ⟨x, h1, h2⟩
        exact ⟨x, (ihp hn.1 hs.1 ht a x).mp h1, (comp_false_sem isBytes dot ci q hn.2 hs.2 x b).mp h2⟩
      · rintro ⟨x, h1, h2⟩
        exact ⟨x, (ihp hn.1 hs.1 ht a x).mpr h1, (comp_false_sem isBytes dot ci q hn.2 hs.2 x b).mpr h2⟩

/-- **the same for the whole scope of C01** (`!(…)` followed by literal text allowed after the
    first token), for a match that ends at the end of the subject -/
theorem comp_headLit_sem (isBytes dot ci : Bool) (g : Pat) (hsc : g.c01Scope = true)
    (hs : g.noSlash = true) (c : Char) (hh : g.headTok = some (.lit c)) :
    ∀ a y : St, y.rest = [] → (g.negFree = true ∨ a.rest.getLast? ≠ some '\n') →
      (Re.M ⟨true, ci⟩ (comp isBytes dot true g) a y ↔ Pat.L ci g a y) := by
  induction g with
  | seq p q ihp ihq =>
    intro a y hy hnl
    by_cases hpn : p.negFree = true
    · have hq : q.c01Scope = true := by
        cases p with
        | ext k b => cases k <;> simp_all [Pat.c01Scope, Pat.negFree]
        | _ => simp_all [Pat.c01Scope]
      simp only [Pat.noSlash, Bool.and_eq_true] at hs
      rw [comp_seq _ _ _ _ _ hpn]
      simp only [Bool.true_and, Re.M.eq_5, Pat.L]
      have hnlq : ∀ x, Pat.L ci p a x → (q.negFree = true ∨ x.rest.getLast? ≠ some '\n') := by
        intro x hx
        rcases hnl with h | h
        · left; simp only [Pat.negFree, Bool.and_eq_true] at h; exact h.2
        · right; exact suf_getLast (Pat.L_suf ci p a x hx) h
      cases hpt : p.headTok with
      | none =>
        have he := C03.isEmpty_of_headTok_none p hpt
        have hqh : q.headTok = some (.lit c) := by simpa [Pat.headTok, hpt] using hh
        rw [he]
        constructor
        · rintro ⟨x, h1, h2⟩
          have hx := (comp_isEmpty isBytes dot true ci p he a x).mp h1
          have hL := (L_of_isEmpty ci p he a x).mpr hx
          exact ⟨x, hL, (ihq hq hs.2 hqh x y hy (hnlq x hL)).mp h2⟩
        · rintro ⟨x, h1, h2⟩
          have hx := (L_of_isEmpty ci p he a x).mp h1
          exact ⟨x, (comp_isEmpty isBytes dot true ci p he a x).mpr hx,
            (ihq hq hs.2 hqh x y hy (hnlq x h1)).mpr h2⟩
      | some t =>
        have ht : p.headTok = some (.lit c) := by
          simp only [Pat.headTok, hpt] at hh; rw [hpt]; exact hh
        have hne : p.isEmpty = false := by
          cases he : p.isEmpty with
          | false => rfl
          | true => rw [C03.headTok_none_of_isEmpty p he] at hpt; cases hpt
        rw [hne]
        have hp := comp_headLit_negFree isBytes dot ci p hpn hs.1 c ht
        have hqs : ∀ x, Pat.L ci p a x →
            (Re.M ⟨true, ci⟩ (comp isBytes dot false q) x y ↔ Pat.L ci q x y) := fun x hx =>
          comp_scope_sem isBytes dot ci q hq hs.2 false x y (fun h => by cases h) hy (hnlq x hx)
        constructor
        · rintro ⟨x, h1, h2⟩
          have hL := (hp a x).mp h1
          exact ⟨x, hL, (hqs x hL).mp h2⟩
        · rintro ⟨x, h1, h2⟩
          exact ⟨x, (hp a x).mpr h1, (hqs x h1).mpr h2⟩
    · -- the head would be `!(…)`: not a written character
      cases p with
      | ext k body =>
        cases k with
        | neg => simp [Pat.headTok] at hh
        | _ => simp_all [Pat.c01Scope, Pat.negFree]
      | seq p1 p2 => simp_all [Pat.c01Scope, Pat.negFree]
      | alt p1 p2 => simp_all [Pat.c01Scope, Pat.negFree]
      | _ => simp [Pat.negFree] at hpn
  | ext k body _ => simp [Pat.headTok] at hh
  | _ =>
    intro a y _ _
    exact comp_headLit_negFree isBytes dot ci _ (by simpa [Pat.c01Scope] using hsc) hs c hh a y

end WcModel.HL

import WcModel.Model.Split
/- Facts about the `WcSplit` port: the pieces are what lies between some `|` characters of the
   pattern (joining them with `|` gives the pattern back), there is always at least one piece,
   and a pattern without `|` is not split. -/
namespace WcModel.Split

/-- the pieces joined with `|` -/
def join : List (List Char) → List Char
  | [] => []
  | [p] => p
  | p :: q :: rest => p ++ '|' :: join (q :: rest)

theorem join_cons_ne (p : List Char) (l : List (List Char)) (h : l ≠ []) : join (p :: l) = p ++ '|' :: join l := by
  cases l with
  | nil => exact absurd rfl h
  | cons q rest => rfl

theorem adv_inv (k : Nat) (rest cur : List Char) :
    (adv k rest cur).2.reverse ++ (adv k rest cur).1 = cur.reverse ++ rest := by
  simp [adv, List.take_append_drop]

theorem mainLoop_ne_nil (cfg : Cfg) (fuel : Nat) (rest cur : List Char) : mainLoop cfg fuel rest cur ≠ [] := by
  induction fuel generalizing rest cur with
  | zero => simp [mainLoop]
  | succ fuel ih =>
    unfold mainLoop
    split
    · simp
    · split
      · simp
      · simp only
        split
        · exact ih _ _
        · split
          · split <;> exact ih _ _
          · split
            · split <;> exact ih _ _
            · exact ih _ _

/-- invariant of the main loop: output joined = what was accumulated ++ what is left -/
theorem mainLoop_join (cfg : Cfg) (fuel : Nat) (rest cur : List Char) :
    join (mainLoop cfg fuel rest cur) = cur.reverse ++ rest := by
  induction fuel generalizing rest cur with
  | zero => simp [mainLoop, join]
  | succ fuel ih =>
    unfold mainLoop
    split
    · simp [join]
    · rename_i c r
      split
      · rename_i hbar
        rw [join_cons_ne _ _ (mainLoop_ne_nil cfg fuel _ _), ih, hbar]
        simp
      · simp only
        split
        · rw [ih, adv_inv]; simp
        · split
          · split
            · rw [ih, adv_inv, adv_inv]; simp
            · rw [ih, adv_inv]; simp
          · split
            · split
              · rw [ih, adv_inv, adv_inv]; simp
              · rw [ih, adv_inv]; simp
            · rw [ih, adv_inv]; simp

/-- the pieces are never an empty list (`if start < len(pattern)` always holds) -/
theorem wcSplit_ne_nil (cfg : Cfg) (p : List Char) : wcSplit cfg p ≠ [] := mainLoop_ne_nil cfg _ p []

/-- **text-exactness**: the pieces joined with `|` are the pattern -/
theorem wcSplit_join (cfg : Cfg) (p : List Char) : join (wcSplit cfg p) = p := by
  unfold wcSplit; rw [mainLoop_join]; simp

/-- a pattern without `|` is one piece -/
theorem mainLoop_no_bar (cfg : Cfg) (fuel : Nat) (rest cur : List Char) (h : '|' ∉ rest) :
    mainLoop cfg fuel rest cur = [cur.reverse ++ rest] := by
  have hj := mainLoop_join cfg fuel rest cur
  induction fuel generalizing rest cur with
  | zero => simp [mainLoop]
  | succ fuel ih =>
    have hadv : ∀ (k : Nat) (r c2 : List Char), '|' ∉ r → '|' ∉ (adv k r c2).1 :=
      fun k r c2 hr hm => hr (List.mem_of_mem_drop hm)
    have key : ∀ (r c2 : List Char), '|' ∉ r → mainLoop cfg fuel r c2 = [c2.reverse ++ r] :=
      fun r c2 hr => ih r c2 hr (mainLoop_join cfg fuel r c2)
    unfold mainLoop
    split
    · simp
    · rename_i c r
      have hc : c ≠ '|' := fun e => h (by simp [e])
      have hr : '|' ∉ r := fun hm => h (by simp [hm])
      simp only [hc, if_false]
      split
      · rw [key _ _ (hadv _ _ _ hr), adv_inv]; simp
      · split
        · split
          · rw [key _ _ (hadv _ _ _ (hadv _ _ _ hr)), adv_inv, adv_inv]; simp
          · rw [key _ _ (hadv _ _ _ hr), adv_inv]; simp
        · split
          · split
            · rw [key _ _ (hadv _ _ _ (hadv _ _ _ hr)), adv_inv, adv_inv]; simp
            · rw [key _ _ (hadv _ _ _ hr), adv_inv]; simp
          · rw [key _ _ (hadv _ _ _ hr), adv_inv]; simp

theorem wcSplit_no_bar (cfg : Cfg) (p : List Char) (h : '|' ∉ p) : wcSplit cfg p = [p] := by
  unfold wcSplit; rw [mainLoop_no_bar cfg _ p [] h]; simp

/-! ### `split ∘ print` for plain words -/

/-- characters the scanner treats as ordinary -/
def PlainChar (cfg : Cfg) (c : Char) : Prop :=
  c ≠ '|' ∧ c ≠ '\\' ∧ c ≠ '[' ∧ (cfg.extend = true → c ∉ extTypes)

theorem step_plain (cfg : Cfg) (f : Nat) (c : Char) (r cur : List Char) (h : PlainChar cfg c) :
    mainLoop cfg (f + 1) (c :: r) cur = mainLoop cfg f r (c :: cur) := by
  obtain ⟨h1, h2, h3, h4⟩ := h
  have hext : ¬ (cfg.extend = true ∧ c ∈ extTypes) := fun ⟨ha, hb⟩ => h4 ha hb
  simp [mainLoop, h1, h2, h3, hext, adv, consumed]

theorem word_plain (cfg : Cfg) (f : Nat) (w rest cur : List Char) (h : ∀ c ∈ w, PlainChar cfg c) :
    mainLoop cfg (f + w.length) (w ++ rest) cur = mainLoop cfg f rest (w.reverse ++ cur) := by
  induction w generalizing cur with
  | nil => simp
  | cons c w ih =>
    have := step_plain cfg (f + w.length) c (w ++ rest) cur (h c (by simp))
    simp only [List.length_cons, List.cons_append]
    rw [show f + (w.length + 1) = f + w.length + 1 from by omega, this, ih _ (fun c hc => h c (by simp [hc]))]
    simp

theorem step_bar (cfg : Cfg) (f : Nat) (r cur : List Char) :
    mainLoop cfg (f + 1) ('|' :: r) cur = cur.reverse :: mainLoop cfg f r [] := by
  simp [mainLoop]

theorem mainLoop_print (cfg : Cfg) (ws : List (List Char)) (w cur : List Char) (f : Nat)
    (hw : ∀ c ∈ w, PlainChar cfg c) (hws : ∀ v ∈ ws, ∀ c ∈ v, PlainChar cfg c) :
    mainLoop cfg (f + 1 + (join (w :: ws)).length) (join (w :: ws)) cur = (cur.reverse ++ w) :: ws := by
  induction ws generalizing w cur with
  | nil =>
    have := word_plain cfg (f + 1) w [] cur hw
    simp only [join, List.append_nil] at this ⊢
    rw [this]; simp [mainLoop]
  | cons v vs ih =>
    have hj : join (w :: v :: vs) = w ++ '|' :: join (v :: vs) := rfl
    rw [hj]
    have h1 := word_plain cfg (f + 1 + (join (v :: vs)).length + 1) w ('|' :: join (v :: vs)) cur hw
    have hlen : f + 1 + (w ++ '|' :: join (v :: vs)).length = f + 1 + (join (v :: vs)).length + 1 + w.length := by
      simp; omega
    rw [hlen, h1, step_bar]
    have := ih v [] (hws v (by simp)) (fun u hu => hws u (by simp [hu]))
    simp only [List.reverse_nil, List.nil_append] at this
    rw [this]; simp

/-- **split ∘ print** for words without metacharacters: splitting `w₁|w₂|…|wₙ` gives the words back -/
theorem wcSplit_print (cfg : Cfg) (w : List Char) (ws : List (List Char))
    (hw : ∀ c ∈ w, PlainChar cfg c) (hws : ∀ v ∈ ws, ∀ c ∈ v, PlainChar cfg c) :
    wcSplit cfg (join (w :: ws)) = w :: ws := by
  unfold wcSplit
  have := mainLoop_print cfg ws w [] 0 hw hws
  rw [show (join (w :: ws)).length + 1 = 0 + 1 + (join (w :: ws)).length from by omega, this]
  simp

end WcModel.Split

import WcModel.Spec.Denotes
import WcModel.Proofs.GlobList
/-
  The executable specification is the inductive one: `belowList` enumerates `Below`,
  `denoteList` / `denoteTop` (with full segment matches) enumerate `Denotes` / `DenotesTop`.
-/
namespace WcModel

theorem Below.trans {fs : FS} {c : WalkCfg} {long : Bool} {a b d : Dir}
    (h₁ : Below fs c long a b) (h₂ : Below fs c long b d) : Below fs c long a d := by
  induction h₂ with
  | here => exact h₁
  | down _ ho hd ih => exact Below.down ih ho hd

theorem Below.step {fs : FS} {c : WalkCfg} {long : Bool} {d : Dir} {o : Offer}
    (ho : o ∈ entriesOf fs d) (hd : descends c long o = true) :
    Below fs c long d ⟨pjoin d.path o.name, o.loc⟩ := Below.down (Below.here d) ho hd

theorem belowList_sound (fs : FS) (c : WalkCfg) (long : Bool) :
    ∀ (fuel : Nat) (d d' : Dir), d' ∈ belowList fs c long fuel d → Below fs c long d d' := by
  intro fuel
  induction fuel with
  | zero => intro d d' h; simp [belowList] at h; subst h; exact Below.here _
  | succ f ih =>
    intro d d' h
    simp only [belowList, List.mem_cons, List.mem_flatMap, List.mem_filter] at h
    rcases h with rfl | ⟨o, ⟨ho, hd⟩, hin⟩
    · exact Below.here _
    · exact Below.trans (Below.step ho hd) (ih _ _ hin)

theorem belowList_self (fs : FS) (c : WalkCfg) (long : Bool) (fuel : Nat) (d : Dir) :
    d ∈ belowList fs c long fuel d := by
  cases fuel <;> simp [belowList]

theorem belowList_extend (fs : FS) (c : WalkCfg) (long : Bool) :
    ∀ (fuel : Nat) (d x : Dir) (o : Offer), x ∈ belowList fs c long fuel d → o ∈ entriesOf fs x →
      descends c long o = true → (⟨pjoin x.path o.name, o.loc⟩ : Dir) ∈ belowList fs c long (fuel + 1) d := by
  intro fuel
  induction fuel with
  | zero =>
    intro d x o hx ho hd
    simp [belowList] at hx; subst hx
    simp only [belowList, List.mem_cons, List.mem_flatMap, List.mem_filter]
    exact Or.inr ⟨o, ⟨ho, hd⟩, by simp⟩
  | succ f ih =>
    intro d x o hx ho hd
    simp only [belowList, List.mem_cons, List.mem_flatMap, List.mem_filter] at hx
    rcases hx with rfl | ⟨o', ⟨ho', hd'⟩, hin⟩
    · rw [belowList]
      simp only [List.mem_cons, List.mem_flatMap, List.mem_filter]
      exact Or.inr ⟨o, ⟨ho, hd⟩, belowList_self ..⟩
    · have := ih _ x o hin ho hd
      rw [belowList]
      simp only [List.mem_cons, List.mem_flatMap, List.mem_filter]
      exact Or.inr ⟨o', ⟨ho', hd'⟩, this⟩

/-- `belowList` reaches everything `**` stands for, given enough fuel -/
theorem belowList_complete (fs : FS) (c : WalkCfg) (long : Bool) {d d' : Dir}
    (h : Below fs c long d d') : ∃ fuel, d' ∈ belowList fs c long fuel d := by
  induction h with
  | here => exact ⟨0, belowList_self ..⟩
  | down _ ho hd ih =>
    obtain ⟨f, hf⟩ := ih
    exact ⟨f + 1, belowList_extend fs c long f _ _ _ hf ho hd⟩

theorem segOKq_true (cs : Bool) (p : PPat) (n : Name) : segOKq cs true p n = segOK cs p n := by
  simp [segOKq]

theorem mem_lastSeg {fs : FS} {c : WalkCfg} {p : GPart} {d : Dir} {v : Y} (h : v ∈ lastSeg fs c true p d) :
    ∃ o ∈ offered fs d, segOK c.caseSensitive p.pat o.name = true ∧ (p.dirOnly = true → o.isDir = true) ∧
      v = o.toY d := by
  simp only [lastSeg, List.mem_map, List.mem_filter, segOKq_true, Bool.and_eq_true, Bool.or_eq_true,
    Bool.not_eq_true'] at h
  obtain ⟨o, ⟨ho, hs, hd⟩, rfl⟩ := h
  refine ⟨o, ho, hs, ?_, rfl⟩
  intro hp
  rcases hd with hd | hd
  · rw [hp] at hd; cases hd
  · exact hd

theorem mem_innerSeg {fs : FS} {c : WalkCfg} {p : GPart} {d x : Dir} (h : x ∈ innerSeg fs c true p d) :
    ∃ o ∈ offered fs d, segOK c.caseSensitive p.pat o.name = true ∧ o.isDir = true ∧
      x = ⟨pjoin d.path o.name, o.loc⟩ := by
  simp only [innerSeg, List.mem_map, List.mem_filter, segOKq_true, Bool.and_eq_true] at h
  obtain ⟨o, ⟨ho, hs, hd⟩, rfl⟩ := h
  exact ⟨o, ho, hs, hd, rfl⟩

/-- **the executable specification is sound for the inductive one** (for every fuel) -/
theorem denoteList_sound (fs : FS) (c : WalkCfg) (fuel : Nat) :
    ∀ (parts : List GPart) (d : Dir) (v : Y), v ∈ denoteList fs c true fuel parts d → Denotes fs c parts d v := by
  intro parts d
  induction parts, d using denoteList.induct with
  | case1 d => intro v h; simp [denoteList] at h
  | case2 p d hs =>
    intro v h
    simp only [denoteList, hs, if_true, List.mem_append, List.mem_flatMap, List.mem_map, List.mem_filter] at h
    rcases h with h | ⟨d', hd', o, ⟨ho, hc⟩, rfl⟩
    · split at h
      · simp at h; subst h; rename_i hne; exact Denotes.starSelf hs hne
      · cases h
    · simp only [Bool.and_eq_true, Bool.not_eq_true', Bool.or_eq_true] at hc
      refine Denotes.starAny hs (belowList_sound _ _ _ _ _ _ hd') ho hc.1 ?_
      intro hp
      rcases hc.2 with h | h
      · rw [hp] at h; cases h
      · exact h
  | case3 p d hs =>
    intro v h
    have hs' : p.isStar = false := by simpa using hs
    simp only [denoteList, hs', Bool.false_eq_true, if_false] at h
    obtain ⟨o, ho, hseg, hd, rfl⟩ := mem_lastSeg h
    exact Denotes.last hs' ho hseg hd
  | case4 p q d hs =>
    intro v h
    simp only [denoteList, hs, if_true, List.mem_flatMap] at h
    obtain ⟨d', hd', hv⟩ := h
    obtain ⟨o, ho, hseg, hd, rfl⟩ := mem_lastSeg hv
    exact Denotes.starLast hs (belowList_sound _ _ _ _ _ _ hd') ho hseg hd
  | case5 p q d hs ih =>
    intro v h
    have hs' : p.isStar = false := by simpa using hs
    simp only [denoteList, hs', Bool.false_eq_true, if_false, List.mem_flatMap] at h
    obtain ⟨x, hx, hv⟩ := h
    obtain ⟨o, ho, hseg, hd, rfl⟩ := mem_innerSeg hx
    exact Denotes.inner hs' ho hseg hd (ih _ v (by simpa [denoteList] using hv))
  | case6 p q r rest d hs ih =>
    intro v h
    simp only [denoteList, hs, if_true, List.mem_flatMap] at h
    obtain ⟨d', hd', x, hx, hv⟩ := h
    obtain ⟨o, ho, hseg, hd, rfl⟩ := mem_innerSeg hx
    exact Denotes.starInner hs (belowList_sound _ _ _ _ _ _ hd') ho hseg hd (ih _ v hv)
  | case7 p q r rest d hs ih =>
    intro v h
    have hs' : p.isStar = false := by simpa using hs
    simp only [denoteList, hs', Bool.false_eq_true, if_false, List.mem_flatMap] at h
    obtain ⟨x, hx, hv⟩ := h
    obtain ⟨o, ho, hseg, hd, rfl⟩ := mem_innerSeg hx
    exact Denotes.inner hs' ho hseg hd (ih _ v hv)

/-! ### completeness of the executable specification -/

theorem belowList_mono (fs : FS) (c : WalkCfg) (long : Bool) :
    ∀ (f f' : Nat) (d x : Dir), f ≤ f' → x ∈ belowList fs c long f d → x ∈ belowList fs c long f' d := by
  intro f
  induction f with
  | zero =>
    intro f' d x _ h
    simp [belowList] at h; subst h; exact belowList_self ..
  | succ f ih =>
    intro f' d x hle h
    obtain ⟨g, rfl⟩ : ∃ g, f' = g + 1 := ⟨f' - 1, by omega⟩
    simp only [belowList, List.mem_cons, List.mem_flatMap, List.mem_filter] at h ⊢
    rcases h with rfl | ⟨o, ho, hin⟩
    · exact Or.inl rfl
    · exact Or.inr ⟨o, ho, ih g _ x (by omega) hin⟩

theorem denoteList_mono (fs : FS) (c : WalkCfg) (full : Bool) (f f' : Nat) (hle : f ≤ f') :
    ∀ (parts : List GPart) (d : Dir) (v : Y), v ∈ denoteList fs c full f parts d → v ∈ denoteList fs c full f' parts d := by
  intro parts d
  induction parts, d using denoteList.induct with
  | case1 d => intro v h; simp [denoteList] at h
  | case2 p d hs =>
    intro v h
    simp only [denoteList, hs, if_true, List.mem_append, List.mem_flatMap] at h ⊢
    rcases h with h | ⟨d', hd', hv⟩
    · exact Or.inl h
    · exact Or.inr ⟨d', belowList_mono fs c _ f f' d d' hle hd', hv⟩
  | case3 p d hs =>
    intro v h
    have hs' : p.isStar = false := by simpa using hs
    simpa only [denoteList, hs', Bool.false_eq_true, if_false] using h
  | case4 p q d hs =>
    intro v h
    simp only [denoteList, hs, if_true, List.mem_flatMap] at h ⊢
    obtain ⟨d', hd', hv⟩ := h
    exact ⟨d', belowList_mono fs c _ f f' d d' hle hd', hv⟩
  | case5 p q d hs ih =>
    intro v h
    have hs' : p.isStar = false := by simpa using hs
    simp only [denoteList, hs', Bool.false_eq_true, if_false, List.mem_flatMap] at h ⊢
    obtain ⟨x, hx, hv⟩ := h
    exact ⟨x, hx, by simpa [denoteList] using ih x v (by simpa [denoteList] using hv)⟩
  | case6 p q r rest d hs ih =>
    intro v h
    simp only [denoteList, hs, if_true, List.mem_flatMap] at h ⊢
    obtain ⟨d', hd', x, hx, hv⟩ := h
    exact ⟨d', belowList_mono fs c _ f f' d d' hle hd', x, hx, ih x v hv⟩
  | case7 p q r rest d hs ih =>
    intro v h
    have hs' : p.isStar = false := by simpa using hs
    simp only [denoteList, hs', Bool.false_eq_true, if_false, List.mem_flatMap] at h ⊢
    obtain ⟨x, hx, hv⟩ := h
    exact ⟨x, hx, ih x v hv⟩

theorem lastSeg_of {fs : FS} {c : WalkCfg} {p : GPart} {d : Dir} {o : Offer} (ho : o ∈ offered fs d)
    (hseg : segOK c.caseSensitive p.pat o.name = true) (hd : p.dirOnly = true → o.isDir = true) :
    o.toY d ∈ lastSeg fs c true p d := by
  simp only [lastSeg, List.mem_map, List.mem_filter, segOKq_true, Bool.and_eq_true, Bool.or_eq_true, Bool.not_eq_true']
  refine ⟨o, ⟨ho, hseg, ?_⟩, rfl⟩
  cases hp : p.dirOnly with
  | false => exact Or.inl rfl
  | true => exact Or.inr (hd hp)

theorem innerSeg_of {fs : FS} {c : WalkCfg} {p : GPart} {d : Dir} {o : Offer} (ho : o ∈ offered fs d)
    (hseg : segOK c.caseSensitive p.pat o.name = true) (hd : o.isDir = true) :
    (⟨pjoin d.path o.name, o.loc⟩ : Dir) ∈ innerSeg fs c true p d := by
  simp only [innerSeg, List.mem_map, List.mem_filter, segOKq_true, Bool.and_eq_true]
  exact ⟨o, ⟨ho, hseg, hd⟩, rfl⟩

/-- **the executable specification is complete for the inductive one**: every denoted path is
    enumerated once the `**` depth bound is large enough -/
theorem denoteList_complete (fs : FS) (c : WalkCfg) {parts : List GPart} {d : Dir} {v : Y}
    (h : Denotes fs c parts d v) : ∃ fuel, v ∈ denoteList fs c true fuel parts d := by
  induction h with
  | @last p d o hs ho hseg hd =>
    refine ⟨0, ?_⟩
    simp only [denoteList, hs, Bool.false_eq_true, if_false]
    exact lastSeg_of ho hseg hd
  | @inner p q rest d o v hs ho hseg hd _ ih =>
    obtain ⟨f, hf⟩ := ih
    refine ⟨f, ?_⟩
    cases rest with
    | nil =>
      simp only [denoteList, hs, Bool.false_eq_true, if_false, List.mem_flatMap]
      exact ⟨_, innerSeg_of ho hseg hd, hf⟩
    | cons r rest' =>
      simp only [denoteList, hs, Bool.false_eq_true, if_false, List.mem_flatMap]
      exact ⟨_, innerSeg_of ho hseg hd, hf⟩
  | @starSelf p d hs hne =>
    refine ⟨0, ?_⟩
    simp only [denoteList, hs, if_true, List.mem_append]
    left; simp [hne]
  | @starAny p d d' o hs hb ho hh hd =>
    obtain ⟨n, hn⟩ := belowList_complete fs c _ hb
    refine ⟨n, ?_⟩
    simp only [denoteList, hs, if_true, List.mem_append, List.mem_flatMap, List.mem_map, List.mem_filter]
    right
    refine ⟨d', hn, o, ⟨ho, ?_⟩, rfl⟩
    simp only [Bool.and_eq_true, Bool.not_eq_true', Bool.or_eq_true]
    refine ⟨hh, ?_⟩
    cases hp : p.dirOnly with
    | false => exact Or.inl rfl
    | true => exact Or.inr (hd hp)
  | @starLast p q d d' o hs hb ho hseg hd =>
    obtain ⟨n, hn⟩ := belowList_complete fs c _ hb
    refine ⟨n, ?_⟩
    simp only [denoteList, hs, if_true, List.mem_flatMap]
    exact ⟨d', hn, lastSeg_of ho hseg hd⟩
  | @starInner p q r rest d d' o v hs hb ho hseg hd _ ih =>
    obtain ⟨n, hn⟩ := belowList_complete fs c _ hb
    obtain ⟨f, hf⟩ := ih
    refine ⟨max n f, ?_⟩
    simp only [denoteList, hs, if_true, List.mem_flatMap]
    exact ⟨d', belowList_mono fs c _ n _ d d' (Nat.le_max_left _ _) hn, _, innerSeg_of ho hseg hd,
      denoteList_mono fs c true f _ (Nat.le_max_right _ _) _ _ v hf⟩

/-- **executable = declarative** for the part-list specification -/
theorem denoteList_iff (fs : FS) (c : WalkCfg) (parts : List GPart) (d : Dir) (v : Y) :
    (∃ fuel, v ∈ denoteList fs c true fuel parts d) ↔ Denotes fs c parts d v :=
  ⟨fun ⟨f, h⟩ => denoteList_sound fs c f parts d v h, denoteList_complete fs c⟩

/-- **executable = declarative** for whole patterns -/
theorem denoteTop_iff (fs : FS) (c : WalkCfg) (parts : List GPart) (v : Y) :
    (∃ fuel, v ∈ denoteTop fs c true fuel parts) ↔ DenotesTop fs c parts v := by
  cases parts with
  | nil =>
    constructor
    · rintro ⟨f, h⟩; simp [denoteTop] at h
    · intro h; cases h
  | cons p rest =>
    by_cases hm : p.isMagic = true
    · simp only [denoteTop, hm, if_true]
      rw [denoteList_iff]
      constructor
      · intro h; exact DenotesTop.magic hm h
      · intro h
        cases h with
        | magic _ h => exact h
        | writtenOnly hm' _ => rw [hm] at hm'; cases hm'
        | writtenThen hm' _ _ => rw [hm] at hm'; cases hm'
        | nameOnly hm' _ _ _ _ _ => rw [hm] at hm'; cases hm'
        | nameThen hm' _ _ _ _ _ _ => rw [hm] at hm'; cases hm'
    · have hm' : p.isMagic = false := by simpa using hm
      by_cases ha : asWritten p.pat.text = true
      · cases rest with
        | nil =>
          simp only [denoteTop, hm', Bool.false_eq_true, if_false, ha, if_true]
          constructor
          · rintro ⟨_, h⟩; simp at h; subst h; exact DenotesTop.writtenOnly hm' ha
          · intro h
            cases h with
            | magic hmm _ => rw [hm'] at hmm; cases hmm
            | writtenOnly _ _ => exact ⟨0, by simp⟩
            | nameOnly _ ha' _ _ _ _ => rw [ha] at ha'; cases ha'
        | cons q r =>
          simp only [denoteTop, hm', Bool.false_eq_true, if_false, ha, if_true]
          rw [denoteList_iff]
          constructor
          · intro h; exact DenotesTop.writtenThen hm' ha h
          · intro h
            cases h with
            | magic hmm _ => rw [hm'] at hmm; cases hmm
            | writtenThen _ _ h => exact h
            | nameThen _ ha' _ _ _ _ _ => rw [ha] at ha'; cases ha'
      · have ha' : asWritten p.pat.text = false := by simpa using ha
        by_cases hte : p.pat.text = []
        · constructor
          · rintro ⟨f, h⟩
            have hne : asWritten ([] : List Char) = false := by decide
            simp [denoteTop, hm', hte, hne] at h
          · intro h
            cases h with
            | magic hmm _ => rw [hm'] at hmm; cases hmm
            | writtenOnly _ hx => rw [ha'] at hx; cases hx
            | writtenThen _ hx _ => rw [ha'] at hx; cases hx
            | nameOnly _ _ hne _ _ _ => exact absurd hte hne
            | nameThen _ _ hne _ _ _ _ => exact absurd hte hne
        · have hte' : p.pat.text.isEmpty = false := by
            cases h : p.pat.text with
            | nil => exact absurd h hte
            | cons _ _ => rfl
          cases rest with
          | nil =>
            simp only [denoteTop, hm', Bool.false_eq_true, if_false, ha', hte', List.mem_map, List.mem_filter,
              segOKq_true, Bool.or_eq_true, Bool.not_eq_true']
            constructor
            · rintro ⟨_, o, ⟨⟨ho, hseg⟩, hd⟩, rfl⟩
              refine DenotesTop.nameOnly hm' ha' hte ho hseg ?_
              intro hp
              rcases hd with hd | hd
              · rw [hp] at hd; cases hd
              · exact hd
            · intro h
              cases h with
              | magic hmm _ => rw [hm'] at hmm; cases hmm
              | writtenOnly _ hx => rw [ha'] at hx; cases hx
              | @nameOnly _ o _ _ _ ho hseg hd =>
                refine ⟨0, o, ⟨⟨ho, hseg⟩, ?_⟩, rfl⟩
                cases hp : p.dirOnly with
                | false => exact Or.inl rfl
                | true => exact Or.inr (hd hp)
          | cons q r =>
            simp only [denoteTop, hm', Bool.false_eq_true, if_false, ha', hte', List.mem_flatMap, List.mem_filter,
              segOKq_true]
            constructor
            · rintro ⟨f, o, ⟨⟨ho, hseg⟩, hd⟩, hv⟩
              exact DenotesTop.nameThen hm' ha' hte ho hseg hd (denoteList_sound fs c f _ _ v hv)
            · intro h
              cases h with
              | magic hmm _ => rw [hm'] at hmm; cases hmm
              | writtenThen _ hx _ => rw [ha'] at hx; cases hx
              | @nameThen _ _ _ o _ _ _ _ ho hseg hd hrest =>
                obtain ⟨f, hf⟩ := denoteList_complete fs c hrest
                exact ⟨f, o, ⟨⟨ho, hseg⟩, hd⟩, hf⟩

end WcModel

import WcModel.Spec.Denotes
import WcModel.Proofs.GlobList
/-
  The executable specification is the inductive one: `belowList` enumerates `Below`,
  `denoteList` / `denoteTop` (with full segment matches) enumerate `Denotes` / `DenotesTop`.
-/
namespace WcModel

theorem Below.trans {fs : FS} {c : WalkCfg} {long : Bool} {a b d : Dir}
    (h₁ : Below fs c long a b) (h₂ : Below fs c long b d) : Below fs c long a d := by
  induction h₂ with
  | here => exact h₁
  | down _ ho hd ih => exact Below.down ih ho hd

theorem Below.step {fs : FS} {c : WalkCfg} {long : Bool} {d : Dir} {o : Offer}
    (ho : o ∈ entriesOf fs d) (hd : descends c long o = true) :
    Below fs c long d ⟨pjoin d.path o.name, o.loc⟩ := Below.down (Below.here d) ho hd

theorem belowList_sound (fs : FS) (c : WalkCfg) (long : Bool) :
    ∀ (fuel : Nat) (d d' : Dir), d' ∈ belowList fs c long fuel d → Below fs c long d d' := by
  intro fuel
  induction fuel with
  | zero => intro d d' h; simp [belowList] at h; subst h; exact Below.here _
  | succ f ih =>
    intro d d' h
    simp only [belowList, List.mem_cons, List.mem_flatMap, List.mem_filter] at h
    rcases h with rfl | ⟨o, ⟨ho, hd⟩, hin⟩
    · exact Below.here _
    · exact Below.trans (Below.step ho hd) (ih _ _ hin)

theorem belowList_self (fs : FS) (c : WalkCfg) (long : Bool) (fuel : Nat) (d : Dir) :
    d ∈ belowList fs c long fuel d := by
  cases fuel <;> simp [belowList]

theorem belowList_extend (fs : FS) (c : WalkCfg) (long : Bool) :
    ∀ (fuel : Nat) (d x : Dir) (o : Offer), x ∈ belowList fs c long fuel d → o ∈ entriesOf fs x →
      descends c long o = true → (⟨pjoin x.path o.name, o.loc⟩ : Dir) ∈ belowList fs c long (fuel + 1) d := by
  intro fuel
  induction fuel with
  | zero =>
    intro d x o hx ho hd
    simp [belowList] at hx; subst hx
    simp only [belowList, List.mem_cons, List.mem_flatMap, List.mem_filter]
    exact Or.inr ⟨o, ⟨ho, hd⟩, by simp⟩
  | succ f ih =>
    intro d x o hx ho hd
    simp only [belowList, List.mem_cons, List.mem_flatMap, List.mem_filter] at hx
    rcases hx with rfl | ⟨o', ⟨ho', hd'⟩, hin⟩
    · rw [belowList]
      simp only [List.mem_cons, List.mem_flatMap, List.mem_filter]
      exact Or.inr ⟨o, ⟨ho, hd⟩, belowList_self ..⟩
    · have := ih _ x o hin ho hd
      rw [belowList]
      simp only [List.mem_cons, List.mem_flatMap, List.mem_filter]
      exact Or.inr ⟨o', ⟨ho', hd'⟩, this⟩

/-- `belowList` reaches everything `**` stands for, given enough fuel -/
theorem belowList_complete (fs : FS) (c : WalkCfg) (long : Bool) {d d' : Dir}
    (h : Below fs c long d d') : ∃ fuel, d' ∈ belowList fs c long fuel d := by
  induction h with
  | here => exact ⟨0, belowList_self ..⟩
  | down _ ho hd ih =>
    obtain ⟨f, hf⟩ := ih
    exact ⟨f + 1, belowList_extend fs c long f _ _ _ hf ho hd⟩

theorem segOKq_true (cs : Bool) (p : PPat) (n : Name) : segOKq cs true p n = segOK cs p n := by
  simp [segOKq]

theorem mem_lastSeg {fs : FS} {c : WalkCfg} {p : GPart} {d : Dir} {v : Y} (h : v ∈ lastSeg fs c true p d) :
    ∃ o ∈ offered fs d, segOK c.caseSensitive p.pat o.name = true ∧ (p.dirOnly = true → o.isDir = true) ∧
      v = o.toY d := by
  simp only [lastSeg, List.mem_map, List.mem_filter, segOKq_true, Bool.and_eq_true, Bool.or_eq_true,
    Bool.not_eq_true'] at h
  obtain ⟨o, ⟨ho, hs, hd⟩, rfl⟩ := h
  refine ⟨o, ho, hs, ?_, rfl⟩
  intro hp
  rcases hd with hd | hd
  · rw [hp] at hd; cases hd
  · exact hd

theorem mem_innerSeg {fs : FS} {c : WalkCfg} {p : GPart} {d x : Dir} (h : x ∈ innerSeg fs c true p d) :
    ∃ o ∈ offered fs d, segOK c.caseSensitive p.pat o.name = true ∧ o.isDir = true ∧
      x = ⟨pjoin d.path o.name, o.loc⟩ := by
  simp only [innerSeg, List.mem_map, List.mem_filter, segOKq_true, Bool.and_eq_true] at h
  obtain ⟨o, ⟨ho, hs, hd⟩, rfl⟩ := h
  exact ⟨o, ho, hs, hd, rfl⟩

/-- **the executable specification is sound for the inductive one** (for every fuel) -/
theorem denoteList_sound (fs : FS) (c : WalkCfg) (fuel : Nat) :
    ∀ (parts : List GPart) (d : Dir) (v : Y), v ∈ denoteList fs c true fuel parts d → Denotes fs c parts d v := by
  intro parts d
  induction parts, d using denoteList.induct with
  | case1 d => intro v h; simp [denoteList] at h
  | case2 p d hs =>
    intro v h
    simp only [denoteList, hs, if_true, List.mem_append, List.mem_flatMap, List.mem_map, List.mem_filter] at h
    rcases h with h | ⟨d', hd', o, ⟨ho, hc⟩, rfl⟩
    · split at h
      · simp at h; subst h; rename_i hne; exact Denotes.starSelf hs hne
      · cases h
    · simp only [Bool.and_eq_true, Bool.not_eq_true', Bool.or_eq_true] at hc
      refine Denotes.starAny hs (belowList_sound _ _ _ _ _ _ hd') ho hc.1 ?_
      intro hp
      rcases hc.2 with h | h
      · rw [hp] at h; cases h
      · exact h
  | case3 p d hs =>
    intro v h
    have hs' : p.isStar = false := by simpa using hs
    simp only [denoteList, hs', Bool.false_eq_true, if_false] at h
    obtain ⟨o, ho, hseg, hd, rfl⟩ := mem_lastSeg h
    exact Denotes.last hs' ho hseg hd
  | case4 p q d hs =>
    intro v h
    simp only [denoteList, hs, if_true, List.mem_flatMap] at h
    obtain ⟨d', hd', hv⟩ := h
    obtain ⟨o, ho, hseg, hd, rfl⟩ := mem_lastSeg hv
    exact Denotes.starLast hs (belowList_sound _ _ _ _ _ _ hd') ho hseg hd
  | case5 p q d hs ih =>
    intro v h
    have hs' : p.isStar = false := by simpa using hs
    simp only [denoteList, hs', Bool.false_eq_true, if_false, List.mem_flatMap] at h
    obtain ⟨x, hx, hv⟩ := h
    obtain ⟨o, ho, hseg, hd, rfl⟩ := mem_innerSeg hx
    exact Denotes.inner hs' ho hseg hd (ih _ v (by simpa [denoteList] using hv))
  | case6 p q r rest d hs ih =>
    intro v h
    simp only [denoteList, hs, if_true, List.mem_flatMap] at h
    obtain ⟨d', hd', x, hx, hv⟩ := h
    obtain ⟨o, ho, hseg, hd, rfl⟩ := mem_innerSeg hx
    exact Denotes.starInner hs (belowList_sound _ _ _ _ _ _ hd') ho hseg hd (ih _ v hv)
  | case7 p q r rest d hs ih =>
    intro v h
    have hs' : p.isStar = false := by simpa using hs
    simp only [denoteList, hs', Bool.false_eq_true, if_false, List.mem_flatMap] at h
    obtain ⟨x, hx, hv⟩ := h
    obtain ⟨o, ho, hseg, hd, rfl⟩ := mem_innerSeg hx
    exact Denotes.inner hs' ho hseg hd (ih _ v hv)

end WcModel

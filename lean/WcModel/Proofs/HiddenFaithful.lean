import WcModel.Proofs.LiteralLang
import WcModel.Proofs.CharLemmas
import WcModel.Model.ToRe
/-
  Hidden names on the FAITHFUL port (`parseItems`), fnmatch mode, Unix rules, no DOTMATCH:
  machinery for `Properties/C03faithful.lean`.

  Part 1  one-step equations for `parseExtend` / `extLoop` / `rootLoop` in terms of small named
          pieces (`peEnter`, `peFinish`, `peBuild`, `extPlain`, `extTok`, `rootPlain`, `rootTok`);
          each is proved equal to the model function (`rw [f]; rfl`-style), the model is untouched.
  Part 2  frame facts: `globstar` is never written (`frame`); at top level `inList`/`dirStart`
          stay `false` (`Top`); the item stack only grows and never receives a `|`
          (`rootLoop_suffix`).
  Part 3  regex facts: what the pass emits at `afterStart = true, dot = false` cannot start a
          match at a state whose next character is `.` (`DotRefusing`).
  Part 4  the first token of an arbitrary pattern (`rootPlain_first`, `rootTok_first`).
  Part 5  `clean_up_inverse` keeps positions (`Rel`); from the item list to the regex
          (`HeadRefuses`, `toRe_refuses`).
-/
namespace WcModel
namespace HF

/-! ## Part 1: one-step equations -/

/-- state on entering a group -/
def peEnter (ps : PS) (listType : Char) (resetDot : Bool) : PS :=
  let ps := { ps with inList := true, invNest := listType = '!' }
  if resetDot then { ps with matchDotDir := false } else ps

/-- the `finish` closure of `parseExtend` (`t` = state at entry) -/
def peFinish (t : PS) (success : Bool) (ps : PS) : PS :=
  let ps := if !t.inList then { ps with inList := false } else ps
  let ps := if !t.invNest then { ps with invNest := false } else ps
  if success then ps.resetDirTrack
  else { ps with dirStart := t.dirStart, afterStart := t.afterStart }

def peFail (t : PS) (ps : PS) : PS := peFinish t false { ps with invExt := t.invExt }

def invStar (cfg : Cfg) (tAfterStart : Bool) (ps : PS) : Re :=
  let star : Re :=
    if cfg.pathname then
      if !tAfterStart || ps.matchDotDir then Frag.pathStar cfg.win
      else if tAfterStart && !cfg.dot then Frag.pathStarDot2 cfg.win
      else Frag.pathStarDot1 cfg.win
    else
      if !tAfterStart || cfg.dot then Frag.star else .cat Frag.noDot Frag.star
  if tAfterStart then Re.cat cfg.needChar star else star

def capOf (cfg : Cfg) : Capt := if cfg.capture then .yes else .no

/-- the items pushed for a closed group -/
def peBuild (cfg : Cfg) (listType : Char) (t : PS) (body : List Item) (cur : List Item) (ps : PS) :
    List Item × PS :=
  if listType = '?' then (.group .q (capOf cfg) body :: cur, ps)
  else if listType = '*' then (.group .s (capOf cfg) body :: cur, ps)
  else if listType = '+' then (.group .p (capOf cfg) body :: cur, ps)
  else if listType = '@' then (.group .a (capOf cfg) body :: cur, ps)
  else
    let ps := { ps with invExt := ps.invExt + 1 }
    (.ph (invStar cfg t.afterStart ps) :: .invOpen cfg.capture body :: cur, ps)

theorem parseExtend_eq (cfg : Cfg) (fuel : Nat) (lt : Char) (it : It) (ps : PS) (cur : List Item) (rd : Bool) :
    parseExtend cfg (fuel+1) lt it ps cur rd =
      match it.next with
      | none => (false, peFail ps (peEnter ps lt rd), it, cur)
      | some (c, it1) =>
        if c != '(' then (false, peFail ps (peEnter ps lt rd), it, cur) else
        match extLoop cfg fuel it1 (peEnter ps lt rd) [] ps.afterStart ps.invNest with
        | .error ps' => (false, peFail ps ps', it, cur)
        | .ok (ps2, it2, extended) =>
          let b := peBuild cfg lt ps extended.reverse cur ps2
          let b' := if ps.inList then cleanUpInverse cfg b.2 b.1 (ps.invNest && b.2.invNest) else b
          (true, peFinish ps true b'.2, it2, b'.1) := by
  rw [parseExtend]
  rfl

/-- the `continue_` closure of `extLoop` -/
def extCont (cfg : Cfg) (fuel : Nat) (c : Char) (tAfterStart tInvNest : Bool)
    (r : PS × It × List Item × Bool) : Except PS (PS × It × List Item) :=
  let ps := if r.2.2.2 then r.1.updateDirState else r.1
  if c = ')' then .ok (ps, r.2.1, r.2.2.1)
  else extLoop cfg fuel r.2.1 ps r.2.2.1 tAfterStart tInvNest

/-- what one character of a group body does, when it is not (the start of) a nested group that
    parses: `(state, iterator, extended, update_dir_state?)` -/
def extPlain (cfg : Cfg) (c : Char) (it : It) (ps : PS) (ext : List Item) (tAfterStart tInvNest : Bool) :
    PS × It × List Item × Bool :=
  if c = '*' then
    let r := handleStar cfg ps it ext
    (r.1, r.2.1, r.2.2, true)
  else if c = '.' then
    let d := handleDot cfg ps it
    let ps := if ps.afterStart then
                { ps with matchDotDir := cfg.dot && !cfg.nodotdir }.resetDirTrack
              else ps
    (ps, it, .re d :: ext, true)
  else if c = '?' then
    let q := qmarkItem cfg ps
    (q.2, it, q.1 :: ext, true)
  else if c = '/' then
    let ext := match restrictExtendedSlash cfg with
               | some g => .re g :: ext
               | none => ext
    (ps, it, .re (Frag.sep cfg.win) :: ext, true)
  else if c = '|' then
    let r := if ps.invNest then cleanUpInverse cfg ps ext tInvNest else (ext, ps)
    let ps := if tAfterStart then r.2.setStartDir else r.2
    (ps, it, .bar :: r.1, true)
  else if c = '\\' then
    match references cfg ps it with
    | .val v it' ps' => (ps', it', .re v :: ext, true)
    | .dot it' => (ps, it', ext, false)
    | .stop => (ps, it, ext, true)
  else if c = '[' then
    match sequence cfg ps it with
    | some (r, ps', it') => (ps', it', .re r :: ext, true)
    | none => (ps, it, .re (.lit '[') :: ext, true)
  else if c != ')' then (ps, it, .re (.lit c) :: ext, true)
  else (ps, it, ext, true)

def extTok (cfg : Cfg) (fuel : Nat) (c : Char) (it : It) (ps : PS) (ext : List Item) (tAfterStart tInvNest : Bool) :
    PS × It × List Item × Bool :=
  if cfg.extend && c ∈ extTypes then
    let r := parseExtend cfg fuel c it ps ext false
    if r.1 then (r.2.1, r.2.2.1, r.2.2.2, true)
    else extPlain cfg c it r.2.1 ext tAfterStart tInvNest
  else extPlain cfg c it ps ext tAfterStart tInvNest

theorem extLoop_eq (cfg : Cfg) (fuel : Nat) (it : It) (ps : PS) (ext : List Item) (a n : Bool) :
    extLoop cfg (fuel+1) it ps ext a n =
      match it.next with
      | none => .error ps
      | some (c, it1) => extCont cfg fuel c a n (extTok cfg fuel c it1 ps ext a n) := by
  rw [extLoop]
  cases h : it.next with
  | none => rfl
  | some v =>
    obtain ⟨c, it1⟩ := v
    simp only [extTok]
    by_cases hx : (cfg.extend && decide (c ∈ extTypes)) = true
    · simp only [hx, ite_true]
      rcases hp : parseExtend cfg fuel c it1 ps ext false with ⟨ok, ps', it', ext'⟩
      cases ok
      · simp only [Bool.false_eq_true, ite_false]
        unfold extPlain extCont
        by_cases h1 : c = '*'
        · simp only [h1, if_true] <;> rfl
        simp only [h1, if_false]
        by_cases h2 : c = '.'
        · simp only [h2, if_true] <;> rfl
        simp only [h2, if_false]
        by_cases h3 : c = '?'
        · simp only [h3, if_true] <;> rfl
        simp only [h3, if_false]
        by_cases h4 : c = '/'
        · simp only [h4, if_true] <;> rfl
        simp only [h4, if_false]
        by_cases h5 : c = '|'
        · simp only [h5, if_true] <;> rfl
        simp only [h5, if_false]
        by_cases h6 : c = '\\'
        · simp only [h6, if_true]; cases references cfg _ it1 <;> rfl
        simp only [h6, if_false]
        by_cases h7 : c = '['
        · simp only [h7, if_true]; cases sequence cfg _ it1 <;> rfl
        simp only [h7, if_false]
        by_cases h8 : c = ')'
        · subst h8; rfl
        · have : (c != ')') = true := by simp [h8]
          simp only [this, if_true]
      · rfl
    · have hx' : (cfg.extend && decide (c ∈ extTypes)) = false := by simpa using hx
      simp only [hx', Bool.false_eq_true, if_false]
      unfold extPlain extCont
      by_cases h1 : c = '*'
      · simp only [h1, if_true] <;> rfl
      simp only [h1, if_false]
      by_cases h2 : c = '.'
      · simp only [h2, if_true] <;> rfl
      simp only [h2, if_false]
      by_cases h3 : c = '?'
      · simp only [h3, if_true] <;> rfl
      simp only [h3, if_false]
      by_cases h4 : c = '/'
      · simp only [h4, if_true] <;> rfl
      simp only [h4, if_false]
      by_cases h5 : c = '|'
      · simp only [h5, if_true] <;> rfl
      simp only [h5, if_false]
      by_cases h6 : c = '\\'
      · simp only [h6, if_true]; cases references cfg _ it1 <;> rfl
      simp only [h6, if_false]
      by_cases h7 : c = '['
      · simp only [h7, if_true]; cases sequence cfg _ it1 <;> rfl
      simp only [h7, if_false]
      by_cases h8 : c = ')'
      · subst h8; rfl
      · have : (c != ')') = true := by simp [h8]
        simp only [this, if_true]


theorem sequence_shape (cfg : Cfg) (ps : PS) (it : It) (r : Re) (ps' : PS) (it' : It)
    (h : sequence cfg ps it = some (r, ps', it')) :
    ∃ cls, (r, ps') = if cfg.pathname || ps.afterStart then (catE (restrictSequence cfg ps).1 cls, ps.resetDirTrack)
                      else (cls, ps) := by
  unfold sequence at h
  simp only [] at h
  split at h
  · cases h
  · split at h
    · cases h
    · split at h
      · cases h
      · split at h
        · cases h
        · split at h
          · simp only [restrictSequence] at h
            injection h with h; injection h with h1 h2; injection h2 with h2 h3
            rename_i hc
            exact ⟨_, by rw [hc, ← h1, ← h2]; rfl⟩
          · injection h with h; injection h with h1 h2; injection h2 with h2 h3
            rename_i hc
            exact ⟨_, by rw [if_neg hc, ← h1, ← h2]⟩

/-- what one top-level character does when it is not (the start of) a group that parses:
    the arguments of the recursive call `(iterator, state, current)` -/
def rootPlain (cfg : Cfg) (c : Char) (it : It) (ps : PS) (cur : List Item) : It × PS × List Item :=
  if c = '.' then (it, ps.updateDirState, .re (handleDot cfg ps it) :: cur)
  else if c = '*' then
    let r := handleStar cfg ps it cur
    (r.2.1, r.1.updateDirState, r.2.2)
  else if c = '?' then
    let q := qmarkItem cfg ps
    (it, q.2.updateDirState, q.1 :: cur)
  else if c = '/' then
    if cfg.pathname then
      let r := cleanUpInverse cfg ps.setStartDir cur false
      (consumePathSep cfg it, ({ r.2 with matchbase := false } : PS).updateDirState,
        .re (Frag.sepPlus cfg.win) :: r.1)
    else (it, ps.updateDirState, .re (Frag.sep cfg.win) :: cur)
  else if c = '\\' then
    match references cfg ps it with
    | .val v it' ps' =>
      if ps'.dirStart then
        let r := cleanUpInverse cfg ps' cur false
        (consumePathSep cfg it', ({ r.2 with matchbase := false } : PS).updateDirState, .re v :: r.1)
      else (it', ps'.updateDirState, .re v :: cur)
    | .dot it' => (it', ps, cur)
    | .stop => (it, ps.updateDirState, cur)
  else if c = '[' then
    match sequence cfg ps it with
    | some (r, ps', it') => (it', ps'.updateDirState, .re r :: cur)
    | none => (it, ps.updateDirState, .re (.lit '[') :: cur)
  else (it, ps.updateDirState, .re (.lit c) :: cur)

def rootTok (cfg : Cfg) (c : Char) (it : It) (ps : PS) (cur : List Item) : It × PS × List Item :=
  if cfg.extend && c ∈ extTypes then
    let r := parseExtend cfg (2 * it.rest.length + 8) c it ps cur true
    if r.1 then (r.2.2.1, r.2.1.updateDirState, r.2.2.2)
    else rootPlain cfg c it r.2.1 cur
  else rootPlain cfg c it ps cur

theorem rootLoop_eq (cfg : Cfg) (fuel : Nat) (it : It) (ps : PS) (cur : List Item) :
    rootLoop cfg (fuel+1) it ps cur =
      match it.next with
      | none => (ps, cur)
      | some (c, it1) =>
        let r := rootTok cfg c it1 ps cur
        rootLoop cfg fuel r.1 r.2.1 r.2.2 := by
  rw [rootLoop]
  cases h : it.next with
  | none => rfl
  | some v =>
    obtain ⟨c, it1⟩ := v
    simp only [rootTok]
    have tail : ∀ ps' : PS,
      (if c = '.' then
          rootLoop cfg fuel it1 ps'.updateDirState (.re (handleDot cfg ps' it1) :: cur)
        else if c = '*' then
          let (ps, it, cur) := handleStar cfg ps' it1 cur
          rootLoop cfg fuel it ps.updateDirState cur
        else if c = '?' then
          let (q, ps) := qmarkItem cfg ps'
          rootLoop cfg fuel it1 ps.updateDirState (q :: cur)
        else if c = '/' then
          if cfg.pathname then
            let ps := ps'.setStartDir
            let (cur, ps) := cleanUpInverse cfg ps cur false
            let it := consumePathSep cfg it1
            let ps := { ps with matchbase := false }
            rootLoop cfg fuel it ps.updateDirState (.re (Frag.sepPlus cfg.win) :: cur)
          else
            rootLoop cfg fuel it1 ps'.updateDirState (.re (Frag.sep cfg.win) :: cur)
        else if c = '\\' then
          match references cfg ps' it1 with
          | .val v it' ps' =>
            if ps'.dirStart then
              let (cur, ps') := cleanUpInverse cfg ps' cur false
              let it' := consumePathSep cfg it'
              let ps' := { ps' with matchbase := false }
              rootLoop cfg fuel it' ps'.updateDirState (.re v :: cur)
            else
              rootLoop cfg fuel it' ps'.updateDirState (.re v :: cur)
          | .dot it' => rootLoop cfg fuel it' ps' cur
          | .stop => rootLoop cfg fuel it1 ps'.updateDirState cur
        else if c = '[' then
          match sequence cfg ps' it1 with
          | some (r, ps', it') => rootLoop cfg fuel it' ps'.updateDirState (.re r :: cur)
          | none => rootLoop cfg fuel it1 ps'.updateDirState (.re (.lit '[') :: cur)
        else
          rootLoop cfg fuel it1 ps'.updateDirState (.re (.lit c) :: cur)) =
      rootLoop cfg fuel (rootPlain cfg c it1 ps' cur).1 (rootPlain cfg c it1 ps' cur).2.1
        (rootPlain cfg c it1 ps' cur).2.2 := by
      intro ps'
      unfold rootPlain
      by_cases h1 : c = '.'
      · simp only [h1, if_true]
      simp only [h1, if_false]
      by_cases h2 : c = '*'
      · simp only [h2, if_true]
      simp only [h2, if_false]
      by_cases h3 : c = '?'
      · simp only [h3, if_true]
      simp only [h3, if_false]
      by_cases h4 : c = '/'
      · simp only [h4, if_true]; split <;> rfl
      simp only [h4, if_false]
      by_cases h5 : c = '\\'
      · simp only [h5, if_true]
        cases references cfg ps' it1 with
        | val v it' ps'' => simp only []; split <;> rfl
        | dot _ => rfl
        | stop => rfl
      simp only [h5, if_false]
      by_cases h6 : c = '['
      · simp only [h6, if_true]; cases sequence cfg ps' it1 <;> rfl
      simp only [h6, if_false]
    by_cases hx : (cfg.extend && decide (c ∈ extTypes)) = true
    · simp only [hx, ite_true]
      rcases hp : parseExtend cfg (2 * it1.rest.length + 8) c it1 ps cur true with ⟨ok, ps', it', cur'⟩
      cases ok
      · simp only [Bool.false_eq_true, ite_false]
        exact tail ps'
      · rfl
    · have hx' : (cfg.extend && decide (c ∈ extTypes)) = false := by simpa using hx
      simp only [hx', Bool.false_eq_true, if_false]
      exact tail ps


/-! ## Part 2: frame facts -/

@[simp] theorem updateDirState_globstar (ps : PS) : ps.updateDirState.globstar = ps.globstar := by
  unfold PS.updateDirState; split
  · rfl
  · split <;> rfl

@[simp] theorem updateDirState_inList (ps : PS) : ps.updateDirState.inList = ps.inList := by
  unfold PS.updateDirState; split
  · rfl
  · split <;> rfl

theorem updateDirState_dirStart (ps : PS) (h : ps.dirStart = false) : ps.updateDirState.dirStart = false := by
  unfold PS.updateDirState; simp only [h]; split
  · rfl
  · split
    · rfl
    · exact h

theorem cleanUpInverse_globstar (cfg : Cfg) (ps : PS) (cur : List Item) (n : Bool) :
    (cleanUpInverse cfg ps cur n).2.globstar = ps.globstar := by
  unfold cleanUpInverse; split <;> rfl

@[simp] theorem peEnter_globstar (ps : PS) (lt : Char) (rd : Bool) : (peEnter ps lt rd).globstar = ps.globstar := by
  unfold peEnter; simp only []; split <;> rfl

@[simp] theorem peFinish_globstar (t : PS) (s : Bool) (ps : PS) : (peFinish t s ps).globstar = ps.globstar := by
  unfold peFinish; simp only []
  split <;> split <;> split <;> rfl

@[simp] theorem peFail_globstar (t ps : PS) : (peFail t ps).globstar = ps.globstar := by
  unfold peFail; rw [peFinish_globstar]

@[simp] theorem peBuild_globstar (cfg : Cfg) (lt : Char) (t : PS) (body cur : List Item) (ps : PS) :
    (peBuild cfg lt t body cur ps).2.globstar = ps.globstar := by
  unfold peBuild; simp only []
  repeat' split
  all_goals rfl

/-- the star fragment of fnmatch mode -/
def fnStar (cfg : Cfg) (ps : PS) : Re :=
  if ps.afterStart && !cfg.dot then .cat Frag.noDot Frag.star else Frag.star

/-- without `globstar` a star is just a star -/
theorem handleStar_ng (cfg : Cfg) (ps : PS) (it : It) (cur : List Item) (hg : ps.globstar = false)
    (hp : cfg.pathname = false) :
    handleStar cfg ps it cur =
      (ps.resetDirTrack, (if ps.afterStart then dropStars cfg.extend it else it),
        .re (if ps.afterStart then Re.cat cfg.needChar (fnStar cfg ps) else fnStar cfg ps) :: cur) := by
  unfold handleStar fnStar
  simp only [hg, hp, Bool.and_false, Bool.false_and, Bool.false_eq_true, ite_false]
  by_cases ha : ps.afterStart = true
  · simp only [ha, ite_true]
    by_cases hd : cfg.dot = true <;> simp [hd]
  · simp only [ha]
    simp

theorem references_val (cfg : Cfg) (hp : cfg.pathname = false) (hb : cfg.bslashAbort = false)
    (ps : PS) (it : It) (v : Re) (it' : It) (ps' : PS) (h : references cfg ps it = .val v it' ps') : ps' = ps := by
  unfold references at h
  simp only [hp, hb, Bool.false_eq_true, if_false] at h
  split at h
  · cases h
  · repeat' split at h
    all_goals first | (cases h; done) | (injection h with _ _ h; exact h.symm)

theorem sequence_ps (cfg : Cfg) (ps : PS) (it : It) (r : Re) (ps' : PS) (it' : It)
    (h : sequence cfg ps it = some (r, ps', it')) : ps' = ps.resetDirTrack ∨ ps' = ps := by
  obtain ⟨cls, hc⟩ := sequence_shape cfg ps it r ps' it' h
  split at hc
  · left; injection hc with _ h2
  · right; injection hc with _ h2

theorem extPlain_ng (cfg : Cfg) (hp : cfg.pathname = false) (hb : cfg.bslashAbort = false)
    (c : Char) (it : It) (ps : PS) (ext : List Item) (a n : Bool) (hg : ps.globstar = false) :
    (extPlain cfg c it ps ext a n).1.globstar = false := by
  unfold extPlain
  split
  · simp only [handleStar_ng cfg ps it ext hg hp]; exact hg
  split
  · simp only []; split
    · exact hg
    · exact hg
  split
  · exact hg
  split
  · exact hg
  split
  · simp only []
    split <;> split <;> simp [PS.setStartDir, cleanUpInverse_globstar, hg]
  split
  · split
    · rename_i h; rw [references_val cfg hp hb _ _ _ _ _ h]; exact hg
    · exact hg
    · exact hg
  split
  · split
    · rename_i h
      rcases sequence_ps cfg _ _ _ _ _ h with h | h <;> rw [h] <;> exact hg
    · exact hg
  split <;> exact hg

def ExtG (r : Except PS (PS × It × List Item)) : Prop :=
  match r with
  | .error ps' => ps'.globstar = false
  | .ok r => r.1.globstar = false

theorem frame (cfg : Cfg) (hp : cfg.pathname = false) (hb : cfg.bslashAbort = false) : ∀ fuel,
    (∀ c it ps cur rd, ps.globstar = false → (parseExtend cfg fuel c it ps cur rd).2.1.globstar = false) ∧
    (∀ it ps ext a n, ps.globstar = false → ExtG (extLoop cfg fuel it ps ext a n)) := by
  intro fuel
  induction fuel with
  | zero =>
    refine ⟨?_, ?_⟩
    · intro c it ps cur rd hg; simpa [parseExtend] using hg
    · intro it ps ext a n hg; simpa [extLoop, ExtG] using hg
  | succ fuel ih =>
    refine ⟨?_, ?_⟩
    · intro c it ps cur rd hg
      rw [parseExtend_eq]
      split
      · simpa using hg
      · split
        · simpa using hg
        · rename_i c1 it1 _ _
          have := ih.2 it1 (peEnter ps c rd) [] ps.afterStart ps.invNest (by simpa using hg)
          split
          · rename_i h; rw [h] at this; simpa [ExtG] using this
          · rename_i h; rw [h] at this
            simp only [ExtG] at this
            simp only [peFinish_globstar]
            split
            · rw [cleanUpInverse_globstar]; simpa using this
            · simpa using this
    · intro it ps ext a n hg
      rw [extLoop_eq]
      split
      · exact hg
      · rename_i c it1 _
        have htok : (extTok cfg fuel c it1 ps ext a n).1.globstar = false := by
          unfold extTok
          split
          · simp only []
            split
            · exact ih.1 _ _ _ _ _ hg
            · exact extPlain_ng cfg hp hb _ _ _ _ _ _ (ih.1 _ _ _ _ _ hg)
          · exact extPlain_ng cfg hp hb _ _ _ _ _ _ hg
        unfold extCont
        simp only []
        have hps : (if (extTok cfg fuel c it1 ps ext a n).2.2.2 = true then
            (extTok cfg fuel c it1 ps ext a n).1.updateDirState else (extTok cfg fuel c it1 ps ext a n).1).globstar = false := by
          split
          · simpa using htok
          · exact htok
        split
        · exact hps
        · exact ih.2 _ _ _ _ _ hps


/-! ### top level: the stack of items only grows -/

def isBar : Item → Bool
  | .bar => true
  | _ => false

def NoBar (l : List Item) : Prop := ∀ x ∈ l, isBar x = false

theorem NoBar.nil : NoBar [] := by intro x hx; cases hx
theorem NoBar.cons {x : Item} {l : List Item} (hx : isBar x = false) (hl : NoBar l) : NoBar (x :: l) := by
  intro y hy
  rcases List.mem_cons.mp hy with rfl | h
  · exact hx
  · exact hl y h
theorem NoBar.append {l₁ l₂ : List Item} (h₁ : NoBar l₁) (h₂ : NoBar l₂) : NoBar (l₁ ++ l₂) := by
  intro y hy
  rcases List.mem_append.mp hy with h | h
  · exact h₁ y h
  · exact h₂ y h

theorem NoBar.reverse {l : List Item} (h : NoBar l) : NoBar l.reverse :=
  fun x hx => h x (List.mem_reverse.mp hx)

/-- the parser-state invariant at top level, fnmatch mode -/
structure Top (ps : PS) : Prop where
  inList : ps.inList = false
  globstar : ps.globstar = false
  dirStart : ps.dirStart = false

theorem Top.update {ps : PS} (h : Top ps) : Top ps.updateDirState :=
  ⟨by simpa using h.inList, by simpa using h.globstar, updateDirState_dirStart ps h.dirStart⟩

theorem Top.reset {ps : PS} (h : Top ps) : Top ps.resetDirTrack := ⟨h.inList, h.globstar, rfl⟩

theorem rootPlain_top (cfg : Cfg) (hp : cfg.pathname = false) (hb : cfg.bslashAbort = false)
    (c : Char) (it : It) (ps : PS) (cur : List Item) (ht : Top ps) :
    ∃ new, (rootPlain cfg c it ps cur).2.2 = new ++ cur ∧ NoBar new ∧ Top (rootPlain cfg c it ps cur).2.1 := by
  unfold rootPlain
  split
  · exact ⟨[_], rfl, NoBar.cons rfl NoBar.nil, ht.update⟩
  split
  · rw [handleStar_ng cfg ps it cur ht.globstar hp]
    exact ⟨[_], rfl, NoBar.cons rfl NoBar.nil, ht.reset.update⟩
  split
  · exact ⟨[_], rfl, NoBar.cons rfl NoBar.nil, ht.reset.update⟩
  split
  · simp only [hp, Bool.false_eq_true, if_false]
    exact ⟨[_], rfl, NoBar.cons rfl NoBar.nil, ht.update⟩
  split
  · split
    · rename_i h
      have := references_val cfg hp hb _ _ _ _ _ h
      subst this
      simp only [ht.dirStart, Bool.false_eq_true, if_false]
      exact ⟨[_], rfl, NoBar.cons rfl NoBar.nil, ht.update⟩
    · exact ⟨[], rfl, NoBar.nil, ht⟩
    · exact ⟨[], rfl, NoBar.nil, ht.update⟩
  split
  · split
    · rename_i h
      refine ⟨[_], rfl, NoBar.cons rfl NoBar.nil, ?_⟩
      rcases sequence_ps cfg _ _ _ _ _ h with h | h <;> rw [h]
      · exact ht.reset.update
      · exact ht.update
    · exact ⟨[_], rfl, NoBar.cons rfl NoBar.nil, ht.update⟩
  · exact ⟨[_], rfl, NoBar.cons rfl NoBar.nil, ht.update⟩

@[simp] theorem peFinish_inList (t : PS) (s : Bool) (ps : PS) (h : t.inList = false) : (peFinish t s ps).inList = false := by
  unfold peFinish; simp only [h]
  split <;> split <;> rfl

theorem peFinish_fail_dirStart (t : PS) (ps : PS) : (peFinish t false ps).dirStart = t.dirStart := by
  unfold peFinish; simp

theorem peFinish_fail_afterStart (t : PS) (ps : PS) : (peFinish t false ps).afterStart = t.afterStart := by
  unfold peFinish; simp

theorem peFinish_ok_dirStart (t : PS) (ps : PS) : (peFinish t true ps).dirStart = false := by
  unfold peFinish; simp [PS.resetDirTrack]

theorem peFinish_ok_afterStart (t : PS) (ps : PS) : (peFinish t true ps).afterStart = false := by
  unfold peFinish; simp [PS.resetDirTrack]

theorem peFail_top (t ps : PS) (ht : Top t) (hg : ps.globstar = false) : Top (peFail t ps) :=
  ⟨peFinish_inList _ _ _ ht.inList, by simpa using hg, by rw [peFail, peFinish_fail_dirStart]; exact ht.dirStart⟩

theorem peBuild_new (cfg : Cfg) (lt : Char) (t : PS) (body cur : List Item) (ps : PS) :
    ∃ new, (peBuild cfg lt t body cur ps).1 = new ++ cur ∧ NoBar new := by
  unfold peBuild; simp only []
  repeat' split
  all_goals first
    | exact ⟨[_], rfl, NoBar.cons rfl NoBar.nil⟩
    | exact ⟨[_, _], rfl, NoBar.cons rfl (NoBar.cons rfl NoBar.nil)⟩

/-- a top-level `parse_extend`: on failure nothing but the state changes; on success items are pushed -/
theorem parseExtend_top (cfg : Cfg) (hp : cfg.pathname = false) (hb : cfg.bslashAbort = false)
    (fuel : Nat) (c : Char) (it : It) (ps : PS) (cur : List Item) (rd : Bool) (ht : Top ps) :
    Top (parseExtend cfg (fuel+1) c it ps cur rd).2.1 ∧
    ((parseExtend cfg (fuel+1) c it ps cur rd).1 = false →
       (parseExtend cfg (fuel+1) c it ps cur rd).2.2 = (it, cur) ∧
       (parseExtend cfg (fuel+1) c it ps cur rd).2.1.afterStart = ps.afterStart) ∧
    ∃ new, (parseExtend cfg (fuel+1) c it ps cur rd).2.2.2 = new ++ cur ∧ NoBar new := by
  rw [parseExtend_eq]
  have hfail : ∀ ps' : PS, ps'.globstar = false →
      Top (false, peFail ps ps', it, cur).2.1 ∧
      ((false, peFail ps ps', it, cur).1 = false →
        (false, peFail ps ps', it, cur).2.2 = (it, cur) ∧
        (false, peFail ps ps', it, cur).2.1.afterStart = ps.afterStart) ∧
      ∃ new, (false, peFail ps ps', it, cur).2.2.2 = new ++ cur ∧ NoBar new := by
    intro ps' hg
    exact ⟨peFail_top _ _ ht hg, fun _ => ⟨rfl, by simp [peFail, peFinish_fail_afterStart]⟩, [], rfl, NoBar.nil⟩
  split
  · exact hfail _ (by simpa using ht.globstar)
  · split
    · exact hfail _ (by simpa using ht.globstar)
    · rename_i c1 it1 _ _
      have hG := (frame cfg hp hb fuel).2 it1 (peEnter ps c rd) [] ps.afterStart ps.invNest
        (by simpa using ht.globstar)
      split
      · rename_i h; rw [h] at hG; exact hfail _ hG
      · rename_i ps2 it2 extended h
        rw [h] at hG
        simp only [ExtG] at hG
        simp only [ht.inList, Bool.false_eq_true, if_false]
        refine ⟨⟨peFinish_inList _ _ _ ht.inList, by simpa using hG, peFinish_ok_dirStart _ _⟩, ?_, ?_⟩
        · intro hc; cases hc
        · exact peBuild_new cfg c ps extended.reverse cur ps2

theorem rootTok_top (cfg : Cfg) (hp : cfg.pathname = false) (hb : cfg.bslashAbort = false)
    (c : Char) (it : It) (ps : PS) (cur : List Item) (ht : Top ps) :
    ∃ new, (rootTok cfg c it ps cur).2.2 = new ++ cur ∧ NoBar new ∧ Top (rootTok cfg c it ps cur).2.1 := by
  unfold rootTok
  split
  · obtain ⟨h1, h2, new, h3, h4⟩ := parseExtend_top cfg hp hb (2 * it.rest.length + 7) c it ps cur true ht
    simp only []
    split
    · exact ⟨new, h3, h4, h1.update⟩
    · exact rootPlain_top cfg hp hb c it _ cur h1
  · exact rootPlain_top cfg hp hb c it ps cur ht

/-- **the item stack only grows at top level**, and never receives a `|` -/
theorem rootLoop_suffix (cfg : Cfg) (hp : cfg.pathname = false) (hb : cfg.bslashAbort = false) :
    ∀ (fuel : Nat) (it : It) (ps : PS) (cur : List Item), Top ps →
      ∃ new, (rootLoop cfg fuel it ps cur).2 = new ++ cur ∧ NoBar new := by
  intro fuel
  induction fuel with
  | zero => intro it ps cur _; exact ⟨[], by simp [rootLoop], NoBar.nil⟩
  | succ fuel ih =>
    intro it ps cur ht
    rw [rootLoop_eq]
    split
    · exact ⟨[], rfl, NoBar.nil⟩
    · rename_i c it1 _
      obtain ⟨new, h1, h2, h3⟩ := rootTok_top cfg hp hb c it1 ps cur ht
      obtain ⟨new', h4, h5⟩ := ih (rootTok cfg c it1 ps cur).1 _ (rootTok cfg c it1 ps cur).2.2 h3
      refine ⟨new' ++ new, ?_, NoBar.append h5 h2⟩
      simp only []
      rw [h4, h1, List.append_assoc]


/-! ## Part 3: regex facts -/

/-- `x` cannot start a match at a state whose next character is `.` -/
def DotRefusing (x : Re) : Prop := ∀ md a b, a.rest.head? = some '.' → ¬ Re.M md x a b

theorem DotRefusing.ne_eps {x : Re} (h : DotRefusing x) : x ≠ .eps := by
  intro he; subst he
  exact h ⟨false, false⟩ ⟨false, ['.']⟩ ⟨false, ['.']⟩ rfl rfl

theorem charEq_dot (ci : Bool) (c : Char) (h : charEq ci c '.' = true) : c = '.' := by
  unfold charEq at h
  cases ci
  · simpa using h
  · simp only [ite_true, beq_iff_eq] at h
    have h1 : asciiLower '.' = '.' := by decide
    rw [h1] at h
    exact (asciiLower_eq_nonLetter nonLetter_dot c).mp h

theorem refuse_noDot : DotRefusing Frag.noDot := by
  intro md a c hd h
  simp only [Frag.noDot, Re.M] at h
  apply h.2
  cases hr : a.rest with
  | nil => simp [hr] at hd
  | cons x xs =>
    simp [hr] at hd; subst hd
    exact ⟨⟨false, xs⟩, '.', xs, hr, (clsDot_iff md.ci '.').mpr rfl, rfl⟩

theorem refuse_cat {x : Re} (y : Re) (h : DotRefusing x) : DotRefusing (.cat x y) := by
  intro md a b hd hm
  simp only [Re.M] at hm
  obtain ⟨c, h1, _⟩ := hm
  exact h md a c hd h1

theorem refuse_needChar {x : Re} (h : DotRefusing x) : DotRefusing (.cat Frag.needChar x) := by
  intro md a b hd hm
  simp only [Frag.needChar, Re.M] at hm
  obtain ⟨c, ⟨rfl, _⟩, h2⟩ := hm
  exact h md _ b hd h2

theorem refuse_lit {c : Char} (hc : c ≠ '.') : DotRefusing (.lit c) := by
  intro md a b hd hm
  simp only [Re.M] at hm
  obtain ⟨d, s, e1, e2, _⟩ := hm
  simp [e1] at hd; subst hd
  exact hc (charEq_dot md.ci c e2)

theorem refuse_sep : DotRefusing (Frag.sep false) := by
  intro md a b hd hm
  obtain ⟨d, s, e1, e2, _⟩ := (M_sep md a b).mp hm
  simp [e1] at hd; subst hd; simp at e2

/-- the guarded star of fnmatch mode, `(?=.)(?![.]).*?` -/
theorem refuse_star : DotRefusing (.cat Frag.needChar (.cat Frag.noDot Frag.star)) :=
  refuse_needChar (refuse_cat _ refuse_noDot)

theorem noDot_ne_eps : Frag.noDot ≠ .eps := by simp [Frag.noDot]

theorem refuse_catE_noDot (y : Re) : DotRefusing (catE Frag.noDot y) := by
  unfold catE
  rw [if_neg noDot_ne_eps]
  exact refuse_cat _ refuse_noDot

/-- the configuration facts used below -/
structure FnCfg (cfg : Cfg) : Prop where
  pathname : cfg.pathname = false
  unix : cfg.unix = true
  bslash : cfg.bslashAbort = false
  dot : cfg.dot = false

theorem FnCfg.win {cfg : Cfg} (h : FnCfg cfg) : cfg.win = false := by simp [Cfg.win, h.unix]

theorem FnCfg.needChar {cfg : Cfg} (h : FnCfg cfg) : cfg.needChar = Frag.needChar := by
  simp [Cfg.needChar, h.pathname]

theorem restrictSequence_fst (cfg : Cfg) (h : FnCfg cfg) (ps : PS) (ha : ps.afterStart = true) :
    (restrictSequence cfg ps).1 = Frag.noDot := by
  simp [restrictSequence, h.pathname, h.dot, ha]

/-! ## Part 4: the first token -/

/-- what a first character that is not a (successfully parsed) group start, nor a written dot,
    pushes: one item that refuses a dot -/
theorem rootPlain_first (cfg : Cfg) (h : FnCfg cfg) (c : Char) (it : It) (ps : PS) (cur : List Item)
    (ht : Top ps) (ha : ps.afterStart = true) (hc : c ≠ '.')
    (hbs : c = '\\' → ∃ d r, it.rest = d :: r ∧ d ≠ '.') :
    ∃ x, DotRefusing x ∧ (rootPlain cfg c it ps cur).2.2 = .re x :: cur := by
  unfold rootPlain
  rw [if_neg hc]
  split
  · rw [handleStar_ng cfg ps it cur ht.globstar h.pathname]
    simp only [ha, if_true, fnStar, h.dot, Bool.not_false, Bool.and_self, h.needChar]
    exact ⟨_, refuse_star, rfl⟩
  split
  · refine ⟨catE (restrictSequence cfg ps).1 Frag.qmark, ?_, rfl⟩
    rw [restrictSequence_fst cfg h ps ha]; exact refuse_catE_noDot _
  split
  · simp only [h.pathname, Bool.false_eq_true, if_false, h.win]
    exact ⟨_, refuse_sep, rfl⟩
  split
  · rename_i hb
    obtain ⟨d, r, hr, hd⟩ := hbs hb
    have hn : it.next = some (d, ⟨it.idx + 1, r⟩) := by simp [It.next, hr]
    have href : references cfg ps it =
        .val (if d = '\\' then .lit '\\' else if d = '/' then Frag.sep false else .lit d) ⟨it.idx + 1, r⟩ ps := by
      unfold references
      simp only [hn, h.bslash, h.unix, h.pathname, h.win, Bool.false_eq_true, if_false, Bool.not_true, hd]
      by_cases h1 : d = '\\'
      · simp [h1]
      · by_cases h2 : d = '/'
        · simp [h2]
        · simp [h1, h2]
    rw [href]
    simp only [ht.dirStart, Bool.false_eq_true, if_false]
    refine ⟨_, ?_, rfl⟩
    by_cases h1 : d = '\\'
    · simp only [h1, if_true]; exact refuse_lit (by decide)
    · by_cases h2 : d = '/'
      · subst h2; exact refuse_sep
      · simp only [h1, h2, if_false]; exact refuse_lit hd
  split
  · split
    · rename_i r ps' it' hs
      obtain ⟨cls, hcls⟩ := sequence_shape cfg ps it r ps' it' hs
      simp only [ha, Bool.or_true, if_true] at hcls
      injection hcls with h1 _
      rw [restrictSequence_fst cfg h ps ha] at h1
      exact ⟨r, by rw [h1]; exact refuse_catE_noDot _, rfl⟩
    · exact ⟨_, refuse_lit (by decide), rfl⟩
  · exact ⟨_, refuse_lit hc, rfl⟩


theorem parseExtend_ok_top (cfg : Cfg) (fuel : Nat) (c : Char) (it : It) (ps : PS) (cur : List Item) (rd : Bool)
    (hl : ps.inList = false) (hok : (parseExtend cfg (fuel+1) c it ps cur rd).1 = true) :
    ∃ body ps2, (parseExtend cfg (fuel+1) c it ps cur rd).2.2.2 = (peBuild cfg c ps body cur ps2).1 ∧
      it.rest.head? = some '(' := by
  rw [parseExtend_eq] at hok ⊢
  split at hok
  · cases hok
  · rename_i c1 it1 hn
    have hn' : it.next = some (c1, it1) := hn
    split at hok
    · cases hok
    · rename_i hc
      rw [if_neg hc]
      have hc1 : c1 = '(' := by simpa using hc
      have hh : it.rest.head? = some '(' := by
        unfold It.next at hn'
        split at hn'
        · cases hn'
        · rename_i d r hr; injection hn' with hn'; injection hn' with h1 _; rw [hr, ← hc1, ← h1]; rfl
      split
      · rename_i h; rw [h] at hok; cases hok
      · rename_i ps2 it2 extended h
        simp only [hl, Bool.false_eq_true, if_false]
        exact ⟨_, _, rfl, hh⟩

theorem invStar_fn (cfg : Cfg) (h : FnCfg cfg) (ps : PS) :
    invStar cfg true ps = .cat Frag.needChar (.cat Frag.noDot Frag.star) := by
  simp [invStar, h.pathname, h.dot, h.needChar]

/-- **the first token.**  At the start of the pattern, a first character that is not a written
    dot either opens a `?( *( +( @(` group that parses, or pushes a single item that refuses a
    dot, or opens a `!(` group whose closing star refuses a dot. -/
theorem rootTok_first (cfg : Cfg) (h : FnCfg cfg) (c : Char) (it : It) (ps : PS) (cur : List Item)
    (ht : Top ps) (ha : ps.afterStart = true) (hc : c ≠ '.')
    (hbs : c = '\\' → ∃ d r, it.rest = d :: r ∧ d ≠ '.') :
    (cfg.extend = true ∧ (c = '?' ∨ c = '*' ∨ c = '+' ∨ c = '@') ∧ it.rest.head? = some '(' ∧
        (parseExtend cfg (2 * it.rest.length + 8) c it ps cur true).1 = true) ∨
    (∃ x, DotRefusing x ∧ (rootTok cfg c it ps cur).2.2 = .re x :: cur) ∨
    (∃ star cap body, DotRefusing star ∧ (rootTok cfg c it ps cur).2.2 = .ph star :: .invOpen cap body :: cur) := by
  unfold rootTok
  split
  · rename_i hx
    simp only [Bool.and_eq_true, decide_eq_true_eq] at hx
    obtain ⟨h1, h2, _⟩ := parseExtend_top cfg h.pathname h.bslash (2 * it.rest.length + 7) c it ps cur true ht
    simp only []
    split
    · rename_i hok
      obtain ⟨body, ps2, hb, hh⟩ := parseExtend_ok_top cfg (2 * it.rest.length + 7) c it ps cur true ht.inList hok
      by_cases hq : c = '?' ∨ c = '*' ∨ c = '+' ∨ c = '@'
      · exact Or.inl ⟨hx.1, hq, hh, hok⟩
      · right; right
        simp only [not_or] at hq
        refine ⟨.cat Frag.needChar (.cat Frag.noDot Frag.star), cfg.capture, body, refuse_star, ?_⟩
        show (parseExtend cfg (2 * it.rest.length + 7 + 1) c it ps cur true).2.2.2 = _
        rw [hb]
        simp only [peBuild, hq.1, hq.2.1, hq.2.2.1, hq.2.2.2, if_false, ha, invStar_fn cfg h]
    · rename_i hno
      have hno' : (parseExtend cfg (2 * it.rest.length + 7 + 1) c it ps cur true).1 = false := by
        simpa using hno
      right; left
      exact rootPlain_first cfg h c it _ cur h1 (by rw [(h2 hno').2]; exact ha) hc hbs
  · right; left
    exact rootPlain_first cfg h c it ps cur ht ha hc hbs


/-! ## Part 5: `clean_up_inverse` keeps positions; from items to the regex -/

/-- `l'` is `l` with some placeholders closed -/
inductive Rel : List Item → List Item → Prop
  | nil : Rel [] []
  | same (x : Item) {l l' : List Item} : Rel l l' → Rel (x :: l) (x :: l')
  | ph (star : Re) (t : List Item) (e : Option Re) {l l' : List Item} :
      Rel l l' → Rel (.ph star :: l) (.closed t e star :: l')

theorem Rel.refl : ∀ l, Rel l l
  | [] => .nil
  | x :: l => .same x (Rel.refl l)

theorem Rel.append {a a' b b' : List Item} (h₁ : Rel a a') (h₂ : Rel b b') : Rel (a ++ b) (a' ++ b') := by
  induction h₁ with
  | nil => exact h₂
  | same x _ ih => exact .same x ih
  | ph s t e _ ih => exact .ph s t e ih

theorem Rel.noBar {l l' : List Item} (h : Rel l l') (hn : NoBar l) : NoBar l' := by
  induction h with
  | nil => exact hn
  | same x _ ih =>
    exact NoBar.cons (hn x List.mem_cons_self) (ih (fun y hy => hn y (List.mem_cons_of_mem _ hy)))
  | ph s t e _ ih =>
    exact NoBar.cons rfl (ih (fun y hy => hn y (List.mem_cons_of_mem _ hy)))

theorem cleanUpGo_rel (cfg : Cfg) (nested : Bool) : ∀ (rev done : List Item) (n : Nat),
    ∃ mid, (cleanUpGo cfg nested rev done n).1 = mid ++ done ∧ Rel rev.reverse mid := by
  intro rev
  induction rev with
  | nil => intro done n; exact ⟨[], rfl, .nil⟩
  | cons x rest ih =>
    intro done n
    have other : (cleanUpGo cfg nested (x :: rest) done n = cleanUpGo cfg nested rest (x :: done) n) →
        ∃ mid, (cleanUpGo cfg nested (x :: rest) done n).1 = mid ++ done ∧ Rel (x :: rest).reverse mid := by
      intro he
      obtain ⟨mid, h1, h2⟩ := ih (x :: done) n
      refine ⟨mid ++ [x], by rw [he, h1]; simp, ?_⟩
      rw [List.reverse_cons]
      exact Rel.append h2 (Rel.refl [x])
    cases x with
    | ph star =>
      simp only [cleanUpGo]
      obtain ⟨mid, h1, h2⟩ := ih (.closed (if cfg.capture then Item.eraseCapL done else done)
        (if nested then none else some cfg.eop) star :: done) (n + 1)
      refine ⟨mid ++ [.closed (if cfg.capture then Item.eraseCapL done else done)
        (if nested then none else some cfg.eop) star], by rw [h1]; simp, ?_⟩
      rw [List.reverse_cons]
      exact Rel.append h2 (.ph star _ _ .nil)
    | re r => exact other (by simp only [cleanUpGo])
    | empty => exact other (by simp only [cleanUpGo])
    | bar => exact other (by simp only [cleanUpGo])
    | group k c b => exact other (by simp only [cleanUpGo])
    | invOpen c b => exact other (by simp only [cleanUpGo])
    | closed t e s => exact other (by simp only [cleanUpGo])

theorem cleanUpInverse_rel (cfg : Cfg) (ps : PS) (cur : List Item) (nested : Bool) :
    Rel cur.reverse (cleanUpInverse cfg ps cur nested).1.reverse := by
  unfold cleanUpInverse
  split
  · exact Rel.refl _
  · obtain ⟨mid, h1, h2⟩ := cleanUpGo_rel cfg nested cur [] 0
    simp only [List.reverse_reverse]
    rw [h1, List.append_nil]; exact h2

/-- the regex of a group body cannot start a match at a dot -/
def BodyRefuses (body : List Item) : Prop := ∀ fuel r, Item.listToRe fuel body = some r → DotRefusing r

/-- before the final clean-up: the first non-empty item refuses a dot -/
inductive HeadRefuses0 : List Item → Prop
  | skip {l : List Item} : HeadRefuses0 l → HeadRefuses0 (.empty :: l)
  | re {x : Re} {l : List Item} : DotRefusing x → HeadRefuses0 (.re x :: l)
  | inv {star : Re} {c : Bool} {b l : List Item} : DotRefusing star →
      HeadRefuses0 (.invOpen c b :: .ph star :: l)
  | grp {k : GKind} {cap : Capt} {body l : List Item} : (k = .a ∨ k = .p) → BodyRefuses body →
      HeadRefuses0 (.group k cap body :: l)

/-- after it -/
inductive HeadRefuses : List Item → Prop
  | skip {l : List Item} : HeadRefuses l → HeadRefuses (.empty :: l)
  | re {x : Re} {l : List Item} : DotRefusing x → HeadRefuses (.re x :: l)
  | inv {star : Re} {c : Bool} {b t : List Item} {e : Option Re} {l : List Item} : DotRefusing star →
      HeadRefuses (.invOpen c b :: .closed t e star :: l)
  | bad {star : Re} {c : Bool} {b l : List Item} : HeadRefuses (.invOpen c b :: .ph star :: l)
  | grp {k : GKind} {cap : Capt} {body l : List Item} : (k = .a ∨ k = .p) → BodyRefuses body →
      HeadRefuses (.group k cap body :: l)

theorem Rel.headRefuses {l l' : List Item} (h : Rel l l') (h0 : HeadRefuses0 l) : HeadRefuses l' := by
  induction h0 generalizing l' with
  | skip _ ih =>
    cases h with
    | same _ h' => exact .skip (ih h')
  | re hx =>
    cases h with
    | same _ h' => exact .re hx
  | inv hs =>
    cases h with
    | same _ h' =>
      cases h' with
      | same _ h'' => exact .bad
      | ph _ t e h'' => exact .inv hs
  | grp hk hb =>
    cases h with
    | same _ h' => exact .grp hk hb

theorem splitBars_noBar : ∀ (l : List Item), NoBar l → splitBars l = [l]
  | [], _ => rfl
  | x :: l, h => by
    have ih := splitBars_noBar l (fun y hy => h y (List.mem_cons_of_mem _ hy))
    have hx := h x List.mem_cons_self
    cases x <;> first | (simp [isBar] at hx; done) | simp [splitBars, ih]

theorem refuse_catE' (r x : Re) (hr : DotRefusing r) : DotRefusing (catE' r x) := by
  intro md a b hd hm
  obtain ⟨m, h1, _⟩ := (M_catE' md r x hr.ne_eps a b).mp hm
  exact hr md a m hd h1

theorem refuse_grp {x : Re} (h : DotRefusing x) : DotRefusing (.grp x) :=
  fun md a c hd hm => h md a c hd (by simpa [Re.M] using hm)

theorem refuse_cap {x : Re} (h : DotRefusing x) : DotRefusing (.cap x) :=
  fun md a c hd hm => h md a c hd (by simpa [Re.M] using hm)

theorem refuse_plus {x : Re} (h : DotRefusing x) : DotRefusing (.plus x) := by
  intro md a c hd hm
  simp only [Re.M] at hm
  obtain ⟨m, h1, _⟩ := hm
  exact h md a m hd h1

theorem refuse_quant {k : GKind} {cap : Capt} {b : Re} (hk : k = .a ∨ k = .p) (hb : DotRefusing b) :
    DotRefusing (quant k cap b) := by
  rcases hk with rfl | rfl <;> cases cap
  · exact refuse_grp hb
  · exact refuse_cap hb
  · exact refuse_grp hb
  · exact refuse_plus (refuse_grp hb)
  · exact refuse_cap (refuse_plus (refuse_grp hb))
  · exact refuse_grp (refuse_plus (refuse_grp hb))

theorem seqToRe_refuses {items : List Item} (h : HeadRefuses items) :
    ∀ (fuel : Nat) (r : Re), Item.seqToRe fuel items = some r → DotRefusing r := by
  induction h with
  | skip _ ih =>
    intro fuel r hr
    cases fuel with
    | zero => simp [Item.seqToRe] at hr
    | succ f => simp only [Item.seqToRe] at hr; exact ih f r hr
  | @re x l hx =>
    intro fuel r hr
    cases fuel with
    | zero => simp [Item.seqToRe] at hr
    | succ f =>
      simp only [Item.seqToRe] at hr
      cases hs : Item.seqToRe f l with
      | none => simp [hs] at hr
      | some r' =>
        simp [hs] at hr
        rw [← hr]; exact refuse_catE' x r' hx
  | @inv star c b t e l hs =>
    intro fuel r hr
    cases fuel with
    | zero => simp [Item.seqToRe] at hr
    | succ f =>
      simp only [Item.seqToRe, Option.bind_eq_bind, Option.bind_eq_some_iff, Option.pure_def,
        Option.some.injEq] at hr
      obtain ⟨b', _, la, _, r', _, hr⟩ := hr
      rw [← hr]
      apply refuse_catE'
      have hg : DotRefusing (.cat (.look true la) star) := by
        intro md a b' hd hm
        simp only [Re.M] at hm
        obtain ⟨m, ⟨rfl, _⟩, h2⟩ := hm
        exact hs md _ _ hd h2
      cases c
      · intro md a b' hd hm; exact hg md a b' hd (by simpa [Re.M] using hm)
      · intro md a b' hd hm; exact hg md a b' hd (by simpa [Re.M] using hm)
  | bad =>
    intro fuel r hr
    cases fuel with
    | zero => simp [Item.seqToRe] at hr
    | succ f => simp [Item.seqToRe] at hr
  | @grp k cap body l hk hb =>
    intro fuel r hr
    cases fuel with
    | zero => simp [Item.seqToRe] at hr
    | succ f =>
      simp only [Item.seqToRe, Option.bind_eq_bind, Option.bind_eq_some_iff, Option.pure_def,
        Option.some.injEq] at hr
      obtain ⟨b', hb', r', _, hr⟩ := hr
      rw [← hr]
      apply refuse_catE'
      exact refuse_quant hk (hb f b' hb')

theorem listToRe_refuses {items : List Item} (hn : NoBar items) (h : HeadRefuses items)
    (fuel : Nat) (r : Re) (hr : Item.listToRe fuel items = some r) : DotRefusing r := by
  cases fuel with
  | zero => simp [Item.listToRe] at hr
  | succ f =>
    simp only [Item.listToRe, splitBars_noBar items hn, List.mapM_cons, List.mapM_nil] at hr
    cases hs : Item.seqToRe f items with
    | none => simp [hs] at hr
    | some r' =>
      simp [hs, altOfList] at hr
      rw [← hr]; exact seqToRe_refuses h f r' hs

/-- a compiled pattern whose first item refuses a dot matches no name beginning with a dot -/
theorem toRe_refuses (parsed : Parsed) (hn : NoBar parsed.items) (h : HeadRefuses parsed.items)
    (r : Re) (hr : parsed.toRe = some r) (s : List Char) (hs : s.head? = some '.') : ¬ r.FullMatch s := by
  unfold Parsed.toRe at hr
  cases hi : Item.listToRe (2 * Item.sizeL parsed.items + 4) parsed.items with
  | none => simp [hi] at hr
  | some inner =>
    simp [hi] at hr
    have := listToRe_refuses hn h _ inner hi
    rw [← hr]
    rintro ⟨b, hm⟩
    simp only [Re.M] at hm
    obtain ⟨c, ⟨rfl, _⟩, c', hm, _⟩ := hm
    exact this _ _ _ hs hm


end HF
end WcModel

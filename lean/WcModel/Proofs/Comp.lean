import WcModel.Model.Comp
import WcModel.Spec.Scope
import WcModel.Proofs.Regex
import WcModel.Proofs.Lang
import WcModel.Proofs.CharLemmas
/-
  Semantics of the tidy compiler: `Re.M (comp … g)` is the documented language `Pat.L g`
  (i) everywhere for tokens that do not stand at the start of the name, and
  (ii) at the start of a non-empty name that does not begin with `.` (or under DOTMATCH),
       provided no *repeated* group stands at the start (defect D1: guards inside a repeated
       group are re-tested at every iteration).
-/
namespace WcModel

theorem Iter.congr {R S : St → St → Prop} (h : ∀ a b, R a b ↔ S a b) {a b : St} :
    Iter R a b ↔ Iter S a b := by
  have : R = S := by funext x y; exact propext (h x y)
  rw [this]

theorem consume1_congr {p q : Char → Bool} (h : ∀ d, p d = q d) (a b : St) :
    consume1 p a b ↔ consume1 q a b := by
  have : p = q := funext h
  rw [this]

theorem M_any_dotall (ci : Bool) (a b : St) :
    Re.M ⟨true, ci⟩ .any a b ↔ consume1 (fun _ => true) a b := by
  simp only [Re.M]
  exact consume1_congr (fun d => by simp [anyMatch]) a b

theorem M_star_dotall (ci : Bool) (a b : St) :
    Re.M ⟨true, ci⟩ Frag.star a b ↔ Iter (consume1 (fun _ => true)) a b := by
  simp only [Frag.star, Re.M]
  exact Iter.congr (fun x y => M_any_dotall ci x y)

theorem toClsItem_hasCi (isBytes ci : Bool) (it : SCls) (d : Char) :
    (it.toClsItem isBytes).hasCi ci d = it.hasCi ci d := by
  cases it with
  | chr c => rfl
  | range lo hi => rfl
  | posix n =>
    simp only [SCls.toClsItem, ClsItem.hasCi, SCls.hasCi, posixItem_has]

theorem cls_sem (isBytes ci neg : Bool) (items : List SCls) (d : Char) :
    clsMatch ci neg (items.map (SCls.toClsItem isBytes)) d = sclsMatch ci neg items d := by
  simp only [clsMatch, sclsMatch, List.any_map]
  congr 1
  induction items with
  | nil => rfl
  | cons it rest ih => simp only [List.any_cons, Function.comp, toClsItem_hasCi, ih]

/-- the compilation of a sequence whose head is not a negation -/
theorem comp_seq (isBytes dot as : Bool) (p q : Pat) (hp : p.negFree = true) :
    comp isBytes dot as (.seq p q) =
      .cat (comp isBytes dot as p) (comp isBytes dot (as && p.isEmpty) q) := by
  cases p with
  | ext k body =>
    cases k <;> first | rfl | (simp [Pat.negFree] at hp)
  | _ => rfl

/-! ### (i) tokens that do not stand at the start -/

theorem comp_false_sem (isBytes dot ci : Bool) (g : Pat) (hn : g.negFree = true) (hs : g.noSlash = true) :
    ∀ a b, Re.M ⟨true, ci⟩ (comp isBytes dot false g) a b ↔ Pat.L ci g a b := by
  induction g with
  | eps => intro a b; simp [comp, Re.M, Pat.L]
  | lit c =>
    intro a b
    have : c ≠ '/' := by simpa [Pat.noSlash] using hs
    simp [comp, litRe, this, Re.M, Pat.L]
  | any => intro a b; simp only [comp, Bool.false_and, Frag.qmark, Pat.L]; exact M_any_dotall ci a b
  | star => intro a b; simp only [comp, Bool.false_and, Pat.L]; exact M_star_dotall ci a b
  | cls neg items =>
    intro a b
    simp only [comp, Bool.false_and, Re.M, Pat.L]
    exact consume1_congr (cls_sem isBytes ci neg items) a b
  | seq p q ihp ihq =>
    intro a b
    simp only [Pat.negFree, Bool.and_eq_true] at hn
    simp only [Pat.noSlash, Bool.and_eq_true] at hs
    rw [comp_seq _ _ _ _ _ hn.1]
    simp only [Bool.false_and, Re.M, Pat.L, ihp hn.1 hs.1, ihq hn.2 hs.2]
  | alt p q ihp ihq =>
    intro a b
    simp only [Pat.negFree, Bool.and_eq_true] at hn
    simp only [Pat.noSlash, Bool.and_eq_true] at hs
    simp only [comp, Re.M, Pat.L, ihp hn.1 hs.1, ihq hn.2 hs.2]
  | ext k p ih =>
    intro a b
    cases k with
    | neg => simp [Pat.negFree] at hn
    | opt =>
      have := ih (by simpa [Pat.negFree] using hn) (by simpa [Pat.noSlash] using hs)
      simp only [comp, quantRe, Re.M, Pat.L, this]
    | star =>
      have := ih (by simpa [Pat.negFree] using hn) (by simpa [Pat.noSlash] using hs)
      simp only [comp, quantRe, Re.M, Pat.L]
      exact Iter.congr (fun x y => this x y)
    | plus =>
      have := ih (by simpa [Pat.negFree] using hn) (by simpa [Pat.noSlash] using hs)
      simp only [comp, quantRe, Re.M, Pat.L]
      constructor
      · rintro ⟨c, h1, h2⟩
        exact ⟨c, (this _ _).mp h1, (Iter.congr (fun x y => this x y)).mp h2⟩
      · rintro ⟨c, h1, h2⟩
        exact ⟨c, (this _ _).mpr h1, (Iter.congr (fun x y => this x y)).mpr h2⟩
    | one =>
      have := ih (by simpa [Pat.negFree] using hn) (by simpa [Pat.noSlash] using hs)
      simp only [comp, quantRe, Re.M, Pat.L, this]

/-! ### (ii) tokens at the start of the name -/

/-- where no start guard is emitted, compiling "at the start" and "not at the start" coincide -/
theorem comp_guardFree (isBytes dot : Bool) (g : Pat) (hg : g.guardFree dot = true) (hn : g.negFree = true) :
    comp isBytes dot true g = comp isBytes dot false g := by
  induction g with
  | eps => rfl
  | lit c => rfl
  | any => have : dot = true := by simpa [Pat.guardFree] using hg
           subst this; rfl
  | star => simp [Pat.guardFree] at hg
  | cls n i => have : dot = true := by simpa [Pat.guardFree] using hg
               subst this; rfl
  | seq p q ihp ihq =>
    simp only [Pat.negFree, Bool.and_eq_true] at hn
    simp only [Pat.guardFree, Bool.and_eq_true] at hg
    rw [comp_seq _ _ _ _ _ hn.1, comp_seq _ _ _ _ _ hn.1, ihp hg.1 hn.1]
    cases he : p.isEmpty with
    | true =>
      have : q.guardFree dot = true := by simpa [he] using hg.2
      simp [ihq this hn.2]
    | false => simp
  | alt p q ihp ihq =>
    simp only [Pat.negFree, Bool.and_eq_true] at hn
    simp only [Pat.guardFree, Bool.and_eq_true] at hg
    simp only [comp, ihp hg.1 hn.1, ihq hg.2 hn.2]
  | ext k p ih =>
    cases k with
    | neg => simp [Pat.negFree] at hn
    | opt => simp only [comp, ih (by simpa [Pat.guardFree] using hg) (by simpa [Pat.negFree] using hn)]
    | star => simp only [comp, ih (by simpa [Pat.guardFree] using hg) (by simpa [Pat.negFree] using hn)]
    | plus => simp only [comp, ih (by simpa [Pat.guardFree] using hg) (by simpa [Pat.negFree] using hn)]
    | one => simp only [comp, ih (by simpa [Pat.guardFree] using hg) (by simpa [Pat.negFree] using hn)]

/-- the conditions C01 puts on the name: non-empty, and no leading dot unless DOTMATCH -/
def StartOK (dot : Bool) (a : St) : Prop :=
  a.rest ≠ [] ∧ (dot = true ∨ a.rest.head? ≠ some '.')

theorem M_noDot {dot ci : Bool} {a : St} (h : StartOK dot a) (hd : dot = false) (b : St) :
    Re.M ⟨true, ci⟩ Frag.noDot a b ↔ b = a := by
  simp only [Frag.noDot, Re.M]
  constructor
  · exact fun h => h.1
  · intro hb
    refine ⟨hb, ?_⟩
    rintro ⟨c, d, s, h1, h2, _⟩
    have hdot : d = '.' := (clsDot_iff ci d).mp h2
    rcases h.2 with h3 | h3
    · simp [hd] at h3
    · simp [h1, hdot] at h3

theorem M_needChar {dot ci : Bool} {a : St} (h : StartOK dot a) (b : St) :
    Re.M ⟨true, ci⟩ Frag.needChar a b ↔ b = a := by
  simp only [Frag.needChar, Re.M]
  constructor
  · exact fun h => h.1
  · intro hb
    refine ⟨hb, ?_⟩
    cases hr : a.rest with
    | nil => exact absurd hr h.1
    | cons d s => exact ⟨⟨false, s⟩, d, s, hr, by simp [anyMatch], rfl⟩

theorem L_of_isEmpty (ci : Bool) (p : Pat) (h : p.isEmpty = true) (a b : St) :
    Pat.L ci p a b ↔ b = a := by
  induction p generalizing a b with
  | eps => simp [Pat.L]
  | seq p q ihp ihq =>
    simp only [Pat.isEmpty, Bool.and_eq_true] at h
    simp only [Pat.L, ihp h.1, ihq h.2]
    constructor
    · rintro ⟨c, rfl, rfl⟩; rfl
    · rintro rfl; exact ⟨_, rfl, rfl⟩
  | _ => simp [Pat.isEmpty] at h

theorem comp_true_sem (isBytes dot ci : Bool) (g : Pat) (hn : g.negFree = true) (hs : g.noSlash = true)
    (hst : g.startSafe dot = true) :
    ∀ a b, StartOK dot a → (Re.M ⟨true, ci⟩ (comp isBytes dot true g) a b ↔ Pat.L ci g a b) := by
  induction g with
  | eps => intro a b _; simp [comp, Re.M, Pat.L]
  | lit c =>
    intro a b _
    have : c ≠ '/' := by simpa [Pat.noSlash] using hs
    simp [comp, litRe, this, Re.M, Pat.L]
  | any =>
    intro a b hok
    cases hd : dot with
    | true => simp only [comp, Bool.not_true, Bool.and_false, Frag.qmark, Pat.L]; exact M_any_dotall ci a b
    | false =>
      simp only [comp, Bool.not_false, Bool.and_self, ite_true, Frag.qmark, Pat.L]
      simp only [Re.M.eq_5]
      constructor
      · rintro ⟨c, h1, h2⟩
        rw [(M_noDot (hd ▸ hok) rfl c).mp h1] at h2
        exact (M_any_dotall ci a b).mp h2
      · intro h
        exact ⟨a, (M_noDot (hd ▸ hok) rfl a).mpr rfl, (M_any_dotall ci a b).mpr h⟩
  | star =>
    intro a b hok
    cases hd : dot with
    | true =>
      simp only [comp, Bool.not_true, Bool.and_false, ite_true, Pat.L]
      simp only [Re.M.eq_5]
      constructor
      · rintro ⟨c, h1, h2⟩
        rw [(M_needChar (hd ▸ hok) c).mp h1] at h2
        exact (M_star_dotall ci a b).mp h2
      · intro h
        exact ⟨a, (M_needChar (hd ▸ hok) a).mpr rfl, (M_star_dotall ci a b).mpr h⟩
    | false =>
      simp only [comp, Bool.not_false, Bool.and_self, ite_true, Pat.L]
      simp only [Re.M.eq_5]
      constructor
      · rintro ⟨c, h1, c', h2, h3⟩
        rw [(M_needChar (hd ▸ hok) c).mp h1] at h2
        rw [(M_noDot (hd ▸ hok) rfl c').mp h2] at h3
        exact (M_star_dotall ci a b).mp h3
      · intro h
        exact ⟨a, (M_needChar (hd ▸ hok) a).mpr rfl, a, (M_noDot (hd ▸ hok) rfl a).mpr rfl,
          (M_star_dotall ci a b).mpr h⟩
  | cls neg items =>
    intro a b hok
    cases hd : dot with
    | true =>
      simp only [comp, Bool.not_true, Bool.and_false, Re.M, Pat.L]
      exact consume1_congr (cls_sem isBytes ci neg items) a b
    | false =>
      simp only [comp, Bool.not_false, Bool.and_self, ite_true, Pat.L]
      simp only [Re.M.eq_5]
      constructor
      · rintro ⟨c, h1, h2⟩
        rw [(M_noDot (hd ▸ hok) rfl c).mp h1] at h2
        simp only [Re.M] at h2
        exact (consume1_congr (cls_sem isBytes ci neg items) a b).mp h2
      · intro h
        refine ⟨a, (M_noDot (hd ▸ hok) rfl a).mpr rfl, ?_⟩
        simp only [Re.M]
        exact (consume1_congr (cls_sem isBytes ci neg items) a b).mpr h
  | seq p q ihp ihq =>
    intro a b hok
    simp only [Pat.negFree, Bool.and_eq_true] at hn
    simp only [Pat.noSlash, Bool.and_eq_true] at hs
    simp only [Pat.startSafe, Bool.and_eq_true] at hst
    rw [comp_seq _ _ _ _ _ hn.1]
    simp only [Bool.true_and, Re.M.eq_5, Pat.L]
    cases he : p.isEmpty with
    | true =>
      have hq : q.startSafe dot = true := by simpa [he] using hst.2
      constructor
      · rintro ⟨c, h1, h2⟩
        have hc := (ihp hn.1 hs.1 hst.1 a c hok).mp h1
        have : c = a := (L_of_isEmpty ci p he a c).mp hc
        subst this
        exact ⟨c, hc, (ihq hn.2 hs.2 hq c b hok).mp h2⟩
      · rintro ⟨c, h1, h2⟩
        have : c = a := (L_of_isEmpty ci p he a c).mp h1
        subst this
        exact ⟨c, (ihp hn.1 hs.1 hst.1 c c hok).mpr h1, (ihq hn.2 hs.2 hq c b hok).mpr h2⟩
    | false =>
      constructor
      · rintro ⟨c, h1, h2⟩
        exact ⟨c, (ihp hn.1 hs.1 hst.1 a c hok).mp h1, (comp_false_sem isBytes dot ci q hn.2 hs.2 c b).mp h2⟩
      · rintro ⟨c, h1, h2⟩
        exact ⟨c, (ihp hn.1 hs.1 hst.1 a c hok).mpr h1, (comp_false_sem isBytes dot ci q hn.2 hs.2 c b).mpr h2⟩
  | alt p q ihp ihq =>
    intro a b hok
    simp only [Pat.negFree, Bool.and_eq_true] at hn
    simp only [Pat.noSlash, Bool.and_eq_true] at hs
    simp only [Pat.startSafe, Bool.and_eq_true] at hst
    simp only [comp, Re.M, Pat.L, ihp hn.1 hs.1 hst.1 a b hok, ihq hn.2 hs.2 hst.2 a b hok]
  | ext k p ih =>
    intro a b hok
    cases k with
    | neg => simp [Pat.negFree] at hn
    | star =>
      have hgf : p.guardFree dot = true := by simpa [Pat.startSafe] using hst
      have hnf : p.negFree = true := by simpa [Pat.negFree] using hn
      have heq : comp isBytes dot true (.ext .star p) = comp isBytes dot false (.ext .star p) := by
        simp only [comp, comp_guardFree isBytes dot p hgf hnf]
      rw [heq]
      exact comp_false_sem isBytes dot ci (.ext .star p) hn hs a b
    | plus =>
      have hgf : p.guardFree dot = true := by simpa [Pat.startSafe] using hst
      have hnf : p.negFree = true := by simpa [Pat.negFree] using hn
      have heq : comp isBytes dot true (.ext .plus p) = comp isBytes dot false (.ext .plus p) := by
        simp only [comp, comp_guardFree isBytes dot p hgf hnf]
      rw [heq]
      exact comp_false_sem isBytes dot ci (.ext .plus p) hn hs a b
    | opt =>
      have := ih (by simpa [Pat.negFree] using hn) (by simpa [Pat.noSlash] using hs)
        (by simpa [Pat.startSafe] using hst) a b hok
      simp only [comp, quantRe, Re.M, Pat.L, this]
    | one =>
      have := ih (by simpa [Pat.negFree] using hn) (by simpa [Pat.noSlash] using hs)
        (by simpa [Pat.startSafe] using hst) a b hok
      simp only [comp, quantRe, Re.M, Pat.L, this]

end WcModel

namespace WcModel

/-! ### suffix structure of matching states -/

/-- `b` is `a`, or a state reached from `a` by consuming a non-empty prefix -/
def St.Suf (b a : St) : Prop :=
  b = a ∨ (b.atStart = false ∧ ∃ pre, pre ≠ [] ∧ a.rest = pre ++ b.rest)

theorem St.Suf.refl (a : St) : St.Suf a a := Or.inl rfl

theorem St.Suf.trans {a b c : St} (h₁ : St.Suf c b) (h₂ : St.Suf b a) : St.Suf c a := by
  rcases h₁ with rfl | ⟨h1, p1, hp1, e1⟩
  · exact h₂
  · rcases h₂ with rfl | ⟨_, p2, hp2, e2⟩
    · exact Or.inr ⟨h1, p1, hp1, e1⟩
    · exact Or.inr ⟨h1, p2 ++ p1, by simp [hp1], by simp [e2, e1]⟩

theorem consume1_suf {p : Char → Bool} {a b : St} (h : consume1 p a b) : St.Suf b a := by
  obtain ⟨d, s, h1, _, rfl⟩ := h
  exact Or.inr ⟨rfl, [d], by simp, by simp [h1]⟩

theorem Iter.suf {R : St → St → Prop} (hR : ∀ a b, R a b → St.Suf b a) {a b : St}
    (h : Iter R a b) : St.Suf b a := by
  induction h with
  | refl a => exact St.Suf.refl a
  | step hab _ ih => exact ih.trans (hR _ _ hab)

theorem Pat.L_suf (ci : Bool) (g : Pat) : ∀ a b, Pat.L ci g a b → St.Suf b a := by
  induction g with
  | eps => intro a b h; simp only [Pat.L] at h; exact h ▸ St.Suf.refl a
  | lit c => intro a b h; exact consume1_suf h
  | any => intro a b h; exact consume1_suf h
  | star => intro a b h; exact Iter.suf (fun _ _ h => consume1_suf h) h
  | cls n i => intro a b h; exact consume1_suf h
  | seq p q ihp ihq =>
    intro a b h; obtain ⟨c, h1, h2⟩ := h
    exact (ihq _ _ h2).trans (ihp _ _ h1)
  | alt p q ihp ihq =>
    intro a b h; rcases h with h | h
    · exact ihp _ _ h
    · exact ihq _ _ h
  | ext k p ih =>
    intro a b h
    cases k with
    | opt => rcases h with h | h
             · exact h ▸ St.Suf.refl a
             · exact ih _ _ h
    | star => exact Iter.suf ih h
    | plus => obtain ⟨c, h1, h2⟩ := h; exact (Iter.suf ih h2).trans (ih _ _ h1)
    | one => exact ih _ _ h
    | neg => exact Iter.suf (fun _ _ h => consume1_suf h) h.1

theorem St.Suf.len {a b : St} (h : St.Suf b a) : b.rest.length ≤ a.rest.length := by
  rcases h with rfl | ⟨_, pre, _, e⟩
  · exact Nat.le_refl _
  · simp [e]

/-- two states reached from the same state with equally long remainders are the same state -/
theorem St.Suf.eq_of_len {a c c' : St} (h : St.Suf c a) (h' : St.Suf c' a)
    (hl : c.rest.length = c'.rest.length) : c = c' := by
  rcases h with rfl | ⟨h1, p1, hp1, e1⟩
  · rcases h' with rfl | ⟨_, p2, hp2, e2⟩
    · rfl
    · have := congrArg List.length e2
      simp at this
      have : p2.length = 0 := by omega
      exact absurd (List.length_eq_zero_iff.mp this) hp2
  · rcases h' with rfl | ⟨h2, p2, hp2, e2⟩
    · have := congrArg List.length e1
      simp at this
      have : p1.length = 0 := by omega
      exact absurd (List.length_eq_zero_iff.mp this) hp1
    · have hcat : p1 ++ c.rest = p2 ++ c'.rest := by rw [← e1, ← e2]
      have hlen : p1.length = p2.length := by
        have := congrArg List.length hcat
        simp at this; omega
      have := List.append_inj hcat hlen
      rcases c with ⟨cf, cr⟩; rcases c' with ⟨cf', cr'⟩
      simp only at h1 h2 this
      simp [h1, h2, this.2]

/-- a remainder that `$` accepts is empty, when the subject does not end in a newline (D3) -/
theorem eos_empty_of_suf {a e : St} (h : St.Suf e a) (hnl : a.rest.getLast? ≠ some '\n')
    (he : atEos e.rest = true) : e.rest = [] := by
  unfold atEos at he
  simp only [Bool.or_eq_true, beq_iff_eq] at he
  rcases he with he | he
  · exact he
  · exfalso
    rcases h with rfl | ⟨_, pre, _, e1⟩
    · simp [he] at hnl
    · rw [e1, he] at hnl
      simp at hnl

/-! ### `!(body)` followed by a tail whose length is fixed -/

/-- literal text: number of characters -/
def Pat.litLen : Pat → Nat
  | .lit _ => 1
  | .seq a b => a.litLen + b.litLen
  | _ => 0

theorem L_litOnly_len (ci : Bool) (r : Pat) (h : r.litOnly = true) :
    ∀ c y, Pat.L ci r c y → c.rest.length = y.rest.length + r.litLen := by
  induction r with
  | eps => intro c y hl; simp only [Pat.L] at hl; simp [hl, Pat.litLen]
  | lit ch =>
    intro c y hl
    obtain ⟨d, s, h1, _, rfl⟩ := hl
    simp [h1, Pat.litLen]
  | seq p q ihp ihq =>
    intro c y hl
    simp only [Pat.litOnly, Bool.and_eq_true] at h
    obtain ⟨m, h1, h2⟩ := hl
    have := ihp h.1 _ _ h1
    have := ihq h.2 _ _ h2
    simp only [Pat.litLen]; omega
  | _ => simp [Pat.litOnly] at h

theorem litOnly_negFree (r : Pat) (h : r.litOnly = true) : r.negFree = true := by
  induction r with
  | seq p q ihp ihq =>
    simp only [Pat.litOnly, Bool.and_eq_true] at h
    simp [Pat.negFree, ihp h.1, ihq h.2]
  | ext k p _ => simp [Pat.litOnly] at h
  | alt p q _ _ => simp [Pat.litOnly] at h
  | _ => simp [Pat.negFree]

/-- the regex shape `(?:(?!(?:B)T$)NS)T` against "text not in B, then T" -/
theorem neg_core {md : Mode} {B T NS : Re} {LB LT : St → St → Prop} {n : Nat} {a y : St}
    (hB : ∀ c, Re.M md B a c ↔ LB a c)
    (hT : ∀ c z, Re.M md T c z ↔ LT c z)
    (hNS : ∀ c, Re.M md NS a c ↔ Iter (consume1 (fun _ => true)) a c)
    (hLBs : ∀ c, LB a c → St.Suf c a)
    (hLTs : ∀ c z, LT c z → St.Suf z c)
    (hLTn : ∀ c z, LT c z → c.rest.length = z.rest.length + n)
    (hy : y.rest = []) (hnl : a.rest.getLast? ≠ some '\n') :
    Re.M md (.cat (.grp (.cat (.look true (.cat (.grp B) (.cat T .eos))) NS)) T) a y ↔
      ∃ c, (Iter (consume1 (fun _ => true)) a c ∧ ¬ LB a c) ∧ LT c y := by
  simp only [Re.M]
  constructor
  · rintro ⟨c, ⟨m, ⟨rfl, hno⟩, hns⟩, ht⟩
    refine ⟨c, ⟨(hNS c).mp hns, fun hb => hno ?_⟩, (hT c y).mp ht⟩
    exact ⟨y, c, (hB c).mpr hb, y, ht, rfl, by simp [atEos, hy]⟩
  · rintro ⟨c, ⟨hit, hnb⟩, hlt⟩
    refine ⟨c, ⟨a, ⟨rfl, ?_⟩, (hNS c).mpr hit⟩, (hT c y).mpr hlt⟩
    rintro ⟨e, c', hb, e', ht, rfl, heos⟩
    have hb' := (hB c').mp hb
    have ht' := (hT c' e).mp ht
    have hsuf : St.Suf e a := (hLTs _ _ ht').trans (hLBs _ hb')
    have he : e.rest = [] := eos_empty_of_suf hsuf hnl heos
    have h1 := hLTn _ _ ht'
    have h2 := hLTn _ _ hlt
    have hc : c' = c := by
      apply St.Suf.eq_of_len (hLBs _ hb') (Iter.suf (fun _ _ h => consume1_suf h) hit)
      rw [h1, h2, he, hy]
    exact hnb (hc ▸ hb')

end WcModel

namespace WcModel

theorem neg_core0 {md : Mode} {B NS : Re} {LB : St → St → Prop} {a y : St}
    (hB : ∀ c, Re.M md B a c ↔ LB a c)
    (hNS : ∀ c, Re.M md NS a c ↔ Iter (consume1 (fun _ => true)) a c)
    (hLBs : ∀ c, LB a c → St.Suf c a)
    (hy : y.rest = []) (hnl : a.rest.getLast? ≠ some '\n') :
    Re.M md (.grp (.cat (.look true (.cat (.grp B) .eos)) NS)) a y ↔
      (Iter (consume1 (fun _ => true)) a y ∧ ¬ LB a y) := by
  simp only [Re.M]
  constructor
  · rintro ⟨m, ⟨rfl, hno⟩, hns⟩
    refine ⟨(hNS y).mp hns, fun hb => hno ?_⟩
    exact ⟨y, y, (hB y).mpr hb, rfl, by simp [atEos, hy]⟩
  · rintro ⟨hit, hnb⟩
    refine ⟨a, ⟨rfl, ?_⟩, (hNS y).mpr hit⟩
    rintro ⟨e, c', hb, rfl, heos⟩
    have hb' := (hB e).mp hb
    have he : e.rest = [] := eos_empty_of_suf (hLBs _ hb') hnl heos
    have hc : e = y := by
      apply St.Suf.eq_of_len (hLBs _ hb') (Iter.suf (fun _ _ h => consume1_suf h) hit)
      rw [he, hy]
    exact hnb (hc ▸ hb')

theorem M_negStar (dot ci as : Bool) (a c : St) (hok : as = true → StartOK dot a) :
    Re.M ⟨true, ci⟩ (negStar dot as) a c ↔ Iter (consume1 (fun _ => true)) a c := by
  cases as with
  | false => simp only [negStar, Bool.not_false, Bool.true_or, ite_true]; exact M_star_dotall ci a c
  | true =>
    have hok := hok rfl
    cases hd : dot with
    | true =>
      simp only [negStar, Bool.not_true, Bool.false_or, ite_true, Re.M.eq_5]
      constructor
      · rintro ⟨m, h1, h2⟩
        rw [(M_needChar (hd ▸ hok) m).mp h1] at h2
        exact (M_star_dotall ci a c).mp h2
      · intro h
        exact ⟨a, (M_needChar (hd ▸ hok) a).mpr rfl, (M_star_dotall ci a c).mpr h⟩
    | false =>
      simp only [negStar, Bool.not_true, Bool.false_or, ite_true, Re.M.eq_5]
      simp only [Bool.false_eq_true, ite_false, Re.M.eq_5]
      constructor
      · rintro ⟨m, h1, m', h2, h3⟩
        rw [(M_needChar (hd ▸ hok) m).mp h1] at h2
        rw [(M_noDot (hd ▸ hok) rfl m').mp h2] at h3
        exact (M_star_dotall ci a c).mp h3
      · intro h
        exact ⟨a, (M_needChar (hd ▸ hok) a).mpr rfl, a, (M_noDot (hd ▸ hok) rfl a).mpr rfl,
          (M_star_dotall ci a c).mpr h⟩

theorem suf_getLast {a c : St} (h : St.Suf c a) (hnl : a.rest.getLast? ≠ some '\n') :
    c.rest.getLast? ≠ some '\n' := by
  rcases h with rfl | ⟨_, pre, _, e⟩
  · exact hnl
  · intro hc
    apply hnl
    rw [e]
    cases hr : c.rest with
    | nil => simp [hr] at hc
    | cons x xs =>
      rw [hr] at hc
      simp only [List.getLast?_append, hc, Option.some_or]

/-- body compiled at `as` -/
theorem comp_body_sem (isBytes dot ci as : Bool) (body : Pat) (hn : body.negFree = true)
    (hs : body.noSlash = true) (a : St) (hok : as = true → StartOK dot a ∧ body.startSafe dot = true) :
    ∀ c, Re.M ⟨true, ci⟩ (comp isBytes dot as body) a c ↔ Pat.L ci body a c := by
  intro c
  cases as with
  | false => exact comp_false_sem isBytes dot ci body hn hs a c
  | true => exact comp_true_sem isBytes dot ci body hn hs (hok rfl).2 a c (hok rfl).1

/-- **the semantic theorem for the scope C01 states** (fnmatch mode): for a match that ends at
    the end of the subject, the compiled regex accepts exactly the documented language. -/
theorem comp_scope_sem (isBytes dot ci : Bool) (g : Pat) (hsc : g.c01Scope = true) (hs : g.noSlash = true) :
    ∀ (as : Bool) (a y : St), (as = true → StartOK dot a ∧ g.startSafe dot = true) → y.rest = [] →
      (g.negFree = true ∨ a.rest.getLast? ≠ some '\n') →
      (Re.M ⟨true, ci⟩ (comp isBytes dot as g) a y ↔ Pat.L ci g a y) := by
  induction g with
  | seq p q ihp ihq =>
    intro as a y hok hy hnl
    by_cases hpn : p.negFree = true
    · -- the head is negation free: split the sequence
      have hq : q.c01Scope = true := by
        cases p with
        | ext k b => cases k <;> simp_all [Pat.c01Scope, Pat.negFree]
        | _ => simp_all [Pat.c01Scope]
      simp only [Pat.noSlash, Bool.and_eq_true] at hs
      rw [comp_seq _ _ _ _ _ hpn]
      simp only [Re.M.eq_5, Pat.L]
      have hp : ∀ c, Re.M ⟨true, ci⟩ (comp isBytes dot as p) a c ↔ Pat.L ci p a c :=
        comp_body_sem isBytes dot ci as p hpn hs.1 a (fun h => by
          have := hok h
          simp only [Pat.startSafe, Bool.and_eq_true] at this
          exact ⟨this.1, this.2.1⟩)
      have hqc : ∀ c, Pat.L ci p a c →
          (Re.M ⟨true, ci⟩ (comp isBytes dot (as && p.isEmpty) q) c y ↔ Pat.L ci q c y) := by
        intro c hc
        apply ihq hq hs.2 _ c y _ hy
        · rcases hnl with h | h
          · left; simp only [Pat.negFree, Bool.and_eq_true] at h; exact h.2
          · right; exact suf_getLast (Pat.L_suf ci p a c hc) h
        · intro h
          simp only [Bool.and_eq_true] at h
          have hca : c = a := (L_of_isEmpty ci p h.2 a c).mp hc
          have := hok h.1
          simp only [Pat.startSafe, Bool.and_eq_true, h.2, ite_true] at this
          exact ⟨hca ▸ this.1, this.2.2⟩
      constructor
      · rintro ⟨c, h1, h2⟩
        have hc := (hp c).mp h1
        exact ⟨c, hc, (hqc c hc).mp h2⟩
      · rintro ⟨c, h1, h2⟩
        exact ⟨c, (hp c).mpr h1, (hqc c h1).mpr h2⟩
    · -- the head is `!(body)`, the rest is literal text
      cases p with
      | ext k body =>
        cases k with
        | neg =>
          simp only [Pat.c01Scope, Bool.and_eq_true] at hsc
          simp only [Pat.noSlash, Bool.and_eq_true] at hs
          have hnl' : a.rest.getLast? ≠ some '\n' := by
            rcases hnl with h | h
            · simp [Pat.negFree] at h
            · exact h
          have hrn := litOnly_negFree q hsc.2
          have key := neg_core (md := ⟨true, ci⟩) (B := comp isBytes dot as body)
            (T := comp isBytes dot false q) (NS := negStar dot as) (LB := Pat.L ci body)
            (LT := Pat.L ci q) (n := q.litLen) (a := a) (y := y)
            (comp_body_sem isBytes dot ci as body hsc.1 hs.1 a (fun h => by
              have := hok h
              simp only [Pat.startSafe, Bool.and_eq_true] at this
              exact ⟨this.1, this.2.1⟩))
            (comp_false_sem isBytes dot ci q hrn hs.2)
            (fun c => M_negStar dot ci as a c (fun h => (hok h).1))
            (fun c h => Pat.L_suf ci body a c h)
            (fun c z h => Pat.L_suf ci q c z h)
            (L_litOnly_len ci q hsc.2) hy hnl'
          have hc : comp isBytes dot as (.seq (.ext .neg body) q) =
              .cat (.grp (.cat (.look true (.cat (.grp (comp isBytes dot as body))
                (.cat (comp isBytes dot false q) .eos))) (negStar dot as))) (comp isBytes dot false q) := rfl
          rw [hc, key]
          simp only [Pat.L]
        | _ => simp_all [Pat.c01Scope, Pat.negFree]
      | seq p1 p2 => simp_all [Pat.c01Scope, Pat.negFree]
      | alt p1 p2 => simp_all [Pat.c01Scope, Pat.negFree]
      | _ => simp [Pat.negFree] at hpn
  | ext k body ih =>
    intro as a y hok hy hnl
    cases k with
    | neg =>
      simp only [Pat.c01Scope] at hsc
      have hs' : body.noSlash = true := by simpa [Pat.noSlash] using hs
      have hnl' : a.rest.getLast? ≠ some '\n' := by
        rcases hnl with h | h
        · simp [Pat.negFree] at h
        · exact h
      have key := neg_core0 (md := ⟨true, ci⟩) (B := comp isBytes dot as body) (NS := negStar dot as)
        (LB := Pat.L ci body) (a := a) (y := y)
        (comp_body_sem isBytes dot ci as body hsc hs' a (fun h => by
          have := hok h
          simp only [Pat.startSafe] at this
          exact this))
        (fun c => M_negStar dot ci as a c (fun h => (hok h).1))
        (fun c h => Pat.L_suf ci body a c h) hy hnl'
      have hc : comp isBytes dot as (.ext .neg body) =
          .grp (.cat (.look true (.cat (.grp (comp isBytes dot as body)) .eos)) (negStar dot as)) := rfl
      rw [hc, key]
      simp only [Pat.L]
    | _ =>
      exact comp_body_sem isBytes dot ci as _ (by simpa [Pat.c01Scope] using hsc) hs a hok y
  | _ =>
    intro as a y hok hy hnl
    exact comp_body_sem isBytes dot ci as _ (by simpa [Pat.c01Scope] using hsc) hs a hok y

end WcModel

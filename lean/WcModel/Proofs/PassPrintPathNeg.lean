import WcModel.Proofs.PassPrintPath
import WcModel.Proofs.CompPathNeg
import WcModel.Proofs.ParseLift
/-
  "pass_print" for PATH MODE, continued: (a) segments with one top-level `!(…)` followed by literal
  text (`PP.ppTop`, the printable counterpart of `Pat.c01Scope`), (b) MATCHBASE.
  These are the two links `Properties/C02neg.lean` only TESTS (`tidyPath_agrees_neg_test`,
  `matchbase_agrees_test`).  Setting: `PPP.PathX cfg` as in `PassPrintPath.lean`; for (b)
  `PathXM cfg` = the same with `cfg.matchbase0 = true` (under GLOBSTARLONG ∧ FOLLOW the implicit
  prefix is `***`, read with the configuration's own GLOBSTAR setting, which must then be on — as
  it is in every `Cfg.ofFlags`).  `cfg.dot`, the case mode, TRANSLATE captures, `cfg.globstar0`
  (for (b): the prefix run forces GLOBSTAR) are arbitrary.

  MAIN THEOREMS
    `pass_print_path_neg`   (a)  `pathOKN pp` (segments `segOKN`: `PP.ppTop`, `PPP.slashFree`, `PP.ok g []`,
                            non-empty print; `noGG`; not the empty relative pattern), a globstar only
                            under `cfg.globstar0`  ⊢
          ∃ parsed r, parseItems cfg drive (printPath pp) = .ok parsed ∧ parsed.toRe = some r ∧
                      Eqv r (wrapRe (!cfg.caseSensitive) (compPath cfg.dot pp))
    `pass_print_matchbase`  (b)  `PathXM cfg`, `segOKN (.pat g)`  ⊢
          ∃ parsed r, parseItems cfg drive (print g) = .ok parsed ∧ parsed.toRe = some r ∧
                      Eqv r (wrapRe (!cfg.caseSensitive) (compPathMB cfg.dot [.pat g]))
    `pass_print_path_matchbase_sep`  (b, the dual)  `PathXM cfg`, `pathOKN pp`, `hasSep pp` (the printed
                            pattern has a separator: absolute, or trailing separator, or two segments)  ⊢
          the conclusion of `pass_print_path_neg`: no implicit prefix, MATCHBASE changes nothing.
    `parseItems_pathN`, `parseItems_mb`, `parseItems_mb_hasSep`: the item lists themselves.
  `Properties/C02negfaithful.lean` turns these into C02 on the faithful port.

  PLAN
  Part 1  `match_dot_dir` through a group body.  `PP.Inv` leaves `matchDotDir` free, but the star of a
          `!(…)` group in path mode reads it (`HF.invStar`): the in-group induction `PPP.EG_all` is
          redone with one more conjunct (`StepE`, `EM_all`): after the body of `!(body)` read from
          `afterStart = as`, `matchDotDir = as && cfg.dot && body.dotAtStart` — what `compSeg` writes.
  Part 2  one `!(…)` on the top-level spine of a segment: `parseExtend_negP`, `R_litP`, `R4P_all`
          (items `itsPreP`: `invOpen`, `ph`, the literal tail).
  Part 3  `clean_up_inverse` at the next top-level `/` or at the end: `cleanUp_topP`; `Pend cfg k cur cur'`
          ("with `k` placeholders open, the clean-up turns the stack `cur` into `cur'`").
  Part 4  whole path patterns: `slash_stepN` (the `/` branch of `rootLoop`, closing the pending
          placeholder), `segs_loopN` / `path_loopN` (the loop of `root`, carrying `Pend`), `root_pathN`,
          `parseItems_pathN`.
  Part 5  from the items to `compSeg` / `pathRe`: `itsTopP_toRe`, `segItemsN_toRe`, `toRe_pathN`.
  Part 6  MATCHBASE: `matchbase` is a passenger.  The state field is read only by `_parse` and written
          only with `false`, when a separator is read; the configuration field `matchbase0` is read
          only by `_parse`.  So every function of the pass commutes with setting the state field
          (`setMB m`) and with changing the configuration field (`cfgT cfg t`) —
          to `false` on any text, to any value inside a group (`pe_el_mb`), to any value on a
          separator-free text (`rootLoop_mb`, `root_mb`), to any value for a token that does not look
          at a separator (`rootTok_mb`, side condition `SideR`).  This is what lets the theorems of
          Parts 1–5 (stated for `matchbase = false`: `PP.Inv.mb`, `PathX.matchbase`) speak about the
          runs of `_parse` under MATCHBASE.
  Part 7  the two `root` runs of `_parse` under MATCHBASE: `prefix_run` (`**` with GLOBSTAR forced, or
          `***`: `root_stars3`), `parseItems_mb`, `mbItems_toRe`, `pass_print_matchbase`.
  Part 8  patterns with a separator: `root_off`, `parseItems_mb_struct` (the pattern run reads the same
          items; only the final value of `matchbase` is open), `parseItems_mb_sepEarly` (absolute
          patterns, a leading `**/`).
  Part 9  … and a file-name segment followed by a separator: the run does not depend on the initial
          value of `matchbase` (`Absorb`), by induction on the printed segment (`AG_all`, `AL_all`,
          `A4_all`) down to the separator that clears it (`absK_slash`); `parseItems_mb_hasSep`,
          `pass_print_path_matchbase_sep`.
-/
namespace WcModel
namespace PPN
open PP PPP

/-! ## Part 1: `match_dot_dir` through a group body

  `PP.Inv` leaves `matchDotDir` free; the star of a `!(…)` group in path mode reads it
  (`HF.invStar`), so the in-group induction `PPP.EG_all` is redone with one more conjunct. -/

theorem upd_mdd (ps : PS) : ps.updateDirState.matchDotDir = ps.matchDotDir := by
  unfold PS.updateDirState; split
  · rfl
  · split <;> rfl

theorem upd_gs (ps : PS) : ps.updateDirState.globstar = ps.globstar := by
  unfold PS.updateDirState; split
  · rfl
  · split <;> rfl

theorem peFail_mdd (ps : PS) (c : Char) :
    (HF.peFail ps (HF.peEnter ps c false)).matchDotDir = ps.matchDotDir := by
  unfold HF.peFail HF.peFinish HF.peEnter
  cases ps.inList <;> cases ps.invNest <;> simp

theorem extTok_plainM (cfg : Cfg) (fuel : Nat) (c : Char) (it : It) (ps : PS) (ext : List Item) (a n : Bool)
    {as il : Bool} {k : Nat}
    (hi : PP.Inv ps as il k) (hn : c ∈ extTypes → it.rest.head? ≠ some '(') :
    ∃ ps1, PP.Inv ps1 as il k ∧ ps1.globstar = ps.globstar ∧ ps1.matchDotDir = ps.matchDotDir ∧
      HF.extTok cfg fuel c it ps ext a n = HF.extPlain cfg c it ps1 ext a n := by
  cases fuel with
  | succ f =>
    unfold HF.extTok
    split
    · rename_i hx
      simp only [Bool.and_eq_true, decide_eq_true_eq] at hx
      rw [parseExtend_noparen _ _ _ _ _ _ _ (hn hx.2)]
      exact ⟨_, hi.peFail c false, by simp, peFail_mdd ps c, by simp⟩
    · exact ⟨ps, hi, rfl, rfl, rfl⟩
  | zero =>
    unfold HF.extTok
    split
    · exact ⟨ps, hi, rfl, rfl, by simp [parseExtend]⟩
    · exact ⟨ps, hi, rfl, rfl, rfl⟩

/-- the in-group one-token fact, with the `match_dot_dir` frame (`isDot`: the token is a written `.`) -/
def StepE (cfg : Cfg) (w : List Char) (x : Bool → Item) (side : List Char → Prop) (isDot : Bool) : Prop :=
  ∀ (as : Bool) (F i : Nat) (rest : List Char) (ps : PS) (l : List Item) (a n : Bool),
    PP.Inv ps as true 0 → side rest →
    ∃ ps', PP.Inv ps' false true 0 ∧ ps'.globstar = ps.globstar ∧
      ps'.matchDotDir = (if as && isDot then cfg.dot else ps.matchDotDir) ∧
      extLoop cfg (F+1) ⟨i, w ++ rest⟩ ps l a n = extLoop cfg F ⟨i + w.length, rest⟩ ps' (x as :: l) a n

theorem stepE_any (cfg : Cfg) (h : PathX cfg) :
    StepE cfg ['?'] (fun as => .re ((pathEmit cfg).any as)) (fun rest => rest.head? ≠ some '(') false := by
  intro as F i rest ps l a n hi hn
  obtain ⟨ps1, hi1, hg1, hm1, e⟩ := extTok_plainM cfg F '?' ⟨i+1, rest⟩ ps l a n hi (fun _ => hn)
  refine ⟨ps1.resetDirTrack.updateDirState, hi1.reset.upd, by simpa [PS.resetDirTrack, upd_gs] using hg1,
    by simpa [upd_mdd, PS.resetDirTrack] using hm1, ?_⟩
  show extLoop cfg (F+1) ⟨i, '?' :: rest⟩ ps l a n = _
  rw [extLoop_cons, e, (tok_any_p cfg h _ ps1 l a n).2, extCont_ne _ _ _ _ _ _ _ _ (by decide),
    hi1.afterStart]
  rfl

theorem stepE_star (cfg : Cfg) (h : PathX cfg) :
    StepE cfg ['*'] (fun as => .re ((pathEmit cfg).star as))
      (fun rest => rest.head? ≠ some '(' ∧ rest.head? ≠ some '*') false := by
  intro as F i rest ps l a n hi hn
  obtain ⟨ps1, hi1, hg1, hm1, e⟩ := extTok_plainM cfg F '*' ⟨i+1, rest⟩ ps l a n hi (fun _ => hn.1)
  refine ⟨ps1.resetDirTrack.updateDirState, hi1.reset.upd, by simpa [PS.resetDirTrack, upd_gs] using hg1,
    by simpa [upd_mdd, PS.resetDirTrack] using hm1, ?_⟩
  show extLoop cfg (F+1) ⟨i, '*' :: rest⟩ ps l a n = _
  rw [extLoop_cons, e, (tok_star_p cfg h _ ps1 l a n hn.2).2, extCont_ne _ _ _ _ _ _ _ _ (by decide),
    hi1.afterStart]
  rfl

/-- a bare literal character other than `/`, inside a group: the state is explicit -/
theorem tok_lit_e (cfg : Cfg) (h : PathX cfg) (c : Char) (hc : c ∉ escSet) (hsl : c ≠ '/') (it : It) (ps : PS)
    (l : List Item) (a n : Bool) :
    HF.extPlain cfg c it ps l a n =
      ((if c = '.' then (if ps.afterStart then ({ ps with matchDotDir := cfg.dot } : PS).resetDirTrack else ps)
        else ps), it, litItem c :: l, true) := by
  simp only [escSet, List.mem_cons, List.not_mem_nil, or_false, not_or] at hc
  obtain ⟨c1, c2, c3, c4, c5, c6, c7, c8, c9, c10⟩ := hc
  by_cases hd : c = '.'
  · subst hd
    simp [HF.extPlain, handleDot_p cfg h, litItem, litRe', h.nodotdir]
  · simp [HF.extPlain, hd, hsl, c1, c2, c3, c4, c8, c10, litItem, litRe']

theorem stepE_lit (cfg : Cfg) (h : PathX cfg) (c : Char) (hc : c ∉ escSet) (hsl : c ≠ '/') :
    StepE cfg [c] (fun _ => litItem c) (fun _ => True) (c == '.') := by
  intro as F i rest ps l a n hi _
  have hne : c ∉ extTypes := not_ext_of_not_esc hc
  have hp : c ≠ ')' := by intro e; subst e; simp [escSet] at hc
  obtain ⟨ps1, hi1, hg1, hm1, e⟩ := extTok_plainM cfg F c ⟨i+1, rest⟩ ps l a n hi (fun hx => absurd hx hne)
  have e2 := tok_lit_e cfg h c hc hsl ⟨i+1, rest⟩ ps1 l a n
  by_cases hd : c = '.'
  · subst hd
    cases has : as with
    | true =>
      have ha1 : ps1.afterStart = true := hi1.afterStart.trans has
      simp only [ha1, if_true] at e2
      refine ⟨(({ ps1 with matchDotDir := cfg.dot } : PS).resetDirTrack).updateDirState, ?_, ?_, ?_, ?_⟩
      · have hi2 : PP.Inv ({ ps1 with matchDotDir := cfg.dot } : PS) as true 0 :=
          ⟨hi1.afterStart, hi1.dirStart, hi1.inList, hi1.invExt, hi1.mb, hi1.emb⟩
        exact hi2.reset.upd
      · simpa [upd_gs, PS.resetDirTrack] using hg1
      · simp [upd_mdd, PS.resetDirTrack]
      · show extLoop cfg (F+1) ⟨i, '.' :: rest⟩ ps l a n = _
        rw [extLoop_cons, e, e2, extCont_ne _ _ _ _ _ _ _ _ hp]
        rfl
    | false =>
      have ha1 : ps1.afterStart = false := hi1.afterStart.trans has
      simp only [ha1, if_true, Bool.false_eq_true, if_false] at e2
      refine ⟨ps1.updateDirState, hi1.upd, by simpa [upd_gs] using hg1, by simpa [upd_mdd] using hm1, ?_⟩
      show extLoop cfg (F+1) ⟨i, '.' :: rest⟩ ps l a n = _
      rw [extLoop_cons, e, e2, extCont_ne _ _ _ _ _ _ _ _ hp]
      rfl
  · simp only [hd, if_false] at e2
    have hb : (c == '.') = false := by simp [hd]
    refine ⟨ps1.updateDirState, hi1.upd, by simpa [upd_gs] using hg1, by simpa [upd_mdd, hb] using hm1, ?_⟩
    show extLoop cfg (F+1) ⟨i, c :: rest⟩ ps l a n = _
    rw [extLoop_cons, e, e2, extCont_ne _ _ _ _ _ _ _ _ hp]
    rfl

theorem stepE_esc (cfg : Cfg) (h : PathX cfg) (c : Char) (hc : c ∈ escSet) :
    StepE cfg ['\\', c] (fun _ => litItem c) (fun _ => True) false := by
  intro as F i rest ps l a n hi _
  obtain ⟨ps1, hi1, hg1, hm1, e⟩ := extTok_plainM cfg F '\\' ⟨i+1, c :: rest⟩ ps l a n hi
    (fun hx => absurd hx bs_not_ext')
  refine ⟨ps1.updateDirState, hi1.upd, by simpa [upd_gs] using hg1, by simpa [upd_mdd] using hm1, ?_⟩
  show extLoop cfg (F+1) ⟨i, '\\' :: c :: rest⟩ ps l a n = _
  rw [extLoop_cons, e, (tok_esc_p cfg h c hc _ _ ps1 l a n hi1.dirStart).2, extCont_ne _ _ _ _ _ _ _ _ (by decide)]
  rfl

theorem esc_not_dot {c : Char} (hc : c ∈ escSet) : (c == '.') = false := by
  have : c ≠ '.' := by intro e; subst e; simp [escSet] at hc
  simp [this]

theorem stepE_printLit (cfg : Cfg) (h : PathX cfg) (c : Char) (hsl : c ≠ '/') :
    StepE cfg (printLit c) (fun _ => litItem c) (fun _ => True) (c == '.') := by
  unfold printLit
  split
  · rename_i hc; rw [esc_not_dot hc]; exact stepE_esc cfg h c hc
  · rename_i hc; exact stepE_lit cfg h c hc hsl

theorem stepE_cls (cfg : Cfg) (h : PathX cfg) (neg : Bool) (items : List SCls)
    (hok : clsOK items = true) (hsl : items.all memNoSl = true) :
    StepE cfg (print (.cls neg items)) (fun as => .re ((pathEmit cfg).cls as neg items)) (fun _ => True) false := by
  intro as F i rest ps l a n hi _
  have hne : '[' ∉ extTypes := by decide
  have hpr : print (.cls neg items) ++ rest =
      '[' :: ((if neg then ['!'] else []) ++ items.flatMap printCls ++ ']' :: rest) := by
    simp [print]
  have hlen : (print (.cls neg items)).length =
      ((if neg then ['!'] else []) ++ items.flatMap printCls ++ [']']).length + 1 := by
    simp [print]
  rw [hpr, hlen]
  obtain ⟨ps1, hi1, hg1, hm1, e⟩ := extTok_plainM cfg F '['
    ⟨i+1, (if neg then ['!'] else []) ++ items.flatMap printCls ++ ']' :: rest⟩
    ps l a n hi (fun hx => absurd hx hne)
  refine ⟨ps1.resetDirTrack.updateDirState, hi1.reset.upd, by simpa [PS.resetDirTrack, upd_gs] using hg1,
    by simpa [upd_mdd, PS.resetDirTrack] using hm1, ?_⟩
  rw [extLoop_cons, e]
  simp only [HF.extPlain, show ('[' : Char) ≠ '.' by decide, show ('[' : Char) ≠ '*' by decide,
    show ('[' : Char) ≠ '?' by decide, show ('[' : Char) ≠ '/' by decide, show ('[' : Char) ≠ '\\' by decide,
    show ('[' : Char) ≠ '|' by decide,
    if_false, if_true, sequence_print_p cfg h ps1 neg items hok hsl, hi1.afterStart]
  rw [extCont_ne _ _ _ _ _ _ _ _ (by decide)]
  congr 2
  omega

theorem step_barM (cfg : Cfg) (F i : Nat) (rest : List Char) (ps : PS) (l : List Item) (a n : Bool) {as : Bool}
    (hi : PP.Inv ps as true 0) :
    ∃ ps', PP.Inv ps' a true 0 ∧ ps'.globstar = ps.globstar ∧ ps'.matchDotDir = ps.matchDotDir ∧
      extLoop cfg (F+1) ⟨i, '|' :: rest⟩ ps l a n = extLoop cfg F ⟨i + 1, rest⟩ ps' (.bar :: l) a n := by
  have hne : '|' ∉ extTypes := by decide
  obtain ⟨ps1, hi1, hg1, hm1, e⟩ := extTok_plainM cfg F '|' ⟨i+1, rest⟩ ps l a n hi (fun hx => absurd hx hne)
  have e2 : HF.extPlain cfg '|' ⟨i+1, rest⟩ ps1 l a n =
      ((if a then ps1.setStartDir else ps1), ⟨i+1, rest⟩, .bar :: l, true) := by
    simp [HF.extPlain, cleanUp_zero cfg ps1 l n hi1.invExt]
  refine ⟨(if a then ps1.setStartDir else ps1).updateDirState, ?_, ?_, ?_, ?_⟩
  · cases a with
    | false => exact hi1.upd
    | true =>
      simp only [ite_true]
      obtain ⟨h1, h2, h3, h4, h5, h6⟩ := hi1
      exact ⟨by simp [PS.updateDirState, PS.setStartDir, PS.setAfterStart],
        by simp [PS.updateDirState, PS.setStartDir, PS.setAfterStart],
        by simp [PS.setStartDir, h3], by simp [PS.setStartDir, h4],
        by simp [PS.updateDirState, PS.setStartDir, PS.setAfterStart, h5],
        by simp [PS.updateDirState, PS.setStartDir, PS.setAfterStart, h6]⟩
  · rw [← hg1]; cases a <;> simp [PS.setStartDir, upd_gs]
  · rw [← hm1]; cases a <;> simp [PS.setStartDir, upd_mdd]
  · rw [extLoop_cons, e, e2, extCont_ne _ _ _ _ _ _ _ _ (by decide)]

theorem ite_seq (d m as d1 e1 d2 : Bool) :
    (if (as && e1 && d2) = true then d else if (as && d1) = true then d else m) =
      if (as && (d1 || e1 && d2)) = true then d else m := by
  cases as <;> cases d1 <;> cases e1 <;> cases d2 <;> simp

theorem ite_alt (d m as d1 d2 : Bool) :
    (if (as && d2) = true then d else if (as && d1) = true then d else m) =
      if (as && (d1 || d2)) = true then d else m := by
  cases as <;> cases d1 <;> cases d2 <;> simp

/-- the in-group claim, path mode, with the value of `match_dot_dir` -/
def EM (cfg : Cfg) (g : Pat) : Prop :=
  ∀ (b : Bool), pp b g = true → slashFree g = true →
    ∀ (F i : Nat) (rest : List Char) (ps : PS) (ext : List Item) (tA tN as : Bool),
    PP.Inv ps as true 0 → (as = true → tA = true) → (b = true → as = tA) → ok g rest = true →
    (print g).length ≤ F →
    ∃ ps', extLoop cfg F ⟨i, print g ++ rest⟩ ps ext tA tN =
        extLoop cfg (F - ntok g) ⟨i + (print g).length, rest⟩ ps'
          ((itsP cfg as g).reverse ++ ext) tA tN ∧
      PP.Inv ps' (endAs as g) true 0 ∧ ps'.globstar = ps.globstar ∧
      ps'.matchDotDir = (if as && g.dotAtStart then cfg.dot else ps.matchDotDir)

theorem peFinish_mdd (t ps : PS) : (HF.peFinish t true ps).matchDotDir = ps.matchDotDir := by
  unfold HF.peFinish
  cases t.inList <;> cases t.invNest <;> simp [PS.resetDirTrack]

theorem peEnter_mdd (ps : PS) (c : Char) : (HF.peEnter ps c false).matchDotDir = ps.matchDotDir := by
  simp [HF.peEnter]

theorem peEnter_gs (ps : PS) (c : Char) (rd : Bool) : (HF.peEnter ps c rd).globstar = ps.globstar := by
  unfold HF.peEnter; cases rd <;> rfl

/-- a whole nested group `k(body)` inside a group -/
theorem parseExtend_groupM (cfg : Cfg) (k : ExtKind) (hk : k ≠ .neg) (body : Pat)
    (hE : EM cfg body) (hpp : pp true body = true) (hsc : slashFree body = true)
    (F i : Nat) (rest : List Char) (ps : PS) (cur : List Item)
    {as il : Bool} (hi : PP.Inv ps as il 0) (hok : ok body (')' :: rest) = true)
    (hF : (print body).length + 2 ≤ F) :
    ∃ ps', parseExtend cfg F (extChar k) ⟨i, '(' :: (print body ++ ')' :: rest)⟩ ps cur false =
        (true, ps', ⟨i + (print body).length + 2, rest⟩,
          .group (gkind k) (HF.capOf cfg) (itsP cfg as body) :: cur) ∧
      PP.Inv ps' false il 0 ∧ ps'.globstar = ps.globstar ∧
      ps'.matchDotDir = (if as && body.dotAtStart then cfg.dot else ps.matchDotDir) := by
  obtain ⟨F1, rfl⟩ : ∃ F1, F = F1 + 1 := ⟨F - 1, by omega⟩
  rw [HF.parseExtend_eq]
  simp only [It.next, bne_self_eq_false, Bool.false_eq_true, if_false]
  obtain ⟨ps1, e1, hi1, hg1, hm1⟩ := hE true hpp hsc F1 (i+1) (')' :: rest) (HF.peEnter ps (extChar k) false) []
    ps.afterStart ps.invNest as (hi.peEnter _ _) (fun h => hi.afterStart.trans h)
    (fun _ => hi.afterStart.symm) hok (by omega)
  have hnt := ntok_le body
  obtain ⟨F2, hF2⟩ : ∃ F2, F1 - ntok body = F2 + 1 := ⟨F1 - ntok body - 1, by omega⟩
  rw [e1, hF2, extLoop_close]
  simp only [List.append_nil, List.reverse_reverse, peBuild_group cfg k hk]
  have hz : ps1.updateDirState.invExt = 0 := hi1.upd.invExt
  have hb' : (if ps.inList = true then
        cleanUpInverse cfg ps1.updateDirState
          (Item.group (gkind k) (HF.capOf cfg) (itsP cfg as body) :: cur)
          (ps.invNest && ps1.updateDirState.invNest)
      else (Item.group (gkind k) (HF.capOf cfg) (itsP cfg as body) :: cur,
        ps1.updateDirState)) =
      (Item.group (gkind k) (HF.capOf cfg) (itsP cfg as body) :: cur,
        ps1.updateDirState) := by
    split
    · exact cleanUp_zero cfg _ _ _ hz
    · rfl
  rw [hb']
  refine ⟨HF.peFinish ps true ps1.updateDirState, ?_, ?_, ?_, ?_⟩
  · have : i + 1 + (print body).length + 1 = i + (print body).length + 2 := by omega
    rw [this]
  · exact hi.peFinish hi1.upd
  · have : (HF.peFinish ps true ps1.updateDirState).globstar = ps1.globstar := by
      unfold HF.peFinish
      cases ps.inList <;> cases ps.invNest <;> simp [PS.resetDirTrack, upd_gs]
    rw [this, hg1, peEnter_gs]
  · rw [peFinish_mdd, upd_mdd, hm1, peEnter_mdd]

theorem EM_of_step (cfg : Cfg) (g : Pat) (w : List Char) (x : Bool → Item)
    (side : List Char → Prop) (isDot : Bool)
    (hs : StepE cfg w x side isDot) (hw : 1 ≤ w.length) (hprint : print g = w)
    (hits : ∀ as, itsP cfg as g = [x as])
    (hnt : ntok g = 1) (hend : ∀ as, endAs as g = false) (hside : ∀ rest, ok g rest = true → side rest)
    (hdot : g.dotAtStart = isDot) :
    EM cfg g := by
  intro b _ _ F i rest ps ext tA tN as hi _ _ hok hF
  obtain ⟨F', rfl⟩ : ∃ F', F = F' + 1 := ⟨F - 1, by rw [hprint] at hF; omega⟩
  obtain ⟨ps', hi', hg', hm', e'⟩ := hs as F' i rest ps ext tA tN hi (hside rest hok)
  refine ⟨ps', ?_, by rw [hend]; exact hi', hg', by rw [hdot]; exact hm'⟩
  rw [hprint, hits, hnt, e']
  rfl

theorem EM_all (cfg : Cfg) (h : PathX cfg) : ∀ g : Pat, EM cfg g := by
  intro g
  induction g with
  | eps =>
    intro b _ _ F i rest ps ext tA tN as hi _ _ _ _
    exact ⟨ps, by simp [print, itsP, Emit.its, ntok], by simpa [endAs, Pat.isEmpty] using hi, rfl,
      by simp [Pat.dotAtStart]⟩
  | lit c =>
    intro b hp hsc
    have hc : c ≠ '/' := by simpa [slashFree] using hsc
    exact EM_of_step cfg _ _ _ _ _ (stepE_printLit cfg h c hc) (printLit_len c) rfl
      (fun _ => rfl) rfl (fun as => by simp [endAs, Pat.isEmpty]) (fun _ _ => trivial) rfl b hp hsc
  | any =>
    exact EM_of_step cfg _ _ _ _ _ (stepE_any cfg h) (by simp) rfl (fun _ => rfl) rfl
      (fun as => by simp [endAs, Pat.isEmpty]) (fun rest hok => by simpa [ok] using hok) rfl
  | star =>
    exact EM_of_step cfg _ _ _ _ _ (stepE_star cfg h) (by simp) rfl (fun _ => rfl) rfl
      (fun as => by simp [endAs, Pat.isEmpty]) (fun rest hok => by simpa [ok] using hok) rfl
  | cls neg items =>
    intro b hp hsc
    exact EM_of_step cfg _ _ _ _ _ (stepE_cls cfg h neg items (by simpa [pp] using hp)
        (by simpa [slashFree] using hsc))
      (by simp [print]) rfl (fun _ => rfl) rfl
      (fun as => by simp [endAs, Pat.isEmpty]) (fun _ _ => trivial) rfl b hp hsc
  | seq p q ihp ihq =>
    intro b hp hsc F i rest ps ext tA tN as hi hA _ hok hF
    simp only [pp, Bool.and_eq_true] at hp
    simp only [slashFree, Bool.and_eq_true] at hsc
    simp only [ok, Bool.and_eq_true] at hok
    simp only [print, List.length_append] at hF
    have hnp := ntok_le p
    obtain ⟨ps1, e1, hi1, hg1, hm1⟩ := ihp false hp.1 hsc.1 F i (print q ++ rest) ps ext tA tN as hi hA (by simp)
      hok.1 (by omega)
    rw [endAs_pp_false _ _ hp.1] at hi1
    obtain ⟨ps2, e2, hi2, hg2, hm2⟩ := ihq false hp.2 hsc.2 (F - ntok p) (i + (print p).length) rest ps1 _ tA tN _ hi1
      (fun hx => hA (by simp only [Bool.and_eq_true] at hx; exact hx.1)) (by simp) hok.2 (by omega)
    rw [endAs_pp_false _ _ hp.2] at hi2
    refine ⟨ps2, ?_, by simpa [endAs, Pat.isEmpty, Bool.and_assoc] using hi2, hg2.trans hg1, ?_⟩
    · simp only [print, List.append_assoc, itsP, Emit.its, ntok, List.reverse_append, List.length_append]
      rw [e1, e2]
      have a1 : F - ntok p - ntok q = F - (ntok p + ntok q) := by omega
      have a2 : i + (print p).length + (print q).length = i + ((print p).length + (print q).length) := by omega
      rw [a1, a2]
    · rw [hm2, hm1]
      simp only [Pat.dotAtStart]
      exact ite_seq _ _ _ _ _ _
  | alt p q ihp ihq =>
    intro b hp hsc F i rest ps ext tA tN as hi hA hb hok hF
    simp only [pp, Bool.and_eq_true] at hp
    simp only [slashFree, Bool.and_eq_true] at hsc
    simp only [ok, Bool.and_eq_true] at hok
    simp only [print, List.length_append, List.length_cons] at hF
    have hnp := ntok_le p
    have hat : as = tA := hb hp.1.1
    obtain ⟨ps1, e1, hi1, hg1, hm1⟩ := ihp false hp.1.2 hsc.1 F i ('|' :: (print q ++ rest)) ps ext tA tN as hi hA
      (by simp) hok.1 (by omega)
    obtain ⟨F2, hF2⟩ : ∃ F2, F - ntok p = F2 + 1 := ⟨F - ntok p - 1, by omega⟩
    obtain ⟨ps2, hi2, hg2, hm2, e2⟩ := step_barM cfg F2 (i + (print p).length) (print q ++ rest) ps1
      ((itsP cfg as p).reverse ++ ext) tA tN hi1
    obtain ⟨ps3, e3, hi3, hg3, hm3⟩ := ihq true hp.2 hsc.2 F2 (i + (print p).length + 1) rest ps2 _ tA tN tA hi2
      (fun hx => hx) (fun _ => rfl) hok.2 (by omega)
    refine ⟨ps3, ?_, by simpa [endAs] using (hat ▸ hi3), hg3.trans (hg2.trans hg1), ?_⟩
    · simp only [print, List.append_assoc, List.cons_append, itsP, Emit.its, ntok, List.reverse_append,
        List.length_append, List.length_cons, List.reverse_cons, List.nil_append]
      rw [e1, hF2, e2, e3, hat]
      have a1 : F2 - ntok q = F - (ntok p + 1 + ntok q) := by omega
      have a2 : i + (print p).length + 1 + (print q).length = i + ((print p).length + ((print q).length + 1)) := by
        omega
      rw [a1, a2]
    · rw [hm3, hm2, hm1, ← hat]
      simp only [Pat.dotAtStart]
      exact ite_alt _ _ _ _ _
  | ext k body ih =>
    intro b hp hsc F i rest ps ext tA tN as hi hA _ hok hF
    simp only [pp, Bool.and_eq_true, bne_iff_ne, ne_eq] at hp
    simp only [slashFree] at hsc
    simp only [ok] at hok
    simp only [print, List.length_cons, List.length_append, List.length_nil] at hF
    obtain ⟨F', rfl⟩ : ∃ F', F = F' + 1 := ⟨F - 1, by omega⟩
    obtain ⟨ps1, e1, hi1, hg1, hm1⟩ := parseExtend_groupM cfg k hp.1 body ih hp.2 hsc F' (i+1) rest ps ext hi hok
      (by omega)
    refine ⟨ps1.updateDirState, ?_, by simpa [endAs, Pat.isEmpty] using hi1.upd, by simpa [upd_gs] using hg1,
      by rw [upd_mdd, hm1]; rfl⟩
    have hx : (cfg.extend && decide (extChar k ∈ extTypes)) = true := by simp [h.extend, extChar_ext]
    simp only [print, List.cons_append, List.append_assoc, List.nil_append, itsP, Emit.its, ntok, List.reverse_cons,
      List.reverse_nil]
    rw [extLoop_cons]
    unfold HF.extTok
    rw [if_pos hx, e1]
    simp only [if_true]
    rw [extCont_ne _ _ _ _ _ _ _ _ (extChar_ne_close k)]
    congr 2
    simp only [List.length_cons, List.length_append, List.length_nil]
    omega

/-! ## Part 2: one `!(…)` on the top-level spine of a segment -/

/-- the star of a `!(body)` group, as the tidy compiler writes it -/
def negStarP (cfg : Cfg) (as : Bool) (body : Pat) : Re := pNegStar cfg.dot as (cfg.dot && body.dotAtStart)

/-- what the pass has pushed for a segment when the segment ends (the `!(` still open) -/
def itsPreP (cfg : Cfg) : Bool → Pat → List Item
  | as, .seq (.ext .neg body) rest =>
    .invOpen cfg.capture (itsP cfg as body) :: .ph (negStarP cfg as body) :: itsP cfg false rest
  | as, .ext .neg body => [.invOpen cfg.capture (itsP cfg as body), .ph (negStarP cfg as body)]
  | as, .seq a b => itsP cfg as a ++ itsPreP cfg (as && a.isEmpty) b
  | as, g => itsP cfg as g

/-- … and after `clean_up_inverse` (at the next top-level `/`, or at the end of the pattern) -/
def itsTopP (cfg : Cfg) : Bool → Pat → List Item
  | as, .seq (.ext .neg body) rest =>
    .invOpen cfg.capture (itsP cfg as body) ::
      .closed (itsP cfg false rest) (some (Frag.pathEop false)) (negStarP cfg as body) :: itsP cfg false rest
  | as, .ext .neg body =>
    [.invOpen cfg.capture (itsP cfg as body), .closed [] (some (Frag.pathEop false)) (negStarP cfg as body)]
  | as, .seq a b => itsP cfg as a ++ itsTopP cfg (as && a.isEmpty) b
  | as, g => itsP cfg as g

theorem itsPreP_seq (cfg : Cfg) (as : Bool) (a b : Pat) (h : ∀ body, a ≠ .ext .neg body) :
    itsPreP cfg as (.seq a b) = itsP cfg as a ++ itsPreP cfg (as && a.isEmpty) b := by
  cases a with
  | ext k body => cases k <;> first | rfl | exact absurd rfl (h body)
  | _ => rfl

theorem itsTopP_seq (cfg : Cfg) (as : Bool) (a b : Pat) (h : ∀ body, a ≠ .ext .neg body) :
    itsTopP cfg as (.seq a b) = itsP cfg as a ++ itsTopP cfg (as && a.isEmpty) b := by
  cases a with
  | ext k body => cases k <;> first | rfl | exact absurd rfl (h body)
  | _ => rfl

theorem itsP_seq (cfg : Cfg) (as : Bool) (a b : Pat) :
    itsP cfg as (.seq a b) = itsP cfg as a ++ itsP cfg (as && a.isEmpty) b := rfl

theorem ppTopP_of_pp (g : Pat) (h : pp false g = true) :
    (∀ cfg as, itsPreP cfg as g = itsP cfg as g) ∧ (∀ cfg as, itsTopP cfg as g = itsP cfg as g) := by
  induction g with
  | seq a b _ ihb =>
    simp only [pp, Bool.and_eq_true] at h
    have hn : ∀ body, a ≠ .ext .neg body := by
      intro body e; subst e; simp [pp] at h
    obtain ⟨h3, h4⟩ := ihb h.2
    refine ⟨?_, ?_⟩
    · intro cfg as; rw [itsPreP_seq cfg as a b hn, h3]; rfl
    · intro cfg as; rw [itsTopP_seq cfg as a b hn, h4]; rfl
  | ext k body =>
    cases k <;> first | exact ⟨fun _ _ => rfl, fun _ _ => rfl⟩ | (simp [pp] at h)
  | _ => exact ⟨fun _ _ => rfl, fun _ _ => rfl⟩

/-- literal text pushes the same items in both modes -/
theorem itsP_litOnly (cfg : Cfg) : ∀ (g : Pat) (as : Bool), g.litOnly = true → itsP cfg as g = its cfg false g := by
  intro g
  induction g with
  | seq a b iha ihb =>
    intro as h; simp only [Pat.litOnly, Bool.and_eq_true] at h
    simp only [itsP_seq, its, iha as h.1, ihb _ h.2, Bool.false_and]
  | eps => intro _ _; rfl
  | lit c => intro _ _; rfl
  | _ => intro _ h; simp [Pat.litOnly] at h

/-- literal text at top level, whatever the number of open `!(` -/
theorem R_litP (cfg : Cfg) (h : PathX cfg) : ∀ (g : Pat), g.litOnly = true → slashFree g = true →
    ∀ (k F i : Nat) (rest : List Char) (ps : PS) (cur : List Item) (as : Bool),
      PP.Inv ps as false k → (print g).length ≤ F →
      ∃ ps' as', rootLoop cfg F ⟨i, print g ++ rest⟩ ps cur =
          rootLoop cfg (F - ntok g) ⟨i + (print g).length, rest⟩ ps' ((itsP cfg false g).reverse ++ cur) ∧
        PP.Inv ps' as' false k ∧ ps'.globstar = ps.globstar := by
  intro g
  induction g with
  | eps =>
    intro _ _ k F i rest ps cur as hi _
    exact ⟨ps, as, by simp [print, itsP, Emit.its, ntok], hi, rfl⟩
  | lit c =>
    intro _ hsl k F i rest ps cur as hi hF
    have hc : c ≠ '/' := by simpa [slashFree] using hsl
    have hw := printLit_len c
    obtain ⟨F', rfl⟩ : ∃ F', F = F' + 1 := ⟨F - 1, by simp only [print] at hF; omega⟩
    obtain ⟨ps', hi', hg', e⟩ := (step_printLit_p cfg h c hc as false k F' i rest ps cur hi trivial).1
    exact ⟨ps', false, by simp only [print, itsP, Emit.its, ntok]; rw [e]; rfl, hi', hg'⟩
  | seq p q ihp ihq =>
    intro hl hsl k F i rest ps cur as hi hF
    simp only [Pat.litOnly, Bool.and_eq_true] at hl
    simp only [slashFree, Bool.and_eq_true] at hsl
    simp only [print, List.length_append] at hF
    have hnp := ntok_le p
    obtain ⟨ps1, as1, e1, hi1, hg1⟩ := ihp hl.1 hsl.1 k F i (print q ++ rest) ps cur as hi (by omega)
    obtain ⟨ps2, as2, e2, hi2, hg2⟩ := ihq hl.2 hsl.2 k (F - ntok p) (i + (print p).length) rest ps1 _ as1 hi1 (by omega)
    refine ⟨ps2, as2, ?_, hi2, hg2.trans hg1⟩
    simp only [print, List.append_assoc, itsP_seq, ntok, List.reverse_append, List.length_append, Bool.false_and]
    rw [e1, e2]
    have a1 : F - ntok p - ntok q = F - (ntok p + ntok q) := by omega
    have a2 : i + (print p).length + (print q).length = i + ((print p).length + (print q).length) := by omega
    rw [a1, a2]
  | _ => intro hl; simp [Pat.litOnly] at hl

theorem invStar_p (cfg : Cfg) (h : PathX cfg) (as : Bool) (ps : PS) :
    HF.invStar cfg as ps = pNegStar cfg.dot as ps.matchDotDir := by
  unfold HF.invStar pNegStar
  simp only [h.pathname, h.needChar, h.win, if_true]
  cases as <;> cases ps.matchDotDir <;> cases cfg.dot <;> rfl

theorem pNegStar_mdd (dot as d : Bool) :
    pNegStar dot as (if (as && d) = true then dot else false) = pNegStar dot as (dot && d) := by
  cases as <;> cases d <;> cases dot <;> rfl

/-- `!(body)` at the top level of a segment: the body, then an open placeholder -/
theorem parseExtend_negP (cfg : Cfg) (h : PathX cfg) (body : Pat)
    (hpp : pp true body = true) (hsl : slashFree body = true) (F i : Nat) (rest : List Char) (ps : PS)
    (cur : List Item) {as : Bool} (hi : PP.Inv ps as false 0) (hok : ok body (')' :: rest) = true)
    (hF : (print body).length + 2 ≤ F) :
    ∃ ps', parseExtend cfg F '!' ⟨i, '(' :: (print body ++ ')' :: rest)⟩ ps cur true =
        (true, ps', ⟨i + (print body).length + 2, rest⟩,
          .ph (negStarP cfg as body) :: .invOpen cfg.capture (itsP cfg as body) :: cur) ∧
      PP.Inv ps' false false 1 ∧ ps'.globstar = ps.globstar := by
  obtain ⟨F1, rfl⟩ : ∃ F1, F = F1 + 1 := ⟨F - 1, by omega⟩
  rw [HF.parseExtend_eq]
  simp only [It.next, bne_self_eq_false, Bool.false_eq_true, if_false]
  obtain ⟨ps1, e1, hi1, hg1, hm1⟩ := EM_all cfg h body true hpp hsl F1 (i+1) (')' :: rest)
    (HF.peEnter ps '!' true) [] ps.afterStart
    ps.invNest as (hi.peEnter _ _) (fun h => hi.afterStart.trans h) (fun _ => hi.afterStart.symm) hok (by omega)
  have hnt := ntok_le body
  obtain ⟨F2, hF2⟩ : ∃ F2, F1 - ntok body = F2 + 1 := ⟨F1 - ntok body - 1, by omega⟩
  rw [e1, hF2, extLoop_close]
  have hm0 : (HF.peEnter ps '!' true).matchDotDir = false := by simp [HF.peEnter]
  have hb : HF.peBuild cfg '!' ps (itsP cfg as body) cur ps1.updateDirState =
      (.ph (negStarP cfg as body) :: .invOpen cfg.capture (itsP cfg as body) :: cur,
        { ps1.updateDirState with invExt := ps1.updateDirState.invExt + 1 }) := by
    simp only [HF.peBuild, invStar_p cfg h, hi.afterStart, upd_mdd, hm1, hm0, negStarP, pNegStar_mdd]
    simp
  simp only [List.append_nil, List.reverse_reverse, hb, hi.inList, Bool.false_eq_true, if_false]
  refine ⟨_, ?_, hi.peFinish' hi1.upd, ?_⟩
  · have : i + 1 + (print body).length + 1 = i + (print body).length + 2 := by omega
    rw [this]
  · have : ∀ t q : PS, (HF.peFinish t true q).globstar = q.globstar := by
      intro t q
      unfold HF.peFinish
      cases t.inList <;> cases t.invNest <;> simp [PS.resetDirTrack]
    rw [this]
    simp only [upd_gs, hg1, peEnter_gs]

theorem neg_stepP (cfg : Cfg) (h : PathX cfg) (body : Pat) (hpp : pp true body = true)
    (hsl : slashFree body = true)
    (F i : Nat) (rest : List Char) (ps : PS) (cur : List Item) {as : Bool} (hi : PP.Inv ps as false 0)
    (hok : ok body (')' :: rest) = true) :
    ∃ ps', rootLoop cfg (F+1) ⟨i, '!' :: '(' :: (print body ++ ')' :: rest)⟩ ps cur =
        rootLoop cfg F ⟨i + (print body).length + 3, rest⟩ ps'
          (.ph (negStarP cfg as body) :: .invOpen cfg.capture (itsP cfg as body) :: cur) ∧
      PP.Inv ps' false false 1 ∧ ps'.globstar = ps.globstar := by
  obtain ⟨ps1, e1, hi1, hg1⟩ := parseExtend_negP cfg h body hpp hsl
    (2 * ('(' :: (print body ++ ')' :: rest)).length + 8) (i+1) rest ps cur hi hok
    (by simp only [List.length_cons, List.length_append]; omega)
  have hx : (cfg.extend && decide ('!' ∈ extTypes)) = true := by
    have : '!' ∈ extTypes := by decide
    simp [h.extend, this]
  refine ⟨ps1.updateDirState, ?_, hi1.upd, by rw [upd_gs, hg1]⟩
  rw [rootLoop_cons]
  unfold HF.rootTok
  rw [if_pos hx]
  simp only [e1, if_true]
  have : i + 1 + (print body).length + 2 = i + (print body).length + 3 := by omega
  rw [this]

/-- the top-level claim for one segment -/
def R4P (cfg : Cfg) (g : Pat) : Prop :=
  ppTop g = true → slashFree g = true →
    ∀ (F i : Nat) (rest : List Char) (ps : PS) (cur : List Item) (as : Bool),
    PP.Inv ps as false 0 → ok g rest = true → (print g).length ≤ F →
    ∃ ps' as', rootLoop cfg F ⟨i, print g ++ rest⟩ ps cur =
        rootLoop cfg (F - ntok g) ⟨i + (print g).length, rest⟩ ps' ((itsPreP cfg as g).reverse ++ cur) ∧
      PP.Inv ps' as' false (nNeg g) ∧ ps'.globstar = ps.globstar

theorem R4P_of_RG (cfg : Cfg) (h : PathX cfg) (g : Pat) (hpp : pp false g = true) : R4P cfg g := by
  intro _ hsl F i rest ps cur as hi hok hF
  obtain ⟨_, h2, _, _⟩ := ppTop_of_pp g hpp
  obtain ⟨ps', e, hi', hg'⟩ := RG_all cfg _ (pathSteps cfg h) g hpp (by rw [scope_eq]; exact hsl)
    F i rest ps cur as hi hok hF
  exact ⟨ps', _, by rw [(ppTopP_of_pp g hpp).1]; exact e, by rw [h2]; exact hi', hg'⟩

theorem R4P_all (cfg : Cfg) (h : PathX cfg) : ∀ g : Pat, R4P cfg g := by
  intro g
  induction g with
  | seq a b _ ihb =>
    by_cases hn : ∃ body, a = .ext .neg body
    · obtain ⟨body, rfl⟩ := hn
      intro hp hsl F i rest ps cur as hi hok hF
      simp only [ppTop, Bool.and_eq_true] at hp
      simp only [slashFree, Bool.and_eq_true] at hsl
      simp only [ok, Bool.and_eq_true] at hok
      simp only [print, List.length_cons, List.length_append, List.length_nil] at hF
      obtain ⟨F', rfl⟩ : ∃ F', F = F' + 1 := ⟨F - 1, by omega⟩
      obtain ⟨ps1, e1, hi1, hg1⟩ := neg_stepP cfg h body hp.1 hsl.1 F' i (print b ++ rest) ps cur hi hok.1
      have hnb := ntok_le b
      obtain ⟨ps2, as2, e2, hi2, hg2⟩ := R_litP cfg h b hp.2 hsl.2 1 F' (i + (print body).length + 3) rest ps1 _
        false hi1 (by omega)
      refine ⟨ps2, as2, ?_, hi2, hg2.trans hg1⟩
      simp only [print, extChar, List.cons_append, List.append_assoc, List.nil_append, itsPreP, ntok,
        List.reverse_cons, List.length_cons, List.length_append]
      rw [e1, e2]
      exact rootLoop_congr cfg _ _ _ (by omega) (by omega)
    · have hn' : ∀ body, a ≠ .ext .neg body := fun body e => hn ⟨body, e⟩
      intro hp hsl F i rest ps cur as hi hok hF
      rw [ppTop_seq a b hn'] at hp
      simp only [Bool.and_eq_true] at hp
      simp only [slashFree, Bool.and_eq_true] at hsl
      simp only [ok, Bool.and_eq_true] at hok
      simp only [print, List.length_append] at hF
      have hnp := ntok_le a
      obtain ⟨ps1, e1, hi1, hg1⟩ := RG_all cfg _ (pathSteps cfg h) a hp.1 (by rw [scope_eq]; exact hsl.1)
        F i (print b ++ rest) ps cur as hi hok.1 (by omega)
      obtain ⟨ps2, as2, e2, hi2, hg2⟩ := ihb hp.2 hsl.2 (F - ntok a) (i + (print a).length) rest ps1 _ _ hi1 hok.2
        (by omega)
      refine ⟨ps2, as2, ?_, by rw [nNeg_seq a b hn']; exact hi2, hg2.trans hg1⟩
      rw [itsPreP_seq cfg as a b hn']
      simp only [print, List.append_assoc, ntok, List.reverse_append, List.length_append]
      rw [e1, e2]
      have a1 : F - ntok a - ntok b = F - (ntok a + ntok b) := by omega
      have a2 : i + (print a).length + (print b).length = i + ((print a).length + (print b).length) := by omega
      rw [a1, a2]
  | ext k body =>
    by_cases hk : k = .neg
    · subst hk
      intro hp hsl F i rest ps cur as hi hok hF
      simp only [ppTop] at hp
      simp only [slashFree] at hsl
      simp only [ok] at hok
      simp only [print, List.length_cons, List.length_append, List.length_nil] at hF
      obtain ⟨F', rfl⟩ : ∃ F', F = F' + 1 := ⟨F - 1, by omega⟩
      obtain ⟨ps1, e1, hi1, hg1⟩ := neg_stepP cfg h body hp hsl F' i rest ps cur hi hok
      refine ⟨ps1, false, ?_, hi1, hg1⟩
      simp only [print, extChar, List.cons_append, List.append_assoc, List.nil_append, itsPreP, ntok,
        List.reverse_cons, List.length_cons, List.length_append, List.length_nil, List.reverse_nil]
      rw [e1]
      exact rootLoop_congr cfg _ _ _ (by omega) (by omega)
    · intro hp
      have : pp false (.ext k body) = true := by
        cases k <;> first | exact hp | exact absurd rfl hk
      exact R4P_of_RG cfg h _ this hp
  | eps => exact R4P_of_RG cfg h _ rfl
  | lit c => exact R4P_of_RG cfg h _ rfl
  | any => exact R4P_of_RG cfg h _ rfl
  | star => exact R4P_of_RG cfg h _ rfl
  | cls neg items => intro hp; exact R4P_of_RG cfg h _ hp hp
  | alt p q => intro hp; simp [ppTop, pp] at hp

/-! ## Part 3: `clean_up_inverse` at a top-level `/` and at the end of the pattern -/

theorem itsG_noPh (e : Emit) (cap : Capt) : ∀ (g : Pat) (as : Bool), NoPh (e.its cap as g) := by
  intro g
  induction g with
  | seq a b iha ihb => intro as; exact (iha _).append (ihb _)
  | alt a b iha ihb =>
    intro as
    refine (iha _).append ?_
    intro x hx
    rcases List.mem_cons.mp hx with rfl | h
    · rfl
    · exact ihb _ x h
  | eps => intro as x hx; cases hx
  | _ =>
    intro as x hx
    simp only [Emit.its, List.mem_singleton] at hx
    subst hx; rfl

theorem cleanUp_topP (cfg : Cfg) (h : PathX cfg) : ∀ (g : Pat), ppTop g = true → ∀ (as : Bool) (Y : List Item),
    NoPh Y →
    cleanUpGo cfg false ((itsPreP cfg as g).reverse ++ Y) [] 0 = (Y.reverse ++ itsTopP cfg as g, nNeg g) := by
  have heop : cfg.eop = Frag.pathEop false := by simp [Cfg.eop, h.pathname, h.win]
  have negCase : ∀ (st : Re) (B L Y : List Item) (_ : NoPh L) (_ : Item.eraseCapL L = L) (_ : NoPh Y),
      cleanUpGo cfg false ((Item.invOpen cfg.capture B :: Item.ph st :: L).reverse ++ Y) [] 0 =
        (Y.reverse ++ (Item.invOpen cfg.capture B :: Item.closed L (some (Frag.pathEop false)) st :: L), 1) := by
    intro st B L Y hL hE hY
    have e1 : (Item.invOpen cfg.capture B :: Item.ph st :: L).reverse ++ Y =
        L.reverse ++ (Item.ph st :: Item.invOpen cfg.capture B :: Y) := by simp
    rw [e1, cleanUpGo_append cfg false _ _ _ _ hL.reverse]
    simp only [List.reverse_reverse, List.append_nil, cleanUpGo, hE, ite_self, heop, Bool.false_eq_true, if_false]
    rw [cleanUpGo_noPh _ _ _ _ _ hY]
  have plain : ∀ (g : Pat) (as : Bool) (Y : List Item), NoPh Y → itsPreP cfg as g = itsP cfg as g →
      itsTopP cfg as g = itsP cfg as g → nNeg g = 0 →
      cleanUpGo cfg false ((itsPreP cfg as g).reverse ++ Y) [] 0 = (Y.reverse ++ itsTopP cfg as g, nNeg g) := by
    intro g as Y hY e1 e2 e3
    rw [e1, e2, e3, cleanUpGo_noPh _ _ _ _ _ ((itsG_noPh _ _ g as).reverse.append hY)]
    simp
  intro g
  induction g with
  | seq a b _ ihb =>
    by_cases hn : ∃ body, a = .ext .neg body
    · obtain ⟨body, rfl⟩ := hn
      intro hp as Y hY
      simp only [ppTop, Bool.and_eq_true] at hp
      simp only [itsPreP, itsTopP, nNeg]
      refine negCase _ _ _ Y (itsG_noPh _ _ b false) ?_ hY
      rw [itsP_litOnly cfg b false hp.2]
      exact eraseCapL_lits cfg b hp.2
    · have hn' : ∀ body, a ≠ .ext .neg body := fun body e => hn ⟨body, e⟩
      intro hp as Y hY
      rw [ppTop_seq a b hn'] at hp
      simp only [Bool.and_eq_true] at hp
      rw [itsPreP_seq cfg as a b hn', itsTopP_seq cfg as a b hn', nNeg_seq a b hn', List.reverse_append,
        List.append_assoc, ihb hp.2 _ _ ((itsG_noPh _ _ a as).reverse.append hY)]
      simp
  | ext k body =>
    by_cases hk : k = .neg
    · subst hk
      intro hp as Y hY
      simp only [itsPreP, itsTopP, nNeg]
      exact negCase _ _ [] Y (fun x hx => by cases hx) rfl hY
    · intro hp as Y hY
      have e1 : itsPreP cfg as (.ext k body) = itsP cfg as (.ext k body) := by
        cases k <;> first | rfl | exact absurd rfl hk
      have e2 : itsTopP cfg as (.ext k body) = itsP cfg as (.ext k body) := by
        cases k <;> first | rfl | exact absurd rfl hk
      have e3 : nNeg (.ext k body) = 0 := by
        cases k <;> first | rfl | exact absurd rfl hk
      exact plain _ as Y hY e1 e2 e3
  | eps => intro _ as Y hY; exact plain _ as Y hY rfl rfl rfl
  | lit c => intro _ as Y hY; exact plain _ as Y hY rfl rfl rfl
  | any => intro _ as Y hY; exact plain _ as Y hY rfl rfl rfl
  | star => intro _ as Y hY; exact plain _ as Y hY rfl rfl rfl
  | cls neg items => intro _ as Y hY; exact plain _ as Y hY rfl rfl rfl
  | alt p q => intro hp; simp [ppTop, pp] at hp

theorem itsPreP_eq_itsTopP (cfg : Cfg) : ∀ (g : Pat) (as : Bool), nNeg g = 0 → itsPreP cfg as g = itsTopP cfg as g := by
  intro g
  induction g with
  | seq a b _ ihb =>
    intro as h0
    by_cases hn : ∃ body, a = .ext .neg body
    · obtain ⟨body, rfl⟩ := hn; simp [nNeg] at h0
    · have hn' : ∀ body, a ≠ .ext .neg body := fun body e => hn ⟨body, e⟩
      rw [nNeg_seq a b hn'] at h0
      rw [itsPreP_seq cfg as a b hn', itsTopP_seq cfg as a b hn', ihb _ h0]
  | ext k body =>
    intro as h0
    cases k <;> first | rfl | (simp [nNeg] at h0)
  | _ => intro as _; rfl

/-- what `clean_up_inverse` (top level) does to the stack `cur` while `k` placeholders are open:
    it returns `cur'` and zeroes the counter -/
def Pend (cfg : Cfg) (k : Nat) (cur cur' : List Item) : Prop :=
  ∀ ps : PS, ps.invExt = k → cleanUpInverse cfg ps cur false = (cur', { ps with invExt := 0 })

theorem Pend.zero (cfg : Cfg) (cur : List Item) : Pend cfg 0 cur cur := by
  intro ps h0
  rw [cleanUp_zero cfg ps cur false h0]
  obtain ⟨a, b, c, d, e, f, g, i, j⟩ := ps
  simp only at h0
  subst h0
  rfl

theorem Pend.eq_of_zero {cfg : Cfg} {cur cur' : List Item} (h : Pend cfg 0 cur cur') : cur' = cur := by
  have := h {} rfl
  rw [cleanUp_zero cfg _ cur false rfl] at this
  exact (Prod.mk.inj this).1.symm

/-- the pending clean-up of one segment -/
theorem pend_seg (cfg : Cfg) (h : PathX cfg) (g : Pat) (hp : ppTop g = true) (as : Bool) (Y : List Item)
    (hY : NoPh Y) :
    Pend cfg (nNeg g) ((itsPreP cfg as g).reverse ++ Y) ((itsTopP cfg as g).reverse ++ Y) := by
  by_cases h0 : nNeg g = 0
  · rw [h0, itsPreP_eq_itsTopP cfg g as h0]
    exact Pend.zero cfg _
  · intro ps hk
    have hne : ps.invExt ≠ 0 := by rw [hk]; exact h0
    unfold cleanUpInverse
    rw [if_neg hne, cleanUp_topP cfg h g hp as Y hY]
    simp [hk]

theorem itsTopP_noPh (cfg : Cfg) : ∀ (g : Pat) (as : Bool), NoPh (itsTopP cfg as g) := by
  intro g
  induction g with
  | seq a b _ ihb =>
    intro as
    by_cases hn : ∃ body, a = .ext .neg body
    · obtain ⟨body, rfl⟩ := hn
      intro x hx
      simp only [itsTopP, List.mem_cons] at hx
      rcases hx with rfl | rfl | hx
      · rfl
      · rfl
      · exact itsG_noPh _ _ b false x hx
    · have hn' : ∀ body, a ≠ .ext .neg body := fun body e => hn ⟨body, e⟩
      rw [itsTopP_seq cfg as a b hn']
      exact (itsG_noPh _ _ a as).append (ihb _)
  | ext k body =>
    intro as x hx
    cases k <;> simp only [itsTopP, itsP, Emit.its, List.mem_cons, List.not_mem_nil, or_false] at hx <;>
      first | (subst hx; rfl) | (rcases hx with rfl | rfl <;> rfl)
  | eps => intro as x hx; cases hx
  | lit c => intro as; exact itsG_noPh (pathEmit cfg) (HF.capOf cfg) (.lit c) as
  | any => intro as; exact itsG_noPh (pathEmit cfg) (HF.capOf cfg) .any as
  | star => intro as; exact itsG_noPh (pathEmit cfg) (HF.capOf cfg) .star as
  | cls neg items => intro as; exact itsG_noPh (pathEmit cfg) (HF.capOf cfg) (.cls neg items) as
  | alt p q => intro as; exact itsG_noPh (pathEmit cfg) (HF.capOf cfg) (.alt p q) as

/-! ## Part 4: whole path patterns -/

/-- a single separator at top level, closing the pending `!(…)` of the segment before it -/
theorem slash_stepN (cfg : Cfg) (h : PathX cfg) (F i : Nat) (rest : List Char) (ps : PS) (cur cur' : List Item)
    {as : Bool} {k : Nat} (hi : PP.Inv ps as false k) (hp : Pend cfg k cur cur') (hr : rest.head? ≠ some '/') :
    ∃ ps', rootLoop cfg (F+1) ⟨i, '/' :: rest⟩ ps cur =
        rootLoop cfg F ⟨i+1, rest⟩ ps' (.re (Frag.sepPlus false) :: cur') ∧
      PP.Inv ps' true false 0 ∧ ps'.globstar = ps.globstar := by
  obtain ⟨ps1, hi1, hg1, e⟩ := rootTok_plainG cfg '/' ⟨i+1, rest⟩ ps cur hi (fun hx => absurd hx slash_not_ext')
  have hc := hp ps1.setStartDir (by simpa [PS.setStartDir] using hi1.invExt)
  refine ⟨({ ({ ps1.setStartDir with invExt := 0 } : PS) with matchbase := false } : PS).updateDirState, ?_, ?_, ?_⟩
  · rw [rootLoop_cons, e]
    simp only [HF.rootPlain, show ('/' : Char) ≠ '.' by decide, show ('/' : Char) ≠ '*' by decide,
      show ('/' : Char) ≠ '?' by decide, if_false, if_true, h.pathname,
      hc, consumePathSep_id cfg h ⟨i+1, rest⟩ hr, h.win]
  · obtain ⟨h1, h2, h3, h4, h5, h6⟩ := hi1
    exact ⟨by simp [PS.updateDirState, PS.setStartDir, PS.setAfterStart],
      by simp [PS.updateDirState, PS.setStartDir, PS.setAfterStart],
      by simp [PS.updateDirState, PS.setStartDir, PS.setAfterStart, h3],
      by simp [PS.updateDirState, PS.setStartDir, PS.setAfterStart],
      by simp [PS.updateDirState, PS.setStartDir, PS.setAfterStart],
      by simp [PS.updateDirState, PS.setStartDir, PS.setAfterStart, h6]⟩
  · simp [PS.updateDirState, PS.setStartDir, PS.setAfterStart, hg1]

/-- the printable scope of one segment: as `PPP.segOK`, with `PP.ppTop` (one top-level `!(…)`
    followed by literal text) in place of `PP.pp false` -/
def segOKN : Seg → Bool
  | .pat g => ppTop g && slashFree g && ok g [] && !(print g).isEmpty
  | .glob => true

theorem segOKN_pat {g : Pat} (h : segOKN (.pat g) = true) :
    ppTop g = true ∧ slashFree g = true ∧ ok g [] = true ∧ print g ≠ [] := by
  simp only [segOKN, Bool.and_eq_true, Bool.not_eq_eq_eq_not, Bool.not_true, List.isEmpty_eq_false_iff] at h
  exact ⟨h.1.1.1, h.1.1.2, h.1.2, h.2⟩

/-- the items for the segments, after every clean-up (mirrors `pathRe`) -/
def segItemsN (cfg : Cfg) (tr : Bool) : List Seg → Bool → List Item
  | [], sb => if sb then [.re (Frag.sepPlus false)] else []
  | .pat g :: rest, sb =>
    (if sb then [.re (Frag.sepPlus false)] else []) ++
      (itsTopP cfg true g ++ segItemsN cfg tr rest (if rest.isEmpty then tr else true))
  | .glob :: rest, sb =>
    (if sb then [.re (Frag.needSep false)] else []) ++
      (.re (gstarRe cfg) :: .re (Frag.globstarDiv false) :: segItemsN cfg tr rest false)

theorem printSegs_false_headN (tr : Bool) (segs : List Seg) (hok : ∀ s ∈ segs, segOKN s = true) :
    (printSegs tr segs false).head? ≠ some '/' := by
  cases segs with
  | nil => simp [printSegs]
  | cons s rest =>
    cases s with
    | pat g =>
      obtain ⟨_, h2, _, h4⟩ := segOKN_pat (hok (.pat g) (by simp))
      simp only [printSegs, Bool.false_eq_true, if_false, List.nil_append]
      exact head_append_ne h4 (print_head g h2)
    | glob => simp [printSegs]

theorem NoPh.cons {x : Item} {l : List Item} (hx : isPh x = false) (hl : NoPh l) : NoPh (x :: l) := by
  intro y hy
  rcases List.mem_cons.mp hy with rfl | hy
  · exact hx
  · exact hl y hy

theorem globCur_noPh (cfg : Cfg) (last : Item) (before : List Item) (hb : NoPh before) :
    NoPh (globCur cfg last before) := by
  unfold globCur
  split
  · exact NoPh.cons rfl (NoPh.cons rfl hb)
  · exact NoPh.cons rfl (NoPh.cons rfl (NoPh.cons rfl hb))

/-- **the loop of `root` on the printed segments**, with a pending clean-up -/
theorem segs_loopN (cfg : Cfg) (h : PathX cfg) (tr : Bool) :
    ∀ (segs : List Seg) (sb : Bool) (F i : Nat) (ps : PS) (cur cur' : List Item) (as : Bool) (k : Nat),
      (∀ s ∈ segs, segOKN s = true) → noGG segs = true →
      (sb = false → segs.head?.map Seg.isGlob ≠ some true) →
      (segs.any Seg.isGlob = true → ps.globstar = true) →
      PP.Inv ps as false k → Pend cfg k cur cur' → NoPh cur' →
      (sb = false → segs ≠ [] → as = true ∧ k = 0) →
      (printSegs tr segs sb).length + 1 ≤ F →
      ∃ ps' curE asE kE, rootLoop cfg F ⟨i, printSegs tr segs sb⟩ ps cur = (ps', curE) ∧
        PP.Inv ps' asE false kE ∧ Pend cfg kE curE ((segItemsN cfg tr segs sb).reverse ++ cur') := by
  intro segs
  induction segs with
  | nil =>
    intro sb F i ps cur cur' as k _ _ _ _ hi hp _ _ hF
    cases sb with
    | false =>
      simp only [printSegs, Bool.false_eq_true, if_false, List.length_nil] at hF ⊢
      exact ⟨ps, cur, as, k, rootLoop_nil cfg F i ps cur (by omega), hi, by simpa [segItemsN] using hp⟩
    | true =>
      simp only [printSegs, if_true, List.length_cons, List.length_nil] at hF ⊢
      obtain ⟨F', rfl⟩ : ∃ F', F = F' + 1 := ⟨F - 1, by omega⟩
      obtain ⟨ps1, e1, hi1, _⟩ := slash_stepN cfg h F' i [] ps cur cur' hi hp (by simp)
      exact ⟨ps1, _, true, 0, by rw [e1, rootLoop_nil cfg F' _ ps1 _ (by omega)], hi1,
        by simpa [segItemsN] using Pend.zero cfg _⟩
  | cons s rest ih =>
    intro sb F i ps cur cur' as k hok hgg hsb hgs hi hp hnp has hF
    have hokr : ∀ s ∈ rest, segOKN s = true := fun s hs => hok s (List.mem_cons_of_mem _ hs)
    cases s with
    | pat g =>
      obtain ⟨hpp, hsl, hokg, hne⟩ := segOKN_pat (hok (.pat g) (by simp))
      have hggr : noGG rest = true := by simpa [noGG] using hgg
      have hgsr : ∀ ps2 : PS, ps2.globstar = ps.globstar → rest.any Seg.isGlob = true → ps2.globstar = true := by
        intro ps2 e hr
        rw [e]; exact hgs (by simp [List.any_cons, hr])
      -- the part common to both values of `sb`
      have core : ∀ (F1 i1 : Nat) (ps1 : PS) (cur1 : List Item), PP.Inv ps1 true false 0 → NoPh cur1 →
          ps1.globstar = ps.globstar →
          (print g ++ printSegs tr rest (if rest.isEmpty then tr else true)).length + 1 ≤ F1 →
          ∃ ps' curE asE kE,
            rootLoop cfg F1 ⟨i1, print g ++ printSegs tr rest (if rest.isEmpty then tr else true)⟩ ps1 cur1 =
              (ps', curE) ∧ PP.Inv ps' asE false kE ∧
            Pend cfg kE curE ((segItemsN cfg tr rest (if rest.isEmpty then tr else true)).reverse ++
                ((itsTopP cfg true g).reverse ++ cur1)) := by
        intro F1 i1 ps1 cur1 hi1 hn1 hg1 hF1
        simp only [List.length_append] at hF1
        have hnt := ntok_le g
        obtain ⟨ps2, as2, e2, hi2, hg2⟩ := R4P_all cfg h g hpp hsl
          F1 i1 (printSegs tr rest (if rest.isEmpty then tr else true)) ps1 cur1 true hi1
          (by rw [ok_sep g _ (tail_shape tr rest)]; exact hokg) (by omega)
        obtain ⟨ps3, curE, asE, kE, e3, hi3, hp3⟩ := ih (if rest.isEmpty then tr else true) (F1 - ntok g)
          (i1 + (print g).length)
          ps2 ((itsPreP cfg true g).reverse ++ cur1) ((itsTopP cfg true g).reverse ++ cur1) as2 (nNeg g) hokr hggr
          (by
            intro hx
            cases rest with
            | nil => simp
            | cons a b => simp at hx)
          (hgsr ps2 (hg2.trans hg1)) hi2 (pend_seg cfg h g hpp true cur1 hn1)
          ((itsTopP_noPh cfg g true).reverse.append hn1)
          (by
            intro hx hr
            cases rest with
            | nil => exact absurd rfl hr
            | cons a b => simp at hx)
          (by omega)
        exact ⟨ps3, curE, asE, kE, by rw [e2, e3], hi3, hp3⟩
      cases sb with
      | false =>
        obtain ⟨has', hk0⟩ := has rfl (by simp)
        subst has'; subst hk0
        have hcc : cur' = cur := hp.eq_of_zero
        subst hcc
        simp only [printSegs, Bool.false_eq_true, if_false, List.nil_append] at hF ⊢
        obtain ⟨ps', curE, asE, kE, e, hi', hp'⟩ := core F i ps cur' hi hnp rfl hF
        refine ⟨ps', curE, asE, kE, e, hi', ?_⟩
        simpa [segItemsN] using hp'
      | true =>
        simp only [printSegs, if_true, List.cons_append, List.nil_append, List.length_cons] at hF ⊢
        obtain ⟨F', rfl⟩ : ∃ F', F = F' + 1 := ⟨F - 1, by omega⟩
        obtain ⟨ps1, e1, hi1, hg1⟩ := slash_stepN cfg h F' i
          (print g ++ printSegs tr rest (if rest.isEmpty then tr else true)) ps cur cur' hi hp
          (head_append_ne hne (print_head g hsl))
        obtain ⟨ps', curE, asE, kE, e, hi', hp'⟩ := core F' (i+1) ps1 (.re (Frag.sepPlus false) :: cur') hi1
          (NoPh.cons rfl hnp) hg1 (by omega)
        refine ⟨ps', curE, asE, kE, by rw [e1, e], hi', ?_⟩
        simpa [segItemsN] using hp'
    | glob =>
      have hsbt : sb = true := by
        cases sb with
        | true => rfl
        | false => exact absurd (by simp [Seg.isGlob]) (hsb rfl)
      subst hsbt
      have hg : ps.globstar = true := hgs (by simp [Seg.isGlob])
      have hggr : noGG rest = true ∧ rest.head?.map Seg.isGlob ≠ some true := by
        simp only [noGG, Bool.and_eq_true] at hgg
        refine ⟨hgg.2, ?_⟩
        cases rest with
        | nil => simp
        | cons a b => cases a <;> simp_all [Seg.isGlob]
      simp only [printSegs, if_true, List.cons_append, List.nil_append, List.length_cons] at hF ⊢
      obtain ⟨F', rfl⟩ : ∃ F', F = F' + 1 := ⟨F - 1, by omega⟩
      obtain ⟨ps1, e1, hi1, hg1⟩ := slash_stepN cfg h F' i
        ('*' :: '*' :: ((if (rest.isEmpty && !tr) = true then [] else ['/']) ++ printSegs tr rest false))
        ps cur cur' hi hp (by simp)
      have hg1' : ps1.globstar = true := hg1.trans hg
      obtain ⟨F'', rfl⟩ : ∃ F'', F' = F'' + 1 := ⟨F' - 1, by omega⟩
      have hnG : NoPh (globCur cfg (.re (Frag.sepPlus false)) cur') := globCur_noPh cfg _ _ hnp
      have fin : ∀ (i2 : Nat) (ps2 : PS), PP.Inv ps2 true false 0 → ps2.globstar = true →
          (printSegs tr rest false).length + 1 ≤ F'' →
          ∃ ps' curE asE kE, rootLoop cfg F'' ⟨i2, printSegs tr rest false⟩ ps2
              (globCur cfg (.re (Frag.sepPlus false)) cur') = (ps', curE) ∧ PP.Inv ps' asE false kE ∧
            Pend cfg kE curE ((segItemsN cfg tr rest false).reverse ++ globCur cfg (.re (Frag.sepPlus false)) cur') := by
        intro i2 ps2 hi2 hg2 hF2
        exact ih false F'' i2 ps2 _ _ true 0 hokr hggr.1 (fun _ => hggr.2) (fun _ => hg2) hi2 (Pend.zero cfg _) hnG
          (fun _ _ => ⟨rfl, rfl⟩) hF2
      by_cases hend : (rest.isEmpty && !tr) = true
      · simp only [hend, if_true, List.nil_append] at hF e1 ⊢
        have hre : rest = [] := by
          simp only [Bool.and_eq_true, List.isEmpty_iff] at hend; exact hend.1
        subst hre
        simp only [printSegs, Bool.false_eq_true, if_false] at hF e1 ⊢
        obtain ⟨ps2, e2, hi2, hg2⟩ := glob_step_end cfg h F'' (i+1) ps1 (.re (Frag.sepPlus false)) cur' hi1 hg1'
          isDiv_sepPlus
        obtain ⟨ps', curE, asE, kE, e, hi', hp'⟩ := fin (i+1+2) ps2 hi2 hg2 (by simp [printSegs] at hF ⊢; omega)
        refine ⟨ps', curE, asE, kE, ?_, hi', ?_⟩
        · simp only [printSegs, Bool.false_eq_true, if_false] at e
          rw [e1, e2, e]
        · simpa [segItemsN, globCur, Item.isEmpty] using hp'
      · simp only [hend, Bool.false_eq_true, if_false, List.cons_append, List.nil_append, List.length_cons] at hF e1 ⊢
        obtain ⟨ps2, e2, hi2, hg2⟩ := glob_step_sep cfg h F'' (i+1) (printSegs tr rest false) ps1
          (.re (Frag.sepPlus false)) cur' hi1 hg1' isDiv_sepPlus (printSegs_false_headN tr rest hokr)
        obtain ⟨ps', curE, asE, kE, e, hi', hp'⟩ := fin (i+1+3) ps2 hi2 hg2 (by omega)
        refine ⟨ps', curE, asE, kE, by rw [e1, e2, e], hi', ?_⟩
        simpa [segItemsN, globCur, Item.isEmpty] using hp'

/-- the loop of `root` on a whole printed path pattern, started on `['']` -/
theorem path_loopN (cfg : Cfg) (h : PathX cfg) (tr : Bool) (segs : List Seg) (sb : Bool) (ps : PS)
    (hok : ∀ s ∈ segs, segOKN s = true) (hgg : noGG segs = true)
    (hgs : segs.any Seg.isGlob = true → ps.globstar = true) (hi : PP.Inv ps true false 0) :
    ∃ ps' curE asE kE,
      rootLoop cfg ((printSegs tr segs sb).length + 1) ⟨0, printSegs tr segs sb⟩ ps [.empty] = (ps', curE) ∧
      PP.Inv ps' asE false kE ∧
      Pend cfg kE curE ((segItemsN cfg tr segs sb).reverse ++ baseItems segs sb) := by
  have hnE : NoPh [Item.empty] := NoPh.cons rfl (fun x hx => by cases hx)
  by_cases hl : leadGlob segs sb = true
  · -- `**…` at the very beginning
    have hsb : sb = false := by
      cases sb with
      | false => rfl
      | true => simp [leadGlob] at hl
    subst hsb
    cases segs with
    | nil => simp [leadGlob] at hl
    | cons s rest =>
      cases s with
      | pat g => simp [leadGlob, Seg.isGlob] at hl
      | glob =>
        have hokr : ∀ s ∈ rest, segOKN s = true := fun s hs => hok s (List.mem_cons_of_mem _ hs)
        have hg : ps.globstar = true := hgs (by simp [Seg.isGlob])
        have hggr : noGG rest = true ∧ rest.head?.map Seg.isGlob ≠ some true := by
          simp only [noGG, Bool.and_eq_true] at hgg
          refine ⟨hgg.2, ?_⟩
          cases rest with
          | nil => simp
          | cons a b => cases a <;> simp_all [Seg.isGlob]
        have hnG : NoPh (globCur cfg .empty []) := globCur_noPh cfg _ _ (fun x hx => by cases hx)
        have fin : ∀ (F i2 : Nat) (ps2 : PS), PP.Inv ps2 true false 0 → ps2.globstar = true →
            (printSegs tr rest false).length + 1 ≤ F →
            ∃ ps' curE asE kE, rootLoop cfg F ⟨i2, printSegs tr rest false⟩ ps2 (globCur cfg .empty []) =
                (ps', curE) ∧ PP.Inv ps' asE false kE ∧
              Pend cfg kE curE ((segItemsN cfg tr rest false).reverse ++ globCur cfg .empty []) := by
          intro F i2 ps2 hi2 hg2 hF2
          exact segs_loopN cfg h tr rest false F i2 ps2 _ _ true 0 hokr hggr.1 (fun _ => hggr.2) (fun _ => hg2) hi2
            (Pend.zero cfg _) hnG (fun _ _ => ⟨rfl, rfl⟩) hF2
        simp only [printSegs, Bool.false_eq_true, if_false, List.nil_append, baseItems, hl, if_true,
          List.append_nil]
        by_cases hend : (rest.isEmpty && !tr) = true
        · simp only [hend, if_true, List.nil_append]
          have hre : rest = [] := by
            simp only [Bool.and_eq_true, List.isEmpty_iff] at hend; exact hend.1
          subst hre
          simp only [printSegs, Bool.false_eq_true, if_false, List.length_cons, List.length_nil]
          obtain ⟨ps2, e2, hi2, hg2⟩ := glob_step_end cfg h 2 0 ps .empty [] hi hg isDiv_empty
          obtain ⟨ps', curE, asE, kE, e, hi', hp'⟩ := fin 2 (0+2) ps2 hi2 hg2 (by simp [printSegs])
          refine ⟨ps', curE, asE, kE, ?_, hi', ?_⟩
          · simp only [printSegs, Bool.false_eq_true, if_false] at e
            rw [e2, e]
          · simpa [segItemsN, globCur, Item.isEmpty] using hp'
        · simp only [hend, Bool.false_eq_true, if_false, List.cons_append, List.nil_append, List.length_cons]
          obtain ⟨ps2, e2, hi2, hg2⟩ := glob_step_sep cfg h ((printSegs tr rest false).length + 1 + 1 + 1) 0
            (printSegs tr rest false) ps .empty [] hi hg isDiv_empty (printSegs_false_headN tr rest hokr)
          obtain ⟨ps', curE, asE, kE, e, hi', hp'⟩ :=
            fin ((printSegs tr rest false).length + 1 + 1 + 1) (0+3) ps2 hi2 hg2 (by omega)
          refine ⟨ps', curE, asE, kE, by rw [e2, e], hi', ?_⟩
          simpa [segItemsN, globCur, Item.isEmpty] using hp'
  · have hl' : leadGlob segs sb = false := by simpa using hl
    obtain ⟨ps', curE, asE, kE, e, hi', hp'⟩ := segs_loopN cfg h tr segs sb _ 0 ps [.empty] [.empty] true 0 hok hgg
      (by
        intro hsb hx
        subst hsb
        simp [leadGlob, hx] at hl')
      hgs hi (Pend.zero cfg _) hnE (fun _ _ => ⟨rfl, rfl⟩) (Nat.le_refl _)
    exact ⟨ps', curE, asE, kE, e, hi', by simpa [baseItems, hl'] using hp'⟩

theorem printSegs_ne_nilN (tr : Bool) (segs : List Seg) (sb : Bool) (hok : ∀ s ∈ segs, segOKN s = true)
    (hwf : segs = [] → sb = true) : printSegs tr segs sb ≠ [] := by
  cases segs with
  | nil => simp [printSegs, hwf rfl]
  | cons s rest =>
    cases s with
    | pat g =>
      obtain ⟨_, _, _, h4⟩ := segOKN_pat (hok (.pat g) (by simp))
      simp [printSegs, h4]
    | glob => simp [printSegs]

theorem printSegs_ne_bsN (tr : Bool) (segs : List Seg) (sb : Bool) (hok : ∀ s ∈ segs, segOKN s = true) :
    printSegs tr segs sb ≠ ['\\'] := by
  cases sb with
  | true => rw [printSegs_sep]; simp
  | false =>
    cases segs with
    | nil => simp [printSegs]
    | cons s rest =>
      cases s with
      | pat g =>
        obtain ⟨_, _, _, h4⟩ := segOKN_pat (hok (.pat g) (by simp))
        simp only [printSegs, Bool.false_eq_true, if_false, List.nil_append]
        intro he
        cases hp : print g with
        | nil => exact h4 hp
        | cons c r =>
          rw [hp] at he
          simp only [List.cons_append, List.cons.injEq, List.append_eq_nil_iff] at he
          obtain ⟨rfl, rfl, _⟩ := he
          exact print_ne_bs g hp
      | glob => simp [printSegs]

/-- `root` on a printed path pattern (the state may come from an earlier `root` run) -/
theorem root_pathN (cfg : Cfg) (h : PathX cfg) (drive : List Char → DriveInfo) (tr : Bool) (segs : List Seg)
    (sb : Bool) (hok : ∀ s ∈ segs, segOKN s = true) (hgg : noGG segs = true) (ps : PS)
    (hgs : segs.any Seg.isGlob = true → ps.globstar = true)
    (hl : ps.inList = false) (hk : ps.invExt = 0) (hm : ps.matchbase = false) (hem : ps.extmatchbase = false) :
    ∃ ps', root cfg drive (printSegs tr segs sb) ps [.empty] =
        .ok (ps', .re (Frag.pathTrail false) :: ((segItemsN cfg tr segs sb).reverse ++ baseItems segs sb)) ∧
      ps'.inList = false ∧ ps'.invExt = 0 ∧ ps'.matchbase = false ∧ ps'.extmatchbase = false := by
  have hhd : decide ((printSegs tr segs sb).head? = some '/') = sb := by
    cases sb with
    | true => simp [printSegs_sep]
    | false => simpa using printSegs_false_headN tr segs hok
  rw [root_eq]
  unfold rootPre rootPost
  simp only [h.wdd, Bool.false_eq_true, ite_false, h.pathname, Bool.true_and, hhd, h.noAbs, Bool.false_and,
    h.realpath, Bool.and_false]
  cases sb with
  | true =>
    have hi' : PP.Inv ({ ps.setAfterStart with matchbase := false, extmatchbase := false } : PS) true false 0 :=
      ⟨rfl, rfl, hl, hk, rfl, rfl⟩
    obtain ⟨ps1, curE, asE, kE, e1, hi1, hp1⟩ := path_loopN cfg h tr segs true _ hok hgg
      (by simpa [PS.setAfterStart] using hgs) hi'
    refine ⟨{ ps1 with invExt := 0 }, ?_, hi1.inList, rfl, hi1.mb, hi1.emb⟩
    simp only [if_true, e1, hp1 ps1 hi1.invExt, h.win]
  | false =>
    have hi' : PP.Inv ps.setAfterStart true false 0 := ⟨rfl, rfl, hl, hk, hm, hem⟩
    obtain ⟨ps1, curE, asE, kE, e1, hi1, hp1⟩ := path_loopN cfg h tr segs false _ hok hgg
      (by simpa [PS.setAfterStart] using hgs) hi'
    refine ⟨{ ps1 with invExt := 0 }, ?_, hi1.inList, rfl, hi1.mb, hi1.emb⟩
    simp only [Bool.false_eq_true, if_false, if_true, e1, hp1 ps1 hi1.invExt, h.win]

/-- the whole pass on a printed path pattern -/
theorem parseItems_pathN (cfg : Cfg) (h : PathX cfg) (drive : List Char → DriveInfo) (tr : Bool)
    (segs : List Seg) (sb : Bool) (hok : ∀ s ∈ segs, segOKN s = true) (hgg : noGG segs = true)
    (hwf : segs = [] → sb = true) (hgs : segs.any Seg.isGlob = true → cfg.globstar0 = true) :
    parseItems cfg drive (printSegs tr segs sb) =
      .ok { items := baseItems segs sb ++ (segItemsN cfg tr segs sb ++ [.re (Frag.pathTrail false)]),
            ci := !cfg.caseSensitive } := by
  unfold parseItems
  simp only [anchorStep, h.anchor, Bool.false_eq_true, ite_false]
  simp only [parsePrepend, h.matchbase, h.extmatchbase, Bool.or_self, Bool.false_eq_true, ite_false]
  unfold parseBody
  have hemp : (printSegs tr segs sb).isEmpty = false := by simpa using printSegs_ne_nilN tr segs sb hok hwf
  obtain ⟨ps', hr, _, _, hm, he⟩ := root_pathN cfg h drive tr segs sb hok hgg
    { matchbase := false, extmatchbase := false, globstar := cfg.globstar0 } hgs rfl rfl rfl rfl
  simp only [printSegs_ne_bsN tr segs sb hok, ite_false, hemp, Bool.false_eq_true, hr]
  have hb : (baseItems segs sb).reverse = baseItems segs sb := by
    unfold baseItems; split <;> rfl
  simp [hm, he, hb]

/-! ## Part 5: from the items to the regex of the tidy path compiler -/

def TPN (cfg : Cfg) (g : Pat) : Prop :=
  ∀ (as : Bool) (f : Nat) (rest : List Item) (x : Re), Item.seqToRe f (itsTopP cfg as g ++ rest) = some x →
    ∃ f' x', Item.seqToRe f' rest = some x' ∧ Eqv x (.cat (compSeg cfg.dot as g) x')

/-- the look-ahead list `(?:body) tail (?:$|[/])` -/
theorem lookahead_eqvP (cfg : Cfg) (h : PathX cfg) (rest : Pat) (hl : rest.litOnly = true)
    (hsl : slashFree rest = true) (f : Nat) (b la e : Re)
    (hla : Item.listToRe f (.re (.grp b) :: (itsP cfg false rest ++ [.re e])) = some la) :
    Eqv la (.cat (.grp b) (.cat (compSeg cfg.dot false rest) e)) := by
  have hpp := litOnly_pp rest hl
  obtain ⟨f1, xs, _, hm, hx⟩ := listToRe_inv hla
  have hnb : HF.NoBar (Item.re (.grp b) :: (itsP cfg false rest ++ [.re e])) :=
    HF.NoBar.cons rfl ((itsG_noBar _ _ rest false hpp).append (HF.NoBar.cons rfl HF.NoBar.nil))
  rw [HF.splitBars_noBar _ hnb] at hm
  simp only [List.mapM_cons, List.mapM_nil] at hm
  cases h1 : Item.seqToRe f1 (Item.re (.grp b) :: (itsP cfg false rest ++ [.re e])) with
  | none => simp [h1] at hm
  | some x =>
    simp [h1] at hm
    have hla' : la = x := by rw [hx, ← hm]; rfl
    obtain ⟨f2, y, _, hy, hxy⟩ := seqToRe_re h1
    obtain ⟨f3, y', hy', he⟩ := (itsP_toRe cfg h rest).1 hpp (by rw [scope_eq]; exact hsl) false f2 [.re e] y hy
    obtain ⟨f4, z, _, hz, hyz⟩ := seqToRe_re hy'
    rw [seqToRe_nil hz] at hyz
    rw [hla', hxy]
    refine (Eqv.catE' _ _).trans ((Eqv.refl _).cat (he.trans ((Eqv.refl _).cat ?_)))
    rw [hyz]
    exact (Eqv.catE' _ _).trans (Eqv.cat_eps _)

theorem lookahead_nil_eqvP (f : Nat) (b la e : Re)
    (h : Item.listToRe f (.re (.grp b) :: ([] ++ [.re e])) = some la) :
    Eqv la (.cat (.grp b) e) := by
  obtain ⟨f1, xs, _, hm, hx⟩ := listToRe_inv h
  simp only [List.nil_append, splitBars, List.mapM_cons, List.mapM_nil] at hm
  cases h1 : Item.seqToRe f1 [Item.re (.grp b), .re e] with
  | none => simp [h1] at hm
  | some x =>
    simp [h1] at hm
    have hla : la = x := by rw [hx, ← hm]; rfl
    obtain ⟨f2, y, _, hy, hxy⟩ := seqToRe_re h1
    obtain ⟨f4, z, _, hz, hyz⟩ := seqToRe_re hy
    rw [seqToRe_nil hz] at hyz
    rw [hla, hxy, hyz]
    exact (Eqv.catE' _ _).trans ((Eqv.refl _).cat ((Eqv.catE' _ _).trans (Eqv.cat_eps _)))

/-- the items of a segment with a `!(…)` convert to the regex of `compSeg` -/
theorem itsTopP_toRe (cfg : Cfg) (h : PathX cfg) : ∀ (g : Pat), ppTop g = true → slashFree g = true →
    TPN cfg g := by
  have flat : ∀ (g : Pat), pp false g = true → slashFree g = true → TPN cfg g := by
    intro g hp hsl as f rest x hx
    rw [(ppTopP_of_pp g hp).2] at hx
    exact (itsP_toRe cfg h g).1 hp (by rw [scope_eq]; exact hsl) as f rest x hx
  intro g
  induction g with
  | seq a b _ ihb =>
    by_cases hn : ∃ body, a = .ext .neg body
    · obtain ⟨body, rfl⟩ := hn
      intro hp hsl as f rest x hx
      simp only [ppTop, Bool.and_eq_true] at hp
      simp only [slashFree, Bool.and_eq_true] at hsl
      simp only [itsTopP, List.cons_append] at hx
      obtain ⟨f', bq, la, r, _, hb, hla, hr, hxe⟩ := seqToRe_inv hx
      obtain ⟨f2, xs, _, hm, hbx⟩ := listToRe_inv hb
      have hV := (itsP_toRe cfg h body).2 hp.1 (by rw [scope_eq]; exact hsl.1) as f2 xs hm
      rw [← hbx] at hV
      have hL := lookahead_eqvP cfg h b hp.2 hsl.2 f' bq la _ hla
      obtain ⟨f3, x3, hx3, hR⟩ := (itsP_toRe cfg h b).1 (litOnly_pp b hp.2) (by rw [scope_eq]; exact hsl.2)
        false f' rest r hr
      refine ⟨f3, x3, hx3, ?_⟩
      rw [hxe]
      simp only [compSeg, negStarP]
      refine (Eqv.catE' _ _).trans (((capgrp_eqv _ (Eqv.cat (Eqv.look true ?_) (Eqv.refl _))).cat hR).trans
        (Eqv.cat_assoc _ _ _).symm)
      exact hL.trans ((Eqv.grp hV).cat (Eqv.refl _))
    · have hn' : ∀ body, a ≠ .ext .neg body := fun body e => hn ⟨body, e⟩
      intro hp hsl as f rest x hx
      rw [ppTop_seq a b hn'] at hp
      simp only [Bool.and_eq_true] at hp
      simp only [slashFree, Bool.and_eq_true] at hsl
      rw [itsTopP_seq cfg as a b hn', List.append_assoc] at hx
      obtain ⟨f1, x1, h1, e1⟩ := (itsP_toRe cfg h a).1 hp.1 (by rw [scope_eq]; exact hsl.1) as f _ x hx
      obtain ⟨f2, x2, h2, e2⟩ := ihb hp.2 hsl.2 _ f1 rest x1 h1
      refine ⟨f2, x2, h2, ?_⟩
      rw [compSeg_seq _ _ _ _ (pp_negFree a _ hp.1)]
      exact (e1.trans ((Eqv.refl _).cat e2)).trans (Eqv.cat_assoc _ _ _).symm
  | ext k body =>
    by_cases hk : k = .neg
    · subst hk
      intro hp hsl as f rest x hx
      simp only [ppTop] at hp
      simp only [slashFree] at hsl
      simp only [itsTopP, List.cons_append, List.nil_append] at hx
      obtain ⟨f', bq, la, r, _, hb, hla, hr, hxe⟩ := seqToRe_inv hx
      obtain ⟨f2, xs, _, hm, hbx⟩ := listToRe_inv hb
      have hV := (itsP_toRe cfg h body).2 hp (by rw [scope_eq]; exact hsl) as f2 xs hm
      rw [← hbx] at hV
      have hL := lookahead_nil_eqvP f' bq la _ hla
      refine ⟨f', r, hr, ?_⟩
      rw [hxe]
      simp only [compSeg, negStarP]
      refine (Eqv.catE' _ _).trans ((capgrp_eqv _ (Eqv.cat (Eqv.look true ?_) (Eqv.refl _))).cat (Eqv.refl _))
      exact hL.trans ((Eqv.grp hV).cat (Eqv.refl _))
    · intro hp hsl
      have hpp : pp false (.ext k body) = true := by
        cases k <;> first | exact hp | exact absurd rfl hk
      exact flat _ hpp hsl
  | eps => intro _ hsl; exact flat _ rfl hsl
  | lit c => intro _ hsl; exact flat _ rfl hsl
  | any => intro _ hsl; exact flat _ rfl hsl
  | star => intro _ hsl; exact flat _ rfl hsl
  | cls neg items => intro hp hsl; exact flat _ hp hsl
  | alt p q => intro hp; simp [ppTop, pp] at hp

theorem itsTopP_WF (cfg : Cfg) : ∀ (g : Pat) (as : Bool), ppTop g = true → WF false (itsTopP cfg as g) := by
  intro g
  induction g with
  | seq a b _ ihb =>
    intro as hp
    by_cases hn : ∃ body, a = .ext .neg body
    · obtain ⟨body, rfl⟩ := hn
      simp only [ppTop, Bool.and_eq_true] at hp
      have hl := itsG_WF (pathEmit cfg) (HF.capOf cfg) b false false (litOnly_pp b hp.2)
      exact .inv (itsG_WF (pathEmit cfg) (HF.capOf cfg) body true as hp.1) hl hl
    · have hn' : ∀ body, a ≠ .ext .neg body := fun body e => hn ⟨body, e⟩
      rw [ppTop_seq a b hn'] at hp
      simp only [Bool.and_eq_true] at hp
      rw [itsTopP_seq cfg as a b hn']
      exact (itsG_WF _ _ a false as hp.1).append (ihb _ hp.2)
  | ext k body =>
    intro as hp
    by_cases hk : k = .neg
    · subst hk
      exact .inv (itsG_WF (pathEmit cfg) (HF.capOf cfg) body true as hp) .nil .nil
    · have hpp : pp false (.ext k body) = true := by
        cases k <;> first | exact hp | exact absurd rfl hk
      rw [(ppTopP_of_pp _ hpp).2]; exact itsG_WF _ _ _ false as hpp
  | eps => intro as _; exact .nil
  | lit c => intro as _; exact .re .nil
  | any => intro as _; exact .re .nil
  | star => intro as _; exact .re .nil
  | cls neg items => intro as _; exact .re .nil
  | alt p q => intro as hp; simp [ppTop, pp] at hp

theorem itsTopP_noBar (cfg : Cfg) : ∀ (g : Pat) (as : Bool), ppTop g = true → HF.NoBar (itsTopP cfg as g) := by
  intro g
  induction g with
  | seq a b _ ihb =>
    intro as hp
    by_cases hn : ∃ body, a = .ext .neg body
    · obtain ⟨body, rfl⟩ := hn
      simp only [ppTop, Bool.and_eq_true] at hp
      exact HF.NoBar.cons rfl (HF.NoBar.cons rfl (itsG_noBar _ _ b false (litOnly_pp b hp.2)))
    · have hn' : ∀ body, a ≠ .ext .neg body := fun body e => hn ⟨body, e⟩
      rw [ppTop_seq a b hn'] at hp
      simp only [Bool.and_eq_true] at hp
      rw [itsTopP_seq cfg as a b hn']
      exact (itsG_noBar _ _ a as hp.1).append (ihb _ hp.2)
  | ext k body =>
    intro as hp
    cases k <;> first | exact HF.NoBar.cons rfl (HF.NoBar.cons rfl HF.NoBar.nil) | exact HF.NoBar.cons rfl HF.NoBar.nil
  | eps => intro as _; exact HF.NoBar.nil
  | alt p q => intro as hp; simp [ppTop, pp] at hp
  | _ => intro as _; exact HF.NoBar.cons rfl HF.NoBar.nil

theorem segItemsN_toRe (cfg : Cfg) (h : PathX cfg) (tr : Bool) : ∀ (segs : List Seg) (sb : Bool),
    (∀ s ∈ segs, segOKN s = true) → ∀ (f : Nat) (x : Re),
    Item.seqToRe f (segItemsN cfg tr segs sb ++ [.re (Frag.pathTrail false)]) = some x →
    Eqv x (pathRe cfg.dot tr segs sb) := by
  have last : ∀ (f : Nat) (x : Re), Item.seqToRe f [.re (Frag.pathTrail false)] = some x →
      Eqv x (Frag.pathTrail false) := by
    intro f x hx
    obtain ⟨f', x', h2, e⟩ := seqToRe_re_eqv hx
    rw [seqToRe_nil h2] at e
    exact e.trans (Eqv.cat_eps _)
  intro segs
  induction segs with
  | nil =>
    intro sb _ f x hx
    cases sb with
    | false => simpa [segItemsN, pathRe, sepIf] using last f x (by simpa [segItemsN] using hx)
    | true =>
      simp only [segItemsN, if_true, List.cons_append, List.nil_append] at hx
      obtain ⟨f', x', h2, e⟩ := seqToRe_re_eqv hx
      simp only [pathRe, sepIf, if_true]
      exact e.trans ((Eqv.refl _).cat (last f' x' h2))
  | cons s rest ih =>
    intro sb hok f x hx
    have hokr : ∀ s ∈ rest, segOKN s = true := fun s hs => hok s (List.mem_cons_of_mem _ hs)
    cases s with
    | pat g =>
      obtain ⟨hpp, hsl, _, _⟩ := segOKN_pat (hok (.pat g) (by simp))
      have core : ∀ (f : Nat) (x : Re),
          Item.seqToRe f (itsTopP cfg true g ++
            (segItemsN cfg tr rest (if rest.isEmpty then tr else true) ++ [.re (Frag.pathTrail false)])) = some x →
          Eqv x (.cat (compSeg cfg.dot true g) (pathRe cfg.dot tr rest (if rest.isEmpty then tr else true))) := by
        intro f x hx
        obtain ⟨f1, x1, h1, e1⟩ := itsTopP_toRe cfg h g hpp hsl true f _ x hx
        exact e1.trans ((Eqv.refl _).cat (ih _ hokr f1 x1 h1))
      cases sb with
      | false =>
        simp only [segItemsN, Bool.false_eq_true, if_false, List.nil_append, List.append_assoc] at hx
        simpa [pathRe, sepIf] using core f x hx
      | true =>
        simp only [segItemsN, if_true, List.cons_append, List.nil_append, List.append_assoc] at hx
        obtain ⟨f', x', h2, e⟩ := seqToRe_re_eqv hx
        simp only [pathRe, sepIf, if_true]
        exact e.trans ((Eqv.refl _).cat (core f' x' h2))
    | glob =>
      have core : ∀ (f : Nat) (x : Re),
          Item.seqToRe f (.re (gstarRe cfg) :: .re (Frag.globstarDiv false) ::
            (segItemsN cfg tr rest false ++ [.re (Frag.pathTrail false)])) = some x →
          Eqv x (.cat (pGstar cfg.dot) (.cat (Frag.globstarDiv false) (pathRe cfg.dot tr rest false))) := by
        intro f x hx
        obtain ⟨f1, x1, h1, e1⟩ := seqToRe_re_eqv hx
        obtain ⟨f2, x2, h2, e2⟩ := seqToRe_re_eqv h1
        exact e1.trans ((gstarRe_eqv cfg).cat (e2.trans ((Eqv.refl _).cat (ih false hokr f2 x2 h2))))
      cases sb with
      | false =>
        simp only [segItemsN, Bool.false_eq_true, if_false, List.nil_append, List.cons_append] at hx
        simpa [pathRe, needSepIf] using core f x hx
      | true =>
        simp only [segItemsN, if_true, List.cons_append, List.nil_append] at hx
        obtain ⟨f', x', h2, e⟩ := seqToRe_re_eqv hx
        simp only [pathRe, needSepIf, if_true]
        exact e.trans ((Eqv.refl _).cat (core f' x' h2))

theorem segItemsN_WF (cfg : Cfg) (tr : Bool) : ∀ (segs : List Seg) (sb : Bool),
    (∀ s ∈ segs, segOKN s = true) → WF false (segItemsN cfg tr segs sb) := by
  intro segs
  induction segs with
  | nil => intro sb _; cases sb <;> simp only [segItemsN, Bool.false_eq_true, if_false, if_true]
           · exact .nil
           · exact .re .nil
  | cons s rest ih =>
    intro sb hok
    have hokr : ∀ s ∈ rest, segOKN s = true := fun s hs => hok s (List.mem_cons_of_mem _ hs)
    cases s with
    | pat g =>
      obtain ⟨hpp, _, _, _⟩ := segOKN_pat (hok (.pat g) (by simp))
      have := (itsTopP_WF cfg g true hpp).append
        (ih (if rest.isEmpty then tr else true) hokr)
      cases sb <;> simp only [segItemsN, Bool.false_eq_true, if_false, if_true, List.nil_append, List.cons_append]
      · exact this
      · exact .re this
    | glob =>
      cases sb <;> simp only [segItemsN, Bool.false_eq_true, if_false, if_true, List.nil_append, List.cons_append]
      · exact .re (.re (ih _ hokr))
      · exact .re (.re (.re (ih _ hokr)))

theorem segItemsN_noBar (cfg : Cfg) (tr : Bool) : ∀ (segs : List Seg) (sb : Bool),
    (∀ s ∈ segs, segOKN s = true) → HF.NoBar (segItemsN cfg tr segs sb) := by
  intro segs
  induction segs with
  | nil => intro sb _; cases sb <;> simp only [segItemsN, Bool.false_eq_true, if_false, if_true]
           · exact HF.NoBar.nil
           · exact HF.NoBar.cons rfl HF.NoBar.nil
  | cons s rest ih =>
    intro sb hok
    have hokr : ∀ s ∈ rest, segOKN s = true := fun s hs => hok s (List.mem_cons_of_mem _ hs)
    cases s with
    | pat g =>
      obtain ⟨hpp, _, _, _⟩ := segOKN_pat (hok (.pat g) (by simp))
      have := (itsTopP_noBar cfg g true hpp).append
        (ih (if rest.isEmpty then tr else true) hokr)
      cases sb <;> simp only [segItemsN, Bool.false_eq_true, if_false, if_true, List.nil_append, List.cons_append]
      · exact this
      · exact HF.NoBar.cons rfl this
    | glob =>
      cases sb <;> simp only [segItemsN, Bool.false_eq_true, if_false, if_true, List.nil_append, List.cons_append]
      · exact HF.NoBar.cons rfl (HF.NoBar.cons rfl (ih _ hokr))
      · exact HF.NoBar.cons rfl (HF.NoBar.cons rfl (HF.NoBar.cons rfl (ih _ hokr)))

theorem toRe_pathN (cfg : Cfg) (h : PathX cfg) (tr : Bool) (segs : List Seg) (sb : Bool)
    (hok : ∀ s ∈ segs, segOKN s = true) (ci : Bool) :
    ∃ r, (Parsed.toRe { items := baseItems segs sb ++ (segItemsN cfg tr segs sb ++ [.re (Frag.pathTrail false)]),
                        ci := ci }) = some r ∧
      Eqv r (wrapRe ci (pathRe cfg.dot tr segs sb)) := by
  have hwf0 : WF false (segItemsN cfg tr segs sb ++ [.re (Frag.pathTrail false)]) :=
    (segItemsN_WF cfg tr segs sb hok).append (.re .nil)
  have hnb0 : HF.NoBar (segItemsN cfg tr segs sb ++ [.re (Frag.pathTrail false)]) :=
    (segItemsN_noBar cfg tr segs sb hok).append (HF.NoBar.cons rfl HF.NoBar.nil)
  have hwf : WF false (baseItems segs sb ++ (segItemsN cfg tr segs sb ++ [.re (Frag.pathTrail false)])) := by
    unfold baseItems; split
    · exact hwf0
    · exact .empty hwf0
  have hnb : HF.NoBar (baseItems segs sb ++ (segItemsN cfg tr segs sb ++ [.re (Frag.pathTrail false)])) := by
    unfold baseItems; split
    · exact hnb0
    · exact HF.NoBar.cons rfl hnb0
  obtain ⟨r, hr⟩ := Option.isSome_iff_exists.mp (Parsed.toRe_isSome_of_WF ⟨_, ci⟩ hwf)
  refine ⟨r, hr, ?_⟩
  unfold Parsed.toRe at hr
  simp only [] at hr
  generalize hL : baseItems segs sb ++ (segItemsN cfg tr segs sb ++ [.re (Frag.pathTrail false)]) = L at hr hnb
  cases hin : Item.listToRe (2 * Item.sizeL L + 4) L with
  | none => simp [hin] at hr
  | some inner =>
    simp [hin] at hr
    subst hr
    obtain ⟨f', xs, _, hm, hx⟩ := listToRe_inv hin
    rw [HF.splitBars_noBar _ hnb] at hm
    simp only [List.mapM_cons, List.mapM_nil] at hm
    cases h1 : Item.seqToRe f' L with
    | none => simp [h1] at hm
    | some x =>
      simp [h1] at hm
      have hx' : inner = x := by rw [hx, ← hm]; rfl
      have hE : Eqv x (pathRe cfg.dot tr segs sb) := by
        subst hL
        unfold baseItems at h1
        split at h1
        · exact segItemsN_toRe cfg h tr segs sb hok f' x h1
        · cases f' with
          | zero => simp [Item.seqToRe] at h1
          | succ f =>
            simp only [List.cons_append, List.nil_append, Item.seqToRe] at h1
            exact segItemsN_toRe cfg h tr segs sb hok f x h1
      rw [hx']
      exact (Eqv.refl _).cat ((hE.flags true ci).cat (Eqv.refl _))

/-- the scope of the path theorem: every file-name segment is printable with at most one top-level
    `!(…)` followed by literal text (`segOKN`), no two adjacent globstars, not the empty relative
    pattern -/
def pathOKN (pp : PathPat) : Bool :=
  pp.segs.all segOKN && noGG pp.segs && (!pp.segs.isEmpty || pp.abs)

/-- **pass_print for path mode, with `!(…)` segments.**  For every path pattern `pp` whose
    file-name segments are slash-free printable patterns with at most one top-level `!(body)`
    followed by literal text (`segOKN`: `PP.ppTop`, `PPP.slashFree`, `PP.ok`, non-empty print),
    without adjacent globstars, and — when it has a globstar — under GLOBSTAR, the faithful port run
    on `printPath pp` returns items that convert to a regex `Eqv`-equivalent to the tidy path
    compiler's `compPath`: the `invOpen`/`ph` pair the pass leaves at the `)` of `!(body)` is
    closed by `clean_up_inverse` at the next top-level `/` or at the end of the pattern, which
    copies the literal tail and `_PATH_EOP` into the look-ahead. -/
theorem pass_print_path_neg (cfg : Cfg) (h : PathX cfg) (drive : List Char → DriveInfo) (pp : PathPat)
    (hok : pathOKN pp = true) (hgs : pp.segs.any Seg.isGlob = true → cfg.globstar0 = true) :
    ∃ parsed r, parseItems cfg drive (printPath pp) = .ok parsed ∧ parsed.toRe = some r ∧
      Eqv r (wrapRe (!cfg.caseSensitive) (compPath cfg.dot pp)) := by
  simp only [pathOKN, Bool.and_eq_true, List.all_eq_true, Bool.or_eq_true, Bool.not_eq_eq_eq_not, Bool.not_true,
    List.isEmpty_eq_false_iff] at hok
  obtain ⟨⟨h1, h2⟩, h3⟩ := hok
  have hwf : pp.segs = [] → pp.abs = true := by
    intro he
    rcases h3 with h3 | h3
    · exact absurd he h3
    · exact h3
  obtain ⟨r, hr, he⟩ := toRe_pathN cfg h pp.trailing pp.segs pp.abs h1 (!cfg.caseSensitive)
  exact ⟨_, r, parseItems_pathN cfg h drive pp.trailing pp.segs pp.abs h1 h2 hwf hgs, hr, he⟩

/-! ## Part 6 (MATCHBASE): `matchbase` is a passenger

  The parser state field `matchbase` is read only by `_parse` (`parsePrepend`, `parseBody`), and
  written only when a separator is read (`root`'s loop on `/`, an escaped separator, a globstar
  followed by a separator).  So on a separator-free text every function of the pass COMMUTES with
  setting the field — and does not see the configuration field `matchbase0` either.  This is what
  lets the theorems above (stated for `matchbase = false`, `PP.Inv.mb`, `PathX.matchbase`) speak
  about the two `root` runs of `_parse` under MATCHBASE. -/

def setMB (m : Bool) (ps : PS) : PS := { ps with matchbase := m }
def cfgT (cfg : Cfg) (t : Bool) : Cfg := { cfg with matchbase0 := t }

/-- no separator left to read -/
def NS (r : List Char) : Prop := '/' ∉ r

@[simp] theorem cfgT_pathname (cfg : Cfg) (t : Bool) : (cfgT cfg t).pathname = cfg.pathname := rfl
@[simp] theorem cfgT_isBytes (cfg : Cfg) (t : Bool) : (cfgT cfg t).isBytes = cfg.isBytes := rfl
@[simp] theorem cfgT_win (cfg : Cfg) (t : Bool) : (cfgT cfg t).win = cfg.win := rfl
@[simp] theorem cfgT_extend (cfg : Cfg) (t : Bool) : (cfgT cfg t).extend = cfg.extend := rfl
@[simp] theorem cfgT_needChar (cfg : Cfg) (t : Bool) : (cfgT cfg t).needChar = cfg.needChar := rfl
@[simp] theorem cfgT_eop (cfg : Cfg) (t : Bool) : (cfgT cfg t).eop = cfg.eop := rfl
@[simp] theorem cfgT_capture (cfg : Cfg) (t : Bool) : (cfgT cfg t).capture = cfg.capture := rfl
@[simp] theorem cfgT_bslashAbort (cfg : Cfg) (t : Bool) : (cfgT cfg t).bslashAbort = cfg.bslashAbort := rfl
@[simp] theorem cfgT_unix (cfg : Cfg) (t : Bool) : (cfgT cfg t).unix = cfg.unix := rfl
@[simp] theorem cfgT_res (cfg : Cfg) (t : Bool) : restrictExtendedSlash (cfgT cfg t) = restrictExtendedSlash cfg := rfl
@[simp] theorem setMB_afterStart (m : Bool) (ps : PS) : (setMB m ps).afterStart = ps.afterStart := rfl
@[simp] theorem setMB_dirStart (m : Bool) (ps : PS) : (setMB m ps).dirStart = ps.dirStart := rfl
@[simp] theorem setMB_inList (m : Bool) (ps : PS) : (setMB m ps).inList = ps.inList := rfl
@[simp] theorem setMB_invNest (m : Bool) (ps : PS) : (setMB m ps).invNest = ps.invNest := rfl
@[simp] theorem setMB_invExt (m : Bool) (ps : PS) : (setMB m ps).invExt = ps.invExt := rfl
@[simp] theorem setMB_mdd (m : Bool) (ps : PS) : (setMB m ps).matchDotDir = ps.matchDotDir := rfl
@[simp] theorem setMB_globstar (m : Bool) (ps : PS) : (setMB m ps).globstar = ps.globstar := rfl
@[simp] theorem setMB_mb (m : Bool) (ps : PS) : (setMB m ps).matchbase = m := rfl
@[simp] theorem setMB_emb (m : Bool) (ps : PS) : (setMB m ps).extmatchbase = ps.extmatchbase := rfl

theorem restrictSequence_mb (cfg : Cfg) (t m : Bool) (ps : PS) :
    restrictSequence (cfgT cfg t) (setMB m ps) = ((restrictSequence cfg ps).1, setMB m (restrictSequence cfg ps).2) := rfl

theorem seqLoop_cfgT (cfg : Cfg) (t : Bool) : ∀ (fuel : Nat) (c : Char) (it : It) (st : SeqSt),
    seqLoop (cfgT cfg t) fuel c it st = seqLoop cfg fuel c it st := by
  intro fuel
  induction fuel with
  | zero => intro c it st; rfl
  | succ n ih =>
    intro c it st
    rw [seqLoop, seqLoop]
    simp only [ih]
    rfl

theorem sequence_mb (cfg : Cfg) (t m : Bool) (ps : PS) (it : It) :
    sequence (cfgT cfg t) (setMB m ps) it =
      (sequence cfg ps it).map (fun x => (x.1, setMB m x.2.1, x.2.2)) := by
  unfold sequence
  simp only [seqLoop_cfgT]
  cases it.next with
  | none => rfl
  | some v =>
    obtain ⟨c, it1⟩ := v
    dsimp only
    split
    · rfl
    · split
      · rfl
      · split
        · rfl
        · simp only [cfgT_pathname, setMB_afterStart, restrictSequence_mb, cfgT_isBytes]
          by_cases hc : (cfg.pathname || ps.afterStart) = true
          · simp only [hc, if_true, Option.map]
          · simp only [hc, if_false, Option.map]; rfl

/-! ### the small pieces -/

def mapRef (m : Bool) : RefOut → RefOut
  | .val v it ps => .val v it (setMB m ps)
  | x => x

theorem references_mb (cfg : Cfg) (t m : Bool) (ps : PS) (it : It) :
    references (cfgT cfg t) (setMB m ps) it = mapRef m (references cfg ps it) := by
  unfold references
  cases it.next with
  | none => rfl
  | some v =>
    obtain ⟨c, it1⟩ := v
    simp only [cfgT_bslashAbort, cfgT_unix, cfgT_pathname, cfgT_win, cfgT_res, setMB_inList]
    have refl1 : ∀ (q : PS), RefOut.val
          (if (!ps.inList) = true then (Frag.sepPlus cfg.win, (setMB m ps).setStartDir)
            else (match restrictExtendedSlash cfg with
                  | some g => g.cat (Frag.sep cfg.win)
                  | none => Frag.sep cfg.win, setMB m ps)).fst it1
          (if (!ps.inList) = true then (Frag.sepPlus cfg.win, (setMB m ps).setStartDir)
            else (match restrictExtendedSlash cfg with
                  | some g => g.cat (Frag.sep cfg.win)
                  | none => Frag.sep cfg.win, setMB m ps)).snd =
        mapRef m (RefOut.val
          (if (!ps.inList) = true then (Frag.sepPlus cfg.win, ps.setStartDir)
            else (match restrictExtendedSlash cfg with
                  | some g => g.cat (Frag.sep cfg.win)
                  | none => Frag.sep cfg.win, ps)).fst it1
          (if (!ps.inList) = true then (Frag.sepPlus cfg.win, ps.setStartDir)
            else (match restrictExtendedSlash cfg with
                  | some g => g.cat (Frag.sep cfg.win)
                  | none => Frag.sep cfg.win, ps)).snd) := by
      intro _
      rcases Bool.eq_false_or_eq_true ps.inList with hl | hl <;> simp only [hl] <;> rfl
    by_cases h1 : c = '\\'
    · simp only [h1, if_true]
      rcases Bool.eq_false_or_eq_true cfg.bslashAbort with hb | hb <;> simp only [hb]
      · exact refl1 ps
      · rcases Bool.eq_false_or_eq_true cfg.unix with hu | hu <;> simp only [hu] <;> rfl
    · simp only [h1, if_false]
      by_cases h2 : c = '/'
      · simp only [h2, if_true]
        rcases Bool.eq_false_or_eq_true cfg.pathname with hb | hb <;> simp only [hb]
        · exact refl1 ps
        · rfl
      · simp only [h2, if_false]
        by_cases h3 : c = '.'
        · simp only [h3, if_true]; rfl
        · simp only [h3, if_false]; rfl

theorem dotScan_cfgT (cfg : Cfg) (t il : Bool) : ∀ (fuel : Nat) (it : It) (a b : Bool),
    dotScan (cfgT cfg t) il fuel it a b = dotScan cfg il fuel it a b := by
  intro fuel
  induction fuel with
  | zero => intro it a b; rfl
  | succ n ih =>
    intro it a b
    rw [dotScan, dotScan]
    simp only [ih]
    rfl

theorem handleDot_mb (cfg : Cfg) (t m : Bool) (ps : PS) (it : It) :
    handleDot (cfgT cfg t) (setMB m ps) it = handleDot cfg ps it := by
  unfold handleDot
  simp only [dotScan_cfgT]
  rfl

theorem qmarkItem_mb (cfg : Cfg) (t m : Bool) (ps : PS) :
    qmarkItem (cfgT cfg t) (setMB m ps) = ((qmarkItem cfg ps).1, setMB m (qmarkItem cfg ps).2) := rfl

theorem cleanUpGo_cfgT (cfg : Cfg) (t nested : Bool) : ∀ (rev done : List Item) (n : Nat),
    cleanUpGo (cfgT cfg t) nested rev done n = cleanUpGo cfg nested rev done n := by
  intro rev
  induction rev with
  | nil => intro done n; rfl
  | cons x rest ih =>
    intro done n
    cases x <;> simp only [cleanUpGo, ih, cfgT_capture, cfgT_eop]
    all_goals rfl

theorem cleanUpInverse_mb (cfg : Cfg) (t m : Bool) (ps : PS) (cur : List Item) (nested : Bool) :
    cleanUpInverse (cfgT cfg t) (setMB m ps) cur nested =
      ((cleanUpInverse cfg ps cur nested).1, setMB m (cleanUpInverse cfg ps cur nested).2) := by
  unfold cleanUpInverse
  simp only [setMB_invExt, cleanUpGo_cfgT]
  split <;> rfl

theorem NS_textInv : TextInv NS :=
  ⟨fun pre r h hx => h (List.mem_append_right pre hx), by unfold NS; decide⟩

theorem NS.next {it it' : It} {c : Char} (h : NS it.rest) (hn : it.next = some (c, it')) :
    NS it'.rest ∧ c ≠ '/' := by
  obtain ⟨i, r⟩ := it
  cases r with
  | nil => simp [It.next] at hn
  | cons d r' =>
    simp only [It.next, Option.some.injEq, Prod.mk.injEq] at hn
    obtain ⟨rfl, rfl⟩ := hn
    simp only [NS, List.mem_cons, not_or] at h
    exact ⟨h.2, fun e => h.1 e.symm⟩

/-- under Unix rules an escape is a separator only if a `/` follows -/
theorem referencesSeq_ns (cfg : Cfg) (hb : cfg.bslashAbort = false) (it : It) (h : NS it.rest) :
    referencesSeq cfg it ≠ .pathname := by
  unfold referencesSeq
  cases hn : it.next with
  | none => simp
  | some v =>
    obtain ⟨c, it1⟩ := v
    have hc := (NS.next h hn).2
    dsimp only
    by_cases h1 : c = '\\'
    · simp [h1, hb]
      split <;> simp
    · simp only [h1, if_false, hc]
      split <;> simp

def mapSel (m : Bool) (r : Bool × Bool × It × PS) : Bool × Bool × It × PS := (r.1, r.2.1, r.2.2.1, setMB m r.2.2.2)

@[simp] theorem cfgT_globstarlong (cfg : Cfg) (t : Bool) : (cfgT cfg t).globstarlong = cfg.globstarlong := rfl
@[simp] theorem cfgT_globstarCapture (cfg : Cfg) (t : Bool) : (cfgT cfg t).globstarCapture = cfg.globstarCapture := rfl
@[simp] theorem cfgT_dot (cfg : Cfg) (t : Bool) : (cfgT cfg t).dot = cfg.dot := rfl
@[simp] theorem cfgT_nodotdir (cfg : Cfg) (t : Bool) : (cfgT cfg t).nodotdir = cfg.nodotdir := rfl

theorem hsPeek_cfgT (cfg : Cfg) (t c0 : Bool) (it : It) : hsPeek (cfgT cfg t) c0 it = hsPeek cfg c0 it := rfl
theorem referencesSeq_cfgT (cfg : Cfg) (t : Bool) (it : It) : referencesSeq (cfgT cfg t) it = referencesSeq cfg it := rfl

/-- `hsSelCls` after the look-ahead -/
def hsAfter (cfg : Cfg) (ps : PS) (pk : Bool × Bool × It × It) : Bool × Bool × It × PS :=
  let (skip, capture, it, prev) := pk
  if skip then (false, capture, it, ps)
  else
    match it.next with
    | none => (true, capture, it, ps)
    | some (c, it1) =>
      if c = '\\' then
        match referencesSeq cfg it1 with
        | .val _ _ => (false, capture, it, ps)
        | .dot _ => (false, capture, it, ps)
        | .pathname => (true, capture, it1.advance 1, { ps with matchbase := false })
        | .stop => (true, capture, it1, ps)
      else if c = '/' then (true, capture, it1, { ps with matchbase := false })
      else if c = '(' && cfg.extend then (false, capture, prev, ps)
      else (false, capture, it, ps)

theorem hsSelCls_eq (cfg : Cfg) (ps : PS) (it : It) :
    hsSelCls cfg ps it =
      if ps.afterStart && ps.globstar && !ps.inList then
        hsAfter cfg ps (hsPeek cfg (cfg.pathname && cfg.globstarCapture) it)
      else (false, cfg.pathname && cfg.globstarCapture, it, ps) := rfl

theorem hsAfter_mb (cfg : Cfg) (hb : cfg.bslashAbort = false) (t m : Bool) (ps : PS)
    (pk : Bool × Bool × It × It) (h : m = false ∨ NS pk.2.2.1.rest) :
    hsAfter (cfgT cfg t) (setMB m ps) pk = mapSel m (hsAfter cfg ps pk) := by
  obtain ⟨skip, capture, it2, prev⟩ := pk
  simp only at h
  unfold hsAfter
  simp only [referencesSeq_cfgT, cfgT_extend]
  cases skip with
  | true => rfl
  | false =>
    simp only [Bool.false_eq_true, if_false]
    cases hn : it2.next with
    | none => rfl
    | some v =>
      obtain ⟨c, it1⟩ := v
      simp only
      by_cases hbs : c = '\\'
      · simp only [hbs, if_true]
        cases hr : referencesSeq cfg it1 with
        | pathname =>
          rcases h with rfl | h
          · rfl
          · exact absurd hr (referencesSeq_ns cfg hb it1 (NS.next h hn).1)
        | _ => rfl
      · simp only [hbs, if_false]
        by_cases hsl : c = '/'
        · rcases h with rfl | h
          · simp only [hsl, if_true]; rfl
          · exact absurd hsl (NS.next h hn).2
        · simp only [hsl, if_false]
          by_cases hx : (decide (c = '(') && cfg.extend) = true
          · simp only [hx, if_true]; rfl
          · simp only [hx, if_false]; rfl

/-- when `_handle_star` cannot write `matchbase` in a way that depends on its value: the value is
    `false` already, or no separator is left to read, or we are inside a group, or the next
    character is not a second star -/
def SideS (m : Bool) (it : It) (ps : PS) : Prop :=
  m = false ∨ NS it.rest ∨ ps.inList = true ∨ it.rest.head? ≠ some '*'

theorem hsPeek_skip (cfg : Cfg) (c0 : Bool) (it : It) (h : it.rest.head? ≠ some '*') :
    hsPeek cfg c0 it = (true, c0, it, it) := by
  unfold hsPeek
  obtain ⟨i, r⟩ := it
  cases r with
  | nil => rfl
  | cons d r' =>
    have : d ≠ '*' := by simpa using h
    simp [It.next, this]

theorem hsSelCls_mb (cfg : Cfg) (hb : cfg.bslashAbort = false) (t m : Bool) (ps : PS) (it : It)
    (h : SideS m it ps) :
    hsSelCls (cfgT cfg t) (setMB m ps) it = mapSel m (hsSelCls cfg ps it) := by
  rw [hsSelCls_eq, hsSelCls_eq]
  simp only [hsPeek_cfgT, setMB_afterStart, setMB_globstar, setMB_inList, cfgT_pathname, cfgT_globstarCapture]
  by_cases hc : (ps.afterStart && ps.globstar && !ps.inList) = true
  · simp only [hc, if_true]
    rcases h with h | h | h | h
    · exact hsAfter_mb cfg hb t m ps _ (Or.inl h)
    · exact hsAfter_mb cfg hb t m ps _ (Or.inr
        (hsPeek_ji (J := NS) NS_textInv cfg (cfg.pathname && cfg.globstarCapture) (it := it) h).1)
    · simp [h] at hc
    · rw [hsPeek_skip cfg _ it h]
      rfl
  · simp only [hc]
    rfl

def mapPIL (m : Bool) (r : PS × It × List Item) : PS × It × List Item := (setMB m r.1, r.2.1, r.2.2)

theorem hsFinish_mb (cfg : Cfg) (t m : Bool) (cur : List Item) (sg : Re × Re) (sel : Bool × Bool × It × PS) :
    hsFinish (cfgT cfg t) cur sg (mapSel m sel) = mapPIL m (hsFinish cfg cur sg sel) := by
  obtain ⟨isGlob, capture, it, ps⟩ := sel
  obtain ⟨star, globstar⟩ := sg
  unfold hsFinish mapSel
  simp only [cfgT_win, cfgT_needChar, cfgT_extend, setMB_afterStart]
  have hcp : ∀ i, consumePathSep (cfgT cfg t) i = consumePathSep cfg i := fun _ => rfl
  simp only [hcp]
  cases isGlob with
  | false =>
    simp only [Bool.not_false, if_true]
    rcases Bool.eq_false_or_eq_true ps.afterStart with ha | ha <;> simp only [ha] <;> rfl
  | true =>
    simp only [Bool.not_true, Bool.false_eq_true, if_false]
    cases cur with
    | nil => rfl
    | cons last before =>
      simp only []
      rcases Bool.eq_false_or_eq_true (last.isDiv cfg.win) with hd | hd <;> simp only [hd] <;> rfl

theorem handleStar_mb (cfg : Cfg) (hb : cfg.bslashAbort = false) (t m : Bool) (ps : PS) (it : It) (cur : List Item)
    (h : SideS m it ps) :
    handleStar (cfgT cfg t) (setMB m ps) it cur = mapPIL m (handleStar cfg ps it cur) := by
  rw [handleStar_eq_cls, handleStar_eq_cls, hsSelCls_mb cfg hb t m ps it h, hsFinish_mb]
  rfl

/-! ### inside groups -/

def mapXP (m : Bool) (r : PS × It × List Item × Bool) : PS × It × List Item × Bool :=
  (setMB m r.1, r.2.1, r.2.2.1, r.2.2.2)

def mapPE (m : Bool) (r : Bool × PS × It × List Item) : Bool × PS × It × List Item :=
  (r.1, setMB m r.2.1, r.2.2.1, r.2.2.2)

def mapEL (m : Bool) : Except PS (PS × It × List Item) → Except PS (PS × It × List Item)
  | .ok r => .ok (setMB m r.1, r.2.1, r.2.2)
  | .error ps => .error (setMB m ps)

theorem extPlain_mb (cfg : Cfg) (hb : cfg.bslashAbort = false) (t m : Bool) (c : Char) (it : It) (ps : PS)
    (ext : List Item) (a n : Bool) (h : m = false ∨ ps.inList = true) :
    HF.extPlain (cfgT cfg t) c it (setMB m ps) ext a n = mapXP m (HF.extPlain cfg c it ps ext a n) := by
  have hS : SideS m it ps := h.elim Or.inl (fun h => Or.inr (Or.inr (Or.inl h)))
  unfold HF.extPlain
  by_cases h1 : c = '*'
  · simp only [h1, if_true, handleStar_mb cfg hb t m ps it ext hS]; rfl
  simp only [h1, if_false]
  by_cases h2 : c = '.'
  · simp only [h2, if_true, handleDot_mb, setMB_afterStart, cfgT_dot, cfgT_nodotdir]
    rcases Bool.eq_false_or_eq_true ps.afterStart with ha | ha <;> simp only [ha] <;> rfl
  simp only [h2, if_false]
  by_cases h3 : c = '?'
  · simp only [h3, if_true, qmarkItem_mb]; rfl
  simp only [h3, if_false]
  by_cases h4 : c = '/'
  · simp only [h4, if_true, cfgT_res, cfgT_win]; rfl
  simp only [h4, if_false]
  by_cases h5 : c = '|'
  · simp only [h5, if_true, setMB_invNest, cleanUpInverse_mb]
    rcases Bool.eq_false_or_eq_true ps.invNest with hv | hv <;> simp only [hv] <;> cases a <;> rfl
  simp only [h5, if_false]
  by_cases h6 : c = '\\'
  · simp only [h6, if_true, references_mb]
    cases references cfg ps it <;> rfl
  simp only [h6, if_false]
  by_cases h7 : c = '['
  · simp only [h7, if_true, sequence_mb]
    cases sequence cfg ps it <;> rfl
  simp only [h7, if_false]
  split <;> rfl

theorem peEnter_mb (m : Bool) (ps : PS) (c : Char) (rd : Bool) :
    HF.peEnter (setMB m ps) c rd = setMB m (HF.peEnter ps c rd) := by
  cases rd <;> rfl

theorem peFinish_mb (m : Bool) (t ps : PS) (s : Bool) :
    HF.peFinish (setMB m t) s (setMB m ps) = setMB m (HF.peFinish t s ps) := by
  obtain ⟨a1, a2, il, iv, a5, a6, a7, a8, a9⟩ := t
  unfold HF.peFinish
  cases il <;> cases iv <;> cases s <;> rfl

theorem peFail_mb (m : Bool) (t ps : PS) :
    HF.peFail (setMB m t) (setMB m ps) = setMB m (HF.peFail t ps) :=
  peFinish_mb m t { ps with invExt := t.invExt } false

theorem peBuild_mb (cfg : Cfg) (t m : Bool) (lt : Char) (ps0 : PS) (body cur : List Item) (ps : PS) :
    HF.peBuild (cfgT cfg t) lt (setMB m ps0) body cur (setMB m ps) =
      ((HF.peBuild cfg lt ps0 body cur ps).1, setMB m (HF.peBuild cfg lt ps0 body cur ps).2) := by
  unfold HF.peBuild
  repeat' split
  all_goals rfl

/-- the trivial predicate, to use the text invariants of `ParseLift.lean` -/
theorem liftTrue : Lift (fun _ => True) :=
  Lift.ofCompositional trivial (fun _ => trivial) trivial trivial trivial (fun _ _ => trivial)
    (fun _ _ => trivial) (fun _ _ => trivial) (fun _ => trivial) (fun _ => trivial) (fun _ => trivial)
    (fun _ => trivial) (fun _ => trivial) (fun _ => trivial) (fun _ => trivial) (fun _ => trivial)

theorem seqOK_ns (cfg : Cfg) : SeqOK (fun _ => True) NS cfg :=
  SeqOK.ofSuffix liftTrue NS_textInv (fun _ _ => trivial) cfg

mutual
theorem allTrue1 : ∀ x : Item, x.All (fun _ => True)
  | .re _ => by simp only [Item.All]
  | .empty => by simp only [Item.All]
  | .bar => by simp only [Item.All]
  | .group _ _ body => by simp only [Item.All]; exact allTrue body
  | .invOpen _ body => by simp only [Item.All]; exact allTrue body
  | .ph _ => by simp only [Item.All]
  | .closed tail _ _ => by simp only [Item.All]; exact ⟨allTrue tail, fun _ _ => trivial, trivial⟩
theorem allTrue : ∀ l : List Item, Item.AllL (fun _ => True) l
  | [] => by simp only [Item.AllL]
  | x :: xs => by simp only [Item.AllL]; exact ⟨allTrue1 x, allTrue xs⟩
end

/-- `parseExtend` leaves a separator-free text separator-free -/
theorem parseExtend_ns (cfg : Cfg) (fuel : Nat) (lt : Char) (it : It) (ps : PS) (cur : List Item) (rd : Bool)
    (h : NS it.rest) : NS (parseExtend cfg fuel lt it ps cur rd).2.2.1.rest := by
  have := (pe_el_lift liftTrue NS_textInv cfg (seqOK_ns cfg) fuel).1 lt it ps cur rd
    (parseExtend cfg fuel lt it ps cur rd).1 (parseExtend cfg fuel lt it ps cur rd).2.1
    (parseExtend cfg fuel lt it ps cur rd).2.2.1 (parseExtend cfg fuel lt it ps cur rd).2.2.2 h (allTrue cur) rfl
  exact this.1

theorem extPlain_ns (cfg : Cfg) (c : Char) (it : It) (ps : PS) (ext : List Item) (a n : Bool) (h : NS it.rest) :
    NS (HF.extPlain cfg c it ps ext a n).2.1.rest := by
  unfold HF.extPlain
  split
  · exact handleStar_ji (J := NS) NS_textInv cfg ps ext h
  split
  · exact h
  split
  · exact h
  split
  · exact h
  split
  · exact h
  split
  · split
    · rename_i v it' ps' hr
      exact (references_val_lift liftTrue NS_textInv hr h).2
    · rename_i it' hr
      exact references_dot_lift (J := NS) hr h
    · exact h
  split
  · split
    · rename_i r ps' it' hs
      exact (seqOK_ns cfg _ _ _ _ _ h hs).2
    · exact h
  split <;> exact h

theorem extTok_ns (cfg : Cfg) (fuel : Nat) (c : Char) (it : It) (ps : PS) (ext : List Item) (a n : Bool)
    (h : NS it.rest) : NS (HF.extTok cfg fuel c it ps ext a n).2.1.rest := by
  unfold HF.extTok
  split
  · dsimp only
    by_cases hr : (parseExtend cfg fuel c it ps ext false).1 = true
    · simp only [hr, if_true]
      exact parseExtend_ns cfg fuel c it ps ext false h
    · simp only [hr, if_false]
      exact extPlain_ns cfg c it _ ext a n h
  · exact extPlain_ns cfg c it ps ext a n h

def PEc (cfg : Cfg) (t : Bool) (F : Nat) : Prop :=
  ∀ (lt : Char) (it : It) (ps : PS) (cur : List Item) (rd m : Bool),
    parseExtend (cfgT cfg t) F lt it (setMB m ps) cur rd = mapPE m (parseExtend cfg F lt it ps cur rd)

def ELc (cfg : Cfg) (t : Bool) (F : Nat) : Prop :=
  ∀ (it : It) (ps : PS) (ext : List Item) (a n m : Bool), (m = false ∨ ps.inList = true) →
    extLoop (cfgT cfg t) F it (setMB m ps) ext a n = mapEL m (extLoop cfg F it ps ext a n)

theorem pe_inList (cfg : Cfg) (fuel : Nat) (lt : Char) (it : It) (ps : PS) (cur : List Item) (rd : Bool) :
    (parseExtend cfg fuel lt it ps cur rd).2.1.inList = ps.inList :=
  ((ext_main cfg fuel).1 lt it ps cur rd).1

theorem handleStar_inList (cfg : Cfg) (ps : PS) (it : It) (cur : List Item) :
    (handleStar cfg ps it cur).1.inList = ps.inList := by
  rw [handleStar_eq_cls]
  have hsel : (hsSelCls cfg ps it).2.2.2.inList = ps.inList := by
    unfold hsSelCls
    dsimp only
    repeat' split
    all_goals rfl
  generalize hsSelCls cfg ps it = sel at hsel
  generalize hsStars cfg ps = sg
  obtain ⟨isGlob, capture, it2, ps2⟩ := sel
  obtain ⟨star, globstar⟩ := sg
  simp only at hsel
  unfold hsFinish
  dsimp only
  split
  · exact hsel
  · split
    · split <;> exact hsel
    · exact hsel

theorem extPlain_inList (cfg : Cfg) (c : Char) (it : It) (ps : PS) (ext : List Item) (a n : Bool)
    (h : ps.inList = true) : (HF.extPlain cfg c it ps ext a n).1.inList = true := by
  unfold HF.extPlain
  split
  · rw [← h]; exact handleStar_inList cfg ps it ext
  split
  · dsimp only; split <;> exact h
  split
  · exact h
  split
  · exact h
  split
  · dsimp only
    have : (if ps.invNest = true then cleanUpInverse cfg ps ext n else (ext, ps)).2.inList = true := by
      split
      · unfold cleanUpInverse; split <;> exact h
      · exact h
    split <;> exact this
  split
  · split
    · rename_i v it' ps' hr
      rcases references_ps cfg ps it v it' ps' hr with rfl | rfl <;> exact h
    · exact h
    · exact h
  split
  · split
    · rename_i r ps' it' hs
      rcases HF.sequence_ps cfg ps it r ps' it' hs with rfl | rfl <;> exact h
    · exact h
  split <;> exact h

theorem extTok_inList (cfg : Cfg) (fuel : Nat) (c : Char) (it : It) (ps : PS) (ext : List Item) (a n : Bool)
    (h : ps.inList = true) : (HF.extTok cfg fuel c it ps ext a n).1.inList = true := by
  have hp := pe_inList cfg fuel c it ps ext false
  unfold HF.extTok
  split
  · dsimp only
    by_cases hr : (parseExtend cfg fuel c it ps ext false).1 = true
    · simp only [hr, if_true]
      rw [hp]; exact h
    · simp only [hr, if_false]
      exact extPlain_inList cfg c it _ ext a n (by rw [hp]; exact h)
  · exact extPlain_inList cfg c it ps ext a n h

theorem extTok_mb (cfg : Cfg) (hb : cfg.bslashAbort = false) (t m : Bool) (fuel : Nat) (hpe : PEc cfg t fuel)
    (c : Char) (it : It) (ps : PS) (ext : List Item) (a n : Bool) (h : m = false ∨ ps.inList = true) :
    HF.extTok (cfgT cfg t) fuel c it (setMB m ps) ext a n = mapXP m (HF.extTok cfg fuel c it ps ext a n) := by
  have hp := pe_inList cfg fuel c it ps ext false
  unfold HF.extTok
  simp only [cfgT_extend, hpe c it ps ext false m]
  by_cases hx : (cfg.extend && decide (c ∈ extTypes)) = true
  · simp only [hx, if_true]
    rcases hr : parseExtend cfg fuel c it ps ext false with ⟨ok, ps', it', ext'⟩
    rw [hr] at hp
    cases ok with
    | true => rfl
    | false =>
      simp only [mapPE, Bool.false_eq_true, if_false]
      exact extPlain_mb cfg hb t m c it ps' ext a n (h.imp id fun h => hp.trans h)
  · simp only [hx, if_false]
    exact extPlain_mb cfg hb t m c it ps ext a n h

theorem updateDirState_mb (m : Bool) (ps : PS) : (setMB m ps).updateDirState = setMB m ps.updateDirState := by
  obtain ⟨a1, a2, a3, a4, a5, a6, a7, a8, a9⟩ := ps
  cases a1 <;> cases a2 <;> rfl

theorem extCont_mb (cfg : Cfg) (t m : Bool) (fuel : Nat) (hel : ELc cfg t fuel) (c : Char) (a n : Bool)
    (r : PS × It × List Item × Bool) (h : m = false ∨ r.1.inList = true) :
    HF.extCont (cfgT cfg t) fuel c a n (mapXP m r) = mapEL m (HF.extCont cfg fuel c a n r) := by
  obtain ⟨ps, it, ext, u⟩ := r
  unfold HF.extCont mapXP
  simp only
  have hu : (if u = true then (setMB m ps).updateDirState else setMB m ps) =
      setMB m (if u = true then ps.updateDirState else ps) := by
    cases u
    · rfl
    · simp only [if_true, updateDirState_mb]
  rw [hu]
  split
  · rfl
  · refine hel it _ ext a n m (h.imp id fun h => ?_)
    simp only at h
    split
    · rw [HF.updateDirState_inList]; exact h
    · exact h

/-- **inside a group `matchbase` is a passenger**: `parse_extend` commutes with setting it, to any
    value, on any text -/
theorem pe_el_mb (cfg : Cfg) (hb : cfg.bslashAbort = false) (t : Bool) : ∀ F, PEc cfg t F ∧ ELc cfg t F := by
  intro F
  induction F with
  | zero =>
    constructor
    · intro lt it ps cur rd m; simp only [parseExtend]; rfl
    · intro it ps ext a n m _; simp only [extLoop]; rfl
  | succ F ih =>
    constructor
    · intro lt it ps cur rd m
      rw [HF.parseExtend_eq, HF.parseExtend_eq]
      cases hn : it.next with
      | none =>
        simp only [peEnter_mb, peFail_mb]; rfl
      | some v =>
        obtain ⟨c, it1⟩ := v
        have h1 : m = false ∨ (HF.peEnter ps lt rd).inList = true := Or.inr (by unfold HF.peEnter; split <;> rfl)
        simp only [peEnter_mb, peFail_mb, setMB_afterStart, setMB_invNest, setMB_inList]
        split
        · rfl
        · rw [ih.2 it1 _ [] ps.afterStart ps.invNest m h1]
          cases extLoop cfg F it1 (HF.peEnter ps lt rd) [] ps.afterStart ps.invNest with
          | error ps' => simp only [mapEL, peFail_mb]; rfl
          | ok r =>
            obtain ⟨ps2, it2, extended⟩ := r
            simp only [mapEL, peBuild_mb, cleanUpInverse_mb, setMB_invNest]
            rcases Bool.eq_false_or_eq_true ps.inList with hl | hl <;> simp only [hl] <;>
              simp only [if_true, Bool.false_eq_true, if_false, peFinish_mb] <;> rfl
    · intro it ps ext a n m h
      rw [HF.extLoop_eq, HF.extLoop_eq]
      cases hn : it.next with
      | none => rfl
      | some v =>
        obtain ⟨c, it1⟩ := v
        simp only [extTok_mb cfg hb t m F ih.1 c it1 ps ext a n h]
        exact extCont_mb cfg t m F ih.2 c a n _ (h.imp id fun h => extTok_inList cfg F c it1 ps ext a n h)

/-! ### top level -/

def mapRT (m : Bool) (r : It × PS × List Item) : It × PS × List Item := (r.1, setMB m r.2.1, r.2.2)

/-- on a separator-free text (Unix rules) an escape is never a separator -/
theorem references_ns (cfg : Cfg) (hb : cfg.bslashAbort = false) (ps : PS) (it : It) (h : NS it.rest)
    (v : Re) (it' : It) (ps' : PS) (hr : references cfg ps it = .val v it' ps') : ps' = ps := by
  unfold references at hr
  cases hn : it.next with
  | none => simp [hn] at hr
  | some w =>
    obtain ⟨c, it1⟩ := w
    have hc := (NS.next h hn).2
    simp only [hn, hb, hc, if_false, Bool.false_eq_true] at hr
    repeat' split at hr
    all_goals first | (cases hr; rfl) | (cases hr; done)

/-- the token that begins with `c` is read without looking at a separator: a `*` is not followed by
    a second star, a backslash is not followed by `/` -/
def Loc (c : Char) (it : It) : Prop :=
  (c = '*' → it.rest.head? ≠ some '*') ∧ (c = '\\' → it.rest.head? ≠ some '/')

/-- the side condition of the top-level commutation: either the field is set to `false` (what a
    write would do anyway), or the token does not see a separator (and `dirStart` is clear) -/
def SideR (m : Bool) (c : Char) (it : It) (ps : PS) : Prop :=
  m = false ∨ ((NS it.rest ∨ Loc c it) ∧ c ≠ '/' ∧ ps.dirStart = false)

theorem setStartDir_mb (m : Bool) (ps : PS) : (setMB m ps).setStartDir = setMB m ps.setStartDir := rfl

/-- (Unix rules) an escape is a separator only if a `/` follows -/
theorem references_loc (cfg : Cfg) (hb : cfg.bslashAbort = false) (ps : PS) (it : It)
    (h : it.rest.head? ≠ some '/')
    (v : Re) (it' : It) (ps' : PS) (hr : references cfg ps it = .val v it' ps') : ps' = ps := by
  unfold references at hr
  cases hn : it.next with
  | none => simp [hn] at hr
  | some w =>
    obtain ⟨c, it1⟩ := w
    have hc : c ≠ '/' := by
      obtain ⟨i, r⟩ := it
      cases r with
      | nil => simp [It.next] at hn
      | cons d r' =>
        simp only [It.next, Option.some.injEq, Prod.mk.injEq] at hn
        obtain ⟨rfl, _⟩ := hn
        simpa using h
    simp only [hn, hb, hc, if_false, Bool.false_eq_true] at hr
    repeat' split at hr
    all_goals first | (cases hr; rfl) | (cases hr; done)

theorem rootPlain_mb (cfg : Cfg) (hb : cfg.bslashAbort = false) (t m : Bool) (c : Char) (it : It) (ps : PS)
    (cur : List Item) (hs : SideR m c it ps) :
    HF.rootPlain (cfgT cfg t) c it (setMB m ps) cur = mapRT m (HF.rootPlain cfg c it ps cur) := by
  unfold HF.rootPlain
  by_cases h1 : c = '.'
  · simp only [h1, if_true, handleDot_mb, updateDirState_mb]; rfl
  simp only [h1, if_false]
  by_cases h2 : c = '*'
  · have hstar : SideS m it ps := by
      rcases hs with hs | ⟨hs | hs, _, _⟩
      · exact Or.inl hs
      · exact Or.inr (Or.inl hs)
      · exact Or.inr (Or.inr (Or.inr (hs.1 h2)))
    simp only [h2, if_true, handleStar_mb cfg hb t m ps it cur hstar, mapPIL, updateDirState_mb]; rfl
  simp only [h2, if_false]
  by_cases h3 : c = '?'
  · simp only [h3, if_true, qmarkItem_mb, updateDirState_mb]; rfl
  simp only [h3, if_false]
  by_cases h4 : c = '/'
  · rcases hs with rfl | hs
    · simp only [h4, if_true, cfgT_pathname, cfgT_win, setStartDir_mb, cleanUpInverse_mb, updateDirState_mb]
      have hcp : ∀ i, consumePathSep (cfgT cfg t) i = consumePathSep cfg i := fun _ => rfl
      simp only [hcp]
      split
      · exact Prod.ext rfl (Prod.ext (updateDirState_mb false _) rfl)
      · rfl
    · exact absurd h4 hs.2.1
  simp only [h4, if_false]
  by_cases h6 : c = '\\'
  · simp only [h6, if_true, references_mb]
    cases hr : references cfg ps it with
    | val v it' ps' =>
      rcases hs with rfl | hs
      · simp only [mapRef, setMB_dirStart, cleanUpInverse_mb, updateDirState_mb]
        have hcp : ∀ i, consumePathSep (cfgT cfg t) i = consumePathSep cfg i := fun _ => rfl
        simp only [hcp]
        split
        · exact Prod.ext rfl (Prod.ext (updateDirState_mb false _) rfl)
        · rfl
      · have : ps' = ps := by
          rcases hs.1 with hn | hl
          · exact references_ns cfg hb ps it hn v it' ps' hr
          · exact references_loc cfg hb ps it (hl.2 h6) v it' ps' hr
        subst this
        simp only [mapRef, setMB_dirStart, hs.2.2, Bool.false_eq_true, if_false, updateDirState_mb]; rfl
    | dot it' => rfl
    | stop => simp only [mapRef, updateDirState_mb]; rfl
  simp only [h6, if_false]
  by_cases h7 : c = '['
  · simp only [h7, if_true, sequence_mb]
    cases sequence cfg ps it with
    | none => simp only [Option.map, updateDirState_mb]; rfl
    | some x => simp only [Option.map, updateDirState_mb]; rfl
  simp only [h7, if_false, updateDirState_mb]; rfl

theorem rootTok_mb (cfg : Cfg) (hb : cfg.bslashAbort = false) (t m : Bool) (c : Char) (it : It) (ps : PS)
    (cur : List Item) (hs : SideR m c it ps) :
    HF.rootTok (cfgT cfg t) c it (setMB m ps) cur = mapRT m (HF.rootTok cfg c it ps cur) := by
  unfold HF.rootTok
  simp only [cfgT_extend, (pe_el_mb cfg hb t _).1 c it ps cur true m]
  by_cases hx : (cfg.extend && decide (c ∈ extTypes)) = true
  · simp only [hx, if_true]
    have hfuel : 2 * it.rest.length + 8 = (2 * it.rest.length + 7) + 1 := rfl
    have hds' : ps.dirStart = false → (parseExtend cfg (2 * it.rest.length + 8) c it ps cur true).1 = false →
        (parseExtend cfg (2 * it.rest.length + 8) c it ps cur true).2.1.dirStart = false := by
      intro hds
      rw [hfuel, HF.parseExtend_eq]
      have hf : ∀ q, (HF.peFail ps q).dirStart = false := by
        intro q; rw [← hds]; unfold HF.peFail; exact HF.peFinish_fail_dirStart ps _
      repeat' split
      all_goals first | (intro _; exact hf _) | (intro hx; cases hx)
    rcases hr : parseExtend cfg (2 * it.rest.length + 8) c it ps cur true with ⟨ok, ps', it', cur'⟩
    rw [hr] at hds'
    cases ok with
    | true => simp only [mapPE, if_true, updateDirState_mb]; rfl
    | false =>
      simp only [mapPE, Bool.false_eq_true, if_false]
      exact rootPlain_mb cfg hb t m c it ps' cur (hs.imp id fun h => ⟨h.1, h.2.1, hds' h.2.2 rfl⟩)
  · simp only [hx, if_false]
    exact rootPlain_mb cfg hb t m c it ps cur hs

theorem upd_ds_of_as (ps : PS) (h : ps.afterStart = false) : ps.updateDirState.dirStart = false := by
  obtain ⟨a1, a2, a3, a4, a5, a6, a7, a8, a9⟩ := ps
  simp only at h
  subst h
  cases a2 <;> rfl

theorem handleStar_as (cfg : Cfg) (ps : PS) (it : It) (cur : List Item) :
    (handleStar cfg ps it cur).1.afterStart = false := by
  rw [handleStar_eq_cls]
  generalize hsSelCls cfg ps it = sel
  generalize hsStars cfg ps = sg
  obtain ⟨isGlob, capture, it2, ps2⟩ := sel
  obtain ⟨star, globstar⟩ := sg
  unfold hsFinish
  dsimp only
  split
  · rfl
  · split
    · split <;> rfl
    · rfl

theorem rootPlain_ns (cfg : Cfg) (c : Char) (it : It) (ps : PS) (cur : List Item) (h : NS it.rest) :
    NS (HF.rootPlain cfg c it ps cur).1.rest := by
  unfold HF.rootPlain
  split
  · exact h
  split
  · exact handleStar_ji (J := NS) NS_textInv cfg ps cur h
  split
  · exact h
  split
  · split
    · exact JI.consumePathSep (J := NS) NS_textInv cfg h
    · exact h
  split
  · split
    · rename_i v it' ps' hr
      have h' := (references_val_lift liftTrue NS_textInv hr h).2
      split
      · exact JI.consumePathSep (J := NS) NS_textInv cfg h'
      · exact h'
    · rename_i it' hr
      exact references_dot_lift (J := NS) hr h
    · exact h
  split
  · split
    · rename_i r ps' it' hs
      exact (seqOK_ns cfg _ _ _ _ _ h hs).2
    · exact h
  · exact h

theorem rootTok_ns (cfg : Cfg) (c : Char) (it : It) (ps : PS) (cur : List Item) (h : NS it.rest) :
    NS (HF.rootTok cfg c it ps cur).1.rest := by
  unfold HF.rootTok
  split
  · dsimp only
    by_cases hr : (parseExtend cfg (2 * it.rest.length + 8) c it ps cur true).1 = true
    · simp only [hr, if_true]
      exact parseExtend_ns cfg _ c it ps cur true h
    · simp only [hr, if_false]
      exact rootPlain_ns cfg c it _ cur h
  · exact rootPlain_ns cfg c it ps cur h

theorem rootPlain_ds (cfg : Cfg) (hb : cfg.bslashAbort = false) (c : Char) (it : It) (ps : PS) (cur : List Item)
    (h : NS it.rest) (hc : c ≠ '/') (hds : ps.dirStart = false) :
    (HF.rootPlain cfg c it ps cur).2.1.dirStart = false := by
  unfold HF.rootPlain
  split
  · exact HF.updateDirState_dirStart _ hds
  split
  · exact upd_ds_of_as _ (handleStar_as cfg ps it cur)
  split
  · exact upd_ds_of_as _ rfl
  simp only [hc, if_false]
  split
  · split
    · rename_i v it' ps' hr
      have := references_ns cfg hb ps it h v it' ps' hr
      subst this
      simp only [hds, Bool.false_eq_true, if_false]
      exact HF.updateDirState_dirStart _ hds
    · exact hds
    · exact HF.updateDirState_dirStart _ hds
  split
  · split
    · rename_i r ps' it' hs
      apply HF.updateDirState_dirStart
      rcases HF.sequence_ps cfg ps it r ps' it' hs with rfl | rfl
      · rfl
      · exact hds
    · exact HF.updateDirState_dirStart _ hds
  · exact HF.updateDirState_dirStart _ hds

theorem rootTok_ds (cfg : Cfg) (hb : cfg.bslashAbort = false) (c : Char) (it : It) (ps : PS) (cur : List Item)
    (h : NS it.rest) (hc : c ≠ '/') (hds : ps.dirStart = false) :
    (HF.rootTok cfg c it ps cur).2.1.dirStart = false := by
  unfold HF.rootTok
  split
  · dsimp only
    have hfuel : 2 * it.rest.length + 8 = (2 * it.rest.length + 7) + 1 := rfl
    have key : ((parseExtend cfg (2 * it.rest.length + 8) c it ps cur true).1 = false →
          (parseExtend cfg (2 * it.rest.length + 8) c it ps cur true).2.1.dirStart = false) ∧
        ((parseExtend cfg (2 * it.rest.length + 8) c it ps cur true).1 = true →
          (parseExtend cfg (2 * it.rest.length + 8) c it ps cur true).2.1.afterStart = false) := by
      rw [hfuel, HF.parseExtend_eq]
      have hf : ∀ q, (HF.peFail ps q).dirStart = false := by
        intro q; rw [← hds]; unfold HF.peFail; exact HF.peFinish_fail_dirStart ps _
      repeat' split
      all_goals first
        | exact ⟨fun _ => hf _, fun hx => Bool.noConfusion (show false = true from hx)⟩
        | exact ⟨fun hx => Bool.noConfusion (show true = false from hx), fun _ => HF.peFinish_ok_afterStart _ _⟩
    by_cases hr : (parseExtend cfg (2 * it.rest.length + 8) c it ps cur true).1 = true
    · simp only [hr, if_true]
      exact upd_ds_of_as _ (key.2 hr)
    · simp only [hr, if_false]
      exact rootPlain_ds cfg hb c it _ cur h hc (key.1 (by simpa using hr))
  · exact rootPlain_ds cfg hb c it ps cur h hc hds

/-- **`matchbase` is not read, only ever written with `false`, and not written while no separator
    is read**: the top-level loop commutes with setting the field — to `false` on any text, to any
    value on a separator-free text — and does not see `cfg.matchbase0` -/
theorem rootLoop_mb (cfg : Cfg) (hb : cfg.bslashAbort = false) (t m : Bool) :
    ∀ (F : Nat) (it : It) (ps : PS) (cur : List Item), (m = false ∨ (NS it.rest ∧ ps.dirStart = false)) →
      rootLoop (cfgT cfg t) F it (setMB m ps) cur =
        (setMB m (rootLoop cfg F it ps cur).1, (rootLoop cfg F it ps cur).2) := by
  intro F
  induction F with
  | zero => intro it ps cur _; simp only [rootLoop]
  | succ F ih =>
    intro it ps cur h
    rw [HF.rootLoop_eq, HF.rootLoop_eq]
    cases hn : it.next with
    | none => rfl
    | some v =>
      obtain ⟨c, it1⟩ := v
      have hs : SideR m c it1 ps := h.imp id fun h => ⟨Or.inl (NS.next h.1 hn).1, (NS.next h.1 hn).2, h.2⟩
      simp only [rootTok_mb cfg hb t m c it1 ps cur hs, mapRT]
      exact ih _ _ _ (h.imp id fun h =>
        ⟨rootTok_ns cfg c it1 ps cur (NS.next h.1 hn).1,
          rootTok_ds cfg hb c it1 ps cur (NS.next h.1 hn).1 (NS.next h.1 hn).2 h.2⟩)

@[simp] theorem cfgT_wdd (cfg : Cfg) (t : Bool) : (cfgT cfg t).winDriveDetect = cfg.winDriveDetect := rfl
@[simp] theorem cfgT_noAbs (cfg : Cfg) (t : Bool) : (cfgT cfg t).noAbs = cfg.noAbs := rfl
@[simp] theorem cfgT_realpath (cfg : Cfg) (t : Bool) : (cfgT cfg t).realpath = cfg.realpath := rfl

/-- `root` on a separator-free pattern: `matchbase` rides along -/
theorem root_mb (cfg : Cfg) (hb : cfg.bslashAbort = false) (hw : cfg.winDriveDetect = false) (t m : Bool)
    (drive : List Char → DriveInfo) (p : List Char) (hp : NS p) (ps : PS) (cur : List Item)
    (ps' : PS) (cur' : List Item) (h : root cfg drive p ps cur = .ok (ps', cur')) :
    root (cfgT cfg t) drive p (setMB m ps) cur = .ok (setMB m ps', cur') := by
  have hhd : p.head? ≠ some '/' := by
    cases p with
    | nil => simp
    | cons c r =>
      simp only [NS, List.mem_cons, not_or] at hp
      simp only [List.head?_cons, ne_eq, Option.some.injEq]
      exact fun e => hp.1 e.symm
  rw [root_eq] at h ⊢
  unfold rootPre rootPost at h ⊢
  simp only [hw, cfgT_wdd, cfgT_pathname, cfgT_noAbs, cfgT_realpath, cfgT_win, Bool.false_eq_true, if_false, hhd,
    decide_false, Bool.and_false, Bool.not_false, Bool.true_and] at h ⊢
  have hl := rootLoop_mb cfg hb t m (p.length + 1) ⟨0, p⟩ ps.setAfterStart
  have e1 : (setMB m ps).setAfterStart = setMB m ps.setAfterStart := rfl
  rw [e1]
  split at h
  · rename_i hrp
    simp only [hrp, if_true] at h ⊢
    rw [hl _ (Or.inr ⟨hp, rfl⟩), cleanUpInverse_mb]
    simp only [Except.ok.injEq, Prod.mk.injEq] at h ⊢
    obtain ⟨h1, h2⟩ := h
    exact ⟨by rw [← h1], h2⟩
  · rename_i hrp
    simp only [hrp, Bool.false_eq_true, if_false] at h ⊢
    rw [hl _ (Or.inr ⟨hp, rfl⟩), cleanUpInverse_mb]
    simp only [Except.ok.injEq, Prod.mk.injEq] at h ⊢
    obtain ⟨h1, h2⟩ := h
    exact ⟨by rw [← h1], h2⟩

/-! ## Part 7 (MATCHBASE): the two `root` runs of `_parse` -/

theorem printSegs_single (g : Pat) : printSegs false [.pat g] false = print g := by
  simp [printSegs]

theorem printSegs_glob : printSegs false [.glob] false = ['*', '*'] := by
  simp [printSegs]

/-- the globstar of the implicit prefix: `***` is never captured -/
def mbStar (cfg : Cfg) : Re := if cfg.globstarlong && cfg.follow then pGstar cfg.dot else gstarRe cfg

theorem mbStar_eqv (cfg : Cfg) : Eqv (mbStar cfg) (pGstar cfg.dot) := by
  unfold mbStar; split
  · exact Eqv.refl _
  · exact gstarRe_eqv cfg

/-- `***` at the end of the pattern, under GLOBSTARLONG (the first star has been read) -/
theorem handleStar_glob_end3 (cfg : Cfg) (h : PathX cfg) (hlong : cfg.globstarlong = true) (i : Nat) (ps : PS)
    (hi : PP.Inv ps true false 0) (hg : ps.globstar = true) :
    handleStar cfg ps ⟨i, ['*', '*']⟩ [.empty] =
      (ps.resetDirTrack.setStartDir, ⟨i+2, []⟩, [.re (Frag.globstarDiv false), .re (pGstar cfg.dot)]) := by
  rw [handleStar_eq, hsStar_glob cfg h ps hi.afterStart]
  have hsel : hsSel cfg ps ⟨i, ['*', '*']⟩ (cfg.pathname && cfg.globstarCapture) =
      (true, false, ⟨i+2, []⟩, ps) := by
    unfold hsSel
    simp only [hi.afterStart, hg, hi.inList, Bool.not_false, Bool.and_self, if_true, It.next, h.pathname,
      Bool.true_and, bne_self_eq_false, Bool.false_eq_true, if_false, hlong]
  rw [hsel]
  unfold hsBody
  simp only [h.win, Bool.not_true, Bool.false_eq_true, if_false,
    consumePathSep_id cfg h ⟨i+2, []⟩ (by simp), Item.isDiv, Item.isEmpty, if_true]

/-- the loop of `root` on `***` -/
theorem rootLoop_stars3 (cfg : Cfg) (h : PathX cfg) (hlong : cfg.globstarlong = true) (ps : PS)
    (hi : PP.Inv ps true false 0) (hg : ps.globstar = true) :
    ∃ ps', rootLoop cfg 4 ⟨0, ['*', '*', '*']⟩ ps [.empty] =
        (ps', [.re (Frag.globstarDiv false), .re (pGstar cfg.dot)]) ∧
      PP.Inv ps' true false 0 ∧ ps'.globstar = true := by
  obtain ⟨ps1, hi1, hg1, e⟩ := rootTok_plainG cfg '*' ⟨1, ['*', '*']⟩ ps [.empty] hi (fun _ => by simp)
  refine ⟨ps1.resetDirTrack.setStartDir.updateDirState, ?_, inv_afterGlob hi1, ?_⟩
  · rw [rootLoop_cons, e]
    simp only [HF.rootPlain, show ('*' : Char) ≠ '.' by decide, if_false, if_true,
      handleStar_glob_end3 cfg h hlong 1 ps1 hi1 (hg1.trans hg)]
    exact rootLoop_nil cfg 3 _ _ _ (by omega)
  · simp [PS.setStartDir, PS.resetDirTrack, hg1, hg, upd_gs]

/-- `root` on `***` -/
theorem root_stars3 (cfg : Cfg) (h : PathX cfg) (hlong : cfg.globstarlong = true)
    (drive : List Char → DriveInfo) (ps : PS) (hg : ps.globstar = true)
    (hl : ps.inList = false) (hk : ps.invExt = 0) (hm : ps.matchbase = false) (hem : ps.extmatchbase = false) :
    ∃ ps', root cfg drive ['*', '*', '*'] ps [.empty] =
        .ok (ps', [.re (Frag.pathTrail false), .re (Frag.globstarDiv false), .re (pGstar cfg.dot)]) ∧
      ps'.inList = false ∧ ps'.invExt = 0 ∧ ps'.matchbase = false ∧ ps'.extmatchbase = false ∧
      ps'.globstar = true := by
  have hi' : PP.Inv ps.setAfterStart true false 0 := ⟨rfl, rfl, hl, hk, hm, hem⟩
  obtain ⟨ps1, e1, hi1, hg1⟩ := rootLoop_stars3 cfg h hlong ps.setAfterStart hi' (by simpa [PS.setAfterStart] using hg)
  refine ⟨ps1, ?_, hi1.inList, hi1.invExt, hi1.mb, hi1.emb, hg1⟩
  rw [root_eq]
  unfold rootPre rootPost
  simp only [h.wdd, Bool.false_eq_true, ite_false, h.pathname, Bool.true_and, h.noAbs, Bool.false_and,
    h.realpath, Bool.and_false, List.head?_cons, Option.some.injEq, show ('*' : Char) ≠ '/' by decide,
    decide_false, List.length_cons, List.length_nil, e1, cleanUp_zero cfg ps1 _ false hi1.invExt, h.win, if_true]

/-- **the implicit prefix of `_parse` under MATCHBASE** (`parsePrepend`): a separate `root` run on `**`
    with GLOBSTAR forced — or on `***` under GLOBSTARLONG ∧ FOLLOW —, started with `matchbase` set -/
theorem prefix_run (cfg : Cfg) (h : PathX cfg)
    (hlg : (cfg.globstarlong && cfg.follow) = true → cfg.globstar0 = true) (drive : List Char → DriveInfo) :
    ∃ ps1 : PS,
      parsePrepend (cfgT cfg true) drive
          ({ matchbase := (cfgT cfg true).matchbase0, extmatchbase := (cfgT cfg true).extmatchbase0,
             globstar := (cfgT cfg true).globstar0 } : PS) =
        .ok (setMB true { ps1 with globstar := cfg.globstar0 },
          [.re (Frag.pathTrail false), .re (Frag.globstarDiv false), .re (mbStar cfg)]) ∧
      ps1.inList = false ∧ ps1.invExt = 0 ∧ ps1.matchbase = false ∧ ps1.extmatchbase = false := by
  have hmb0 : (cfgT cfg true).matchbase0 = true := rfl
  by_cases hL : (cfg.globstarlong && cfg.follow) = true
  · have hL' : ((cfgT cfg true).globstarlong && (cfgT cfg true).follow) = true := hL
    have hgl : cfg.globstarlong = true := by
      simp only [Bool.and_eq_true] at hL; exact hL.1
    have hg0 : cfg.globstar0 = true := hlg hL
    obtain ⟨ps1, hr1, hl1, hk1, hm1, he1, hg1⟩ := root_stars3 cfg h hgl drive
      { matchbase := false, extmatchbase := cfg.extmatchbase0, globstar := cfg.globstar0 } hg0 rfl rfl rfl
      h.extmatchbase
    have hr1' := root_mb cfg h.bslash h.wdd true true drive ['*', '*', '*'] (by unfold NS; decide) _ _ _ _ hr1
    refine ⟨ps1, ?_, hl1, hk1, hm1, he1⟩
    simp only [parsePrepend, hmb0, Bool.true_or, if_true, hL']
    have e1 : ({ matchbase := true, extmatchbase := (cfgT cfg true).extmatchbase0,
                 globstar := (cfgT cfg true).globstar0 } : PS) =
        setMB true { matchbase := false, extmatchbase := cfg.extmatchbase0, globstar := cfg.globstar0 } := rfl
    have e2 : ({ ps1 with globstar := cfg.globstar0 } : PS) = ps1 := by
      rw [hg0, ← hg1]
    rw [e1, hr1', e2]
    simp [mbStar, hL]
  · have hL0 : (cfg.globstarlong && cfg.follow) = false := by simpa using hL
    have hL' : ((cfgT cfg true).globstarlong && (cfgT cfg true).follow) = false := hL0
    have hok1 : ∀ s ∈ [Seg.glob], segOKN s = true := by
      intro s hs; simp only [List.mem_singleton] at hs; subst hs; rfl
    obtain ⟨ps1, hr1, hl1, hk1, hm1, he1⟩ := root_pathN cfg h drive false [.glob] false hok1 rfl
      { matchbase := false, extmatchbase := cfg.extmatchbase0, globstar := true } (fun _ => rfl) rfl rfl rfl
      h.extmatchbase
    rw [printSegs_glob] at hr1
    have hpre : (segItemsN cfg false [Seg.glob] false).reverse ++ baseItems [Seg.glob] false =
        [.re (Frag.globstarDiv false), .re (gstarRe cfg)] := by
      simp [segItemsN, baseItems, leadGlob, Seg.isGlob]
    rw [hpre] at hr1
    have hr1' := root_mb cfg h.bslash h.wdd true true drive ['*', '*'] (by unfold NS; decide) _ _ _ _ hr1
    refine ⟨ps1, ?_, hl1, hk1, hm1, he1⟩
    simp only [parsePrepend, hmb0, Bool.true_or, if_true, hL', Bool.false_eq_true, if_false]
    have e1 : ({ ({ matchbase := true, extmatchbase := (cfgT cfg true).extmatchbase0,
                    globstar := (cfgT cfg true).globstar0 } : PS) with globstar := true } : PS) =
        setMB true { matchbase := false, extmatchbase := cfg.extmatchbase0, globstar := true } := rfl
    rw [e1, hr1']
    simp only [mbStar, hL0, Bool.false_eq_true, if_false]
    rfl

/-- the items `_parse` returns under MATCHBASE for a separator-free segment pattern -/
def mbItems (cfg : Cfg) (g : Pat) : List Item :=
  [.re (mbStar cfg), .re (Frag.globstarDiv false), .re (Frag.pathTrail false), .empty] ++
    (itsTopP cfg true g ++ [.re (Frag.pathTrail false)])

/-- **the whole pass under MATCHBASE**, on a printed separator-free segment pattern: the implicit
    prefix comes from a separate `root ['*','*']` run with GLOBSTAR forced, and is prepended
    because `matchbase` is still set when the pattern has been read -/
theorem parseItems_mb (cfg : Cfg) (h : PathX cfg)
    (hlg : (cfg.globstarlong && cfg.follow) = true → cfg.globstar0 = true)
    (drive : List Char → DriveInfo) (g : Pat) (hg : segOKN (.pat g) = true) :
    parseItems (cfgT cfg true) drive (print g) =
      .ok { items := mbItems cfg g, ci := !cfg.caseSensitive } := by
  obtain ⟨hpp, hsl, hokg, hne⟩ := segOKN_pat hg
  have hok2 : ∀ s ∈ [Seg.pat g], segOKN s = true := by
    intro s hs; simp only [List.mem_singleton] at hs; subst hs; exact hg
  -- the prefix run
  obtain ⟨ps1, hpre, hl1, hk1, hm1, he1⟩ := prefix_run cfg h hlg drive
  -- the pattern run
  obtain ⟨ps2, hr2, hl2, hk2, hm2, he2⟩ := root_pathN cfg h drive false [.pat g] false hok2 rfl
    { ps1 with globstar := cfg.globstar0 } (fun hx => by simp [Seg.isGlob] at hx) hl1 hk1 hm1 he1
  rw [printSegs_single] at hr2
  have hr2' := root_mb cfg h.bslash h.wdd true true drive (print g) (print_noSlash g hsl) _ _ _ _ hr2
  unfold parseItems
  have hanchor : (cfgT cfg true).anchor = false := h.anchor
  simp only [anchorStep, hanchor, Bool.false_eq_true, ite_false]
  rw [hpre]
  simp only
  unfold parseBody
  have hemp : (print g).isEmpty = false := by simpa using hne
  simp only [print_ne_bs g, ite_false, hemp, Bool.false_eq_true, hr2']
  simp [mbItems, segItemsN, baseItems, leadGlob, Seg.isGlob, setMB]
  rfl

theorem mbItems_toRe (cfg : Cfg) (h : PathX cfg) (g : Pat) (hg : segOKN (.pat g) = true) (ci : Bool) :
    ∃ r, (Parsed.toRe { items := mbItems cfg g, ci := ci }) = some r ∧
      Eqv r (wrapRe ci (compPathMB cfg.dot [.pat g])) := by
  obtain ⟨hpp, hsl, _, _⟩ := segOKN_pat hg
  have hwf : WF false (mbItems cfg g) :=
    .re (.re (.re (.empty ((itsTopP_WF cfg g true hpp).append (.re .nil)))))
  have hnb : HF.NoBar (mbItems cfg g) :=
    HF.NoBar.cons rfl (HF.NoBar.cons rfl (HF.NoBar.cons rfl (HF.NoBar.cons rfl
      ((itsTopP_noBar cfg g true hpp).append (HF.NoBar.cons rfl HF.NoBar.nil)))))
  generalize hL : mbItems cfg g = L at hwf hnb
  obtain ⟨r, hr⟩ := Option.isSome_iff_exists.mp (Parsed.toRe_isSome_of_WF ⟨L, ci⟩ hwf)
  refine ⟨r, hr, ?_⟩
  unfold Parsed.toRe at hr
  simp only [] at hr
  cases hin : Item.listToRe (2 * Item.sizeL L + 4) L with
  | none => simp [hin] at hr
  | some inner =>
    simp [hin] at hr
    subst hr
    obtain ⟨f', xs, _, hm, hx⟩ := listToRe_inv hin
    rw [HF.splitBars_noBar _ hnb] at hm
    simp only [List.mapM_cons, List.mapM_nil] at hm
    cases h1 : Item.seqToRe f' L with
    | none => simp [h1] at hm
    | some x =>
      simp [h1] at hm
      have hx' : inner = x := by rw [hx, ← hm]; rfl
      have hE : Eqv x (compPathMB cfg.dot [.pat g]) := by
        subst hL
        unfold mbItems at h1
        simp only [List.cons_append, List.nil_append] at h1
        obtain ⟨f1, x1, h2, e1⟩ := seqToRe_re_eqv h1
        obtain ⟨f2, x2, h3, e2⟩ := seqToRe_re_eqv h2
        obtain ⟨f3, x3, h4, e3⟩ := seqToRe_re_eqv h3
        cases f3 with
        | zero => simp [Item.seqToRe] at h4
        | succ f4 =>
          simp only [Item.seqToRe] at h4
          obtain ⟨f5, x5, h5, e5⟩ := itsTopP_toRe cfg h g hpp hsl true f4 _ x3 h4
          obtain ⟨f6, x6, h6, e6⟩ := seqToRe_re_eqv h5
          rw [seqToRe_nil h6] at e6
          have e7 : Eqv x3 (pathRe cfg.dot false [.pat g] false) := by
            simp only [pathRe, sepIf, List.isEmpty_nil, if_true, Bool.false_eq_true, if_false]
            exact e5.trans ((Eqv.refl _).cat (e6.trans (Eqv.cat_eps _)))
          unfold compPathMB
          exact e1.trans ((mbStar_eqv cfg).cat (e2.trans ((Eqv.refl _).cat (e3.trans ((Eqv.refl _).cat e7)))))
      rw [hx']
      exact (Eqv.refl _).cat ((hE.flags true ci).cat (Eqv.refl _))

/-- the MATCHBASE configurations: `PathX` but for `matchbase0`, which is set.  Under GLOBSTARLONG ∧
    FOLLOW the implicit prefix is `***`, read with the configuration's own GLOBSTAR setting: it must
    be on (in `Cfg.ofFlags`, GLOBSTARLONG implies it) -/
structure PathXM (cfg : Cfg) : Prop where
  base : PathX (cfgT cfg false)
  mb : cfg.matchbase0 = true
  long_gs : (cfg.globstarlong && cfg.follow) = true → cfg.globstar0 = true

theorem cfgT_self (cfg : Cfg) (h : cfg.matchbase0 = true) : cfgT (cfgT cfg false) true = cfg := by
  obtain ⟨a1, a2, a3, a4, a5, a6, a7, a8, a9, a10, a11, a12, a13, a14, a15, a16, a17, a18, a19, a20⟩ := cfg
  simp only at h
  subst h
  rfl

/-- **pass_print under MATCHBASE.**  For a printed separator-free segment pattern `g` in the scope
    of `pass_print_path_neg` (`segOKN`), the faithful port under MATCHBASE (`cfg.globstar0`
    arbitrary) returns items that convert to a regex `Eqv`-equivalent to `compPathMB`: the implicit
    `**/` prefix, then `g` as a path segment. -/
theorem pass_print_matchbase (cfg : Cfg) (h : PathXM cfg) (drive : List Char → DriveInfo) (g : Pat)
    (hg : segOKN (.pat g) = true) :
    ∃ parsed r, parseItems cfg drive (print g) = .ok parsed ∧ parsed.toRe = some r ∧
      Eqv r (wrapRe (!cfg.caseSensitive) (compPathMB cfg.dot [.pat g])) := by
  obtain ⟨r, hr, he⟩ := mbItems_toRe (cfgT cfg false) h.base g hg (!cfg.caseSensitive)
  have hp := parseItems_mb (cfgT cfg false) h.base h.long_gs drive g hg
  rw [cfgT_self cfg h.mb] at hp
  exact ⟨_, r, hp, hr, he⟩

/-! ## Part 8 (MATCHBASE): patterns with a top-level separator -/

theorem cfgT_false_self (cfg : Cfg) (h : cfg.matchbase0 = false) : cfgT cfg false = cfg := by
  obtain ⟨a1, a2, a3, a4, a5, a6, a7, a8, a9, a10, a11, a12, a13, a14, a15, a16, a17, a18, a19, a20⟩ := cfg
  simp only at h
  subst h
  rfl

theorem setMB_self (ps : PS) : setMB ps.matchbase ps = ps := by
  obtain ⟨a1, a2, a3, a4, a5, a6, a7, a8, a9⟩ := ps
  rfl

theorem setMB_false_of (ps : PS) (h : ps.matchbase = false) : setMB false ps = ps := by
  obtain ⟨a1, a2, a3, a4, a5, a6, a7, a8, a9⟩ := ps
  simp only at h
  subst h
  rfl

theorem setMB_setMB (m m' : Bool) (ps : PS) : setMB m (setMB m' ps) = setMB m ps := rfl

/-- `root` fails only on an absolute pattern under NOABSOLUTE -/
theorem root_ok (cfg : Cfg) (hna : cfg.noAbs = false) (drive : List Char → DriveInfo) (p : List Char) (ps : PS)
    (cur : List Item) : ∃ ps' cur', root cfg drive p ps cur = .ok (ps', cur') := by
  rw [root_eq]
  rcases rootPre cfg drive p cur with ⟨rs, it, c⟩
  unfold rootPost
  simp only [hna, Bool.false_and, Bool.false_eq_true, if_false]
  exact ⟨_, _, rfl⟩

/-- **`matchbase` is never read and only ever written with `false`**: clearing it commutes with
    `root`, on every pattern; the configuration field `matchbase0` is not read either -/
theorem root_off (cfg : Cfg) (hb : cfg.bslashAbort = false) (hw : cfg.winDriveDetect = false) (t : Bool)
    (drive : List Char → DriveInfo) (p : List Char) (ps : PS) (cur : List Item)
    (ps' : PS) (cur' : List Item) (h : root cfg drive p ps cur = .ok (ps', cur')) :
    root (cfgT cfg t) drive p (setMB false ps) cur = .ok (setMB false ps', cur') := by
  rw [root_eq] at h ⊢
  unfold rootPre rootPost at h ⊢
  simp only [hw, cfgT_wdd, cfgT_pathname, cfgT_noAbs, cfgT_realpath, cfgT_win, Bool.false_eq_true, if_false] at h ⊢
  have hl := rootLoop_mb cfg hb t false (p.length + 1) ⟨0, p⟩
  split at h
  · rename_i hrs
    simp only [hrs, if_true] at h ⊢
    split at h
    · cases h
    · rename_i hna
      simp only [hna, if_false] at h ⊢
      simp only [Bool.not_true, Bool.false_and, Bool.false_eq_true, if_false] at h ⊢
      have e1 : ({ (setMB false ps).setAfterStart with matchbase := false, extmatchbase := false } : PS) =
          setMB false ({ ps.setAfterStart with matchbase := false, extmatchbase := false } : PS) := rfl
      rw [e1, hl _ _ (Or.inl rfl), cleanUpInverse_mb]
      simp only [Except.ok.injEq, Prod.mk.injEq] at h ⊢
      obtain ⟨h1, h2⟩ := h
      exact ⟨by rw [← h1], h2⟩
  · rename_i hrs
    simp only [hrs, if_false, Bool.and_false, Bool.false_eq_true] at h ⊢
    have e1 : (setMB false ps).setAfterStart = setMB false ps.setAfterStart := rfl
    rw [e1]
    simp only [Bool.not_false, Bool.true_and] at h ⊢
    split at h
    · rename_i hrp
      simp only [hrp, if_true] at h ⊢
      rw [hl _ _ (Or.inl rfl), cleanUpInverse_mb]
      simp only [Except.ok.injEq, Prod.mk.injEq] at h ⊢
      obtain ⟨h1, h2⟩ := h
      exact ⟨by rw [← h1], h2⟩
    · rename_i hrp
      simp only [hrp, Bool.false_eq_true, if_false] at h ⊢
      rw [hl _ _ (Or.inl rfl), cleanUpInverse_mb]
      simp only [Except.ok.injEq, Prod.mk.injEq] at h ⊢
      obtain ⟨h1, h2⟩ := h
      exact ⟨by rw [← h1], h2⟩

/-- the items of the implicit `**` prefix, as `_parse` prepends them -/
def mbPrefix (cfg : Cfg) : List Item :=
  [.re (mbStar cfg), .re (Frag.globstarDiv false), .re (Frag.pathTrail false)]

/-- the items `_parse` returns without MATCHBASE (`parseItems_pathN`) -/
def plainItems (cfg : Cfg) (pp : PathPat) : List Item :=
  baseItems pp.segs pp.abs ++ (segItemsN cfg pp.trailing pp.segs pp.abs ++ [.re (Frag.pathTrail false)])

/-- the two `root` runs of `_parse` under MATCHBASE, on any printed path pattern in scope: the
    pattern run reads the same items as without MATCHBASE; what is left open here is only whether
    `matchbase` is still set at the end (`b`) -/
theorem parseItems_mb_struct (cfg : Cfg) (h : PathX cfg)
    (hlg : (cfg.globstarlong && cfg.follow) = true → cfg.globstar0 = true)
    (drive : List Char → DriveInfo) (pp : PathPat) (hok : pathOKN pp = true)
    (hgs : pp.segs.any Seg.isGlob = true → cfg.globstar0 = true) :
    ∃ (ps0 ps2 psT : PS),
      ps0.inList = false ∧ ps0.invExt = 0 ∧ ps0.matchbase = false ∧ ps0.extmatchbase = false ∧
      ps0.globstar = cfg.globstar0 ∧
      root cfg drive (printPath pp) ps0 [.empty] =
        .ok (ps2, .re (Frag.pathTrail false) ::
          ((segItemsN cfg pp.trailing pp.segs pp.abs).reverse ++ baseItems pp.segs pp.abs)) ∧
      ps2.matchbase = false ∧
      root (cfgT cfg true) drive (printPath pp) (setMB true ps0) [.empty] =
        .ok (psT, .re (Frag.pathTrail false) ::
          ((segItemsN cfg pp.trailing pp.segs pp.abs).reverse ++ baseItems pp.segs pp.abs)) ∧
      parseItems (cfgT cfg true) drive (printPath pp) =
        .ok { items := (if psT.matchbase then mbPrefix cfg else []) ++ plainItems cfg pp,
              ci := !cfg.caseSensitive } := by
  simp only [pathOKN, Bool.and_eq_true, List.all_eq_true, Bool.or_eq_true, Bool.not_eq_eq_eq_not, Bool.not_true,
    List.isEmpty_eq_false_iff] at hok
  obtain ⟨⟨h1, h2⟩, h3⟩ := hok
  have hwf : pp.segs = [] → pp.abs = true := by
    intro he
    rcases h3 with h3 | h3
    · exact absurd he h3
    · exact h3
  -- the prefix run
  obtain ⟨ps1, hpre, hl1, hk1, hm1, he1⟩ := prefix_run cfg h hlg drive
  -- the pattern run, without MATCHBASE
  obtain ⟨ps2, hr2, hl2, hk2, hm2, he2⟩ := root_pathN cfg h drive pp.trailing pp.segs pp.abs h1 h2
    { ps1 with globstar := cfg.globstar0 } hgs hl1 hk1 hm1 he1
  -- the pattern run under MATCHBASE
  have hna : (cfgT cfg true).noAbs = false := h.noAbs
  obtain ⟨psT, curT, hrT⟩ := root_ok (cfgT cfg true) hna drive (printPath pp)
    (setMB true { ps1 with globstar := cfg.globstar0 }) [.empty]
  have hoff := root_off (cfgT cfg true) h.bslash h.wdd false drive (printPath pp) _ _ _ _ hrT
  have ec : cfgT (cfgT cfg true) false = cfg := cfgT_false_self cfg h.matchbase
  have es : setMB false (setMB true ({ ps1 with globstar := cfg.globstar0 } : PS)) =
      ({ ps1 with globstar := cfg.globstar0 } : PS) := by
    rw [setMB_setMB]
    exact setMB_false_of _ hm1
  rw [ec, es] at hoff
  unfold printPath at hoff hrT
  rw [hr2] at hoff
  simp only [Except.ok.injEq, Prod.mk.injEq] at hoff
  obtain ⟨hps, hcur⟩ := hoff
  subst hcur
  refine ⟨({ ps1 with globstar := cfg.globstar0 } : PS), ps2, psT, hl1, hk1, hm1, he1, rfl, hr2, hm2, hrT, ?_⟩
  have hemT : psT.extmatchbase = false := by
    have : (setMB false psT).extmatchbase = false := by rw [← hps]; exact he2
    exact this
  unfold parseItems
  have hanchor : (cfgT cfg true).anchor = false := h.anchor
  simp only [anchorStep, hanchor, Bool.false_eq_true, ite_false]
  rw [hpre]
  simp only
  unfold parseBody
  have hemp : (printSegs pp.trailing pp.segs pp.abs).isEmpty = false := by
    simpa using printSegs_ne_nilN pp.trailing pp.segs pp.abs h1 hwf
  unfold printPath
  simp only [printSegs_ne_bsN pp.trailing pp.segs pp.abs h1, ite_false, hemp, Bool.false_eq_true, hrT]
  have hb : (baseItems pp.segs pp.abs).reverse = baseItems pp.segs pp.abs := by
    unfold baseItems; split <;> rfl
  have hci : (cfgT cfg true).caseSensitive = cfg.caseSensitive := rfl
  cases hmT : psT.matchbase with
  | false =>
    simp [hmT, hemT, plainItems, hb, hci]
  | true =>
    simp [hmT, plainItems, mbPrefix, hb, hci]

/-! ### the dual: a top-level separator clears `matchbase` -/

/-- an absolute pattern: `root` clears the field before the loop -/
theorem root_abs_mb (cfg : Cfg) (hp : cfg.pathname = true) (hw : cfg.winDriveDetect = false)
    (drive : List Char → DriveInfo) (p : List Char) (hhd : p.head? = some '/') (m : Bool) (ps : PS)
    (cur : List Item) :
    root cfg drive p (setMB m ps) cur = root cfg drive p ps cur := by
  rw [root_eq, root_eq]
  unfold rootPre rootPost
  simp only [hw, hp, hhd, Bool.false_eq_true, if_false, Bool.true_and, decide_true, if_true]
  split
  · rfl
  · rfl

/-- `**/` at a segment start, under GLOBSTAR, whatever `matchbase` says -/
theorem handleStar_glob_sep_any (cfg : Cfg) (h : PathX cfg) (i : Nat) (t : List Char) (ps : PS) (last : Item)
    (before : List Item) (ha : ps.afterStart = true) (hil : ps.inList = false) (hg : ps.globstar = true)
    (hl : last.isDiv false = false) (ht : t.head? ≠ some '/') :
    handleStar cfg ps ⟨i, '*' :: '/' :: t⟩ (last :: before) =
      (({ ps with matchbase := false } : PS).resetDirTrack.setStartDir, ⟨i+2, t⟩, globCur cfg last before) := by
  rw [handleStar_eq, hsStar_glob cfg h ps ha]
  have hsel : hsSel cfg ps ⟨i, '*' :: '/' :: t⟩ (cfg.pathname && cfg.globstarCapture) =
      (true, cfg.globstarCapture, ⟨i+2, t⟩, { ps with matchbase := false }) := by
    unfold hsSel
    simp only [ha, hg, hil, Bool.not_false, Bool.and_self, if_true, It.next, h.pathname,
      Bool.true_and, bne_self_eq_false, Bool.false_eq_true, if_false]
    split <;> simp
  rw [hsel]
  unfold hsBody
  simp only [h.win, hl, Bool.not_true, Bool.false_eq_true, if_false,
    consumePathSep_id cfg h ⟨i+2, t⟩ ht, globCur, gstarRe]

theorem handleStar_cfgT (cfg : Cfg) (t : Bool) (ps : PS) (it : It) (cur : List Item) :
    handleStar (cfgT cfg t) ps it cur = handleStar cfg ps it cur := rfl

/-- a leading `**/`: the first token clears the field -/
theorem rootLoop_globsep_absorb (cfg : Cfg) (h : PathX cfg) (t m : Bool) (F i : Nat) (tl : List Char) (ps : PS)
    (last : Item) (before : List Item) (ha : ps.afterStart = true) (hil : ps.inList = false)
    (hg : ps.globstar = true) (hl : last.isDiv false = false) (ht : tl.head? ≠ some '/') :
    rootLoop (cfgT cfg t) (F+1) ⟨i, '*' :: '*' :: '/' :: tl⟩ (setMB m ps) (last :: before) =
      rootLoop (cfgT cfg t) (F+1) ⟨i, '*' :: '*' :: '/' :: tl⟩ (setMB false ps) (last :: before) := by
  have key : ∀ m' : Bool, HF.rootTok (cfgT cfg t) '*' ⟨i+1, '*' :: '/' :: tl⟩ (setMB m' ps) (last :: before) =
      (⟨i+3, tl⟩, (({ (HF.peFail ps (HF.peEnter ps '*' true)) with matchbase := false } : PS).resetDirTrack.setStartDir).updateDirState,
        globCur cfg last before) := by
    intro m'
    unfold HF.rootTok
    have hx : ((cfgT cfg t).extend && decide ('*' ∈ extTypes)) = true := by
      have : '*' ∈ extTypes := by decide
      simp [cfgT_extend, h.extend, this]
    rw [if_pos hx]
    have hfuel : 2 * (⟨i+1, '*' :: '/' :: tl⟩ : It).rest.length + 8 =
        (2 * (⟨i+1, '*' :: '/' :: tl⟩ : It).rest.length + 7) + 1 := rfl
    rw [hfuel, parseExtend_noparen _ _ _ _ _ _ _ (by simp)]
    simp only [Bool.false_eq_true, if_false]
    unfold HF.rootPlain
    simp only [show ('*' : Char) ≠ '.' by decide, if_false, if_true, handleStar_cfgT]
    have hX : HF.peFail (setMB m' ps) (HF.peEnter (setMB m' ps) '*' true) =
        setMB m' (HF.peFail ps (HF.peEnter ps '*' true)) := by
      rw [peEnter_mb, peFail_mb]
    rw [hX]
    have haX : (setMB m' (HF.peFail ps (HF.peEnter ps '*' true))).afterStart = true := by
      show (HF.peFail ps (HF.peEnter ps '*' true)).afterStart = true
      unfold HF.peFail; rw [HF.peFinish_fail_afterStart]; exact ha
    have hilX : (setMB m' (HF.peFail ps (HF.peEnter ps '*' true))).inList = false := by
      show (HF.peFail ps (HF.peEnter ps '*' true)).inList = false
      unfold HF.peFail HF.peFinish HF.peEnter
      simp [hil]
    have hgX : (setMB m' (HF.peFail ps (HF.peEnter ps '*' true))).globstar = true := by
      show (HF.peFail ps (HF.peEnter ps '*' true)).globstar = true
      unfold HF.peFail HF.peFinish HF.peEnter
      cases ps.inList <;> cases ps.invNest <;> simp [hg]
    rw [handleStar_glob_sep_any cfg h (i+1) tl _ last before haX hilX hgX hl ht]
    rfl
  rw [rootLoop_cons, rootLoop_cons, key m, key false]

/-- `root` depends on its state argument only through the loop (pattern not absolute, no REALPATH) -/
theorem root_of_loop (cfg : Cfg) (hp : cfg.pathname = true) (hw : cfg.winDriveDetect = false)
    (hrp : cfg.realpath = false) (drive : List Char → DriveInfo) (p : List Char) (hhd : p.head? ≠ some '/')
    (ps ps' : PS) (cur : List Item)
    (hloop : rootLoop cfg (p.length + 1) ⟨0, p⟩ ps.setAfterStart cur =
      rootLoop cfg (p.length + 1) ⟨0, p⟩ ps'.setAfterStart cur) :
    root cfg drive p ps cur = root cfg drive p ps' cur := by
  rw [root_eq, root_eq]
  unfold rootPre rootPost
  simp only [hw, hp, hhd, hrp, Bool.false_eq_true, if_false, Bool.true_and, decide_false, Bool.and_false, hloop]

/-- the printed pattern begins with a separator, or with `**/` -/
def sepEarly (pp : PathPat) : Bool :=
  pp.abs || (match pp.segs with
    | .glob :: rest => !rest.isEmpty || pp.trailing
    | _ => false)

/-- **the dual (first part)**: when the printed pattern begins with a separator or with `**/`,
    `matchbase` is cleared at once, and under MATCHBASE `_parse` returns what it returns without -/
theorem parseItems_mb_sepEarly (cfg : Cfg) (h : PathX cfg)
    (hlong : (cfg.globstarlong && cfg.follow) = true → cfg.globstar0 = true)
    (drive : List Char → DriveInfo) (pp : PathPat) (hok : pathOKN pp = true)
    (hgs : pp.segs.any Seg.isGlob = true → cfg.globstar0 = true) (hse : sepEarly pp = true) :
    parseItems (cfgT cfg true) drive (printPath pp) =
      .ok { items := plainItems cfg pp, ci := !cfg.caseSensitive } := by
  obtain ⟨ps0, ps2, psT, hl0, hk0, hm0, he0, hg0, hr0, hm2, hrT, hpi⟩ :=
    parseItems_mb_struct cfg h hlong drive pp hok hgs
  have hoff := root_off cfg h.bslash h.wdd true drive (printPath pp) ps0 [.empty] _ _ hr0
  rw [setMB_false_of ps0 hm0] at hoff
  -- it suffices that the run does not depend on the initial value of the field
  suffices hkey : root (cfgT cfg true) drive (printPath pp) (setMB true ps0) [.empty] =
      root (cfgT cfg true) drive (printPath pp) ps0 [.empty] by
    rw [hkey, hoff] at hrT
    simp only [Except.ok.injEq, Prod.mk.injEq] at hrT
    have : psT.matchbase = false := by rw [← hrT.1]; rfl
    rw [hpi, this]
    simp
  simp only [pathOKN, Bool.and_eq_true, List.all_eq_true] at hok
  obtain ⟨⟨h1, h2⟩, _⟩ := hok
  simp only [sepEarly, Bool.or_eq_true] at hse
  rcases hse with habs | hglob
  · -- absolute
    have hhd : (printPath pp).head? = some '/' := by
      unfold printPath; rw [habs, printSegs_sep]; rfl
    exact root_abs_mb (cfgT cfg true) h.pathname h.wdd drive _ hhd true ps0 [.empty]
  · by_cases habs : pp.abs = true
    · have hhd : (printPath pp).head? = some '/' := by
        unfold printPath; rw [habs, printSegs_sep]; rfl
      exact root_abs_mb (cfgT cfg true) h.pathname h.wdd drive _ hhd true ps0 [.empty]
    · have habs' : pp.abs = false := by simpa using habs
      obtain ⟨ab, segs, tr⟩ := pp
      simp only at habs' hglob h1 h2 hgs ⊢
      subst habs'
      cases segs with
      | nil => simp at hglob
      | cons s rest =>
        cases s with
        | pat g => simp at hglob
        | glob =>
          have hokr : ∀ s ∈ rest, segOKN s = true := fun s hs => h1 s (List.mem_cons_of_mem _ hs)
          have hne : (rest.isEmpty && !tr) = false := by
            simp only [Bool.or_eq_true, Bool.not_eq_eq_eq_not, Bool.not_true, List.isEmpty_eq_false_iff] at hglob
            rcases hglob with hr | hr
            · cases rest with
              | nil => exact absurd rfl hr
              | cons a b => rfl
            · simp [hr]
          have hP : printPath ⟨false, .glob :: rest, tr⟩ = '*' :: '*' :: '/' :: printSegs tr rest false := by
            simp [printPath, printSegs, hne]
          have hgT : ps0.globstar = true := by rw [hg0]; exact hgs (by simp [Seg.isGlob])
          have hloop := rootLoop_globsep_absorb cfg h true true ((printSegs tr rest false).length + 3) 0
            (printSegs tr rest false) ps0.setAfterStart .empty [] rfl hl0 hgT isDiv_empty
            (printSegs_false_headN tr rest hokr)
          have e0 : setMB false ps0.setAfterStart = ps0.setAfterStart := setMB_false_of _ hm0
          rw [e0] at hloop
          refine root_of_loop (cfgT cfg true) h.pathname h.wdd h.realpath drive _ ?_ _ _ _ ?_
          · rw [hP]; simp
          · rw [hP]
            have : ('*' :: '*' :: '/' :: printSegs tr rest false).length + 1 =
                (printSegs tr rest false).length + 3 + 1 := by simp
            rw [this]
            exact hloop

/-! ### the dual, second part: a file-name segment, then a separator -/

/-- the run does not depend on the initial value of `matchbase` -/
def Absorb (cfg : Cfg) (t : Bool) (F : Nat) (it : It) (ps : PS) (cur : List Item) : Prop :=
  rootLoop (cfgT cfg t) F it (setMB true ps) cur = rootLoop (cfgT cfg t) F it (setMB false ps) cur

/-- … from every top-level state with `k` open `!(` -/
def AbsK (cfg : Cfg) (t : Bool) (k F : Nat) (it : It) : Prop :=
  ∀ (as : Bool) (ps : PS) (cur : List Item), PP.Inv ps as false k → Absorb cfg t F it ps cur

/-- one raw token that does not look at a separator -/
theorem absK_of_raw (cfg : Cfg) (hb : cfg.bslashAbort = false) (t : Bool) (k k' F i : Nat) (c : Char)
    (r : List Char) (it' : It) (hL : Loc c ⟨i+1, r⟩) (hc : c ≠ '/')
    (hraw : ∀ (as : Bool) (ps : PS) (cur : List Item), PP.Inv ps as false k →
      ∃ ps' cur' as', PP.Inv ps' as' false k' ∧ HF.rootTok cfg c ⟨i+1, r⟩ ps cur = (it', ps', cur'))
    (hn : AbsK cfg t k' F it') : AbsK cfg t k (F+1) ⟨i, c :: r⟩ := by
  intro as ps cur hi
  obtain ⟨ps', cur', as', hi', e⟩ := hraw as ps cur hi
  unfold Absorb
  rw [rootLoop_cons, rootLoop_cons,
    rootTok_mb cfg hb t true c ⟨i+1, r⟩ ps cur (Or.inr ⟨Or.inr hL, hc, hi.dirStart⟩),
    rootTok_mb cfg hb t false c ⟨i+1, r⟩ ps cur (Or.inl rfl), e]
  exact hn as' ps' cur' hi'

/-- a top-level separator clears the field: from there on nothing depends on its value -/
theorem absK_slash (cfg : Cfg) (hp : cfg.pathname = true) (t : Bool) (k F i : Nat) (tl : List Char) :
    AbsK cfg t k (F+1) ⟨i, '/' :: tl⟩ := by
  intro as ps cur _
  unfold Absorb
  have hne : ¬ (((cfgT cfg t).extend && decide ('/' ∈ extTypes)) = true) := by
    have : '/' ∉ extTypes := by decide
    simp [this]
  have key : HF.rootTok (cfgT cfg t) '/' ⟨i+1, tl⟩ (setMB true ps) cur =
      HF.rootTok (cfgT cfg t) '/' ⟨i+1, tl⟩ (setMB false ps) cur := by
    unfold HF.rootTok
    rw [if_neg hne, if_neg hne]
    unfold HF.rootPlain
    simp only [show ('/' : Char) ≠ '.' by decide, show ('/' : Char) ≠ '*' by decide,
      show ('/' : Char) ≠ '?' by decide, if_false, if_true, cfgT_pathname, hp, setStartDir_mb,
      cleanUpInverse_mb]
    rfl
  rw [rootLoop_cons, rootLoop_cons, key]

theorem loc_other (c : Char) (it : It) (h1 : c ≠ '*') (h2 : c ≠ '\\') : Loc c it :=
  ⟨fun e => absurd e h1, fun e => absurd e h2⟩

/-- a printed literal character, with any number of open `!(` -/
theorem absK_printLit (cfg : Cfg) (h : PathX cfg) (t : Bool) (c : Char) (hsl : c ≠ '/') (k F i : Nat)
    (rest : List Char) (hn : AbsK cfg t k F ⟨i + (printLit c).length, rest⟩) :
    AbsK cfg t k (F+1) ⟨i, printLit c ++ rest⟩ := by
  unfold printLit at hn ⊢
  split
  · rename_i hc
    rw [if_pos hc] at hn
    have hcs : c ≠ '/' := hsl
    refine absK_of_raw cfg h.bslash t k k F i '\\' (c :: rest) ⟨i + 2, rest⟩
      ⟨fun e => absurd e (by decide), fun _ => by simpa using hcs⟩ (by decide) ?_ hn
    intro as ps cur hi
    obtain ⟨ps1, hi1, _, e⟩ := rootTok_plainG cfg '\\' ⟨i+1, c :: rest⟩ ps cur hi (fun hx => absurd hx bs_not_ext')
    exact ⟨ps1.updateDirState, _, false, hi1.upd,
      by rw [e, (tok_esc_p cfg h c hc _ _ ps1 cur false false hi1.dirStart).1]⟩
  · rename_i hc
    rw [if_neg hc] at hn
    have hne : c ∉ extTypes := not_ext_of_not_esc hc
    have h1 : c ≠ '*' := by intro e; subst e; simp [escSet] at hc
    have h2 : c ≠ '\\' := by intro e; subst e; simp [escSet] at hc
    refine absK_of_raw cfg h.bslash t k k F i c rest ⟨i + 1, rest⟩ (loc_other c _ h1 h2) hsl ?_ hn
    intro as ps cur hi
    obtain ⟨ps1, hi1, _, e⟩ := rootTok_plainG cfg c ⟨i+1, rest⟩ ps cur hi (fun hx => absurd hx hne)
    exact ⟨ps1.updateDirState, _, false, hi1.upd,
      by rw [e, (tok_lit_p cfg h c hc hsl _ ps1 cur false false hi1).1]⟩

/-- literal text, with any number of open `!(` -/
theorem AL_all (cfg : Cfg) (h : PathX cfg) (t : Bool) : ∀ (g : Pat), g.litOnly = true → slashFree g = true →
    ∀ (k F i : Nat) (rest : List Char), AbsK cfg t k F ⟨i + (print g).length, rest⟩ →
      AbsK cfg t k (F + ntok g) ⟨i, print g ++ rest⟩ := by
  intro g
  induction g with
  | eps => intro _ _ k F i rest hn; simpa [print, ntok] using hn
  | lit c =>
    intro _ hsl k F i rest hn
    have hc : c ≠ '/' := by simpa [slashFree] using hsl
    exact absK_printLit cfg h t c hc k F i rest hn
  | seq p q ihp ihq =>
    intro hl hsl k F i rest hn
    simp only [Pat.litOnly, Bool.and_eq_true] at hl
    simp only [slashFree, Bool.and_eq_true] at hsl
    simp only [print, ntok, List.append_assoc, List.length_append] at hn ⊢
    have hq := ihq hl.2 hsl.2 k F (i + (print p).length) rest (by rw [Nat.add_assoc]; exact hn)
    have hp := ihp hl.1 hsl.1 k (F + ntok q) i (print q ++ rest) hq
    have : F + (ntok p + ntok q) = F + ntok q + ntok p := by omega
    rw [this]; exact hp
  | _ => intro hl; simp [Pat.litOnly] at hl

/-- a negation-free stretch of a segment, at top level, no `!(` open -/
theorem AG_all (cfg : Cfg) (h : PathX cfg) (t : Bool) : ∀ (g : Pat), pp false g = true → slashFree g = true →
    ∀ (F i : Nat) (rest : List Char), ok g rest = true → AbsK cfg t 0 F ⟨i + (print g).length, rest⟩ →
      AbsK cfg t 0 (F + ntok g) ⟨i, print g ++ rest⟩ := by
  intro g
  induction g with
  | eps => intro _ _ F i rest _ hn; simpa [print, ntok] using hn
  | lit c =>
    intro _ hsl F i rest _ hn
    have hc : c ≠ '/' := by simpa [slashFree] using hsl
    exact absK_printLit cfg h t c hc 0 F i rest hn
  | any =>
    intro _ _ F i rest hok hn
    have hnp : rest.head? ≠ some '(' := by simpa [ok] using hok
    refine absK_of_raw cfg h.bslash t 0 0 F i '?' rest ⟨i + 1, rest⟩ (loc_other _ _ (by decide) (by decide))
      (by decide) ?_ (by simpa [print] using hn)
    intro as ps cur hi
    obtain ⟨ps1, hi1, _, e⟩ := rootTok_plainG cfg '?' ⟨i+1, rest⟩ ps cur hi (fun _ => hnp)
    exact ⟨ps1.resetDirTrack.updateDirState, _, false, hi1.reset.upd,
      by rw [e, (tok_any_p cfg h _ ps1 cur false false).1]⟩
  | star =>
    intro _ _ F i rest hok hn
    have hnp : rest.head? ≠ some '(' ∧ rest.head? ≠ some '*' := by simpa [ok] using hok
    refine absK_of_raw cfg h.bslash t 0 0 F i '*' rest ⟨i + 1, rest⟩
      ⟨fun _ => hnp.2, fun e => absurd e (by decide)⟩ (by decide) ?_ (by simpa [print] using hn)
    intro as ps cur hi
    obtain ⟨ps1, hi1, _, e⟩ := rootTok_plainG cfg '*' ⟨i+1, rest⟩ ps cur hi (fun _ => hnp.1)
    exact ⟨ps1.resetDirTrack.updateDirState, _, false, hi1.reset.upd,
      by rw [e, (tok_star_p cfg h _ ps1 cur false false hnp.2).1]⟩
  | cls neg items =>
    intro hp hsl F i rest _ hn
    have hok : clsOK items = true := by simpa [pp] using hp
    have hms : items.all memNoSl = true := by simpa [slashFree] using hsl
    have hpr : print (.cls neg items) ++ rest =
        '[' :: ((if neg then ['!'] else []) ++ items.flatMap printCls ++ ']' :: rest) := by
      simp [print]
    have hlen : (print (.cls neg items)).length =
        ((if neg then ['!'] else []) ++ items.flatMap printCls ++ [']']).length + 1 := by
      simp [print]
    rw [hlen] at hn
    rw [hpr]
    refine absK_of_raw cfg h.bslash t 0 0 F i '[' _ _ (loc_other _ _ (by decide) (by decide)) (by decide) ?_
      hn
    intro as ps cur hi
    obtain ⟨ps1, hi1, _, e⟩ := rootTok_plainG cfg '['
      ⟨i+1, (if neg then ['!'] else []) ++ items.flatMap printCls ++ ']' :: rest⟩ ps cur hi
      (fun hx => absurd hx (by decide))
    refine ⟨ps1.resetDirTrack.updateDirState, .re ((pathEmit cfg).cls ps1.afterStart neg items) :: cur, false,
      hi1.reset.upd, ?_⟩
    rw [e]
    simp only [HF.rootPlain, show ('[' : Char) ≠ '.' by decide, show ('[' : Char) ≠ '*' by decide,
      show ('[' : Char) ≠ '?' by decide, show ('[' : Char) ≠ '/' by decide, show ('[' : Char) ≠ '\\' by decide,
      if_false, if_true, sequence_print_p cfg h ps1 neg items hok hms]
    congr 2
    omega
  | seq p q ihp ihq =>
    intro hp hsl F i rest hok hn
    simp only [pp, Bool.and_eq_true] at hp
    simp only [slashFree, Bool.and_eq_true] at hsl
    simp only [ok, Bool.and_eq_true] at hok
    simp only [print, ntok, List.append_assoc, List.length_append] at hn ⊢
    have hq := ihq hp.2 hsl.2 F (i + (print p).length) rest hok.2 (by rw [Nat.add_assoc]; exact hn)
    have hp' := ihp hp.1 hsl.1 (F + ntok q) i (print q ++ rest) hok.1 hq
    have : F + (ntok p + ntok q) = F + ntok q + ntok p := by omega
    rw [this]; exact hp'
  | alt p q => intro hp; simp [pp] at hp
  | ext k body _ =>
    intro hp hsl F i rest hok hn
    simp only [pp, Bool.and_eq_true, bne_iff_ne, ne_eq] at hp
    simp only [slashFree] at hsl
    simp only [ok] at hok
    have hpr : print (.ext k body) ++ rest = extChar k :: ('(' :: (print body ++ ')' :: rest)) := by
      simp [print]
    have hlen : (print (.ext k body)).length = (print body).length + 3 := by simp [print]
    rw [hlen] at hn
    rw [hpr]
    have hloc : Loc (extChar k) ⟨i+1, '(' :: (print body ++ ')' :: rest)⟩ :=
      ⟨fun _ => by simp, fun e => absurd e (by cases k <;> decide)⟩
    refine absK_of_raw cfg h.bslash t 0 0 F i (extChar k) _ ⟨i + ((print body).length + 3), rest⟩ hloc
      (by cases k <;> decide) ?_ hn
    intro as ps cur hi
    obtain ⟨ps1, e1, hi1, _⟩ := parseExtend_groupG cfg (pathEmit cfg) k hp.1 body
      (EG_all cfg _ (pathSteps cfg h) body) hp.2 (by rw [scope_eq]; exact hsl)
      (2 * ('(' :: (print body ++ ')' :: rest)).length + 8) (i+1) rest ps cur true hi hok
      (by simp only [List.length_cons, List.length_append]; omega)
    refine ⟨ps1.updateDirState,
      .group (gkind k) (HF.capOf cfg) ((pathEmit cfg).its (HF.capOf cfg) as body) :: cur, false, hi1.upd, ?_⟩
    have hx : (cfg.extend && decide (extChar k ∈ extTypes)) = true := by simp [h.extend, extChar_ext]
    unfold HF.rootTok
    rw [if_pos hx]
    simp only [e1, if_true]
    congr 2
    omega

/-- the token `!(body)` at top level -/
theorem absK_neg (cfg : Cfg) (h : PathX cfg) (t : Bool) (body : Pat) (hpp : pp true body = true)
    (hsl : slashFree body = true) (F i : Nat) (rest : List Char) (hok : ok body (')' :: rest) = true)
    (hn : AbsK cfg t 1 F ⟨i + ((print body).length + 3), rest⟩) :
    AbsK cfg t 0 (F+1) ⟨i, '!' :: '(' :: (print body ++ ')' :: rest)⟩ := by
  refine absK_of_raw cfg h.bslash t 0 1 F i '!' _ ⟨i + ((print body).length + 3), rest⟩
    (loc_other _ _ (by decide) (by decide)) (by decide) ?_ hn
  intro as ps cur hi
  obtain ⟨ps1, e1, hi1, _⟩ := parseExtend_negP cfg h body hpp hsl
    (2 * ('(' :: (print body ++ ')' :: rest)).length + 8) (i+1) rest ps cur hi hok
    (by simp only [List.length_cons, List.length_append]; omega)
  refine ⟨ps1.updateDirState,
    .ph (negStarP cfg as body) :: .invOpen cfg.capture (itsP cfg as body) :: cur, false, hi1.upd, ?_⟩
  have hx : (cfg.extend && decide ('!' ∈ extTypes)) = true := by
    have : '!' ∈ extTypes := by decide
    simp [h.extend, this]
  unfold HF.rootTok
  rw [if_pos hx]
  simp only [e1, if_true]
  congr 2
  omega

/-- one whole segment (`PP.ppTop`) -/
theorem A4_all (cfg : Cfg) (h : PathX cfg) (t : Bool) : ∀ (g : Pat), ppTop g = true → slashFree g = true →
    ∀ (F i : Nat) (rest : List Char), ok g rest = true →
      AbsK cfg t (nNeg g) F ⟨i + (print g).length, rest⟩ →
      AbsK cfg t 0 (F + ntok g) ⟨i, print g ++ rest⟩ := by
  have flat : ∀ (g : Pat), pp false g = true → slashFree g = true →
      ∀ (F i : Nat) (rest : List Char), ok g rest = true →
        AbsK cfg t (nNeg g) F ⟨i + (print g).length, rest⟩ →
        AbsK cfg t 0 (F + ntok g) ⟨i, print g ++ rest⟩ := by
    intro g hp hsl F i rest hok hn
    rw [(ppTop_of_pp g hp).2.1] at hn
    exact AG_all cfg h t g hp hsl F i rest hok hn
  intro g
  induction g with
  | seq a b _ ihb =>
    by_cases hn : ∃ body, a = .ext .neg body
    · obtain ⟨body, rfl⟩ := hn
      intro hp hsl F i rest hok hn
      simp only [ppTop, Bool.and_eq_true] at hp
      simp only [slashFree, Bool.and_eq_true] at hsl
      simp only [ok, Bool.and_eq_true] at hok
      simp only [nNeg] at hn
      have hlen : (print (.seq (.ext .neg body) b)).length = (print body).length + 3 + (print b).length := by
        simp [print]; omega
      rw [hlen] at hn
      have hb := AL_all cfg h t b hp.2 hsl.2 1 F (i + ((print body).length + 3)) rest
        (by rw [Nat.add_assoc]; exact hn)
      have hng := absK_neg cfg h t body hp.1 hsl.1 (F + ntok b) i (print b ++ rest) hok.1 hb
      have hpr : print (.seq (.ext .neg body) b) ++ rest = '!' :: '(' :: (print body ++ ')' :: (print b ++ rest)) := by
        simp [print, extChar]
      have hnt : F + ntok (.seq (.ext .neg body) b) = F + ntok b + 1 := by
        simp only [ntok]; omega
      rw [hpr, hnt]
      exact hng
    · have hn' : ∀ body, a ≠ .ext .neg body := fun body e => hn ⟨body, e⟩
      intro hp hsl F i rest hok hnx
      rw [ppTop_seq a b hn'] at hp
      simp only [Bool.and_eq_true] at hp
      simp only [slashFree, Bool.and_eq_true] at hsl
      simp only [ok, Bool.and_eq_true] at hok
      rw [nNeg_seq a b hn'] at hnx
      simp only [print, ntok, List.append_assoc, List.length_append] at hnx ⊢
      have hq := ihb hp.2 hsl.2 F (i + (print a).length) rest hok.2 (by rw [Nat.add_assoc]; exact hnx)
      have hp' := AG_all cfg h t a hp.1 hsl.1 (F + ntok b) i (print b ++ rest) hok.1 hq
      have : F + (ntok a + ntok b) = F + ntok b + ntok a := by omega
      rw [this]; exact hp'
  | ext k body =>
    by_cases hk : k = .neg
    · subst hk
      intro hp hsl F i rest hok hn
      simp only [ppTop] at hp
      simp only [slashFree] at hsl
      simp only [ok] at hok
      simp only [nNeg] at hn
      have hlen : (print (.ext .neg body)).length = (print body).length + 3 := by simp [print]
      rw [hlen] at hn
      have hpr : print (.ext .neg body) ++ rest = '!' :: '(' :: (print body ++ ')' :: rest) := by
        simp [print, extChar]
      rw [hpr]
      exact absK_neg cfg h t body hp hsl F i rest hok hn
    · intro hp
      have : pp false (.ext k body) = true := by
        cases k <;> first | exact hp | exact absurd rfl hk
      exact flat _ this
  | eps => intro _; exact flat _ rfl
  | lit c => intro _; exact flat _ rfl
  | any => intro _; exact flat _ rfl
  | star => intro _; exact flat _ rfl
  | cls neg items => intro hp; exact flat _ hp
  | alt p q => intro hp; simp [ppTop, pp] at hp

/-- the printed pattern has a separator somewhere -/
def hasSep (pp : PathPat) : Bool :=
  pp.abs || pp.trailing || decide (2 ≤ pp.segs.length)

/-- **the dual**: when the printed pattern has a separator anywhere — it is absolute, or ends in a
    separator, or has two segments —, `matchbase` is cleared while the pattern is read, and under
    MATCHBASE `_parse` returns exactly what it returns without it (no implicit prefix) -/
theorem parseItems_mb_hasSep (cfg : Cfg) (h : PathX cfg)
    (hlong : (cfg.globstarlong && cfg.follow) = true → cfg.globstar0 = true)
    (drive : List Char → DriveInfo) (pp : PathPat) (hok : pathOKN pp = true)
    (hgs : pp.segs.any Seg.isGlob = true → cfg.globstar0 = true) (hs : hasSep pp = true) :
    parseItems (cfgT cfg true) drive (printPath pp) =
      .ok { items := plainItems cfg pp, ci := !cfg.caseSensitive } := by
  by_cases hse : sepEarly pp = true
  · exact parseItems_mb_sepEarly cfg h hlong drive pp hok hgs hse
  obtain ⟨ps0, ps2, psT, hl0, hk0, hm0, he0, hg0, hr0, hm2, hrT, hpi⟩ :=
    parseItems_mb_struct cfg h hlong drive pp hok hgs
  have hoff := root_off cfg h.bslash h.wdd true drive (printPath pp) ps0 [.empty] _ _ hr0
  rw [setMB_false_of ps0 hm0] at hoff
  suffices hkey : root (cfgT cfg true) drive (printPath pp) (setMB true ps0) [.empty] =
      root (cfgT cfg true) drive (printPath pp) ps0 [.empty] by
    rw [hkey, hoff] at hrT
    simp only [Except.ok.injEq, Prod.mk.injEq] at hrT
    have : psT.matchbase = false := by rw [← hrT.1]; rfl
    rw [hpi, this]
    simp
  have hok' := hok
  simp only [pathOKN, Bool.and_eq_true, List.all_eq_true, Bool.or_eq_true, Bool.not_eq_eq_eq_not, Bool.not_true,
    List.isEmpty_eq_false_iff] at hok
  obtain ⟨⟨h1, h2⟩, h3⟩ := hok
  obtain ⟨ab, segs, tr⟩ := pp
  simp only [sepEarly, hasSep, Bool.or_eq_true, decide_eq_true_eq, not_or, Bool.not_eq_true] at hse hs h1 h2 h3 hgs ⊢
  obtain ⟨hab, hse2⟩ := hse
  subst hab
  cases segs with
  | nil => simp at h3
  | cons s rest =>
    cases s with
    | glob =>
      exfalso
      simp only [Bool.or_eq_false_iff, Bool.not_eq_eq_eq_not, Bool.not_false, List.isEmpty_iff] at hse2
      obtain ⟨hr, htr⟩ := hse2
      subst hr; subst htr
      simp at hs
    | pat g =>
      have hokr : ∀ s ∈ rest, segOKN s = true := fun s hs => h1 s (List.mem_cons_of_mem _ hs)
      obtain ⟨hpp, hsl, hokg, hne⟩ := segOKN_pat (h1 (.pat g) (by simp))
      have hsb : (if rest.isEmpty then tr else true) = true := by
        cases rest with
        | nil =>
          simp only [List.isEmpty_nil, if_true]
          simpa using hs
        | cons a b => rfl
      have hP : printPath ⟨false, .pat g :: rest, tr⟩ = print g ++ '/' :: printSegs tr rest false := by
        simp only [printPath, printSegs, Bool.false_eq_true, if_false, List.nil_append, hsb, printSegs_sep]
      have hnt := ntok_le g
      -- the loop does not depend on the initial value of the field
      have hA : AbsK cfg true 0 ((print g ++ '/' :: printSegs tr rest false).length + 1) ⟨0, print g ++ '/' :: printSegs tr rest false⟩ := by
        have hF : (print g ++ '/' :: printSegs tr rest false).length + 1 =
            ((print g).length - ntok g + (printSegs tr rest false).length + 1 + 1) + ntok g := by
          simp only [List.length_append, List.length_cons]; omega
        rw [hF]
        have := A4_all cfg h true g hpp hsl
          ((print g).length - ntok g + (printSegs tr rest false).length + 1 + 1) 0
          ('/' :: printSegs tr rest false) (by rw [ok_sep g _ (Or.inr ⟨_, rfl⟩)]; exact hokg)
          (absK_slash cfg h.pathname true (nNeg g) _ _ _)
        exact this
      have hi0 : PP.Inv ps0.setAfterStart true false 0 := ⟨rfl, rfl, hl0, hk0, hm0, he0⟩
      have hloop := hA true ps0.setAfterStart [.empty] hi0
      unfold Absorb at hloop
      rw [setMB_false_of ps0.setAfterStart hm0] at hloop
      refine root_of_loop (cfgT cfg true) h.pathname h.wdd h.realpath drive _ ?_ _ _ _ ?_
      · rw [hP]; exact head_append_ne hne (print_head g hsl)
      · rw [hP]; exact hloop

/-- **pass_print under MATCHBASE, patterns with a separator** (the dual of `pass_print_matchbase`):
    a printed path pattern in the scope of `pass_print_path_neg` that has a separator anywhere
    (`hasSep`) gets NO implicit prefix — the first top-level `/` (or `**/`) clears `matchbase` —,
    so under MATCHBASE the faithful port returns what `pass_print_path_neg` describes. -/
theorem pass_print_path_matchbase_sep (cfg : Cfg) (h : PathXM cfg) (drive : List Char → DriveInfo) (pp : PathPat)
    (hok : pathOKN pp = true) (hgs : pp.segs.any Seg.isGlob = true → cfg.globstar0 = true)
    (hs : hasSep pp = true) :
    ∃ parsed r, parseItems cfg drive (printPath pp) = .ok parsed ∧ parsed.toRe = some r ∧
      Eqv r (wrapRe (!cfg.caseSensitive) (compPath cfg.dot pp)) := by
  have hp := parseItems_mb_hasSep (cfgT cfg false) h.base h.long_gs drive pp hok hgs hs
  rw [cfgT_self cfg h.mb] at hp
  simp only [pathOKN, Bool.and_eq_true, List.all_eq_true] at hok
  obtain ⟨r, hr, he⟩ := toRe_pathN (cfgT cfg false) h.base pp.trailing pp.segs pp.abs hok.1.1 (!cfg.caseSensitive)
  exact ⟨_, r, hp, hr, he⟩

/-! ## non-vacuity -/

/-- `/a/**/!(*.d)/x!(y|z).o` -/
def exN : PathPat :=
  ⟨true, [.pat (.lit 'a'), .glob, .pat (.ext .neg (.seq .star (.seq (.lit '.') (.lit 'd')))),
    .pat (.seq (.lit 'x') (.seq (.ext .neg (.alt (.lit 'y') (.lit 'z'))) (.seq (.lit '.') (.lit 'o'))))], false⟩

/-- `x!(a|?(.)b).c` -/
def exG : Pat :=
  .seq (.lit 'x') (.seq (.ext .neg (.alt (.lit 'a') (.seq (.ext .opt (.lit '.')) (.lit 'b'))))
    (.seq (.lit '.') (.lit 'c')))

/-- PATHNAME|FORCEUNIX|EXTGLOB|MATCHBASE (+ DOTGLOB, + GLOBSTAR) -/
def cfgM (dot gs : Bool) : Cfg :=
  Cfg.ofFlags false (Flags.ofNat (PathTidy.flagWord dot true gs + Gen.FMATCHBASE))

theorem pathXM_cfgM (dot gs : Bool) : PathXM (cfgM dot gs) := by
  cases dot <;> cases gs <;> exact
    { base := { pathname := by decide, unix := by decide, bslash := by decide, wdd := by decide,
                anchor := by decide, matchbase := by decide, extmatchbase := by decide, noAbs := by decide,
                extend := by decide, realpath := by decide, nodotdir := by decide, isBytes := by decide }
      mb := by decide
      long_gs := by decide }

/-- the hypotheses of `pass_print_path_neg`, `pass_print_matchbase`, `pass_print_path_matchbase_sep` hold
    on non-trivial inputs: a path pattern with a globstar and two `!(…)` segments (one of them with a
    literal tail), which has separators; a slash-less segment pattern with a `!(…)` whose body has a
    nested group and a written `.` at a start position (so `match_dot_dir` matters under DOTGLOB);
    the printed forms; and the sampled agreement tests say what the theorems say -/
theorem nonvacuous_neg :
    String.ofList (printPath exN) = "/a/**/!(*.d)/x!(y|z).o" ∧ String.ofList (print exG) = "x!(a|?(.)b).c" ∧
    (pathOKN exN && hasSep exN && !pathOK exN) = true ∧
    (segOKN (.pat exG) && !hasSep ⟨false, [.pat exG], false⟩) = true ∧
    ([false, true].all fun dot => tidyPathAgrees dot true true (printPath exN) == some true) = true ∧
    ([false, true].all fun dot =>
      ((match parseItems (cfgM dot false) (fun _ => default) (print exG) with
        | .ok parsed => parsed.toRe.map PathTidy.canon
        | .error _ => none) ==
       some (PathTidy.canon (wrapRe false (compPathMB dot [.pat exG]))))) = true := by decide +kernel

example (dot gs : Bool) : PathX (cfgP dot gs) := pathX_cfgP dot gs
example (dot gs : Bool) : PathXM (cfgM dot gs) := pathXM_cfgM dot gs

end PPN
end WcModel

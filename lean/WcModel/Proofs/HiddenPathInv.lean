import WcModel.Proofs.HiddenPathSeg
import WcModel.Proofs.ParseLift
/-
  Hidden pieces at ANY position, path mode: the parser half.

  Part 1  inside groups: the body of every group the pass builds is `SF` (every item consumes no
          separator; a `/` written inside a group sits behind `(?![/])` and is dead) — by induction
          on the fuel of the mutual recursion `parseExtend` / `extLoop` (`deep`).
  Part 2  at top level: the invariant `TInv` of the `root` loop — the stack, read forwards, is
          `TopOK`; at a segment start its top is a separator (or the initial stack) — and
          `parseItems_topOK`.
-/
namespace WcModel
namespace HP
open HF (DotRefusing NoBar isBar Rel)

/-! ## Part 1: inside groups -/

theorem guard_restrict (cfg : Cfg) (h : PathUnix cfg) (ps : PS) : SlashGuard (restrictSequence cfg ps).1 := by
  unfold restrictSequence
  simp only [h.pathname, if_true, h.win]
  cases ps.afterStart <;> cases cfg.dot <;> simp <;>
    first
      | exact guard_seqPath
      | exact guard_noDir_cat guard_seqPathDot
      | exact guard_noDir_cat guard_seqPath

theorem noSlash_restricted (cfg : Cfg) (h : PathUnix cfg) (ps : PS) {y : Re} (hy : OneChar y) :
    NoSlash (catE (restrictSequence cfg ps).1 y) := by
  unfold catE
  rw [if_neg (slashGuard_ne_eps (guard_restrict cfg h ps))]
  exact .guarded (guard_restrict cfg h ps) hy

/-- `sequence` in path mode: a class behind the guard -/
theorem sequence_path (cfg : Cfg) (h : PathUnix cfg) (ps : PS) (it : It) (r : Re) (ps' : PS) (it' : It)
    (hs : sequence cfg ps it = some (r, ps', it')) : NoSlash r ∧ ps' = ps.resetDirTrack := by
  obtain ⟨cls, hc⟩ := HF.sequence_shape cfg ps it r ps' it' hs
  simp only [h.pathname, Bool.true_or, if_true] at hc
  injection hc with h1 h2
  refine ⟨?_, h2⟩
  obtain ⟨neg, items, hq⟩ := WcModel.sequence_shape cfg ps it r ps' it' hs
  have hne := slashGuard_ne_eps (guard_restrict cfg h ps)
  rcases hq with hq | hq
  · exfalso
    rw [hq] at h1
    unfold catE at h1
    rw [if_neg hne] at h1
    cases h1
  · rw [hq]; exact noSlash_restricted cfg h ps (oneChar_cls neg items)

theorem noSlash_handleDot (cfg : Cfg) (h : PathUnix cfg) (ps : PS) (it : It) : NoSlash (handleDot cfg ps it) := by
  unfold handleDot
  simp only [h.win]
  generalize (if (ps.afterStart && cfg.pathname && cfg.nodotdir) = true then
    dotScan cfg ps.inList (it.rest.length + 1) it true false else (true, false)) = pr
  obtain ⟨c, p⟩ := pr
  simp only []
  split
  · exact .guardedDot
  · exact .lit (by decide)

theorem noSlash_hsStar (cfg : Cfg) (h : PathUnix cfg) (ps : PS) : NoSlash (hsStar cfg ps).1 := by
  unfold hsStar
  simp only [h.pathname, h.win, if_true]
  cases ps.afterStart <;> cases cfg.dot <;> simp <;>
    first | exact .pathStar | exact .pathStarDot2 | exact .pathStarDot1

/-- a `*` that cannot be a globstar (inside a group, or not at a segment start) -/
theorem handleStar_plain (cfg : Cfg) (h : PathUnix cfg) (ps : PS) (it : It) (cur : List Item)
    (hn : ps.inList = true ∨ ps.afterStart = false) :
    ∃ v it', NoSlash v ∧ handleStar cfg ps it cur = (ps.resetDirTrack, it', .re v :: cur) := by
  rw [handleStar_eq]
  have hsel : hsSel cfg ps it (cfg.pathname && cfg.globstarCapture) =
      (false, cfg.pathname && cfg.globstarCapture, it, ps) := by
    unfold hsSel
    have : (ps.afterStart && ps.globstar && !ps.inList) = false := by
      rcases hn with hn | hn <;> simp [hn]
    rw [this]; rfl
  rw [hsel]
  unfold hsBody
  simp only [Bool.not_false, if_true]
  have hs := noSlash_hsStar cfg h ps
  cases ps.afterStart
  · exact ⟨_, _, hs, rfl⟩
  · simp only [if_true, h.needChar]
    exact ⟨_, _, .needCharPath_cat hs, rfl⟩

theorem noSlash_invStar (cfg : Cfg) (h : PathUnix cfg) (t : Bool) (ps : PS) : NoSlash (HF.invStar cfg t ps) := by
  unfold HF.invStar
  simp only [h.pathname, h.win, if_true, h.needChar]
  cases t <;> cases ps.matchDotDir <;> cases cfg.dot <;> simp <;>
    first | exact .pathStar | exact .needCharPath_cat .pathStar | exact .needCharPath_cat .pathStarDot2
          | exact .needCharPath_cat .pathStarDot1

/-- what a closed group pushes on `cur` -/
def Pushed (cur mid : List Item) : Prop :=
  (∃ k c body, mid = .group k c body :: cur ∧ SF body) ∨
  (∃ star cap body, mid = .ph star :: .invOpen cap body :: cur ∧ NoSlash star)

theorem peBuild_pushed (cfg : Cfg) (h : PathUnix cfg) (lt : Char) (t : PS) (body cur : List Item) (ps : PS)
    (hb : SF body) :
    Pushed cur (HF.peBuild cfg lt t body cur ps).1 ∧ (HF.peBuild cfg lt t body cur ps).2.inList = ps.inList := by
  unfold HF.peBuild
  split
  · exact ⟨Or.inl ⟨_, _, _, rfl, hb⟩, rfl⟩
  split
  · exact ⟨Or.inl ⟨_, _, _, rfl, hb⟩, rfl⟩
  split
  · exact ⟨Or.inl ⟨_, _, _, rfl, hb⟩, rfl⟩
  split
  · exact ⟨Or.inl ⟨_, _, _, rfl, hb⟩, rfl⟩
  · exact ⟨Or.inr ⟨_, _, _, rfl, noSlash_invStar cfg h _ _⟩, rfl⟩

theorem Pushed.sf {cur mid : List Item} (h : Pushed cur mid) (hc : SF cur.reverse) : SF mid.reverse := by
  rcases h with ⟨k, c, body, rfl, hb⟩ | ⟨star, cap, body, rfl, hs⟩
  · rw [List.reverse_cons]
    exact hc.append (.group hb.body .nil)
  · rw [List.reverse_cons, List.reverse_cons, List.append_assoc]
    exact hc.append (.invph hs .nil)

theorem peFinish_inList' (t : PS) (s : Bool) (ps : PS) (h : ps.inList = true) :
    (HF.peFinish t s ps).inList = t.inList := by
  unfold HF.peFinish
  cases ht : t.inList <;> cases t.invNest <;> cases s <;> simp [PS.resetDirTrack, h]

def ELPost (r : Except PS (PS × It × List Item)) : Prop :=
  match r with
  | .error ps' => ps'.inList = true
  | .ok r => r.1.inList = true ∧ SF r.2.2.reverse

/-- the postcondition of `parse_extend`: the group was pushed (and, nested, the inverse groups of
    the enclosing body were possibly closed) -/
def PEPost' (ps : PS) (cur : List Item) (r : Bool × PS × It × List Item) : Prop :=
  r.2.1.inList = ps.inList ∧ (r.1 = false → r.2.2.2 = cur) ∧
  (r.1 = true → ∃ mid, Pushed cur mid ∧ (ps.inList = false → r.2.2.2 = mid) ∧
      Rel mid.reverse r.2.2.2.reverse)

theorem references_inList' (cfg : Cfg) (h : PathUnix cfg) (ps : PS) (hl : ps.inList = true) (it : It)
    (v : Re) (it' : It) (ps' : PS) (hr : references cfg ps it = .val v it' ps') : NoSlash v ∧ ps' = ps := by
  unfold references at hr
  split at hr
  · cases hr
  · rename_i c it1 _
    simp only [h.bslash, h.unix, h.pathname, h.win, hl, Bool.false_eq_true, if_false, Bool.not_true,
      if_true, restrictExtendedSlash] at hr
    split at hr
    · injection hr with h1 _ h3; subst h1; exact ⟨.lit (by decide), h3.symm⟩
    · split at hr
      · injection hr with h1 _ h3; subst h1; exact ⟨.dead0 guard_seqPath, h3.symm⟩
      · split at hr
        · cases hr
        · rename_i hc _
          injection hr with h1 _ h3; subst h1; exact ⟨.lit hc, h3.symm⟩

/-- one character of a group body that is not (the start of) a nested group that parses -/
theorem extPlain_sf (cfg : Cfg) (h : PathUnix cfg) (c : Char) (it : It) (ps : PS) (ext : List Item) (a n : Bool)
    (hl : ps.inList = true) (hs : SF ext.reverse) :
    (HF.extPlain cfg c it ps ext a n).1.inList = true ∧ SF (HF.extPlain cfg c it ps ext a n).2.2.1.reverse := by
  have push : ∀ x : Re, NoSlash x → SF (Item.re x :: ext).reverse := by
    intro x hx; rw [List.reverse_cons]; exact hs.append (.re hx .nil)
  unfold HF.extPlain
  split
  · obtain ⟨v, it', hv, he⟩ := handleStar_plain cfg h ps it ext (Or.inl hl)
    rw [he]
    exact ⟨hl, push v hv⟩
  split
  · refine ⟨?_, push _ (noSlash_handleDot cfg h ps it)⟩
    simp only []; split <;> simp [PS.resetDirTrack, hl]
  split
  · rw [HF.qmarkItem_eq]
    exact ⟨hl, push _ (noSlash_restricted cfg h ps oneChar_any)⟩
  split
  · refine ⟨hl, ?_⟩
    simp only [restrictExtendedSlash, h.pathname, if_true, h.win]
    rw [List.reverse_cons, List.reverse_cons, List.append_assoc]
    exact hs.append (.dead guard_seqPath .nil)
  split
  · simp only []
    have hrel : Rel ext.reverse (if ps.invNest = true then cleanUpInverse cfg ps ext n else (ext, ps)).1.reverse := by
      split
      · exact HF.cleanUpInverse_rel cfg ps ext n
      · exact Rel.refl _
    have hin : (if ps.invNest = true then cleanUpInverse cfg ps ext n else (ext, ps)).2.inList = true := by
      split
      · rw [cleanUpInverse_inList]; exact hl
      · exact hl
    refine ⟨?_, ?_⟩
    · split <;> simp [PS.setStartDir, hin]
    · rw [List.reverse_cons]
      exact (hs.rel hrel).append (.bar .nil)
  split
  · split
    · rename_i v it' ps' hr
      obtain ⟨hv, rfl⟩ := references_inList' cfg h ps hl it v it' ps' hr
      exact ⟨hl, push v hv⟩
    · exact ⟨hl, hs⟩
    · exact ⟨hl, hs⟩
  split
  · split
    · rename_i r ps' it' hq
      obtain ⟨hr, rfl⟩ := sequence_path cfg h ps it r ps' it' hq
      exact ⟨hl, push r hr⟩
    · exact ⟨hl, push _ (.lit (by decide))⟩
  split
  · rename_i h4 _ _ _ _
    exact ⟨hl, push _ (.lit h4)⟩
  · exact ⟨hl, hs⟩

/-- **inside groups**: `parse_extend` pushes a group whose body is `SF`; the loop over a body keeps
    the list `SF` -/
theorem deep (cfg : Cfg) (h : PathUnix cfg) : ∀ fuel,
    (∀ c it ps cur rd, PEPost' ps cur (parseExtend cfg fuel c it ps cur rd)) ∧
    (∀ it ps ext a n, ps.inList = true → SF ext.reverse → ELPost (extLoop cfg fuel it ps ext a n)) := by
  intro fuel
  induction fuel with
  | zero =>
    refine ⟨?_, ?_⟩
    · intro c it ps cur rd
      rw [show parseExtend cfg 0 c it ps cur rd = (false, ps, it, cur) by simp [parseExtend]]
      exact ⟨rfl, fun _ => rfl, fun hc => by cases hc⟩
    · intro it ps ext a n hl _
      rw [show extLoop cfg 0 it ps ext a n = .error ps by simp [extLoop]]
      exact hl
  | succ fuel ih =>
    refine ⟨?_, ?_⟩
    · intro c it ps cur rd
      rw [HF.parseExtend_eq]
      have hent : (HF.peEnter ps c rd).inList = true := by
        unfold HF.peEnter; simp only []; split <;> rfl
      have hfail : ∀ ps' : PS, ps'.inList = true → PEPost' ps cur (false, HF.peFail ps ps', it, cur) := by
        intro ps' hp
        refine ⟨?_, fun _ => rfl, fun hc => by cases hc⟩
        exact peFinish_inList' ps false _ hp
      split
      · exact hfail _ hent
      · split
        · exact hfail _ hent
        · rename_i c1 it1 _ _
          have hel := ih.2 it1 (HF.peEnter ps c rd) [] ps.afterStart ps.invNest hent .nil
          split
          · rename_i ps' he; rw [he] at hel; exact hfail ps' hel
          · rename_i ps2 it2 extended he
            rw [he] at hel
            obtain ⟨hl2, hsf⟩ := hel
            simp only at hl2 hsf
            obtain ⟨hp, hpin⟩ := peBuild_pushed cfg h c ps extended.reverse cur ps2 hsf
            simp only []
            refine ⟨?_, fun hc => (by cases hc), fun _ => ⟨_, hp, ?_, ?_⟩⟩
            · apply peFinish_inList'
              split
              · rw [cleanUpInverse_inList, hpin]; exact hl2
              · rw [hpin]; exact hl2
            · intro hli
              simp only [hli, Bool.false_eq_true, if_false]
            · split
              · exact HF.cleanUpInverse_rel cfg _ _ _
              · exact Rel.refl _
    · intro it ps ext a n hl hs
      rw [HF.extLoop_eq]
      split
      · exact hl
      · rename_i c it1 _
        have htok : (HF.extTok cfg fuel c it1 ps ext a n).1.inList = true ∧
            SF (HF.extTok cfg fuel c it1 ps ext a n).2.2.1.reverse := by
          unfold HF.extTok
          split
          · obtain ⟨p1, p2, p3⟩ := ih.1 c it1 ps ext false
            simp only []
            split
            · rename_i hok
              obtain ⟨mid, hm, _, hrel⟩ := p3 hok
              exact ⟨by rw [p1]; exact hl, (hm.sf hs).rel hrel⟩
            · rename_i hno
              have hno' : (parseExtend cfg fuel c it1 ps ext false).1 = false := by simpa using hno
              exact extPlain_sf cfg h c it1 _ ext a n (by rw [p1]; exact hl) hs
          · exact extPlain_sf cfg h c it1 ps ext a n hl hs
        unfold HF.extCont
        simp only []
        have hps : (if (HF.extTok cfg fuel c it1 ps ext a n).2.2.2 = true then
            (HF.extTok cfg fuel c it1 ps ext a n).1.updateDirState
            else (HF.extTok cfg fuel c it1 ps ext a n).1).inList = true := by
          split
          · simpa using htok.1
          · exact htok.1
        split
        · exact ⟨hps, htok.2⟩
        · exact ih.2 _ _ _ _ _ hps htok.2


/-! ## Part 2: the top-level loop -/

/-- a stack that holds only `''` and `_NO_ROOT` (the initial stack) -/
def Transp (l : List Item) : Prop := ∀ y ∈ l, y = .empty ∨ y = .re Frag.noRoot

theorem Transp.topOK {gs : Re → Bool} {l : List Item} (h : Transp l) {st : Bool} {m : List Item} (hm : TopOK gs st m) :
    TopOK gs st (l ++ m) := by
  induction l with
  | nil => exact hm
  | cons y l ih =>
    have ih' := ih (fun z hz => h z (List.mem_cons_of_mem _ hz))
    rcases h y List.mem_cons_self with rfl | rfl
    · exact .empty ih'
    · exact .transp ih'

theorem Transp.reverse {l : List Item} (h : Transp l) : Transp l.reverse :=
  fun y hy => h y (List.mem_reverse.mp hy)

/-- at a segment start the top of the stack is a separator (under which the stack is well formed),
    or the stack is still the initial one -/
def SepHead (gs : Re → Bool) (cur : List Item) : Prop :=
  Transp cur ∨ (∃ before, cur = .re (Frag.sepPlus false) :: before ∧ TopOK gs true before.reverse) ∨
    (∃ before, cur = .re (Frag.globstarDiv false) :: before)

/-- the invariant of the `root` loop in path mode -/
structure TInv (gs : Re → Bool) (ps : PS) (cur : List Item) : Prop where
  inList : ps.inList = false
  dirStart : ps.dirStart = false
  ok : TopOK gs true cur.reverse
  head : ps.afterStart = true → SepHead gs cur

theorem upd_mid (ps : PS) (h : ps.dirStart = false) :
    ps.updateDirState.dirStart = false ∧ ps.updateDirState.afterStart = false := by
  obtain ⟨a, d, _, _, _, _, _, _, _⟩ := ps
  simp only at h; subst h
  cases a <;> simp [PS.updateDirState, PS.resetDirTrack]

theorem upd_start (ps : PS) (h1 : ps.dirStart = true) (h2 : ps.afterStart = false) :
    ps.updateDirState.dirStart = false ∧ ps.updateDirState.afterStart = true := by
  obtain ⟨a, d, _, _, _, _, _, _, _⟩ := ps
  simp only at h1 h2; subst h1; subst h2
  simp [PS.updateDirState, PS.setAfterStart]

/-- pushing an item that consumes no separator, in the middle of a segment -/
theorem TInv.push {gs : Re → Bool} {ps : PS} {cur : List Item} (h : TInv gs ps cur) (ps' : PS) (x : Re) (hx : NoSlash x)
    (h1 : ps'.inList = false) (h2 : ps'.dirStart = false) :
    TInv gs ps'.updateDirState (.re x :: cur) := by
  obtain ⟨u1, u2⟩ := upd_mid ps' h2
  refine ⟨by simpa using h1, u1, ?_, fun ha => by rw [u2] at ha; cases ha⟩
  rw [List.reverse_cons]
  exact h.ok.append (.re hx .nil)

theorem cleanUpInverse_flags (cfg : Cfg) (ps : PS) (cur : List Item) (n : Bool) :
    (cleanUpInverse cfg ps cur n).2.dirStart = ps.dirStart ∧
    (cleanUpInverse cfg ps cur n).2.afterStart = ps.afterStart := by
  unfold cleanUpInverse; split <;> exact ⟨rfl, rfl⟩

/-- pushing `[/]+` after closing the inverse groups of the segment that ends -/
theorem TInv.pushSep {gs : Re → Bool} {ps : PS} {cur : List Item} (h : TInv gs ps cur) (cfg : Cfg) (ps0 : PS)
    (h0 : ps0.inList = false) (h1 : ps0.dirStart = true) (h2 : ps0.afterStart = false) :
    TInv gs ({ (cleanUpInverse cfg ps0 cur false).2 with matchbase := false } : PS).updateDirState
      (.re (Frag.sepPlus false) :: (cleanUpInverse cfg ps0 cur false).1) := by
  have hrel := HF.cleanUpInverse_rel cfg ps0 cur false
  obtain ⟨f1, f2⟩ := cleanUpInverse_flags cfg ps0 cur false
  have hin := cleanUpInverse_inList cfg ps0 cur false
  obtain ⟨u1, u2⟩ := upd_start ({ (cleanUpInverse cfg ps0 cur false).2 with matchbase := false } : PS)
    (by simp [f1, h1]) (by simp [f2, h2])
  have hok : TopOK gs true (cleanUpInverse cfg ps0 cur false).1.reverse := h.ok.rel hrel
  refine ⟨by simp [hin, h0], u1, ?_, fun _ => Or.inr (Or.inl ⟨_, rfl, hok⟩)⟩
  rw [List.reverse_cons]
  exact hok.append (.sep (Or.inl rfl) .nil)

/-- the globstar fragment of the mode: `_PATH_GSTAR_NO_DOTMATCH` without DOTGLOB,
    `_PATH_GSTAR_DOTMATCH` with it (each possibly as a capture under REALPATH) -/
def gsFor (dot : Bool) (r : Re) : Bool :=
  if dot then r == Frag.pathGstarDot1 false || r == .gcap (Frag.pathGstarDot1 false) else isGstarRe r

theorem hsStar_gstar (cfg : Cfg) (h : PathUnix cfg) (ps : PS) (ha : ps.afterStart = true) (cap : Bool) :
    gsFor cfg.dot (if cap = true then Re.gcap (hsStar cfg ps).2 else (hsStar cfg ps).2) = true := by
  unfold hsStar gsFor
  simp only [h.pathname, h.win, ha, if_true, Bool.true_and]
  cases cfg.dot <;> cases cap <;> decide

theorem hsSel_flags (cfg : Cfg) (ps : PS) (it : It) (c0 : Bool) :
    (hsSel cfg ps it c0).2.2.2.inList = ps.inList ∧
    (hsSel cfg ps it c0).2.2.2.afterStart = ps.afterStart ∧
    (hsSel cfg ps it c0).2.2.2.dirStart = ps.dirStart := by
  unfold hsSel
  repeat' split
  all_goals exact ⟨rfl, rfl, rfl⟩

/-- `_handle_star` at top level -/
theorem handleStar_tinv (cfg : Cfg) (h : PathUnix cfg) (ps : PS) (it : It) (cur : List Item)
    (hi : TInv (gsFor cfg.dot) ps cur) :
    TInv (gsFor cfg.dot) (handleStar cfg ps it cur).1.updateDirState (handleStar cfg ps it cur).2.2 := by
  rw [handleStar_eq]
  have hst := noSlash_hsStar cfg h ps
  have hgs := hsStar_gstar cfg h ps
  generalize (hsStar cfg ps).1 = star at hst
  generalize (hsStar cfg ps).2 = globstar at hgs
  have hfl := hsSel_flags cfg ps it (cfg.pathname && cfg.globstarCapture)
  have hg := hsSel_glob cfg ps it (cfg.pathname && cfg.globstarCapture)
  generalize hsSel cfg ps it (cfg.pathname && cfg.globstarCapture) = t at hfl hg
  obtain ⟨isGlob, capture, it', ps'⟩ := t
  obtain ⟨f1, f2, f3⟩ := hfl
  simp only at f1 f2 f3 hg
  unfold hsBody
  simp only [h.win]
  split
  · -- not a globstar
    have hv : NoSlash (if ps'.afterStart = true then
        (Re.cat cfg.needChar star, dropStars cfg.extend it') else (star, it')).1 := by
      split
      · rw [h.needChar]; exact .needCharPath_cat hst
      · exact hst
    exact hi.push ps'.resetDirTrack _ hv (by simp [f1, hi.inList]) rfl
  · rename_i hglob
    simp only [Bool.not_eq_eq_eq_not, Bool.not_true, Bool.not_eq_false] at hglob
    obtain ⟨ha, _⟩ := hg hglob
    have hsh := hi.head ha
    have hgs' := hgs ha capture
    have hin : ps'.resetDirTrack.setStartDir.inList = false := by simp [PS.setStartDir, f1, hi.inList]
    obtain ⟨u1, u2⟩ := upd_start ps'.resetDirTrack.setStartDir rfl rfl
    split
    · rename_i last before
      split
      · -- the previous item is a globstar divider already
        exact ⟨by simpa using hin, u1, hi.ok, fun _ => hsh⟩
      · rename_i hnd
        simp only []
        refine ⟨by simpa using hin, u1, ?_, fun _ => Or.inr (Or.inr ⟨_, rfl⟩)⟩
        split
        · rename_i he
          have : last = .empty := by cases last <;> simp [Item.isEmpty] at he ⊢
          subst this
          have htr : Transp before := by
            rcases hsh with ht | ⟨b', hb, _⟩ | ⟨b', hb⟩
            · exact fun y hy => ht y (List.mem_cons_of_mem _ hy)
            · cases hb
            · cases hb
          rw [List.reverse_cons, List.reverse_cons, List.append_assoc]
          exact htr.reverse.topOK (.gstarStart hgs' .nil)
        · rename_i hne
          have hb : TopOK (gsFor cfg.dot) true before.reverse := by
            rcases hsh with ht | ⟨b', hb, hok⟩ | ⟨b', hb⟩
            · have := Transp.topOK (Transp.reverse (fun y hy => ht y (List.mem_cons_of_mem _ hy)))
                (TopOK.nil (gs := gsFor cfg.dot) (st := true))
              simpa using this
            · injection hb with _ hb; rw [hb]; exact hok
            · exfalso
              injection hb with hb _
              rw [hb] at hnd
              simp [Item.isDiv] at hnd
          rw [List.reverse_cons, List.reverse_cons, List.reverse_cons, List.append_assoc, List.append_assoc]
          exact hb.append (.gstarSep hgs' .nil)
    · exact ⟨by simpa using hin, u1, hi.ok, fun _ => hsh⟩


/-- an escape outside brackets at top level, path mode -/
theorem references_top (cfg : Cfg) (h : PathUnix cfg) (ps : PS) (hl : ps.inList = false) (it : It)
    (v : Re) (it' : It) (ps' : PS) (hr : references cfg ps it = .val v it' ps') :
    (NoSlash v ∧ ps' = ps) ∨ (v = Frag.sepPlus false ∧ ps' = ps.setStartDir) := by
  unfold references at hr
  split at hr
  · cases hr
  · rename_i c it1 _
    simp only [h.bslash, h.unix, h.pathname, h.win, hl, Bool.false_eq_true, if_false, Bool.not_true,
      if_true, Bool.not_false] at hr
    split at hr
    · injection hr with h1 _ h3; subst h1; exact Or.inl ⟨.lit (by decide), h3.symm⟩
    · split at hr
      · injection hr with h1 _ h3; exact Or.inr ⟨h1.symm, h3.symm⟩
      · split at hr
        · cases hr
        · rename_i hc _
          injection hr with h1 _ h3; subst h1; exact Or.inl ⟨.lit hc, h3.symm⟩

/-- one top-level character that is not (the start of) a group that parses -/
theorem rootPlain_tinv (cfg : Cfg) (h : PathUnix cfg) (c : Char) (it : It) (ps : PS) (cur : List Item)
    (hi : TInv (gsFor cfg.dot) ps cur) :
    TInv (gsFor cfg.dot) (HF.rootPlain cfg c it ps cur).2.1 (HF.rootPlain cfg c it ps cur).2.2 := by
  unfold HF.rootPlain
  split
  · exact hi.push ps _ (noSlash_handleDot cfg h ps it) hi.inList hi.dirStart
  split
  · exact handleStar_tinv cfg h ps it cur hi
  split
  · rw [HF.qmarkItem_eq]
    exact hi.push ps.resetDirTrack _ (noSlash_restricted cfg h ps oneChar_any) hi.inList rfl
  split
  · simp only [h.pathname, if_true, h.win]
    exact hi.pushSep cfg ps.setStartDir hi.inList rfl rfl
  split
  · split
    · rename_i v it' ps' hr
      rcases references_top cfg h ps hi.inList it v it' ps' hr with ⟨hv, rfl⟩ | ⟨rfl, rfl⟩
      · simp only [hi.dirStart, Bool.false_eq_true, if_false]
        exact hi.push ps' _ hv hi.inList hi.dirStart
      · simp only [PS.setStartDir, if_true]
        exact hi.pushSep cfg ps.setStartDir hi.inList rfl rfl
    · exact hi
    · obtain ⟨u1, u2⟩ := upd_mid ps hi.dirStart
      exact ⟨by simpa using hi.inList, u1, hi.ok, fun ha => by rw [u2] at ha; cases ha⟩
  split
  · split
    · rename_i r ps' it' hq
      obtain ⟨hr, rfl⟩ := sequence_path cfg h ps it r ps' it' hq
      exact hi.push ps.resetDirTrack _ hr hi.inList rfl
    · exact hi.push ps _ (.lit (by decide)) hi.inList hi.dirStart
  · rename_i h4 _ _
    exact hi.push ps _ (.lit h4) hi.inList hi.dirStart

theorem peFinish_ok_flags (t ps : PS) :
    (HF.peFinish t true ps).dirStart = false ∧ (HF.peFinish t true ps).afterStart = false :=
  ⟨HF.peFinish_ok_dirStart t ps, HF.peFinish_ok_afterStart t ps⟩

/-- one top-level token -/
theorem rootTok_tinv (cfg : Cfg) (h : PathUnix cfg) (c : Char) (it : It) (ps : PS) (cur : List Item)
    (hi : TInv (gsFor cfg.dot) ps cur) :
    TInv (gsFor cfg.dot) (HF.rootTok cfg c it ps cur).2.1 (HF.rootTok cfg c it ps cur).2.2 := by
  unfold HF.rootTok
  split
  · obtain ⟨p1, p2, p3⟩ := (deep cfg h (2 * it.rest.length + 8)).1 c it ps cur true
    obtain ⟨q1, q2, _⟩ := parseExtend_top' cfg (2 * it.rest.length + 7) c it ps cur true hi.inList
    simp only []
    split
    · rename_i hok
      obtain ⟨mid, hm, he, _⟩ := p3 hok
      rw [he hi.inList]
      -- the state after a group that parsed: `reset_dir_tracking`
      have hfl : (parseExtend cfg (2 * it.rest.length + 8) c it ps cur true).2.1.dirStart = false ∧
          (parseExtend cfg (2 * it.rest.length + 8) c it ps cur true).2.1.afterStart = false := by
        have e := HF.parseExtend_eq cfg (2 * it.rest.length + 7) c it ps cur true
        have hok' : (parseExtend cfg (2 * it.rest.length + 7 + 1) c it ps cur true).1 = true := hok
        rw [e] at hok' ⊢
        split at hok'
        · cases hok'
        · split at hok'
          · cases hok'
          · rename_i hc
            rw [if_neg hc]
            split at hok'
            · cases hok'
            · rename_i heq
              exact peFinish_ok_flags _ _
      obtain ⟨u1, u2⟩ := upd_mid _ hfl.1
      refine ⟨by simpa using q1, u1, ?_, fun ha => by rw [u2] at ha; cases ha⟩
      rcases hm with ⟨k, cc, body, rfl, hb⟩ | ⟨star, cap, body, rfl, hs⟩
      · rw [List.reverse_cons]
        exact hi.ok.append (.group hb.body .nil)
      · rw [List.reverse_cons, List.reverse_cons, List.append_assoc]
        exact hi.ok.append (.invph hs .nil)
    · rename_i hno
      have hno' : (parseExtend cfg (2 * it.rest.length + 7 + 1) c it ps cur true).1 = false := by
        simpa using hno
      obtain ⟨_, e2, e3, _⟩ := q2 hno'
      apply rootPlain_tinv cfg h
      exact ⟨q1, by rw [e3]; exact hi.dirStart, hi.ok, fun ha => hi.head (by rw [← e2]; exact ha)⟩
  · exact rootPlain_tinv cfg h c it ps cur hi

/-- **the invariant of the `root` loop** -/
theorem rootLoop_tinv (cfg : Cfg) (h : PathUnix cfg) :
    ∀ (fuel : Nat) (it : It) (ps : PS) (cur : List Item), TInv (gsFor cfg.dot) ps cur →
      TInv (gsFor cfg.dot) (rootLoop cfg fuel it ps cur).1 (rootLoop cfg fuel it ps cur).2 := by
  intro fuel
  induction fuel with
  | zero => intro it ps cur hi; rw [rootLoop]; exact hi
  | succ fuel ih =>
    intro it ps cur hi
    rw [HF.rootLoop_eq]
    split
    · exact hi
    · rename_i c it1 _
      exact ih _ _ _ (rootTok_tinv cfg h c it1 ps cur hi)

end HP
end WcModel

import WcModel.Proofs.WinUnixSem
import WcModel.Proofs.ParseLift
/-
  C17, syntactic half (1): `Re.ms` on items, on the fragments, through `Parsed.toRe`; and the
  side condition `Re.sepOK` lifted through the pass (path mode: every pattern).
-/
set_option linter.unusedSimpArgs false
namespace WcModel

/-! ### `Re.ms`: equations -/

@[simp] theorem Re.ms_eps : Re.ms .eps = .eps := rfl
@[simp] theorem Re.ms_any : Re.ms .any = .any := rfl
@[simp] theorem Re.ms_bos : Re.ms .bos = .bos := rfl
@[simp] theorem Re.ms_eos : Re.ms .eos = .eos := rfl
@[simp] theorem Re.ms_cat (a b : Re) : (Re.cat a b).ms = .cat a.ms b.ms := rfl
@[simp] theorem Re.ms_alt (a b : Re) : (Re.alt a b).ms = .alt a.ms b.ms := rfl
@[simp] theorem Re.ms_grp (a : Re) : (Re.grp a).ms = .grp a.ms := rfl
@[simp] theorem Re.ms_cap (a : Re) : (Re.cap a).ms = .cap a.ms := rfl
@[simp] theorem Re.ms_gcap (a : Re) : (Re.gcap a).ms = .gcap a.ms := rfl
@[simp] theorem Re.ms_opt (a : Re) : (Re.opt a).ms = .opt a.ms := rfl
@[simp] theorem Re.ms_star (l : Bool) (a : Re) : (Re.star l a).ms = .star l a.ms := rfl
@[simp] theorem Re.ms_plus (a : Re) : (Re.plus a).ms = .plus a.ms := rfl
@[simp] theorem Re.ms_rep (lo hi : Nat) (a : Re) : (Re.rep lo hi a).ms = .rep lo hi a.ms := rfl
@[simp] theorem Re.ms_look (n : Bool) (a : Re) : (Re.look n a).ms = .look n a.ms := rfl
@[simp] theorem Re.ms_flags (s i : Bool) (a : Re) : (Re.flags s i a).ms = .flags s i a.ms := rfl
@[simp] theorem Re.ms_cls (n : Bool) (its : List ClsItem) : (Re.cls n its).ms = .cls n (mapCls its) := rfl

theorem Re.ms_lit_of {c : Char} (h1 : c ≠ '/') (h2 : c ≠ '\\') : (Re.lit c).ms = .lit c := by
  simp [Re.ms, h1, h2]

@[simp] theorem Re.ms_lit_dot : (Re.lit '.').ms = .lit '.' := by decide
@[simp] theorem Re.ms_lit_lbr : (Re.lit '[').ms = .lit '[' := by decide

@[simp] theorem Re.ms_eq_eps (r : Re) : (r.ms = .eps) = (r = .eps) := by
  apply propext
  cases r <;> simp [Re.ms]
  next c => split <;> (try split) <;> simp

theorem mapCls_nil : mapCls [] = [] := rfl
theorem mapCls_cons (x : ClsItem) (r : List ClsItem) :
    mapCls (x :: r) = (if x = slashItem then [bslashItem, slashItem] else [x]) ++ mapCls r := by
  simp [mapCls]

theorem mapCls_length_ge (its : List ClsItem) : its.length ≤ (mapCls its).length := by
  induction its with
  | nil => simp [mapCls_nil]
  | cons x r ih =>
    rw [mapCls_cons]
    split <;> simp <;> omega

/-- `mapCls` is the identity exactly on the classes that do not name `/` -/
theorem mapCls_of_noSlash {its : List ClsItem} (h : slashItem ∉ its) : mapCls its = its := by
  induction its with
  | nil => rfl
  | cons x r ih =>
    rw [mapCls_cons]
    have hx : x ≠ slashItem := fun e => h (by simp [e])
    have hr : slashItem ∉ r := fun e => h (by simp [e])
    simp [hx, ih hr]

theorem mapCls_eq_sep (its : List ClsItem) :
    mapCls its = [bslashItem, slashItem] ↔ its = [slashItem] := by
  constructor
  · intro h
    cases its with
    | nil => simp [mapCls_nil] at h
    | cons x r =>
      rw [mapCls_cons] at h
      by_cases hx : x = slashItem
      · subst hx
        simp only [ite_true, List.cons_append, List.nil_append, List.cons.injEq, true_and] at h
        cases r with
        | nil => rfl
        | cons y r2 =>
          have := mapCls_length_ge (y :: r2)
          rw [h] at this
          simp at this
      · simp only [hx, ite_false, List.cons_append, List.nil_append, List.cons.injEq] at h
        obtain ⟨rfl, h2⟩ := h
        cases r with
        | nil => simp [mapCls_nil] at h2
        | cons y r2 =>
          rw [mapCls_cons] at h2
          by_cases hy : y = slashItem
          · subst hy; simp at h2
          · simp only [hy, ite_false, List.cons_append, List.nil_append, List.cons.injEq] at h2
            first | exact absurd h2.1 hy | exact h2.1.elim
  · rintro rfl; rfl

theorem Re.ms_lit_cases (c : Char) :
    (Re.lit c).ms = .grp (Frag.sep true) ∨ (Re.lit c).ms = .cls false [] ∨ (Re.lit c).ms = .lit c := by
  unfold Re.ms
  split
  · exact .inl rfl
  · split
    · exact .inr (.inl rfl)
    · exact .inr (.inr rfl)

theorem Re.ms_eq_plus {r x : Re} (h : r.ms = .plus x) : ∃ r', r = .plus r' ∧ r'.ms = x := by
  cases r
  case lit c => rcases Re.ms_lit_cases c with e | e | e <;> rw [e] at h <;> cases h
  case plus r' => exact ⟨r', rfl, by simpa using h⟩
  all_goals simp at h

theorem Re.ms_eq_grp {r x : Re} (h : r.ms = .grp x) :
    (∃ r', r = .grp r' ∧ r'.ms = x) ∨ x = Frag.sep true := by
  cases r
  case lit c =>
    rcases Re.ms_lit_cases c with e | e | e <;> rw [e] at h
    · right; cases h; rfl
    · cases h
    · cases h
  case grp r' => exact .inl ⟨r', rfl, by simpa using h⟩
  all_goals simp at h

theorem Re.ms_eq_alt {r x y : Re} (h : r.ms = .alt x y) : ∃ a b, r = .alt a b ∧ a.ms = x ∧ b.ms = y := by
  cases r
  case lit c => rcases Re.ms_lit_cases c with e | e | e <;> rw [e] at h <;> cases h
  case alt a b => exact ⟨a, b, rfl, by simpa using h⟩
  all_goals simp at h

theorem Re.ms_eq_bos {r : Re} (h : r.ms = .bos) : r = .bos := by
  cases r
  case lit c => rcases Re.ms_lit_cases c with e | e | e <;> rw [e] at h <;> cases h
  case bos => rfl
  all_goals simp at h

theorem Re.ms_eq_eos {r : Re} (h : r.ms = .eos) : r = .eos := by
  cases r
  case lit c => rcases Re.ms_lit_cases c with e | e | e <;> rw [e] at h <;> cases h
  case eos => rfl
  all_goals simp at h

theorem Re.ms_eq_cls {r : Re} {n : Bool} {its : List ClsItem} (h : r.ms = .cls n its) :
    (∃ its', r = .cls n its' ∧ mapCls its' = its) ∨ its = [] := by
  cases r
  case lit c =>
    rcases Re.ms_lit_cases c with e | e | e <;> rw [e] at h
    · cases h
    · right; cases h; rfl
    · cases h
  case cls n' its' =>
    simp only [Re.ms_cls, Re.cls.injEq] at h
    obtain ⟨rfl, h2⟩ := h
    exact .inl ⟨its', rfl, h2⟩
  all_goals simp at h

/-- the one place where the pass compares regexes: `Item.isDiv` -/
theorem Re.ms_eq_globstarDiv (r : Re) : r.ms = Frag.globstarDiv true ↔ r = Frag.globstarDiv false := by
  constructor
  · intro h
    unfold Frag.globstarDiv at h
    obtain ⟨r1, rfl, h1⟩ := Re.ms_eq_plus h
    rcases Re.ms_eq_grp h1 with ⟨r2, rfl, h2⟩ | hbad
    · obtain ⟨a, b, rfl, ha, hb⟩ := Re.ms_eq_alt h2
      obtain ⟨a2, b2, rfl, ha2, hb2⟩ := Re.ms_eq_alt hb
      have e1 := Re.ms_eq_bos ha
      have e2 := Re.ms_eq_eos ha2
      subst e1 e2
      unfold Frag.sep Frag.sepItems at hb2
      simp only [ite_true] at hb2
      rcases Re.ms_eq_cls hb2 with ⟨its, rfl, hits⟩ | hbad
      · have := (mapCls_eq_sep its).mp hits
        subst this
        rfl
      · cases hbad
    · unfold Frag.sep at hbad
      cases hbad
  · rintro rfl; rfl

theorem catE_ms (a b : Re) : (catE a b).ms = catE a.ms b.ms := by
  unfold catE
  simp only [Re.ms_eq_eps]
  split <;> simp

theorem catE'_ms (a b : Re) : catE' a.ms b.ms = (catE' a b).ms := by
  unfold catE'
  simp only [Re.ms_eq_eps]
  split
  · rfl
  · split <;> simp

/-! ### fragments -/

namespace Frag
@[simp] theorem sep_ms : (sep false).ms = sep true := by decide
@[simp] theorem pathEop_ms : (pathEop false).ms = pathEop true := by decide
@[simp] theorem noDir_ms : (noDir false).ms = noDir true := by decide
@[simp] theorem seqPath_ms : (seqPath false).ms = seqPath true := by decide
@[simp] theorem seqPathDot_ms : (seqPathDot false).ms = seqPathDot true := by decide
@[simp] theorem pathStar_ms : (pathStar false).ms = pathStar true := by decide
@[simp] theorem pathStarDot1_ms : (pathStarDot1 false).ms = pathStarDot1 true := by decide
@[simp] theorem pathStarDot2_ms : (pathStarDot2 false).ms = pathStarDot2 true := by decide
@[simp] theorem pathGstarDot1_ms : (pathGstarDot1 false).ms = pathGstarDot1 true := by decide
@[simp] theorem pathGstarDot2_ms : (pathGstarDot2 false).ms = pathGstarDot2 true := by decide
@[simp] theorem noDot_ms : noDot.ms = noDot := by decide
@[simp] theorem star_ms : star.ms = star := by decide
@[simp] theorem qmark_ms : qmark.ms = qmark := by decide
@[simp] theorem needCharPath_ms : (needCharPath false).ms = needCharPath true := by decide
@[simp] theorem needChar_ms : needChar.ms = needChar := by decide
@[simp] theorem needSep_ms : (needSep false).ms = needSep true := by decide
@[simp] theorem globstarDiv_ms : (globstarDiv false).ms = globstarDiv true := by decide
@[simp] theorem pathTrail_ms : (pathTrail false).ms = pathTrail true := by decide
@[simp] theorem sepPlus_ms : (sepPlus false).ms = sepPlus true := by decide
@[simp] theorem guardedDot_ms : (guardedDot false).ms = guardedDot true := by decide
end Frag

/-! ### items -/

mutual
def Item.ms : Item → Item
  | .re r => .re r.ms
  | .empty => .empty
  | .bar => .bar
  | .group k c body => .group k c (Item.msL body)
  | .invOpen c body => .invOpen c (Item.msL body)
  | .ph star => .ph star.ms
  | .closed tail eop star => .closed (Item.msL tail) (eop.map Re.ms) star.ms
def Item.msL : List Item → List Item
  | [] => []
  | x :: xs => Item.ms x :: Item.msL xs
end

theorem Item.msL_eq_map (l : List Item) : Item.msL l = l.map Item.ms := by
  induction l with
  | nil => rfl
  | cons x xs ih => simp [Item.msL, ih]

@[simp] theorem Item.msL_nil : Item.msL [] = [] := rfl
@[simp] theorem Item.msL_cons (x : Item) (xs : List Item) :
    Item.msL (x :: xs) = x.ms :: Item.msL xs := rfl
@[simp] theorem Item.msL_append (a b : List Item) :
    Item.msL (a ++ b) = Item.msL a ++ Item.msL b := by
  simp [Item.msL_eq_map]
@[simp] theorem Item.msL_reverse (a : List Item) : Item.msL a.reverse = (Item.msL a).reverse := by
  simp [Item.msL_eq_map]

@[simp] theorem Item.ms_re (r : Re) : (Item.re r).ms = .re r.ms := by simp [Item.ms]
@[simp] theorem Item.ms_empty : Item.empty.ms = .empty := by simp [Item.ms]
@[simp] theorem Item.ms_bar : Item.bar.ms = .bar := by simp [Item.ms]
@[simp] theorem Item.ms_group (k c b) : (Item.group k c b).ms = .group k c (Item.msL b) := by
  simp [Item.ms]
@[simp] theorem Item.ms_invOpen (c b) : (Item.invOpen c b).ms = .invOpen c (Item.msL b) := by
  simp [Item.ms]
@[simp] theorem Item.ms_ph (s : Re) : (Item.ph s).ms = .ph s.ms := by simp [Item.ms]
@[simp] theorem Item.ms_closed (t e s) :
    (Item.closed t e s).ms = .closed (Item.msL t) (e.map Re.ms) s.ms := by simp [Item.ms]

mutual
theorem Item.eraseCap_ms : ∀ x : Item, x.ms.eraseCap = x.eraseCap.ms
  | .group _ _ body => by simp [Item.eraseCap, Item.eraseCapL_ms body]
  | .invOpen _ body => by simp [Item.eraseCap, Item.eraseCapL_ms body]
  | .closed tail _ _ => by simp [Item.eraseCap, Item.eraseCapL_ms tail]
  | .re _ => by simp [Item.eraseCap]
  | .empty => by simp [Item.eraseCap]
  | .bar => by simp [Item.eraseCap]
  | .ph _ => by simp [Item.eraseCap]
theorem Item.eraseCapL_ms : ∀ l : List Item, Item.eraseCapL (Item.msL l) = Item.msL (Item.eraseCapL l)
  | [] => by simp [Item.eraseCapL]
  | x :: xs => by simp [Item.eraseCapL, Item.eraseCap_ms x, Item.eraseCapL_ms xs]
end

@[simp] theorem Item.isDiv_ms (x : Item) : x.ms.isDiv true = x.isDiv false := by
  cases x <;> simp [Item.isDiv]
  next r =>
    rw [Bool.eq_iff_iff]
    simp only [beq_iff_eq]
    exact Re.ms_eq_globstarDiv r

@[simp] theorem Item.isEmpty_ms (x : Item) : x.ms.isEmpty = x.isEmpty := by
  cases x <;> simp [Item.isEmpty]

/-! ### `Parsed.toRe` commutes with the map -/

mutual
theorem Item.size_ms : ∀ x : Item, x.ms.size = x.size
  | .group _ _ body => by simp [Item.size, Item.sizeL_ms body]
  | .invOpen _ body => by simp [Item.size, Item.sizeL_ms body]
  | .closed tail _ _ => by simp [Item.size, Item.sizeL_ms tail]
  | .re _ => by simp [Item.size]
  | .empty => by simp [Item.size]
  | .bar => by simp [Item.size]
  | .ph _ => by simp [Item.size]
theorem Item.sizeL_ms : ∀ l : List Item, Item.sizeL (Item.msL l) = Item.sizeL l
  | [] => by simp [Item.sizeL]
  | x :: xs => by simp [Item.sizeL, Item.size_ms x, Item.sizeL_ms xs]
end

theorem splitBars_ms : ∀ l : List Item, splitBars (Item.msL l) = (splitBars l).map Item.msL
  | [] => by simp [splitBars]
  | x :: rest => by
    have ih := splitBars_ms rest
    cases x
    case bar => simp [splitBars, ih]
    all_goals
      simp only [Item.msL_cons, Item.ms_re, Item.ms_empty, Item.ms_group, Item.ms_invOpen,
        Item.ms_ph, Item.ms_closed, splitBars, ih]
      cases splitBars rest <;> simp

theorem altOfList_ms : ∀ l : List Re, altOfList (l.map Re.ms) = (altOfList l).ms
  | [] => rfl
  | [r] => rfl
  | r :: r2 :: rs => by
    have ih := altOfList_ms (r2 :: rs)
    simp only [List.map_cons] at ih
    simp only [List.map_cons, altOfList, Re.ms_alt, ih]

theorem quant_ms (k : GKind) (cap : Capt) (inner : Re) : quant k cap inner.ms = (quant k cap inner).ms := by
  unfold quant
  cases k <;> cases cap <;> simp

theorem mapM_option_comm' {α β : Type} (f : α → Option β) (g : α → α) (h : β → β)
    (hf : ∀ x, f (g x) = (f x).map h) : ∀ l : List α,
    (l.map g).mapM f = (l.mapM f).map (List.map h) := by
  intro l
  induction l with
  | nil => simp
  | cons a as ih =>
    simp only [List.map_cons, List.mapM_cons, hf, ih]
    cases f a with
    | none => simp
    | some b =>
      cases as.mapM f with
      | none => simp
      | some bs => simp

def SeqToReM (fuel : Nat) : Prop :=
  ∀ l : List Item, Item.seqToRe fuel (Item.msL l) = (Item.seqToRe fuel l).map Re.ms
def ListToReM (fuel : Nat) : Prop :=
  ∀ l : List Item, Item.listToRe fuel (Item.msL l) = (Item.listToRe fuel l).map Re.ms

theorem lr_step_ms (n : Nat) (ihS : SeqToReM n) : ListToReM (n+1) := by
  intro l
  simp only [Item.listToRe, splitBars_ms]
  rw [mapM_option_comm' (Item.seqToRe n) Item.msL Re.ms ihS]
  cases (splitBars l).mapM (Item.seqToRe n) with
  | none => simp
  | some parts => simp [altOfList_ms]

theorem sr_step_ms (n : Nat) (ihS : SeqToReM n) (ihL : ListToReM n) : SeqToReM (n+1) := by
  intro l
  cases l with
  | nil => simp [Item.seqToRe]
  | cons x rest =>
    cases x with
    | re r =>
      simp only [Item.msL_cons, Item.ms_re, Item.seqToRe, ihS rest]
      cases Item.seqToRe n rest <;> simp [catE'_ms]
    | empty => simp only [Item.msL_cons, Item.ms_empty, Item.seqToRe, ihS rest]
    | bar => simp [Item.seqToRe]
    | ph s => simp [Item.seqToRe]
    | closed t e s => simp [Item.seqToRe]
    | group k cap body =>
      simp only [Item.msL_cons, Item.ms_group, Item.seqToRe, ihS rest, ihL body]
      cases Item.listToRe n body <;> cases Item.seqToRe n rest <;> simp [catE'_ms, quant_ms]
    | invOpen cap body =>
      cases rest with
      | nil => simp [Item.seqToRe]
      | cons y rest2 =>
        cases y with
        | closed tail eop star =>
          simp only [Item.msL_cons, Item.ms_invOpen, Item.ms_closed, Item.seqToRe, ihS rest2, ihL body]
          cases hb : Item.listToRe n body with
          | none => simp
          | some b =>
            have hla : ∀ extra : List Item,
                Item.listToRe n (Item.re (Re.grp b.ms) :: (Item.msL tail ++ Item.msL extra)) =
                  (Item.listToRe n (Item.re (Re.grp b) :: (tail ++ extra))).map Re.ms := by
              intro extra
              rw [← ihL]
              simp
            have key : ∀ (extra : List Item),
                ((Item.listToRe n (Item.re (Re.grp b.ms) :: (Item.msL tail ++ Item.msL extra))).bind
                  fun la => (Option.map Re.ms (Item.seqToRe n rest2)).bind fun r =>
                    pure (catE' (if cap = true then ((Re.look true la).cat star.ms).cap
                      else ((Re.look true la).cat star.ms).grp) r)) =
                Option.map Re.ms
                  ((Item.listToRe n (Item.re (Re.grp b) :: (tail ++ extra))).bind
                    fun la => (Item.seqToRe n rest2).bind fun r =>
                      pure (catE' (if cap = true then ((Re.look true la).cat star).cap
                        else ((Re.look true la).cat star).grp) r)) := by
              intro extra
              rw [hla extra]
              cases Item.listToRe n (Item.re (Re.grp b) :: (tail ++ extra)) with
              | none => simp
              | some la =>
                cases Item.seqToRe n rest2 with
                | none => simp
                | some rr =>
                  simp only [Option.map_some, Option.bind_some, Option.pure_def, Option.some.injEq]
                  rw [← catE'_ms]
                  congr 1
                  cases cap <;> simp
            simp only [Option.map_some, Option.bind_eq_bind, Option.bind_some]
            cases eop with
            | none =>
              have := key []
              simpa using this
            | some e =>
              have := key [Item.re e]
              simpa using this
        | re r => simp [Item.seqToRe]
        | empty => simp [Item.seqToRe]
        | bar => simp [Item.seqToRe]
        | ph s => simp [Item.seqToRe]
        | group k c b => simp [Item.seqToRe]
        | invOpen c b => simp [Item.seqToRe]

theorem sr_lr_ms : ∀ fuel, SeqToReM fuel ∧ ListToReM fuel := by
  intro fuel
  induction fuel with
  | zero =>
    constructor
    · intro l; simp [Item.seqToRe]
    · intro l; simp [Item.listToRe]
  | succ n ih => exact ⟨sr_step_ms n ih.1 ih.2, lr_step_ms n ih.1⟩

def Parsed.ms (p : Parsed) : Parsed := { items := Item.msL p.items, ci := p.ci }

/-- **`Parsed.toRe` commutes with the separator map** -/
theorem toRe_ms (p : Parsed) : p.ms.toRe = p.toRe.map Re.ms := by
  unfold Parsed.toRe
  simp only [Parsed.ms, Item.sizeL_ms, (sr_lr_ms _).2 p.items]
  cases Item.listToRe (2 * Item.sizeL p.items + 4) p.items <;> simp

/-! ### the side condition holds of everything the pass builds -/

theorem Lift.sepOK : Lift (fun r => r.sepOK = true) where
  eps := rfl
  lit := fun _ => rfl
  eos := rfl
  cat := fun ha hb => by simp [Re.sepOK, ha, hb]
  alt := fun ha hb => by simp [Re.sepOK, ha, hb]
  grp := fun h => by simpa [Re.sepOK] using h
  cap := fun h => by simpa [Re.sepOK] using h
  gcap := fun h => by simpa [Re.sepOK] using h
  opt := fun h => by simpa [Re.sepOK] using h
  star := fun h => by simpa [Re.sepOK] using h
  plus := fun h => by simpa [Re.sepOK] using h
  lookNeg := fun h => by simpa [Re.sepOK] using h
  sep := fun w => by cases w <;> decide
  pathEop := fun w => by cases w <;> decide
  noDir := fun w => by cases w <;> decide
  seqPath := fun w => by cases w <;> decide
  seqPathDot := fun w => by cases w <;> decide
  pathStar := fun w => by cases w <;> decide
  pathStarDot1 := fun w => by cases w <;> decide
  pathStarDot2 := fun w => by cases w <;> decide
  pathGstarDot1 := fun w => by cases w <;> decide
  pathGstarDot2 := fun w => by cases w <;> decide
  noDot := by decide
  fstar := by decide
  qmark := by decide
  needCharPath := fun w => by cases w <;> decide
  needChar := by decide
  needSep := fun w => by cases w <;> decide
  globstarDiv := fun w => by cases w <;> decide
  pathTrail := fun w => by cases w <;> decide
  sepPlus := fun w => by cases w <;> decide
  noRoot := by decide
  noWinRoot := by decide
  guardedDot := fun w => by cases w <;> decide

/-- in path mode `sequence` puts the class behind the `restrictSequence` guard -/
theorem sequence_shape_path (cfg : Cfg) (hp : cfg.pathname = true) (ps : PS) (it : It) (r : Re)
    (ps' : PS) (it' : It) (h : sequence cfg ps it = some (r, ps', it')) :
    ∃ neg items, r = catE (restrictSequence cfg ps).1 (.cls neg items) := by
  unfold sequence at h
  split at h
  · cases h
  · dsimp only at h
    split at h
    · cases h
    · split at h
      · cases h
      · split at h
        · cases h
        · rename_i itE stE hloop
          split at h
          · simp only [Option.some.injEq, Prod.mk.injEq] at h
            obtain ⟨rfl, _, _⟩ := h
            repeat' split
            all_goals exact ⟨_, _, rfl⟩
          · rename_i hc
            simp [hp] at hc

theorem restrictSequence_guard (cfg : Cfg) (hp : cfg.pathname = true) (hw : cfg.win = false) (ps : PS) :
    (restrictSequence cfg ps).1.sepOK = true ∧ (restrictSequence cfg ps).1.endGuard = true ∧
      (restrictSequence cfg ps).1 ≠ .eps := by
  unfold restrictSequence
  simp only [hp, ite_true, hw]
  repeat' split
  all_goals decide

theorem SeqOK.sepOK_path (cfg : Cfg) (hp : cfg.pathname = true) (hw : cfg.win = false) :
    SeqOK (fun r => r.sepOK = true) (fun _ => True) cfg := by
  intro ps it r ps' it' _ h
  refine ⟨?_, trivial⟩
  obtain ⟨neg, items, rfl⟩ := sequence_shape_path cfg hp ps it r ps' it' h
  obtain ⟨h1, h2, h3⟩ := restrictSequence_guard cfg hp hw ps
  unfold catE
  rw [if_neg h3]
  simp [Re.sepOK, h1, h2, Re.isCls]

end WcModel

import WcModel.Proofs.GlobList
import WcModel.Proofs.Regex
/-
  C12: `_format_path`'s trailing separator, and the NODIR exclusion regex.
-/
namespace WcModel

def endsWithSep (p : List Char) : Bool := p.getLast? == some '/'

theorem getLast?_append_cons {α : Type} (a : List α) (x : α) (b : List α) :
    (a ++ x :: b).getLast? = (x :: b).getLast? := by
  induction a with
  | nil => rfl
  | cons y r ih =>
    cases h : r ++ x :: b with
    | nil => simp at h
    | cons z t => simp [List.getLast?_cons_cons, h] at ih ⊢; exact ih

/-- `os.path.join(p, '')` ends in a separator (unless `p` is empty) -/
theorem pjoin_empty_endsWithSep (a : List Char) (h : a ≠ []) : endsWithSep (pjoin a []) = true := by
  unfold pjoin endsWithSep
  by_cases hl : a = [] ∨ a.getLast? = some '/'
  · rcases hl with h' | h'
    · exact absurd h' h
    · simp [h']
  · simp only [hl, if_false]
    rw [getLast?_append_cons]; rfl

/-- `os.path.join(a, b)` for a non-empty relative `b` ends as `b` ends -/
theorem pjoin_getLast (a b : List Char) (hb : b ≠ []) (hs : b.head? ≠ some '/') :
    (pjoin a b).getLast? = b.getLast? := by
  cases b with
  | nil => exact absurd rfl hb
  | cons c r =>
    have hc : c ≠ '/' := by simpa using hs
    unfold pjoin
    split
    · rename_i heq; cases heq; exact absurd rfl hc
    · split
      · rw [getLast?_append_cons]
      · rw [getLast?_append_cons]
        simp [List.getLast?_cons_cons]

/-- **trailing separator, forced direction**: a result of a pattern that ended with a
    separator, or (MARK) whose candidate was flagged a directory, ends with a separator. -/
theorem formatPath_sep (w : WCtx) (dirOnly : Bool) (v : Y) (hv : v.path ≠ [])
    (h : dirOnly = true ∨ (w.mark = true ∧ v.isDir = true)) : endsWithSep (formatPath w dirOnly v) = true := by
  unfold formatPath
  have : (dirOnly || (w.mark && v.isDir)) = true := by
    rcases h with h | ⟨h1, h2⟩ <;> simp [*]
  simp only [this, if_true]
  exact pjoin_empty_endsWithSep _ hv

/-- … and otherwise the candidate's path is returned as the walk spelled it. -/
theorem formatPath_raw (w : WCtx) (dirOnly : Bool) (v : Y)
    (h : dirOnly = false ∧ (w.mark = false ∨ v.isDir = false)) : formatPath w dirOnly v = v.path := by
  unfold formatPath
  have : (dirOnly || (w.mark && v.isDir)) = false := by
    rcases h with ⟨h0, h1 | h1⟩ <;> simp [*]
  simp [this]

/-! ### the NODIR regex (the POSIX variant on this host since the D16 repair; `(?s:` since D18) -/

/-- under DOTALL `.*?` runs over any characters, newlines included -/
theorem iter_any_dotall (s t : List Char) (b : Bool) :
    Iter (Re.M ⟨true, false⟩ .any) ⟨b, s ++ t⟩ ⟨(if s = [] then b else false), t⟩ := by
  induction s generalizing b with
  | nil => simpa using Iter.refl _
  | cons c r ih =>
    refine Iter.step (b := ⟨false, r ++ t⟩) ?_ ?_
    · refine ⟨c, r ++ t, rfl, ?_, rfl⟩
      simp [anyMatch]
    · have := ih false
      simp only [List.cons_ne_nil, if_false]
      by_cases hre : r = []
      · subst hre; simpa using this
      · simpa [hre] using this

/-- **the NODIR exclusion matches every path that ends in a separator** — every path: since
    the D18 repair (`(?s:`) a newline in the path no longer stops `.*?`. -/
theorem noNixDir_matches_dir (p : List Char) : Frag.noNixDir.fullmatch (p ++ ['/']) = true := by
  rw [Re.fullmatch_iff]
  unfold Re.FullMatch Frag.noNixDir
  refine ⟨false, ?_⟩
  -- ^ (?s: .*? (?: … | /) | … ) $
  simp only [Re.M]
  refine ⟨⟨true, p ++ ['/']⟩, ⟨rfl, trivial⟩, ⟨false, []⟩, ?_, rfl, by decide⟩
  refine Or.inl ⟨⟨(if p = [] then true else false), ['/']⟩, ?_, Or.inr ?_⟩
  · exact iter_any_dotall p ['/'] true
  · refine ⟨'/', [], rfl, ?_, rfl⟩
    decide

/-- the same for the Windows variant (held under FORCEWIN only; used by the matching side) -/
theorem noWinDir_matches_dir (p : List Char) : Frag.noWinDir.fullmatch (p ++ ['/']) = true := by
  rw [Re.fullmatch_iff]
  unfold Re.FullMatch Frag.noWinDir
  refine ⟨false, ?_⟩
  simp only [Re.M]
  refine ⟨⟨true, p ++ ['/']⟩, ⟨rfl, trivial⟩, ⟨false, []⟩, ?_, rfl, by decide⟩
  refine Or.inl ⟨⟨(if p = [] then true else false), ['/']⟩, ?_, Or.inr ?_⟩
  · exact iter_any_dotall p ['/'] true
  · unfold Frag.sep Frag.sepItems
    simp only [Re.M, if_true]
    refine ⟨'/', [], rfl, ?_, rfl⟩
    decide

end WcModel

namespace WcModel

/-- a candidate flagged as a directory is excluded by the NODIR regex — whatever its path is
    (the "no newline" hypothesis this lemma needed before the D18 repair is gone) -/
theorem noNixDir_excludes (w : WCtx) (v : Y) (hin : Frag.noNixDir ∈ w.excl) (hd : v.isDir = true) :
    isExcluded w v = true := by
  unfold isExcluded
  rw [List.any_eq_true]
  refine ⟨Frag.noNixDir, hin, ?_⟩
  unfold exclSubject
  by_cases hl : v.path.getLast? = some '/'
  · have : (v.isDir && v.path.getLast? != some '/') = false := by simp [hl]
    simp only [this, Bool.false_eq_true, if_false]
    -- the path itself ends in a separator
    obtain ⟨q, hq⟩ : ∃ q, v.path = q ++ ['/'] := by
      cases hp : v.path.reverse with
      | nil => simp [List.reverse_eq_nil_iff.1 hp] at hl
      | cons c r =>
        have : v.path = r.reverse ++ [c] := by
          have := congrArg List.reverse hp; simpa using this
        rw [this] at hl
        simp at hl
        exact ⟨r.reverse, by rw [this, hl]⟩
    rw [hq]
    exact noNixDir_matches_dir _
  · have : (v.isDir && v.path.getLast? != some '/') = true := by simp [hd, hl]
    simp only [this, if_true]
    exact noNixDir_matches_dir _

/-- **NODIR wiring**: when NODIR is set, the (POSIX: D16 repaired) no-directory regex is among the
    exclusions `Glob.__init__` builds — whatever the patterns and `exclude=` are -/
theorem parsePatterns_nodir (g : GInit) (exps : List (List (List Char))) (o o' : GlobObj)
    (hn : g.nodir = true) (h : parsePatterns g exps false o = .ok o') : Frag.noNixDir ∈ o'.npatterns := by
  unfold parsePatterns at h
  split at h
  · cases h
  · split at h
    · cases h
    · simp only [hn, Bool.not_false, Bool.and_true, if_true] at h
      split at h <;> cases h <;> simp

theorem parseItemsInto_npatterns_mono (g : GInit) :
    ∀ (items : List (Bool × List Char)) (o o' : GlobObj) (r : Re), r ∈ o.npatterns →
      parseItemsInto g items o = .ok o' → r ∈ o'.npatterns := by
  intro items
  induction items with
  | nil => intro o o' r hr h; simp [parseItemsInto] at h; subst h; exact hr
  | cons it rest ih =>
    intro o o' r hr h
    obtain ⟨neg, p⟩ := it
    cases neg with
    | true =>
      simp only [parseItemsInto] at h
      split at h
      · cases h
      · exact ih _ _ r (by simp [hr]) h
    | false =>
      simp only [parseItemsInto] at h
      split at h
      · cases h
      · exact ih _ _ r (by simpa using hr) h

theorem parsePatterns_npatterns_mono (g : GInit) (exps : List (List (List Char))) (fn : Bool) (o o' : GlobObj)
    (r : Re) (hr : r ∈ o.npatterns) (h : parsePatterns g exps fn o = .ok o') : r ∈ o'.npatterns := by
  unfold parsePatterns at h
  split at h
  · cases h
  · rename_i o1 h1
    have m1 : r ∈ o1.npatterns := parseItemsInto_npatterns_mono g _ _ _ r hr h1
    split at h
    · cases h
    · rename_i o2 h2
      have m2 : r ∈ o2.npatterns := by
        split at h2
        · cases hs : globSplit { g.flags with globstar := true } g.isBytes ['*', '*'] with
          | error e => simp [hs, Except.map] at h2
          | ok ps => simp [hs, Except.map] at h2; subst h2; exact m1
        · cases h2; exact m1
      split at h
      · simp only at h
        split at h <;> cases h <;> simp [m2]
      · simp only at h
        split at h <;> cases h <;> exact m2

/-- `Glob.__init__` as a whole: NODIR ⇒ the no-directory regex is an exclusion -/
theorem build_nodir (g : GInit) (exps : List (List (List Char))) (excl : Option (List (List (List Char))))
    (o : GlobObj) (hn : g.nodir = true) (h : GlobObj.build g (some exps) excl = .ok o) :
    Frag.noNixDir ∈ o.npatterns := by
  unfold GlobObj.build at h
  simp only at h
  split at h
  · cases h
  · rename_i o1 h1
    have m1 := parsePatterns_nodir g exps _ o1 hn h1
    cases excl with
    | none => simp at h; subst h; exact m1
    | some ex => simp at h; exact parsePatterns_npatterns_mono g ex true o1 o _ m1 h

end WcModel
